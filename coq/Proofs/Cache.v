(* Lemmas about the cache model (Model/Cache.v) used by Props/C23.v and by
   Proofs/Retire.v. *)
From Coq Require Import List ZArith NArith Bool Lia ZifyN ZifyNat ZifyBool.
Require Import Mixin.Base.Res Mixin.Model.Cache.
Import ListNotations.
Open Scope N_scope.

(* ---- sets and maps ------------------------------------------------------- *)

Lemma mem_In : forall h l, mem h l = true <-> In h l.
Proof.
  intros h l. unfold mem. rewrite existsb_exists. split.
  - intros [x [Hin He]]. apply N.eqb_eq in He. subst. exact Hin.
  - intros Hin. exists h. split; [exact Hin | apply N.eqb_refl].
Qed.

Lemma mem_false : forall h l, mem h l = false <-> ~ In h l.
Proof.
  intros h l. rewrite <- mem_In. destruct (mem h l); split; intro H; congruence.
Qed.

Lemma key_eqb_eq : forall a b, key_eqb a b = true <-> a = b.
Proof.
  intros [a1 a2] [b1 b2]. unfold key_eqb. cbn [fst snd].
  rewrite andb_true_iff, !N.eqb_eq. split.
  - intros [H1 H2]. subst. reflexivity.
  - intros H. inversion H. split; reflexivity.
Qed.

Lemma In_qins : forall k a q, In k (qins a q) <-> k = a \/ In k q.
Proof.
  intros k a q. induction q as [|x q IH]; cbn [qins].
  - cbn. intuition.
  - destruct (key_eqb a x) eqn:E.
    + apply key_eqb_eq in E. subst x. cbn. intuition.
    + destruct (key_ltb a x); cbn [In]; [intuition|]. rewrite IH. intuition.
Qed.

Lemma In_oins : forall x h l, In x (oins h l) <-> x = h \/ In x l.
Proof.
  intros x h l. induction l as [|y l IH]; cbn [oins].
  - cbn. intuition.
  - destruct (h =? y) eqn:E.
    + apply N.eqb_eq in E. subst y. cbn. intuition.
    + destruct (h <? y); cbn [In]; [intuition|]. rewrite IH. intuition.
Qed.

Lemma In_odel : forall x h l, In x (odel h l) <-> In x l /\ x <> h.
Proof.
  intros x h l. unfold odel. rewrite filter_In, negb_true_iff, N.eqb_neq. reflexivity.
Qed.

Lemma In_fold_odel : forall pr o x,
  In x (fold_left (fun o h => odel h o) pr o) <-> In x o /\ ~ In x pr.
Proof.
  induction pr as [|p pr IH]; intros o x; cbn [fold_left].
  - cbn. intuition.
  - rewrite IH, In_odel. cbn [In]. intuition.
Qed.

Lemma aget_aset_same : forall A h (v : A) m, aget h (aset h v m) = Some v.
Proof.
  intros A h v m. induction m as [|[k w] m IH]; cbn [aset aget].
  - rewrite N.eqb_refl. reflexivity.
  - destruct (h =? k) eqn:E; [cbn [aget]; rewrite N.eqb_refl; reflexivity|].
    destruct (h <? k); cbn [aget].
    + rewrite N.eqb_refl. reflexivity.
    + rewrite N.eqb_sym, E. exact IH.
Qed.

Lemma aget_aset_other : forall A h h' (v : A) m, h' <> h -> aget h' (aset h v m) = aget h' m.
Proof.
  intros A h h' v m Hne. induction m as [|[k w] m IH]; cbn [aset aget].
  - destruct (h =? h') eqn:E; [apply N.eqb_eq in E; congruence | reflexivity].
  - destruct (h =? k) eqn:E.
    + apply N.eqb_eq in E. subst k. cbn [aget].
      destruct (h =? h') eqn:E2; [apply N.eqb_eq in E2; congruence | reflexivity].
    + destruct (h <? k); cbn [aget].
      * destruct (h =? h') eqn:E2; [apply N.eqb_eq in E2; congruence | reflexivity].
      * destruct (k =? h'); [reflexivity | exact IH].
Qed.

Lemma aget_adel_same : forall A h (m : list (N * A)), aget h (adel h m) = None.
Proof.
  intros A h m. induction m as [|[k w] m IH]; cbn [adel filter aget fst]; [reflexivity|].
  destruct (k =? h) eqn:E; cbn [negb].
  - exact IH.
  - cbn [aget]. rewrite E. exact IH.
Qed.

Lemma aget_adel_other : forall A h h' (m : list (N * A)), h' <> h -> aget h' (adel h m) = aget h' m.
Proof.
  intros A h h' m Hne. induction m as [|[k w] m IH]; cbn [adel filter aget fst]; [reflexivity|].
  destruct (k =? h) eqn:E; cbn [negb].
  - apply N.eqb_eq in E. subst k.
    destruct (h =? h') eqn:E2; [apply N.eqb_eq in E2; congruence | exact IH].
  - cbn [aget]. destruct (k =? h'); [reflexivity | exact IH].
Qed.

(* ---- the operations that never schedule ----------------------------------- *)

Lemma store_queue : forall h b c, queue (store_tx h b c) = queue c /\ order (store_tx h b c) = order c.
Proof.
  intros h b c. unfold store_tx. destruct (aget h (payload c)); split; reflexivity.
Qed.

Lemma remove_queue : forall hs c, queue (remove_txs hs c) = queue c.
Proof.
  induction hs as [|a hs IH]; intros c; unfold remove_txs in *; cbn [fold_left]; [reflexivity|].
  rewrite IH. reflexivity.
Qed.

Lemma remove_payload : forall hs c h,
  aget h (payload (remove_txs hs c)) = if mem h hs then None else aget h (payload c).
Proof.
  induction hs as [|a hs IH]; intros c h; unfold remove_txs in *; cbn [fold_left]; [reflexivity|].
  rewrite IH. cbn [mem existsb remove_one payload]. fold (mem h hs).
  destruct (h =? a) eqn:E; cbn [orb].
  - apply N.eqb_eq in E. subst a. rewrite aget_adel_same. destruct (mem h hs); reflexivity.
  - apply N.eqb_neq in E. rewrite aget_adel_other by exact E. reflexivity.
Qed.

Lemma remove_order : forall hs c x, In x (order (remove_txs hs c)) <-> In x (order c) /\ ~ In x hs.
Proof.
  induction hs as [|a hs IH]; intros c x; unfold remove_txs in *; cbn [fold_left].
  - cbn. intuition.
  - rewrite IH. cbn [remove_one order]. rewrite In_odel. cbn [In]. intuition.
Qed.

(* ---- the scan of a retrieval -------------------------------------------------- *)

Lemma scan_spec : forall pay limit q seen n out pr rest,
  scan pay limit q seen n = Ok (out, pr, rest) ->
  exists pre, q = pre ++ rest /\ pr = map snd pre /\
    (forall h b, In (h, b) out -> In h pr /\ ~ In h seen /\ aget h pay = Some b /\ b <> 0) /\
    NoDup (map fst out) /\
    (Z.of_nat (length out) <= Z.max 0 (limit - n))%Z.
Proof.
  intros pay limit q. induction q as [|[ts h] q IH]; intros seen n out pr rest Hs; cbn [scan] in Hs.
  - inversion Hs; subst. exists []. cbn.
    split; [reflexivity|]. split; [reflexivity|]. split; [intros ? ? []|]. split; [constructor | lia].
  - destruct (n <? limit)%Z eqn:El.
    2:{ inversion Hs; subst. exists []. cbn.
        split; [reflexivity|]. split; [reflexivity|]. split; [intros ? ? []|]. split; [constructor | lia]. }
    destruct (mem h seen) eqn:Em.
    + destruct (scan pay limit q seen n) as [[[o1 p1] r1]| |] eqn:Er; cbn [bind] in Hs; try discriminate.
      inversion Hs; subst. destruct (IH _ _ _ _ _ Er) as [pre [Hq [Hp [Ho [Hn Hl]]]]].
      exists ((ts, h) :: pre). subst. cbn [app map snd].
      split; [reflexivity|]. split; [reflexivity|]. split; [|split; assumption].
      intros h' b' Hin. destruct (Ho _ _ Hin) as [H1 [H2 [H3 H4]]].
      split; [right; exact H1|]. split; [exact H2|]. split; assumption.
    + apply mem_false in Em.
      destruct (aget h pay) as [b|] eqn:Eg.
      * destruct (b =? 0) eqn:Eb; [discriminate|]. apply N.eqb_neq in Eb.
        destruct (scan pay limit q (h :: seen) (n + 1)%Z) as [[[o1 p1] r1]| |] eqn:Er; cbn [bind] in Hs; try discriminate.
        inversion Hs; subst. destruct (IH _ _ _ _ _ Er) as [pre [Hq [Hp [Ho [Hn Hl]]]]].
        exists ((ts, h) :: pre). subst. cbn [app map snd fst length].
        split; [reflexivity|]. split; [reflexivity|]. split; [|split].
        -- intros h' b' [Hin|Hin].
           ++ inversion Hin; subst. split; [left; reflexivity|]. split; [exact Em|]. split; assumption.
           ++ destruct (Ho _ _ Hin) as [H1 [H2 [H3 H4]]].
              split; [right; exact H1|]. split; [|split; assumption].
              intro Hc. apply H2. right. exact Hc.
        -- constructor; [|exact Hn]. intro Hc. apply in_map_iff in Hc. destruct Hc as [[h' b'] [Hf Hin]].
           cbn in Hf. subst h'. destruct (Ho _ _ Hin) as [_ [Hns _]]. apply Hns. left. reflexivity.
        -- apply Z.ltb_lt in El. lia.
      * destruct (scan pay limit q (h :: seen) n) as [[[o1 p1] r1]| |] eqn:Er; cbn [bind] in Hs; try discriminate.
        inversion Hs; subst. destruct (IH _ _ _ _ _ Er) as [pre [Hq [Hp [Ho [Hn Hl]]]]].
        exists ((ts, h) :: pre). subst. cbn [app map snd].
        split; [reflexivity|]. split; [reflexivity|]. split; [|split; assumption].
        intros h' b' Hin. destruct (Ho _ _ Hin) as [H1 [H2 [H3 H4]]].
        split; [right; exact H1|]. split; [|split; assumption].
        intro Hc. apply H2. right. exact Hc.
Qed.

(* with a limit at least the number of entries the scan consumes everything and
   returns every hash that has a body *)
Lemma scan_full : forall pay limit q seen n out pr rest,
  scan pay limit q seen n = Ok (out, pr, rest) ->
  (n + Z.of_nat (length q) <= limit)%Z ->
  rest = [] /\
  forall ts h, In (ts, h) q -> ~ In h seen -> aget h pay <> None -> In h (map fst out).
Proof.
  intros pay limit q. induction q as [|[ts0 h0] q IH]; intros seen n out pr rest Hs Hl; cbn [scan] in Hs.
  - inversion Hs; subst. split; [reflexivity|]. intros ? ? [].
  - cbn [length] in Hl. destruct (n <? limit)%Z eqn:El; [|apply Z.ltb_ge in El; lia].
    destruct (mem h0 seen) eqn:Em.
    + destruct (scan pay limit q seen n) as [[[o1 p1] r1]| |] eqn:Er; cbn [bind] in Hs; try discriminate.
      inversion Hs; subst. destruct (IH _ _ _ _ _ Er ltac:(lia)) as [Hr Hall]. split; [exact Hr|].
      intros ts h [Hin|Hin] Hns Hb.
      * inversion Hin; subst. apply mem_In in Em. contradiction.
      * exact (Hall _ _ Hin Hns Hb).
    + apply mem_false in Em. destruct (aget h0 pay) as [b|] eqn:Eg.
      * destruct (b =? 0) eqn:Eb; [discriminate|].
        destruct (scan pay limit q (h0 :: seen) (n + 1)%Z) as [[[o1 p1] r1]| |] eqn:Er; cbn [bind] in Hs; try discriminate.
        inversion Hs; subst. destruct (IH _ _ _ _ _ Er ltac:(lia)) as [Hr Hall]. split; [exact Hr|].
        intros ts h Hin Hns Hb. cbn [map fst].
        destruct (N.eq_dec h h0) as [He|He]; [left; congruence|]. right.
        destruct Hin as [Hin|Hin]; [inversion Hin; congruence|].
        apply (Hall _ _ Hin); [|exact Hb]. intros [Hc|Hc]; [congruence | contradiction].
      * destruct (scan pay limit q (h0 :: seen) n) as [[[o1 p1] r1]| |] eqn:Er; cbn [bind] in Hs; try discriminate.
        inversion Hs; subst. destruct (IH _ _ _ _ _ Er ltac:(lia)) as [Hr Hall]. split; [exact Hr|].
        intros ts h Hin Hns Hb.
        destruct (N.eq_dec h h0) as [He|He]; [subst; congruence|].
        destruct Hin as [Hin|Hin]; [inversion Hin; congruence|].
        apply (Hall _ _ Hin); [|exact Hb]. intros [Hc|Hc]; [congruence | contradiction].
Qed.

(* ---- retrieval ------------------------------------------------------------------ *)

Lemma retrieve_spec : forall limit c out c',
  retrieve limit c = Ok (out, c') ->
  exists pre,
    queue c = pre ++ queue c' /\
    payload c' = payload c /\
    (forall x, In x (order c') <-> In x (order c) /\ ~ In x (map snd pre)) /\
    (forall h b, In (h, b) out -> In h (map snd pre) /\ aget h (payload c) = Some b /\ b <> 0) /\
    NoDup (map fst out) /\
    (Z.of_nat (length out) <= Z.max 0 limit)%Z.
Proof.
  intros limit c out c' Hr. unfold retrieve in Hr.
  destruct (scan (payload c) limit (queue c) [] 0%Z) as [[[o1 p1] r1]| |] eqn:Es; cbn [bind] in Hr; try discriminate.
  inversion Hr; subst. destruct (scan_spec _ _ _ _ _ _ _ _ Es) as [pre [Hq [Hp [Ho [Hn Hl]]]]].
  exists pre. cbn [queue payload order]. subst p1.
  split; [exact Hq|]. split; [reflexivity|]. split; [|split; [|split]].
  - intros x. apply In_fold_odel.
  - intros h b Hin. destruct (Ho _ _ Hin) as [H1 [_ [H3 H4]]]. split; [exact H1|]. split; assumption.
  - exact Hn.
  - lia.
Qed.

Lemma retrieve_shape : forall limit c out c',
  retrieve limit c = Ok (out, c') ->
  NoDup (map fst out) /\ (Z.of_nat (length out) <= Z.max 0 limit)%Z.
Proof.
  intros limit c out c' Hr. destruct (retrieve_spec _ _ _ _ Hr) as [pre [_ [_ [_ [_ [Hn Hl]]]]]].
  split; assumption.
Qed.

Lemma in_map_snd : forall (h : N) (pre : list qkey), In h (map snd pre) -> exists ts, In (ts, h) pre.
Proof.
  intros h pre Hin. apply in_map_iff in Hin. destruct Hin as [[ts h'] [He Hin]]. cbn in He. subst h'.
  exists ts. exact Hin.
Qed.

Lemma retrieve_only_queued : forall limit c out c' h b,
  retrieve limit c = Ok (out, c') -> In (h, b) out ->
  (exists ts, In (ts, h) (queue c)) /\ aget h (payload c) = Some b.
Proof.
  intros limit c out c' h b Hr Hin. destruct (retrieve_spec _ _ _ _ Hr) as [pre [Hq [_ [_ [Ho _]]]]].
  destruct (Ho _ _ Hin) as [Hp [Hb _]]. split; [|exact Hb].
  destruct (in_map_snd _ _ Hp) as [ts Hts]. exists ts. rewrite Hq. apply in_or_app. left. exact Hts.
Qed.

Lemma retrieve_body_kept : forall limit c out c',
  retrieve limit c = Ok (out, c') ->
  payload c' = payload c /\ forall h b, In (h, b) out -> get_tx h c' = Ok (Some b).
Proof.
  intros limit c out c' Hr. destruct (retrieve_spec _ _ _ _ Hr) as [pre [_ [Hp [_ [Ho _]]]]].
  split; [exact Hp|]. intros h b Hin. destruct (Ho _ _ Hin) as [_ [Hb Hz]].
  unfold get_tx, read_body. rewrite Hp, Hb. apply N.eqb_neq in Hz. rewrite Hz. reflexivity.
Qed.

(* the order record of every returned hash is deleted: the next queueing writes a new entry *)
Lemma retrieve_clears_order : forall limit c out c' h,
  retrieve limit c = Ok (out, c') -> In h (map fst out) -> ~ In h (order c').
Proof.
  intros limit c out c' h Hr Hin. destruct (retrieve_spec _ _ _ _ Hr) as [pre [_ [_ [Hord [Ho _]]]]].
  apply in_map_iff in Hin. destruct Hin as [[h' b] [He Hin]]. cbn in He. subst h'.
  intro Hc. apply Hord in Hc. destruct Hc as [_ Hc]. apply Hc. apply (Ho _ _ Hin).
Qed.

(* ---- eligibility ----------------------------------------------------------------- *)

Definition eligible (c : cache) (h : N) : Prop :=
  (exists ts, In (ts, h) (queue c)) /\ exists b, aget h (payload c) = Some b.

(* an order record is always backed by a queue entry and a body *)
Definition cache_wf (c : cache) : Prop := forall h, In h (order c) -> eligible c h.

Lemma wf_empty : cache_wf empty_cache.
Proof. intros h []. Qed.

Lemma eligible_queue_mono : forall ts h b c x, eligible c x -> eligible (queue_tx ts h b c) x.
Proof.
  intros ts h b c x [[t Ht] [bx Hb]]. unfold queue_tx. destruct (mem h (order c)); [split; eauto|].
  split; cbn [queue payload].
  - exists t. apply In_qins. right. exact Ht.
  - destruct (N.eq_dec x h) as [He|He].
    + subst. rewrite aget_aset_same. eauto.
    + rewrite aget_aset_other by exact He. eauto.
Qed.

Lemma queue_tx_eligible : forall ts h b c, cache_wf c -> eligible (queue_tx ts h b c) h.
Proof.
  intros ts h b c Hwf. unfold queue_tx. destruct (mem h (order c)) eqn:Em.
  - apply mem_In in Em. exact (Hwf _ Em).
  - split; cbn [queue payload].
    + exists ts. apply In_qins. left. reflexivity.
    + exists b. apply aget_aset_same.
Qed.

Lemma wf_queue : forall ts h b c, cache_wf c -> cache_wf (queue_tx ts h b c).
Proof.
  intros ts h b c Hwf x Hx. destruct (mem h (order c)) eqn:Em.
  - unfold queue_tx in *. rewrite Em in *. exact (Hwf _ Hx).
  - destruct (N.eq_dec x h) as [He|He].
    + subst. apply queue_tx_eligible. exact Hwf.
    + apply eligible_queue_mono. apply Hwf. unfold queue_tx in Hx. rewrite Em in Hx. cbn [order] in Hx.
      apply In_oins in Hx. destruct Hx; [contradiction | assumption].
Qed.

Lemma wf_store : forall h b c, cache_wf c -> cache_wf (store_tx h b c).
Proof.
  intros h b c Hwf x Hx. unfold store_tx in *. destruct (aget h (payload c)) eqn:Eg; [exact (Hwf _ Hx)|].
  cbn [order] in Hx. destruct (Hwf _ Hx) as [Hq [bx Hb]]. split; cbn [queue payload]; [exact Hq|].
  destruct (N.eq_dec x h) as [He|He]; [subst; congruence|]. rewrite aget_aset_other by exact He. eauto.
Qed.

Lemma wf_remove : forall hs c, cache_wf c -> cache_wf (remove_txs hs c).
Proof.
  intros hs c Hwf x Hx. apply remove_order in Hx. destruct Hx as [Hx Hn].
  destruct (Hwf _ Hx) as [Hq [bx Hb]]. split.
  - rewrite remove_queue. exact Hq.
  - rewrite remove_payload. apply mem_false in Hn. rewrite Hn. eauto.
Qed.

Lemma wf_retrieve : forall limit c out c', cache_wf c -> retrieve limit c = Ok (out, c') -> cache_wf c'.
Proof.
  intros limit c out c' Hwf Hr x Hx. destruct (retrieve_spec _ _ _ _ Hr) as [pre [Hq [Hp [Hord _]]]].
  apply Hord in Hx. destruct Hx as [Hx Hn]. destruct (Hwf _ Hx) as [[ts Hts] Hb]. split.
  - exists ts. rewrite Hq in Hts. apply in_app_or in Hts. destruct Hts as [Hts|Hts]; [|exact Hts].
    exfalso. apply Hn. apply in_map_iff. exists (ts, x). split; [reflexivity | exact Hts].
  - rewrite Hp. exact Hb.
Qed.

Lemma wf_step : forall c o, cache_wf c -> cache_wf (fst (step c o)).
Proof.
  intros c o Hwf. destruct o; cbn [step fst].
  - apply wf_queue. exact Hwf.
  - apply wf_store. exact Hwf.
  - destruct (retrieve limit c) as [[out c']| |] eqn:Er; cbn [fst]; try exact Hwf.
    exact (wf_retrieve _ _ _ _ Hwf Er).
  - apply wf_remove. exact Hwf.
  - exact Hwf.
Qed.

(* an eligible transaction is returned by any successful retrieval whose limit
   covers the queue *)
Lemma eligible_retrieved : forall limit c out c' h,
  eligible c h -> retrieve limit c = Ok (out, c') ->
  (Z.of_nat (length (queue c)) <= limit)%Z ->
  exists b, In (h, b) out /\ aget h (payload c) = Some b.
Proof.
  intros limit c out c' h [[ts Hts] [b Hb]] Hr Hl. unfold retrieve in Hr.
  destruct (scan (payload c) limit (queue c) [] 0%Z) as [[[o1 p1] r1]| |] eqn:Es; cbn [bind] in Hr; try discriminate.
  inversion Hr; subst. destruct (scan_full _ _ _ _ _ _ _ _ Es ltac:(lia)) as [_ Hall].
  assert (Hin : In h (map fst out)).
  { apply (Hall ts h Hts); [intros [] | congruence]. }
  apply in_map_iff in Hin. destruct Hin as [[h' b'] [He Hin]]. cbn in He. subst h'.
  exists b'. split; [exact Hin|]. destruct (scan_spec _ _ _ _ _ _ _ _ Es) as [pre [_ [_ [Ho _]]]].
  apply (Ho _ _ Hin).
Qed.

(* ---- accounting over histories --------------------------------------------------- *)

Lemma count_app : forall h a b, count h (a ++ b) = (count h a + count h b)%nat.
Proof. intros. unfold count. apply count_occ_app. Qed.

Lemma count_qins : forall h k q,
  (count h (map snd (qins k q)) <= count h (map snd q) + (if N.eq_dec (snd k) h then 1 else 0))%nat.
Proof.
  intros h k q. induction q as [|x q IH]; cbn [qins].
  - unfold count. cbn [map count_occ]. destruct (N.eq_dec (snd k) h); lia.
  - destruct (key_eqb k x); [destruct (N.eq_dec (snd k) h); lia|].
    destruct (key_ltb k x).
    + unfold count. cbn [map count_occ]. destruct (N.eq_dec (snd k) h); destruct (N.eq_dec (snd x) h); lia.
    + unfold count in *. cbn [map count_occ]. destruct (N.eq_dec (snd x) h); lia.
Qed.

Lemma count_nodup_le : forall h l pr,
  NoDup l -> (In h l -> In h pr) -> (count h l <= count h pr)%nat.
Proof.
  intros h l pr Hn Hin. unfold count.
  destruct (in_dec N.eq_dec h l) as [Hi|Hi].
  - assert (H1 : count_occ N.eq_dec l h = 1%nat) by (apply NoDup_count_occ'; assumption).
    assert (H2 : (count_occ N.eq_dec pr h > 0)%nat) by (apply count_occ_In; auto). lia.
  - apply (count_occ_not_In N.eq_dec) in Hi. lia.
Qed.

Definition acct_inv (h : N) (t : trace) : Prop :=
  (count h (t_returned t) + pending h (t_cache t) <= count h (t_created t))%nat.

Lemma tstep_inv : forall h t o, acct_inv h t -> acct_inv h (tstep t o).
Proof.
  intros h t o Hi. unfold acct_inv, tstep in *. destruct o; cbn [step].
  - (* queue *) cbn [t_cache t_returned t_created]. rewrite app_nil_r. unfold queue_tx.
    destruct (mem h0 (order (t_cache t))) eqn:Em.
    + rewrite app_nil_r. exact Hi.
    + unfold pending in *. cbn [queue]. rewrite count_app.
      pose proof (count_qins h (ts, h0) (queue (t_cache t))) as Hq. cbn [snd] in Hq.
      unfold count at 4. cbn [count_occ]. destruct (N.eq_dec h0 h); lia.
  - (* store *) cbn [t_cache t_returned t_created]. rewrite !app_nil_r. unfold pending in *.
    destruct (store_queue h0 b (t_cache t)) as [Hq _]. rewrite Hq. exact Hi.
  - (* retrieve *)
    destruct (retrieve limit (t_cache t)) as [[out c']| |] eqn:Er; cbn [t_cache t_returned t_created];
      rewrite ?app_nil_r; try exact Hi.
    destruct (retrieve_spec _ _ _ _ Er) as [pre [Hq [_ [_ [Ho [Hn _]]]]]].
    unfold pending in *. rewrite Hq in Hi. rewrite map_app, count_app in Hi. rewrite count_app.
    assert (Hle : (count h (map fst out) <= count h (map snd pre))%nat).
    { apply count_nodup_le; [exact Hn|]. intro Hin. apply in_map_iff in Hin.
      destruct Hin as [[h' b] [He Hin]]. cbn in He. subst h'. apply (Ho _ _ Hin). }
    unfold qkey in *. lia.
  - (* remove *) cbn [t_cache t_returned t_created]. rewrite !app_nil_r. unfold pending in *.
    rewrite remove_queue. exact Hi.
  - (* get *) cbn [t_cache t_returned t_created]. rewrite !app_nil_r. exact Hi.
Qed.

Lemma run_inv : forall h ops t, acct_inv h t -> acct_inv h (run ops t).
Proof.
  intros h ops. induction ops as [|o ops IH]; intros t Hi; unfold run in *; cbn [fold_left]; [exact Hi|].
  apply IH. apply tstep_inv. exact Hi.
Qed.

Lemma run_created : forall h ops t,
  (count h (t_created (run ops t)) <= count h (t_created t) + queue_ops h ops)%nat.
Proof.
  intros h ops. induction ops as [|o ops IH]; intros t; unfold run in *; cbn [fold_left].
  - unfold queue_ops. cbn. lia.
  - specialize (IH (tstep t o)). unfold queue_ops in *. cbn [filter].
    assert (Hs : (count h (t_created (tstep t o)) <= count h (t_created t) +
                  (if match o with OQueue _ h' _ => (h' =? h)%N | _ => false end then 1 else 0))%nat).
    { unfold tstep. destruct o; cbn [step t_created]; rewrite ?app_nil_r; try lia.
      - destruct (mem h0 (order (t_cache t))); rewrite ?app_nil_r; [destruct (h0 =? h); lia|].
        rewrite count_app. unfold count at 2. cbn [count_occ].
        destruct (N.eq_dec h0 h) as [He|He].
        + subst. rewrite N.eqb_refl. lia.
        + destruct (h0 =? h); lia.
      - destruct (retrieve limit (t_cache t)) as [[out c']| |]; cbn [t_created]; rewrite ?app_nil_r; lia. }
    destruct (match o with OQueue _ h' _ => (h' =? h)%N | _ => false end); cbn [length] in *; lia.
Qed.

Lemma accounting : forall ops h,
  let t := run ops start in
  (count h (t_returned t) + pending h (t_cache t) <= count h (t_created t))%nat /\
  (count h (t_created t) <= queue_ops h ops)%nat.
Proof.
  intros ops h t. split.
  - apply run_inv. unfold acct_inv, start, pending. cbn. lia.
  - pose proof (run_created h ops start) as H. cbn in H. exact H.
Qed.


(* ---- origin of queue entries; consequences over histories ------------------------- *)

Lemma step_queue_origin : forall c o k,
  In k (queue (fst (step c o))) -> In k (queue c) \/ exists b, o = OQueue (fst k) (snd k) b.
Proof.
  intros c o k Hin. destruct o; cbn [step fst] in Hin.
  - unfold queue_tx in Hin. destruct (mem h (order c)); [left; exact Hin|]. cbn [queue] in Hin.
    apply In_qins in Hin. destruct Hin as [Hin|Hin]; [|left; exact Hin].
    right. subst k. cbn [fst snd]. exists b. reflexivity.
  - left. destruct (store_queue h b c) as [Hq _]. rewrite Hq in Hin. exact Hin.
  - left. destruct (retrieve limit c) as [[out c']| |] eqn:Er; cbn [fst] in Hin; try exact Hin.
    destruct (retrieve_spec _ _ _ _ Er) as [pre [Hq _]]. rewrite Hq. apply in_or_app. right. exact Hin.
  - left. rewrite remove_queue in Hin. exact Hin.
  - left. exact Hin.
Qed.

Lemma returned_was_queued : forall ops h,
  In h (t_returned (run ops start)) -> (1 <= queue_ops h ops)%nat.
Proof.
  intros ops h Hin. destruct (accounting ops h) as [H1 H2]. cbn zeta in *.
  assert (H3 : (count h (t_returned (run ops start)) > 0)%nat) by (apply count_occ_In; exact Hin).
  lia.
Qed.

Lemma requeue_eligible : forall l1 c out c1 h ts b,
  retrieve l1 c = Ok (out, c1) -> In h (map fst out) -> b <> 0 ->
  let c2 := queue_tx ts h b c1 in
  In (ts, h) (queue c2) /\ get_tx h c2 = Ok (Some b) /\
  forall l2 out2 c3, retrieve l2 c2 = Ok (out2, c3) ->
    (Z.of_nat (length (queue c2)) <= l2)%Z -> In (h, b) out2.
Proof.
  intros l1 c out c1 h ts b Hr Hin Hb c2.
  pose proof (retrieve_clears_order _ _ _ _ _ Hr Hin) as Hno. apply mem_false in Hno.
  assert (Hc2 : c2 = mkCache (qins (ts, h) (queue c1)) (oins h (order c1)) (aset h b (payload c1))).
  { unfold c2, queue_tx. rewrite Hno. reflexivity. }
  assert (Hq : In (ts, h) (queue c2)) by (rewrite Hc2; cbn [queue]; apply In_qins; left; reflexivity).
  assert (Hp : aget h (payload c2) = Some b) by (rewrite Hc2; cbn [payload]; apply aget_aset_same).
  split; [exact Hq|]. split.
  - unfold get_tx, read_body. rewrite Hp. apply N.eqb_neq in Hb. rewrite Hb. reflexivity.
  - intros l2 out2 c3 Hr2 Hl.
    assert (He : eligible c2 h) by (split; eauto).
    destruct (eligible_retrieved _ _ _ _ _ He Hr2 Hl) as [b' [Hin2 Hb']]. congruence.
Qed.

Lemma remove_deletes_body : forall hs c h,
  In h hs -> get_tx h (remove_txs hs c) = Ok None /\ queue (remove_txs hs c) = queue c.
Proof.
  intros hs c h Hin. split; [|apply remove_queue].
  unfold get_tx, read_body. rewrite remove_payload. apply mem_In in Hin. rewrite Hin. reflexivity.
Qed.

Lemma store_not_eligible : forall h b c,
  queue (store_tx h b c) = queue c /\ order (store_tx h b c) = order c /\
  forall limit out c', retrieve limit (store_tx h b c) = Ok (out, c') ->
    forall x bx, In (x, bx) out -> exists ts, In (ts, x) (queue c).
Proof.
  intros h b c. destruct (store_queue h b c) as [Hq Ho]. split; [exact Hq|]. split; [exact Ho|].
  intros limit out c' Hr x bx Hin. destruct (retrieve_only_queued _ _ _ _ _ _ Hr Hin) as [Hts _].
  rewrite Hq in Hts. exact Hts.
Qed.

(* ---- queue keys form a strictly sorted set: a consumed entry is gone ---------------- *)

Fixpoint sortedq (q : list qkey) : Prop :=
  match q with
  | [] => True
  | x :: q' => (forall y, In y q' -> key_ltb x y = true) /\ sortedq q'
  end.

Lemma key_ltb_trans : forall a b c, key_ltb a b = true -> key_ltb b c = true -> key_ltb a c = true.
Proof. intros [a1 a2] [b1 b2] [c1 c2]. unfold key_ltb. cbn [fst snd]. lia. Qed.

Lemma key_ltb_total : forall a b, key_eqb a b = false -> key_ltb a b = false -> key_ltb b a = true.
Proof. intros [a1 a2] [b1 b2]. unfold key_ltb, key_eqb. cbn [fst snd]. lia. Qed.

Lemma key_ltb_irrefl : forall a, key_ltb a a = false.
Proof. intros [a1 a2]. unfold key_ltb. cbn [fst snd]. lia. Qed.

Lemma sortedq_qins : forall k q, sortedq q -> sortedq (qins k q).
Proof.
  intros k q. induction q as [|x q IH]; intros Hs; cbn [qins].
  - cbn. split; [intros y [] | exact I].
  - destruct Hs as [Hx Hq]. destruct (key_eqb k x) eqn:E; [split; assumption|].
    destruct (key_ltb k x) eqn:L.
    + split; [|split; assumption]. intros y [Hy|Hy]; [subst; exact L|].
      apply (key_ltb_trans k x y L). apply Hx. exact Hy.
    + split; [|apply IH; exact Hq]. intros y Hy. apply In_qins in Hy. destruct Hy as [Hy|Hy].
      * subst y. apply key_ltb_total; assumption.
      * apply Hx. exact Hy.
Qed.

Lemma sortedq_app : forall pre rest,
  sortedq (pre ++ rest) -> sortedq rest /\ forall k, In k pre -> ~ In k rest.
Proof.
  induction pre as [|x pre IH]; intros rest Hs; cbn [app] in Hs.
  - split; [exact Hs | intros k []].
  - destruct Hs as [Hx Hq]. destruct (IH _ Hq) as [Hr Hd]. split; [exact Hr|].
    intros k [Hk|Hk]; [|apply Hd; exact Hk]. subst k. intro Hc.
    assert (H : key_ltb x x = true) by (apply Hx; apply in_or_app; right; exact Hc).
    rewrite key_ltb_irrefl in H. discriminate.
Qed.

Lemma sortedq_step : forall c o, sortedq (queue c) -> sortedq (queue (fst (step c o))).
Proof.
  intros c o Hs. destruct o; cbn [step fst].
  - unfold queue_tx. destruct (mem h (order c)); [exact Hs|]. cbn [queue]. apply sortedq_qins. exact Hs.
  - destruct (store_queue h b c) as [Hq _]. rewrite Hq. exact Hs.
  - destruct (retrieve limit c) as [[out c']| |] eqn:Er; cbn [fst]; try exact Hs.
    destruct (retrieve_spec _ _ _ _ Er) as [pre [Hq _]]. rewrite Hq in Hs. apply (sortedq_app _ _ Hs).
  - rewrite remove_queue. exact Hs.
  - exact Hs.
Qed.

Lemma run_sortedq : forall ops t, sortedq (queue (t_cache t)) -> sortedq (queue (t_cache (run ops t))).
Proof.
  induction ops as [|o ops IH]; intros t Hs; unfold run in *; cbn [fold_left]; [exact Hs|].
  apply IH. unfold tstep. pose proof (sortedq_step (t_cache t) o Hs) as H.
  destruct (step (t_cache t) o) as [c' r]. exact H.
Qed.

(* in every state reached by a history, the entries a retrieval consumes are
   absent afterwards: no later retrieval can consume them again *)
Lemma consumed_once : forall ops limit out c',
  retrieve limit (t_cache (run ops start)) = Ok (out, c') ->
  exists pre, queue (t_cache (run ops start)) = pre ++ queue c' /\
    (forall h, In h (map fst out) -> exists ts, In (ts, h) pre) /\
    (forall k, In k pre -> ~ In k (queue c')).
Proof.
  intros ops limit out c' Hr. destruct (retrieve_spec _ _ _ _ Hr) as [pre [Hq [_ [_ [Ho _]]]]].
  exists pre. split; [exact Hq|]. split.
  - intros h Hin. apply in_map_iff in Hin. destruct Hin as [[h' b] [He Hin]]. cbn in He. subst h'.
    apply in_map_snd. apply (Ho _ _ Hin).
  - assert (Hs : sortedq (queue (t_cache (run ops start)))) by (apply run_sortedq; exact I).
    rewrite Hq in Hs. apply (sortedq_app _ _ Hs).
Qed.
