(* Lemmas about Model/KernelSnap.v (C16, C28). *)
From Coq Require Import List ZArith NArith Bool Lia ZifyN ZifyNat ZifyBool.
Require Import Mixin.Base.Res Mixin.Gen.Consts Mixin.Model.Fixed Mixin.Model.KernelSnap Mixin.Proofs.Fixed.
Import ListNotations.
Open Scope Z_scope.

(* ===================================================================== *)
(* C16: witnesses of the two recorded findings                            *)
(* ===================================================================== *)

Definition xin := Consts.KsAssetXIN.
Definition units (x : Z) : Z := x * 10 ^ 8.

Definition w_deposit (h key : N) (asset info : N) (amt : Z) (ghost : N) : ltx :=
  {| l_hash := h; l_asset := asset; l_in := LDeposit key info amt;
     l_outs := [{| o_type := OScript; o_amt := amt; o_keys := [ghost] |}];
     l_refs := []; l_sig := true |}.

(* genesis supply 94773 XIN; two deposits of 330000 XIN *)
Definition w_state := genesis_state 7%N (units 94773).
Definition w_d1 := w_deposit 101 201 xin 7 (units 330000) 301.
Definition w_d2 := w_deposit 102 202 xin 7 (units 330000) 302.
Definition w_snap := {| ls_hash := 900%N; ls_txs := [101%N; 102%N] |}.
Definition w_pool := [(101%N, w_d1); (102%N, w_d2)].
Definition w_last := {| cs_txs := [1%N]; cs_ts := 0 |}.

Lemma c16_refuted :
  exists s sn pool last s',
    (* each member alone is within capacity ... *)
    (forall t, In t (map snd pool) ->
       exists amt, l_in t = LDeposit (match l_in t with LDeposit k _ _ => k | _ => 0%N end) 7%N amt /\
                   total_of s (l_asset t) + amt < capacity (l_asset t)) /\
    (* ... every member validates and the batch passes the batch rules ... *)
    validate_batch s sn pool last = (s', true) /\
    (* ... and finalization panics *)
    write_snapshot s' sn = Panic.
Proof.
  exists w_state, w_snap, w_pool, w_last.
  eexists. split; [|split].
  - intros t Ht. simpl in Ht. destruct Ht as [<-|[<-|[]]]; eexists; split; try reflexivity; vm_compute; reflexivity.
  - vm_compute. reflexivity.
  - vm_compute. reflexivity.
Qed.

(* two deposits of the unrecorded asset BTC carrying different asset info *)
Definition btc := Consts.KsAssetBTC.
Definition w_e1 := w_deposit 111 211 btc 8 (units 1) 311.
Definition w_e2 := w_deposit 112 212 btc 9 (units 2) 312.
Definition w_snap2 := {| ls_hash := 901%N; ls_txs := [111%N; 112%N] |}.
Definition w_pool2 := [(111%N, w_e1); (112%N, w_e2)].

Lemma c16_refuted_asset_info :
  exists s sn pool last s',
    validate_batch s sn pool last = (s', true) /\ write_snapshot s' sn = Err.
Proof.
  exists w_state, w_snap2, w_pool2, w_last. eexists. split; vm_compute; reflexivity.
Qed.

(* ===================================================================== *)
(* C28                                                                    *)
(* ===================================================================== *)

Lemma consensus_not_batchable : forall ty, is_consensus_class ty = true -> is_batchable ty = false.
Proof.
  intros ty H. unfold is_consensus_class in H.
  repeat rewrite orb_true_iff in H. repeat rewrite Z.eqb_eq in H.
  destruct H as [[[[[[H|H]|H]|H]|H]|H]|H]; subst ty; reflexivity.
Qed.

Lemma c28_batch : forall mainnet s found fin last tok,
  validate_kernel_snapshot mainnet s found fin last tok = Ok tt ->
  (1 < length (ks_txs s))%nat ->
  forall h t, In (h, t) found -> is_batchable (k_type t) = true.
Proof.
  intros mainnet s found fin last tok Hv Hlen h t Hin.
  unfold validate_kernel_snapshot in Hv.
  destruct (1 <? Z.of_nat (length (ks_txs s))) eqn:E; [|apply Z.ltb_ge in E; lia].
  destruct (forallb (fun e => is_batchable (k_type (snd e))) found) eqn:F; [|discriminate].
  rewrite forallb_forall in F. apply (F (h, t) Hin).
Qed.

Lemma refs_linked : forall s tx last,
  validate_consensus_refs s tx last = Ok tt ->
  is_consensus_class (k_type tx) = true ->
  exists ltx, cs_txs last = [ltx] /\
    (ltx = k_hash tx \/ (hd_error (k_refs tx) = Some ltx /\ cs_ts last < ks_ts s)).
Proof.
  intros s tx last Hv Hc. unfold validate_consensus_refs in Hv.
  destruct (1 <? Z.of_nat (length (ks_txs s))); [discriminate|].
  rewrite Hc in Hv. cbn [negb] in Hv.
  destruct (k_refs tx) as [|r0 rs] eqn:Er; [discriminate|].
  destruct (1 <? Z.of_nat (length (cs_txs last))) eqn:El; [discriminate|].
  destruct (cs_txs last) as [|ltx rest] eqn:Et; [discriminate|].
  assert (rest = []) as ->.
  { apply Z.ltb_ge in El. destruct rest; [reflexivity|]. cbn [length] in El. lia. }
  exists ltx. split; [reflexivity|].
  destruct (ltx =? k_hash tx)%N eqn:Eh; [left; apply N.eqb_eq; exact Eh|].
  destruct (r0 =? ltx)%N eqn:Er0; cbn [negb] in Hv; [|discriminate].
  destruct (ks_ts s <=? cs_ts last) eqn:Ets; [discriminate|].
  right. apply N.eqb_eq in Er0. subst r0. split; [reflexivity|]. apply Z.leb_gt in Ets. exact Ets.
Qed.

Lemma c28_alone_linked : forall mainnet s found fin last tok h tx,
  validate_kernel_snapshot mainnet s found fin last tok = Ok tt ->
  (fin && mainnet && (ks_ts s <? Consts.KsConsensusReferenceForkAt)) = false ->
  In (h, tx) found -> is_consensus_class (k_type tx) = true ->
  (length (ks_txs s) <= 1)%nat /\
  (forall h0, ks_txs s = [h0] -> klookup h0 found = Some tx ->
     exists ltx, cs_txs last = [ltx] /\
       (ltx = k_hash tx \/ (hd_error (k_refs tx) = Some ltx /\ cs_ts last < ks_ts s))).
Proof.
  intros mainnet s found fin last tok h tx Hv Hex Hin Hc. split.
  - destruct (Nat.leb_spec (length (ks_txs s)) 1) as [L|L]; [exact L|].
    pose proof (c28_batch _ _ _ _ _ _ Hv L h tx Hin) as B.
    rewrite (consensus_not_batchable _ Hc) in B. discriminate.
  - intros h0 Htx Hk. unfold validate_kernel_snapshot in Hv.
    rewrite Htx in Hv. cbn [length Z.of_nat] in Hv.
    change (1 <? Z.of_nat 1) with false in Hv. cbv iota in Hv.
    rewrite Hex in Hv. rewrite Hk in Hv. cbv zeta in Hv.
    destruct (negb (ks_self s) && (ks_round s =? 0) && negb (k_type tx =? TNodeAccept)); [discriminate|].
    destruct (validate_consensus_refs s tx last) as [[]| |] eqn:R; cbn [bind] in Hv; try discriminate.
    exact (refs_linked _ _ _ R Hc).
Qed.

(* an accepted member list: the kernel rules held on a map that contains every
   member, whether its body was stored or cached *)
Lemma snapshot_tx_rules_final : forall mainnet s fin last tok ms found,
  snapshot_tx_rules mainnet s fin last tok found ms = Ok tt -> ms <> [] ->
  exists found',
    validate_kernel_snapshot mainnet s found' fin last tok = Ok tt /\
    (forall m, In m ms -> In (m_hash m, m_tx m) found') /\
    (forall e, In e found -> In e found') /\
    (forall m0 r, ms = m0 :: r -> r = [] -> found' = (m_hash m0, m_tx m0) :: found).
Proof.
  intros mainnet s fin last tok. induction ms as [|m r IH]; intros found H Hne; [contradiction|].
  cbn [snapshot_tx_rules] in H.
  destruct (negb (m_stored m) && negb (m_valid m)); [discriminate|].
  destruct (validate_kernel_snapshot mainnet s ((m_hash m, m_tx m) :: found) fin last tok) as [[]| |] eqn:V;
    cbn [bind] in H; try discriminate.
  destruct r as [|m2 r2].
  - exists ((m_hash m, m_tx m) :: found). split; [exact V|]. split; [|split].
    + intros x [<-|[]]. left. reflexivity.
    + intros e He. right. exact He.
    + intros m0 r0 E _. injection E as <- _. reflexivity.
  - destruct (IH _ H) as (f' & V' & A & B & _); [discriminate|].
    exists f'. split; [exact V'|]. split; [|split].
    + intros x [<-|Hx]; [apply B; left; reflexivity|apply A; exact Hx].
    + intros e He. apply B. right. exact He.
    + intros m0 r0 E Er. injection E as _ <-. discriminate Er.
Qed.

Lemma c28_members_batchable : forall mainnet s fin last tok ms,
  snapshot_tx_rules mainnet s fin last tok [] ms = Ok tt ->
  (1 < length (ks_txs s))%nat ->
  forall m, In m ms -> is_batchable (k_type (m_tx m)) = true.
Proof.
  intros mainnet s fin last tok ms H L m Hm.
  destruct (snapshot_tx_rules_final _ _ _ _ _ _ _ H) as (f' & V & A & _ & _).
  { intro E. subst ms. destruct Hm. }
  exact (c28_batch _ _ _ _ _ _ V L _ _ (A m Hm)).
Qed.

Lemma c28_member_alone_linked : forall mainnet s fin last tok m,
  snapshot_tx_rules mainnet s fin last tok [] [m] = Ok tt ->
  (fin && mainnet && (ks_ts s <? Consts.KsConsensusReferenceForkAt)) = false ->
  ks_txs s = [m_hash m] -> is_consensus_class (k_type (m_tx m)) = true ->
  exists ltx, cs_txs last = [ltx] /\
    (ltx = k_hash (m_tx m) \/ (hd_error (k_refs (m_tx m)) = Some ltx /\ cs_ts last < ks_ts s)).
Proof.
  intros mainnet s fin last tok m H Hex Htx Hc.
  destruct (snapshot_tx_rules_final _ _ _ _ _ _ _ H) as (f' & V & _ & _ & E); [discriminate|].
  rewrite (E m [] eq_refl eq_refl) in V.
  destruct (c28_alone_linked _ _ _ _ _ _ (m_hash m) (m_tx m) V Hex (or_introl eq_refl) Hc) as [_ L].
  apply (L (m_hash m) Htx). cbn. rewrite N.eqb_refl. reflexivity.
Qed.

(* ---- the recorded chain ---------------------------------------------------- *)

Lemma chain_split : forall h, chain h -> exists pre lst, h = pre ++ [lst].
Proof.
  intros h H. induction H as [r t Ht Hn | r1 r2 l Hl Hc IH].
  - exists [], r. reflexivity.
  - destruct IH as (pre & lst & E). exists (r1 :: pre), lst. rewrite E. reflexivity.
Qed.

Lemma chain_inv : forall a b l, chain (a :: b :: l) -> link a b /\ chain (b :: l).
Proof. intros a b l H. inversion H; subst. split; assumption. Qed.

Lemma chain_last : forall pre lst, chain (pre ++ [lst]) ->
  cr_next lst = None /\ exists t, cr_txs lst = [t].
Proof.
  induction pre as [|a pre IH]; intros lst H.
  - cbn in H. inversion H; subst. split; [assumption|eauto].
  - destruct pre as [|b pre'].
    + cbn in H. apply chain_inv in H. destruct H as [_ H]. apply (IH lst H).
    + cbn [app] in H. apply chain_inv in H. destruct H as [_ H]. apply (IH lst H).
Qed.

Lemma chain_ts : forall pre lst, chain (pre ++ [lst]) ->
  Forall (fun r => cr_ts r < cr_ts lst) pre.
Proof.
  induction pre as [|a pre IH]; intros lst H; [constructor|].
  destruct pre as [|b pre'].
  - cbn in H. apply chain_inv in H. destruct H as [(t1 & t2 & _ & _ & _ & _ & Hlt) _].
    constructor; [exact Hlt|constructor].
  - cbn [app] in H. apply chain_inv in H. destruct H as [(t1 & t2 & _ & _ & _ & _ & Hlt) H].
    pose proof (IH lst H) as F. constructor; [|exact F]. inversion F; subst. lia.
Qed.

Lemma read_last_snoc : forall pre lst,
  Forall (fun r => cr_ts r < cr_ts lst) pre -> read_last (pre ++ [lst]) = Some lst.
Proof.
  induction pre as [|a pre IH]; intros lst F; [reflexivity|].
  inversion F; subst. cbn [app read_last]. rewrite (IH lst H2).
  unfold key_lt. destruct (cr_ts lst <? cr_ts a) eqn:E1; [apply Z.ltb_lt in E1; lia|].
  destruct (cr_ts lst =? cr_ts a) eqn:E2; [apply Z.eqb_eq in E2; lia|]. reflexivity.
Qed.

Lemma cset_append : forall r l, Forall (fun x => cr_ts x < cr_ts r) l -> cset r l = l ++ [r].
Proof.
  intros r l F. induction F as [|x l Hx F IH]; [reflexivity|].
  cbn [cset app]. unfold key_eq. destruct (cr_ts x =? cr_ts r) eqn:E; [apply Z.eqb_eq in E; lia|].
  cbn [andb]. rewrite IH. reflexivity.
Qed.

Lemma cset_replace_last : forall r pre lst,
  Forall (fun x => cr_ts x < cr_ts lst) pre -> cr_ts r = cr_ts lst -> cr_snap r = cr_snap lst ->
  cset r (pre ++ [lst]) = pre ++ [r].
Proof.
  intros r pre lst F Ets Esn. induction F as [|x l Hx F IH].
  - cbn. unfold key_eq. rewrite Ets, Esn, Z.eqb_refl, N.eqb_refl. reflexivity.
  - cbn [cset app]. unfold key_eq. destruct (cr_ts x =? cr_ts r) eqn:E; [apply Z.eqb_eq in E; lia|].
    cbn [andb]. rewrite IH. reflexivity.
Qed.

Lemma chain_snoc : forall pre lst lst' fresh t,
  chain (pre ++ [lst]) ->
  cr_ts lst' = cr_ts lst -> cr_txs lst' = cr_txs lst -> cr_ref lst' = cr_ref lst ->
  link lst' fresh -> cr_txs fresh = [t] -> cr_next fresh = None ->
  chain (pre ++ [lst'; fresh]).
Proof.
  induction pre as [|a pre IH]; intros lst lst' fresh t H Ets Etx Eref Hl Hft Hfn.
  - cbn. apply chain_cons; [exact Hl|]. eapply chain_one; eassumption.
  - destruct pre as [|b pre'].
    + cbn in H. apply chain_inv in H. destruct H as [Hl1 H].
      pose proof (IH lst lst' fresh t H Ets Etx Eref Hl Hft Hfn) as C.
      cbn in *. apply chain_cons; [|exact C].
      destruct Hl1 as (t1 & t2 & A & B & Cn & D & Elt).
      unfold link. exists t1, t2. rewrite Etx, Eref, Ets. repeat split; assumption.
    + cbn [app] in H. apply chain_inv in H. destruct H as [Hl1 H].
      pose proof (IH lst lst' fresh t H Ets Etx Eref Hl Hft Hfn) as C.
      cbn [app] in *. apply chain_cons; assumption.
Qed.

Lemma chainb_sound : forall l, chainb l = true -> chain l.
Proof.
  induction l as [|r tl IH]; intros H; [discriminate|].
  cbn [chainb] in H. destruct tl as [|r2 tl'].
  - destruct (cr_txs r) as [|t [|]] eqn:Et; try discriminate.
    destruct (cr_next r) eqn:En; [discriminate|]. eapply chain_one; eassumption.
  - apply andb_true_iff in H. destruct H as [L C]. apply chain_cons; [|apply IH; exact C].
    unfold linkb in L.
    destruct (cr_txs r) as [|t1 [|]] eqn:E1; try discriminate.
    destruct (cr_txs r2) as [|t2 [|]] eqn:E2; try discriminate.
    destruct (cr_next r) as [n|] eqn:E3; try discriminate.
    destruct (cr_ref r2) as [p|] eqn:E4; try discriminate.
    apply andb_true_iff in L. destruct L as [L Lt]. apply andb_true_iff in L. destruct L as [Ln Lp].
    apply N.eqb_eq in Ln. apply N.eqb_eq in Lp. apply Z.ltb_lt in Lt. subst n p.
    exists t1, t2. repeat split; assumption.
Qed.

Lemma step_chain : forall h o, chain h -> co_genesis o = false -> chain (apply_cop h o).
Proof.
  intros h o H Hg. unfold apply_cop, write_consensus_snapshot.
  destruct (co_txs o) as [|sole [|x xs]] eqn:Etx; try exact H.
  destruct (negb (sole =? co_tx o)%N) eqn:Es; [exact H|].
  destruct (negb (co_mint o) && negb match co_out0 o with Some t => consensus_out t | None => false end);
    [exact H|].
  rewrite Hg.
  destruct (chain_split _ H) as (pre & lst & ->).
  pose proof (chain_ts _ _ H) as F. pose proof (chain_last _ _ H) as (Hn & tl & Htl).
  rewrite (read_last_snoc _ _ F). rewrite Hn, Htl.
  destruct (tl =? co_tx o)%N eqn:Ei; [exact H|].
  destruct (co_refs o) as [|r0 rs] eqn:Er; [exact H|].
  destruct (negb (tl =? r0)%N) eqn:E0; [exact H|].
  destruct (co_ts o <=? cr_ts lst) eqn:Et; [exact H|].
  apply Z.leb_gt in Et. apply negb_false_iff in E0. apply N.eqb_eq in E0. subst r0.
  apply negb_false_iff in Es. apply N.eqb_eq in Es. subst sole.
  match goal with |- context [cset _ (cset ?l _)] =>
    rewrite (cset_replace_last l pre lst F eq_refl eq_refl) end.
  rewrite cset_append.
  2:{ apply Forall_app. split.
      - eapply Forall_impl; [|exact F]. cbn. intros; lia.
      - constructor; [cbn; lia|constructor]. }
  rewrite <- app_assoc. cbn [app].
  eapply (chain_snoc pre lst _ _ (co_tx o) H); try reflexivity.
  { cbn. symmetry. exact Htl. }
  unfold link. exists tl, (co_tx o). cbn. repeat split; try reflexivity. exact Et.
Qed.

Lemma c28_single_chain : forall ops h,
  chain h -> Forall (fun o => co_genesis o = false) ops -> chain (fold_left apply_cop ops h).
Proof.
  induction ops as [|o ops IH]; intros h H F; [exact H|].
  inversion F; subst. cbn [fold_left]. apply IH; [apply step_chain; assumption|assumption].
Qed.

(* a successful write that changes the store is linked and strictly later *)
Lemma c28_write_linked : forall h o h' pre lst,
  chain h -> h = pre ++ [lst] -> co_genesis o = false ->
  write_consensus_snapshot h o = Ok h' -> h' <> h ->
  exists tl, cr_txs lst = [tl] /\ hd_error (co_refs o) = Some tl /\ cr_ts lst < co_ts o /\ co_txs o = [co_tx o].
Proof.
  intros h o h' pre lst H -> Hg Hw Hne. unfold write_consensus_snapshot in Hw.
  destruct (co_txs o) as [|sole [|x xs]] eqn:Etx; try discriminate.
  destruct (negb (sole =? co_tx o)%N) eqn:Es; [discriminate|].
  destruct (negb (co_mint o) && negb match co_out0 o with Some t => consensus_out t | None => false end);
    [discriminate|].
  rewrite Hg in Hw.
  pose proof (chain_ts _ _ H) as F. pose proof (chain_last _ _ H) as (Hn & tl & Htl).
  rewrite (read_last_snoc _ _ F) in Hw. rewrite Hn, Htl in Hw.
  destruct (tl =? co_tx o)%N eqn:Ei; [injection Hw as <-; contradiction|].
  destruct (co_refs o) as [|r0 rs] eqn:Er; [discriminate|].
  destruct (negb (tl =? r0)%N) eqn:E0; [discriminate|].
  destruct (co_ts o <=? cr_ts lst) eqn:Et; [discriminate|].
  apply Z.leb_gt in Et. apply negb_false_iff in E0. apply N.eqb_eq in E0. subst r0.
  apply negb_false_iff in Es. apply N.eqb_eq in Es. subst sole.
  exists tl. repeat split; try reflexivity; assumption.
Qed.

(* ===================================================================== *)
(* C16: outside the finding regions finalization succeeds                 *)
(* ===================================================================== *)

Lemma i_add_ok : forall x y, 0 <= x -> 0 < y -> i_add x y = Ok (x + y).
Proof.
  intros x y Hx Hy. rewrite i_add_spec.
  destruct (x <? 0) eqn:A; [apply Z.ltb_lt in A; lia|].
  destruct (y <=? 0) eqn:B; [apply Z.leb_le in B; lia|]. reflexivity.
Qed.
Lemma i_sub_ok : forall x y, 0 < y -> y <= x -> i_sub x y = Ok (x - y).
Proof.
  intros x y Hy Hx. rewrite i_sub_spec.
  destruct (x <? 0) eqn:A; [apply Z.ltb_lt in A; lia|].
  destruct (y <=? 0) eqn:B; [apply Z.leb_le in B; lia|].
  destruct (x <? y) eqn:C; [apply Z.ltb_lt in C; lia|]. reflexivity.
Qed.

(* what one member adds to / takes from the recorded total of asset [a] *)
Fixpoint submit_sum (outs : list lout) : Z :=
  match outs with
  | [] => 0
  | o :: r => (if o_type o =? OWithdrawalSubmit then o_amt o else 0) + submit_sum r
  end.
Definition adds (t : ltx) (a : N) : Z :=
  if (l_asset t =? a)%N then
    match l_in t with LDeposit _ _ d => d | LMint _ m => m | LUtxos _ => 0 end
  else 0.
Definition subs (t : ltx) (a : N) : Z :=
  if (l_asset t =? a)%N then
    match l_in t with
    | LUtxos _ => if l_type t =? TWithdrawalSubmit then submit_sum (l_outs t) else 0
    | _ => 0
    end
  else 0.
Definition sum_adds (ts : list ltx) (a : N) : Z := fold_right (fun t acc => adds t a + acc) 0 ts.
Definition sum_subs (ts : list ltx) (a : N) : Z := fold_right (fun t acc => subs t a + acc) 0 ts.

Definition deposit_info (t : ltx) : option N :=
  match l_in t with LDeposit _ i _ => Some i | _ => None end.

(* deposits of one asset id in the batch carry the same asset info (outside
   the second finding region) *)
Definition infos_agree (ts : list ltx) : Prop :=
  forall t1 t2 i1 i2, In t1 ts -> In t2 ts -> l_asset t1 = l_asset t2 ->
    deposit_info t1 = Some i1 -> deposit_info t2 = Some i2 -> i1 = i2.

(* the facts validation establishes about one member, in the state the
   snapshot is written on *)
Record ready (s : lstate) (t : ltx) : Prop := {
  rd_ghost : forall k, In k (all_keys (l_outs t)) -> alookup k (st_ghosts s) = Some (l_hash t);
  rd_outs : forall o, In o (l_outs t) ->
      0 < o_amt o /\ (o_type o = OScript \/ o_type o = OWithdrawalSubmit \/ o_type o = OWithdrawalClaim);
  rd_count : Z.of_nat (length (l_outs t)) <= Consts.KsSliceCountLimit;
  rd_claim : (exists o, In o (l_outs t) /\ o_type o = OWithdrawalClaim) ->
      exists r rs, l_refs t = r :: rs /\ amem r (st_bodies s) = true /\ amem r (st_finals s) = true;
  rd_info : match l_in t with
            | LDeposit _ i d => 0 < d /\ (alookup (l_asset t) (st_infos s) = None
                                          \/ alookup (l_asset t) (st_infos s) = Some i)
            | LMint _ m => 0 < m /\ alookup (l_asset t) (st_infos s) <> None
            | LUtxos _ => alookup (l_asset t) (st_infos s) <> None
            end
}.

Lemma submit_sum_nonneg : forall outs, (forall o, In o outs -> 0 < o_amt o) -> 0 <= submit_sum outs.
Proof.
  induction outs as [|o r IH]; intros H; cbn [submit_sum]; [lia|].
  pose proof (H o (or_introl eq_refl)). pose proof (IH (fun x Hx => H x (or_intror Hx))).
  destruct (o_type o =? OWithdrawalSubmit); lia.
Qed.

Lemma adds_subs_nonneg : forall s t a, ready s t -> 0 <= adds t a /\ 0 <= subs t a.
Proof.
  intros s t a R. unfold adds, subs. pose proof (rd_info _ _ R) as I.
  assert (0 <= submit_sum (l_outs t)) by (apply submit_sum_nonneg; intros o Ho; apply (rd_outs _ _ R o Ho)).
  destruct (l_asset t =? a)%N; destruct (l_in t); try lia.
  all: destruct (l_type t =? TWithdrawalSubmit); lia.
Qed.

Lemma type_of_outputs_range : forall outs b,
  type_of_outputs outs b <> TDeposit /\ type_of_outputs outs b <> TMint.
Proof.
  induction outs as [|o r IH]; intros b; cbn [type_of_outputs].
  - destruct b; split; intro E; vm_compute in E; discriminate E.
  - repeat match goal with
           | |- context [if ?c then _ else _] =>
               destruct c; [split; intro E; vm_compute in E; discriminate E|]
           end.
    apply IH.
Qed.

Lemma l_type_cases : forall t,
  match l_in t with
  | LDeposit _ _ _ => l_type t = TDeposit
  | LMint _ _ => l_type t = TMint
  | LUtxos _ => l_type t <> TDeposit /\ l_type t <> TMint
  end.
Proof.
  intros t. unfold l_type, l_kinds, tx_type. destruct (l_in t) as [k i d|b m|ins]; try reflexivity.
  assert (type_of_inputs (map (fun _ => IKUtxo) ins) = None) as ->.
  { induction ins; [reflexivity|exact IHins]. }
  apply type_of_outputs_range.
Qed.

Lemma lock_ghosts_noop : forall keys s h,
  (forall k, In k keys -> alookup k (st_ghosts s) = Some h) -> lock_ghosts s h keys = Ok s.
Proof.
  induction keys as [|k r IH]; intros s h H; [reflexivity|].
  cbn [lock_ghosts]. rewrite (H k (or_introl eq_refl)). rewrite N.eqb_refl.
  apply IH. intros x Hx. apply H. right. exact Hx.
Qed.

(* everything but the UTXO table is unchanged *)
Definition same_but_utxos (s s' : lstate) : Prop :=
  st_totals s' = st_totals s /\ st_infos s' = st_infos s /\ st_ghosts s' = st_ghosts s /\
  st_bodies s' = st_bodies s /\ st_finals s' = st_finals s /\ st_uniq s' = st_uniq s.

Lemma write_utxos_ok : forall outs s t i,
  (forall k, In k (all_keys outs) -> alookup k (st_ghosts s) = Some (l_hash t)) ->
  (forall o, In o outs -> o_type o = OScript \/ o_type o = OWithdrawalSubmit \/ o_type o = OWithdrawalClaim) ->
  i + Z.of_nat (length outs) <= Consts.KsInputIndexLimit + 1 ->
  ((exists o, In o outs /\ o_type o = OWithdrawalClaim) ->
     exists r rs, l_refs t = r :: rs /\ amem r (st_bodies s) = true /\ amem r (st_finals s) = true) ->
  exists s', write_utxos s t i outs = Ok s' /\ same_but_utxos s s'.
Proof.
  induction outs as [|o r IH]; intros s t i Hg Ht Hi Hc.
  - exists s. split; [reflexivity|]. repeat split.
  - cbn [write_utxos]. cbn [length] in Hi.
    assert (Hrest : forall s1, same_but_utxos s s1 ->
              exists s', write_utxos s1 t (i + 1) r = Ok s' /\ same_but_utxos s s').
    { intros s1 (A1 & A2 & A3 & A4 & A5 & A6).
      destruct (IH s1 t (i + 1)) as (s' & W & (B1 & B2 & B3 & B4 & B5 & B6)).
      - intros k Hk. rewrite A3. apply Hg. cbn [all_keys]. apply in_or_app. right. exact Hk.
      - intros x Hx. apply Ht. right. exact Hx.
      - lia.
      - intros (x & Hx & Ex). destruct Hc as (rr & rs & E1 & E2 & E3); [exists x; split; [right; exact Hx|exact Ex]|].
        exists rr, rs. rewrite A4, A5. auto.
      - exists s'. split; [exact W|]. repeat split; congruence. }
    destruct (Ht o (or_introl eq_refl)) as [E|[E|E]]; unfold utxo_out; rewrite E.
    + change ((OScript =? OScript) || (OScript =? ONodePledge) || (OScript =? ONodeCancel)
              || (OScript =? ONodeAccept) || (OScript =? ONodeRemove) || (OScript =? OWithdrawalClaim)
              || (OScript =? OCustodianUpdate)) with true. cbv iota.
      unfold write_utxo. rewrite lock_ghosts_noop.
      2:{ intros k Hk. apply Hg. cbn [all_keys]. apply in_or_app. left. exact Hk. }
      cbn [bind]. destruct (Consts.KsInputIndexLimit <? i) eqn:L; [apply Z.ltb_lt in L; lia|].
      rewrite E. change (OScript =? OWithdrawalClaim) with false.
      change ((OScript =? ONodePledge) || (OScript =? ONodeCancel) || (OScript =? ONodeAccept)
              || (OScript =? ONodeRemove) || (OScript =? OCustodianUpdate)) with false. cbv iota.
      cbn [bind]. apply Hrest. repeat split.
    + change ((OWithdrawalSubmit =? OScript) || (OWithdrawalSubmit =? ONodePledge) || (OWithdrawalSubmit =? ONodeCancel)
              || (OWithdrawalSubmit =? ONodeAccept) || (OWithdrawalSubmit =? ONodeRemove)
              || (OWithdrawalSubmit =? OWithdrawalClaim) || (OWithdrawalSubmit =? OCustodianUpdate)) with false.
      cbv iota.
      change ((OWithdrawalSubmit =? OWithdrawalSubmit) || (OWithdrawalSubmit =? OCustodianSlash)) with true.
      cbv iota. apply Hrest. repeat split.
    + change ((OWithdrawalClaim =? OScript) || (OWithdrawalClaim =? ONodePledge) || (OWithdrawalClaim =? ONodeCancel)
              || (OWithdrawalClaim =? ONodeAccept) || (OWithdrawalClaim =? ONodeRemove)
              || (OWithdrawalClaim =? OWithdrawalClaim) || (OWithdrawalClaim =? OCustodianUpdate)) with true.
      cbv iota.
      unfold write_utxo. rewrite lock_ghosts_noop.
      2:{ intros k Hk. apply Hg. cbn [all_keys]. apply in_or_app. left. exact Hk. }
      cbn [bind]. destruct (Consts.KsInputIndexLimit <? i) eqn:L; [apply Z.ltb_lt in L; lia|].
      rewrite E. change (OWithdrawalClaim =? OWithdrawalClaim) with true. cbv iota.
      destruct Hc as (rr & rs & E1 & E2 & E3); [exists o; split; [left; reflexivity|exact E]|].
      rewrite E1. unfold uset. cbn [st_bodies st_finals set_utxos]. rewrite E2, E3. cbn [andb bind].
      apply Hrest. repeat split.
Qed.

Lemma sub_submits_ok : forall outs total,
  (forall o, In o outs -> 0 < o_amt o) -> submit_sum outs <= total ->
  sub_submits total outs = Ok (total - submit_sum outs).
Proof.
  induction outs as [|o r IH]; intros total Hp Hs; cbn [sub_submits submit_sum] in *.
  - f_equal. lia.
  - pose proof (Hp o (or_introl eq_refl)) as Po.
    assert (0 <= submit_sum r) by (apply submit_sum_nonneg; intros x Hx; apply Hp; right; exact Hx).
    destruct (o_type o =? OWithdrawalSubmit).
    + rewrite i_sub_ok by lia. cbn [bind]. rewrite IH; [f_equal; lia| |lia].
      intros x Hx. apply Hp. right. exact Hx.
    + rewrite IH; [f_equal; lia| |lia]. intros x Hx. apply Hp. right. exact Hx.
Qed.

Lemma alookup_aset_eq : forall {V} k (v : V) l, alookup k (aset k v l) = Some v.
Proof. intros. unfold aset. cbn. rewrite N.eqb_refl. reflexivity. Qed.
Lemma alookup_aset_neq : forall {V} k k' (v : V) l, k <> k' -> alookup k (aset k' v l) = alookup k l.
Proof. intros V k k' v l H. unfold aset. cbn. destruct (k =? k')%N eqn:E; [apply N.eqb_eq in E; contradiction|reflexivity]. Qed.
Lemma amem_aset_mono : forall {V} r k (v : V) l, amem r l = true -> amem r (aset k v l) = true.
Proof.
  intros V r k v l H. unfold amem in *. unfold aset. cbn. destruct (r =? k)%N; [reflexivity|exact H].
Qed.

(* writeTotalInAsset succeeds and moves the total by adds - subs *)
Lemma write_total_ok : forall s t,
  alookup (l_asset t) (st_infos s) <> None ->
  (forall o, In o (l_outs t) -> 0 < o_amt o) ->
  match l_in t with LDeposit _ _ d => 0 < d | LMint _ m => 0 < m | LUtxos _ => True end ->
  0 <= total_of s (l_asset t) ->
  total_of s (l_asset t) + adds t (l_asset t) <= capacity (l_asset t) ->
  subs t (l_asset t) <= total_of s (l_asset t) ->
  exists s', write_total s t = Ok s' /\
    st_infos s' = st_infos s /\ st_ghosts s' = st_ghosts s /\ st_bodies s' = st_bodies s /\
    st_finals s' = st_finals s /\ st_uniq s' = st_uniq s /\
    forall a, total_of s' a = total_of s a + adds t a - subs t a.
Proof.
  intros s t Hi Hp Hpos H0 Hcap Hsub. unfold write_total.
  destruct (alookup (l_asset t) (st_infos s)) as [inf|] eqn:Ei; [|contradiction].
  pose proof (l_type_cases t) as TC. unfold adds, subs in Hcap, Hsub. rewrite N.eqb_refl in Hcap, Hsub.
  assert (Hfin : forall total', total' <= capacity (l_asset t) ->
     (forall a, (if (l_asset t =? a)%N then total' else total_of s a)
                = total_of s a + adds t a - subs t a) ->
     exists s', (if capacity (l_asset t) <? total' then Panic
                 else Ok (set_totals s (aset (l_asset t) total' (st_totals s)))) = Ok s' /\
       st_infos s' = st_infos s /\ st_ghosts s' = st_ghosts s /\ st_bodies s' = st_bodies s /\
       st_finals s' = st_finals s /\ st_uniq s' = st_uniq s /\
       forall a, total_of s' a = total_of s a + adds t a - subs t a).
  { intros total' Hc Ha. destruct (capacity (l_asset t) <? total') eqn:C; [apply Z.ltb_lt in C; lia|].
    eexists. split; [reflexivity|]. repeat split. intros a. rewrite <- Ha.
    unfold total_of at 1. cbn [st_totals set_totals]. unfold aset. cbn [alookup].
    rewrite N.eqb_sym. destruct (l_asset t =? a)%N; reflexivity. }
  destruct (l_in t) as [k i d|b m|ins] eqn:Ein.
  - rewrite TC. change (TDeposit =? TWithdrawalSubmit) with false. change (TDeposit =? TDeposit) with true. cbv iota.
    rewrite i_add_ok by lia. cbv beta iota zeta. cbn [bind]. apply Hfin; [lia|].
    intros a. unfold adds, subs. rewrite Ein. destruct (l_asset t =? a)%N eqn:E; [apply N.eqb_eq in E; subst a|]; lia.
  - rewrite TC. change (TMint =? TWithdrawalSubmit) with false. change (TMint =? TDeposit) with false.
    change (TMint =? TMint) with true. cbv iota.
    rewrite i_add_ok by lia. cbv beta iota zeta. cbn [bind]. apply Hfin; [lia|].
    intros a. unfold adds, subs. rewrite Ein. destruct (l_asset t =? a)%N eqn:E; [apply N.eqb_eq in E; subst a|]; lia.
  - destruct TC as [T1 T2].
    assert (Hss : 0 <= submit_sum (l_outs t)) by (apply submit_sum_nonneg; exact Hp).
    destruct (l_type t =? TWithdrawalSubmit) eqn:Ew.
    + rewrite sub_submits_ok by (try exact Hp; lia). cbv beta iota zeta. cbn [bind]. apply Hfin; [lia|].
      intros a. unfold adds, subs. rewrite Ein, Ew. destruct (l_asset t =? a)%N eqn:E; [apply N.eqb_eq in E; subst a|]; lia.
    + destruct (l_type t =? TDeposit) eqn:Ed; [apply Z.eqb_eq in Ed; contradiction|].
      destruct (l_type t =? TMint) eqn:Em; [apply Z.eqb_eq in Em; contradiction|].
      exists s. split; [reflexivity|]. repeat split. intros a. unfold adds, subs. rewrite Ein, Ew.
      destruct (l_asset t =? a)%N; lia.
Qed.

Lemma finalize_ok : forall s snap t,
  ready s t ->
  0 <= total_of s (l_asset t) ->
  total_of s (l_asset t) + adds t (l_asset t) <= capacity (l_asset t) ->
  subs t (l_asset t) <= total_of s (l_asset t) ->
  exists s', finalize_tx s snap t = Ok s' /\
    st_ghosts s' = st_ghosts s /\ st_bodies s' = st_bodies s /\ st_uniq s' = st_uniq s /\
    (forall r, amem r (st_finals s) = true -> amem r (st_finals s') = true) /\
    (st_infos s' = st_infos s \/
       exists i, deposit_info t = Some i /\ st_infos s' = aset (l_asset t) i (st_infos s)) /\
    (forall a, total_of s' a = total_of s a \/ total_of s' a = total_of s a + adds t a - subs t a).
Proof.
  intros s snap t R H0 Hcap Hsub. unfold finalize_tx.
  destruct (amem (l_hash t) (st_finals s)) eqn:Ef.
  { exists s. repeat split; auto. }
  set (s1 := set_finals s (aset (l_hash t) snap (st_finals s))).
  assert (Hs2 : exists s2,
    match l_in t with
    | LDeposit _ info _ => write_asset_info s1 (l_asset t) info
    | _ => Ok s1
    end = Ok s2 /\
    st_totals s2 = st_totals s /\ st_ghosts s2 = st_ghosts s /\ st_bodies s2 = st_bodies s /\
    st_uniq s2 = st_uniq s /\ st_finals s2 = aset (l_hash t) snap (st_finals s) /\
    alookup (l_asset t) (st_infos s2) <> None /\
    (st_infos s2 = st_infos s \/
       exists i, deposit_info t = Some i /\ st_infos s2 = aset (l_asset t) i (st_infos s))).
  { pose proof (rd_info _ _ R) as I. unfold deposit_info.
    destruct (l_in t) as [k i d|b m|ins].
    - destruct I as [_ [I|I]]; unfold write_asset_info; cbn [st_infos s1 set_finals]; rewrite I.
      + eexists. split; [reflexivity|]. cbn. repeat split; try reflexivity.
        * rewrite N.eqb_refl. discriminate.
        * right. exists i. split; reflexivity.
      + rewrite N.eqb_refl. exists s1. cbn. repeat split; try reflexivity.
        * rewrite I. discriminate.
        * left. reflexivity.
    - exists s1. cbn. repeat split; try reflexivity; try (left; reflexivity); apply I.
    - exists s1. cbn. repeat split; try reflexivity; try (left; reflexivity); apply I. }
  destruct Hs2 as (s2 & E2 & T2 & G2 & B2 & U2 & F2 & I2 & J2). rewrite E2. cbn [bind].
  destruct (write_utxos_ok (l_outs t) s2 t 0) as (s3 & E3 & (T3 & I3 & G3 & B3 & F3 & U3)).
  { intros k Hk. rewrite G2. apply (rd_ghost _ _ R k Hk). }
  { intros o Ho. apply (rd_outs _ _ R o Ho). }
  { pose proof (rd_count _ _ R) as C. change Consts.KsSliceCountLimit with 256 in C.
    change Consts.KsInputIndexLimit with 1024. lia. }
  { intros Hc. destruct (rd_claim _ _ R Hc) as (r & rs & A & B & C). exists r, rs.
    rewrite B2, F2. repeat split; [exact A|exact B|apply amem_aset_mono; exact C]. }
  rewrite E3. cbn [bind].
  assert (Tot : forall a, total_of s3 a = total_of s a).
  { intros a. unfold total_of. rewrite T3, T2. reflexivity. }
  destruct (write_total_ok s3 t) as (s4 & E4 & I4 & G4 & B4 & F4 & U4 & T4).
  { rewrite I3. exact I2. }
  { intros o Ho. apply (rd_outs _ _ R o Ho). }
  { pose proof (rd_info _ _ R) as I. destruct (l_in t); try exact Logic.I; apply I. }
  { rewrite Tot. exact H0. }
  { rewrite Tot. exact Hcap. }
  { rewrite Tot. exact Hsub. }
  exists s4. split; [exact E4|]. repeat split.
  - congruence.
  - congruence.
  - congruence.
  - intros r Hr. rewrite F4, F3, F2. apply amem_aset_mono. exact Hr.
  - rewrite I4, I3. exact J2.
  - intros a. right. rewrite T4, Tot. reflexivity.
Qed.

Lemma sum_adds_cons : forall t r a, sum_adds (t :: r) a = adds t a + sum_adds r a.
Proof. reflexivity. Qed.
Lemma sum_subs_cons : forall t r a, sum_subs (t :: r) a = subs t a + sum_subs r a.
Proof. reflexivity. Qed.

Lemma sum_nonneg : forall s ts a, (forall t, In t ts -> ready s t) ->
  0 <= sum_adds ts a /\ 0 <= sum_subs ts a.
Proof.
  induction ts as [|t r IH]; intros a H; [cbn; lia|]. rewrite sum_adds_cons, sum_subs_cons.
  destruct (adds_subs_nonneg s t a (H t (or_introl eq_refl))).
  destruct (IH a (fun x Hx => H x (or_intror Hx))). lia.
Qed.

(* readiness of a later member survives the finalization of an earlier one *)
Lemma ready_preserved : forall s s' t0 t,
  ready s t ->
  st_ghosts s' = st_ghosts s -> st_bodies s' = st_bodies s ->
  (forall r, amem r (st_finals s) = true -> amem r (st_finals s') = true) ->
  (st_infos s' = st_infos s \/
     exists i, deposit_info t0 = Some i /\ st_infos s' = aset (l_asset t0) i (st_infos s)) ->
  (forall i0 i, l_asset t0 = l_asset t -> deposit_info t0 = Some i0 -> deposit_info t = Some i -> i0 = i) ->
  ready s' t.
Proof.
  intros s s' t0 t R G B F I A. constructor.
  - intros k Hk. rewrite G. apply (rd_ghost _ _ R k Hk).
  - apply (rd_outs _ _ R).
  - apply (rd_count _ _ R).
  - intros Hc. destruct (rd_claim _ _ R Hc) as (r & rs & X & Y & Z). exists r, rs.
    rewrite B. repeat split; [exact X|exact Y|apply F; exact Z].
  - pose proof (rd_info _ _ R) as RI. destruct I as [I|(i0 & D0 & I)]; rewrite I; [exact RI|].
    destruct (N.eq_dec (l_asset t) (l_asset t0)) as [E|E].
    + rewrite E, alookup_aset_eq. unfold deposit_info in A.
      destruct (l_in t) as [k i d|b m|ins].
      * destruct RI as [P _]. split; [exact P|]. right. f_equal. apply (A i0 i); [symmetry; exact E|exact D0|reflexivity].
      * destruct RI as [P _]. split; [exact P|discriminate].
      * discriminate.
    + rewrite (alookup_aset_neq _ _ _ _ E). exact RI.
Qed.

Lemma c16_members_ok : forall ts s snap,
  (forall t, In t ts -> alookup (l_hash t) (st_bodies s) = Some t) ->
  (forall t, In t ts -> ready s t) ->
  infos_agree ts ->
  (forall a, 0 <= total_of s a) ->
  (forall a, total_of s a + sum_adds ts a <= capacity a) ->
  (forall a, sum_subs ts a <= total_of s a) ->
  exists s', write_members s snap (map l_hash ts) = Ok s'.
Proof.
  induction ts as [|t r IH]; intros s snap Hb Hr Ha H0 Hc Hs.
  - exists s. reflexivity.
  - cbn [map write_members]. rewrite (Hb t (or_introl eq_refl)).
    pose proof (Hr t (or_introl eq_refl)) as Rt.
    assert (Nn : forall a, 0 <= sum_adds r a /\ 0 <= sum_subs r a).
    { intros a. apply (sum_nonneg s). intros x Hx. apply Hr. right. exact Hx. }
    assert (Nt : forall a, 0 <= adds t a /\ 0 <= subs t a) by (intros a; apply (adds_subs_nonneg s); exact Rt).
    destruct (finalize_ok s snap t Rt) as (s1 & E1 & G1 & B1 & U1 & F1 & I1 & T1).
    { apply H0. }
    { specialize (Hc (l_asset t)). rewrite sum_adds_cons in Hc.
      destruct (Nn (l_asset t)). lia. }
    { specialize (Hs (l_asset t)). rewrite sum_subs_cons in Hs.
      destruct (Nn (l_asset t)). lia. }
    rewrite E1. cbn [bind].
    apply IH.
    + intros x Hx. cbn [st_bodies set_uniq]. rewrite B1. apply Hb. right. exact Hx.
    + intros x Hx. apply (ready_preserved s _ t x).
      * apply Hr. right. exact Hx.
      * cbn. exact G1.
      * cbn. exact B1.
      * cbn. exact F1.
      * cbn. exact I1.
      * intros i0 i Ea D0 D. apply (Ha t x i0 i); [left; reflexivity|right; exact Hx|exact Ea|exact D0|exact D].
    + intros t1 t2 i1 i2 H1 H2. apply Ha; right; assumption.
    + intros a. change (total_of (set_uniq s1 (l_hash t :: st_uniq s1)) a) with (total_of s1 a).
      specialize (Hs a). rewrite sum_subs_cons in Hs.
      destruct (Nn a), (Nt a), (T1 a) as [E|E]; rewrite E; specialize (H0 a); lia.
    + intros a. change (total_of (set_uniq s1 (l_hash t :: st_uniq s1)) a) with (total_of s1 a).
      specialize (Hc a). rewrite sum_adds_cons in Hc.
      destruct (Nn a), (Nt a), (T1 a) as [E|E]; rewrite E; lia.
    + intros a. change (total_of (set_uniq s1 (l_hash t :: st_uniq s1)) a) with (total_of s1 a).
      specialize (Hs a). rewrite sum_subs_cons in Hs.
      destruct (Nn a), (Nt a), (T1 a) as [E|E]; rewrite E; lia.
Qed.

(* the statement for WriteSnapshot: members stored, not yet recorded for this node *)
Lemma c16_outside : forall ts s sn,
  ls_txs sn = map l_hash ts ->
  (forall t, In t ts -> alookup (l_hash t) (st_bodies s) = Some t) ->
  (forall t, In t ts -> nmem (l_hash t) (st_uniq s) = false) ->
  (forall t, In t ts -> ready s t) ->
  infos_agree ts ->
  (forall a, 0 <= total_of s a) ->
  (forall a, total_of s a + sum_adds ts a <= capacity a) ->
  (forall a, sum_subs ts a <= total_of s a) ->
  exists s', write_snapshot s sn = Ok s'.
Proof.
  intros ts s sn Etx Hb Hu Hr Ha H0 Hc Hs. unfold write_snapshot. rewrite Etx.
  assert (existsb (fun h => negb (amem h (st_bodies s))) (map l_hash ts) = false) as ->.
  { apply not_true_is_false. intro E. apply existsb_exists in E. destruct E as (h & Hin & Hn).
    apply in_map_iff in Hin. destruct Hin as (t & <- & Ht). unfold amem in Hn. rewrite (Hb t Ht) in Hn. discriminate. }
  assert (existsb (fun h => nmem h (st_uniq s)) (map l_hash ts) = false) as ->.
  { apply not_true_is_false. intro E. apply existsb_exists in E. destruct E as (h & Hin & Hn).
    apply in_map_iff in Hin. destruct Hin as (t & <- & Ht). rewrite (Hu t Ht) in Hn. discriminate. }
  apply c16_members_ok; assumption.
Qed.


(* ===================================================================== *)
(* C16: the facts C16_outside consumes, derived from validate_batch       *)
(* ===================================================================== *)

(* what validation (Validate, LockInputs, WriteTransaction) may change: ghost
   bindings and stored bodies only grow; totals, infos, finalizations and the
   UNIQUE records are untouched *)
Definition vmono (s1 s2 : lstate) : Prop :=
  (forall k v, alookup k (st_ghosts s1) = Some v -> alookup k (st_ghosts s2) = Some v) /\
  (forall h t, alookup h (st_bodies s1) = Some t -> alookup h (st_bodies s2) = Some t) /\
  st_finals s2 = st_finals s1 /\ st_infos s2 = st_infos s1 /\
  st_totals s2 = st_totals s1 /\ st_uniq s2 = st_uniq s1.

Lemma vmono_refl : forall s, vmono s s.
Proof. intros s. repeat split; auto. Qed.

Lemma vmono_trans : forall a b c, vmono a b -> vmono b c -> vmono a c.
Proof.
  intros a b c (G1 & B1 & F1 & I1 & T1 & U1) (G2 & B2 & F2 & I2 & T2 & U2).
  repeat split; try congruence; auto.
Qed.

Lemma amem_of_lookup : forall {V} k (l : list (N * V)) v, alookup k l = Some v -> amem k l = true.
Proof. intros V k l v H. unfold amem. rewrite H. reflexivity. Qed.
Lemma amem_lookup : forall {V} k (l : list (N * V)), amem k l = true -> exists v, alookup k l = Some v.
Proof. intros V k l H. unfold amem in H. destruct (alookup k l); [eauto|discriminate]. Qed.

Lemma ready_vmono : forall s1 s2 t, ready s1 t -> vmono s1 s2 -> ready s2 t.
Proof.
  intros s1 s2 t R (G & B & F & I & T & U). constructor.
  - intros k Hk. apply G. apply (rd_ghost _ _ R k Hk).
  - apply (rd_outs _ _ R).
  - apply (rd_count _ _ R).
  - intros Hc. destruct (rd_claim _ _ R Hc) as (r & rs & X & Y & Z). exists r, rs.
    split; [exact X|]. rewrite F. split; [|exact Z].
    destruct (amem_lookup _ _ Y) as (v & Hv). apply (amem_of_lookup _ _ v). apply B. exact Hv.
  - rewrite I. apply (rd_info _ _ R).
Qed.

(* ---- LockGhostKeys --------------------------------------------------------- *)

Definition gstep (h : N) (g : list (N * N)) (k : N) : list (N * N) :=
  match alookup k g with None => aset k h g | Some _ => g end.

Lemma gstep_keeps : forall h g k k' v, alookup k' g = Some v -> alookup k' (gstep h g k) = Some v.
Proof.
  intros h g k k' v H. unfold gstep. destruct (alookup k g) eqn:E; [exact H|].
  unfold aset. cbn [alookup]. destruct (k' =? k)%N eqn:Ek; [|exact H].
  apply N.eqb_eq in Ek. subst k'. rewrite H in E. discriminate.
Qed.

Lemma gfold_keeps : forall h keys g k' v,
  alookup k' g = Some v -> alookup k' (fold_left (gstep h) keys g) = Some v.
Proof.
  intros h keys. induction keys as [|k r IH]; intros g k' v H; [exact H|].
  cbn [fold_left]. apply IH. apply gstep_keeps. exact H.
Qed.

Lemma gfold_binds : forall h keys g,
  (forall k, In k keys -> alookup k g = None \/ alookup k g = Some h) ->
  forall k, In k keys -> alookup k (fold_left (gstep h) keys g) = Some h.
Proof.
  intros h keys. induction keys as [|k0 r IH]; intros g H k Hk; [destruct Hk|].
  cbn [fold_left].
  assert (B0 : alookup k0 (gstep h g k0) = Some h).
  { unfold gstep. destruct (H k0 (or_introl eq_refl)) as [E|E]; rewrite E.
    - unfold aset. cbn [alookup]. rewrite N.eqb_refl. reflexivity.
    - exact E. }
  destruct Hk as [<-|Hk]; [apply gfold_keeps; exact B0|].
  apply IH; [|exact Hk]. intros x Hx.
  destruct (N.eq_dec x k0) as [->|Ne]; [right; exact B0|].
  unfold gstep. destruct (alookup k0 g); [apply H; right; exact Hx|].
  unfold aset. cbn [alookup]. destruct (x =? k0)%N eqn:E; [apply N.eqb_eq in E; contradiction|].
  apply H. right. exact Hx.
Qed.

Lemma bind_ghosts_spec : forall s h keys,
  ghosts_free s h keys = true ->
  (forall k, In k keys -> alookup k (st_ghosts (bind_ghosts s h keys)) = Some h) /\
  vmono s (bind_ghosts s h keys).
Proof.
  intros s h keys F. unfold bind_ghosts. cbn [st_ghosts set_ghosts].
  change (fun g k => match alookup k g with None => aset k h g | Some _ => g end) with (gstep h).
  split.
  - apply gfold_binds. intros k Hk. unfold ghosts_free in F. rewrite forallb_forall in F.
    specialize (F k Hk). destruct (alookup k (st_ghosts s)) as [b|]; [|left; reflexivity].
    right. apply N.eqb_eq in F. subst b. reflexivity.
  - repeat split; try reflexivity; cbn; auto. intros k v Hv. apply gfold_keeps. exact Hv.
Qed.


(* the input stage of validate_tx *)
Definition input_stage (s : lstate) (t : ltx) : option (Z * list Z * bool) :=
  match l_in t with
  | LDeposit _ _ amt => Some (amt, [], true)
  | LMint _ amt => Some (amt, [], true)
  | LUtxos ins =>
      match check_utxo_inputs s (l_hash t) (l_asset t) (l_type t) [] ins with
      | Some (a, tys) => Some (a, tys, l_sig t)
      | None => None
      end
  end.

(* everything an accepting validate_tx checked *)
Lemma validate_tx_true : forall s t s1,
  validate_tx s t = (s1, true) ->
  exists amt utypes,
    1 <= inputs_count t /\
    Z.of_nat (length (l_outs t)) <= Consts.KsSliceCountLimit /\
    refs_ok s (l_refs t) = true /\
    input_stage s t = Some (amt, utypes, true) /\
    0 < amt /\
    outputs_shape_ok (l_outs t) = true /\
    ghosts_free s (l_hash t) (all_keys (l_outs t)) = true /\
    s1 = bind_ghosts s (l_hash t) (all_keys (l_outs t)) /\
    type_specific s1 t (l_type t) utypes = true.
Proof.
  intros s t s1 H. unfold validate_tx in H. cbv zeta in H.
  destruct (l_type t =? TUnknown); [discriminate|].
  destruct ((inputs_count t <? 1) || (Z.of_nat (length (l_outs t)) <? 1)) eqn:E1; [discriminate|].
  destruct ((Consts.KsSliceCountLimit <? inputs_count t)
            || (Consts.KsSliceCountLimit <? Z.of_nat (length (l_outs t)))
            || (Consts.KsSliceCountLimit <? Z.of_nat (length (l_refs t)))) eqn:E2; [discriminate|].
  destruct (negb (refs_ok s (l_refs t))) eqn:E3; [discriminate|].
  fold (input_stage s t) in H.
  destruct (input_stage s t) as [[[amt utypes] sigs]|] eqn:Einp; [|discriminate].
  destruct (negb sigs) eqn:E4; [discriminate|].
  destruct (amt <=? 0) eqn:E5; [discriminate|].
  destruct (negb (outputs_shape_ok (l_outs t))) eqn:E6; [discriminate|].
  destruct (negb (sum_outs (l_outs t) =? amt)) eqn:E7; [discriminate|].
  destruct (negb (ghosts_free s (l_hash t) (all_keys (l_outs t)))) eqn:E8; [discriminate|].
  injection H as <- Hts.
  apply negb_false_iff in E3, E4, E6, E8. subst sigs.
  apply orb_false_iff in E1. destruct E1 as [E1 _]. apply Z.ltb_ge in E1.
  apply orb_false_iff in E2. destruct E2 as [E2 _]. apply orb_false_iff in E2. destruct E2 as [_ E2]. apply Z.ltb_ge in E2.
  apply Z.leb_gt in E5.
  exists amt, utypes. repeat split; try assumption; try lia.
Qed.

(* ---- output shapes per type ------------------------------------------------- *)

Definition out_fine (o : lout) : Prop :=
  o_type o = OScript \/ o_type o = OWithdrawalSubmit \/ o_type o = OWithdrawalClaim.

Lemma type_of_outputs_script : forall outs b,
  type_of_outputs outs b = TScript -> Forall (fun o => o = OScript) outs.
Proof.
  induction outs as [|o r IH]; intros b H; [constructor|].
  cbn [type_of_outputs] in H.
  repeat match type of H with
         | (if ?c then _ else _) = _ => destruct c eqn:?; [vm_compute in H; discriminate H|]
         end.
  pose proof (IH _ H) as F. constructor; [|exact F].
  (* is_script stayed true along the way, so o is a script output; but the
     flag passed down may already be false: then the result cannot be TScript *)
  destruct (o =? OScript) eqn:Eo; [apply Z.eqb_eq in Eo; exact Eo|].
  exfalso. rewrite andb_false_r in H. clear -H.
  revert H. generalize r. induction r0 as [|x r0 IHr]; intros H.
  - cbn in H. vm_compute in H. discriminate H.
  - cbn [type_of_outputs] in H.
    repeat match type of H with
           | (if ?c then _ else _) = _ => destruct c eqn:?; [vm_compute in H; discriminate H|]
           end.
    cbn [andb] in H. apply IHr. exact H.
Qed.

Lemma forallb_script : forall outs, forallb (fun o => o_type o =? OScript) outs = true ->
  forall o, In o outs -> o_type o = OScript.
Proof. intros outs H o Ho. rewrite forallb_forall in H. apply Z.eqb_eq. apply H. exact Ho. Qed.

Lemma oscript_not_claim : OScript <> OWithdrawalClaim.
Proof. intro E. vm_compute in E. discriminate E. Qed.
Lemma osubmit_not_claim : OWithdrawalSubmit <> OWithdrawalClaim.
Proof. intro E. vm_compute in E. discriminate E. Qed.

(* from an accepting type specific validator: every output is a script,
   submit or claim output; a claim output only occurs in a claim transaction,
   whose single reference is stored (and, by refs_ok, finalized) *)
Lemma type_specific_outs : forall s t utypes,
  type_specific s t (l_type t) utypes = true ->
  (forall o, In o (l_outs t) -> out_fine o) /\
  ((exists o, In o (l_outs t) /\ o_type o = OWithdrawalClaim) -> exists r, l_refs t = [r]).
Proof.
  intros s t utypes H. unfold type_specific in H.
  destruct (l_type t =? TScript) eqn:Ts.
  { apply Z.eqb_eq in Ts. unfold l_type, tx_type in Ts.
    assert (A : forall o, In o (l_outs t) -> o_type o = OScript).
    { destruct (type_of_inputs (l_kinds t)) as [ty|] eqn:Ei.
      - exfalso. pose proof (l_type_cases t) as C. unfold l_type, tx_type in C. rewrite Ei in C.
        unfold l_kinds in Ei. destruct (l_in t).
        + cbn in Ei. injection Ei as <-. vm_compute in Ts. discriminate Ts.
        + cbn in Ei. injection Ei as <-. vm_compute in Ts. discriminate Ts.
        + assert (type_of_inputs (map (fun _ => IKUtxo) ins) = None) as X by (clear; induction ins; [reflexivity|exact IHins]).
          rewrite X in Ei. discriminate.
      - pose proof (type_of_outputs_script _ _ Ts) as F. intros o Ho.
        rewrite Forall_forall in F. apply (F (o_type o)). apply in_map. exact Ho. }
    split; [intros o Ho; left; apply A; exact Ho|].
    intros (o & Ho & E). rewrite (A o Ho) in E. exfalso. exact (oscript_not_claim E). }
  destruct (l_type t =? TMint) eqn:Tm.
  { destruct (l_in t); try discriminate.
    apply andb_true_iff in H. destruct H as [H _]. apply andb_true_iff in H. destruct H as [H _].
    pose proof (forallb_script _ H) as A.
    split; [intros o Ho; left; apply A; exact Ho|].
    intros (o & Ho & E). rewrite (A o Ho) in E. exfalso. exact (oscript_not_claim E). }
  destruct (l_type t =? TDeposit) eqn:Td.
  { destruct (l_in t); try discriminate.
    repeat (apply andb_true_iff in H; destruct H as [H _]).
    destruct (l_outs t) as [|o [|]]; try discriminate. apply Z.eqb_eq in H.
    split; [intros x [<-|[]]; left; exact H|].
    intros (x & [<-|[]] & E). rewrite H in E. exfalso. exact (oscript_not_claim E). }
  destruct (l_type t =? TWithdrawalSubmit) eqn:Tw.
  { apply andb_true_iff in H. destruct H as [H Hh]. apply andb_true_iff in H. destruct H as [_ Ht].
    destruct (l_outs t) as [|o r]; [cbn in Hh; vm_compute in Hh; discriminate Hh|].
    cbn [head_type] in Hh. apply Z.eqb_eq in Hh. cbn [tail_all_script] in Ht.
    pose proof (forallb_script _ Ht) as A.
    split; [intros x [<-|Hx]; [right; left; exact Hh|left; apply A; exact Hx]|].
    intros (x & [<-|Hx] & E); exfalso.
    - rewrite Hh in E. exact (osubmit_not_claim E).
    - rewrite (A x Hx) in E. exact (oscript_not_claim E). }
  destruct (l_type t =? TWithdrawalClaim) eqn:Tc; [|discriminate].
  apply andb_true_iff in H. destruct H as [H _]. apply andb_true_iff in H. destruct H as [H Hr].
  apply andb_true_iff in H. destruct H as [H _]. apply andb_true_iff in H. destruct H as [H Hh].
  apply andb_true_iff in H. destruct H as [_ Ht].
  destruct (l_outs t) as [|o r]; [cbn in Hh; vm_compute in Hh; discriminate Hh|].
  cbn [head_type] in Hh. apply Z.eqb_eq in Hh. cbn [tail_all_script] in Ht.
  pose proof (forallb_script _ Ht) as A.
  split; [intros x [<-|Hx]; [right; right; exact Hh|left; apply A; exact Hx]|].
  intros _. destruct (l_refs t) as [|r0 [|]]; try discriminate. exists r0. reflexivity.
Qed.


(* ledger invariants validation relies on: XIN is a recorded asset (genesis),
   every unspent output's asset is recorded (outputs only come from deposits,
   mints and genesis, which record the asset) *)
Record vinv (s : lstate) : Prop := {
  vi_xin : alookup Consts.KsAssetXIN (st_infos s) <> None;
  vi_utxo : forall h i u, ulookup h i s = Some u -> alookup (u_asset u) (st_infos s) <> None
}.

Lemma check_inputs_first : forall s h asset ty seen ih ii r a tys,
  check_utxo_inputs s h asset ty seen ((ih, ii) :: r) = Some (a, tys) ->
  exists u, ulookup ih ii s = Some u /\ u_asset u = asset.
Proof.
  intros s h asset ty seen ih ii r a tys H. cbn [check_utxo_inputs] in H.
  destruct (pmem ih ii seen); [discriminate|].
  destruct (ulookup ih ii s) as [u|]; [|discriminate].
  destruct (negb (u_asset u =? asset)%N) eqn:E; [discriminate|].
  apply negb_false_iff in E. apply N.eqb_eq in E. exists u. split; [reflexivity|exact E].
Qed.

Lemma outputs_shape_facts : forall outs, outputs_shape_ok outs = true ->
  forall o, In o outs -> 0 < o_amt o.
Proof.
  intros outs H o Ho. unfold outputs_shape_ok in H. apply andb_true_iff in H. destruct H as [H _].
  rewrite forallb_forall in H. specialize (H o Ho).
  apply andb_true_iff in H. destruct H as [H _]. apply andb_true_iff in H. destruct H as [H _].
  apply Z.ltb_lt in H. exact H.
Qed.

Lemma refs_ok_in : forall s refs r, refs_ok s refs = true -> In r refs ->
  amem r (st_bodies s) = true /\ amem r (st_finals s) = true.
Proof.
  intros s refs r H Hr. unfold refs_ok in H. apply andb_true_iff in H. destruct H as [_ H].
  rewrite forallb_forall in H. specialize (H r Hr). apply andb_true_iff in H. exact H.
Qed.

(* an accepted member is ready for finalization in the state validation leaves *)
Lemma validate_tx_ready : forall s t s1,
  vinv s -> validate_tx s t = (s1, true) ->
  ready s1 t /\ vmono s s1 /\ st_utxos s1 = st_utxos s /\ st_dlocks s1 = st_dlocks s /\ st_mints s1 = st_mints s.
Proof.
  intros s t s1 V H.
  destruct (validate_tx_true _ _ _ H) as (amt & utypes & Hin & Hcnt & Hrefs & Hst & Hamt & Hshape & Hfree & -> & Hts).
  destruct (bind_ghosts_spec s (l_hash t) (all_keys (l_outs t)) Hfree) as [Hb Hm].
  destruct (type_specific_outs _ _ _ Hts) as [Hfine Hclaim].
  split; [|split; [exact Hm|repeat split]].
  constructor.
  - exact Hb.
  - intros o Ho. split; [apply (outputs_shape_facts _ Hshape o Ho)|apply Hfine; exact Ho].
  - exact Hcnt.
  - intros Hc. destruct (Hclaim Hc) as (r & Er). exists r, []. split; [exact Er|].
    destruct (refs_ok_in s (l_refs t) r Hrefs) as [A B]; [rewrite Er; left; reflexivity|].
    destruct Hm as (_ & Bm & Fm & _). split.
    + destruct (amem_lookup _ _ A) as (v & Hv). apply (amem_of_lookup _ _ v). apply Bm. exact Hv.
    + rewrite Fm. exact B.
  - pose proof (l_type_cases t) as TC. unfold input_stage in Hst.
    change (st_infos (bind_ghosts s (l_hash t) (all_keys (l_outs t)))) with (st_infos s).
    destruct (l_in t) as [k i d|b m|ins] eqn:Ein.
    + unfold type_specific in Hts. rewrite TC in Hts. rewrite Ein in Hts.
      change (TDeposit =? TScript) with false in Hts. change (TDeposit =? TMint) with false in Hts.
      change (TDeposit =? TDeposit) with true in Hts. cbv iota in Hts.
      apply andb_true_iff in Hts. destruct Hts as [Hts _]. apply andb_true_iff in Hts. destruct Hts as [Hts _].
      apply andb_true_iff in Hts. destruct Hts as [Hts Hinfo]. apply andb_true_iff in Hts. destruct Hts as [_ Hd].
      apply Z.ltb_lt in Hd. split; [exact Hd|].
      change (st_infos (bind_ghosts s (l_hash t) (all_keys (l_outs t)))) with (st_infos s) in Hinfo.
      destruct (alookup (l_asset t) (st_infos s)) as [old|]; [|left; reflexivity].
      apply andb_true_iff in Hinfo. destruct Hinfo as [_ Ho]. apply N.eqb_eq in Ho. subst old. right. reflexivity.
    + injection Hst as <- _. split; [exact Hamt|].
      unfold type_specific in Hts. rewrite TC in Hts. rewrite Ein in Hts.
      change (TMint =? TScript) with false in Hts. change (TMint =? TMint) with true in Hts. cbv iota in Hts.
      apply andb_true_iff in Hts. destruct Hts as [Hts _]. apply andb_true_iff in Hts. destruct Hts as [_ Hx].
      apply N.eqb_eq in Hx. rewrite Hx. apply (vi_xin _ V).
    + unfold inputs_count in Hin. rewrite Ein in Hin.
      destruct ins as [|[ih ii] r]; [cbn in Hin; lia|].
      destruct (check_utxo_inputs s (l_hash t) (l_asset t) (l_type t) [] ((ih, ii) :: r)) as [[a tys]|] eqn:Ec; [|discriminate].
      destruct (check_inputs_first _ _ _ _ _ _ _ _ _ _ Ec) as (u & Hu & Ea).
      rewrite <- Ea. apply (vi_utxo _ V ih ii u Hu).
Qed.


(* ---- LockInputs / WriteTransaction ------------------------------------------ *)

Lemma ulookup_uset : forall h i u s h' i',
  ulookup h' i' (uset h i u s) =
  if (h' =? h)%N then (if (i' =? i)%N then Some u else ulookup h i' s) else ulookup h' i' s.
Proof.
  intros h i u s h' i'. unfold ulookup, uset. cbn [st_utxos set_utxos]. unfold aset. cbn [alookup].
  destruct (h' =? h)%N eqn:Eh; [|reflexivity].
  cbn [alookup]. destruct (i' =? i)%N; [reflexivity|].
  destruct (alookup h (st_utxos s)); reflexivity.
Qed.

(* locking an existing output keeps its asset: the invariant survives *)
Lemma lock_utxos_spec : forall ins s h s1,
  lock_utxos s h ins = Some s1 -> vinv s -> vmono s s1 /\ vinv s1.
Proof.
  induction ins as [|[ih ii] r IH]; intros s h s1 H V.
  - injection H as <-. split; [apply vmono_refl|exact V].
  - cbn [lock_utxos] in H. destruct (ulookup ih ii s) as [u|] eqn:Eu; [|discriminate].
    destruct (negb (u_lock u =? 0)%N && negb (u_lock u =? h)%N); [discriminate|].
    set (s' := uset ih ii {| u_asset := u_asset u; u_amt := u_amt u; u_type := u_type u; u_lock := h |} s) in H.
    assert (V' : vinv s').
    { constructor; [apply (vi_xin _ V)|].
      intros h' i' u' Hl. unfold s' in Hl. rewrite ulookup_uset in Hl.
      change (st_infos s') with (st_infos s).
      destruct (h' =? ih)%N eqn:Eh.
      - destruct (i' =? ii)%N eqn:Ei.
        + injection Hl as <-. cbn. apply (vi_utxo _ V ih ii u Eu).
        + apply (vi_utxo _ V ih i' u' Hl).
      - apply (vi_utxo _ V h' i' u' Hl). }
    destruct (IH s' h s1 H V') as [M V1]. split; [|exact V1].
    eapply vmono_trans; [|exact M]. unfold s'. repeat split; auto.
Qed.

Lemma lock_inputs_spec : forall s t s1,
  lock_inputs s t = Some s1 -> vinv s -> vmono s s1 /\ vinv s1.
Proof.
  intros s t s1 H V. unfold lock_inputs in H.
  destruct (l_type t =? TMint).
  { destruct (l_in t); try discriminate. destruct (zlookup batch (st_mints s)) as [[a' h']|].
    - destruct ((h' =? l_hash t)%N && (a' =? amt)); [|discriminate]. injection H as <-. split; [apply vmono_refl|exact V].
    - injection H as <-. split; [repeat split; auto|].
      constructor; [apply (vi_xin _ V)|]. intros h i u Hu. apply (vi_utxo _ V h i u Hu). }
  destruct (l_type t =? TDeposit).
  { destruct (l_in t); try discriminate. destruct (alookup key (st_dlocks s)) as [b|].
    - destruct (b =? l_hash t)%N; [|discriminate]. injection H as <-. split; [apply vmono_refl|exact V].
    - injection H as <-. split; [repeat split; auto|].
      constructor; [apply (vi_xin _ V)|]. intros h i u Hu. apply (vi_utxo _ V h i u Hu). }
  destruct (l_in t); try discriminate. apply (lock_utxos_spec _ _ _ _ H V).
Qed.

(* a member whose body is not stored yet gets stored under its hash *)
Lemma persist_tx_spec : forall s t s2,
  persist_tx s t = Some s2 -> alookup (l_hash t) (st_bodies s) = None -> vinv s ->
  alookup (l_hash t) (st_bodies s2) = Some t /\ vmono s s2 /\ vinv s2 /\
  (forall h, h <> l_hash t -> alookup h (st_bodies s2) = alookup h (st_bodies s)).
Proof.
  intros s t s2 H Hn V. unfold persist_tx in H. unfold amem in H. rewrite Hn in H.
  match type of H with (if ?c then _ else _) = _ => destruct c; [|discriminate] end.
  injection H as <-. cbn [st_bodies set_bodies]. split; [apply alookup_aset_eq|]. split; [|split].
  - split; [intros k v Hv; exact Hv|]. split; [|repeat split].
    intros h t' Ht. cbn [st_bodies set_bodies]. destruct (N.eq_dec h (l_hash t)) as [->|Ne].
    + rewrite Hn in Ht. discriminate.
    + rewrite alookup_aset_neq by exact Ne. exact Ht.
  - constructor; [apply (vi_xin _ V)|]. intros h i u Hu. apply (vi_utxo _ V h i u Hu).
  - intros h Ne. apply alookup_aset_neq. exact Ne.
Qed.

Lemma lock_inputs_bodies : forall s t s1, lock_inputs s t = Some s1 -> st_bodies s1 = st_bodies s.
Proof.
  intros s t s1 H. unfold lock_inputs in H.
  destruct (l_type t =? TMint).
  { destruct (l_in t); try discriminate. destruct (zlookup batch (st_mints s)) as [[a' h']|].
    - destruct ((h' =? l_hash t)%N && (a' =? amt)); [|discriminate]. injection H as <-. reflexivity.
    - injection H as <-. reflexivity. }
  destruct (l_type t =? TDeposit).
  { destruct (l_in t); try discriminate. destruct (alookup key (st_dlocks s)) as [b|].
    - destruct (b =? l_hash t)%N; [|discriminate]. injection H as <-. reflexivity.
    - injection H as <-. reflexivity. }
  destruct (l_in t); try discriminate.
  revert s H. induction ins as [|[ih ii] r IH]; intros s H.
  - injection H as <-. reflexivity.
  - cbn [lock_utxos] in H. destruct (ulookup ih ii s) as [u|]; [|discriminate].
    destruct (negb (u_lock u =? 0)%N && negb (u_lock u =? l_hash t)%N); [discriminate|].
    rewrite (IH _ H). reflexivity.
Qed.


(* the cache is keyed by the payload hash *)
Definition pool_keyed (pool : list (N * ltx)) : Prop :=
  forall h t, alookup h pool = Some t -> l_hash t = h.

(* the members of a snapshot, as found in the cache *)
Fixpoint batch_txs (pool : list (N * ltx)) (hs : list N) : list ltx :=
  match hs with
  | [] => []
  | h :: r => match alookup h pool with
              | Some t => t :: batch_txs pool r
              | None => batch_txs pool r
              end
  end.

Lemma validate_loop_missing : forall hs s sn pool last found s' b,
  validate_loop s sn pool last found true hs = (s', b) -> b = false.
Proof.
  induction hs as [|h r IH]; intros s sn pool last found s' b H.
  - cbn in H. injection H as _ <-. reflexivity.
  - cbn [validate_loop] in H.
    destruct (alookup h (st_bodies s)) as [t|].
    + destruct (match alookup h (st_finals s) with Some sh => negb (sh =? ls_hash sn)%N | None => false end);
        [injection H as _ <-; reflexivity|].
      destruct (batch_rules sn (aset h t found) last); [apply (IH _ _ _ _ _ _ _ H)|injection H as _ <-; reflexivity].
    + destruct (alookup h pool) as [t|]; [|apply (IH _ _ _ _ _ _ _ H)].
      destruct (validate_tx s t) as [s1 ok]. destruct (negb ok); [injection H as _ <-; reflexivity|].
      destruct (negb (batch_rules sn (aset h t found) last)); [injection H as _ <-; reflexivity|].
      destruct (lock_and_persist s1 t) as [s2|]; [apply (IH _ _ _ _ _ _ _ H)|injection H as _ <-; reflexivity].
Qed.

Lemma vinv_same_utxos : forall s s1, vinv s -> st_utxos s1 = st_utxos s -> st_infos s1 = st_infos s -> vinv s1.
Proof.
  intros s s1 V U I. constructor; [rewrite I; apply (vi_xin _ V)|].
  intros h i u Hu. rewrite I. apply (vi_utxo _ V h i u). unfold ulookup in *. rewrite U in Hu. exact Hu.
Qed.

Lemma validate_tx_bodies : forall s t s1, validate_tx s t = (s1, true) -> st_bodies s1 = st_bodies s.
Proof.
  intros s t s1 H. destruct (validate_tx_true _ _ _ H) as (a & u & _ & _ & _ & _ & _ & _ & _ & -> & _). reflexivity.
Qed.

(* every member of an accepted, not yet stored, batch is stored under its
   hash and ready for finalization in the state validation leaves *)
Lemma validate_loop_ready : forall hs s sn pool last found s',
  validate_loop s sn pool last found false hs = (s', true) ->
  vinv s -> pool_keyed pool -> NoDup hs ->
  (forall h, In h hs -> alookup h (st_bodies s) = None) ->
  vmono s s' /\
  map l_hash (batch_txs pool hs) = hs /\
  (forall t, In t (batch_txs pool hs) -> alookup (l_hash t) (st_bodies s') = Some t /\ ready s' t).
Proof.
  induction hs as [|h r IH]; intros s sn pool last found s' H V PK ND Fr.
  - cbn in H. injection H as <-. split; [apply vmono_refl|]. split; [reflexivity|]. intros t [].
  - cbn [validate_loop] in H. rewrite (Fr h (or_introl eq_refl)) in H.
    cbn [batch_txs]. destruct (alookup h pool) as [t|] eqn:Ep.
    2:{ pose proof (validate_loop_missing _ _ _ _ _ _ _ _ H). discriminate. }
    pose proof (PK h t Ep) as Eh.
    destruct (validate_tx s t) as [s1 ok] eqn:Ev. destruct ok; cbn [negb] in H; [|discriminate].
    destruct (negb (batch_rules sn (aset h t found) last)); [discriminate|].
    destruct (lock_and_persist s1 t) as [s2|] eqn:El; [|discriminate].
    unfold lock_and_persist in El. destruct (lock_inputs s1 t) as [s1'|] eqn:Eli; [|discriminate].
    destruct (validate_tx_ready s t s1 V Ev) as (R1 & M1 & U1 & _ & _).
    pose proof (validate_tx_bodies _ _ _ Ev) as B1.
    assert (V1 : vinv s1) by (apply (vinv_same_utxos s s1 V U1); apply M1).
    destruct (lock_inputs_spec _ _ _ Eli V1) as [M1' V1'].
    pose proof (lock_inputs_bodies _ _ _ Eli) as B1'.
    assert (Hn : alookup (l_hash t) (st_bodies s1') = None).
    { rewrite B1', B1, Eh. apply Fr. left. reflexivity. }
    destruct (persist_tx_spec _ _ _ El Hn V1') as (Bt & M2 & V2 & Bo).
    apply NoDup_cons_iff in ND. destruct ND as [Hnotin ND'].
    destruct (IH s2 sn pool last (aset h t found) s' H V2 PK ND') as (M3 & Emap & Hall).
    { intros h' Hh'. rewrite Bo; [|intro E; subst h'; rewrite Eh in Hh'; apply Hnotin; exact Hh'].
      rewrite B1', B1. apply Fr. right. exact Hh'. }
    assert (Mall : vmono s1 s') by (eapply vmono_trans; [exact M1'|eapply vmono_trans; [exact M2|exact M3]]).
    split; [eapply vmono_trans; [exact M1|exact Mall]|]. split.
    + cbn [map]. rewrite Eh, Emap. reflexivity.
    + intros x [<-|Hx]; [|apply Hall; exact Hx]. split.
      * destruct M3 as (_ & B3 & _). apply B3. exact Bt.
      * apply (ready_vmono s1 s' t R1 Mall).
Qed.

(* ledger invariants of the state the snapshot is validated on *)
Record ledger_inv (s : lstate) : Prop := {
  li_v : vinv s;
  li_totals : forall a, 0 <= total_of s a;
  li_uniq : forall h, nmem h (st_uniq s) = true -> amem h (st_bodies s) = true
}.

Lemma total_of_vmono : forall s s' a, vmono s s' -> total_of s' a = total_of s a.
Proof. intros s s' a (_ & _ & _ & _ & T & _). unfold total_of. rewrite T. reflexivity. Qed.

(* Validation establishes every per-member fact C16_outside consumes; what is
   left are the two finding regions and the withdrawal bound:
   - capacity: validation cannot establish it for a batch (it reads only the
     recorded total, one member at a time): finding F5;
   - asset info agreement among the batch's deposits of an unrecorded asset:
     validation compares only with the recorded info: second finding;
   - withdrawals within the recorded total: not checked by validation at all;
     it follows from the supply invariant (C17: recorded total = value of the
     unspent outputs, and the members spend distinct unspent outputs).
   The members are not stored yet ([fresh]): a member already stored by an
   earlier refused snapshot is not validated again by validateSnapshotTransaction,
   its facts come from that earlier validation (not derived here). *)
Lemma c16_validated_then_finalizes : forall s sn pool last s',
  ledger_inv s -> pool_keyed pool -> NoDup (ls_txs sn) ->
  (forall h, In h (ls_txs sn) -> alookup h (st_bodies s) = None) ->
  validate_batch s sn pool last = (s', true) ->
  let ts := batch_txs pool (ls_txs sn) in
  (forall a, total_of s a + sum_adds ts a <= capacity a) ->
  infos_agree ts ->
  (forall a, sum_subs ts a <= total_of s a) ->
  exists s'', write_snapshot s' sn = Ok s''.
Proof.
  intros s sn pool last s' LI PK ND Fr Hv ts Hcap Hagree Hsub.
  unfold validate_batch in Hv.
  destruct (validate_loop_ready _ _ _ _ _ _ _ Hv (li_v _ LI) PK ND Fr) as (M & Emap & Hall).
  apply (c16_outside ts s' sn).
  - symmetry. exact Emap.
  - intros t Ht. apply (Hall t Ht).
  - intros t Ht. destruct M as (_ & _ & _ & _ & _ & U). rewrite U.
    destruct (nmem (l_hash t) (st_uniq s)) eqn:E; [|reflexivity].
    pose proof (li_uniq _ LI _ E) as A. unfold amem in A.
    assert (In (l_hash t) (ls_txs sn)) as Hin by (rewrite <- Emap; apply in_map; exact Ht).
    rewrite (Fr _ Hin) in A. discriminate.
  - intros t Ht. apply (Hall t Ht).
  - exact Hagree.
  - intros a. rewrite (total_of_vmono _ _ a M). apply (li_totals _ LI).
  - intros a. rewrite (total_of_vmono _ _ a M). apply Hcap.
  - intros a. rewrite (total_of_vmono _ _ a M). apply Hsub.
Qed.
