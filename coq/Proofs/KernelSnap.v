(* Lemmas about Model/KernelSnap.v (C16, C28). *)
From Coq Require Import List ZArith NArith Bool Lia ZifyN ZifyNat ZifyBool.
Require Import Mixin.Base.Res Mixin.Gen.Consts Mixin.Model.Fixed Mixin.Model.KernelSnap Mixin.Proofs.Fixed.
Import ListNotations.
Open Scope Z_scope.

(* ===================================================================== *)
(* C16: witnesses of the two recorded findings                            *)
(* ===================================================================== *)

Definition xin := Consts.KsAssetXIN.
Definition units (x : Z) : Z := x * 10 ^ 8.

Definition w_deposit (h key : N) (asset info : N) (amt : Z) (ghost : N) : ltx :=
  {| l_hash := h; l_asset := asset; l_in := LDeposit key info amt;
     l_outs := [{| o_type := OScript; o_amt := amt; o_keys := [ghost] |}];
     l_refs := []; l_sig := true |}.

(* genesis supply 94773 XIN; two deposits of 330000 XIN *)
Definition w_state := genesis_state 7%N (units 94773).
Definition w_d1 := w_deposit 101 201 xin 7 (units 330000) 301.
Definition w_d2 := w_deposit 102 202 xin 7 (units 330000) 302.
Definition w_snap := {| ls_hash := 900%N; ls_txs := [101%N; 102%N] |}.
Definition w_pool := [(101%N, w_d1); (102%N, w_d2)].
Definition w_last := {| cs_txs := [1%N]; cs_ts := 0 |}.

Lemma c16_refuted :
  exists s sn pool last s',
    (* each member alone is within capacity ... *)
    (forall t, In t (map snd pool) ->
       exists amt, l_in t = LDeposit (match l_in t with LDeposit k _ _ => k | _ => 0%N end) 7%N amt /\
                   total_of s (l_asset t) + amt < capacity (l_asset t)) /\
    (* ... every member validates and the batch passes the batch rules ... *)
    validate_batch s sn pool last = (s', true) /\
    (* ... and finalization panics *)
    write_snapshot s' sn = Panic.
Proof.
  exists w_state, w_snap, w_pool, w_last.
  eexists. split; [|split].
  - intros t Ht. simpl in Ht. destruct Ht as [<-|[<-|[]]]; eexists; split; try reflexivity; vm_compute; reflexivity.
  - vm_compute. reflexivity.
  - vm_compute. reflexivity.
Qed.

(* two deposits of the unrecorded asset BTC carrying different asset info *)
Definition btc := Consts.KsAssetBTC.
Definition w_e1 := w_deposit 111 211 btc 8 (units 1) 311.
Definition w_e2 := w_deposit 112 212 btc 9 (units 2) 312.
Definition w_snap2 := {| ls_hash := 901%N; ls_txs := [111%N; 112%N] |}.
Definition w_pool2 := [(111%N, w_e1); (112%N, w_e2)].

Lemma c16_refuted_asset_info :
  exists s sn pool last s',
    validate_batch s sn pool last = (s', true) /\ write_snapshot s' sn = Err.
Proof.
  exists w_state, w_snap2, w_pool2, w_last. eexists. split; vm_compute; reflexivity.
Qed.

(* ===================================================================== *)
(* C28                                                                    *)
(* ===================================================================== *)

Lemma consensus_not_batchable : forall ty, is_consensus_class ty = true -> is_batchable ty = false.
Proof.
  intros ty H. unfold is_consensus_class in H.
  repeat rewrite orb_true_iff in H. repeat rewrite Z.eqb_eq in H.
  destruct H as [[[[[[H|H]|H]|H]|H]|H]|H]; subst ty; reflexivity.
Qed.

Lemma c28_batch : forall mainnet s found fin last tok,
  validate_kernel_snapshot mainnet s found fin last tok = Ok tt ->
  (1 < length (ks_txs s))%nat ->
  forall h t, In (h, t) found -> is_batchable (k_type t) = true.
Proof.
  intros mainnet s found fin last tok Hv Hlen h t Hin.
  unfold validate_kernel_snapshot in Hv.
  destruct (1 <? Z.of_nat (length (ks_txs s))) eqn:E; [|apply Z.ltb_ge in E; lia].
  destruct (forallb (fun e => is_batchable (k_type (snd e))) found) eqn:F; [|discriminate].
  rewrite forallb_forall in F. apply (F (h, t) Hin).
Qed.

Lemma refs_linked : forall s tx last,
  validate_consensus_refs s tx last = Ok tt ->
  is_consensus_class (k_type tx) = true ->
  exists ltx, cs_txs last = [ltx] /\
    (ltx = k_hash tx \/ (hd_error (k_refs tx) = Some ltx /\ cs_ts last < ks_ts s)).
Proof.
  intros s tx last Hv Hc. unfold validate_consensus_refs in Hv.
  destruct (1 <? Z.of_nat (length (ks_txs s))); [discriminate|].
  rewrite Hc in Hv. cbn [negb] in Hv.
  destruct (k_refs tx) as [|r0 rs] eqn:Er; [discriminate|].
  destruct (1 <? Z.of_nat (length (cs_txs last))) eqn:El; [discriminate|].
  destruct (cs_txs last) as [|ltx rest] eqn:Et; [discriminate|].
  assert (rest = []) as ->.
  { apply Z.ltb_ge in El. destruct rest; [reflexivity|]. cbn [length] in El. lia. }
  exists ltx. split; [reflexivity|].
  destruct (ltx =? k_hash tx)%N eqn:Eh; [left; apply N.eqb_eq; exact Eh|].
  destruct (r0 =? ltx)%N eqn:Er0; cbn [negb] in Hv; [|discriminate].
  destruct (ks_ts s <=? cs_ts last) eqn:Ets; [discriminate|].
  right. apply N.eqb_eq in Er0. subst r0. split; [reflexivity|]. apply Z.leb_gt in Ets. exact Ets.
Qed.

Lemma c28_alone_linked : forall mainnet s found fin last tok h tx,
  validate_kernel_snapshot mainnet s found fin last tok = Ok tt ->
  (fin && mainnet && (ks_ts s <? Consts.KsConsensusReferenceForkAt)) = false ->
  In (h, tx) found -> is_consensus_class (k_type tx) = true ->
  (length (ks_txs s) <= 1)%nat /\
  (forall h0, ks_txs s = [h0] -> klookup h0 found = Some tx ->
     exists ltx, cs_txs last = [ltx] /\
       (ltx = k_hash tx \/ (hd_error (k_refs tx) = Some ltx /\ cs_ts last < ks_ts s))).
Proof.
  intros mainnet s found fin last tok h tx Hv Hex Hin Hc. split.
  - destruct (Nat.leb_spec (length (ks_txs s)) 1) as [L|L]; [exact L|].
    pose proof (c28_batch _ _ _ _ _ _ Hv L h tx Hin) as B.
    rewrite (consensus_not_batchable _ Hc) in B. discriminate.
  - intros h0 Htx Hk. unfold validate_kernel_snapshot in Hv.
    rewrite Htx in Hv. cbn [length Z.of_nat] in Hv.
    change (1 <? Z.of_nat 1) with false in Hv. cbv iota in Hv.
    rewrite Hex in Hv. rewrite Hk in Hv. cbv zeta in Hv.
    destruct (negb (ks_self s) && (ks_round s =? 0) && negb (k_type tx =? TNodeAccept)); [discriminate|].
    destruct (validate_consensus_refs s tx last) as [[]| |] eqn:R; cbn [bind] in Hv; try discriminate.
    exact (refs_linked _ _ _ R Hc).
Qed.

(* an accepted member list: the kernel rules held on a map that contains every
   member, whether its body was stored or cached *)
Lemma snapshot_tx_rules_final : forall mainnet s fin last tok ms found,
  snapshot_tx_rules mainnet s fin last tok found ms = Ok tt -> ms <> [] ->
  exists found',
    validate_kernel_snapshot mainnet s found' fin last tok = Ok tt /\
    (forall m, In m ms -> In (m_hash m, m_tx m) found') /\
    (forall e, In e found -> In e found') /\
    (forall m0 r, ms = m0 :: r -> r = [] -> found' = (m_hash m0, m_tx m0) :: found).
Proof.
  intros mainnet s fin last tok. induction ms as [|m r IH]; intros found H Hne; [contradiction|].
  cbn [snapshot_tx_rules] in H.
  destruct (negb (m_stored m) && negb (m_valid m)); [discriminate|].
  destruct (validate_kernel_snapshot mainnet s ((m_hash m, m_tx m) :: found) fin last tok) as [[]| |] eqn:V;
    cbn [bind] in H; try discriminate.
  destruct r as [|m2 r2].
  - exists ((m_hash m, m_tx m) :: found). split; [exact V|]. split; [|split].
    + intros x [<-|[]]. left. reflexivity.
    + intros e He. right. exact He.
    + intros m0 r0 E _. injection E as <- _. reflexivity.
  - destruct (IH _ H) as (f' & V' & A & B & _); [discriminate|].
    exists f'. split; [exact V'|]. split; [|split].
    + intros x [<-|Hx]; [apply B; left; reflexivity|apply A; exact Hx].
    + intros e He. apply B. right. exact He.
    + intros m0 r0 E Er. injection E as _ <-. discriminate Er.
Qed.

Lemma c28_members_batchable : forall mainnet s fin last tok ms,
  snapshot_tx_rules mainnet s fin last tok [] ms = Ok tt ->
  (1 < length (ks_txs s))%nat ->
  forall m, In m ms -> is_batchable (k_type (m_tx m)) = true.
Proof.
  intros mainnet s fin last tok ms H L m Hm.
  destruct (snapshot_tx_rules_final _ _ _ _ _ _ _ H) as (f' & V & A & _ & _).
  { intro E. subst ms. destruct Hm. }
  exact (c28_batch _ _ _ _ _ _ V L _ _ (A m Hm)).
Qed.

Lemma c28_member_alone_linked : forall mainnet s fin last tok m,
  snapshot_tx_rules mainnet s fin last tok [] [m] = Ok tt ->
  (fin && mainnet && (ks_ts s <? Consts.KsConsensusReferenceForkAt)) = false ->
  ks_txs s = [m_hash m] -> is_consensus_class (k_type (m_tx m)) = true ->
  exists ltx, cs_txs last = [ltx] /\
    (ltx = k_hash (m_tx m) \/ (hd_error (k_refs (m_tx m)) = Some ltx /\ cs_ts last < ks_ts s)).
Proof.
  intros mainnet s fin last tok m H Hex Htx Hc.
  destruct (snapshot_tx_rules_final _ _ _ _ _ _ _ H) as (f' & V & _ & _ & E); [discriminate|].
  rewrite (E m [] eq_refl eq_refl) in V.
  destruct (c28_alone_linked _ _ _ _ _ _ (m_hash m) (m_tx m) V Hex (or_introl eq_refl) Hc) as [_ L].
  apply (L (m_hash m) Htx). cbn. rewrite N.eqb_refl. reflexivity.
Qed.

(* ---- the recorded chain ---------------------------------------------------- *)

Lemma chain_split : forall h, chain h -> exists pre lst, h = pre ++ [lst].
Proof.
  intros h H. induction H as [r t Ht Hn | r1 r2 l Hl Hc IH].
  - exists [], r. reflexivity.
  - destruct IH as (pre & lst & E). exists (r1 :: pre), lst. rewrite E. reflexivity.
Qed.

Lemma chain_inv : forall a b l, chain (a :: b :: l) -> link a b /\ chain (b :: l).
Proof. intros a b l H. inversion H; subst. split; assumption. Qed.

Lemma chain_last : forall pre lst, chain (pre ++ [lst]) ->
  cr_next lst = None /\ exists t, cr_txs lst = [t].
Proof.
  induction pre as [|a pre IH]; intros lst H.
  - cbn in H. inversion H; subst. split; [assumption|eauto].
  - destruct pre as [|b pre'].
    + cbn in H. apply chain_inv in H. destruct H as [_ H]. apply (IH lst H).
    + cbn [app] in H. apply chain_inv in H. destruct H as [_ H]. apply (IH lst H).
Qed.

Lemma chain_ts : forall pre lst, chain (pre ++ [lst]) ->
  Forall (fun r => cr_ts r < cr_ts lst) pre.
Proof.
  induction pre as [|a pre IH]; intros lst H; [constructor|].
  destruct pre as [|b pre'].
  - cbn in H. apply chain_inv in H. destruct H as [(t1 & t2 & _ & _ & _ & _ & Hlt) _].
    constructor; [exact Hlt|constructor].
  - cbn [app] in H. apply chain_inv in H. destruct H as [(t1 & t2 & _ & _ & _ & _ & Hlt) H].
    pose proof (IH lst H) as F. constructor; [|exact F]. inversion F; subst. lia.
Qed.

Lemma read_last_snoc : forall pre lst,
  Forall (fun r => cr_ts r < cr_ts lst) pre -> read_last (pre ++ [lst]) = Some lst.
Proof.
  induction pre as [|a pre IH]; intros lst F; [reflexivity|].
  inversion F; subst. cbn [app read_last]. rewrite (IH lst H2).
  unfold key_lt. destruct (cr_ts lst <? cr_ts a) eqn:E1; [apply Z.ltb_lt in E1; lia|].
  destruct (cr_ts lst =? cr_ts a) eqn:E2; [apply Z.eqb_eq in E2; lia|]. reflexivity.
Qed.

Lemma cset_append : forall r l, Forall (fun x => cr_ts x < cr_ts r) l -> cset r l = l ++ [r].
Proof.
  intros r l F. induction F as [|x l Hx F IH]; [reflexivity|].
  cbn [cset app]. unfold key_eq. destruct (cr_ts x =? cr_ts r) eqn:E; [apply Z.eqb_eq in E; lia|].
  cbn [andb]. rewrite IH. reflexivity.
Qed.

Lemma cset_replace_last : forall r pre lst,
  Forall (fun x => cr_ts x < cr_ts lst) pre -> cr_ts r = cr_ts lst -> cr_snap r = cr_snap lst ->
  cset r (pre ++ [lst]) = pre ++ [r].
Proof.
  intros r pre lst F Ets Esn. induction F as [|x l Hx F IH].
  - cbn. unfold key_eq. rewrite Ets, Esn, Z.eqb_refl, N.eqb_refl. reflexivity.
  - cbn [cset app]. unfold key_eq. destruct (cr_ts x =? cr_ts r) eqn:E; [apply Z.eqb_eq in E; lia|].
    cbn [andb]. rewrite IH. reflexivity.
Qed.

Lemma chain_snoc : forall pre lst lst' fresh t,
  chain (pre ++ [lst]) ->
  cr_ts lst' = cr_ts lst -> cr_txs lst' = cr_txs lst -> cr_ref lst' = cr_ref lst ->
  link lst' fresh -> cr_txs fresh = [t] -> cr_next fresh = None ->
  chain (pre ++ [lst'; fresh]).
Proof.
  induction pre as [|a pre IH]; intros lst lst' fresh t H Ets Etx Eref Hl Hft Hfn.
  - cbn. apply chain_cons; [exact Hl|]. eapply chain_one; eassumption.
  - destruct pre as [|b pre'].
    + cbn in H. apply chain_inv in H. destruct H as [Hl1 H].
      pose proof (IH lst lst' fresh t H Ets Etx Eref Hl Hft Hfn) as C.
      cbn in *. apply chain_cons; [|exact C].
      destruct Hl1 as (t1 & t2 & A & B & Cn & D & Elt).
      unfold link. exists t1, t2. rewrite Etx, Eref, Ets. repeat split; assumption.
    + cbn [app] in H. apply chain_inv in H. destruct H as [Hl1 H].
      pose proof (IH lst lst' fresh t H Ets Etx Eref Hl Hft Hfn) as C.
      cbn [app] in *. apply chain_cons; assumption.
Qed.

Lemma chainb_sound : forall l, chainb l = true -> chain l.
Proof.
  induction l as [|r tl IH]; intros H; [discriminate|].
  cbn [chainb] in H. destruct tl as [|r2 tl'].
  - destruct (cr_txs r) as [|t [|]] eqn:Et; try discriminate.
    destruct (cr_next r) eqn:En; [discriminate|]. eapply chain_one; eassumption.
  - apply andb_true_iff in H. destruct H as [L C]. apply chain_cons; [|apply IH; exact C].
    unfold linkb in L.
    destruct (cr_txs r) as [|t1 [|]] eqn:E1; try discriminate.
    destruct (cr_txs r2) as [|t2 [|]] eqn:E2; try discriminate.
    destruct (cr_next r) as [n|] eqn:E3; try discriminate.
    destruct (cr_ref r2) as [p|] eqn:E4; try discriminate.
    apply andb_true_iff in L. destruct L as [L Lt]. apply andb_true_iff in L. destruct L as [Ln Lp].
    apply N.eqb_eq in Ln. apply N.eqb_eq in Lp. apply Z.ltb_lt in Lt. subst n p.
    exists t1, t2. repeat split; assumption.
Qed.

Lemma step_chain : forall h o, chain h -> co_genesis o = false -> chain (apply_cop h o).
Proof.
  intros h o H Hg. unfold apply_cop, write_consensus_snapshot.
  destruct (co_txs o) as [|sole [|x xs]] eqn:Etx; try exact H.
  destruct (negb (sole =? co_tx o)%N) eqn:Es; [exact H|].
  destruct (negb (co_mint o) && negb match co_out0 o with Some t => consensus_out t | None => false end);
    [exact H|].
  rewrite Hg.
  destruct (chain_split _ H) as (pre & lst & ->).
  pose proof (chain_ts _ _ H) as F. pose proof (chain_last _ _ H) as (Hn & tl & Htl).
  rewrite (read_last_snoc _ _ F). rewrite Hn, Htl.
  destruct (tl =? co_tx o)%N eqn:Ei; [exact H|].
  destruct (co_refs o) as [|r0 rs] eqn:Er; [exact H|].
  destruct (negb (tl =? r0)%N) eqn:E0; [exact H|].
  destruct (co_ts o <=? cr_ts lst) eqn:Et; [exact H|].
  apply Z.leb_gt in Et. apply negb_false_iff in E0. apply N.eqb_eq in E0. subst r0.
  apply negb_false_iff in Es. apply N.eqb_eq in Es. subst sole.
  match goal with |- context [cset _ (cset ?l _)] =>
    rewrite (cset_replace_last l pre lst F eq_refl eq_refl) end.
  rewrite cset_append.
  2:{ apply Forall_app. split.
      - eapply Forall_impl; [|exact F]. cbn. intros; lia.
      - constructor; [cbn; lia|constructor]. }
  rewrite <- app_assoc. cbn [app].
  eapply (chain_snoc pre lst _ _ (co_tx o) H); try reflexivity.
  { cbn. symmetry. exact Htl. }
  unfold link. exists tl, (co_tx o). cbn. repeat split; try reflexivity. exact Et.
Qed.

Lemma c28_single_chain : forall ops h,
  chain h -> Forall (fun o => co_genesis o = false) ops -> chain (fold_left apply_cop ops h).
Proof.
  induction ops as [|o ops IH]; intros h H F; [exact H|].
  inversion F; subst. cbn [fold_left]. apply IH; [apply step_chain; assumption|assumption].
Qed.

(* a successful write that changes the store is linked and strictly later *)
Lemma c28_write_linked : forall h o h' pre lst,
  chain h -> h = pre ++ [lst] -> co_genesis o = false ->
  write_consensus_snapshot h o = Ok h' -> h' <> h ->
  exists tl, cr_txs lst = [tl] /\ hd_error (co_refs o) = Some tl /\ cr_ts lst < co_ts o /\ co_txs o = [co_tx o].
Proof.
  intros h o h' pre lst H -> Hg Hw Hne. unfold write_consensus_snapshot in Hw.
  destruct (co_txs o) as [|sole [|x xs]] eqn:Etx; try discriminate.
  destruct (negb (sole =? co_tx o)%N) eqn:Es; [discriminate|].
  destruct (negb (co_mint o) && negb match co_out0 o with Some t => consensus_out t | None => false end);
    [discriminate|].
  rewrite Hg in Hw.
  pose proof (chain_ts _ _ H) as F. pose proof (chain_last _ _ H) as (Hn & tl & Htl).
  rewrite (read_last_snoc _ _ F) in Hw. rewrite Hn, Htl in Hw.
  destruct (tl =? co_tx o)%N eqn:Ei; [injection Hw as <-; contradiction|].
  destruct (co_refs o) as [|r0 rs] eqn:Er; [discriminate|].
  destruct (negb (tl =? r0)%N) eqn:E0; [discriminate|].
  destruct (co_ts o <=? cr_ts lst) eqn:Et; [discriminate|].
  apply Z.leb_gt in Et. apply negb_false_iff in E0. apply N.eqb_eq in E0. subst r0.
  apply negb_false_iff in Es. apply N.eqb_eq in Es. subst sole.
  exists tl. repeat split; try reflexivity; assumption.
Qed.

(* ===================================================================== *)
(* C16: outside the finding regions finalization succeeds                 *)
(* ===================================================================== *)

Lemma i_add_ok : forall x y, 0 <= x -> 0 < y -> i_add x y = Ok (x + y).
Proof.
  intros x y Hx Hy. rewrite i_add_spec.
  destruct (x <? 0) eqn:A; [apply Z.ltb_lt in A; lia|].
  destruct (y <=? 0) eqn:B; [apply Z.leb_le in B; lia|]. reflexivity.
Qed.
Lemma i_sub_ok : forall x y, 0 < y -> y <= x -> i_sub x y = Ok (x - y).
Proof.
  intros x y Hy Hx. rewrite i_sub_spec.
  destruct (x <? 0) eqn:A; [apply Z.ltb_lt in A; lia|].
  destruct (y <=? 0) eqn:B; [apply Z.leb_le in B; lia|].
  destruct (x <? y) eqn:C; [apply Z.ltb_lt in C; lia|]. reflexivity.
Qed.

(* what one member adds to / takes from the recorded total of asset [a] *)
Fixpoint submit_sum (outs : list lout) : Z :=
  match outs with
  | [] => 0
  | o :: r => (if o_type o =? OWithdrawalSubmit then o_amt o else 0) + submit_sum r
  end.
Definition adds (t : ltx) (a : N) : Z :=
  if (l_asset t =? a)%N then
    match l_in t with LDeposit _ _ d => d | LMint _ m => m | LUtxos _ => 0 end
  else 0.
Definition subs (t : ltx) (a : N) : Z :=
  if (l_asset t =? a)%N then
    match l_in t with
    | LUtxos _ => if l_type t =? TWithdrawalSubmit then submit_sum (l_outs t) else 0
    | _ => 0
    end
  else 0.
Definition sum_adds (ts : list ltx) (a : N) : Z := fold_right (fun t acc => adds t a + acc) 0 ts.
Definition sum_subs (ts : list ltx) (a : N) : Z := fold_right (fun t acc => subs t a + acc) 0 ts.

Definition deposit_info (t : ltx) : option N :=
  match l_in t with LDeposit _ i _ => Some i | _ => None end.

(* deposits of one asset id in the batch carry the same asset info (outside
   the second finding region) *)
Definition infos_agree (ts : list ltx) : Prop :=
  forall t1 t2 i1 i2, In t1 ts -> In t2 ts -> l_asset t1 = l_asset t2 ->
    deposit_info t1 = Some i1 -> deposit_info t2 = Some i2 -> i1 = i2.

(* the facts validation establishes about one member, in the state the
   snapshot is written on *)
Record ready (s : lstate) (t : ltx) : Prop := {
  rd_ghost : forall k, In k (all_keys (l_outs t)) -> alookup k (st_ghosts s) = Some (l_hash t);
  rd_outs : forall o, In o (l_outs t) ->
      0 < o_amt o /\ (o_type o = OScript \/ o_type o = OWithdrawalSubmit \/ o_type o = OWithdrawalClaim);
  rd_count : Z.of_nat (length (l_outs t)) <= Consts.KsSliceCountLimit;
  rd_claim : (exists o, In o (l_outs t) /\ o_type o = OWithdrawalClaim) ->
      exists r rs, l_refs t = r :: rs /\ amem r (st_bodies s) = true /\ amem r (st_finals s) = true;
  rd_info : match l_in t with
            | LDeposit _ i d => 0 < d /\ (alookup (l_asset t) (st_infos s) = None
                                          \/ alookup (l_asset t) (st_infos s) = Some i)
            | LMint _ m => 0 < m /\ alookup (l_asset t) (st_infos s) <> None
            | LUtxos _ => alookup (l_asset t) (st_infos s) <> None
            end
}.

Lemma submit_sum_nonneg : forall outs, (forall o, In o outs -> 0 < o_amt o) -> 0 <= submit_sum outs.
Proof.
  induction outs as [|o r IH]; intros H; cbn [submit_sum]; [lia|].
  pose proof (H o (or_introl eq_refl)). pose proof (IH (fun x Hx => H x (or_intror Hx))).
  destruct (o_type o =? OWithdrawalSubmit); lia.
Qed.

Lemma adds_subs_nonneg : forall s t a, ready s t -> 0 <= adds t a /\ 0 <= subs t a.
Proof.
  intros s t a R. unfold adds, subs. pose proof (rd_info _ _ R) as I.
  assert (0 <= submit_sum (l_outs t)) by (apply submit_sum_nonneg; intros o Ho; apply (rd_outs _ _ R o Ho)).
  destruct (l_asset t =? a)%N; destruct (l_in t); try lia.
  all: destruct (l_type t =? TWithdrawalSubmit); lia.
Qed.

Lemma type_of_outputs_range : forall outs b,
  type_of_outputs outs b <> TDeposit /\ type_of_outputs outs b <> TMint.
Proof.
  induction outs as [|o r IH]; intros b; cbn [type_of_outputs].
  - destruct b; split; intro E; vm_compute in E; discriminate E.
  - repeat match goal with
           | |- context [if ?c then _ else _] =>
               destruct c; [split; intro E; vm_compute in E; discriminate E|]
           end.
    apply IH.
Qed.

Lemma l_type_cases : forall t,
  match l_in t with
  | LDeposit _ _ _ => l_type t = TDeposit
  | LMint _ _ => l_type t = TMint
  | LUtxos _ => l_type t <> TDeposit /\ l_type t <> TMint
  end.
Proof.
  intros t. unfold l_type, l_kinds, tx_type. destruct (l_in t) as [k i d|b m|ins]; try reflexivity.
  assert (type_of_inputs (map (fun _ => IKUtxo) ins) = None) as ->.
  { induction ins; [reflexivity|exact IHins]. }
  apply type_of_outputs_range.
Qed.

Lemma lock_ghosts_noop : forall keys s h,
  (forall k, In k keys -> alookup k (st_ghosts s) = Some h) -> lock_ghosts s h keys = Ok s.
Proof.
  induction keys as [|k r IH]; intros s h H; [reflexivity|].
  cbn [lock_ghosts]. rewrite (H k (or_introl eq_refl)). rewrite N.eqb_refl.
  apply IH. intros x Hx. apply H. right. exact Hx.
Qed.

(* everything but the UTXO table is unchanged *)
Definition same_but_utxos (s s' : lstate) : Prop :=
  st_totals s' = st_totals s /\ st_infos s' = st_infos s /\ st_ghosts s' = st_ghosts s /\
  st_bodies s' = st_bodies s /\ st_finals s' = st_finals s /\ st_uniq s' = st_uniq s.

Lemma write_utxos_ok : forall outs s t i,
  (forall k, In k (all_keys outs) -> alookup k (st_ghosts s) = Some (l_hash t)) ->
  (forall o, In o outs -> o_type o = OScript \/ o_type o = OWithdrawalSubmit \/ o_type o = OWithdrawalClaim) ->
  i + Z.of_nat (length outs) <= Consts.KsInputIndexLimit + 1 ->
  ((exists o, In o outs /\ o_type o = OWithdrawalClaim) ->
     exists r rs, l_refs t = r :: rs /\ amem r (st_bodies s) = true /\ amem r (st_finals s) = true) ->
  exists s', write_utxos s t i outs = Ok s' /\ same_but_utxos s s'.
Proof.
  induction outs as [|o r IH]; intros s t i Hg Ht Hi Hc.
  - exists s. split; [reflexivity|]. repeat split.
  - cbn [write_utxos]. cbn [length] in Hi.
    assert (Hrest : forall s1, same_but_utxos s s1 ->
              exists s', write_utxos s1 t (i + 1) r = Ok s' /\ same_but_utxos s s').
    { intros s1 (A1 & A2 & A3 & A4 & A5 & A6).
      destruct (IH s1 t (i + 1)) as (s' & W & (B1 & B2 & B3 & B4 & B5 & B6)).
      - intros k Hk. rewrite A3. apply Hg. cbn [all_keys]. apply in_or_app. right. exact Hk.
      - intros x Hx. apply Ht. right. exact Hx.
      - lia.
      - intros (x & Hx & Ex). destruct Hc as (rr & rs & E1 & E2 & E3); [exists x; split; [right; exact Hx|exact Ex]|].
        exists rr, rs. rewrite A4, A5. auto.
      - exists s'. split; [exact W|]. repeat split; congruence. }
    destruct (Ht o (or_introl eq_refl)) as [E|[E|E]]; unfold utxo_out; rewrite E.
    + change ((OScript =? OScript) || (OScript =? ONodePledge) || (OScript =? ONodeCancel)
              || (OScript =? ONodeAccept) || (OScript =? ONodeRemove) || (OScript =? OWithdrawalClaim)
              || (OScript =? OCustodianUpdate)) with true. cbv iota.
      unfold write_utxo. rewrite lock_ghosts_noop.
      2:{ intros k Hk. apply Hg. cbn [all_keys]. apply in_or_app. left. exact Hk. }
      cbn [bind]. destruct (Consts.KsInputIndexLimit <? i) eqn:L; [apply Z.ltb_lt in L; lia|].
      rewrite E. change (OScript =? OWithdrawalClaim) with false.
      change ((OScript =? ONodePledge) || (OScript =? ONodeCancel) || (OScript =? ONodeAccept)
              || (OScript =? ONodeRemove) || (OScript =? OCustodianUpdate)) with false. cbv iota.
      cbn [bind]. apply Hrest. repeat split.
    + change ((OWithdrawalSubmit =? OScript) || (OWithdrawalSubmit =? ONodePledge) || (OWithdrawalSubmit =? ONodeCancel)
              || (OWithdrawalSubmit =? ONodeAccept) || (OWithdrawalSubmit =? ONodeRemove)
              || (OWithdrawalSubmit =? OWithdrawalClaim) || (OWithdrawalSubmit =? OCustodianUpdate)) with false.
      cbv iota.
      change ((OWithdrawalSubmit =? OWithdrawalSubmit) || (OWithdrawalSubmit =? OCustodianSlash)) with true.
      cbv iota. apply Hrest. repeat split.
    + change ((OWithdrawalClaim =? OScript) || (OWithdrawalClaim =? ONodePledge) || (OWithdrawalClaim =? ONodeCancel)
              || (OWithdrawalClaim =? ONodeAccept) || (OWithdrawalClaim =? ONodeRemove)
              || (OWithdrawalClaim =? OWithdrawalClaim) || (OWithdrawalClaim =? OCustodianUpdate)) with true.
      cbv iota.
      unfold write_utxo. rewrite lock_ghosts_noop.
      2:{ intros k Hk. apply Hg. cbn [all_keys]. apply in_or_app. left. exact Hk. }
      cbn [bind]. destruct (Consts.KsInputIndexLimit <? i) eqn:L; [apply Z.ltb_lt in L; lia|].
      rewrite E. change (OWithdrawalClaim =? OWithdrawalClaim) with true. cbv iota.
      destruct Hc as (rr & rs & E1 & E2 & E3); [exists o; split; [left; reflexivity|exact E]|].
      rewrite E1. unfold uset. cbn [st_bodies st_finals set_utxos]. rewrite E2, E3. cbn [andb bind].
      apply Hrest. repeat split.
Qed.

Lemma sub_submits_ok : forall outs total,
  (forall o, In o outs -> 0 < o_amt o) -> submit_sum outs <= total ->
  sub_submits total outs = Ok (total - submit_sum outs).
Proof.
  induction outs as [|o r IH]; intros total Hp Hs; cbn [sub_submits submit_sum] in *.
  - f_equal. lia.
  - pose proof (Hp o (or_introl eq_refl)) as Po.
    assert (0 <= submit_sum r) by (apply submit_sum_nonneg; intros x Hx; apply Hp; right; exact Hx).
    destruct (o_type o =? OWithdrawalSubmit).
    + rewrite i_sub_ok by lia. cbn [bind]. rewrite IH; [f_equal; lia| |lia].
      intros x Hx. apply Hp. right. exact Hx.
    + rewrite IH; [f_equal; lia| |lia]. intros x Hx. apply Hp. right. exact Hx.
Qed.

Lemma alookup_aset_eq : forall {V} k (v : V) l, alookup k (aset k v l) = Some v.
Proof. intros. unfold aset. cbn. rewrite N.eqb_refl. reflexivity. Qed.
Lemma alookup_aset_neq : forall {V} k k' (v : V) l, k <> k' -> alookup k (aset k' v l) = alookup k l.
Proof. intros V k k' v l H. unfold aset. cbn. destruct (k =? k')%N eqn:E; [apply N.eqb_eq in E; contradiction|reflexivity]. Qed.
Lemma amem_aset_mono : forall {V} r k (v : V) l, amem r l = true -> amem r (aset k v l) = true.
Proof.
  intros V r k v l H. unfold amem in *. unfold aset. cbn. destruct (r =? k)%N; [reflexivity|exact H].
Qed.

(* writeTotalInAsset succeeds and moves the total by adds - subs *)
Lemma write_total_ok : forall s t,
  alookup (l_asset t) (st_infos s) <> None ->
  (forall o, In o (l_outs t) -> 0 < o_amt o) ->
  match l_in t with LDeposit _ _ d => 0 < d | LMint _ m => 0 < m | LUtxos _ => True end ->
  0 <= total_of s (l_asset t) ->
  total_of s (l_asset t) + adds t (l_asset t) <= capacity (l_asset t) ->
  subs t (l_asset t) <= total_of s (l_asset t) ->
  exists s', write_total s t = Ok s' /\
    st_infos s' = st_infos s /\ st_ghosts s' = st_ghosts s /\ st_bodies s' = st_bodies s /\
    st_finals s' = st_finals s /\ st_uniq s' = st_uniq s /\
    forall a, total_of s' a = total_of s a + adds t a - subs t a.
Proof.
  intros s t Hi Hp Hpos H0 Hcap Hsub. unfold write_total.
  destruct (alookup (l_asset t) (st_infos s)) as [inf|] eqn:Ei; [|contradiction].
  pose proof (l_type_cases t) as TC. unfold adds, subs in Hcap, Hsub. rewrite N.eqb_refl in Hcap, Hsub.
  assert (Hfin : forall total', total' <= capacity (l_asset t) ->
     (forall a, (if (l_asset t =? a)%N then total' else total_of s a)
                = total_of s a + adds t a - subs t a) ->
     exists s', (if capacity (l_asset t) <? total' then Panic
                 else Ok (set_totals s (aset (l_asset t) total' (st_totals s)))) = Ok s' /\
       st_infos s' = st_infos s /\ st_ghosts s' = st_ghosts s /\ st_bodies s' = st_bodies s /\
       st_finals s' = st_finals s /\ st_uniq s' = st_uniq s /\
       forall a, total_of s' a = total_of s a + adds t a - subs t a).
  { intros total' Hc Ha. destruct (capacity (l_asset t) <? total') eqn:C; [apply Z.ltb_lt in C; lia|].
    eexists. split; [reflexivity|]. repeat split. intros a. rewrite <- Ha.
    unfold total_of at 1. cbn [st_totals set_totals]. unfold aset. cbn [alookup].
    rewrite N.eqb_sym. destruct (l_asset t =? a)%N; reflexivity. }
  destruct (l_in t) as [k i d|b m|ins] eqn:Ein.
  - rewrite TC. change (TDeposit =? TWithdrawalSubmit) with false. change (TDeposit =? TDeposit) with true. cbv iota.
    rewrite i_add_ok by lia. cbv beta iota zeta. cbn [bind]. apply Hfin; [lia|].
    intros a. unfold adds, subs. rewrite Ein. destruct (l_asset t =? a)%N eqn:E; [apply N.eqb_eq in E; subst a|]; lia.
  - rewrite TC. change (TMint =? TWithdrawalSubmit) with false. change (TMint =? TDeposit) with false.
    change (TMint =? TMint) with true. cbv iota.
    rewrite i_add_ok by lia. cbv beta iota zeta. cbn [bind]. apply Hfin; [lia|].
    intros a. unfold adds, subs. rewrite Ein. destruct (l_asset t =? a)%N eqn:E; [apply N.eqb_eq in E; subst a|]; lia.
  - destruct TC as [T1 T2].
    assert (Hss : 0 <= submit_sum (l_outs t)) by (apply submit_sum_nonneg; exact Hp).
    destruct (l_type t =? TWithdrawalSubmit) eqn:Ew.
    + rewrite sub_submits_ok by (try exact Hp; lia). cbv beta iota zeta. cbn [bind]. apply Hfin; [lia|].
      intros a. unfold adds, subs. rewrite Ein, Ew. destruct (l_asset t =? a)%N eqn:E; [apply N.eqb_eq in E; subst a|]; lia.
    + destruct (l_type t =? TDeposit) eqn:Ed; [apply Z.eqb_eq in Ed; contradiction|].
      destruct (l_type t =? TMint) eqn:Em; [apply Z.eqb_eq in Em; contradiction|].
      exists s. split; [reflexivity|]. repeat split. intros a. unfold adds, subs. rewrite Ein, Ew.
      destruct (l_asset t =? a)%N; lia.
Qed.

Lemma finalize_ok : forall s snap t,
  ready s t ->
  0 <= total_of s (l_asset t) ->
  total_of s (l_asset t) + adds t (l_asset t) <= capacity (l_asset t) ->
  subs t (l_asset t) <= total_of s (l_asset t) ->
  exists s', finalize_tx s snap t = Ok s' /\
    st_ghosts s' = st_ghosts s /\ st_bodies s' = st_bodies s /\ st_uniq s' = st_uniq s /\
    (forall r, amem r (st_finals s) = true -> amem r (st_finals s') = true) /\
    (st_infos s' = st_infos s \/
       exists i, deposit_info t = Some i /\ st_infos s' = aset (l_asset t) i (st_infos s)) /\
    (forall a, total_of s' a = total_of s a \/ total_of s' a = total_of s a + adds t a - subs t a).
Proof.
  intros s snap t R H0 Hcap Hsub. unfold finalize_tx.
  destruct (amem (l_hash t) (st_finals s)) eqn:Ef.
  { exists s. repeat split; auto. }
  set (s1 := set_finals s (aset (l_hash t) snap (st_finals s))).
  assert (Hs2 : exists s2,
    match l_in t with
    | LDeposit _ info _ => write_asset_info s1 (l_asset t) info
    | _ => Ok s1
    end = Ok s2 /\
    st_totals s2 = st_totals s /\ st_ghosts s2 = st_ghosts s /\ st_bodies s2 = st_bodies s /\
    st_uniq s2 = st_uniq s /\ st_finals s2 = aset (l_hash t) snap (st_finals s) /\
    alookup (l_asset t) (st_infos s2) <> None /\
    (st_infos s2 = st_infos s \/
       exists i, deposit_info t = Some i /\ st_infos s2 = aset (l_asset t) i (st_infos s))).
  { pose proof (rd_info _ _ R) as I. unfold deposit_info.
    destruct (l_in t) as [k i d|b m|ins].
    - destruct I as [_ [I|I]]; unfold write_asset_info; cbn [st_infos s1 set_finals]; rewrite I.
      + eexists. split; [reflexivity|]. cbn. repeat split; try reflexivity.
        * rewrite N.eqb_refl. discriminate.
        * right. exists i. split; reflexivity.
      + rewrite N.eqb_refl. exists s1. cbn. repeat split; try reflexivity.
        * rewrite I. discriminate.
        * left. reflexivity.
    - exists s1. cbn. repeat split; try reflexivity; try (left; reflexivity); apply I.
    - exists s1. cbn. repeat split; try reflexivity; try (left; reflexivity); apply I. }
  destruct Hs2 as (s2 & E2 & T2 & G2 & B2 & U2 & F2 & I2 & J2). rewrite E2. cbn [bind].
  destruct (write_utxos_ok (l_outs t) s2 t 0) as (s3 & E3 & (T3 & I3 & G3 & B3 & F3 & U3)).
  { intros k Hk. rewrite G2. apply (rd_ghost _ _ R k Hk). }
  { intros o Ho. apply (rd_outs _ _ R o Ho). }
  { pose proof (rd_count _ _ R) as C. change Consts.KsSliceCountLimit with 256 in C.
    change Consts.KsInputIndexLimit with 1024. lia. }
  { intros Hc. destruct (rd_claim _ _ R Hc) as (r & rs & A & B & C). exists r, rs.
    rewrite B2, F2. repeat split; [exact A|exact B|apply amem_aset_mono; exact C]. }
  rewrite E3. cbn [bind].
  assert (Tot : forall a, total_of s3 a = total_of s a).
  { intros a. unfold total_of. rewrite T3, T2. reflexivity. }
  destruct (write_total_ok s3 t) as (s4 & E4 & I4 & G4 & B4 & F4 & U4 & T4).
  { rewrite I3. exact I2. }
  { intros o Ho. apply (rd_outs _ _ R o Ho). }
  { pose proof (rd_info _ _ R) as I. destruct (l_in t); try exact Logic.I; apply I. }
  { rewrite Tot. exact H0. }
  { rewrite Tot. exact Hcap. }
  { rewrite Tot. exact Hsub. }
  exists s4. split; [exact E4|]. repeat split.
  - congruence.
  - congruence.
  - congruence.
  - intros r Hr. rewrite F4, F3, F2. apply amem_aset_mono. exact Hr.
  - rewrite I4, I3. exact J2.
  - intros a. right. rewrite T4, Tot. reflexivity.
Qed.

Lemma sum_adds_cons : forall t r a, sum_adds (t :: r) a = adds t a + sum_adds r a.
Proof. reflexivity. Qed.
Lemma sum_subs_cons : forall t r a, sum_subs (t :: r) a = subs t a + sum_subs r a.
Proof. reflexivity. Qed.

Lemma sum_nonneg : forall s ts a, (forall t, In t ts -> ready s t) ->
  0 <= sum_adds ts a /\ 0 <= sum_subs ts a.
Proof.
  induction ts as [|t r IH]; intros a H; [cbn; lia|]. rewrite sum_adds_cons, sum_subs_cons.
  destruct (adds_subs_nonneg s t a (H t (or_introl eq_refl))).
  destruct (IH a (fun x Hx => H x (or_intror Hx))). lia.
Qed.

(* readiness of a later member survives the finalization of an earlier one *)
Lemma ready_preserved : forall s s' t0 t,
  ready s t ->
  st_ghosts s' = st_ghosts s -> st_bodies s' = st_bodies s ->
  (forall r, amem r (st_finals s) = true -> amem r (st_finals s') = true) ->
  (st_infos s' = st_infos s \/
     exists i, deposit_info t0 = Some i /\ st_infos s' = aset (l_asset t0) i (st_infos s)) ->
  (forall i0 i, l_asset t0 = l_asset t -> deposit_info t0 = Some i0 -> deposit_info t = Some i -> i0 = i) ->
  ready s' t.
Proof.
  intros s s' t0 t R G B F I A. constructor.
  - intros k Hk. rewrite G. apply (rd_ghost _ _ R k Hk).
  - apply (rd_outs _ _ R).
  - apply (rd_count _ _ R).
  - intros Hc. destruct (rd_claim _ _ R Hc) as (r & rs & X & Y & Z). exists r, rs.
    rewrite B. repeat split; [exact X|exact Y|apply F; exact Z].
  - pose proof (rd_info _ _ R) as RI. destruct I as [I|(i0 & D0 & I)]; rewrite I; [exact RI|].
    destruct (N.eq_dec (l_asset t) (l_asset t0)) as [E|E].
    + rewrite E, alookup_aset_eq. unfold deposit_info in A.
      destruct (l_in t) as [k i d|b m|ins].
      * destruct RI as [P _]. split; [exact P|]. right. f_equal. apply (A i0 i); [symmetry; exact E|exact D0|reflexivity].
      * destruct RI as [P _]. split; [exact P|discriminate].
      * discriminate.
    + rewrite (alookup_aset_neq _ _ _ _ E). exact RI.
Qed.

Lemma c16_members_ok : forall ts s snap,
  (forall t, In t ts -> alookup (l_hash t) (st_bodies s) = Some t) ->
  (forall t, In t ts -> ready s t) ->
  infos_agree ts ->
  (forall a, 0 <= total_of s a) ->
  (forall a, total_of s a + sum_adds ts a <= capacity a) ->
  (forall a, sum_subs ts a <= total_of s a) ->
  exists s', write_members s snap (map l_hash ts) = Ok s'.
Proof.
  induction ts as [|t r IH]; intros s snap Hb Hr Ha H0 Hc Hs.
  - exists s. reflexivity.
  - cbn [map write_members]. rewrite (Hb t (or_introl eq_refl)).
    pose proof (Hr t (or_introl eq_refl)) as Rt.
    assert (Nn : forall a, 0 <= sum_adds r a /\ 0 <= sum_subs r a).
    { intros a. apply (sum_nonneg s). intros x Hx. apply Hr. right. exact Hx. }
    assert (Nt : forall a, 0 <= adds t a /\ 0 <= subs t a) by (intros a; apply (adds_subs_nonneg s); exact Rt).
    destruct (finalize_ok s snap t Rt) as (s1 & E1 & G1 & B1 & U1 & F1 & I1 & T1).
    { apply H0. }
    { specialize (Hc (l_asset t)). rewrite sum_adds_cons in Hc.
      destruct (Nn (l_asset t)). lia. }
    { specialize (Hs (l_asset t)). rewrite sum_subs_cons in Hs.
      destruct (Nn (l_asset t)). lia. }
    rewrite E1. cbn [bind].
    apply IH.
    + intros x Hx. cbn [st_bodies set_uniq]. rewrite B1. apply Hb. right. exact Hx.
    + intros x Hx. apply (ready_preserved s _ t x).
      * apply Hr. right. exact Hx.
      * cbn. exact G1.
      * cbn. exact B1.
      * cbn. exact F1.
      * cbn. exact I1.
      * intros i0 i Ea D0 D. apply (Ha t x i0 i); [left; reflexivity|right; exact Hx|exact Ea|exact D0|exact D].
    + intros t1 t2 i1 i2 H1 H2. apply Ha; right; assumption.
    + intros a. change (total_of (set_uniq s1 (l_hash t :: st_uniq s1)) a) with (total_of s1 a).
      specialize (Hs a). rewrite sum_subs_cons in Hs.
      destruct (Nn a), (Nt a), (T1 a) as [E|E]; rewrite E; specialize (H0 a); lia.
    + intros a. change (total_of (set_uniq s1 (l_hash t :: st_uniq s1)) a) with (total_of s1 a).
      specialize (Hc a). rewrite sum_adds_cons in Hc.
      destruct (Nn a), (Nt a), (T1 a) as [E|E]; rewrite E; lia.
    + intros a. change (total_of (set_uniq s1 (l_hash t :: st_uniq s1)) a) with (total_of s1 a).
      specialize (Hs a). rewrite sum_subs_cons in Hs.
      destruct (Nn a), (Nt a), (T1 a) as [E|E]; rewrite E; lia.
Qed.

(* the statement for WriteSnapshot: members stored, not yet recorded for this node *)
Lemma c16_outside : forall ts s sn,
  ls_txs sn = map l_hash ts ->
  (forall t, In t ts -> alookup (l_hash t) (st_bodies s) = Some t) ->
  (forall t, In t ts -> nmem (l_hash t) (st_uniq s) = false) ->
  (forall t, In t ts -> ready s t) ->
  infos_agree ts ->
  (forall a, 0 <= total_of s a) ->
  (forall a, total_of s a + sum_adds ts a <= capacity a) ->
  (forall a, sum_subs ts a <= total_of s a) ->
  exists s', write_snapshot s sn = Ok s'.
Proof.
  intros ts s sn Etx Hb Hu Hr Ha H0 Hc Hs. unfold write_snapshot. rewrite Etx.
  assert (existsb (fun h => negb (amem h (st_bodies s))) (map l_hash ts) = false) as ->.
  { apply not_true_is_false. intro E. apply existsb_exists in E. destruct E as (h & Hin & Hn).
    apply in_map_iff in Hin. destruct Hin as (t & <- & Ht). unfold amem in Hn. rewrite (Hb t Ht) in Hn. discriminate. }
  assert (existsb (fun h => nmem h (st_uniq s)) (map l_hash ts) = false) as ->.
  { apply not_true_is_false. intro E. apply existsb_exists in E. destruct E as (h & Hin & Hn).
    apply in_map_iff in Hin. destruct Hin as (t & <- & Ht). rewrite (Hu t Ht) in Hn. discriminate. }
  apply c16_members_ok; assumption.
Qed.
