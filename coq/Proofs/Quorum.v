(* Lemmas about Model/Quorum.v. *)
From Coq Require Import List ZArith NArith Bool Lia ZifyN ZifyNat ZifyBool Permutation.
Require Import Mixin.Base.Res Mixin.Gen.Consts Mixin.Model.Election Mixin.Model.Quorum Mixin.Proofs.Election.
Import ListNotations.
Open Scope Z_scope.

(* ---- signer sets ---------------------------------------------------------- *)

Definition mem (x : N) (l : list N) : bool := existsb (N.eqb x) l.
(* the signers two certificates have in common *)
Definition inter (s1 s2 : list N) : list N := filter (fun x => mem x s2) s1.

Lemma mem_in : forall x l, mem x l = true <-> In x l.
Proof.
  intros x l. unfold mem. rewrite existsb_exists. split.
  - intros [y [Hy E]]. apply N.eqb_eq in E. subst. exact Hy.
  - intro H. exists x. split; [exact H|apply N.eqb_refl].
Qed.

Lemma inter_spec : forall x s1 s2, In x (inter s1 s2) <-> In x s1 /\ In x s2.
Proof. intros. unfold inter. rewrite filter_In, mem_in. tauto. Qed.

Lemma incl_dec : forall s ks, forallb (fun x => mem x ks) s = true -> incl s ks.
Proof.
  intros s ks H x Hx. rewrite forallb_forall in H. apply mem_in. apply H. exact Hx.
Qed.

Lemma filter_split_length : forall (p : N -> bool) l,
  (length l = length (filter p l) + length (filter (fun x => negb (p x)) l))%nat.
Proof.
  intros p l. induction l as [|x l IH]; [reflexivity|].
  cbn [filter]. destruct (p x); cbn [negb length]; lia.
Qed.

Lemma nodup_app : forall (l1 l2 : list N),
  NoDup l1 -> NoDup l2 -> (forall x, In x l1 -> ~ In x l2) -> NoDup (l1 ++ l2).
Proof.
  intros l1 l2 H1 H2 Hd. induction H1 as [|x l1 Hx H1 IH]; [exact H2|].
  cbn [app]. constructor.
  - intro Hin. apply in_app_or in Hin. destruct Hin as [Hin|Hin]; [exact (Hx Hin)|].
    apply (Hd x); [left; reflexivity|exact Hin].
  - apply IH. intros y Hy. apply Hd. right; exact Hy.
Qed.

(* two duplicate-free subsets of ks overlap in at least |S1|+|S2|-|ks| elements *)
Lemma inter_lower_bound : forall ks s1 s2,
  NoDup s1 -> NoDup s2 -> incl s1 ks -> incl s2 ks ->
  (length s1 + length s2 <= length ks + length (inter s1 s2))%nat.
Proof.
  intros ks s1 s2 N1 N2 I1 I2.
  set (rest := filter (fun x => negb (mem x s2)) s1).
  assert (Hsplit : (length s1 = length (inter s1 s2) + length rest)%nat)
    by (apply filter_split_length).
  assert (Hnd : NoDup (rest ++ s2)).
  { apply nodup_app; [apply NoDup_filter; exact N1|exact N2|].
    intros x Hx Hx2. unfold rest in Hx. apply filter_In in Hx. destruct Hx as [_ Hx].
    apply mem_in in Hx2. rewrite Hx2 in Hx. discriminate. }
  assert (Hincl : incl (rest ++ s2) ks).
  { intros x Hx. apply in_app_or in Hx. destruct Hx as [Hx|Hx].
    - apply I1. unfold rest in Hx. apply filter_In in Hx. tauto.
    - apply I2. exact Hx. }
  pose proof (NoDup_incl_length Hnd Hincl) as Hlen.
  rewrite app_length in Hlen. lia.
Qed.

(* the counting argument: n keys, n <= base + extra, threshold floor(2 base/3)+1 *)
Lemma intersection_arith : forall n base t l1 l2 li : Z,
  0 <= n -> n <= base -> t = base * 2 / 3 + 1 -> t <= l1 -> t <= l2 ->
  l1 + l2 <= n + li -> n < 3 * li.
Proof. intros. lia. Qed.

Lemma intersection_arith_round0 : forall n base t l1 l2 li : Z,
  0 <= n -> n <= base + 1 -> (2 * base) mod 3 = 0 -> t = base * 2 / 3 + 1 -> t <= l1 -> t <= l2 ->
  l1 + l2 <= n + li -> n < 3 * li.
Proof. intros. lia. Qed.

Lemma quorum_intersection : forall (ks s1 s2 : list N) base t,
  Z.of_nat (length ks) <= base -> t = base * 2 / 3 + 1 ->
  NoDup s1 -> NoDup s2 -> incl s1 ks -> incl s2 ks ->
  t <= Z.of_nat (length s1) -> t <= Z.of_nat (length s2) ->
  (length ks < 3 * length (inter s1 s2))%nat.
Proof.
  intros ks s1 s2 base t Hn Ht N1 N2 I1 I2 L1 L2.
  pose proof (inter_lower_bound ks s1 s2 N1 N2 I1 I2) as Hb.
  assert (Z.of_nat (length ks) < 3 * Z.of_nat (length (inter s1 s2))).
  { eapply intersection_arith with (base := base) (t := t)
      (l1 := Z.of_nat (length s1)) (l2 := Z.of_nat (length s2)); try eassumption; lia. }
  lia.
Qed.

Lemma quorum_intersection_round0 : forall (ks s1 s2 : list N) base t,
  Z.of_nat (length ks) <= base + 1 -> (2 * base) mod 3 = 0 -> t = base * 2 / 3 + 1 ->
  NoDup s1 -> NoDup s2 -> incl s1 ks -> incl s2 ks ->
  t <= Z.of_nat (length s1) -> t <= Z.of_nat (length s2) ->
  (length ks < 3 * length (inter s1 s2))%nat.
Proof.
  intros ks s1 s2 base t Hn Hm Ht N1 N2 I1 I2 L1 L2.
  pose proof (inter_lower_bound ks s1 s2 N1 N2 I1 I2) as Hb.
  assert (Z.of_nat (length ks) < 3 * Z.of_nat (length (inter s1 s2))).
  { eapply intersection_arith_round0 with (base := base) (t := t)
      (l1 := Z.of_nat (length s1)) (l2 := Z.of_nat (length s2)); try eassumption; lia. }
  lia.
Qed.

(* ---- constants the argument depends on (re-proved on every run from the
        regenerated Consts; these are also the conditions under which the
        "should never be here" panics of ConsensusThreshold are unreachable) *)

Lemma consts_sane :
  0 <= reference_window /\ reference_window <= Consts.QAcceptPeriodMinimum /\
  reference_window <= 3 * Consts.QMinute /\ Consts.QHour <= Consts.QAcceptPeriodMinimum /\
  0 <= Consts.QMinNodes <= 64 /\ 64 < invalid_threshold.
Proof. vm_compute. repeat split; discriminate. Qed.

(* ---- keys are counted nodes ------------------------------------------- *)

Definition ts_in_range (all : list nrec) : Prop :=
  Forall (fun r => 0 <= r_ts r /\ r_ts r + Consts.QAcceptPeriodMinimum < two64) all.

Lemma ts_in_range_dec : forall all,
  forallb (fun r => (0 <=? r_ts r) && (r_ts r + Consts.QAcceptPeriodMinimum <? two64)) all = true ->
  ts_in_range all.
Proof.
  intros all H. unfold ts_in_range. apply Forall_forall. intros r Hr.
  rewrite forallb_forall in H. specialize (H r Hr). lia.
Qed.

Lemma ready_counted : forall cfg cn ts,
  0 <= r_ts cn -> r_ts cn + Consts.QAcceptPeriodMinimum < two64 ->
  consensus_ready cfg cn ts = true -> counted cfg true cn ts = true.
Proof.
  intros cfg cn ts H0 H1 Hr. unfold consensus_ready in Hr. unfold counted.
  apply andb_true_iff in Hr. destruct Hr as [Ha Hr]. unfold is_accepted in Ha.
  destruct (r_state cn); try discriminate.
  apply orb_true_iff in Hr. apply orb_true_iff. destruct Hr as [Hg|Hr]; [left; exact Hg|right].
  pose proof consts_sane as [C0 [C1 _]].
  unfold u64 in *. rewrite Z.mod_small in Hr by lia. rewrite Z.mod_small by lia.
  apply Z.ltb_lt in Hr. apply Z.ltb_lt. lia.
Qed.

Lemma filter_length_impl : forall (f g : nrec -> bool) l,
  (forall x, In x l -> f x = true -> g x = true) ->
  (length (filter f l) <= length (filter g l))%nat.
Proof.
  intros f g l. induction l as [|x l IH]; intro H; [cbn; lia|].
  cbn [filter].
  assert (IH' : (length (filter f l) <= length (filter g l))%nat)
    by (apply IH; intros y Hy; apply H; right; exact Hy).
  destruct (f x) eqn:Ef.
  - rewrite (H x (or_introl eq_refl) Ef). cbn [length]. lia.
  - destruct (g x); cbn [length]; lia.
Qed.

Lemma ready_le_base : forall cfg all ts,
  ts_in_range all ->
  Z.of_nat (length (ready_nodes cfg all ts)) <= consensus_base cfg all ts true.
Proof.
  intros cfg all ts Hr. unfold ready_nodes, consensus_base, ready_on, base_on.
  apply inj_le. apply filter_length_impl.
  intros x Hx Hf. apply andb_true_iff in Hf. destruct Hf as [Hn Hc].
  apply andb_true_iff. split; [exact Hn|].
  apply nodes_list_incl in Hx. unfold ts_in_range in Hr. rewrite Forall_forall in Hr.
  destruct (Hr x Hx) as [H0 H1]. apply ready_counted; assumption.
Qed.

Lemma base_nonneg : forall cfg all ts final, 0 <= consensus_base cfg all ts final.
Proof. intros. unfold consensus_base, base_on. lia. Qed.

Lemma keys_length : forall cfg all pledging round ts,
  length (consensus_keys cfg all pledging round ts) =
  (length (ready_nodes cfg all ts) +
   match pledging with Some _ => if (round =? 0)%Z then 1 else 0 | None => 0 end)%nat.
Proof.
  intros. unfold consensus_keys, consensus_nodes, with_pledging.
  rewrite map_length, app_length. destruct pledging; [destruct (round =? 0)|]; reflexivity.
Qed.

Definition round0_pledging (pledging : option nrec) (round : Z) : Prop :=
  pledging <> None /\ round = 0.

Lemma keys_le_base : forall cfg all pledging round ts,
  ts_in_range all -> ~ round0_pledging pledging round ->
  Z.of_nat (length (consensus_keys cfg all pledging round ts)) <= consensus_base cfg all ts true.
Proof.
  intros cfg all pledging round ts Hr Hn. rewrite keys_length.
  pose proof (ready_le_base cfg all ts Hr) as Hb.
  destruct pledging as [ci|]; [|lia].
  destruct (round =? 0) eqn:E; [|lia].
  exfalso. apply Hn. split; [discriminate|apply Z.eqb_eq; exact E].
Qed.

Lemma keys_le_base_plus_one : forall cfg all pledging round ts,
  ts_in_range all ->
  Z.of_nat (length (consensus_keys cfg all pledging round ts)) <= consensus_base cfg all ts true + 1.
Proof.
  intros cfg all pledging round ts Hr. rewrite keys_length.
  pose proof (ready_le_base cfg all ts Hr) as Hb.
  destruct pledging; [destruct (round =? 0)|]; lia.
Qed.

Lemma threshold_cases : forall cfg all ts final,
  (consensus_base cfg all ts final < Consts.QMinNodes /\
   consensus_threshold cfg all ts final = invalid_threshold) \/
  (Consts.QMinNodes <= consensus_base cfg all ts final /\
   consensus_threshold cfg all ts final = consensus_base cfg all ts final * 2 / 3 + 1).
Proof.
  intros. unfold consensus_threshold, threshold_of_base.
  destruct (consensus_base cfg all ts final <? Consts.QMinNodes) eqn:E.
  - left. apply Z.ltb_lt in E. split; [exact E|reflexivity].
  - right. apply Z.ltb_ge in E. split; [exact E|reflexivity].
Qed.

(* the general statement for one (key vector, threshold) pair computed at ts *)
Lemma intersection_at : forall cfg all pledging round ts,
  ts_in_range all -> ~ round0_pledging pledging round ->
  forall s1 s2, NoDup s1 -> NoDup s2 ->
    incl s1 (consensus_keys cfg all pledging round ts) ->
    incl s2 (consensus_keys cfg all pledging round ts) ->
    consensus_threshold cfg all ts true <= Z.of_nat (length s1) ->
    consensus_threshold cfg all ts true <= Z.of_nat (length s2) ->
    (length (consensus_keys cfg all pledging round ts) < 3 * length (inter s1 s2))%nat.
Proof.
  intros cfg all pledging round ts Hr Hn s1 s2 N1 N2 I1 I2 L1 L2.
  pose proof (keys_le_base cfg all pledging round ts Hr Hn) as Hk.
  destruct (threshold_cases cfg all ts true) as [[Hb Ht]|[Hb Ht]].
  - (* below the minimum no signer set reaches the threshold *)
    exfalso. pose proof (NoDup_incl_length N1 I1) as Hl.
    pose proof consts_sane as [_ [_ [_ [_ [C4 C5]]]]]. rewrite Ht in L1. lia.
  - eapply quorum_intersection; eassumption.
Qed.

Lemma intersection_verify_params : forall cfg all pledging round ts p,
  ts_in_range all -> ~ round0_pledging pledging round ->
  In p (verify_params cfg all pledging round ts) ->
  forall s1 s2, NoDup s1 -> NoDup s2 -> incl s1 (fst p) -> incl s2 (fst p) ->
    snd p <= Z.of_nat (length s1) -> snd p <= Z.of_nat (length s2) ->
    (length (fst p) < 3 * length (inter s1 s2))%nat.
Proof.
  intros cfg all pledging round ts p Hr Hn Hin.
  assert (Hp : exists t, p = (consensus_keys cfg all pledging round t, consensus_threshold cfg all t true)).
  { unfold verify_params in Hin. cbv zeta in Hin.
    destruct (use_predictive cfg ts).
    - destruct Hin as [<-|[]]. eexists; reflexivity.
    - destruct (_ || _).
      + destruct Hin as [<-|[]]. eexists; reflexivity.
      + destruct (_ <=? _)%nat.
        * destruct Hin as [<-|[]]. eexists; reflexivity.
        * destruct Hin as [<-|[<-|[]]]; eexists; reflexivity. }
  destruct Hp as [t ->]. cbn [fst snd]. apply intersection_at; assumption.
Qed.

(* ---- below the minimum -------------------------------------------------- *)

Lemma popcount_bound : forall n p, (Npos p < 2 ^ N.of_nat n)%N -> (pos_popcount p <= n)%nat.
Proof.
  induction n as [|n IH]; intros p H.
  - cbn in H. lia.
  - rewrite Nat2N.inj_succ, N.pow_succ_r' in H.
    destruct p as [q|q|]; cbn [pos_popcount].
    + assert (Npos q < 2 ^ N.of_nat n)%N by lia. specialize (IH q H0). lia.
    + assert (Npos q < 2 ^ N.of_nat n)%N by lia. specialize (IH q H0). lia.
    + lia.
Qed.

Lemma mask_popcount_64 : forall mask, (mask < 2 ^ 64)%N -> (popcount mask <= 64)%nat.
Proof.
  intros mask H. destruct mask as [|p]; [cbn; lia|].
  cbn [popcount]. apply (popcount_bound 64). exact H.
Qed.

Lemma below_minimum : forall cfg all ts final,
  consensus_base cfg all ts final < Consts.QMinNodes ->
  consensus_threshold cfg all ts final = invalid_threshold /\
  (forall mask, (mask < 2 ^ 64)%N -> mask_meets mask (consensus_threshold cfg all ts final) = false) /\
  (final = true -> ts_in_range all -> forall pledging round s, NoDup s ->
     incl s (consensus_keys cfg all pledging round ts) ->
     Z.of_nat (length s) < consensus_threshold cfg all ts final).
Proof.
  intros cfg all ts final Hb.
  destruct (threshold_cases cfg all ts final) as [[_ Ht]|[Hb' _]]; [|lia].
  pose proof consts_sane as [_ [_ [_ [_ [C4 C5]]]]].
  split; [exact Ht|]. split.
  - intros mask Hm. rewrite Ht. unfold mask_meets. apply Z.leb_gt.
    pose proof (mask_popcount_64 mask Hm). lia.
  - intros -> Hr pledging round s Hnd Hi. rewrite Ht.
    pose proof (NoDup_incl_length Hnd Hi) as Hl.
    pose proof (keys_le_base_plus_one cfg all pledging round ts Hr). lia.
Qed.

(* ---- round 0 of a pledging chain ------------------------------------- *)

Lemma round0_outside : forall cfg all ci ts,
  ts_in_range all ->
  Consts.QMinNodes <= consensus_base cfg all ts true ->
  (2 * consensus_base cfg all ts true) mod 3 = 0 \/
  Z.of_nat (length (consensus_keys cfg all (Some ci) 0 ts)) <= consensus_base cfg all ts true ->
  forall s1 s2, NoDup s1 -> NoDup s2 ->
    incl s1 (consensus_keys cfg all (Some ci) 0 ts) ->
    incl s2 (consensus_keys cfg all (Some ci) 0 ts) ->
    consensus_threshold cfg all ts true <= Z.of_nat (length s1) ->
    consensus_threshold cfg all ts true <= Z.of_nat (length s2) ->
    (length (consensus_keys cfg all (Some ci) 0 ts) < 3 * length (inter s1 s2))%nat.
Proof.
  intros cfg all ci ts Hr Hb Hc s1 s2 N1 N2 I1 I2 L1 L2.
  destruct (threshold_cases cfg all ts true) as [[Hb' _]|[_ Ht]]; [lia|].
  destruct Hc as [Hm|Hk].
  - eapply quorum_intersection_round0; try eassumption.
    apply keys_le_base_plus_one; exact Hr.
  - eapply quorum_intersection; eassumption.
Qed.

(* the witness of the recorded finding: 7 genesis nodes and one pledging node *)
Definition f4_epoch : Z := 1551312000000000000.
Definition f4_pledger : nrec := mkrec 8 (f4_epoch + 100 * Consts.QOneDay) Pledging 8.
Definition f4_recs : list nrec :=
  map (fun i => mkrec i f4_epoch Accepted i) [1; 2; 3; 4; 5; 6; 7]%N ++ [f4_pledger].
Definition f4_cfg : netcfg := mkcfg f4_epoch false [1; 2; 3; 4; 5; 6; 7]%N.
Definition f4_ts : Z := f4_epoch + 100 * Consts.QOneDay + 13 * Consts.QHour.
Definition f4_s1 : list N := [1; 2; 3; 4; 5]%N.
Definition f4_s2 : list N := [4; 5; 6; 7; 8]%N.

Lemma round0_refuted :
  let all := load f4_recs in
  let ks := consensus_keys f4_cfg all (Some f4_pledger) 0 f4_ts in
  let t := consensus_threshold f4_cfg all f4_ts true in
  ts_in_range all /\ pledging_node all f4_ts = Some f4_pledger /\
  consensus_base f4_cfg all f4_ts true = 7 /\ length ks = 8%nat /\ t = 5 /\
  NoDup f4_s1 /\ NoDup f4_s2 /\ incl f4_s1 ks /\ incl f4_s2 ks /\
  t <= Z.of_nat (length f4_s1) /\ t <= Z.of_nat (length f4_s2) /\
  (3 * length (inter f4_s1 f4_s2) <= length ks)%nat.
Proof.
  cbv zeta.
  assert (Hks : consensus_keys f4_cfg (load f4_recs) (Some f4_pledger) 0 f4_ts = [1; 2; 3; 4; 5; 6; 7; 8]%N)
    by (vm_compute; reflexivity).
  rewrite Hks.
  split. { apply ts_in_range_dec. vm_compute. reflexivity. }
  split; [vm_compute; reflexivity|].
  split; [vm_compute; reflexivity|].
  split; [reflexivity|].
  split; [vm_compute; reflexivity|].
  assert (Ht : consensus_threshold f4_cfg (load f4_recs) f4_ts true = 5) by (vm_compute; reflexivity).
  rewrite Ht.
  split. { unfold f4_s1. repeat constructor; cbn; intuition discriminate. }
  split. { unfold f4_s2. repeat constructor; cbn; intuition discriminate. }
  split. { apply incl_dec. vm_compute. reflexivity. }
  split. { apply incl_dec. vm_compute. reflexivity. }
  split; [cbn; lia|]. split; [cbn; lia|].
  vm_compute. lia.
Qed.
