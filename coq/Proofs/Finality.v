(* Lemmas about Model/Finality.v used by Props/C09.v. *)
From Coq Require Import List ZArith NArith Bool Lia ZifyN ZifyNat ZifyBool.
Require Import Mixin.Base.Res Mixin.Gen.Consts Mixin.Model.Membership Mixin.Model.Finality
               Mixin.Proofs.Membership.
Import ListNotations.
Open Scope N_scope.

(* ---- select ------------------------------------------------------------------------ *)
Lemma select_map : forall {A B} (f : A -> B) l idx sel,
  select l idx = Some sel -> select (map f l) idx = Some (map f sel).
Proof.
  intros A B f l idx. induction idx as [|i r IH]; intros sel H; cbn [select] in *.
  - inversion H; reflexivity.
  - destruct (nth_error l i) as [x|] eqn:E; [|discriminate].
    destruct (select l r) as [xs|] eqn:E2; [|discriminate].
    inversion H; subst. rewrite (map_nth_error f _ _ E), (IH xs eq_refl). reflexivity.
Qed.

Lemma select_length : forall {A} (l : list A) idx sel,
  select l idx = Some sel -> length sel = length idx.
Proof.
  intros A l idx. induction idx as [|i r IH]; intros sel H; cbn [select] in *.
  - inversion H; reflexivity.
  - destruct (nth_error l i); [|discriminate]. destruct (select l r) as [xs|]; [|discriminate].
    inversion H; subst. cbn. f_equal. apply IH. reflexivity.
Qed.

Lemma select_bound : forall {A} (l : list A) idx sel,
  select l idx = Some sel -> Forall (fun i => (i < length l)%nat) idx.
Proof.
  intros A l idx. induction idx as [|i r IH]; intros sel H; cbn [select] in *; [constructor|].
  destruct (nth_error l i) as [x|] eqn:E; [|discriminate].
  destruct (select l r) as [xs|] eqn:E2; [|discriminate].
  constructor; [|apply (IH xs eq_refl)].
  apply nth_error_Some. rewrite E. discriminate.
Qed.

Lemma select_inj_idx : forall {A} (l : list A) idx1 idx2 sel, NoDup l ->
  select l idx1 = Some sel -> select l idx2 = Some sel -> idx1 = idx2.
Proof.
  intros A l idx1. induction idx1 as [|i r IH]; intros idx2 sel Hnd H1 H2.
  - cbn in H1. inversion H1; subst. destruct idx2 as [|j r2]; [reflexivity|].
    cbn [select] in H2. destruct (nth_error l j); [|discriminate]. destruct (select l r2); discriminate.
  - cbn [select] in H1. destruct (nth_error l i) as [x|] eqn:E; [|discriminate].
    destruct (select l r) as [xs|] eqn:E2; [|discriminate]. inversion H1; subst.
    destruct idx2 as [|j r2]; [cbn in H2; discriminate|].
    cbn [select] in H2. destruct (nth_error l j) as [y|] eqn:E3; [|discriminate].
    destruct (select l r2) as [ys|] eqn:E4; [|discriminate]. inversion H2; subst.
    f_equal.
    + pose proof (proj1 (NoDup_nth_error l) Hnd i j) as Hinj. apply Hinj.
      * apply nth_error_Some. rewrite E. discriminate.
      * rewrite E, E3. reflexivity.
    + apply (IH r2 xs Hnd eq_refl E4).
Qed.

(* ---- masks --------------------------------------------------------------------------- *)
Lemma filter_eq_pointwise : forall {A} (f g : A -> bool) l, NoDup l ->
  filter f l = filter g l -> forall x, In x l -> f x = g x.
Proof.
  intros A f g l. induction l as [|a l IH]; intros Hnd H x Hin; [contradiction|].
  inversion Hnd as [|? ? Hna Hnd']; subst. cbn [filter] in H.
  destruct (f a) eqn:Fa, (g a) eqn:Ga.
  - inversion H as [H']. destruct Hin as [->|Hin]; [congruence|apply (IH Hnd' H' x Hin)].
  - exfalso. apply Hna. assert (Hi : In a (filter g l)) by (rewrite <- H; left; reflexivity).
    apply filter_In in Hi. tauto.
  - exfalso. apply Hna. assert (Hi : In a (filter f l)) by (rewrite H; left; reflexivity).
    apply filter_In in Hi. tauto.
  - destruct Hin as [->|Hin]; [congruence|apply (IH Hnd' H x Hin)].
Qed.

(* never unfold mask_keys by conversion: comparing two stuck filters over the 64
   positions is exponential for the kernel; rewrite with this equation instead *)
Lemma mask_keys_eq : forall m, mask_keys m = filter (mask_bit m) bit_positions.
Proof. intros m. reflexivity. Qed.

Lemma bit_positions_nodup : NoDup bit_positions.
Proof. unfold bit_positions. apply seq_NoDup. Qed.

Lemma bit_positions_in : forall n, n < 64 -> In (N.to_nat n) bit_positions.
Proof. intros n H. unfold bit_positions. apply in_seq. lia. Qed.

Lemma testbit_high : forall m n, m < two64 -> 64 <= n -> N.testbit m n = false.
Proof.
  intros m n Hm Hn. destruct (N.eq_dec m 0) as [->|Hz]; [apply N.bits_0|].
  apply N.bits_above_log2. apply N.lt_le_trans with 64; [|exact Hn].
  apply N.log2_lt_pow2; [lia|exact Hm].
Qed.

Lemma mask_keys_inj : forall m1 m2, m1 < two64 -> m2 < two64 ->
  mask_keys m1 = mask_keys m2 -> m1 = m2.
Proof.
  intros m1 m2 H1 H2 H. rewrite !mask_keys_eq in H. apply N.bits_inj. intros n.
  destruct (N.lt_ge_cases n 64) as [Hlt|Hge].
  - pose proof (filter_eq_pointwise (mask_bit m1) (mask_bit m2) bit_positions bit_positions_nodup H
                  (N.to_nat n) (bit_positions_in n Hlt)) as Hp.
    unfold mask_bit in Hp. rewrite N2Nat.id in Hp. exact Hp.
  - rewrite (testbit_high m1 n H1 Hge), (testbit_high m2 n H2 Hge). reflexivity.
Qed.

Lemma mask_keys_zero : mask_keys 0 = [].
Proof. vm_compute. reflexivity. Qed.

(* ---- the memo key is injective --------------------------------------------------------- *)
Definition int_range (t : Z) : Prop := (- 2 ^ 63 <= t < 2 ^ 63)%Z.

Lemma key_eqb_eq : forall a b, key_eqb a b = true <-> a = b.
Proof.
  induction a as [|x a IH]; destruct b as [|y b]; cbn [key_eqb]; split; intros H; try discriminate; try reflexivity.
  - apply andb_prop in H. destruct H as [H1 H2]. apply N.eqb_eq in H1. apply IH in H2. subst. reflexivity.
  - inversion H; subst. rewrite N.eqb_refl. apply IH. reflexivity.
Qed.

Lemma thr_enc_inj : forall t1 t2, int_range t1 -> int_range t2 ->
  Z.to_N (t1 mod 2 ^ 64) = Z.to_N (t2 mod 2 ^ 64) -> t1 = t2.
Proof.
  intros t1 t2 H1 H2 H. unfold int_range in *.
  assert (Hm : (t1 mod 2 ^ 64 = t2 mod 2 ^ 64)%Z).
  { apply Z2N.inj; [apply Z.mod_pos_bound; lia|apply Z.mod_pos_bound; lia|exact H]. }
  clear H. Z.div_mod_to_equations. lia.
Qed.

Lemma app_two_inj : forall {A} (x y : list A) a b c d,
  x ++ [a; b] = y ++ [c; d] -> x = y /\ a = c /\ b = d.
Proof.
  intros A x y a b c d H.
  assert (H' : (x ++ [a]) ++ [b] = (y ++ [c]) ++ [d]) by (rewrite <- !app_assoc; exact H).
  apply app_inj_tail in H'. destruct H' as [H' Hb].
  apply app_inj_tail in H'. destruct H' as [Hx Ha]. auto.
Qed.

Lemma memo_key_inj : forall h1 s1 p1 t1 m1 h2 s2 p2 t2 m2,
  int_range t1 -> int_range t2 ->
  memo_key h1 s1 p1 t1 m1 = memo_key h2 s2 p2 t2 m2 ->
  h1 = h2 /\ s1 = s2 /\ p1 = p2 /\ t1 = t2 /\ m1 = m2.
Proof.
  intros h1 s1 p1 t1 m1 h2 s2 p2 t2 m2 R1 R2 H. unfold memo_key in H.
  injection H as Hh Hs Hrest.
  apply app_two_inj in Hrest. destruct Hrest as (Hp & Ht & Hm).
  repeat split; auto. apply thr_enc_inj; assumption.
Qed.

Section FinalityProofs.
  Variable agg_verify : list N -> N -> N -> bool.
  (* node ids are a function of the signer keys (the id is the hash of the
     address derived from the spend key, for the node's network) *)
  Variable id_of : N -> N.

  Lemma cosi_fresh_true : forall h sg m cids pubs thr signers,
    cosi_fresh agg_verify h sg m cids pubs thr = Ok (signers, true) ->
    (0 < thr)%Z /\ (thr <= Z.of_nat (length (mask_keys m)))%Z /\ mask_keys m <> [] /\
    exists sel, select pubs (mask_keys m) = Some sel /\ agg_verify sel h sg = true /\
                select cids (mask_keys m) = Some signers.
  Proof.
    intros h sg m cids pubs thr signers H. unfold cosi_fresh in H.
    destruct (full_verify agg_verify pubs thr h sg m) eqn:F; [|inversion H].
    destruct (select cids (mask_keys m)) as [sg'|] eqn:S; [|discriminate].
    inversion H; subst. unfold full_verify in F.
    destruct (thr <=? 0)%Z eqn:E1; [discriminate|].
    destruct (Z.of_nat (length (mask_keys m)) <? thr)%Z eqn:E2; [discriminate|].
    destruct (mask_keys m) as [|k ks] eqn:Ek; [discriminate|].
    destruct (select pubs (k :: ks)) as [sel|] eqn:Es; [|discriminate].
    repeat split; try lia; try discriminate. exists sel. auto.
  Qed.

  Lemma cosi_fresh_false_nil : forall h sg m cids pubs thr signers,
    cosi_fresh agg_verify h sg m cids pubs thr = Ok (signers, false) -> signers = [].
  Proof.
    intros h sg m cids pubs thr signers H. unfold cosi_fresh in H.
    destruct (full_verify agg_verify pubs thr h sg m).
    - destruct (select cids (mask_keys m)); inversion H.
    - inversion H; reflexivity.
  Qed.

  (* every remembered entry equals the memoryless verification of every query
     that maps to its key *)
  Definition tbl_ok (t : memo) : Prop :=
    forall hash sig publics thr mask v, int_range thr ->
      memo_get (memo_key hash sig publics thr mask) t = Some v ->
      cosi_fresh agg_verify hash sig mask (map id_of publics) publics thr = Ok (decode_memo v mask).

  Lemma tbl_ok_nil : tbl_ok [].
  Proof. intros h s p thr m v _ H. cbn in H. discriminate. Qed.

  Lemma cache_verify_correct : forall hash sig mask publics thr t,
    tbl_ok t -> int_range thr ->
    match cache_verify_cosi agg_verify hash sig mask (map id_of publics) publics thr t with
    | Ok (r, t') => cosi_fresh agg_verify hash sig mask (map id_of publics) publics thr = Ok r /\ tbl_ok t'
    | Err => False
    | Panic => cosi_fresh agg_verify hash sig mask (map id_of publics) publics thr = Panic
    end.
  Proof.
    intros hash sig mask publics thr t Ht Hr. unfold cache_verify_cosi.
    destruct (memo_get (memo_key hash sig publics thr mask) t) as [v|] eqn:G.
    - split; [apply (Ht _ _ _ _ _ _ Hr G)|exact Ht].
    - destruct (full_verify agg_verify publics thr hash sig mask) eqn:F.
      + destruct (select (map id_of publics) (mask_keys mask)) as [signers|] eqn:S.
        * assert (Hfresh : cosi_fresh agg_verify hash sig mask (map id_of publics) publics thr = Ok (signers, true)).
          { unfold cosi_fresh. rewrite F, S. reflexivity. }
          split; [exact Hfresh|].
          intros h' s' p' thr' m' v Hr' G'. cbn [memo_get] in G'.
          destruct (key_eqb (memo_key hash sig publics thr mask) (memo_key h' s' p' thr' m')) eqn:K.
          -- apply key_eqb_eq in K. apply memo_key_inj in K; [|assumption|assumption].
             destruct K as (-> & -> & -> & -> & ->). inversion G'; subst. rewrite Hfresh.
             cbn [decode_memo]. rewrite (select_length _ _ _ S), Nat.eqb_refl.
             destruct (cosi_fresh_true _ _ _ _ _ _ _ Hfresh) as (_ & _ & Hne & _).
             destruct (mask_keys m') eqn:Em; [contradiction|]. reflexivity.
          -- apply (Ht _ _ _ _ _ _ Hr' G').
        * unfold cosi_fresh. rewrite F, S. reflexivity.
      + assert (Hfresh : cosi_fresh agg_verify hash sig mask (map id_of publics) publics thr = Ok ([], false)).
        { unfold cosi_fresh. rewrite F. reflexivity. }
        split; [exact Hfresh|].
        intros h' s' p' thr' m' v Hr' G'. cbn [memo_get] in G'.
        destruct (key_eqb (memo_key hash sig publics thr mask) (memo_key h' s' p' thr' m')) eqn:K.
        * apply key_eqb_eq in K. apply memo_key_inj in K; [|assumption|assumption].
          destruct K as (-> & -> & -> & -> & ->). inversion G'; subst. rewrite Hfresh. reflexivity.
        * apply (Ht _ _ _ _ _ _ Hr' G').
  Qed.

  (* ---- thresholds fit a Go int ------------------------------------------------------------ *)
  Lemma threshold_count_le : forall nd ts final rm l base b,
    threshold_count nd ts final rm l base = Some b -> b <= base + N.of_nat (length l).
  Proof.
    intros nd ts final rm l. induction l as [|c l IH]; intros base b H; cbn [threshold_count] in H.
    - inversion H; subst. cbn. lia.
    - destruct (is_removing rm c).
      + apply IH in H. cbn [length]. lia.
      + destruct (threshold_step nd ts final c) as [d|] eqn:E; [|discriminate].
        apply IH in H. assert (Hd : d <= 1).
        { unfold threshold_step in E. cbv zeta in E.
          destruct (3 * minute_ns <? ref_window); [discriminate|].
          destruct (c_state c); try (destruct (accept_period_min <? hour_ns); [discriminate|]);
            injection E as <-;
            try match goal with |- (if ?b then 1 else 0) <= 1 => destruct b end; lia. }
        cbn [length]. lia.
  Qed.

  Definition small_node (nd : mnode) : Prop :=
    forall ts, N.of_nat (length (nodes_list nd ts false)) < 2 ^ 62.

  Lemma threshold_in_range : forall nd ts base, small_node nd ->
    consensus_threshold nd ts true = Ok base -> int_range (Z.of_N base).
  Proof.
    intros nd ts base Hs H. unfold consensus_threshold in H.
    destruct (threshold_count nd ts true (predicted_removal nd ts) (nodes_list nd ts false) 0) as [b|] eqn:E; [|discriminate].
    apply threshold_count_le in E. pose proof (Hs ts) as Hl.
    assert (Hi : invalid_threshold = 1000) by (vm_compute; reflexivity).
    unfold int_range. destruct (b <? min_nodes); inversion H; subst.
    - rewrite Hi. lia.
    - assert (b * 2 / 3 + 1 <= 2 ^ 62) by (apply N.lt_succ_r; rewrite <- N.add_1_r;
        apply N.add_lt_mono_r; apply N.div_lt_upper_bound; lia). lia.
  Qed.

  (* ---- verifyFinalization with the memo equals the memoryless one -------------------------- *)
  Definition ids_from_keys (nd : mnode) (ch : mchain) : Prop :=
    forall round ts, consensus_ids nd ch round ts = map id_of (consensus_keys nd ch round ts).

  Lemma fresh_cv_eq : forall h sg m cids pubs thr,
    fresh_cv agg_verify h sg m cids pubs thr tt
    = rmap (fun r => (r, tt)) (cosi_fresh agg_verify h sg m cids pubs thr).
  Proof. reflexivity. Qed.

  Lemma verify_memo_fresh : forall nd ch s t,
    tbl_ok t -> small_node nd -> ids_from_keys nd ch ->
    match verify_finalization agg_verify nd ch s t with
    | Ok (r, t') => verify_fresh agg_verify nd ch s = Ok r /\ tbl_ok t'
    | Err => verify_fresh agg_verify nd ch s = Err
    | Panic => verify_fresh agg_verify nd ch s = Panic
    end.
  Proof.
    intros nd ch s t Ht Hsm Hids. unfold verify_finalization, verify_fresh, verify_gen.
    destruct (negb (s_version s =? snapshot_version)); [split; [reflexivity|exact Ht]|].
    destruct (negb (s_has_sig s) || (s_mask s =? 0)); [split; [reflexivity|exact Ht]|].
    destruct (effective_ts s <? n_epoch nd); [split; [reflexivity|exact Ht]|].
    destruct (consensus_threshold nd (effective_ts s) true) as [base| |] eqn:Eb; try reflexivity.
    pose proof (threshold_in_range _ _ _ Hsm Eb) as Hr.
    rewrite (Hids (s_round s) (effective_ts s)).
    pose proof (cache_verify_correct (s_hash s) (s_sig s) (s_mask s)
                  (consensus_keys nd ch (s_round s) (effective_ts s)) (Z.of_N base) t Ht Hr) as Hc.
    rewrite fresh_cv_eq.
    destruct (cache_verify_cosi agg_verify (s_hash s) (s_sig s) (s_mask s)
                (map id_of (consensus_keys nd ch (s_round s) (effective_ts s)))
                (consensus_keys nd ch (s_round s) (effective_ts s)) (Z.of_N base) t)
      as [[[signers fin] t1]| |] eqn:Ec; [|contradiction|rewrite Hc; reflexivity].
    destruct Hc as [Hf Ht1]. rewrite Hf. cbn [rmap].
    destruct (fin || use_predictive nd (effective_ts s)); [split; [reflexivity|exact Ht1]|].
    destruct (negb (accept_hour nd (effective_ts s))); [split; [reflexivity|exact Ht1]|].
    destruct (Nat.leb (length (consensus_keys nd ch (s_round s) (legacy_ts nd (effective_ts s))))
                      (length (consensus_keys nd ch (s_round s) (effective_ts s))));
      [split; [reflexivity|exact Ht1]|].
    destruct (consensus_threshold nd (legacy_ts nd (effective_ts s)) true) as [lbase| |] eqn:El; try reflexivity.
    pose proof (threshold_in_range _ _ _ Hsm El) as Hr2.
    rewrite (Hids (s_round s) (legacy_ts nd (effective_ts s))).
    pose proof (cache_verify_correct (s_hash s) (s_sig s) (s_mask s)
                  (consensus_keys nd ch (s_round s) (legacy_ts nd (effective_ts s))) (Z.of_N lbase) t1 Ht1 Hr2) as Hc2.
    rewrite fresh_cv_eq.
    destruct (cache_verify_cosi agg_verify (s_hash s) (s_sig s) (s_mask s)
                (map id_of (consensus_keys nd ch (s_round s) (legacy_ts nd (effective_ts s))))
                (consensus_keys nd ch (s_round s) (legacy_ts nd (effective_ts s))) (Z.of_N lbase) t1)
      as [[r2 t2]| |] eqn:Ec2; [|contradiction|rewrite Hc2; reflexivity].
    destruct Hc2 as [Hf2 Ht2]. rewrite Hf2. cbn [rmap fst]. split; [reflexivity|exact Ht2].
  Qed.

  Definition query_ok (q : mnode * mchain * msnap) : Prop :=
    small_node (fst (fst q)) /\ ids_from_keys (fst (fst q)) (snd (fst q)).

  Lemma run_memo_fresh : forall qs t, tbl_ok t -> Forall query_ok qs ->
    run_memo agg_verify qs t
    = map (fun q => verify_fresh agg_verify (fst (fst q)) (snd (fst q)) (snd q)) qs.
  Proof.
    induction qs as [|[[nd ch] s] qs IH]; intros t Ht Hq; cbn [run_memo map]; [reflexivity|].
    inversion Hq as [|? ? [Hsm Hids] Hq']; subst. cbn [fst snd] in *.
    pose proof (verify_memo_fresh nd ch s t Ht Hsm Hids) as H.
    destruct (verify_finalization agg_verify nd ch s t) as [[r t']| |].
    - destruct H as [H1 H2]. rewrite H1. f_equal. apply IH; assumption.
    - rewrite H. f_equal. apply IH; assumption.
    - rewrite H. f_equal. apply IH; assumption.
  Qed.

  (* ---- soundness --------------------------------------------------------------------------- *)
  Definition certificate_ok (nd : mnode) (ch : mchain) (s : msnap) (ts : N) (signers : list N) : Prop :=
    let keys := consensus_keys nd ch (s_round s) ts in
    let ids := consensus_ids nd ch (s_round s) ts in
    let positions := mask_keys (s_mask s) in
    exists thr sel,
      consensus_threshold nd ts true = Ok thr /\ 0 < thr /\
      thr <= N.of_nat (length positions) /\
      Forall (fun i => (i < length keys)%nat) positions /\
      select keys positions = Some sel /\
      agg_verify sel (s_hash s) (s_sig s) = true /\
      select ids positions = Some signers.

  Lemma cosi_fresh_certificate : forall nd ch s ts thr signers,
    consensus_threshold nd ts true = Ok thr ->
    cosi_fresh agg_verify (s_hash s) (s_sig s) (s_mask s) (consensus_ids nd ch (s_round s) ts)
               (consensus_keys nd ch (s_round s) ts) (Z.of_N thr) = Ok (signers, true) ->
    certificate_ok nd ch s ts signers.
  Proof.
    intros nd ch s ts thr signers Hthr H.
    apply cosi_fresh_true in H. destruct H as (H1 & H2 & H3 & sel & H4 & H5 & H6).
    exists thr, sel. repeat split; auto; try lia.
    apply (select_bound _ _ _ H4).
  Qed.

  Lemma verify_fresh_sound : forall nd ch s signers,
    verify_fresh agg_verify nd ch s = Ok (signers, true) ->
    s_version s = snapshot_version /\ s_has_sig s = true /\ s_mask s <> 0 /\
    n_epoch nd <= effective_ts s /\
    (certificate_ok nd ch s (effective_ts s) signers \/
     (use_predictive nd (effective_ts s) = false /\ accept_hour nd (effective_ts s) = true /\
      (length (consensus_keys nd ch (s_round s) (effective_ts s))
       < length (consensus_keys nd ch (s_round s) (legacy_ts nd (effective_ts s))))%nat /\
      certificate_ok nd ch s (legacy_ts nd (effective_ts s)) signers)).
  Proof.
    intros nd ch s signers H. unfold verify_fresh, verify_gen in H.
    destruct (s_version s =? snapshot_version) eqn:E1; cbn [negb] in H; [|inversion H].
    destruct (s_has_sig s) eqn:E2; cbn [negb orb] in H; [|inversion H].
    destruct (s_mask s =? 0) eqn:E3; [inversion H|].
    destruct (effective_ts s <? n_epoch nd) eqn:E4; [inversion H|].
    repeat (split; [lia|]).
    destruct (consensus_threshold nd (effective_ts s) true) as [base| |] eqn:Eb; try discriminate.
    rewrite fresh_cv_eq in H.
    destruct (cosi_fresh agg_verify (s_hash s) (s_sig s) (s_mask s)
                (consensus_ids nd ch (s_round s) (effective_ts s))
                (consensus_keys nd ch (s_round s) (effective_ts s)) (Z.of_N base))
      as [[sg fin]| |] eqn:Ec; cbn [rmap] in H; try discriminate.
    destruct fin.
    - cbn [orb] in H. inversion H; subst. left. eapply cosi_fresh_certificate; eassumption.
    - cbn [orb] in H. destruct (use_predictive nd (effective_ts s)) eqn:Ep; [inversion H|].
      destruct (accept_hour nd (effective_ts s)) eqn:Eh; cbn [negb] in H; [|inversion H].
      destruct (Nat.leb (length (consensus_keys nd ch (s_round s) (legacy_ts nd (effective_ts s))))
                        (length (consensus_keys nd ch (s_round s) (effective_ts s)))) eqn:El; [inversion H|].
      destruct (consensus_threshold nd (legacy_ts nd (effective_ts s)) true) as [lbase| |] eqn:Elb; try discriminate.
      rewrite fresh_cv_eq in H.
      destruct (cosi_fresh agg_verify (s_hash s) (s_sig s) (s_mask s)
                  (consensus_ids nd ch (s_round s) (legacy_ts nd (effective_ts s)))
                  (consensus_keys nd ch (s_round s) (legacy_ts nd (effective_ts s))) (Z.of_N lbase))
        as [[sg2 fin2]| |] eqn:Ec2; cbn [rmap fst] in H; try discriminate.
      inversion H; subst. right. repeat split; auto.
      + apply Nat.leb_gt in El. exact El.
      + eapply cosi_fresh_certificate; eassumption.
  Qed.

  (* ---- tampering ------------------------------------------------------------------------------ *)
  Lemma certificate_mask_unique : forall nd ch s s' ts signers signers' sel,
    NoDup (consensus_keys nd ch (s_round s) ts) -> s_round s' = s_round s ->
    s_mask s < two64 -> s_mask s' < two64 ->
    select (consensus_keys nd ch (s_round s) ts) (mask_keys (s_mask s)) = Some sel ->
    select (consensus_keys nd ch (s_round s) ts) (mask_keys (s_mask s')) = Some sel ->
    certificate_ok nd ch s ts signers -> certificate_ok nd ch s' ts signers' ->
    s_mask s' = s_mask s.
  Proof.
    intros nd ch s s' ts signers signers' sel Hnd Hr H1 H2 S1 S2 _ _.
    apply mask_keys_inj; [assumption|assumption|].
    apply (select_inj_idx _ _ _ sel Hnd S2 S1).
  Qed.
End FinalityProofs.

(* ---- the two side conditions of the memo theorem follow from the records ---------------- *)
Section RecordInvariants.
  Variable P : nrec -> Prop.

  Lemma Forall_sort_recs : forall l, Forall P l -> Forall P (sort_recs l).
  Proof.
    intros l H. unfold sort_recs.
    assert (G : forall l acc, Forall P l -> Forall P acc ->
                Forall P (fold_left (fun acc r => insert_rec r acc) l acc)).
    { induction l0 as [|r l0 IH]; intros acc Hl Ha; cbn [fold_left]; [exact Ha|].
      inversion Hl; subst. apply IH; [assumption|]. apply Forall_insert; assumption. }
    apply G; [exact H|constructor].
  Qed.

  Lemma Forall_take_before : forall th l, Forall P l -> Forall P (take_before th l).
  Proof.
    intros th l H. induction H as [|x l Hx Hl IH]; cbn [take_before]; [constructor|].
    destruct (th <=? r_ts x); [constructor|constructor; assumption].
  Qed.

  Lemma Forall_map_set : forall r m, P r -> Forall P m -> Forall P (map_set r m).
  Proof.
    intros r m Hr Hm. induction Hm as [|x m Hx Hm IH]; cbn [map_set]; [repeat constructor; exact Hr|].
    destruct (r_id x =? r_id r); constructor; assumption.
  Qed.

  Lemma Forall_latest : forall l, Forall P l -> Forall P (latest_by_id l).
  Proof.
    intros l H. unfold latest_by_id.
    assert (G : forall l acc, Forall P l -> Forall P acc ->
                Forall P (fold_left (fun m r => map_set r m) l acc)).
    { induction l0 as [|r l0 IH]; intros acc Hl Ha; cbn [fold_left]; [exact Ha|].
      inversion Hl; subst. apply IH; [assumption|]. apply Forall_map_set; assumption. }
    apply G; [exact H|constructor].
  Qed.

  Lemma map_c_rec_assign : forall l i, map c_rec (assign_index i l) = l.
  Proof. induction l as [|r l IH]; intros i; cbn [assign_index map c_rec]; [reflexivity|]. rewrite IH. reflexivity. Qed.

  Lemma Forall_nsws : forall th ao all, Forall P all ->
    Forall P (map c_rec (node_sequence_without_state th ao all)).
  Proof.
    intros th ao all H. unfold node_sequence_without_state. rewrite map_c_rec_assign.
    apply Forall_sort_recs. unfold accepted_filter.
    pose proof (Forall_latest _ (Forall_take_before th all H)) as Hl.
    destruct ao; [|exact Hl]. apply Forall_forall. intros x Hx. apply filter_In in Hx.
    destruct Hx as [Hx _]. exact (proj1 (Forall_forall _ _) Hl x Hx).
  Qed.

  Lemma Forall_lookup_seq : forall th (seqs : list (N * list cnode)),
    Forall (fun e => Forall P (map c_rec (snd e))) seqs -> Forall P (map c_rec (lookup_seq th seqs)).
  Proof.
    intros th seqs H. induction H as [|[ts l] seqs Hx Hs IH]; cbn [lookup_seq]; [constructor|].
    destruct (ts <? th); [exact Hx|exact IH].
  Qed.

  Lemma Forall_nodes_list : forall recs genesis epoch mainnet th ao, Forall P recs ->
    Forall P (map c_rec (nodes_list (load_node recs genesis epoch mainnet) th ao)).
  Proof.
    intros recs genesis epoch mainnet th ao H. unfold nodes_list, load_node. cbn [n_aseqs n_seqs].
    pose proof (Forall_sort_recs recs H) as Hs.
    assert (G : forall ao, Forall (fun e => Forall P (map c_rec (snd e)))
                                 (rev (build_sequences ao (sort_recs recs)))).
    { intros ao'. apply Forall_rev. unfold build_sequences. apply Forall_forall. intros e He.
      apply in_map_iff in He. destruct He as (n & <- & _). cbn [snd]. apply Forall_nsws. exact Hs. }
    destruct ao; apply Forall_lookup_seq; apply G.
  Qed.
End RecordInvariants.

Lemma ids_from_keys_of_records : forall (id_of : N -> N) recs genesis epoch mainnet ch,
  Forall (fun r => r_id r = id_of (r_key r)) recs ->
  (forall info, ch_info ch = Some info -> r_id info = id_of (r_key info)) ->
  ids_from_keys id_of (load_node recs genesis epoch mainnet) ch.
Proof.
  intros id_of recs genesis epoch mainnet ch Hr Hi round ts.
  unfold consensus_ids, consensus_keys. rewrite map_map.
  apply map_ext_in. intros r Hin. unfold consensus_nodes in Hin.
  set (nd := load_node recs genesis epoch mainnet) in *.
  assert (Hps : forall r, In r (map c_rec (filter (fun c => negb (is_removing (predicted_removal nd ts) c) && consensus_ready nd c ts)
                                                   (nodes_list nd ts false))) -> r_id r = id_of (r_key r)).
  { intros r0 H0. apply in_map_iff in H0. destruct H0 as (c & <- & Hc). apply filter_In in Hc. destruct Hc as [Hc _].
    pose proof (Forall_nodes_list _ recs genesis epoch mainnet ts false Hr) as HF.
    apply (proj1 (Forall_forall _ _) HF). apply in_map. exact Hc. }
  destruct (ch_info ch) as [info|] eqn:Ei; [|apply Hps; exact Hin].
  destruct (is_pledging_chain ch && (round =? 0)); [|apply Hps; exact Hin].
  apply in_app_or in Hin. destruct Hin as [Hin|[<-|[]]]; [apply Hps; exact Hin|apply Hi; reflexivity].
Qed.

(* lengths: every view is at most as long as the record list *)
Lemma length_insert_rec : forall r l, length (insert_rec r l) = S (length l).
Proof. intros r l. induction l as [|x l IH]; cbn [insert_rec]; [reflexivity|]. destruct (rec_lt r x); cbn [length]; [reflexivity|rewrite IH; reflexivity]. Qed.

Lemma length_sort_recs : forall l, length (sort_recs l) = length l.
Proof.
  intros l. unfold sort_recs.
  assert (G : forall l acc, length (fold_left (fun acc r => insert_rec r acc) l acc) = (length l + length acc)%nat).
  { induction l0 as [|r l0 IH]; intros acc; cbn [fold_left length]; [reflexivity|]. rewrite IH, length_insert_rec. lia. }
  rewrite G. cbn. lia.
Qed.

Lemma length_take_before : forall th l, (length (take_before th l) <= length l)%nat.
Proof. intros th l. induction l as [|x l IH]; cbn [take_before]; [lia|]. destruct (th <=? r_ts x); cbn [length]; lia. Qed.

Lemma length_map_set : forall r m, (length (map_set r m) <= S (length m))%nat.
Proof. intros r m. induction m as [|x m IH]; cbn [map_set]; [cbn; lia|]. destruct (r_id x =? r_id r); cbn [length]; lia. Qed.

Lemma length_latest : forall l, (length (latest_by_id l) <= length l)%nat.
Proof.
  intros l. unfold latest_by_id.
  assert (G : forall l acc, (length (fold_left (fun m r => map_set r m) l acc) <= length l + length acc)%nat).
  { induction l0 as [|r l0 IH]; intros acc; cbn [fold_left length]; [lia|].
    pose proof (IH (map_set r acc)). pose proof (length_map_set r acc). lia. }
  pose proof (G l []). cbn in *. lia.
Qed.

Lemma length_filter_le : forall {A} (f : A -> bool) l, (length (filter f l) <= length l)%nat.
Proof. intros A f l. induction l as [|x l IH]; cbn [filter length]; [lia|]. destruct (f x); cbn [length]; lia. Qed.

Lemma length_assign_index : forall l i, length (assign_index i l) = length l.
Proof. induction l as [|r l IH]; intros i; cbn [assign_index length]; [reflexivity|]. rewrite IH. reflexivity. Qed.

Lemma length_nsws : forall th ao all, (length (node_sequence_without_state th ao all) <= length all)%nat.
Proof.
  intros th ao all. unfold node_sequence_without_state. rewrite length_assign_index, length_sort_recs.
  pose proof (length_latest (take_before th all)). pose proof (length_take_before th all).
  unfold accepted_filter. destruct ao; [|lia].
  pose proof (length_filter_le (fun r => nstate_eqb (r_state r) Accepted) (latest_by_id (take_before th all))). lia.
Qed.

Lemma length_lookup_seq : forall th n (seqs : list (N * list cnode)),
  Forall (fun e => (length (snd e) <= n)%nat) seqs -> (length (lookup_seq th seqs) <= n)%nat.
Proof.
  intros th n seqs H. induction H as [|[ts l] seqs Hx Hs IH]; cbn [lookup_seq]; [cbn; lia|].
  destruct (ts <? th); [exact Hx|exact IH].
Qed.

Lemma small_node_of_records : forall recs genesis epoch mainnet,
  N.of_nat (length recs) < 2 ^ 62 -> small_node (load_node recs genesis epoch mainnet).
Proof.
  intros recs genesis epoch mainnet H ts. unfold nodes_list, load_node. cbn [n_seqs].
  assert (G : (length (lookup_seq ts (rev (build_sequences false (sort_recs recs)))) <= length recs)%nat).
  { apply length_lookup_seq. apply Forall_rev. unfold build_sequences. apply Forall_forall. intros e He.
    apply in_map_iff in He. destruct He as (n & <- & _). cbn [snd].
    pose proof (length_nsws (u64 (r_ts n + 1)) false (sort_recs recs)). rewrite length_sort_recs in *. lia. }
  lia.
Qed.
