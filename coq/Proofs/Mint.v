(* Lemmas about Model/Mint.v (C25). *)
From Coq Require Import List ZArith NArith Bool Lia ZifyBool.
Require Import Mixin.Base.Res Mixin.Gen.Consts Mixin.Model.Fixed Mixin.Model.Mint.
Import ListNotations.
Open Scope Z_scope.

(* ---- the Integer operations: characterisation of the Ok outcome ------------ *)

Lemma i_add_ok x y : 0 <= x -> 0 < y -> i_add x y = Ok (x + y).
Proof.
  intros Hx Hy. unfold i_add.
  destruct (x <? 0) eqn:E1; [lia|]. destruct (y <=? 0) eqn:E2; [lia|]. cbn [orb].
  destruct (x + y <? x) eqn:E3; [lia|]. destruct (x + y <? y) eqn:E4; [lia|]. reflexivity.
Qed.
Lemma i_add_inv x y v : i_add x y = Ok v -> 0 <= x /\ 0 < y /\ v = x + y.
Proof.
  unfold i_add. destruct (x <? 0) eqn:E1; cbn [orb]; [discriminate|].
  destruct (y <=? 0) eqn:E2; [discriminate|].
  destruct ((x + y <? x) || (x + y <? y)); [discriminate|]. intros H; inversion H. lia.
Qed.
Lemma i_add_not_err x y : i_add x y <> Err.
Proof. unfold i_add. destruct ((x <? 0) || (y <=? 0)); [discriminate|]. destruct ((x + y <? x) || (x + y <? y)); discriminate. Qed.

Lemma i_sub_ok x y : 0 < y -> y <= x -> i_sub x y = Ok (x - y).
Proof.
  intros Hy Hx. unfold i_sub.
  destruct (x <? 0) eqn:E1; [lia|]. destruct (y <=? 0) eqn:E2; [lia|]. cbn [orb].
  destruct (x <? y) eqn:E3; [lia|]. reflexivity.
Qed.
Lemma i_sub_inv x y v : i_sub x y = Ok v -> 0 < y /\ y <= x /\ v = x - y.
Proof.
  unfold i_sub. destruct (x <? 0) eqn:E1; cbn [orb]; [discriminate|].
  destruct (y <=? 0) eqn:E2; [discriminate|].
  destruct (x <? y) eqn:E3; [discriminate|]. intros H; inversion H. lia.
Qed.
Lemma i_sub_not_err x y : i_sub x y <> Err.
Proof. unfold i_sub. destruct ((x <? 0) || (y <=? 0)); [discriminate|]. destruct (x <? y); discriminate. Qed.

Lemma i_mul_ok x y : 0 <= x -> 0 < y -> i_mul x y = Ok (x * y).
Proof.
  intros Hx Hy. unfold i_mul.
  destruct (x <? 0) eqn:E1; [lia|]. destruct (y <=? 0) eqn:E2; [lia|]. reflexivity.
Qed.
Lemma i_mul_inv x y v : i_mul x y = Ok v -> 0 <= x /\ 0 < y /\ v = x * y.
Proof.
  unfold i_mul. destruct (x <? 0) eqn:E1; cbn [orb]; [discriminate|].
  destruct (y <=? 0) eqn:E2; [discriminate|]. intros H; inversion H. lia.
Qed.
Lemma i_mul_not_err x y : i_mul x y <> Err.
Proof. unfold i_mul. destruct ((x <? 0) || (y <=? 0)); discriminate. Qed.

Lemma i_div_ok x y : 0 <= x -> 0 < y -> i_div x y = Ok (x / y).
Proof.
  intros Hx Hy. unfold i_div.
  destruct (x <? 0) eqn:E1; [lia|]. destruct (y <=? 0) eqn:E2; [lia|]. reflexivity.
Qed.
Lemma i_div_inv x y v : i_div x y = Ok v -> 0 <= x /\ 0 < y /\ v = x / y.
Proof.
  unfold i_div. destruct (x <? 0) eqn:E1; cbn [orb]; [discriminate|].
  destruct (y <=? 0) eqn:E2; [discriminate|]. intros H; inversion H. lia.
Qed.
Lemma i_div_not_err x y : i_div x y <> Err.
Proof. unfold i_div. destruct ((x <? 0) || (y <=? 0)); discriminate. Qed.

Lemma product_ok rx ry x : 0 <= x -> ry <> 0 -> product (rx, ry) x = Ok (x * rx / ry).
Proof.
  intros Hx Hy. unfold product. cbn [fst snd].
  destruct (x <? 0) eqn:E1; [lia|]. destruct (ry =? 0) eqn:E2; [lia|]. reflexivity.
Qed.
Lemma product_inv rx ry x v : product (rx, ry) x = Ok v -> 0 <= x /\ ry <> 0 /\ v = x * rx / ry.
Proof.
  unfold product. cbn [fst snd]. destruct (x <? 0) eqn:E1; [discriminate|].
  destruct (ry =? 0) eqn:E2; [discriminate|]. intros H; inversion H.
  split; [lia|split; [lia|reflexivity]].
Qed.
Lemma product_not_err r x : product r x <> Err.
Proof. unfold product. destruct (x <? 0); [discriminate|]. destruct (snd r =? 0); discriminate. Qed.

Lemma ration_ok x y : 0 <= x -> 0 < y -> ration x y = Ok (x, y).
Proof.
  intros Hx Hy. unfold ration.
  destruct (x <? 0) eqn:E1; [lia|]. destruct (y <=? 0) eqn:E2; [lia|]. reflexivity.
Qed.
Lemma ration_inv x y r : ration x y = Ok r -> 0 <= x /\ 0 < y /\ r = (x, y).
Proof.
  unfold ration. destruct (x <? 0) eqn:E1; cbn [orb]; [discriminate|].
  destruct (y <=? 0) eqn:E2; [discriminate|]. intros H; inversion H.
  split; [lia|split; [lia|reflexivity]].
Qed.

Lemma bind_ok {A B} (r : res A) (f : A -> res B) b :
  bind r f = Ok b -> exists a, r = Ok a /\ f a = Ok b.
Proof. destruct r; cbn; [eauto|discriminate|discriminate]. Qed.

(* ---- constants ---------------------------------------------------------------- *)

Lemma year_days_pos : 0 < year_days. Proof. reflexivity. Qed.
Lemma percent_bounds : 0 <= fst year_percent <= snd year_percent /\ 0 < snd year_percent.
Proof. vm_compute. repeat split; discriminate. Qed.
Lemma mint_pool_nonneg : 0 <= mint_pool. Proof. discriminate. Qed.

(* the yearly amount taken from a pool *)
Definition year_of (p : Z) : Z := p * fst year_percent / snd year_percent.

Lemma year_of_bounds p : 0 <= p -> 0 <= year_of p <= p.
Proof.
  intros Hp. unfold year_of. destruct percent_bounds as [[Hn Hnd] Hd]. split.
  - apply Z.div_pos; [apply Z.mul_nonneg_nonneg; lia|lia].
  - apply Z.div_le_upper_bound; [lia|]. rewrite (Z.mul_comm (snd year_percent)).
    apply Z.mul_le_mono_nonneg_l; lia.
Qed.
Lemma year_of_mono p q : 0 <= p <= q -> year_of p <= year_of q.
Proof.
  intros H. unfold year_of. destruct percent_bounds as [[Hn Hnd] Hd].
  apply Z.div_le_mono; [lia|]. apply Z.mul_le_mono_nonneg_r; lia.
Qed.
Lemma product_year p : 0 <= p -> product year_percent p = Ok (year_of p).
Proof.
  intros Hp. destruct percent_bounds as [_ Hd]. unfold year_of.
  destruct year_percent as [n d] eqn:E. cbn [fst snd] in *. apply product_ok; lia.
Qed.

Lemma year_step_spec p : 0 <= p ->
  year_step p = if (year_of p <=? 0) then Panic else Ok (p - year_of p).
Proof.
  intros Hp. unfold year_step. rewrite (product_year p Hp). cbn [bind].
  pose proof (year_of_bounds p Hp) as Hb.
  destruct (year_of p <=? 0) eqn:E.
  - unfold i_sub. destruct (p <? 0) eqn:E1; [lia|]. rewrite E. reflexivity.
  - apply i_sub_ok; lia.
Qed.

(* ---- the pool sequence ---------------------------------------------------------- *)

Lemma pool_after_range y p : pool_after y = Ok p -> 0 <= p <= mint_pool.
Proof.
  revert p. induction y as [|y IH]; intros p H.
  - cbn in H. inversion H. pose proof mint_pool_nonneg. lia.
  - cbn [pool_after] in H. apply bind_ok in H. destruct H as [q [Hq Hs]].
    specialize (IH q Hq). rewrite (year_step_spec q) in Hs by lia.
    destruct (year_of q <=? 0) eqn:E; [discriminate|]. inversion Hs.
    pose proof (year_of_bounds q). lia.
Qed.

Lemma pool_after_not_err y : pool_after y <> Err.
Proof.
  induction y as [|y IH]; [discriminate|]. cbn [pool_after].
  destruct (pool_after y) as [q| |] eqn:E; cbn [bind]; [|congruence|discriminate].
  pose proof (pool_after_range y q E). rewrite year_step_spec by lia.
  destruct (year_of q <=? 0); discriminate.
Qed.

Lemma pool_after_S y p' : pool_after (S y) = Ok p' ->
  exists p, pool_after y = Ok p /\ 0 < year_of p /\ p' = p - year_of p /\ 0 <= p' <= p.
Proof.
  intros H. cbn [pool_after] in H. apply bind_ok in H. destruct H as [q [Hq Hs]].
  pose proof (pool_after_range y q Hq) as Hr. rewrite year_step_spec in Hs by lia.
  destruct (year_of q <=? 0) eqn:E; [discriminate|]. inversion Hs.
  pose proof (year_of_bounds q). exists q. repeat split; try lia; assumption.
Qed.

Lemma pool_after_le y1 y2 p2 : (y1 <= y2)%nat -> pool_after y2 = Ok p2 ->
  exists p1, pool_after y1 = Ok p1 /\ p2 <= p1.
Proof.
  intros Hle. revert p2. induction Hle as [|y2 Hle IH]; intros p2 H.
  - exists p2. split; [assumption|lia].
  - apply pool_after_S in H. destruct H as [p [Hp [_ [_ Hb]]]].
    destruct (IH p Hp) as [p1 [H1 Hle1]]. exists p1. split; [assumption|lia].
Qed.

Lemma pool_after_panic_mono y1 y2 : (y1 <= y2)%nat -> pool_after y1 = Panic -> pool_after y2 = Panic.
Proof.
  intros Hle H. induction Hle as [|y2 Hle IH]; [assumption|].
  cbn [pool_after]. rewrite IH. reflexivity.
Qed.

(* ---- the batch amount -------------------------------------------------------------- *)

Definition day_of (p : Z) : Z := year_of p / year_days.

Lemma day_of_bounds p : 0 <= p -> 0 <= day_of p /\ year_days * day_of p <= year_of p.
Proof.
  intros Hp. unfold day_of. pose proof year_days_pos. pose proof (year_of_bounds p Hp). split.
  - apply Z.div_pos; lia.
  - apply Z.mul_div_le. lia.
Qed.
Lemma day_of_mono p q : 0 <= p <= q -> day_of p <= day_of q.
Proof. intros H. unfold day_of. apply Z.div_le_mono; [apply year_days_pos|]. apply year_of_mono. lia. Qed.

Lemma batch_size_of_year_spec y : 0 <= y ->
  batch_size_of_year y =
  if 10000 <? y then Panic
  else match pool_after (Z.to_nat y) with Ok p => Ok (day_of p) | Err => Err | Panic => Panic end.
Proof.
  intros Hy. unfold batch_size_of_year. destruct (10000 <? y); [reflexivity|].
  destruct (pool_after (Z.to_nat y)) as [p| |] eqn:E; cbn [bind]; try reflexivity.
  pose proof (pool_after_range _ _ E). rewrite product_year by lia. cbn [bind].
  pose proof (year_of_bounds p). apply i_div_ok; [lia|apply year_days_pos].
Qed.

Lemma batch_size_of_year_inv y a : 0 <= y -> batch_size_of_year y = Ok a ->
  exists p, pool_after (Z.to_nat y) = Ok p /\ a = day_of p /\ 0 <= p.
Proof.
  intros Hy H. rewrite batch_size_of_year_spec in H by assumption.
  destruct (10000 <? y); [discriminate|].
  destruct (pool_after (Z.to_nat y)) as [p| |] eqn:E; try discriminate.
  inversion H. exists p. pose proof (pool_after_range _ _ E). repeat split; try reflexivity; lia.
Qed.

(* per-year amounts never increase *)
Lemma batch_size_of_year_mono y1 y2 a1 a2 : 0 <= y1 <= y2 ->
  batch_size_of_year y1 = Ok a1 -> batch_size_of_year y2 = Ok a2 -> a2 <= a1.
Proof.
  intros Hy H1 H2.
  apply batch_size_of_year_inv in H1; [|lia]. apply batch_size_of_year_inv in H2; [|lia].
  destruct H1 as [p1 [Hp1 [-> Hn1]]]. destruct H2 as [p2 [Hp2 [-> Hn2]]].
  destruct (pool_after_le (Z.to_nat y1) (Z.to_nat y2) p2) as [p1' [Hp1' Hle]]; [lia|assumption|].
  rewrite Hp1 in Hp1'. inversion Hp1'. subst p1'. apply day_of_mono. lia.
Qed.

Lemma mint_batch_size_nonincreasing b1 b2 a1 a2 : 0 <= b1 <= b2 ->
  mint_batch_size b1 = Ok a1 -> mint_batch_size b2 = Ok a2 -> 0 <= a2 <= a1.
Proof.
  intros Hb H1 H2. unfold mint_batch_size in *. pose proof year_days_pos.
  assert (0 <= b1 / year_days <= b2 / year_days).
  { split; [apply Z.div_pos; lia|apply Z.div_le_mono; lia]. }
  split; [|eapply batch_size_of_year_mono; eassumption].
  apply batch_size_of_year_inv in H2; [|lia]. destruct H2 as [p [_ [-> Hp]]].
  apply day_of_bounds. assumption.
Qed.

(* ---- the horizon: computed facts about the concrete schedule -------------------- *)

(* first year whose pool loop panics; last batch that does not panic *)
Definition panic_year : nat := 285.
Definition last_total_batch : Z := 104024.
(* first batch of this kernel, horizon of the property, positivity guard *)
Definition first_batch : Z := 1707.
Definition horizon : Z := 53654.
Definition guard_a0 : Z := 2800.

Lemma pool_last_year_ok : exists p, pool_after (Nat.pred panic_year) = Ok p.
Proof. vm_compute. eexists. reflexivity. Qed.
Lemma pool_panic_year : pool_after panic_year = Panic.
Proof. vm_compute. reflexivity. Qed.
Lemma last_total_batch_year : last_total_batch / year_days = Z.of_nat (Nat.pred panic_year)
  /\ (last_total_batch + 1) / year_days = Z.of_nat panic_year.
Proof. vm_compute. split; reflexivity. Qed.

Lemma mint_batch_size_total b : 0 <= b <= last_total_batch ->
  exists a, mint_batch_size b = Ok a /\ 0 <= a.
Proof.
  intros Hb. unfold mint_batch_size. pose proof year_days_pos as Hd.
  assert (Hy : 0 <= b / year_days <= Z.of_nat (Nat.pred panic_year)).
  { destruct last_total_batch_year as [<- _]. split; [apply Z.div_pos; lia|apply Z.div_le_mono; lia]. }
  rewrite batch_size_of_year_spec by lia.
  destruct (10000 <? b / year_days) eqn:E.
  { exfalso. apply Z.ltb_lt in E. unfold panic_year in Hy. cbn in Hy. lia. }
  destruct pool_last_year_ok as [pl Hpl].
  destruct (pool_after_le (Z.to_nat (b / year_days)) (Nat.pred panic_year) pl) as [p [Hp _]]; [lia|exact Hpl|].
  rewrite Hp. exists (day_of p). split; [reflexivity|].
  apply day_of_bounds. apply (pool_after_range _ _ Hp).
Qed.

Lemma mint_batch_size_panics b : last_total_batch < b -> mint_batch_size b = Panic.
Proof.
  intros Hb. unfold mint_batch_size. pose proof year_days_pos as Hd.
  assert (Hy : Z.of_nat panic_year <= b / year_days).
  { destruct last_total_batch_year as [_ <-]. apply Z.div_le_mono; lia. }
  rewrite batch_size_of_year_spec by lia.
  destruct (10000 <? b / year_days); [reflexivity|].
  rewrite (pool_after_panic_mono panic_year); [reflexivity|lia|exact pool_panic_year].
Qed.

(* sweep over every year of the horizon: the amount is at least the guard *)
Definition years_upto (n : nat) : list Z := map Z.of_nat (seq 0 n).
Definition horizon_years : nat := 147.

Lemma horizon_years_ok : horizon / year_days = Z.of_nat (Nat.pred horizon_years).
Proof. vm_compute. reflexivity. Qed.

Definition year_at_least (a0 : Z) (y : Z) : bool :=
  match batch_size_of_year y with Ok a => a0 <=? a | _ => false end.

Lemma horizon_sweep : forallb (year_at_least guard_a0) (years_upto horizon_years) = true.
Proof. vm_compute. reflexivity. Qed.

Lemma horizon_guard b : 0 <= b <= horizon ->
  exists a, mint_batch_size b = Ok a /\ guard_a0 <= a.
Proof.
  intros Hb. pose proof year_days_pos as Hd. unfold mint_batch_size.
  pose proof horizon_sweep as Hs. rewrite forallb_forall in Hs.
  assert (Hy : 0 <= b / year_days <= Z.of_nat (Nat.pred horizon_years)).
  { rewrite <- horizon_years_ok. split; [apply Z.div_pos; lia|apply Z.div_le_mono; lia]. }
  specialize (Hs (b / year_days)).
  assert (Hin : In (b / year_days) (years_upto horizon_years)).
  { unfold years_upto. apply in_map_iff. exists (Z.to_nat (b / year_days)). split; [lia|].
    apply in_seq. unfold horizon_years in *. cbn in Hy. lia. }
  specialize (Hs Hin). unfold year_at_least in Hs.
  destruct (batch_size_of_year (b / year_days)) as [a| |]; try discriminate.
  exists a. split; [reflexivity|]. apply Z.leb_le. exact Hs.
Qed.

(* the horizon is sharp: the next batch is below the guard *)
Lemma horizon_sharp : exists a, mint_batch_size (horizon + 1) = Ok a /\ a < guard_a0.
Proof. vm_compute. eexists. split; reflexivity. Qed.

(* from batch 81030 on the amount is zero (and mintMultiBatchesSize panics on it) *)
Definition first_zero_batch : Z := 81030.
Lemma zero_from b : first_zero_batch <= b <= last_total_batch -> mint_batch_size b = Ok 0.
Proof.
  intros Hb. destruct (mint_batch_size_total b) as [a [Ha Hn]]; [unfold first_zero_batch, last_total_batch in *; lia|].
  assert (H0 : mint_batch_size first_zero_batch = Ok 0) by (vm_compute; reflexivity).
  assert (Hm : 0 <= a <= 0).
  { apply (mint_batch_size_nonincreasing first_zero_batch b 0 a); [unfold first_zero_batch in *; lia|exact H0|exact Ha]. }
  rewrite Ha. f_equal. lia.
Qed.
Lemma positive_before b : 0 <= b < first_zero_batch -> exists a, mint_batch_size b = Ok a /\ 0 < a.
Proof.
  intros Hb. unfold first_zero_batch in Hb.
  destruct (mint_batch_size_total b) as [a [Ha Hn]]; [unfold first_zero_batch, last_total_batch in *; lia|].
  assert (H1 : mint_batch_size (first_zero_batch - 1) = Ok 1) by (vm_compute; reflexivity).
  assert (Hm : 0 <= 1 <= a).
  { apply (mint_batch_size_nonincreasing b (first_zero_batch - 1) a 1); [unfold first_zero_batch; lia|exact Ha|exact H1]. }
  exists a. split; [assumption|lia].
Qed.

(* ---- multi-batch mints and the cumulative total ------------------------------------ *)

(* the amount of a batch as a number: 0 where mintBatchSize panics *)
Definition size_z (b : Z) : Z := match mint_batch_size b with Ok a => a | _ => 0 end.

(* sum of the amounts of the [n] batches i, i+1, ... *)
Fixpoint sum_sizes (n : nat) (i : Z) : Z :=
  match n with O => 0 | S n' => size_z i + sum_sizes n' (i + 1) end.

Lemma size_z_nonneg b : 0 <= b -> 0 <= size_z b.
Proof.
  intros Hb. unfold size_z. destruct (mint_batch_size b) as [a| |] eqn:E; try lia.
  unfold mint_batch_size in E. pose proof year_days_pos.
  apply batch_size_of_year_inv in E; [|apply Z.div_pos; lia].
  destruct E as [p [_ [-> Hp]]]. apply day_of_bounds. assumption.
Qed.

Lemma multi_from_inv n : forall i acc s, multi_from n i acc = Ok s ->
  s = acc + sum_sizes n i /\
  (forall k, (k < n)%nat -> exists a, mint_batch_size (i + Z.of_nat k) = Ok a /\ 0 < a).
Proof.
  induction n as [|n IH]; intros i acc s H.
  - cbn in H. inversion H. cbn. split; [lia|]. intros k Hk. lia.
  - cbn [multi_from] in H. apply bind_ok in H. destruct H as [a [Ha H]].
    apply bind_ok in H. destruct H as [acc' [Hadd H]].
    apply i_add_inv in Hadd. destruct Hadd as [Hacc [Hpos ->]].
    destruct (IH _ _ _ H) as [-> Hall]. cbn [sum_sizes]. unfold size_z at 1. rewrite Ha.
    split; [lia|]. intros k Hk. destruct k as [|k].
    + exists a. rewrite Z.add_0_r. split; assumption.
    + destruct (Hall k) as [a' Ha']; [lia|]. exists a'.
      replace (i + Z.of_nat (S k)) with (i + 1 + Z.of_nat k) by lia. exact Ha'.
Qed.

Lemma multi_from_ok n : forall i acc, 0 <= acc ->
  (forall k, (k < n)%nat -> exists a, mint_batch_size (i + Z.of_nat k) = Ok a /\ 0 < a) ->
  multi_from n i acc = Ok (acc + sum_sizes n i).
Proof.
  induction n as [|n IH]; intros i acc Hacc Hall.
  - cbn. f_equal. lia.
  - cbn [multi_from sum_sizes]. destruct (Hall O) as [a [Ha Hpos]]; [lia|].
    rewrite Z.add_0_r in Ha. unfold size_z at 1. rewrite Ha. cbn [bind].
    rewrite i_add_ok by lia. cbn [bind]. rewrite IH.
    + f_equal. lia.
    + lia.
    + intros k Hk. destruct (Hall (S k)) as [a' Ha']; [lia|]. exists a'.
      replace (i + 1 + Z.of_nat k) with (i + Z.of_nat (S k)) by lia. exact Ha'.
Qed.

(* mintMultiBatchesSize = sum of its batches, defined exactly when every batch is positive *)
Lemma mint_multi_sum old batch s :
  mint_multi old batch = Ok s <->
  old < batch /\ s = sum_sizes (Z.to_nat (batch - old)) (old + 1) /\
  (forall i, old < i <= batch -> exists a, mint_batch_size i = Ok a /\ 0 < a).
Proof.
  unfold mint_multi. destruct (batch <=? old) eqn:E.
  - split; [discriminate|]. intros [H _]. lia.
  - split.
    + intros H. apply multi_from_inv in H. destruct H as [-> Hall]. split; [lia|]. split; [lia|].
      intros i Hi. destruct (Hall (Z.to_nat (i - old - 1))) as [a Ha]; [lia|].
      exists a. replace (old + 1 + Z.of_nat (Z.to_nat (i - old - 1))) with i in Ha by lia. exact Ha.
    + intros [_ [-> Hall]]. rewrite multi_from_ok; [f_equal; lia|lia|].
      intros k Hk. apply Hall. lia.
Qed.

Lemma mint_multi_backward old batch : batch <= old -> mint_multi old batch = Panic.
Proof. intros H. unfold mint_multi. destruct (batch <=? old) eqn:E; [reflexivity|lia]. Qed.

(* telescoping: what is left for batch b and all later batches *)
Definition pool_z (y : Z) : Z := match pool_after (Z.to_nat y) with Ok p => p | _ => 0 end.
Definition day_z (y : Z) : Z := match batch_size_of_year y with Ok a => a | _ => 0 end.
Definition rest (b : Z) : Z :=
  (year_days - b mod year_days) * day_z (b / year_days) + pool_z (b / year_days + 1).

Lemma size_z_day b : size_z b = day_z (b / year_days).
Proof. reflexivity. Qed.

Lemma year_ineq y : 0 <= y ->
  0 <= day_z y /\ 0 <= pool_z (y + 1) /\ year_days * day_z y <= pool_z y - pool_z (y + 1).
Proof.
  intros Hy. unfold day_z, pool_z. rewrite batch_size_of_year_spec by assumption.
  replace (Z.to_nat (y + 1)) with (S (Z.to_nat y)) by lia. cbn [pool_after].
  pose proof year_days_pos as Hd.
  destruct (pool_after (Z.to_nat y)) as [p| |] eqn:E; cbn [bind].
  - pose proof (pool_after_range _ _ E) as Hr. rewrite year_step_spec by lia.
    pose proof (year_of_bounds p) as Hyb. pose proof (day_of_bounds p) as Hdb.
    destruct (10000 <? y); destruct (year_of p <=? 0) eqn:E2; lia.
  - destruct (10000 <? y); lia.
  - destruct (10000 <? y); lia.
Qed.

Lemma pool_z_range y : 0 <= pool_z y <= mint_pool.
Proof.
  unfold pool_z. destruct (pool_after (Z.to_nat y)) as [p| |] eqn:E.
  - apply (pool_after_range _ _ E).
  - pose proof mint_pool_nonneg. lia.
  - pose proof mint_pool_nonneg. lia.
Qed.

Lemma rest_bounds b : 0 <= b -> 0 <= rest b <= pool_z (b / year_days).
Proof.
  intros Hb. unfold rest. pose proof year_days_pos as Hd.
  pose proof (Z.mod_pos_bound b year_days Hd) as Hm.
  assert (Hy : 0 <= b / year_days) by (apply Z.div_pos; lia).
  destruct (year_ineq _ Hy) as [H1 [H2 H3]]. split.
  - apply Z.add_nonneg_nonneg; [apply Z.mul_nonneg_nonneg; lia|assumption].
  - assert ((year_days - b mod year_days) * day_z (b / year_days) <= year_days * day_z (b / year_days)).
    { apply Z.mul_le_mono_nonneg_r; lia. }
    lia.
Qed.

Lemma rest_step b : 0 <= b -> size_z b + rest (b + 1) <= rest b.
Proof.
  intros Hb. rewrite size_z_day. unfold rest. pose proof year_days_pos as Hd.
  pose proof (Z.mod_pos_bound b year_days Hd) as Hm.
  pose proof (Z.div_mod b year_days ltac:(lia)) as Hdm.
  assert (Hy : 0 <= b / year_days) by (apply Z.div_pos; lia).
  destruct (Z.eq_dec (b mod year_days) (year_days - 1)) as [Hlast|Hmid].
  - (* last batch of its year *)
    assert (Hq : (b + 1) / year_days = b / year_days + 1).
    { symmetry. apply (Z.div_unique (b + 1) year_days (b / year_days + 1) 0); lia. }
    assert (Hr : (b + 1) mod year_days = 0).
    { symmetry. apply (Z.mod_unique (b + 1) year_days (b / year_days + 1) 0); lia. }
    rewrite Hq, Hr, Hlast.
    destruct (year_ineq (b / year_days + 1) ltac:(lia)) as [H1 [H2 H3]].
    replace (year_days - (year_days - 1)) with 1 by lia. rewrite Z.sub_0_r. lia.
  - assert (Hq : (b + 1) / year_days = b / year_days).
    { symmetry. apply (Z.div_unique (b + 1) year_days (b / year_days) (b mod year_days + 1)); lia. }
    assert (Hr : (b + 1) mod year_days = b mod year_days + 1).
    { symmetry. apply (Z.mod_unique (b + 1) year_days (b / year_days) (b mod year_days + 1)); lia. }
    rewrite Hq, Hr. lia.
Qed.

Lemma sum_sizes_rest n : forall i, 0 <= i -> sum_sizes n i + rest (i + Z.of_nat n) <= rest i.
Proof.
  induction n as [|n IH]; intros i Hi.
  - cbn [sum_sizes]. rewrite Z.add_0_r. lia.
  - cbn [sum_sizes]. specialize (IH (i + 1) ltac:(lia)).
    replace (i + Z.of_nat (S n)) with (i + 1 + Z.of_nat n) by lia.
    pose proof (rest_step i Hi). lia.
Qed.

(* the sum of ANY run of consecutive batch amounts stays within the pool *)
Lemma sum_sizes_le_pool n i : 0 <= i -> 0 <= sum_sizes n i <= mint_pool.
Proof.
  intros Hi. split.
  - revert i Hi. induction n as [|n IH]; intros i Hi; cbn [sum_sizes]; [lia|].
    specialize (IH (i + 1) ltac:(lia)). pose proof (size_z_nonneg i Hi). lia.
  - pose proof (sum_sizes_rest n i Hi) as H.
    pose proof (rest_bounds (i + Z.of_nat n) ltac:(lia)) as [H1 _].
    pose proof (rest_bounds i Hi) as [_ H2].
    pose proof (pool_z_range (i / year_days)). lia.
Qed.

Lemma mint_multi_le_pool old batch s : 0 <= old -> mint_multi old batch = Ok s -> 0 < s <= mint_pool.
Proof.
  intros Hold H. apply mint_multi_sum in H. destruct H as [Hlt [-> Hall]].
  pose proof (sum_sizes_le_pool (Z.to_nat (batch - old)) (old + 1) ltac:(lia)) as Hb.
  split; [|lia].
  destruct (Hall (old + 1) ltac:(lia)) as [a [Ha Hpos]].
  replace (Z.to_nat (batch - old)) with (S (Z.to_nat (batch - old - 1))) by lia.
  cbn [sum_sizes]. unfold size_z at 1. rewrite Ha.
  pose proof (sum_sizes_le_pool (Z.to_nat (batch - old - 1)) (old + 1 + 1) ltac:(lia)). lia.
Qed.

(* ---- lists of results ------------------------------------------------------------------ *)

(* from here on [lia] also knows floor division and remainder *)
Local Ltac Zify.zify_post_hook ::= Z.to_euclidean_division_equations.

Fixpoint zsum (l : list Z) : Z := match l with [] => 0 | x :: r => x + zsum r end.

Lemma zsum_app l1 l2 : zsum (l1 ++ l2) = zsum l1 + zsum l2.
Proof. induction l1 as [|x l1 IH]; cbn [app zsum]; [reflexivity|]. rewrite IH. lia. Qed.

Lemma map_res_inv {A B} (f : A -> res B) l : forall r,
  map_res f l = Ok r -> Forall2 (fun a b => f a = Ok b) l r.
Proof.
  induction l as [|a l IH]; intros r H.
  - cbn in H. inversion H. constructor.
  - cbn [map_res] in H. apply bind_ok in H. destruct H as [b [Hb H]].
    apply bind_ok in H. destruct H as [bs [Hbs H]]. inversion H. constructor; [assumption|].
    apply IH. assumption.
Qed.

Lemma map_res_ok {A B} (f : A -> res B) (g : A -> B) l :
  (forall a, In a l -> f a = Ok (g a)) -> map_res f l = Ok (map g l).
Proof.
  induction l as [|a l IH]; intros H; [reflexivity|].
  cbn [map_res map]. rewrite (H a) by (left; reflexivity). cbn [bind].
  rewrite IH by (intros x Hx; apply H; right; assumption). reflexivity.
Qed.

Lemma Forall2_nth_error {A B} (R : A -> B -> Prop) l r : Forall2 R l r ->
  forall i a, nth_error l i = Some a -> exists b, nth_error r i = Some b /\ R a b.
Proof.
  induction 1 as [|x y l r Hxy HF IH]; intros i a Hi.
  - destruct i; discriminate.
  - destruct i as [|i]; cbn in *.
    + inversion Hi. subst. exists y. split; [reflexivity|assumption].
    + apply IH. assumption.
Qed.

Lemma Forall2_length {A B} (R : A -> B -> Prop) l r : Forall2 R l r -> length l = length r.
Proof. induction 1; cbn; congruence. Qed.

Lemma sum_add_inv l : forall acc t, sum_add acc l = Ok t ->
  t = acc + zsum l /\ Forall (fun x => 0 < x) l.
Proof.
  induction l as [|x l IH]; intros acc t H.
  - cbn in H. inversion H. cbn. split; [lia|constructor].
  - cbn [sum_add] in H. apply bind_ok in H. destruct H as [a [Ha H]].
    apply i_add_inv in Ha. destruct Ha as [_ [Hx ->]]. destruct (IH _ _ H) as [-> HF].
    cbn [zsum]. split; [lia|constructor; assumption].
Qed.

Lemma zsum_pos_nonneg l : Forall (fun x => 0 < x) l -> 0 <= zsum l.
Proof. induction 1; cbn [zsum]; lia. Qed.

Lemma sum_add_ok l : forall acc, 0 <= acc -> Forall (fun x => 0 < x) l ->
  sum_add acc l = Ok (acc + zsum l).
Proof.
  induction l as [|x l IH]; intros acc Hacc HF.
  - cbn. f_equal. lia.
  - inversion HF as [|? ? Hx HF']. subst. cbn [sum_add]. rewrite i_add_ok by lia. cbn [bind].
    rewrite IH by (try lia; assumption). f_equal. cbn [zsum]. lia.
Qed.

(* ---- work of a node ---------------------------------------------------------------------- *)

Lemma unit_scale_val : unit_scale = 100000000. Proof. reflexivity. Qed.

(* 1.2 per proposal + 1 per signature, in units: 20000000 * (6 lead + 5 sign) *)
Definition work_of (ls : Z * Z) : Z := 20000000 * (6 * fst ls + 5 * snd ls).
Definition works_ok (works : list (Z * Z)) : Prop :=
  Forall (fun ls => 0 <= fst ls /\ 0 <= snd ls) works.

Lemma node_work_ok ls : 0 <= fst ls -> 0 <= snd ls -> node_work ls = Ok (work_of ls).
Proof.
  intros Hl Hs. unfold node_work, new_integer, work_of. rewrite unit_scale_val.
  rewrite i_mul_ok by lia. cbn [bind]. rewrite i_div_ok by lia. cbn [bind].
  replace (fst ls * 100000000 * 120) with (fst ls * 120000000 * 100) by lia.
  rewrite Z.div_mul by lia.
  destruct (0 <? snd ls * 100000000) eqn:E.
  - rewrite i_add_ok by lia. f_equal. lia.
  - f_equal. lia.
Qed.

Lemma work_of_range ls : 0 <= fst ls -> 0 <= snd ls -> work_of ls = 0 \/ unit_scale <= work_of ls.
Proof. intros Hl Hs. unfold work_of. rewrite unit_scale_val. lia. Qed.

(* ---- the first loop ------------------------------------------------------------------------ *)

Definition stats_inv (L : Z) (s : stats) : Prop :=
  0 <= st_valid s /\ 0 <= st_total s /\
  (st_valid s = 0 -> st_min s = 0 /\ st_max s = 0) /\
  (1 <= st_valid s ->
     L <= st_min s /\ st_min s <= st_max s /\
     st_max s + (st_valid s - 1) * st_min s <= st_total s).

Lemma collect_inv L ws : 0 < L -> Forall (fun w => w = 0 \/ L <= w) ws ->
  forall s, stats_inv L s ->
  exists s', collect ws s = Ok s' /\ stats_inv L s' /\
             st_valid s <= st_valid s' <= st_valid s + Z.of_nat (length ws).
Proof.
  intros HL HF. induction HF as [|w ws Hw HF IH]; intros s Hs.
  - exists s. split; [reflexivity|]. split; [assumption|]. cbn [length]. lia.
  - cbn [collect]. destruct (w =? 0) eqn:E0.
    + destruct (IH s Hs) as [s' [H1 [H2 H3]]]. exists s'. cbn [length].
      split; [assumption|]. split; [assumption|]. lia.
    + assert (HwL : L <= w) by lia. destruct Hs as [Hv [Ht [Hz Hp]]].
      rewrite i_add_ok by lia. cbn [bind].
      match goal with |- context [collect ws ?S] => set (s1 := S) end.
      assert (Hs1 : stats_inv L s1).
      { unfold stats_inv, s1. cbn [st_valid st_min st_max st_total].
        split; [lia|]. split; [lia|]. split; [lia|]. intros _.
        destruct (Z.eq_dec (st_valid s) 0) as [Hv0|Hv1].
        - destruct (Hz Hv0) as [-> ->]. rewrite Hv0. cbn.
          destruct (0 <? w) eqn:E; lia.
        - destruct (Hp ltac:(lia)) as [Hmin [Hmm Htot]].
          destruct (st_min s =? 0) eqn:Em; [lia|].
          assert (Hmul : w <= st_min s -> (st_valid s - 1) * w <= (st_valid s - 1) * st_min s)
            by (intros; apply Z.mul_le_mono_nonneg_l; lia).
          destruct (w <? st_min s) eqn:E1; destruct (st_max s <? w) eqn:E2; try lia;
            (split; [lia|]; split; [lia|]; try specialize (Hmul ltac:(lia)); nia). }
      destruct (IH s1 Hs1) as [s' [H1 [H2 H3]]]. exists s'.
      unfold s1 in H3. cbn [st_valid] in H3. cbn [length].
      split; [assumption|]. split; [assumption|]. lia.
Qed.

Lemma stats0_inv L : stats_inv L stats0.
Proof. unfold stats_inv, stats0. cbn. repeat split; lia. Qed.

(* ---- the piecewise map ------------------------------------------------------------------------ *)

Definition rm (a w : Z) : Z :=
  if a * 7 <=? w then a * 2
  else if a <=? w then w / 6 + a * 5 / 6
  else if w <=? a / 7 then a / 7
  else w.

Lemma remap_ok a w : 7 <= a -> 0 <= w -> remap a w = Ok (rm a w).
Proof.
  intros Ha Hw. unfold remap, rm. rewrite i_mul_ok by lia. cbn [bind].
  rewrite i_div_ok by lia. cbn [bind].
  destruct (a * 7 <=? w); [apply i_mul_ok; lia|].
  destruct (a <=? w).
  - rewrite i_div_ok by lia. cbn [bind]. rewrite i_mul_ok by lia. cbn [bind].
    rewrite i_div_ok by lia. cbn [bind]. apply i_add_ok; lia.
  - destruct (w <=? a / 7); reflexivity.
Qed.

Lemma remap_inv a w y : remap a w = Ok y -> 0 <= a /\ y = rm a w.
Proof.
  unfold remap, rm. intros H. apply bind_ok in H. destruct H as [u [Hu H]].
  apply i_mul_inv in Hu. destruct Hu as [Ha [_ ->]].
  apply bind_ok in H. destruct H as [l [Hl H]]. apply i_div_inv in Hl. destruct Hl as [_ [_ ->]].
  split; [assumption|].
  destruct (a * 7 <=? w).
  { apply i_mul_inv in H. lia. }
  destruct (a <=? w).
  { apply bind_ok in H. destruct H as [x1 [H1 H]]. apply i_div_inv in H1. destruct H1 as [_ [_ ->]].
    apply bind_ok in H. destruct H as [x2 [H2 H]]. apply i_mul_inv in H2. destruct H2 as [_ [_ ->]].
    apply bind_ok in H. destruct H as [x3 [H3 H]]. apply i_div_inv in H3. destruct H3 as [_ [_ ->]].
    apply i_add_inv in H. lia. }
  destruct (w <=? a / 7).
  { apply i_div_inv in H. lia. }
  inversion H. reflexivity.
Qed.

(* the map is monotone: its floors never invert an order *)
Lemma rm_mono a w1 w2 : 0 <= a -> w1 <= w2 -> rm a w1 <= rm a w2.
Proof.
  intros Ha Hw. unfold rm.
  destruct (a * 7 <=? w1) eqn:E1; destruct (a * 7 <=? w2) eqn:E2;
  destruct (a <=? w1) eqn:E3; destruct (a <=? w2) eqn:E4;
  destruct (w1 <=? a / 7) eqn:E5; destruct (w2 <=? a / 7) eqn:E6; lia.
Qed.

Lemma rm_bounds a w : 0 <= a -> a / 7 <= rm a w <= a * 2.
Proof.
  intros Ha. unfold rm.
  destruct (a * 7 <=? w) eqn:E1; destruct (a <=? w) eqn:E3; destruct (w <=? a / 7) eqn:E5; lia.
Qed.

(* ---- shares -------------------------------------------------------------------------------------- *)

Lemma share_ok base total y : 0 <= y -> 0 < total -> 0 <= base ->
  share base total y = Ok (base * y / total).
Proof.
  intros Hy Ht Hb. unfold share. rewrite ration_ok by lia. cbn [bind]. apply product_ok; lia.
Qed.

Lemma share_inv base total y m : share base total y = Ok m ->
  0 <= y /\ 0 < total /\ 0 <= base /\ m = base * y / total.
Proof.
  unfold share. intros H. apply bind_ok in H. destruct H as [r [Hr H]].
  apply ration_inv in Hr. destruct Hr as [Hy [Ht ->]]. apply product_inv in H.
  destruct H as [Hb [_ ->]]. repeat split; lia.
Qed.

Lemma shares_sum base total ys mints :
  Forall2 (fun y m => share base total y = Ok m) ys mints ->
  zsum mints * total <= base * zsum ys /\ Forall (fun m => 0 <= m) mints /\ (ys <> [] -> 0 < total).
Proof.
  induction 1 as [|y m ys mints Hym HF IH].
  - cbn. split; [lia|]. split; [constructor|]. intros H; congruence.
  - destruct IH as [IH1 [IH2 _]]. apply share_inv in Hym. destruct Hym as [Hy [Ht [Hb ->]]].
    assert (Hfl : total * (base * y / total) <= base * y) by (apply Z.mul_div_le; lia).
    assert (Hnn : 0 <= base * y / total) by (apply Z.div_pos; [apply Z.mul_nonneg_nonneg; lia|lia]).
    cbn [zsum]. split; [nia|].
    split; [constructor; assumption|]. intros _. assumption.
Qed.

Lemma zsum_const {A} (l : list A) w : zsum (map (fun _ => w) l) = Z.of_nat (length l) * w.
Proof. induction l as [|a l IH]; [reflexivity|]. cbn [map zsum length]. rewrite IH. lia. Qed.

(* ---- distributeKernelMintByWorks: general facts (no guard) ------------------------------------ *)

Lemma distribute_inv works thr base mints : distribute false works thr base = Ok mints ->
  exists ws s avg ys total,
    map_res node_work works = Ok ws /\ collect ws stats0 = Ok s /\ thr <= st_valid s /\
    map_res (remap avg) ws = Ok ys /\ sum_add 0 ys = Ok total /\
    map_res (share base total) ys = Ok mints.
Proof.
  unfold distribute. intros H.
  apply bind_ok in H. destruct H as [ws [Hws H]].
  apply bind_ok in H. destruct H as [s [Hs H]].
  destruct (st_valid s <? thr) eqn:Et; [discriminate|].
  apply bind_ok in H. destruct H as [t1 [_ H]].
  apply bind_ok in H. destruct H as [t2 [_ H]].
  apply bind_ok in H. destruct H as [avg [_ H]].
  destruct (avg =? 0); [discriminate|].
  apply bind_ok in H. destruct H as [ys [Hys H]].
  apply bind_ok in H. destruct H as [total [Htot H]].
  exists ws, s, avg, ys, total. repeat split; try assumption. lia.
Qed.

Lemma distribute_sum day0 works thr base mints : 0 <= base ->
  distribute day0 works thr base = Ok mints ->
  zsum mints <= base /\ Forall (fun m => 0 <= m) mints /\ length mints = length works.
Proof.
  intros Hb H. destruct day0.
  - unfold distribute in H. apply bind_ok in H. destruct H as [w [Hw H]]. inversion H.
    apply i_div_inv in Hw. destruct Hw as [_ [Hn ->]].
    rewrite zsum_const, map_length. split; [apply Z.mul_div_le; lia|]. split; [|reflexivity].
    apply Forall_forall. intros x Hx. apply in_map_iff in Hx. destruct Hx as [_ [<- _]].
    apply Z.div_pos; lia.
  - apply distribute_inv in H. destruct H as [ws [s [avg [ys [total [Hws [_ [_ [Hys [Htot Hm]]]]]]]]]].
    apply map_res_inv in Hws, Hys, Hm. apply sum_add_inv in Htot. destruct Htot as [Htot _].
    destruct (shares_sum _ _ _ _ Hm) as [Hsum [Hnn Hpos]].
    split; [|split; [assumption|]].
    + destruct ys as [|y ys'].
      * inversion Hm. cbn. assumption.
      * specialize (Hpos ltac:(discriminate)). rewrite Z.add_0_l in Htot. rewrite <- Htot in Hsum. nia.
    + rewrite <- (Forall2_length _ _ _ Hm), <- (Forall2_length _ _ _ Hys). symmetry. apply (Forall2_length _ _ _ Hws).
Qed.

(* a node with more work never receives less *)
Lemma distribute_monotone day0 works thr base mints i j wi wj a b mi mj :
  distribute day0 works thr base = Ok mints ->
  nth_error works i = Some wi -> nth_error works j = Some wj ->
  node_work wi = Ok a -> node_work wj = Ok b -> a <= b ->
  nth_error mints i = Some mi -> nth_error mints j = Some mj -> mi <= mj.
Proof.
  intros H Hi Hj Ha Hb Hab Hmi Hmj. destruct day0.
  - unfold distribute in H. apply bind_ok in H. destruct H as [w [_ H]]. inversion H. subst mints.
    rewrite nth_error_map in Hmi, Hmj. rewrite Hi in Hmi. rewrite Hj in Hmj. cbn in *.
    inversion Hmi. inversion Hmj. lia.
  - apply distribute_inv in H. destruct H as [ws [s [avg [ys [total [Hws [_ [_ [Hys [_ Hm]]]]]]]]]].
    apply map_res_inv in Hws, Hys, Hm.
    destruct (Forall2_nth_error _ _ _ Hws i wi Hi) as [a' [Hai Ha']].
    destruct (Forall2_nth_error _ _ _ Hws j wj Hj) as [b' [Hbj Hb']].
    rewrite Ha in Ha'. inversion Ha'. subst a'. rewrite Hb in Hb'. inversion Hb'. subst b'.
    destruct (Forall2_nth_error _ _ _ Hys i a Hai) as [yi [Hyi Ryi]].
    destruct (Forall2_nth_error _ _ _ Hys j b Hbj) as [yj [Hyj Ryj]].
    apply remap_inv in Ryi, Ryj. destruct Ryi as [Havg ->]. destruct Ryj as [_ ->].
    destruct (Forall2_nth_error _ _ _ Hm i _ Hyi) as [mi' [Hmi' Rmi]].
    destruct (Forall2_nth_error _ _ _ Hm j _ Hyj) as [mj' [Hmj' Rmj]].
    rewrite Hmi in Hmi'. inversion Hmi'. subst mi'. rewrite Hmj in Hmj'. inversion Hmj'. subst mj'.
    apply share_inv in Rmi, Rmj. destruct Rmi as [_ [Ht [Hbase ->]]]. destruct Rmj as [_ [_ [_ ->]]].
    apply Z.div_le_mono; [lia|]. apply Z.mul_le_mono_nonneg_l; [lia|]. apply rm_mono; assumption.
Qed.

(* ---- under the guard: no panic and every share positive ------------------------------------- *)

Lemma zsum_upper l u : Forall (fun y => y <= u) l -> zsum l <= Z.of_nat (length l) * u.
Proof. induction 1 as [|y l Hy HF IH]; cbn [zsum length]; [lia|]. nia. Qed.

Lemma consensus_threshold_min n : 5 <= consensus_threshold n.
Proof.
  unfold consensus_threshold. destruct (n <? min_nodes) eqn:E; [lia|].
  change min_nodes with 7 in E. lia.
Qed.

Lemma distribute_guard day0 works thr base :
  works_ok works -> 3 <= thr -> 1 <= Z.of_nat (length works) ->
  28 * Z.of_nat (length works) <= base ->
  distribute day0 works thr base = Err \/
  exists mints, distribute day0 works thr base = Ok mints /\ Forall (fun m => 0 < m) mints.
Proof.
  intros Hw Hthr Hn Hbase. destruct day0.
  - right. unfold distribute. rewrite i_div_ok by lia. cbn [bind]. eexists. split; [reflexivity|].
    apply Forall_forall. intros x Hx. apply in_map_iff in Hx. destruct Hx as [_ [<- _]].
    apply Z.div_str_pos. lia.
  - unfold distribute.
    rewrite (map_res_ok node_work work_of).
    2:{ intros ls Hin. unfold works_ok in Hw. rewrite Forall_forall in Hw.
        destruct (Hw ls Hin). apply node_work_ok; assumption. }
    cbn [bind]. set (ws := map work_of works).
    assert (Hws : Forall (fun w => w = 0 \/ unit_scale <= w) ws).
    { unfold ws. apply Forall_forall. intros w Hin. apply in_map_iff in Hin.
      destruct Hin as [ls [<- Hin]]. unfold works_ok in Hw. rewrite Forall_forall in Hw.
      destruct (Hw ls Hin). apply work_of_range; assumption. }
    assert (Hws0 : Forall (fun w => 0 <= w) ws).
    { eapply Forall_impl; [|exact Hws]. intros w Hw'. cbv beta in Hw'. destruct Hw' as [->|H]; [lia|]. rewrite unit_scale_val in H. lia. }
    assert (HU : 0 < unit_scale) by (rewrite unit_scale_val; lia).
    destruct (collect_inv unit_scale ws HU Hws stats0 (stats0_inv _)) as [s [Hs [Hinv Hlen]]].
    rewrite Hs. cbn [bind]. destruct (st_valid s <? thr) eqn:Et; [left; reflexivity|].
    destruct Hinv as [Hv [Ht [_ Hp]]]. destruct (Hp ltac:(lia)) as [Hmin [Hmm Htot]].
    rewrite unit_scale_val in Hmin.
    assert (Hprod : (st_valid s - 2) * st_min s <= st_total s - st_min s - st_max s) by nia.
    assert (Hprod0 : 0 <= (st_valid s - 2) * st_min s) by (apply Z.mul_nonneg_nonneg; lia).
    rewrite i_sub_ok by nia. cbn [bind]. rewrite i_sub_ok by nia. cbn [bind].
    rewrite i_div_ok by nia. cbn [bind].
    set (avg := (st_total s - st_min s - st_max s) / (st_valid s - 2)).
    assert (Havg : st_min s <= avg).
    { unfold avg. apply Z.div_le_lower_bound; [lia|]. exact Hprod. }
    destruct (avg =? 0) eqn:Ea; [lia|].
    rewrite (map_res_ok (remap avg) (rm avg)).
    2:{ intros w Hin. rewrite Forall_forall in Hws0. apply remap_ok; [lia|]. apply Hws0. assumption. }
    cbn [bind]. set (ys := map (rm avg) ws).
    assert (Hys : Forall (fun y => avg / 7 <= y <= avg * 2) ys).
    { unfold ys. apply Forall_forall. intros y Hin. apply in_map_iff in Hin.
      destruct Hin as [w [<- _]]. apply rm_bounds. lia. }
    assert (Hyspos : Forall (fun y => 0 < y) ys).
    { eapply Forall_impl; [|exact Hys]. intros y Hy. cbv beta in Hy. lia. }
    rewrite sum_add_ok by (try lia; assumption). cbn [bind]. rewrite Z.add_0_l.
    assert (Hlenys : length ys = length works) by (unfold ys, ws; rewrite !map_length; reflexivity).
    assert (Htotal_hi : zsum ys <= Z.of_nat (length works) * (avg * 2)).
    { rewrite <- Hlenys. apply zsum_upper. eapply Forall_impl; [|exact Hys]. intros y Hy. cbv beta in Hy. lia. }
    assert (Htotal_pos : 0 < zsum ys).
    { destruct ys as [|y ys']; [cbn in Hlenys; lia|]. inversion Hyspos as [|? ? Hy HF]. subst.
      cbn [zsum]. pose proof (zsum_pos_nonneg _ HF). lia. }
    right. rewrite (map_res_ok (share base (zsum ys)) (fun y => base * y / zsum ys)).
    2:{ intros y Hin. rewrite Forall_forall in Hyspos. specialize (Hyspos y Hin).
        apply share_ok; lia. }
    eexists. split; [reflexivity|].
    apply Forall_forall. intros m Hin. apply in_map_iff in Hin. destruct Hin as [y [<- Hin]].
    rewrite Forall_forall in Hys. specialize (Hys y Hin).
    assert (H14 : avg <= 14 * (avg / 7)) by lia.
    assert (H1 : zsum ys <= base * y).
    { assert (base * (avg / 7) <= base * y) by (apply Z.mul_le_mono_nonneg_l; lia).
      assert (28 * Z.of_nat (length works) * avg <= base * avg) by (apply Z.mul_le_mono_nonneg_r; lia).
      assert (base * avg <= base * (14 * (avg / 7))) by (apply Z.mul_le_mono_nonneg_l; lia).
      nia. }
    assert (1 <= base * y / zsum ys) by (apply Z.div_le_lower_bound; lia). lia.
Qed.

(* ---- the outputs of the mint transaction ------------------------------------------------------ *)

Lemma mint_outputs_inv amount mints outs : mint_outputs amount mints = Ok outs ->
  exists light, outs = mints ++ [amount / 10 * 4; light] /\ zsum outs = amount /\ 0 <= light /\
                Forall (fun m => 0 < m) mints /\ 0 < amount / 10 * 4.
Proof.
  unfold mint_outputs. intros H.
  apply bind_ok in H. destruct H as [total [Ht H]]. apply sum_add_inv in Ht. destruct Ht as [-> Hpos].
  destruct (amount <? 0 + zsum mints); [discriminate|].
  apply bind_ok in H. destruct H as [t10 [H10 H]]. apply i_div_inv in H10. destruct H10 as [_ [_ ->]].
  apply bind_ok in H. destruct H as [safe [Hs H]]. apply i_mul_inv in Hs. destruct Hs as [_ [_ ->]].
  apply bind_ok in H. destruct H as [total2 [H2 H]]. apply i_add_inv in H2. destruct H2 as [_ [Hsafe ->]].
  destruct (amount <? 0 + zsum mints + amount / 10 * 4); [discriminate|].
  apply bind_ok in H. destruct H as [light [Hl H]]. apply i_sub_inv in Hl. destruct Hl as [_ [Hle ->]].
  inversion H. eexists. split; [reflexivity|]. rewrite zsum_app. cbn [zsum].
  repeat split; try assumption; lia.
Qed.

(* the two `total > amount` panics removed *)
Definition mint_outputs_noguard (amount : Z) (mints : list Z) : res (list Z) :=
  do total <- sum_add 0 mints;
  do t10 <- i_div amount 10;
  do safe <- i_mul t10 4;
  do total2 <- i_add total safe;
  do light <- i_sub amount total2;
  Ok (mints ++ [safe; light]).

Definition build_outputs_noguard (batch amount : Z) (day0 : bool) (is_ready : bool)
           (works : list (Z * Z)) (thr : Z) : res (list Z) :=
  if (amount <=? 0) || (batch <=? legacy_ending) then Err
  else
    do t10 <- i_div amount 10;
    do kernel <- i_mul t10 5;
    if negb day0 && negb is_ready then Err
    else
      do mints <- distribute day0 works thr kernel;
      mint_outputs_noguard amount mints.

Lemma mint_outputs_guards amount mints : 0 <= amount -> zsum mints <= amount / 10 * 5 ->
  mint_outputs amount mints = mint_outputs_noguard amount mints.
Proof.
  intros Ha Hsum. unfold mint_outputs, mint_outputs_noguard.
  destruct (sum_add 0 mints) as [total| |] eqn:Et; cbn [bind]; try reflexivity.
  apply sum_add_inv in Et. destruct Et as [-> _].
  destruct (amount <? 0 + zsum mints) eqn:E1; [lia|].
  rewrite i_div_ok by lia. cbn [bind].
  destruct (i_mul (amount / 10) 4) as [safe| |] eqn:Es; cbn [bind]; try reflexivity.
  apply i_mul_inv in Es. destruct Es as [_ [_ ->]].
  destruct (i_add (0 + zsum mints) (amount / 10 * 4)) as [total2| |] eqn:E2; cbn [bind]; try reflexivity.
  apply i_add_inv in E2. destruct E2 as [_ [_ ->]].
  destruct (amount <? 0 + zsum mints + amount / 10 * 4) eqn:E3; [lia|]. reflexivity.
Qed.

Lemma build_outputs_guards batch amount day0 is_ready works thr :
  build_outputs batch amount day0 is_ready works thr =
  build_outputs_noguard batch amount day0 is_ready works thr.
Proof.
  unfold build_outputs, build_outputs_noguard.
  destruct ((amount <=? 0) || (batch <=? legacy_ending)) eqn:E; [reflexivity|].
  assert (Ha : 0 < amount) by lia.
  rewrite i_div_ok by lia. cbn [bind]. rewrite i_mul_ok by lia. cbn [bind].
  destruct (negb day0 && negb is_ready); [reflexivity|].
  destruct (distribute day0 works thr (amount / 10 * 5)) as [mints| |] eqn:Ed; cbn [bind]; try reflexivity.
  apply distribute_sum in Ed; [|lia]. destruct Ed as [Hs _].
  apply mint_outputs_guards; lia.
Qed.

(* what a built transaction looks like (no guard needed) *)
Lemma build_outputs_inv batch amount day0 is_ready works thr outs :
  build_outputs batch amount day0 is_ready works thr = Ok outs ->
  0 < amount /\ legacy_ending < batch /\
  exists mints light,
    distribute day0 works thr (amount / 10 * 5) = Ok mints /\
    outs = mints ++ [amount / 10 * 4; light] /\
    length mints = length works /\
    zsum outs = amount /\
    zsum mints <= amount / 10 * 5 /\ 2 * zsum mints <= amount /\
    Forall (fun m => 0 < m) mints /\ 0 < amount / 10 * 4 /\ 0 < light.
Proof.
  unfold build_outputs. intros H.
  destruct ((amount <=? 0) || (batch <=? legacy_ending)) eqn:E; [discriminate|].
  assert (Ha : 0 < amount) by lia. split; [assumption|]. split; [lia|].
  rewrite i_div_ok in H by lia. cbn [bind] in H. rewrite i_mul_ok in H by lia. cbn [bind] in H.
  destruct (negb day0 && negb is_ready); [discriminate|].
  apply bind_ok in H. destruct H as [mints [Hd H]].
  pose proof (distribute_sum day0 works thr (amount / 10 * 5) mints ltac:(lia) Hd) as [Hs [_ Hlen]].
  apply mint_outputs_inv in H. destruct H as [light [-> [Hsum [Hl [Hpos Hsafe]]]]].
  exists mints, light. repeat split; try assumption; try lia.
  rewrite zsum_app in Hsum. cbn [zsum] in Hsum. lia.
Qed.

(* under the guard the construction never panics and every output is positive *)
Lemma build_outputs_guarded batch amount day0 is_ready works thr :
  works_ok works -> 3 <= thr -> guard_a0 <= amount ->
  1 <= Z.of_nat (length works) <= max_nodes ->
  build_outputs batch amount day0 is_ready works thr = Err \/
  exists outs, build_outputs batch amount day0 is_ready works thr = Ok outs /\
               Forall (fun o => 0 < o) outs.
Proof.
  intros Hw Hthr Ha Hn. unfold guard_a0 in Ha. change max_nodes with 50 in Hn.
  rewrite build_outputs_guards. unfold build_outputs_noguard.
  destruct ((amount <=? 0) || (batch <=? legacy_ending)) eqn:E; [left; reflexivity|].
  rewrite i_div_ok by lia. cbn [bind]. rewrite i_mul_ok by lia. cbn [bind].
  destruct (negb day0 && negb is_ready); [left; reflexivity|].
  destruct (distribute_guard day0 works thr (amount / 10 * 5) Hw Hthr ltac:(lia) ltac:(lia))
    as [Hd|[mints [Hd Hpos]]]; rewrite Hd; [left; reflexivity|].
  cbn [bind]. right.
  pose proof (distribute_sum day0 works thr (amount / 10 * 5) mints ltac:(lia) Hd) as [Hsum _].
  unfold mint_outputs_noguard. rewrite sum_add_ok by (try lia; assumption). cbn [bind].
  pose proof (zsum_pos_nonneg _ Hpos) as Hnn.
  rewrite i_div_ok by lia. cbn [bind]. rewrite i_mul_ok by lia. cbn [bind].
  rewrite i_add_ok by lia. cbn [bind]. rewrite i_sub_ok by lia. cbn [bind].
  eexists. split; [reflexivity|].
  apply Forall_app. split; [assumption|]. constructor; [lia|]. constructor; [lia|constructor].
Qed.

(* ---- corollaries in the shape of the property ------------------------------------------------- *)

Lemma outputs_sum_exact batch amount day0 rdy works thr outs :
  build_outputs batch amount day0 rdy works thr = Ok outs -> zsum outs = amount.
Proof. intros H. apply build_outputs_inv in H. destruct H as [_ [_ [m [l [_ [_ [_ [H _]]]]]]]]. exact H. Qed.

Lemma firstn_app_exact {A} (l1 l2 : list A) : firstn (length l1) (l1 ++ l2) = l1.
Proof. induction l1 as [|a l1 IH]; cbn; [destruct l2; reflexivity|]. rewrite IH. reflexivity. Qed.

Lemma nth_error_app_exact {A} (l1 l2 : list A) : nth_error (l1 ++ l2) (length l1) = nth_error l2 0.
Proof. induction l1 as [|a l1 IH]; cbn; [reflexivity|exact IH]. Qed.

Lemma kernel_half batch amount day0 rdy works thr outs :
  build_outputs batch amount day0 rdy works thr = Ok outs ->
  2 * zsum (firstn (length works) outs) <= amount /\
  zsum (firstn (length works) outs) <= amount / 10 * 5.
Proof.
  intros H. apply build_outputs_inv in H.
  destruct H as [_ [_ [m [l [_ [-> [Hlen [_ [H5 [H2 _]]]]]]]]]].
  rewrite <- Hlen, firstn_app_exact. split; assumption.
Qed.

Lemma custodian_share batch amount day0 rdy works thr outs :
  build_outputs batch amount day0 rdy works thr = Ok outs ->
  length outs = (length works + 2)%nat /\
  nth_error outs (length works) = Some (amount / 10 * 4).
Proof.
  intros H. apply build_outputs_inv in H.
  destruct H as [_ [_ [m [l [_ [-> [Hlen _]]]]]]].
  rewrite app_length, <- Hlen. cbn [length]. split; [lia|].
  rewrite nth_error_app_exact. reflexivity.
Qed.

Lemma outputs_work_monotone batch amount day0 rdy works thr outs i j wi wj a b oi oj :
  build_outputs batch amount day0 rdy works thr = Ok outs ->
  nth_error works i = Some wi -> nth_error works j = Some wj ->
  node_work wi = Ok a -> node_work wj = Ok b -> a <= b ->
  nth_error outs i = Some oi -> nth_error outs j = Some oj -> oi <= oj.
Proof.
  intros H Hi Hj Ha Hb Hab Hoi Hoj. apply build_outputs_inv in H.
  destruct H as [_ [_ [m [l [Hd [-> [Hlen _]]]]]]].
  assert (Hil : (i < length m)%nat) by (rewrite Hlen; apply nth_error_Some; congruence).
  assert (Hjl : (j < length m)%nat) by (rewrite Hlen; apply nth_error_Some; congruence).
  rewrite nth_error_app1 in Hoi, Hoj by assumption.
  exact (distribute_monotone day0 works thr _ m i j wi wj a b oi oj Hd Hi Hj Ha Hb Hab Hoi Hoj).
Qed.

Lemma multi_guard old batch s : 0 <= old -> old < batch <= horizon ->
  mint_multi old batch = Ok s -> guard_a0 <= s.
Proof.
  intros Ho Hb H. apply mint_multi_sum in H. destruct H as [_ [-> _]].
  replace (Z.to_nat (batch - old)) with (S (Z.to_nat (batch - old - 1))) by lia.
  cbn [sum_sizes]. destruct (horizon_guard (old + 1) ltac:(lia)) as [a [Ha Hg]].
  unfold size_z at 1. rewrite Ha.
  pose proof (sum_sizes_le_pool (Z.to_nat (batch - old - 1)) (old + 1 + 1) ltac:(lia)). lia.
Qed.

Lemma mint_multi_total old batch : 0 <= old -> old < batch < first_zero_batch ->
  exists s, mint_multi old batch = Ok s.
Proof.
  intros Ho Hb. eexists. apply mint_multi_sum. split; [lia|]. split; [reflexivity|].
  intros i Hi. apply positive_before. lia.
Qed.

Lemma build_mint_guarded old oa batch vo day0 rdy works thr :
  0 <= old -> old < batch <= horizon ->
  works_ok works -> 3 <= thr -> 1 <= Z.of_nat (length works) <= max_nodes ->
  exists s, mint_multi old batch = Ok s /\ guard_a0 <= s /\
    (build_mint old oa batch vo day0 rdy works thr = Err \/
     exists outs, build_mint old oa batch vo day0 rdy works thr = Ok outs /\
                  Forall (fun o => 0 < o) outs /\ zsum outs = s).
Proof.
  intros Ho Hb Hw Hthr Hn.
  destruct (mint_multi_total old batch Ho) as [s Hs]; [unfold horizon, first_zero_batch in *; lia|].
  pose proof (multi_guard old batch s Ho Hb Hs) as Hg.
  exists s. split; [assumption|]. split; [assumption|].
  unfold build_mint, mint_possibility.
  destruct (batch <? old) eqn:E1; [lia|]. destruct (batch =? old) eqn:E2; [lia|].
  rewrite Hs. cbn [bind fst snd].
  destruct (build_outputs_guarded batch s day0 rdy works thr Hw Hthr Hg Hn) as [He|[outs [Hok Hpos]]].
  - left. exact He.
  - right. exists outs. split; [exact Hok|]. split; [exact Hpos|]. eapply outputs_sum_exact. exact Hok.
Qed.

(* beyond the horizon the construction can panic: a batch amount of 100 units
   split over 50 nodes gives zero shares, and total.Add(0) panics *)
Lemma beyond_horizon_panics :
  build_outputs 60000 100 false true (repeat (10, 10) 40 ++ repeat (0, 1) 10) 34 = Panic.
Proof. vm_compute. reflexivity. Qed.
(* ---- poolSizeUniversal ------------------------------------------------------------------------ *)

Lemma pool_years_inv y m p : pool_years y = Ok (m, p) -> 0 <= m /\ 0 <= p /\ m + p = mint_pool.
Proof.
  revert m p. induction y as [|y IH]; intros m p H.
  - cbn in H. inversion H. pose proof mint_pool_nonneg. lia.
  - cbn [pool_years] in H. apply bind_ok in H. destruct H as [[m0 p0] [H0 H]].
    destruct (IH _ _ H0) as [Hm [Hp Hs]]. cbn [fst snd] in H.
    rewrite product_year in H by assumption. cbn [bind] in H.
    apply bind_ok in H. destruct H as [m1 [H1 H]]. apply i_add_inv in H1. destruct H1 as [_ [Hy ->]].
    apply bind_ok in H. destruct H as [p1 [H2 H]]. apply i_sub_inv in H2. destruct H2 as [_ [Hle ->]].
    inversion H. lia.
Qed.

(* the remaining pool is always within [0, MintPool] *)
Lemma pool_size_range b r : 0 <= b -> pool_size b = Ok r -> 0 <= r <= mint_pool.
Proof.
  intros Hb H. unfold pool_size in H. pose proof year_days_pos as Hd.
  apply bind_ok in H. destruct H as [[m p] [H0 H]]. cbn [fst snd] in H.
  destruct (pool_years_inv _ _ _ H0) as [Hm [Hp Hs]].
  rewrite product_year in H by assumption. cbn [bind] in H.
  pose proof (year_of_bounds p Hp) as Hyb. rewrite i_div_ok in H by lia. cbn [bind] in H.
  pose proof (day_of_bounds p Hp) as [Hd0 Hd1]. fold (day_of p) in H.
  pose proof (Z.mod_pos_bound b year_days Hd) as Hmod.
  assert (Hcnt : day_of p * (b mod year_days) <= year_of p).
  { assert (day_of p * (b mod year_days) <= day_of p * year_days) by (apply Z.mul_le_mono_nonneg_l; lia). lia. }
  apply bind_ok in H. destruct H as [mint [Hmint H]].
  assert (Hmr : 0 <= mint <= mint_pool).
  { destruct (0 <? b mod year_days).
    - apply bind_ok in Hmint. destruct Hmint as [d [Hd' Hmint]]. apply i_mul_inv in Hd'.
      destruct Hd' as [_ [_ ->]]. apply i_add_inv in Hmint. lia.
    - inversion Hmint. lia. }
  destruct (0 <? mint).
  - apply i_sub_inv in H. lia.
  - inversion H. pose proof mint_pool_nonneg. lia.
Qed.
