(* Link between the validation model (Model/Validate.v, property C01) and the
   finalization model (Model/Finalize.v, properties C15/C17).

   view_of s v : the reads of the validation view return what the finalization
                 state holds;
   related t h t' : t' is the finalization-side projection of the validated
                 transaction t with payload hash h;
   validate_valid_tx : a transaction ACCEPTED by the validation model against a
                 view of s satisfies every clause of Proofs.Finalize.valid_tx
                 that validation determines (conservation, existence, same
                 asset, distinct slots, the output shapes of every transaction
                 type); what validation cannot know stays a named hypothesis:
                 the hash is not the zero hash, and the inputs' lock holder IS
                 this transaction (C03: LockUTXOs runs after Validate, which
                 only sees "unlocked or locked by this hash").
   Read-only use of the Validate files. *)
From Coq Require Import List ZArith NArith Bool Lia ZifyN ZifyNat ZifyBool.
Require Import Mixin.Base.Res Mixin.Gen.Consts Mixin.Model.Fixed.
Require Mixin.Model.Validate Mixin.Proofs.Validate Mixin.Model.Finalize Mixin.Proofs.Finalize.
Import ListNotations.
Open Scope Z_scope.

Module V := Mixin.Model.Validate.
Module PV := Mixin.Proofs.Validate.
Module F := Mixin.Model.Finalize.
Module PF := Mixin.Proofs.Finalize.

Ltac inv H := inversion H; subst; clear H.

(* ---- the type codes of the two models are the same numbers ---------------------------- *)

Lemma ot_script_eq : V.ot_script = F.ot_script. Proof. reflexivity. Qed.
Lemma ot_submit_eq : V.ot_wsubmit = F.ot_submit. Proof. reflexivity. Qed.
Lemma ot_claim_eq : V.ot_wclaim = F.ot_claim. Proof. reflexivity. Qed.
Lemma ot_pledge_eq : V.ot_pledge = F.ot_pledge. Proof. reflexivity. Qed.
Lemma ot_accept_eq : V.ot_accept = F.ot_accept. Proof. reflexivity. Qed.
Lemma ot_remove_eq : V.ot_remove = F.ot_remove. Proof. reflexivity. Qed.
Lemma ot_cancel_eq : V.ot_cancel = F.ot_cancel. Proof. reflexivity. Qed.
Lemma ot_cupdate_eq : V.ot_cupdate = F.ot_custodian. Proof. reflexivity. Qed.
Lemma ot_cslash_eq : V.ot_cslash = F.ot_slash. Proof. reflexivity. Qed.

(* ---- projection of a validated transaction ------------------------------------------------ *)

Definition proj_input (i : V.input) : F.input :=
  match V.i_mint i with
  | Some m => F.IMint (V.m_amount m)
  | None =>
      match V.i_deposit i with
      | Some d => F.IDeposit (V.d_chain d) (V.be_N (V.d_key d)) (V.d_amount d)
      | None =>
          match V.i_genesis i with
          | Some _ => F.IGenesis
          | None => F.IOrd (V.i_hash i) (Z.to_N (V.i_index i))
          end
      end
  end.

Definition proj_output (o : V.output) : F.output :=
  {| F.o_type := V.o_type o; F.o_amount := V.o_amount o; F.o_keys := V.o_keys o |}.

(* t' is t as the store holds it under payload hash h (extra, references and the
   parsed custodian data of t' are not constrained) *)
Definition related (t : V.tx) (h : N) (t' : F.tx) : Prop :=
  F.t_hash t' = h /\ F.t_asset t' = V.t_asset t /\
  F.t_inputs t' = map proj_input (V.t_inputs t) /\
  F.t_outputs t' = map proj_output (V.t_outputs t).

(* ---- a validation view of a finalization state ----------------------------------------------- *)

Record view_of (s : F.state) (v : V.view) : Prop := {
  (* ReadUTXOLock returns the output record of the state: amount, asset, type, lock holder *)
  vo_utxo : forall h i u, V.v_utxo v h i = Some u ->
    0 <= i /\ exists u', F.lookup F.eq2 (F.s_utxo s) (h, Z.to_N i) = Some u' /\
      F.u_amount u' = V.u_amount u /\ F.u_asset u' = V.u_asset u /\
      F.u_lock u' = V.u_lock u /\ F.u_type u' = V.u_type u;
  (* ReadTransaction returns a stored transaction with its finalization flag *)
  vo_tx : forall h st, V.v_tx v h = Some st ->
    F.mem F.eq1 (F.s_txs s) h = true /\ V.s_final st = F.finalized s h
}.

(* ---- output shapes of an accepted transaction ---------------------------------------------------- *)

Definition shape_ok (t : V.tx) (o : V.output) : Prop :=
  V.o_type o <> V.ot_cslash /\ (V.tx_type t <> V.ty_wsubmit -> V.o_type o <> V.ot_wsubmit).

Lemma kernel_not_script : forall x ty, V.kernel_output_type x = Some ty -> ty <> V.ty_script.
Proof.
  intros x ty H E. apply PV.kernel_output_type_range in H. rewrite E in H. cbn [In] in H.
  repeat (destruct H as [H|H]; [vm_compute in H; discriminate H|]). exact H.
Qed.

Lemma output_type_script_gen : forall outs b, V.output_type outs b = V.ty_script ->
  b = true /\ Forall (fun o => V.o_type o = V.ot_script) outs.
Proof.
  induction outs as [|o r IH]; intros b H; cbn [V.output_type] in H.
  - destruct b; [split; [reflexivity|constructor]|vm_compute in H; discriminate H].
  - destruct (V.kernel_output_type (V.o_type o)) as [ty|] eqn:Ek.
    + exfalso. exact (kernel_not_script _ _ Ek H).
    + destruct (IH _ H) as [Hb Hr]. apply andb_true_iff in Hb. destruct Hb as [Hb Hs].
      split; [exact Hb|]. constructor; [apply Z.eqb_eq; exact Hs|exact Hr].
Qed.

Lemma output_type_script : forall outs b, V.output_type outs b = V.ty_script ->
  Forall (fun o => V.o_type o = V.ot_script) outs.
Proof. intros outs b H. exact (proj2 (output_type_script_gen outs b H)). Qed.

Lemma input_type_cases : forall ins ty, V.input_type ins = Some ty ->
  ty = V.ty_mint \/ ty = V.ty_deposit \/ ty = V.ty_unknown.
Proof.
  induction ins as [|i r IH]; intros ty H; cbn [V.input_type] in H; [discriminate|].
  destruct (V.i_mint i); [inv H; auto|]. destruct (V.i_deposit i); [inv H; auto|].
  destruct (V.i_genesis i); [inv H; auto|]. eauto.
Qed.

(* a kernel-typed transaction (decided by the outputs) *)
Lemma tx_type_from_outputs : forall t ty, V.tx_type t = ty ->
  ty <> V.ty_mint -> ty <> V.ty_deposit -> ty <> V.ty_unknown ->
  V.input_type (V.t_inputs t) = None /\ V.output_type (V.t_outputs t) true = ty.
Proof.
  intros t ty H H1 H2 H3. unfold V.tx_type in H.
  destruct (V.input_type (V.t_inputs t)) as [x|] eqn:E; [|auto].
  destruct (input_type_cases _ _ E) as [X|[X|X]]; congruence.
Qed.

Lemma single_output_kernel : forall o ty, V.output_type [o] true = ty ->
  ty <> V.ty_script -> ty <> V.ty_unknown -> V.kernel_output_type (V.o_type o) = Some ty.
Proof.
  intros o ty H H1 H2. cbn [V.output_type] in H.
  destruct (V.kernel_output_type (V.o_type o)) as [x|]; [congruence|].
  destruct (true && (V.o_type o =? V.ot_script)); congruence.
Qed.

Lemma len_one_list {A} (l : list A) : (V.len l =? 1) = true -> exists x, l = [x].
Proof. intros H. apply PV.len_one. lia. Qed.

Ltac kot H :=
  unfold V.kernel_output_type in H;
  repeat match type of H with
  | (if ?c then _ else _) = _ => destruct c eqn:?; [try (inv H; fail)|]
  end.

(* the single output of a pledge / accept / remove transaction is not a slash or submit output *)
Lemma single_kernel_shape : forall t o ty, V.t_outputs t = [o] -> V.tx_type t = ty ->
  (ty = V.ty_pledge \/ ty = V.ty_accept \/ ty = V.ty_remove \/ ty = V.ty_cupdate) ->
  Forall (shape_ok t) (V.t_outputs t).
Proof.
  intros t o ty Ho Hty Hc.
  assert (N1 : ty <> V.ty_mint /\ ty <> V.ty_deposit /\ ty <> V.ty_unknown /\ ty <> V.ty_script /\ ty <> V.ty_wsubmit /\ ty <> V.ty_cslash).
  { destruct Hc as [ -> | [ -> | [ -> | -> ] ] ]; repeat split; intros X; vm_compute in X; discriminate X. }
  destruct N1 as (A1 & A2 & A3 & A4 & A5 & A6).
  destruct (tx_type_from_outputs t ty Hty A1 A2 A3) as [_ Hout]. rewrite Ho in Hout.
  pose proof (single_output_kernel o ty Hout A4 A3) as Hk.
  rewrite Ho. constructor; [|constructor]. split.
  - intros X. rewrite X in Hk. vm_compute in Hk. injection Hk as Hk. apply A6. rewrite <- Hk. reflexivity.
  - intros _ X. rewrite X in Hk. vm_compute in Hk. injection Hk as Hk. apply A5. rewrite <- Hk. reflexivity.
Qed.

Lemma forall_script_shape : forall t outs, Forall (fun o => V.o_type o = V.ot_script) outs ->
  Forall (shape_ok t) outs.
Proof.
  intros t outs H. eapply Forall_impl; [|exact H]. intros o E. unfold shape_ok. rewrite E.
  split; [|intros _]; intros X; vm_compute in X; discriminate X.
Qed.

Lemma forallb_script : forall outs, forallb (fun o => V.o_type o =? V.ot_script) outs = true ->
  Forall (fun o => V.o_type o = V.ot_script) outs.
Proof.
  intros outs H. apply Forall_forall. intros o Ho. rewrite forallb_forall in H. apply Z.eqb_eq. auto.
Qed.

Theorem accepted_output_shapes : forall v f h ts fork t,
  V.validate v f h ts fork t = Ok tt -> Forall (shape_ok t) (V.t_outputs t).
Proof.
  intros v f h ts fork t H.
  destruct (PV.validate_ok_inv _ _ _ _ _ _ H) as (flt & a & Hp & Hr & Hi & Ha & Ho & Hd).
  unfold V.dispatch in Hd.
  destruct (V.tx_type t =? V.ty_script) eqn:E1.
  { apply Z.eqb_eq in E1.
    assert (A : V.ty_script <> V.ty_mint /\ V.ty_script <> V.ty_deposit /\ V.ty_script <> V.ty_unknown)
      by (repeat split; intros X; vm_compute in X; discriminate X).
    destruct A as (A1 & A2 & A3).
    destruct (tx_type_from_outputs t _ E1 A1 A2 A3) as [_ Hout].
    apply forall_script_shape. eapply output_type_script. exact Hout. }
  destruct (V.tx_type t =? V.ty_mint) eqn:E2.
  { unfold V.validate_mint in Hd.
    destruct (negb (V.len (V.t_inputs t) =? 1)); [discriminate Hd|].
    destruct (forallb (fun o => V.o_type o =? V.ot_script) (V.t_outputs t)) eqn:Es; [|discriminate Hd].
    apply forall_script_shape. apply forallb_script. exact Es. }
  destruct (V.tx_type t =? V.ty_deposit) eqn:E3.
  { unfold V.validate_deposit in Hd.
    destruct (negb (V.len (V.t_inputs t) =? 1)); [discriminate Hd|].
    destruct (V.len (V.t_outputs t) =? 1) eqn:El; [|discriminate Hd]. cbn [negb] in Hd.
    destruct (len_one_list _ El) as [o Eo]. rewrite Eo in Hd |- *.
    destruct (V.o_type o =? V.ot_script) eqn:Es; [|discriminate Hd].
    apply forall_script_shape. constructor; [apply Z.eqb_eq; exact Es|constructor]. }
  destruct (V.tx_type t =? V.ty_wsubmit) eqn:E4.
  { apply Z.eqb_eq in E4. unfold V.validate_withdrawal_submit in Hd.
    destruct (negb (V.all_inputs_type flt (fun x => x =? V.ot_script))); [discriminate Hd|].
    destruct (V.t_outputs t) as [|s0 r] eqn:Eo; [discriminate Hd|]. cbn [V.tail_all_script bind] in Hd.
    destruct (forallb (fun o => V.o_type o =? V.ot_script) r) eqn:Et; [|discriminate Hd]. cbn [negb] in Hd.
    destruct (V.o_type s0 =? V.ot_wsubmit) eqn:Es; [|discriminate Hd]. apply Z.eqb_eq in Es.
    constructor.
    - split; [rewrite Es; intros X; vm_compute in X; discriminate X|intros X; contradiction].
    - apply forall_script_shape. apply forallb_script. exact Et. }
  destruct (V.tx_type t =? V.ty_wclaim) eqn:E5.
  { apply Z.eqb_eq in E5. unfold V.validate_withdrawal_claim in Hd.
    destruct (negb (V.all_inputs_type flt (fun x => x =? V.ot_script))); [discriminate Hd|].
    destruct (negb (V.t_asset t =? V.xin)%N); [discriminate Hd|].
    destruct (V.t_outputs t) as [|s0 r] eqn:Eo; [discriminate Hd|]. cbn [V.tail_all_script bind] in Hd.
    destruct (forallb (fun o => V.o_type o =? V.ot_script) r) eqn:Et; [|discriminate Hd]. cbn [negb] in Hd.
    destruct (negb (V.len (V.t_refs t) =? 1)); [discriminate Hd|].
    destruct (V.o_type s0 =? V.ot_wclaim) eqn:Es; [|discriminate Hd]. apply Z.eqb_eq in Es.
    constructor.
    - split; [|intros _]; rewrite Es; intros X; vm_compute in X; discriminate X.
    - apply forall_script_shape. apply forallb_script. exact Et. }
  destruct (V.tx_type t =? V.ty_pledge) eqn:E6.
  { apply Z.eqb_eq in E6. unfold V.validate_node_pledge in Hd.
    destruct (negb (V.t_asset t =? V.xin)%N); [discriminate Hd|].
    destruct (V.len (V.t_outputs t) =? 1) eqn:El; [|discriminate Hd].
    destruct (len_one_list _ El) as [o Eo]. eapply single_kernel_shape; eauto. }
  destruct (V.tx_type t =? V.ty_cancel) eqn:E7.
  { unfold V.validate_node_cancel in Hd.
    destruct (negb (V.t_asset t =? V.xin)%N); [discriminate Hd|].
    destruct (V.len (V.t_outputs t) =? 2) eqn:El; [|discriminate Hd]. cbn [negb] in Hd.
    destruct (negb (V.len (V.t_inputs t) =? 1)); [discriminate Hd|].
    destruct (negb (V.single_sig_present (V.t_sigs t))); [discriminate Hd|].
    destruct (negb (V.len (V.t_extra t) =? 96)); [discriminate Hd|].
    destruct (V.t_outputs t) as [|c [|sc [|x r]]] eqn:Eo; try discriminate Hd;
      try (unfold V.len in El; cbn [length] in El; lia).
    destruct (V.o_type c =? V.ot_cancel) eqn:Ec; [|discriminate Hd].
    destruct (V.o_type sc =? V.ot_script) eqn:Es; [|discriminate Hd].
    apply Z.eqb_eq in Ec, Es. constructor; [|constructor; [|constructor]]; unfold shape_ok.
    - rewrite Ec. split; [|intros _]; intros X; vm_compute in X; discriminate X.
    - rewrite Es. split; [|intros _]; intros X; vm_compute in X; discriminate X. }
  destruct (V.tx_type t =? V.ty_accept) eqn:E8.
  { apply Z.eqb_eq in E8. unfold V.validate_node_accept in Hd.
    destruct (negb (V.t_asset t =? V.xin)%N); [discriminate Hd|].
    destruct (V.len (V.t_outputs t) =? 1) eqn:El; [|discriminate Hd].
    destruct (len_one_list _ El) as [o Eo]. eapply single_kernel_shape; eauto. }
  destruct (V.tx_type t =? V.ty_remove) eqn:E9.
  { apply Z.eqb_eq in E9. unfold V.validate_node_remove in Hd.
    destruct (negb (V.t_asset t =? V.xin)%N); [discriminate Hd|].
    destruct (V.len (V.t_outputs t) =? 1) eqn:El; [|discriminate Hd].
    destruct (len_one_list _ El) as [o Eo]. eapply single_kernel_shape; eauto 6. }
  destruct (V.tx_type t =? V.ty_cupdate) eqn:E10.
  { apply Z.eqb_eq in E10. unfold V.validate_custodian_update in Hd.
    destruct (V.t_version t <? Consts.ValTxVersionHashSignature); [discriminate Hd|].
    destruct (negb (V.t_asset t =? V.xin)%N); [discriminate Hd|].
    destruct (V.len (V.t_outputs t) =? 1) eqn:El; [|discriminate Hd].
    destruct (len_one_list _ El) as [o Eo]. eapply single_kernel_shape; eauto 7. }
  destruct (V.tx_type t =? V.ty_cslash); discriminate Hd.
Qed.

(* ---- ordinary inputs ---------------------------------------------------------------------------------- *)

Definition plain (i : V.input) : Prop :=
  V.i_mint i = None /\ V.i_deposit i = None /\ V.i_genesis i = None.
Definition slotN (i : V.input) : N * N := (V.i_hash i, Z.to_N (V.i_index i)).

Lemma input_type_nospecial : forall ins, existsb PV.special ins = false ->
  (V.input_type ins = None /\ Forall plain ins) \/ V.input_type ins = Some V.ty_unknown.
Proof.
  induction ins as [|i r IH]; intros H; cbn [V.input_type existsb] in *; [left; split; [reflexivity|constructor]|].
  apply orb_false_iff in H. destruct H as [Hs Hr]. unfold PV.special in Hs.
  destruct (V.i_mint i) eqn:Em; [discriminate Hs|]. destruct (V.i_deposit i) eqn:Ed; [discriminate Hs|].
  destruct (V.i_genesis i) eqn:Eg; [right; reflexivity|].
  destruct (IH Hr) as [[A B]|A]; [left|right; exact A]. split; [exact A|]. constructor; [|exact B].
  unfold plain. auto.
Qed.

Lemma proj_plain : forall i, plain i -> proj_input i = F.IOrd (V.i_hash i) (Z.to_N (V.i_index i)).
Proof. intros i (A & B & C). unfold proj_input. rewrite A, B, C. reflexivity. Qed.

Lemma ord_inputs_plain : forall ins, Forall plain ins -> F.ord_inputs (map proj_input ins) = map slotN ins.
Proof.
  induction 1 as [|i r Hi Hr IH]; [reflexivity|]. cbn [map]. rewrite (proj_plain i Hi). cbn [F.ord_inputs].
  rewrite IH. reflexivity.
Qed.

Lemma type_of_inputs_plain : forall ins, Forall plain ins -> F.type_of_inputs (map proj_input ins) = None.
Proof.
  induction 1 as [|i r Hi Hr IH]; [reflexivity|]. cbn [map]. rewrite (proj_plain i Hi). cbn [F.type_of_inputs]. exact IH.
Qed.

Lemma nodup_map_inj {A B C} (f : A -> B) (g : A -> C) : forall l,
  (forall x y, In x l -> In y l -> g x = g y -> f x = f y) -> NoDup (map f l) -> NoDup (map g l).
Proof.
  induction l as [|x r IH]; intros Hinj Hnd; cbn [map] in *; [constructor|].
  inv Hnd. constructor.
  - intros Hin. apply in_map_iff in Hin. destruct Hin as (y & Hy & Hyin). apply H1.
    rewrite <- (Hinj y x (or_intror Hyin) (or_introl eq_refl) Hy). apply in_map. exact Hyin.
  - apply IH; auto. intros a b Ha Hb. apply Hinj; right; assumption.
Qed.

Section Link.
  Variables (s : F.state) (v : V.view).
  Hypothesis VO : view_of s v.

  Lemma backed_lookup : forall t i, PV.input_backed v t i ->
    0 <= V.i_index i /\ exists u', F.lookup F.eq2 (F.s_utxo s) (slotN i) = Some u' /\ F.u_asset u' = V.t_asset t.
  Proof.
    intros t i (u & Hu & Ha). destruct (vo_utxo s v VO _ _ _ Hu) as (H0 & u' & Hl & _ & Has & _).
    split; [exact H0|]. exists u'. split; [exact Hl|congruence].
  Qed.

  Lemma sum_utxos_amounts : forall ins a, PV.sum_utxos v ins = Some a ->
    PF.zsum (PF.amount_at (F.s_utxo s)) (map slotN ins) = a.
  Proof.
    induction ins as [|i r IH]; intros a H; cbn [PV.sum_utxos map] in *; [inv H; reflexivity|].
    destruct (V.v_utxo v (V.i_hash i) (V.i_index i)) as [u|] eqn:Eu; [|discriminate H].
    destruct (PV.sum_utxos v r) as [x|] eqn:Er; [|discriminate H]. inv H.
    rewrite PF.zsum_cons, (IH x eq_refl).
    destruct (vo_utxo s v VO _ _ _ Eu) as (_ & u' & Hl & Ham & _).
    unfold PF.amount_at, slotN. rewrite Hl, Ham. reflexivity.
  Qed.
End Link.

(* ---- outputs ----------------------------------------------------------------------------------------------- *)

Lemma sum_outputs_proj : forall outs, F.sum_outputs (map proj_output outs) = V.sum_map V.o_amount outs.
Proof.
  induction outs as [|o r IH]; [reflexivity|]. unfold F.sum_outputs, V.sum_map in *. cbn [map fold_right].
  rewrite IH. reflexivity.
Qed.

Lemma sum_submits_proj_zero : forall outs, Forall (fun o => V.o_type o <> V.ot_wsubmit) outs ->
  F.sum_submits (map proj_output outs) = 0.
Proof.
  induction 1 as [|o r Ho Hr IH]; [reflexivity|]. unfold F.sum_submits in *. cbn [map fold_right].
  change (F.o_type (proj_output o)) with (V.o_type o).
  destruct (Z.eqb_spec (V.o_type o) F.ot_submit) as [E|_]; [exfalso; apply Ho; rewrite E; reflexivity|exact IH].
Qed.

Lemma noslash_proj : forall outs, Forall (fun o => V.o_type o <> V.ot_cslash) outs ->
  forallb (fun o => negb (PF.is_slash o)) (map proj_output outs) = true.
Proof.
  induction 1 as [|o r Ho Hr IH]; [reflexivity|]. cbn [map forallb]. rewrite IH, andb_true_r.
  unfold PF.is_slash. change (F.o_type (proj_output o)) with (V.o_type o).
  destruct (Z.eqb_spec (V.o_type o) F.ot_slash) as [E|_]; [exfalso; apply Ho; rewrite E; reflexivity|reflexivity].
Qed.

Lemma kernel_none_tests : forall x, V.kernel_output_type x = None ->
  (x =? F.ot_submit) = false /\ (x =? F.ot_claim) = false /\ (x =? F.ot_pledge) = false /\
  (x =? F.ot_cancel) = false /\ (x =? F.ot_accept) = false /\ (x =? F.ot_remove) = false /\
  (x =? F.ot_custodian) = false /\ (x =? F.ot_slash) = false.
Proof.
  intros x H. unfold V.kernel_output_type in H.
  change V.ot_wsubmit with F.ot_submit in H. change V.ot_wclaim with F.ot_claim in H.
  change V.ot_pledge with F.ot_pledge in H. change V.ot_cancel with F.ot_cancel in H.
  change V.ot_accept with F.ot_accept in H. change V.ot_remove with F.ot_remove in H.
  change V.ot_cupdate with F.ot_custodian in H. change V.ot_cslash with F.ot_slash in H.
  destruct (x =? F.ot_submit); [discriminate H|]. destruct (x =? F.ot_claim); [discriminate H|].
  destruct (x =? F.ot_pledge); [discriminate H|]. destruct (x =? F.ot_cancel); [discriminate H|].
  destruct (x =? F.ot_accept); [discriminate H|]. destruct (x =? F.ot_remove); [discriminate H|].
  destruct (x =? F.ot_custodian); [discriminate H|]. destruct (x =? F.ot_slash); [discriminate H|].
  repeat split.
Qed.

Lemma kernel_submit_inv : forall x, V.kernel_output_type x = Some V.ty_wsubmit -> x = V.ot_wsubmit.
Proof.
  intros x H. unfold V.kernel_output_type in H.
  destruct (Z.eqb_spec x V.ot_wsubmit) as [E|_]; [exact E|].
  repeat match type of H with
  | (if ?c then _ else _) = _ => destruct c; [vm_compute in H; discriminate H|]
  end. discriminate H.
Qed.

(* a withdrawal-submit typed transaction is classified as such by the finalization model *)
Lemma type_submit_proj : forall outs b b', V.output_type outs b = V.ty_wsubmit ->
  F.type_of_outputs (map proj_output outs) b' = F.TySubmit.
Proof.
  induction outs as [|o r IH]; intros b b' H; cbn [V.output_type] in H.
  - destruct b; vm_compute in H; discriminate H.
  - cbn [map F.type_of_outputs]. change (F.o_type (proj_output o)) with (V.o_type o).
    destruct (V.kernel_output_type (V.o_type o)) as [ty|] eqn:Ek.
    + subst ty. apply kernel_submit_inv in Ek. rewrite Ek. reflexivity.
    + destruct (kernel_none_tests _ Ek) as (A1 & A2 & A3 & A4 & A5 & A6 & A7 & A8).
      rewrite A1, A2, A3, A4, A5, A6, A7, A8. cbn [orb]. eapply IH. exact H.
Qed.

(* ---- the link: an accepted transaction satisfies valid_tx --------------------------------------------------------- *)

(* C03's part, which validation cannot know: every output this transaction spends is locked by it *)
Definition locked_by (s : F.state) (t' : F.tx) : Prop :=
  forall k u', In k (F.ord_inputs (F.t_inputs t')) ->
    F.lookup F.eq2 (F.s_utxo s) k = Some u' -> F.u_lock u' = F.t_hash t'.

Theorem validate_valid_tx : forall s v f h ts fork t t',
  V.validate v f h ts fork t = Ok tt ->
  view_of s v -> related t h t' ->
  h <> 0%N ->            (* H_hash_nonzero *)
  locked_by s t' ->      (* H_locked_by_this (C03) *)
  PF.valid_tx s t'.
Proof.
  intros s v f h ts fork t t' Hval VO (Rh & Ra & Ri & Ro) Hnz Hlock.
  pose proof (accepted_output_shapes _ _ _ _ _ _ Hval) as Hshape.
  destruct (PV.conservation _ _ _ _ _ _ Hval) as (Hsum & Hpos & _ & Hback & Hnd).
  destruct (PV.validate_ok_inv _ _ _ _ _ _ Hval) as (flt & a & Hp & _ & _ & _ & _ & _).
  pose proof (PV.precheck_not_unknown _ _ Hp) as Hunk.
  assert (Hslash : Forall (fun o => V.o_type o <> V.ot_cslash) (V.t_outputs t))
    by (eapply Forall_impl; [|exact Hshape]; intros o [A _]; exact A).
  assert (Hnosub : V.tx_type t <> V.ty_wsubmit -> F.sum_submits (F.t_outputs t') = 0).
  { intros Hty. rewrite Ro. apply sum_submits_proj_zero. eapply Forall_impl; [|exact Hshape].
    intros o [_ B]. exact (B Hty). }
  assert (Hso : F.sum_outputs (F.t_outputs t') = PV.sum_outputs t) by (rewrite Ro; apply sum_outputs_proj).
  destruct (existsb PV.special (V.t_inputs t)) eqn:Hsp.
  - (* one mint or deposit input *)
    pose proof (PV.special_single _ _ _ _ _ _ Hval Hsp) as Hlen.
    destruct (V.t_inputs t) as [|i [|j r]] eqn:Ei; try (cbn in Hlen; lia).
    unfold PV.sum_inputs in Hsum. rewrite Ei, Hsp in Hsum. injection Hsum as H0.
    cbn [existsb] in Hsp. rewrite orb_false_r in Hsp.
    assert (Hins : F.t_inputs t' = [proj_input i]) by (rewrite Ri; reflexivity).
    assert (Hty : V.tx_type t <> V.ty_wsubmit).
    { unfold V.tx_type. rewrite Ei. cbn [V.input_type]. unfold PV.special in Hsp.
      destruct (V.i_mint i); [intros X; vm_compute in X; discriminate X|].
      destruct (V.i_deposit i); [intros X; vm_compute in X; discriminate X|discriminate Hsp]. }
    unfold PV.special in Hsp. unfold PV.special_amount in H0.
    constructor.
    + rewrite Rh. exact Hnz.
    + rewrite Hins. unfold proj_input.
      destruct (V.i_mint i); [constructor|]. destruct (V.i_deposit i); [constructor|discriminate Hsp].
    + rewrite Hins. unfold proj_input.
      destruct (V.i_mint i); [intros k []|]. destruct (V.i_deposit i); [intros k []|discriminate Hsp].
    + rewrite Ro. apply noslash_proj. exact Hslash.
    + rewrite Hins, Hso. unfold proj_input. destruct (V.i_mint i) as [m|].
      * right. right. left. exists (V.m_amount m). repeat split; auto.
      * destruct (V.i_deposit i) as [d|]; [|discriminate Hsp].
        right. left. exists (V.d_chain d), (V.be_N (V.d_key d)), (V.d_amount d). repeat split; auto.
  - (* ordinary inputs only *)
    destruct (input_type_nospecial _ Hsp) as [[Hnone Hplain]|Hu].
    2:{ exfalso. unfold V.tx_type in Hunk. rewrite Hu in Hunk. vm_compute in Hunk. discriminate Hunk. }
    assert (Hord : F.ord_inputs (F.t_inputs t') = map slotN (V.t_inputs t)) by (rewrite Ri; apply ord_inputs_plain; exact Hplain).
    assert (Hb : Forall (PV.input_backed v t) (V.t_inputs t)).
    { rewrite Forall_forall in *. intros i Hi. apply Hback; [exact Hi|].
      destruct (Hplain i Hi) as (A & B & _). unfold PV.special. rewrite A, B. reflexivity. }
    constructor.
    + rewrite Rh. exact Hnz.
    + rewrite Hord. apply (nodup_map_inj PV.in_slot slotN); [|apply Hnd; reflexivity].
      intros x y Hx Hy E. rewrite Forall_forall in Hb.
      destruct (backed_lookup s v VO t x (Hb x Hx)) as [Hx0 _].
      destruct (backed_lookup s v VO t y (Hb y Hy)) as [Hy0 _].
      unfold slotN, PV.in_slot in *. injection E as E1 E2. f_equal; [exact E1|lia].
    + intros k Hk. rewrite Hord in Hk. apply in_map_iff in Hk. destruct Hk as (i & <- & Hi).
      rewrite Forall_forall in Hb. destruct (backed_lookup s v VO t i (Hb i Hi)) as (_ & u' & Hl & Has).
      exists u'. split; [exact Hl|]. split; [congruence|].
      apply (Hlock (slotN i) u'); [|exact Hl]. rewrite Hord. apply in_map. exact Hi.
    + rewrite Ro. apply noslash_proj. exact Hslash.
    + left. split; [rewrite Ri; apply type_of_inputs_plain; exact Hplain|]. split.
      * rewrite Hord, Hso. unfold PV.sum_inputs in Hsum. rewrite Hsp in Hsum.
        apply (sum_utxos_amounts s v VO). exact Hsum.
      * intros Hty. apply Hnosub. intros Hs. apply Hty. unfold F.tx_type.
        rewrite Ri, (type_of_inputs_plain _ Hplain), Ro.
        unfold V.tx_type in Hs. rewrite Hnone in Hs. eapply type_submit_proj. exact Hs.
Qed.

(* ---- histories whose finalized transactions were accepted by the validation model ----------------------------------- *)

(* the transaction t' about to be finalized on s was accepted by the validation
   model against a view of s; plus the two facts validation cannot know *)
Definition accepted_member (s : F.state) (t' : F.tx) : Prop :=
  (exists v f ts fork t,
     view_of s v /\ related t (F.t_hash t') t' /\ V.validate v f (F.t_hash t') ts fork t = Ok tt)
  /\ F.t_hash t' <> 0%N        (* H_hash_nonzero *)
  /\ locked_by s t'.           (* H_locked_by_this (C03) *)

Lemma accepted_member_valid : forall s t', accepted_member s t' -> PF.valid_tx s t'.
Proof.
  intros s t' ((v & f & ts & fork & t & VO & R & Hv) & Hnz & Hl).
  eapply validate_valid_tx; eauto.
Qed.

Fixpoint vmembers_v (s : F.state) (sn : F.snapshot) (hs : list N) : Prop :=
  match hs with
  | [] => True
  | h :: r =>
      (forall t', F.lookup F.eq1 (F.s_txs s) h = Some t' -> F.finalized s h = false -> accepted_member s t')
      /\ (forall s1, F.finalize_member s sn h = Ok s1 -> vmembers_v s1 sn r)
  end.

Lemma vmembers_v_impl : forall hs s sn, vmembers_v s sn hs -> PF.vmembers s sn hs.
Proof.
  induction hs as [|h r IH]; intros s sn H; cbn [vmembers_v PF.vmembers] in *; [exact I|].
  destruct H as [H1 H2]. split.
  - intros t' Hb Hf. apply accepted_member_valid. exact (H1 t' Hb Hf).
  - intros s1 Hm. apply IH. exact (H2 s1 Hm).
Qed.

Section ValidatedHistory.
  Variable K : list F.tx.

  (* like PF.vop, but a snapshot's newly finalized members must have been ACCEPTED BY THE
     VALIDATION MODEL; genesis allocations (LoadGenesis never validates) keep valid_tx as a
     direct hypothesis (H_genesis_allocations, inside PF.vgen) *)
  Definition vop_v (s : F.state) (o : F.op) : Prop :=
    match o with
    | F.OpSnapshot sn _ => vmembers_v s sn (F.sn_txs sn)
    | _ => PF.vop K s o
    end.

  Inductive validated_history_v : F.state -> list F.op -> Prop :=
  | VHV_nil : forall s, validated_history_v s []
  | VHV_cons : forall s o r, vop_v s o -> validated_history_v (fst (F.step s o)) r ->
      validated_history_v s (o :: r).

  Lemma vop_v_impl : forall s o, vop_v s o -> PF.vop K s o.
  Proof.
    intros s o H. destruct o; cbn [vop_v PF.vop] in *; try exact H. apply vmembers_v_impl. exact H.
  Qed.

  Lemma validated_history_v_impl : forall s ops, validated_history_v s ops -> PF.validated_history K s ops.
  Proof.
    intros s ops H. induction H; constructor; [apply vop_v_impl; assumption|assumption].
  Qed.

  Theorem supply_of_validated :
    (forall t1 t2, In t1 K -> In t2 K -> F.t_hash t1 = F.t_hash t2 -> t1 = t2) ->
    forall ops, validated_history_v F.empty_state ops ->
    forall a, let s := F.run F.empty_state ops in
      F.total_of s a = F.supply_flow s a /\
      F.total_of s a = F.unconsumed_sum s a /\
      0 <= F.total_of s a <= F.capacity a.
  Proof.
    intros Kinj ops H a. apply (PF.supply_theorem K Kinj ops). apply validated_history_v_impl. exact H.
  Qed.
End ValidatedHistory.

(* ---- a canonical view of a state (non-vacuity of view_of) ---------------------------------------------------------------- *)

Definition conv_utxo (script : V.bytes) (u : F.utxo) : V.utxo :=
  {| V.u_type := F.u_type u; V.u_asset := F.u_asset u; V.u_amount := F.u_amount u;
     V.u_nkeys := V.len (F.u_keys u); V.u_script := script; V.u_lock := F.u_lock u |}.

(* reads of outputs come from the state; the other reads are parameters *)
Definition view_from (s : F.state) (script : V.bytes) (base : V.view) : V.view :=
  {| V.v_utxo := fun h i => if i <? 0 then None
                            else option_map (conv_utxo script) (F.lookup F.eq2 (F.s_utxo s) (h, Z.to_N i));
     V.v_tx := fun _ => None;
     V.v_deposit_lock := V.v_deposit_lock base; V.v_last_mint := V.v_last_mint base;
     V.v_nodes := V.v_nodes base; V.v_custodian := V.v_custodian base; V.v_asset := V.v_asset base;
     V.v_ghost_ok := V.v_ghost_ok base |}.

Lemma view_from_ok : forall s script base, view_of s (view_from s script base).
Proof.
  intros s script base. constructor.
  - intros h i u H. cbn in H. destruct (i <? 0) eqn:Ei; [discriminate H|]. split; [lia|].
    destruct (F.lookup F.eq2 (F.s_utxo s) (h, Z.to_N i)) as [u'|]; [|discriminate H]. cbn in H. inv H.
    exists u'. cbn. repeat split; reflexivity.
  - intros h st H. discriminate H.
Qed.
