(* Lemmas about Model/Threshold.v: what an accepted input authorization implies. *)
From Coq Require Import List ZArith NArith Bool Lia ZifyN ZifyNat ZifyBool.
Require Import Mixin.Base.Res Mixin.Gen.Consts Mixin.Model.Threshold.
Import ListNotations.
Open Scope Z_scope.

(* ---- specification vocabulary ------------------------------------------------ *)

(* prev < s1 < s2 < ...  ([increasing_from (-1)]: non-negative, strictly increasing) *)
Fixpoint increasing_from (prev : Z) (l : list Z) : Prop :=
  match l with
  | [] => True
  | s :: r => prev < s /\ increasing_from s r
  end.

(* how many signers fall in [lo, hi) *)
Definition count_in_window (signers : list Z) (lo hi : Z) : Z :=
  len (filter (fun s => (lo <=? s) && (s <? hi)) signers).

(* position of input i's first key in the concatenated key list *)
Definition offset_of (us : list utxo) (i : nat) : Z :=
  len (concat (map ukeys (firstn i us))).

Definition all_keys (us : list utxo) : list key := concat (map ukeys us).

(* ---- generic list helpers ------------------------------------------------------- *)

Lemma NoDup_app_inv : forall (A : Type) (a b : list A),
  NoDup (a ++ b) -> NoDup a /\ NoDup b /\ (forall x, In x a -> ~ In x b).
Proof.
  induction a as [|x a IH]; intros b H.
  - cbn in H. repeat split; [constructor | assumption | intros x [] ].
  - cbn in H. inversion H as [|? ? Hnin Hnd]; subst.
    destruct (IH b Hnd) as [Ha [Hb Hd]]. repeat split.
    + constructor; [|assumption]. intro Hin. apply Hnin. apply in_or_app. left. assumption.
    + assumption.
    + intros y [Hy|Hy] Hyb.
      * subst. apply Hnin. apply in_or_app. right. assumption.
      * exact (Hd y Hy Hyb).
Qed.

Lemma NoDup_nth_error_inj : forall (A : Type) (l : list A) i j x,
  NoDup l -> nth_error l i = Some x -> nth_error l j = Some x -> i = j.
Proof.
  intros A l i j x Hnd Hi Hj.
  apply (proj1 (NoDup_nth_error l) Hnd).
  - apply nth_error_Some. congruence.
  - congruence.
Qed.

Lemma len_app : forall (A : Type) (a b : list A), len (a ++ b) = len a + len b.
Proof. intros. unfold len. rewrite app_length. lia. Qed.

Lemma len_nonneg : forall (A : Type) (a : list A), 0 <= len a.
Proof. intros. unfold len. lia. Qed.

(* ---- scripts ----------------------------------------------------------------------- *)

Lemma script_validate_spec : forall s sum,
  script_validate s sum = true ->
  exists t, script_threshold s = Some t /\ 0 <= t <= Consts.ThrOperator64 /\ t <= sum /\
            s = [Z.to_N Consts.ThrOperatorCmp; Z.to_N Consts.ThrOperatorSum; Z.to_N t].
Proof.
  intros s sum H. unfold script_validate in H. apply andb_true_iff in H. destruct H as [Hf Hs].
  unfold script_threshold. rewrite Hf.
  destruct s as [|a [|b [|c [|d s']]]]; try discriminate.
  exists (Z.of_N c). unfold script_verify_format in Hf.
  apply andb_true_iff in Hf. destruct Hf as [Hf Hc]. apply andb_true_iff in Hf. destruct Hf as [Ha Hb].
  repeat split; try lia.
  f_equal; [lia|]. f_equal; [lia|]. f_equal. lia.
Qed.

Lemma script_validate_complete : forall s t sum,
  script_threshold s = Some t -> t <= sum -> script_validate s sum = true.
Proof.
  intros s t sum Ht Hs. unfold script_threshold in Ht. unfold script_validate.
  destruct (script_verify_format s) eqn:Hf; [|discriminate].
  destruct s as [|a [|b [|c [|d s']]]]; try discriminate.
  inversion Ht; subst. cbn [andb]. lia.
Qed.

(* ---- signer lists --------------------------------------------------------------------- *)

Lemma signers_ordered_increasing : forall l prev,
  signers_ordered prev l = true -> increasing_from prev l.
Proof.
  induction l as [|s r IH]; intros prev H; cbn in *; [exact I|].
  destruct ((s <=? prev) || (Consts.ThrMaximumEncodingInt <? s)) eqn:E; [discriminate|].
  split; [lia | apply IH; assumption].
Qed.

Lemma increasing_lower : forall l prev, increasing_from prev l -> Forall (fun s => prev < s) l.
Proof.
  induction l as [|s r IH]; intros prev H; [constructor|].
  destruct H as [H1 H2]. constructor; [assumption|].
  eapply Forall_impl; [|apply IH; exact H2]. cbn. intros; lia.
Qed.

Lemma count_none_above : forall l lo hi, Forall (fun s => hi <= s) l -> count_in_window l lo hi = 0.
Proof.
  intros l lo hi H. unfold count_in_window. induction H as [|s r Hs _ IH]; [reflexivity|].
  cbn [filter]. destruct ((lo <=? s) && (s <? hi)) eqn:E; [lia | exact IH].
Qed.

Lemma count_cons : forall s r lo hi,
  count_in_window (s :: r) lo hi =
  (if (lo <=? s) && (s <? hi) then 1 else 0) + count_in_window r lo hi.
Proof.
  intros. unfold count_in_window. cbn [filter].
  destruct ((lo <=? s) && (s <? hi)); [|lia]. unfold len. cbn [length]. lia.
Qed.

Lemma count_nonneg : forall l lo hi, 0 <= count_in_window l lo hi.
Proof. intros. unfold count_in_window. apply len_nonneg. Qed.

Section AuthProofs.
Variable S : Type.
Variable ver : N -> S -> bool.
Variable bat : list (N * S) -> bool.
Variable aggv : S -> list (Z * N) -> bool.

Definition ptrs (ks : keysigs S) : list N := map (fun e => kptr (fst e)) ks.

(* ---- the pointer-keyed map ------------------------------------------------------------- *)

Lemma ks_set_fresh : forall k v (m : keysigs S),
  ~ In (kptr k) (ptrs m) -> ks_set k v m = m ++ [(k, v)].
Proof.
  induction m as [|[k' v'] m IH]; intro H; cbn [ks_set app]; [reflexivity|].
  cbn in H. destruct (N.eqb_spec (kptr k') (kptr k)) as [E|E].
  - exfalso. apply H. left. assumption.
  - rewrite IH; [reflexivity|]. intro Hin. apply H. right. assumption.
Qed.

Lemma ks_set_length : forall k v (m : keysigs S),
  (length m <= length (ks_set k v m))%nat /\ (1 <= length (ks_set k v m))%nat.
Proof.
  induction m as [|[k' v'] m IH]; cbn [ks_set]; [cbn; lia|].
  destruct (kptr k' =? kptr k)%N; cbn [length]; lia.
Qed.

(* the same pointer reached twice overwrites: the earlier signature is gone *)
Lemma ks_set_overwrites : forall k k' v v' (m : keysigs S),
  kptr k = kptr k' -> ks_set k' v' (ks_set k v m) = ks_set k v' m.
Proof.
  intros k k' v v' m E. induction m as [|[k0 v0] m IH]; cbn [ks_set].
  - rewrite E, N.eqb_refl. reflexivity.
  - destruct (kptr k0 =? kptr k)%N eqn:E0; cbn [ks_set]; rewrite <- E, E0; [reflexivity|].
    rewrite IH. reflexivity.
Qed.

(* ---- signature maps ----------------------------------------------------------------------- *)

Definition ent_of (keys : list key) (e : N * option S) (x : key * option S) : Prop :=
  nth_error keys (N.to_nat (fst e)) = Some (fst x) /\ snd x = snd e.

Lemma map_collect_spec : forall (m : sigmap S) keys ks ks',
  NoDup (map fst m) -> NoDup (map kptr keys) ->
  (forall j sg k, In (j, sg) m -> nth_error keys (N.to_nat j) = Some k -> ~ In (kptr k) (ptrs ks)) ->
  map_collect m keys ks = Ok ks' ->
  exists ents, ks' = ks ++ ents /\ Forall2 (ent_of keys) m ents /\
               (forall j sg, In (j, sg) m -> Z.of_N j < len keys).
Proof.
  induction m as [|[i sg] m IH]; intros keys ks ks' Hm Hk Hfresh H; cbn [map_collect] in H.
  - inversion H; subst. exists []. rewrite app_nil_r. repeat split; [constructor | intros ? ? []].
  - destruct (len keys <=? Z.of_N i) eqn:Hi; [discriminate|].
    destruct (nth_error keys (N.to_nat i)) as [k|] eqn:Hn; [|discriminate].
    cbn [map] in Hm. inversion Hm as [|? ? Hnin Hm']; subst.
    rewrite ks_set_fresh in H by (eapply Hfresh; [left; reflexivity | exact Hn]).
    apply IH in H; [| assumption | assumption |].
    + destruct H as [ents [E [HF Hr]]]. exists ((k, sg) :: ents). repeat split.
      * rewrite E, <- app_assoc. reflexivity.
      * constructor; [|assumption]. split; [exact Hn | reflexivity].
      * intros j sg' [Hj|Hj]; [inversion Hj; subst; lia | eapply Hr; eassumption].
    + intros j sg' k' Hin Hn' Hp. unfold ptrs in Hp. rewrite map_app in Hp.
      apply in_app_or in Hp. destruct Hp as [Hp|Hp].
      * eapply Hfresh; [right; exact Hin | exact Hn' | exact Hp].
      * cbn in Hp. destruct Hp as [Hp|[]].
        assert (N.to_nat i = N.to_nat j).
        { eapply NoDup_nth_error_inj; [exact Hk | |].
          - rewrite nth_error_map, Hn. reflexivity.
          - rewrite nth_error_map, Hn'. cbn. rewrite Hp. reflexivity. }
        apply Hnin. replace i with j by lia. apply in_map_iff. exists (j, sg'). split; [reflexivity | assumption].
Qed.

Lemma ents_ptrs_incl : forall (m : sigmap S) keys ents,
  Forall2 (ent_of keys) m ents -> incl (ptrs ents) (map kptr keys).
Proof.
  intros m keys ents HF. induction HF as [|e x m ents [H1 H2] _ IH]; [intros ? []|].
  intros p [Hp|Hp]; [|apply IH; assumption].
  subst p. apply in_map. eapply nth_error_In. exact H1.
Qed.

(* ---- the loop of validateInputs, signature maps ------------------------------------------- *)

Definition map_facts (sigs : list (sigmap S)) (ents : keysigs S) (i : nat) (u : utxo) : Prop :=
  exists m, nth_error sigs i = Some m /\ script_validate (uscript u) (len m) = true /\
            (forall j sg, In (j, sg) m -> Z.of_N j < len (ukeys u)) /\
            (forall j sg, In (j, sg) m -> exists k, nth_error (ukeys u) (N.to_nat j) = Some k /\ In (k, sg) ents).

Lemma vi_loop_map : forall us i (sigs : list (sigmap S)) txType hash fork ks allKeys ksf akf P,
  Forall (fun m => NoDup (map fst m)) sigs ->
  incl (ptrs ks) P -> NoDup (P ++ map kptr (all_keys us)) ->
  vi_loop i us sigs None txType hash fork ks allKeys = Ok (ksf, akf) ->
  exists ents, ksf = ks ++ ents /\
    forall n u, nth_error us n = Some u -> is_script_type (utype u) = true ->
                map_facts sigs ents (i + n) u.
Proof.
  induction us as [|u us IH]; intros i sigs txType hash fork ks allKeys ksf akf P Hwf Hincl Hnd H; cbn [vi_loop] in H.
  - inversion H; subst. exists []. rewrite app_nil_r. split; [reflexivity|].
    intros n u Hn. destruct n; discriminate.
  - unfold all_keys in Hnd. cbn [map concat] in Hnd. rewrite map_app in Hnd.
    destruct (lock_blocks u hash fork); [discriminate|].
    destruct (validate_utxo i u sigs None txType ks (len allKeys)) as [ks1| |] eqn:Hv; cbn [bind] in H;
      [|discriminate|discriminate].
    assert (Hstep : exists ents1, ks1 = ks ++ ents1 /\ incl (ptrs ents1) (map kptr (ukeys u)) /\
              (is_script_type (utype u) = true -> map_facts sigs ents1 i u)).
    { unfold validate_utxo in Hv. destruct (is_script_type (utype u)) eqn:Ht.
      - destruct (nth_error sigs i) as [m|] eqn:Hm; [|discriminate].
        destruct (map_collect m (ukeys u) ks) as [ks2| |] eqn:Hc; cbn [bind] in Hv; [|discriminate|discriminate].
        destruct (script_validate (uscript u) (len m)) eqn:Hsv; [|discriminate].
        inversion Hv; subst ks2.
        apply NoDup_app_inv in Hnd. destruct Hnd as [_ [Hnd2 Hdisj]].
        apply NoDup_app_inv in Hnd2. destruct Hnd2 as [Hndu _].
        apply map_collect_spec in Hc.
        + destruct Hc as [ents1 [E [HF Hr]]]. exists ents1. split; [exact E|]. split.
          * eapply ents_ptrs_incl. exact HF.
          * intros _. exists m. repeat split; [exact Hm | exact Hsv | exact Hr |].
            intros j sg Hin. clear - HF Hin.
            induction HF as [|e x m ents [H1 H2] _ IHF]; [destruct Hin|].
            destruct Hin as [Hin|Hin].
            -- subst e. cbn in H1, H2. exists (fst x). split; [exact H1|]. left. destruct x; cbn in *; subst; reflexivity.
            -- destruct (IHF Hin) as [k [Hk Hi]]. exists k. split; [exact Hk | right; exact Hi].
        + rewrite Forall_forall in Hwf. apply Hwf. eapply nth_error_In. exact Hm.
        + exact Hndu.
        + intros j sg k _ Hn Hp. apply (Hdisj (kptr k)).
          * apply Hincl. exact Hp.
          * apply in_or_app. left. apply in_map. eapply nth_error_In. exact Hn.
      - exists []. rewrite app_nil_r. split; [|split; [intros ? [] | discriminate]].
        destruct (utype u =? Consts.ThrOutputTypeNodePledge).
        + destruct ((txType =? Consts.ThrTransactionTypeNodeAccept) || (txType =? Consts.ThrTransactionTypeNodeCancel));
            inversion Hv; reflexivity.
        + destruct (utype u =? Consts.ThrOutputTypeNodeAccept); [|discriminate].
          destruct (txType =? Consts.ThrTransactionTypeNodeRemove); inversion Hv; reflexivity. }
    destruct Hstep as [ents1 [E1 [Hi1 Hf1]]].
    apply IH with (P := P ++ map kptr (ukeys u)) in H; [| assumption | |].
    + destruct H as [ents2 [E2 Hf2]]. exists (ents1 ++ ents2). split.
      * rewrite E2, E1, <- app_assoc. reflexivity.
      * intros n u' Hn Hs. destruct n as [|n].
        -- cbn in Hn. inversion Hn; subst u'. rewrite Nat.add_0_r.
           destruct (Hf1 Hs) as [m [Hm [Hsv [Hr Hin]]]]. exists m. repeat split; try assumption.
           intros j sg Hj. destruct (Hin j sg Hj) as [k [Hk Hi]]. exists k. split; [assumption|].
           apply in_or_app. left. assumption.
        -- cbn in Hn. specialize (Hf2 n u' Hn Hs). replace (i + Datatypes.S n)%nat with (Datatypes.S i + n)%nat by lia.
           destruct Hf2 as [m [Hm [Hsv [Hr Hin]]]]. exists m. repeat split; try assumption.
           intros j sg Hj. destruct (Hin j sg Hj) as [k [Hk Hi]]. exists k. split; [assumption|].
           apply in_or_app. right. assumption.
    + rewrite E1. unfold ptrs. rewrite map_app. intros p Hp. apply in_app_or in Hp.
      apply in_or_app. destruct Hp as [Hp|Hp]; [left; apply Hincl; exact Hp | right; apply Hi1; exact Hp].
    + rewrite <- app_assoc. exact Hnd.
Qed.

(* ---- BatchVerify control flow ------------------------------------------------------------------ *)

Lemma strip_in : forall (es : list (N * option S)) l k os,
  strip es = Some l -> In (k, os) es -> exists s, os = Some s /\ In (k, s) l.
Proof.
  induction es as [|[k0 [s0|]] es IH]; intros l k os H Hin; cbn [strip] in H; [destruct Hin| |discriminate].
  destruct (strip es) as [l'|] eqn:E; [|discriminate]. inversion H; subst l.
  destruct Hin as [Hin|Hin].
  - inversion Hin; subst. exists s0. split; [reflexivity | left; reflexivity].
  - destruct (IH l' k os eq_refl Hin) as [s [Hs Hi]]. exists s. split; [assumption | right; assumption].
Qed.

Lemma batch_verify_each : forall es,
  (forall E, bat E = true -> forall k s, In (k, s) E -> ver k s = true) ->
  batch_verify ver bat es = true ->
  forall k os, In (k, os) es -> exists s, os = Some s /\ ver k s = true.
Proof.
  intros es Hsound H k os Hin. unfold batch_verify in H.
  destruct (strip es) as [l|] eqn:E; [|discriminate].
  destruct (strip_in es l k os E Hin) as [s [Hs Hi]]. exists s. split; [assumption|].
  destruct l as [|[k1 s1] [|e2 l']]; [destruct Hi | |].
  - destruct Hi as [Hi|[]]. inversion Hi; subst. assumption.
  - eapply Hsound; eassumption.
Qed.

Lemma in_ks_entries : forall (ks : keysigs S) k sg, In (k, sg) ks -> In (kval k, sg) (ks_entries ks).
Proof.
  intros ks k sg H. unfold ks_entries. apply in_map_iff. exists (k, sg). split; [reflexivity | assumption].
Qed.

(* ---- accepted with signature maps ---------------------------------------------------------------- *)

Definition map_input_ok (sound : Prop) (sigs : list (sigmap S)) (i : nat) (u : utxo) : Prop :=
  exists m t,
    nth_error sigs i = Some m /\ script_threshold (uscript u) = Some t /\
    0 <= t <= Consts.ThrOperator64 /\
    (forall j os, In (j, os) m -> Z.of_N j < len (ukeys u)) /\
    NoDup (map fst m) /\
    t <= len m /\
    (0 < t -> sound ->
       forall j os, In (j, os) m ->
         exists k s, nth_error (ukeys u) (N.to_nat j) = Some k /\ os = Some s /\ ver (kval k) s = true).

Definition bat_sound : Prop :=
  forall E, bat E = true -> forall k s, In (k, s) E -> ver k s = true.

Lemma threshold_map : forall us (sigs : list (sigmap S)) txType hash fork,
  NoDup (map kptr (all_keys us)) ->
  Forall (fun m => NoDup (map fst m)) sigs ->
  validate_inputs ver bat aggv us sigs None txType hash fork = Ok tt ->
  forall i u, nth_error us i = Some u -> is_script_type (utype u) = true ->
    map_input_ok bat_sound sigs i u.
Proof.
  intros us sigs txType hash fork Hnd Hwf H i u Hu Hs. unfold validate_inputs in H.
  cbn [option_map] in H.
  destruct (vi_loop 0 us sigs None txType hash fork [] []) as [[ksf akf]| |] eqn:Hl; cbn [bind] in H; [|discriminate|discriminate].
  apply vi_loop_map with (P := []) in Hl; [| assumption | intros ? [] | exact Hnd].
  destruct Hl as [ents [E Hf]]. cbn [app] in E. subst ksf.
  destruct (Hf i u Hu Hs) as [m [Hm [Hsv [Hr Hin]]]]. cbn [Nat.add] in Hm.
  destruct (script_validate_spec _ _ Hsv) as [t [Ht [Hb [Hle _]]]].
  exists m, t. repeat split; try assumption; try lia.
  - rewrite Forall_forall in Hwf. apply Hwf. eapply nth_error_In. exact Hm.
  - intros Hpos Hsound j os Hj.
    assert (Hne : ents <> []).
    { destruct m as [|e m']; [unfold len in Hle; cbn in Hle; lia|].
      destruct e as [j0 s0]. destruct (Hin j0 s0 (or_introl eq_refl)) as [k0 [_ Hi0]].
      intro; subst; destruct Hi0. }
    destruct (Nat.eqb (length ents) 0) eqn:E0; [destruct ents; [congruence | discriminate]|].
    cbn [andb] in H.
    destruct (Nat.ltb (length ents) (length us)); [discriminate|].
    destruct (batch_verify ver bat (ks_entries ents)) eqn:Hb'; [|discriminate].
    destruct (Hin j os Hj) as [k [Hk Hi]]. apply in_ks_entries in Hi.
    destruct (batch_verify_each _ Hsound Hb' _ _ Hi) as [s [Hos Hv]].
    exists k, s. repeat split; assumption.
Qed.

(* the precise call: what is handed to BatchVerify is exactly the collected
   entries, every map entry of every script input among them *)
Lemma threshold_map_batch_call : forall us (sigs : list (sigmap S)) txType hash fork,
  NoDup (map kptr (all_keys us)) ->
  Forall (fun m => NoDup (map fst m)) sigs ->
  validate_inputs ver bat aggv us sigs None txType hash fork = Ok tt ->
  exists ents : keysigs S,
    (forall i u m j os, nth_error us i = Some u -> is_script_type (utype u) = true ->
       nth_error sigs i = Some m -> In (j, os) m ->
       exists k, nth_error (ukeys u) (N.to_nat j) = Some k /\ In (kval k, os) (ks_entries ents)) /\
    (ents <> [] -> (length us <= length ents)%nat /\ batch_verify ver bat (ks_entries ents) = true).
Proof.
  intros us sigs txType hash fork Hnd Hwf H. unfold validate_inputs in H. cbn [option_map] in H.
  destruct (vi_loop 0 us sigs None txType hash fork [] []) as [[ksf akf]| |] eqn:Hl; cbn [bind] in H; [|discriminate|discriminate].
  apply vi_loop_map with (P := []) in Hl; [| assumption | intros ? [] | exact Hnd].
  destruct Hl as [ents [E Hf]]. cbn [app] in E. subst ksf. exists ents. split.
  - intros i u m j os Hu Hs Hm Hj. destruct (Hf i u Hu Hs) as [m' [Hm' [_ [_ Hin]]]].
    cbn [Nat.add] in Hm'. rewrite Hm in Hm'. inversion Hm'; subst m'.
    destruct (Hin j os Hj) as [k [Hk Hi]]. exists k. split; [assumption | apply in_ks_entries; assumption].
  - intro Hne. destruct (Nat.eqb (length ents) 0) eqn:E0; [destruct ents; [congruence | discriminate]|].
    cbn [andb] in H.
    destruct (Nat.ltb (length ents) (length us)) eqn:El; [discriminate|].
    destruct (batch_verify ver bat (ks_entries ents)) eqn:Hb'; [|discriminate].
    split; [apply Nat.ltb_ge in El; exact El | reflexivity].
Qed.

(* ---- the loop of validateInputs, aggregate signature ---------------------------------------------- *)

Lemma agg_window_spec : forall signers offset limit keys (ks : keysigs S) cnt ks' cnt' prev,
  increasing_from prev signers ->
  agg_window signers offset limit keys ks cnt = Ok (ks', cnt') ->
  cnt' = cnt + count_in_window signers offset limit /\
  (length ks <= length ks')%nat /\ (cnt < cnt' -> (1 <= length ks')%nat).
Proof.
  induction signers as [|m rest IH]; intros offset limit keys ks cnt ks' cnt' prev Hinc H; cbn [agg_window] in H.
  - inversion H; subst. unfold count_in_window. cbn. unfold len. cbn. repeat split; lia.
  - destruct Hinc as [Hp Hinc]. rewrite count_cons.
    destruct (m >=? limit) eqn:E1.
    + inversion H; subst.
      rewrite count_none_above.
      * destruct ((offset <=? m) && (m <? limit)) eqn:E2; [lia|]. repeat split; lia.
      * eapply Forall_impl; [|apply increasing_lower; exact Hinc]. cbn. intros; lia.
    + destruct (m <? offset) eqn:E2.
      * apply IH with (prev := m) in H; [|assumption].
        destruct ((offset <=? m) && (m <? limit)) eqn:E3; [lia|]. exact H.
      * destruct (nth_error keys (Z.to_nat (m - offset))) as [k|]; [|discriminate].
        apply IH with (prev := m) in H; [|assumption].
        destruct H as [Hc [Hl Hn]].
        pose proof (ks_set_length k None ks) as [L1 L2].
        pose proof (count_nonneg rest offset limit).
        destruct ((offset <=? m) && (m <? limit)) eqn:E3; [|lia].
        repeat split; lia.
Qed.

Definition agg_facts (signers : list Z) (base : Z) (us : list utxo) (n : nat) (u : utxo) : Prop :=
  validate_aggregated_signers signers = true /\
  let off := base + offset_of us n in
  script_validate (uscript u) (count_in_window signers off (off + len (ukeys u))) = true.

Lemma offset_of_S : forall u us n, offset_of (u :: us) (Datatypes.S n) = len (ukeys u) + offset_of us n.
Proof. intros. unfold offset_of. cbn [firstn map concat]. apply len_app. Qed.

Lemma vi_loop_agg : forall us i (sigs : list (sigmap S)) signers txType hash fork ks allKeys ksf akf,
  vi_loop i us sigs (Some signers) txType hash fork ks allKeys = Ok (ksf, akf) ->
  akf = allKeys ++ all_keys us /\ (length ks <= length ksf)%nat /\
  forall n u, nth_error us n = Some u -> is_script_type (utype u) = true ->
    agg_facts signers (len allKeys) us n u /\
    (0 < count_in_window signers (len allKeys + offset_of us n) (len allKeys + offset_of us n + len (ukeys u)) ->
     (1 <= length ksf)%nat).
Proof.
  induction us as [|u us IH]; intros i sigs signers txType hash fork ks allKeys ksf akf H; cbn [vi_loop] in H.
  - inversion H; subst. unfold all_keys. cbn [map concat]. rewrite app_nil_r.
    split; [reflexivity|]. split; [lia|].
    intros n u Hn. destruct n; discriminate.
  - destruct (lock_blocks u hash fork); [discriminate|].
    destruct (validate_utxo i u sigs (Some signers) txType ks (len allKeys)) as [ks1| |] eqn:Hv; cbn [bind] in H;
      [|discriminate|discriminate].
    apply IH in H. destruct H as [Ea [Hl Hf]].
    assert (Hstep : (length ks <= length ks1)%nat /\
              (is_script_type (utype u) = true ->
                 validate_aggregated_signers signers = true /\
                 script_validate (uscript u) (count_in_window signers (len allKeys) (len allKeys + len (ukeys u))) = true /\
                 (0 < count_in_window signers (len allKeys) (len allKeys + len (ukeys u)) -> (1 <= length ks1)%nat))).
    { unfold validate_utxo in Hv. destruct (is_script_type (utype u)) eqn:Ht.
      - destruct (validate_aggregated_signers signers) eqn:Hs; cbn [negb] in Hv; [|discriminate].
        destruct (agg_window signers (len allKeys) (len allKeys + len (ukeys u)) (ukeys u) ks 0) as [[ks2 cnt]| |] eqn:Hw;
          cbn [bind] in Hv; [|discriminate|discriminate].
        destruct (script_validate (uscript u) cnt) eqn:Hsv; [|discriminate]. inversion Hv; subst ks2.
        assert (Hinc : increasing_from (-1) signers).
        { unfold validate_aggregated_signers in Hs. apply andb_true_iff in Hs. destruct Hs as [_ Hs2].
          apply signers_ordered_increasing; assumption. }
        apply agg_window_spec with (prev := -1) in Hw; [|exact Hinc].
        destruct Hw as [Hc [Hl1 Hn1]]. split; [assumption|]. intros _. cbn [Z.add] in Hc. subst cnt.
        split; [reflexivity|]. split; [assumption|].
        intro Hpos. apply Hn1. lia.
      - split; [|discriminate].
        destruct (utype u =? Consts.ThrOutputTypeNodePledge).
        + destruct ((txType =? Consts.ThrTransactionTypeNodeAccept) || (txType =? Consts.ThrTransactionTypeNodeCancel));
            inversion Hv; lia.
        + destruct (utype u =? Consts.ThrOutputTypeNodeAccept); [|discriminate].
          destruct (txType =? Consts.ThrTransactionTypeNodeRemove); inversion Hv; lia. }
    destruct Hstep as [Hl0 Hs0].
    split; [rewrite Ea; unfold all_keys; cbn [map concat]; rewrite app_assoc; reflexivity|].
    split; [lia|].
    intros n u0 Hn Hs. unfold agg_facts. destruct n as [|n]; cbn [nth_error] in Hn.
    + inversion Hn; subst u0. destruct (Hs0 Hs) as [Hva [Hsv Hne]].
      assert (Hoff : offset_of (u :: us) 0 = 0) by reflexivity.
      rewrite Hoff, !Z.add_0_r.
      split; [split; [exact Hva | exact Hsv]|].
      intro Hpos. specialize (Hne Hpos). lia.
    + destruct (Hf n u0 Hn Hs) as [[Hva Hsv] Hne]. cbn zeta in Hsv.
      rewrite len_app in Hsv, Hne. rewrite offset_of_S.
      replace (len allKeys + (len (ukeys u) + offset_of us n)) with (len allKeys + len (ukeys u) + offset_of us n) by lia.
      split; [split; [exact Hva | exact Hsv] | exact Hne].
Qed.

(* ---- AggregateVerify control flow ------------------------------------------------------------------- *)

Lemma collect_signers_spec : forall signers prev publics sel,
  collect_signers prev signers publics = Some sel ->
  map fst sel = signers /\ increasing_from prev signers /\
  Forall (fun s => s < len publics) signers /\
  Forall (fun e => nth_error publics (Z.to_nat (fst e)) = Some (snd e)) sel.
Proof.
  induction signers as [|i rest IH]; intros prev publics sel H; cbn [collect_signers] in H.
  - inversion H; subst. repeat split; constructor.
  - destruct (i <=? prev) eqn:E1; [discriminate|].
    destruct (len publics <=? i) eqn:E2; [discriminate|].
    destruct (nth_error publics (Z.to_nat i)) as [p|] eqn:Hn; [|discriminate].
    destruct (collect_signers i rest publics) as [sel'|] eqn:Hc; [|discriminate].
    inversion H; subst sel. destruct (IH _ _ _ Hc) as [Hm [Hi [Hr Hs]]].
    cbn [map fst]. repeat split.
    + rewrite Hm. reflexivity.
    + lia.
    + assumption.
    + constructor; [lia | assumption].
    + constructor; [exact Hn | assumption].
Qed.

Definition agg_input_ok (sg : S) (signers : list Z) (us : list utxo) (i : nat) (u : utxo) : Prop :=
  exists t,
    script_threshold (uscript u) = Some t /\ 0 <= t <= Consts.ThrOperator64 /\
    increasing_from (-1) signers /\
    t <= count_in_window signers (offset_of us i) (offset_of us i + len (ukeys u)) /\
    (0 < t ->
       Forall (fun s => 0 <= s < len (all_keys us)) signers /\
       exists sel, aggv sg sel = true /\ map fst sel = signers /\
                   Forall (fun e => nth_error (map kval (all_keys us)) (Z.to_nat (fst e)) = Some (snd e)) sel).

Lemma threshold_aggregate : forall us (sigs : list (sigmap S)) sg signers txType hash fork,
  validate_inputs ver bat aggv us sigs (Some (sg, signers)) txType hash fork = Ok tt ->
  forall i u, nth_error us i = Some u -> is_script_type (utype u) = true ->
    agg_input_ok sg signers us i u.
Proof.
  intros us sigs sg signers txType hash fork H i u Hu Hs. unfold validate_inputs in H. cbn [option_map snd] in H.
  destruct (vi_loop 0 us sigs (Some signers) txType hash fork [] []) as [[ksf akf]| |] eqn:Hl; cbn [bind] in H; [|discriminate|discriminate].
  apply vi_loop_agg in Hl. destruct Hl as [Ea [_ Hf]]. cbn [app] in Ea. subst akf.
  destruct (Hf i u Hu Hs) as [[Hva Hsv] Hne]. cbn zeta in Hsv.
  change (len (@nil key)) with 0 in Hsv, Hne. rewrite !Z.add_0_l in Hsv, Hne.
  destruct (script_validate_spec _ _ Hsv) as [t [Ht [Hb [Hle _]]]].
  unfold validate_aggregated_signers in Hva. apply andb_true_iff in Hva. destruct Hva as [_ Hord].
  apply signers_ordered_increasing in Hord.
  exists t. repeat split; try assumption; try lia.
  - assert (Hk : (1 <= length ksf)%nat) by (apply Hne; lia).
    destruct (Nat.eqb (length ksf) 0) eqn:E0; [apply Nat.eqb_eq in E0; lia|]. cbn [andb] in H.
    destruct (Nat.ltb (length ksf) (length us)); [discriminate|].
    destruct (aggregate_verify aggv sg (map kval (all_keys us)) signers) eqn:Hav; [|discriminate].
    unfold aggregate_verify in Hav. destruct signers as [|s0 srest] eqn:Es; [discriminate|]. rewrite <- Es in *.
    destruct (collect_signers (-1) signers (map kval (all_keys us))) as [sel|] eqn:Hc; [|discriminate].
    destruct (collect_signers_spec _ _ _ _ Hc) as [Hm [Hi [Hr Hsel]]].
    pose proof (increasing_lower _ _ Hi) as Hlow.
    rewrite Forall_forall in *. intros s Hin. specialize (Hr s Hin). specialize (Hlow s Hin).
    unfold len in Hr. rewrite map_length in Hr. unfold len. lia.
  - assert (Hk : (1 <= length ksf)%nat) by (apply Hne; lia).
    destruct (Nat.eqb (length ksf) 0) eqn:E0; [apply Nat.eqb_eq in E0; lia|]. cbn [andb] in H.
    destruct (Nat.ltb (length ksf) (length us)); [discriminate|].
    destruct (aggregate_verify aggv sg (map kval (all_keys us)) signers) eqn:Hav; [|discriminate].
    unfold aggregate_verify in Hav. destruct signers as [|s0 srest] eqn:Es; [discriminate|]. rewrite <- Es in *.
    destruct (collect_signers (-1) signers (map kval (all_keys us))) as [sel|] eqn:Hc; [|discriminate].
    destruct (collect_signers_spec _ _ _ _ Hc) as [Hm [Hi [Hr Hsel]]].
    exists sel. repeat split; assumption.
Qed.

(* ---- the lock state ------------------------------------------------------------------------------- *)

Lemma vi_loop_locks : forall us i (sigs : list (sigmap S)) ag txType hash fork ks allKeys r,
  vi_loop i us sigs ag txType hash fork ks allKeys = Ok r ->
  Forall (fun u => lock_blocks u hash fork = false) us.
Proof.
  induction us as [|u us IH]; intros i sigs ag txType hash fork ks allKeys r H; [constructor|].
  cbn [vi_loop] in H. destruct (lock_blocks u hash fork) eqn:E; [discriminate|].
  destruct (validate_utxo i u sigs ag txType ks (len allKeys)) as [ks1| |]; cbn [bind] in H; try discriminate.
  constructor; [exact E | eapply IH; exact H].
Qed.

Lemma accepted_not_blocked : forall us (sigs : list (sigmap S)) ag txType hash fork,
  validate_inputs ver bat aggv us sigs ag txType hash fork = Ok tt ->
  Forall (fun u => lock_blocks u hash fork = false) us.
Proof.
  intros us sigs ag txType hash fork H. unfold validate_inputs in H.
  destruct (vi_loop 0 us sigs (option_map snd ag) txType hash fork [] []) as [r| |] eqn:Hl; [|discriminate|discriminate].
  eapply vi_loop_locks. exact Hl.
Qed.

(* the decision depends on the lock state only through [lock_blocks]: when no input is
   blocked, the result is the one for the same UTXOs with every lock cleared *)
Definition unlocked (u : utxo) : utxo := mkUtxo (utype u) (ukeys u) (uscript u) 0.

Lemma validate_utxo_unlocked : forall i u (sigs : list (sigmap S)) ag txType ks off,
  validate_utxo i (unlocked u) sigs ag txType ks off = validate_utxo i u sigs ag txType ks off.
Proof. intros. reflexivity. Qed.

Lemma vi_loop_lock_irrelevant : forall us i (sigs : list (sigmap S)) ag txType hash fork ks allKeys,
  Forall (fun u => lock_blocks u hash fork = false) us ->
  vi_loop i us sigs ag txType hash fork ks allKeys =
  vi_loop i (map unlocked us) sigs ag txType hash fork ks allKeys.
Proof.
  induction us as [|u us IH]; intros i sigs ag txType hash fork ks allKeys HF; [reflexivity|].
  inversion HF as [|? ? Hu HF']; subst. cbn [map vi_loop]. rewrite Hu.
  assert (Hz : lock_blocks (unlocked u) hash fork = false) by reflexivity. rewrite Hz.
  rewrite validate_utxo_unlocked.
  destruct (validate_utxo i u sigs ag txType ks (len allKeys)) as [ks1| |]; cbn [bind]; try reflexivity.
  change (ukeys (unlocked u)) with (ukeys u). apply IH. exact HF'.
Qed.

Lemma lock_state_irrelevant : forall us (sigs : list (sigmap S)) ag txType hash fork,
  Forall (fun u => lock_blocks u hash fork = false) us ->
  validate_inputs ver bat aggv us sigs ag txType hash fork =
  validate_inputs ver bat aggv (map unlocked us) sigs ag txType hash fork.
Proof.
  intros us sigs ag txType hash fork HF. unfold validate_inputs.
  rewrite (vi_loop_lock_irrelevant us 0 sigs (option_map snd ag) txType hash fork [] [] HF).
  rewrite map_length. reflexivity.
Qed.

(* ---- windows partition the signer list ---------------------------------------------------------------- *)

Lemma count_split : forall l lo mid hi, lo <= mid <= hi ->
  count_in_window l lo hi = count_in_window l lo mid + count_in_window l mid hi.
Proof.
  intros l lo mid hi Hm. induction l as [|s r IH]; [reflexivity|].
  rewrite !count_cons, IH.
  destruct ((lo <=? s) && (s <? hi)) eqn:E1; destruct ((lo <=? s) && (s <? mid)) eqn:E2;
    destruct ((mid <=? s) && (s <? hi)) eqn:E3; lia.
Qed.

End AuthProofs.
