(* Lemmas about Model/NodeState.v: the lifecycle invariant of the durable
   membership history under strictly increasing operation timestamps. *)
From Coq Require Import List ZArith NArith Bool Lia Permutation Setoid.
Require Import Mixin.Base.Res Mixin.Gen.Consts Mixin.Model.NodeState.
Import ListNotations.
Open Scope N_scope.

(* ---- specification vocabulary --------------------------------------------- *)

(* the records of one signer key, in history order *)
Definition recs_of (s : N) (h : list nrec) : list nrec :=
  filter (fun r => n_signer r =? s) h.

(* the state sequences a single node can go through *)
Inductive lifecycle : list nstate -> Prop :=
| lc_p : lifecycle [Pledging]
| lc_pa : lifecycle [Pledging; Accepted]
| lc_pc : lifecycle [Pledging; Cancelled]
| lc_par : lifecycle [Pledging; Accepted; Removed]
| lc_a : lifecycle [Accepted]                  (* a genesis node *)
| lc_ar : lifecycle [Accepted; Removed].

(* the records of signer s are one node: one lifecycle, one payee *)
Definition node_ok (h : list nrec) (s : N) : Prop :=
  recs_of s h = [] \/
  (lifecycle (map n_state (recs_of s h)) /\ exists p, Forall (fun r => n_payee r = p) (recs_of s h)).

Definition is_pledging (h : list nrec) (s : N) : Prop :=
  exists r, current h s = Some r /\ n_state r = Pledging.

(* when the property allows an operation to be recorded *)
Definition guard (h : list nrec) (o : op) : Prop :=
  match o_kind o with
  | OPledge =>
      (forall s, ~ is_pledging h s) /\ recs_of (o_signer o) h = [] /\
      (forall s r, current h s = Some r -> n_tx r <> o_tx o)
  | OAccept | OCancel =>
      exists r, current h (o_signer o) = Some r /\ n_state r = Pledging /\ n_payee r = o_payee o
  | ORemove =>
      (forall s, ~ is_pledging h s) /\
      exists r, current h (o_signer o) = Some r /\ n_state r = Accepted /\ n_payee r = o_payee o
  end.

Record Inv (h : list nrec) : Prop := mk_Inv {
  inv_order : order_ok h = true;
  inv_pos : Forall (fun r => 1 <= n_ts r) h;
  inv_nodes : forall s, node_ok h s;
  inv_pledging_last : forall s r, current h s = Some r -> n_state r = Pledging -> last_opt h = Some r
}.

Definition max_period : N := N.max pledge_period accept_period.

(* the schedule precondition: after the genesis nodes every operation carries a
   timestamp above all earlier ones (and below 2^64 - 12 h) *)
Fixpoint increasing_from (t : N) (ops : list op) : Prop :=
  match ops with
  | [] => True
  | o :: r => o_genesis o = false /\ t < o_ts o /\ o_ts o + max_period < two64 /\ increasing_from (o_ts o) r
  end.

Definition genesis_op (t0 : N) (o : op) : Prop :=
  o_kind o = OAccept /\ o_genesis o = true /\ 1 <= o_ts o /\ o_ts o <= t0.

Definition genesis_ok (t0 : N) (gs : list op) : Prop :=
  Forall (genesis_op t0) gs /\ NoDup (map o_signer gs).

(* ---- lists ------------------------------------------------------------------- *)

Lemma last_opt_app {A} (l : list A) (a : A) : last_opt (l ++ [a]) = Some a.
Proof. induction l as [|x l IH]; cbn; [reflexivity|]. rewrite IH. reflexivity. Qed.

Lemma last_opt_none {A} (l : list A) : last_opt l = None -> l = [].
Proof. destruct l as [|x l]; [reflexivity|]. cbn. destruct (last_opt l); discriminate. Qed.

Lemma last_opt_split {A} (l : list A) (a : A) : last_opt l = Some a -> exists l', l = l' ++ [a].
Proof.
  induction l as [|x l IH]; cbn; [discriminate|].
  destruct (last_opt l) as [y|] eqn:E; intros H; inversion H; subst.
  - destruct (IH eq_refl) as [l' ->]. exists (x :: l'). reflexivity.
  - apply last_opt_none in E. subst. exists []. reflexivity.
Qed.

Lemma last_opt_in {A} (l : list A) (a : A) : last_opt l = Some a -> In a l.
Proof. intros H. destruct (last_opt_split _ _ H) as [l' ->]. apply in_or_app. right. left. reflexivity. Qed.

Lemma last_opt_map {A B} (f : A -> B) (l : list A) (a : A) :
  last_opt l = Some a -> last_opt (map f l) = Some (f a).
Proof. intros H. destruct (last_opt_split _ _ H) as [l' ->]. rewrite map_app. cbn. apply last_opt_app. Qed.

Lemma filter_all {A} (f : A -> bool) (l : list A) : Forall (fun x => f x = true) l -> filter f l = l.
Proof. induction 1 as [|x l Hx _ IH]; cbn; [reflexivity|]. rewrite Hx, IH. reflexivity. Qed.

(* ---- current / latest ------------------------------------------------------------ *)

Lemma current_none_iff h s : current h s = None <-> existsb (fun x => n_signer x =? s) h = false.
Proof.
  induction h as [|r t IH]; cbn; [tauto|].
  destruct (current t s) as [y|] eqn:E.
  - split; [discriminate|]. intros H. apply orb_false_iff in H. destruct H as [_ H].
    apply IH in H. discriminate.
  - destruct (n_signer r =? s) eqn:Es; cbn.
    + split; discriminate.
    + split; intros _; [apply IH|]; reflexivity.
Qed.

Lemma current_some h s r : current h s = Some r -> n_signer r = s /\ In r h.
Proof.
  induction h as [|x t IH]; cbn; [discriminate|].
  destruct (current t s) as [y|] eqn:E.
  - intros H. inversion H; subst. destruct (IH eq_refl) as [H1 H2]. split; [exact H1|right; exact H2].
  - destruct (n_signer x =? s) eqn:Es; [|discriminate].
    intros H. inversion H; subst. apply N.eqb_eq in Es. split; [exact Es|left; reflexivity].
Qed.

Lemma current_app h r s : current (h ++ [r]) s = if n_signer r =? s then Some r else current h s.
Proof.
  induction h as [|x t IH]; cbn.
  - reflexivity.
  - rewrite IH. destruct (n_signer r =? s); [reflexivity|]. reflexivity.
Qed.

Lemma current_last_recs h s : current h s = last_opt (recs_of s h).
Proof.
  induction h as [|x t IH]; cbn; [reflexivity|]. unfold recs_of in *. cbn.
  rewrite IH. destruct (n_signer x =? s); cbn; [reflexivity|].
  destruct (last_opt (filter (fun r => n_signer r =? s) t)); reflexivity.
Qed.

Lemma recs_of_app s h r : recs_of s (h ++ [r]) = recs_of s h ++ (if n_signer r =? s then [r] else []).
Proof. unfold recs_of. rewrite filter_app. cbn. destruct (n_signer r =? s); reflexivity. Qed.

Lemma current_none_recs h s : current h s = None <-> recs_of s h = [].
Proof.
  rewrite current_last_recs. split; [apply last_opt_none|]. intros ->. reflexivity.
Qed.

Lemma last_current h l : last_opt h = Some l -> current h (n_signer l) = Some l.
Proof.
  intros H. destruct (last_opt_split _ _ H) as [h' ->]. rewrite current_app, N.eqb_refl. reflexivity.
Qed.

Lemma in_latest_iff h x : In x (latest h) <-> current h (n_signer x) = Some x.
Proof.
  induction h as [|r t IH]; cbn; [split; [tauto|discriminate]|].
  destruct (existsb (fun y => n_signer y =? n_signer r) t) eqn:Ex.
  - split.
    + intros H. apply IH in H. rewrite H. reflexivity.
    + destruct (current t (n_signer x)) as [y|] eqn:Ec.
      * intros H. inversion H; subst. apply IH. reflexivity.
      * destruct (n_signer r =? n_signer x) eqn:Es; [|discriminate].
        intros H. inversion H; subst. apply current_none_iff in Ec. rewrite Ec in Ex. discriminate.
  - split.
    + intros [H|H].
      * subst. assert (Hn : current t (n_signer x) = None) by (apply current_none_iff; exact Ex).
        rewrite Hn, N.eqb_refl. reflexivity.
      * apply IH in H. rewrite H. reflexivity.
    + destruct (current t (n_signer x)) as [y|] eqn:Ec.
      * intros H. inversion H; subst. right. apply IH. reflexivity.
      * destruct (n_signer r =? n_signer x) eqn:Es; [|discriminate].
        intros H. inversion H; subst. left. reflexivity.
Qed.

Lemma latest_incl h x : In x (latest h) -> In x h.
Proof. intros H. apply in_latest_iff in H. apply current_some in H. tauto. Qed.

Lemma latest_nodup h : NoDup (map n_signer (latest h)).
Proof.
  induction h as [|r t IH]; cbn; [constructor|].
  destruct (existsb (fun y => n_signer y =? n_signer r) t) eqn:Ex; [exact IH|].
  cbn. constructor; [|exact IH]. intros Hin. apply in_map_iff in Hin. destruct Hin as [y [Hy Hin]].
  apply latest_incl in Hin.
  assert (existsb (fun y => n_signer y =? n_signer r) t = true).
  { apply existsb_exists. exists y. split; [exact Hin|]. apply N.eqb_eq. exact Hy. }
  congruence.
Qed.

Lemma settled_false r : settled r = false <-> n_state r = Pledging.
Proof. unfold settled. destruct (n_state r); split; congruence. Qed.

Lemma all_settled_iff h : forallb settled (latest h) = true <-> forall s, ~ is_pledging h s.
Proof.
  rewrite forallb_forall. split.
  - intros H s [r [Hc Hp]]. destruct (current_some _ _ _ Hc) as [Hs _]. subst s.
    apply in_latest_iff in Hc. apply H in Hc. apply settled_false in Hp. congruence.
  - intros H x Hx. destruct (settled x) eqn:E; [reflexivity|]. exfalso.
    apply settled_false in E. apply in_latest_iff in Hx. apply (H (n_signer x)). exists x. tauto.
Qed.

Lemma pledge_clash_iff h s tx :
  existsb (fun n => (n_signer n =? s) || (n_tx n =? tx)) (latest h) = false <->
  recs_of s h = [] /\ (forall s' r, current h s' = Some r -> n_tx r <> tx).
Proof.
  split.
  - intros H. split.
    + apply current_none_recs. destruct (current h s) as [r|] eqn:E; [|reflexivity]. exfalso.
      destruct (current_some _ _ _ E) as [Hs _]. subst s. apply in_latest_iff in E.
      assert (Ht : existsb (fun n => (n_signer n =? n_signer r) || (n_tx n =? tx)) (latest h) = true).
      { apply existsb_exists. exists r. split; [exact E|]. rewrite N.eqb_refl. reflexivity. }
      congruence.
    + intros s' r Hc Heq. destruct (current_some _ _ _ Hc) as [Hs _]. subst s'. apply in_latest_iff in Hc.
      assert (Ht : existsb (fun n => (n_signer n =? s) || (n_tx n =? tx)) (latest h) = true).
      { apply existsb_exists. exists r. split; [exact Hc|]. apply N.eqb_eq in Heq. rewrite Heq. apply orb_true_r. }
      congruence.
  - intros [H1 H2]. destruct (existsb _ (latest h)) eqn:E; [|reflexivity]. exfalso.
    apply existsb_exists in E. destruct E as [x [Hx Hb]]. apply in_latest_iff in Hx.
    apply orb_true_iff in Hb. destruct Hb as [Hb|Hb]; apply N.eqb_eq in Hb.
    + subst s. apply current_none_recs in H1. congruence.
    + exact (H2 _ _ Hx Hb).
Qed.

(* ---- put at the end ----------------------------------------------------------------- *)

Definition fresh_ts (h : list nrec) (ts : N) : Prop := Forall (fun r => n_ts r < ts) h.

Lemma put_append r h : fresh_ts h (n_ts r) -> put r h = h ++ [r].
Proof.
  unfold fresh_ts. induction 1 as [|x t Hx _ IH]; cbn; [reflexivity|].
  cbn beta in Hx. unfold key_cmp. destruct (n_ts r ?= n_ts x) eqn:E.
  - apply N.compare_eq in E. lia.
  - rewrite N.compare_lt_iff in E. lia.
  - rewrite IH. reflexivity.
Qed.

Lemma order_ok_app h r : order_ok h = true -> Forall (fun x => n_ts x <= n_ts r) h -> order_ok (h ++ [r]) = true.
Proof.
  induction h as [|a t IH]; [reflexivity|]. intros Ho Hf. inversion Hf as [|? ? Ha Ht]; subst.
  destruct t as [|b t'].
  - cbn. apply N.leb_le in Ha. rewrite Ha. reflexivity.
  - change ((a :: b :: t') ++ [r]) with (a :: (b :: t') ++ [r]).
    cbn [order_ok] in Ho. apply andb_true_iff in Ho. destruct Ho as [H1 H2].
    change ((b :: t') ++ [r]) with (b :: (t' ++ [r])) in *. cbn [order_ok]. rewrite H1. cbn.
    apply (IH H2 Ht).
Qed.

Lemma scan_full h ts p :
  order_ok h = true -> Forall (fun r => 1 <= n_ts r) h -> fresh_ts h ts -> ts + p < two64 ->
  scan h (offset_of ts p) = Ok h.
Proof.
  intros Ho Hp Hf Hb. unfold scan.
  assert (E0 : existsb (fun r => n_ts r =? 0) h = false).
  { destruct (existsb _ h) eqn:E; [|reflexivity]. apply existsb_exists in E. destruct E as [x [Hx Hz]].
    apply N.eqb_eq in Hz. rewrite Forall_forall in Hp. specialize (Hp _ Hx). lia. }
  rewrite E0. rewrite filter_all.
  - rewrite Ho. reflexivity.
  - unfold offset_of. rewrite N.mod_small by exact Hb. unfold fresh_ts in Hf.
    rewrite Forall_forall in *. intros x Hx. apply N.leb_le. specialize (Hf _ Hx). lia.
Qed.

(* ---- one operation on a history that satisfies the invariant ----------------------- *)

Lemma lifecycle_accept l : lifecycle l -> last_opt l = Some Pledging -> lifecycle (l ++ [Accepted]).
Proof. intros H; inversion H; subst; cbn; intros E; try discriminate; constructor. Qed.
Lemma lifecycle_cancel l : lifecycle l -> last_opt l = Some Pledging -> lifecycle (l ++ [Cancelled]).
Proof. intros H; inversion H; subst; cbn; intros E; try discriminate; constructor. Qed.
Lemma lifecycle_remove l : lifecycle l -> last_opt l = Some Accepted -> lifecycle (l ++ [Removed]).
Proof. intros H; inversion H; subst; cbn; intros E; try discriminate; constructor. Qed.

Lemma node_ok_other h r s : n_signer r <> s -> node_ok h s -> node_ok (h ++ [r]) s.
Proof.
  intros Hne H. unfold node_ok in *. rewrite recs_of_app.
  apply N.eqb_neq in Hne. rewrite Hne, app_nil_r. exact H.
Qed.

(* appending the next state of the node with signer [n_signer r] *)
Lemma node_ok_next h r x st :
  node_ok h (n_signer r) -> current h (n_signer r) = Some x -> n_payee x = n_payee r ->
  (forall l, lifecycle l -> last_opt l = Some (n_state x) -> lifecycle (l ++ [st])) ->
  n_state r = st ->
  node_ok (h ++ [r]) (n_signer r).
Proof.
  intros Hn Hc Hp Hl Hst. unfold node_ok in *. rewrite recs_of_app, N.eqb_refl.
  rewrite current_last_recs in Hc. right.
  destruct Hn as [Hn|[Hlc [p Hpay]]]; [rewrite Hn in Hc; discriminate|].
  split.
  - rewrite map_app. cbn. rewrite Hst. apply Hl; [exact Hlc|]. apply last_opt_map. exact Hc.
  - exists p. apply Forall_app. split; [exact Hpay|]. constructor; [|constructor].
    apply last_opt_in in Hc. rewrite Forall_forall in Hpay. rewrite <- Hp. apply Hpay. exact Hc.
Qed.

Lemma pledging_unique h s1 s2 : Inv h -> is_pledging h s1 -> is_pledging h s2 -> s1 = s2.
Proof.
  intros HI [r1 [H1 P1]] [r2 [H2 P2]].
  pose proof (inv_pledging_last _ HI _ _ H1 P1) as L1.
  pose proof (inv_pledging_last _ HI _ _ H2 P2) as L2.
  rewrite L1 in L2. inversion L2; subst.
  destruct (current_some _ _ _ H1) as [E1 _]. destruct (current_some _ _ _ H2) as [E2 _]. congruence.
Qed.

Lemma inv_append h r :
  Inv h -> fresh_ts h (n_ts r) -> 1 <= n_ts r ->
  node_ok (h ++ [r]) (n_signer r) ->
  (forall s, s <> n_signer r -> ~ is_pledging h s) ->
  Inv (h ++ [r]).
Proof.
  intros HI Hf H1 Hn Hnp. constructor.
  - apply order_ok_app; [apply (inv_order _ HI)|]. unfold fresh_ts in Hf. rewrite Forall_forall in *.
    intros x Hx. specialize (Hf _ Hx). lia.
  - apply Forall_app. split; [apply (inv_pos _ HI)|]. constructor; [exact H1|constructor].
  - intros s. destruct (N.eq_dec (n_signer r) s) as [E|E]; [subst; exact Hn|].
    apply node_ok_other; [exact E|apply (inv_nodes _ HI)].
  - intros s y Hc Hp. rewrite last_opt_app. rewrite current_app in Hc.
    destruct (n_signer r =? s) eqn:Es; [exact Hc|]. exfalso.
    apply N.eqb_neq in Es. apply (Hnp s); [congruence|]. exists y. tauto.
Qed.

Definition ts_ok (ts : N) : Prop := 1 <= ts /\ ts + max_period < two64.

Lemma ts_ok_pledge ts : ts_ok ts -> ts + pledge_period < two64.
Proof. unfold ts_ok, max_period. lia. Qed.
Lemma ts_ok_accept ts : ts_ok ts -> ts + accept_period < two64.
Proof. unfold ts_ok, max_period. lia. Qed.

Lemma read_full h ts p ws :
  Inv h -> fresh_ts h ts -> ts + p < two64 ->
  read_all_nodes h (offset_of ts p) ws = Ok (if ws then h else latest h).
Proof.
  intros HI Hf Hb. unfold read_all_nodes. rewrite scan_full; try assumption.
  - reflexivity.
  - apply (inv_order _ HI).
  - apply (inv_pos _ HI).
Qed.

(* accept and cancel share their head *)
Lemma last_is_pledging_spec h s p ts :
  Inv h -> fresh_ts h ts -> ts_ok ts ->
  match last_is_pledging h s p ts with
  | Ok _ => exists r, current h s = Some r /\ n_state r = Pledging /\ n_payee r = p
  | Err => ~ exists r, current h s = Some r /\ n_state r = Pledging /\ n_payee r = p
  | Panic => h = []
  end.
Proof.
  intros HI Hf Hts. unfold last_is_pledging.
  rewrite (read_full h ts accept_period true HI Hf (ts_ok_accept _ Hts)). cbn.
  destruct (last_opt h) as [l|] eqn:El; [|apply last_opt_none; exact El].
  destruct (n_state l) eqn:Est; cbn.
  2,3,4: intros [r [Hc [Hp _]]]; pose proof (inv_pledging_last _ HI _ _ Hc Hp) as HL; congruence.
  destruct (n_signer l =? s) eqn:Es; cbn.
  - destruct (n_payee l =? p) eqn:Ep; cbn.
    + apply N.eqb_eq in Es, Ep. exists l. subst s. split; [apply last_current; exact El|tauto].
    + intros [r [Hc [Hp Hpay]]]. pose proof (inv_pledging_last _ HI _ _ Hc Hp) as HL.
      rewrite El in HL. inversion HL; subst. apply N.eqb_neq in Ep. congruence.
  - intros [r [Hc [Hp Hpay]]]. pose proof (inv_pledging_last _ HI _ _ Hc Hp) as HL.
    rewrite El in HL. inversion HL; subst. destruct (current_some _ _ _ Hc) as [E _].
    apply N.eqb_neq in Es. congruence.
Qed.

Lemma others_not_pledging h s x :
  Inv h -> current h s = Some x -> n_state x = Pledging -> forall s', s' <> s -> ~ is_pledging h s'.
Proof.
  intros HI Hc Hp s' Hne Hs'. apply Hne. apply (pledging_unique h s' s HI Hs'). exists x. tauto.
Qed.

Theorem step_spec h o :
  Inv h -> o_genesis o = false -> fresh_ts h (o_ts o) -> ts_ok (o_ts o) ->
  match apply h o with
  | Ok h' => h' = h ++ [rec_of o] /\ guard h o /\ Inv h'
  | Err => ~ guard h o
  | Panic => h = [] /\ o_kind o <> OPledge
  end.
Proof.
  intros HI Hg Hf Hts. unfold apply, guard.
  assert (Hput : put (rec_of o) h = h ++ [rec_of o]) by (apply put_append; exact Hf).
  assert (H1 : 1 <= n_ts (rec_of o)) by (destruct Hts; exact H).
  destruct (o_kind o) eqn:Ek.
  - (* pledge *)
    unfold write_node_pledge.
    rewrite (read_full h (o_ts o) pledge_period false HI Hf (ts_ok_pledge _ Hts)). cbn.
    destruct (forallb settled (latest h)) eqn:Es; cbn.
    2:{ intros [Hn _]. apply (proj2 (all_settled_iff h)) in Hn. congruence. }
    pose proof (proj1 (all_settled_iff h) Es) as Es'. clear Es. rename Es' into Es.
    destruct (existsb _ (latest h)) eqn:Ex.
    { intros [_ [Hr Ht]]. assert (E : existsb (fun n => (n_signer n =? o_signer o) || (n_tx n =? o_tx o)) (latest h) = false)
        by (apply pledge_clash_iff; tauto). congruence. }
    pose proof (proj1 (pledge_clash_iff h _ _) Ex) as [Hr Ht].
    change (mk_nrec (o_signer o) (o_payee o) Pledging (o_tx o) (o_ts o)) with
      (mk_nrec (o_signer o) (o_payee o) (state_of_kind OPledge) (o_tx o) (o_ts o)).
    rewrite <- Ek. fold (rec_of o). rewrite Hput. split; [reflexivity|]. split; [tauto|].
    apply inv_append; try assumption.
    + unfold node_ok. rewrite recs_of_app. cbn [rec_of n_signer]. rewrite Hr, N.eqb_refl. right. cbn.
      rewrite Ek. cbn. split; [constructor|]. exists (o_payee o). constructor; [reflexivity|constructor].
    + intros s _. apply Es.
  - (* accept *)
    unfold write_node_accept. rewrite Hg.
    pose proof (last_is_pledging_spec h (o_signer o) (o_payee o) (o_ts o) HI Hf Hts) as HL.
    destruct (last_is_pledging h (o_signer o) (o_payee o) (o_ts o)); cbn.
    + change (mk_nrec (o_signer o) (o_payee o) Accepted (o_tx o) (o_ts o)) with
        (mk_nrec (o_signer o) (o_payee o) (state_of_kind OAccept) (o_tx o) (o_ts o)).
      rewrite <- Ek. fold (rec_of o). rewrite Hput. split; [reflexivity|]. split; [exact HL|].
      destruct HL as [x [Hc [Hp Hpay]]].
      apply inv_append; try assumption.
      * apply (node_ok_next h (rec_of o) x Accepted); cbn [rec_of n_signer n_payee n_state].
        -- apply (inv_nodes _ HI).
        -- exact Hc.
        -- exact Hpay.
        -- rewrite Hp. apply lifecycle_accept.
        -- rewrite Ek. reflexivity.
      * apply (others_not_pledging h (o_signer o) x HI Hc Hp).
    + exact HL.
    + split; [exact HL|discriminate].
  - (* cancel *)
    unfold write_node_cancel.
    pose proof (last_is_pledging_spec h (o_signer o) (o_payee o) (o_ts o) HI Hf Hts) as HL.
    destruct (last_is_pledging h (o_signer o) (o_payee o) (o_ts o)); cbn.
    + change (mk_nrec (o_signer o) (o_payee o) Cancelled (o_tx o) (o_ts o)) with
        (mk_nrec (o_signer o) (o_payee o) (state_of_kind OCancel) (o_tx o) (o_ts o)).
      rewrite <- Ek. fold (rec_of o). rewrite Hput. split; [reflexivity|]. split; [exact HL|].
      destruct HL as [x [Hc [Hp Hpay]]].
      apply inv_append; try assumption.
      * apply (node_ok_next h (rec_of o) x Cancelled); cbn [rec_of n_signer n_payee n_state].
        -- apply (inv_nodes _ HI).
        -- exact Hc.
        -- exact Hpay.
        -- rewrite Hp. apply lifecycle_cancel.
        -- rewrite Ek. reflexivity.
      * apply (others_not_pledging h (o_signer o) x HI Hc Hp).
    + exact HL.
    + split; [exact HL|discriminate].
  - (* remove *)
    unfold write_node_remove.
    rewrite (read_full h (o_ts o) accept_period true HI Hf (ts_ok_accept _ Hts)). cbn.
    destruct (last_opt h) as [l|] eqn:El.
    2:{ split; [apply last_opt_none; exact El|discriminate]. }
    assert (Hnp : settled l = true <-> forall s, ~ is_pledging h s).
    { split.
      - intros Hs s [r [Hc Hp]]. pose proof (inv_pledging_last _ HI _ _ Hc Hp) as HL.
        rewrite El in HL. inversion HL; subst. apply settled_false in Hp. congruence.
      - intros Hn. destruct (settled l) eqn:E; [reflexivity|]. exfalso. apply settled_false in E.
        apply (Hn (n_signer l)). exists l. split; [apply last_current; exact El|exact E]. }
    destruct (settled l) eqn:Es; cbn.
    2:{ intros [Hn _]. apply (proj2 Hnp) in Hn. discriminate. }
    assert (Hno : forall s, ~ is_pledging h s) by (apply Hnp; reflexivity).
    destruct (current h (o_signer o)) as [node|] eqn:Ec.
    2:{ intros [_ [r [Hc _]]]. discriminate. }
    destruct (n_payee node =? o_payee o) eqn:Ep; cbn.
    2:{ intros [_ [r [Hc [_ Hpay]]]]. inversion Hc; subst. apply N.eqb_neq in Ep. congruence. }
    apply N.eqb_eq in Ep.
    destruct (n_state node) eqn:Est; cbn.
    1,3,4: intros [_ [r [Hc [Hst _]]]]; inversion Hc; subst; congruence.
    change (mk_nrec (o_signer o) (o_payee o) Removed (o_tx o) (o_ts o)) with
      (mk_nrec (o_signer o) (o_payee o) (state_of_kind ORemove) (o_tx o) (o_ts o)).
    rewrite <- Ek. fold (rec_of o). rewrite Hput. split; [reflexivity|]. split.
    { split; [exact Hno|]. exists node. tauto. }
    apply inv_append; try assumption.
    + apply (node_ok_next h (rec_of o) node Removed); cbn [rec_of n_signer n_payee n_state].
      * apply (inv_nodes _ HI).
      * exact Ec.
      * exact Ep.
      * rewrite Est. apply lifecycle_remove.
      * rewrite Ek. reflexivity.
    + intros s _. apply Hno.
Qed.

(* ---- the genesis prefix ------------------------------------------------------------------ *)

Record GInv (t0 : N) (h : list nrec) : Prop := mk_GInv {
  g_order : order_ok h = true;
  g_pos : Forall (fun r => 1 <= n_ts r) h;
  g_max : Forall (fun r => n_ts r <= t0) h;
  g_acc : Forall (fun r => n_state r = Accepted) h;
  g_nodup : NoDup (map n_signer h)
}.

(* order_ok only constrains neighbours, so the insertion lemma is stated on it directly *)
Definition hd_le (t : N) (l : list nrec) : Prop :=
  match l with [] => True | y :: _ => t <= n_ts y end.

Lemma order_ok_cons a l : order_ok (a :: l) = true <-> hd_le (n_ts a) l /\ order_ok l = true.
Proof.
  destruct l as [|b l]; cbn.
  - tauto.
  - rewrite andb_true_iff, N.leb_le. tauto.
Qed.

Lemma put_order r h :
  (forall x, In x h -> n_signer x <> n_signer r) -> order_ok h = true ->
  order_ok (put r h) = true /\ (forall t, t <= n_ts r -> hd_le t h -> hd_le t (put r h)).
Proof.
  induction h as [|x t IH]; intros Hne Ho.
  - cbn. split; [reflexivity|]. intros; assumption.
  - apply order_ok_cons in Ho. destruct Ho as [Hh Ho].
    cbn [put]. unfold key_cmp.
    destruct (n_ts r ?= n_ts x) eqn:E.
    + apply N.compare_eq in E. destruct (n_signer r ?= n_signer x) eqn:E2.
      * apply N.compare_eq in E2. exfalso. apply (Hne x); [left; reflexivity|congruence].
      * split.
        -- apply order_ok_cons. split; [cbn; lia|]. apply order_ok_cons. tauto.
        -- intros t' Ht _. cbn. exact Ht.
      * destruct IH as [IH1 IH2]; [intros y Hy; apply Hne; right; exact Hy|exact Ho|].
        split.
        -- apply order_ok_cons. split; [|exact IH1]. apply IH2; [lia|exact Hh].
        -- intros t' _ Hx. cbn in *. exact Hx.
    + rewrite N.compare_lt_iff in E. split.
      * apply order_ok_cons. split; [cbn; lia|]. apply order_ok_cons. tauto.
      * intros t' Ht _. cbn. exact Ht.
    + rewrite N.compare_gt_iff in E.
      destruct IH as [IH1 IH2]; [intros y Hy; apply Hne; right; exact Hy|exact Ho|].
      split.
      * apply order_ok_cons. split; [|exact IH1]. apply IH2; [lia|exact Hh].
      * intros t' _ Hx. cbn in *. exact Hx.
Qed.

Lemma put_perm r h :
  (forall x, In x h -> n_signer x <> n_signer r) -> Permutation (r :: h) (put r h).
Proof.
  induction h as [|x t IH]; intros Hne; [reflexivity|].
  cbn [put]. unfold key_cmp.
  assert (Hrec : Permutation (r :: x :: t) (x :: put r t)).
  { rewrite perm_swap. apply perm_skip. apply IH. intros y Hy. apply Hne. right. exact Hy. }
  destruct (n_ts r ?= n_ts x) eqn:E.
  - destruct (n_signer r ?= n_signer x) eqn:E2.
    + apply N.compare_eq in E2. exfalso. apply (Hne x); [left; reflexivity|congruence].
    + reflexivity.
    + exact Hrec.
  - reflexivity.
  - exact Hrec.
Qed.

Lemma ginv_put t0 h r :
  GInv t0 h -> ~ In (n_signer r) (map n_signer h) -> 1 <= n_ts r -> n_ts r <= t0 -> n_state r = Accepted ->
  GInv t0 (put r h).
Proof.
  intros HG Hnew H1 H2 H3.
  assert (Hne : forall x, In x h -> n_signer x <> n_signer r).
  { intros x Hx E. apply Hnew. apply in_map_iff. exists x. tauto. }
  pose proof (put_perm r h Hne) as HP.
  constructor.
  - apply (put_order r h Hne (g_order _ _ HG)).
  - apply (Permutation_Forall HP). constructor; [exact H1|apply (g_pos _ _ HG)].
  - apply (Permutation_Forall HP). constructor; [exact H2|apply (g_max _ _ HG)].
  - apply (Permutation_Forall HP). constructor; [exact H3|apply (g_acc _ _ HG)].
  - apply (Permutation_NoDup (Permutation_map n_signer HP)). cbn. constructor; [exact Hnew|apply (g_nodup _ _ HG)].
Qed.

Lemma genesis_apply h o t0 : genesis_op t0 o -> apply h o = Ok (put (rec_of o) h).
Proof.
  intros [Hk [Hg _]]. unfold apply, write_node_accept, rec_of. rewrite Hk, Hg. reflexivity.
Qed.

Lemma genesis_run t0 gs : forall h,
  GInv t0 h -> Forall (genesis_op t0) gs -> NoDup (map o_signer gs) ->
  (forall o, In o gs -> ~ In (o_signer o) (map n_signer h)) ->
  GInv t0 (run_from h gs).
Proof.
  induction gs as [|o gs IH]; intros h HG Hf Hnd Hnew; [exact HG|].
  inversion Hf as [|? ? Ho Hf']; subst. cbn in Hnd. inversion Hnd as [|? ? Hni Hnd']; subst.
  unfold run_from. cbn [fold_left]. unfold step at 2. rewrite (genesis_apply h o t0 Ho).
  destruct Ho as [Hk [Hg [H1 H2]]].
  assert (HG' : GInv t0 (put (rec_of o) h)).
  { apply ginv_put; try assumption.
    - apply (Hnew o). left. reflexivity.
    - cbn. rewrite Hk. reflexivity. }
  apply IH; try assumption.
  intros o' Ho' Hin.
  assert (Hne : forall x, In x h -> n_signer x <> n_signer (rec_of o)).
  { intros x Hx E. apply (Hnew o (or_introl eq_refl)). apply in_map_iff. exists x. cbn in E. tauto. }
  apply (Permutation_in _ (Permutation_sym (Permutation_map n_signer (put_perm (rec_of o) h Hne)))) in Hin.
  cbn in Hin. destruct Hin as [Hin|Hin].
  - apply Hni. rewrite Hin. apply in_map. exact Ho'.
  - apply (Hnew o' (or_intror Ho')). exact Hin.
Qed.

Lemma nodup_recs h s : NoDup (map n_signer h) -> recs_of s h = [] \/ exists x, recs_of s h = [x].
Proof.
  induction h as [|y t IH]; intros Hnd; [left; reflexivity|].
  cbn in Hnd. inversion Hnd as [|? ? Hni Hnd']; subst. unfold recs_of in *. cbn.
  destruct (n_signer y =? s) eqn:E.
  - right. exists y. f_equal. apply N.eqb_eq in E. subst s.
    destruct (filter (fun r => n_signer r =? n_signer y) t) as [|z l] eqn:Ef; [reflexivity|]. exfalso.
    assert (Hz : In z (filter (fun r => n_signer r =? n_signer y) t)) by (rewrite Ef; left; reflexivity).
    apply filter_In in Hz. destruct Hz as [Hz1 Hz2]. apply N.eqb_eq in Hz2.
    apply Hni. rewrite <- Hz2. apply in_map. exact Hz1.
  - apply IH. exact Hnd'.
Qed.

Lemma ginv_inv t0 h : GInv t0 h -> Inv h.
Proof.
  intros HG. constructor.
  - apply (g_order _ _ HG).
  - apply (g_pos _ _ HG).
  - intros s. unfold node_ok. destruct (nodup_recs h s (g_nodup _ _ HG)) as [E|[x E]]; [left; exact E|right].
    rewrite E. cbn.
    assert (Hx : In x h).
    { assert (In x (recs_of s h)) by (rewrite E; left; reflexivity). unfold recs_of in H. apply filter_In in H. tauto. }
    pose proof (g_acc _ _ HG) as Ha. rewrite Forall_forall in Ha. rewrite (Ha _ Hx).
    split; [constructor|]. exists (n_payee x). constructor; [reflexivity|constructor].
  - intros s r Hc Hp. destruct (current_some _ _ _ Hc) as [_ Hin].
    pose proof (g_acc _ _ HG) as Ha. rewrite Forall_forall in Ha. rewrite (Ha _ Hin) in Hp. discriminate.
Qed.

(* ---- whole histories ------------------------------------------------------------------------ *)

Fixpoint last_ts (t : N) (ops : list op) : N :=
  match ops with [] => t | o :: r => last_ts (o_ts o) r end.

Lemma run_inv_bound ops : forall h t,
  Inv h -> Forall (fun r => n_ts r <= t) h -> increasing_from t ops ->
  Inv (run_from h ops) /\ Forall (fun r => n_ts r <= last_ts t ops) (run_from h ops).
Proof.
  induction ops as [|o ops IH]; intros h t HI Hb Hinc.
  - cbn. split; assumption.
  - cbn in Hinc. destruct Hinc as [Hg [Hlt [Hmax Hinc]]].
    assert (Hf : fresh_ts h (o_ts o)).
    { unfold fresh_ts. rewrite Forall_forall in *. intros x Hx. specialize (Hb _ Hx). lia. }
    assert (Hts : ts_ok (o_ts o)) by (unfold ts_ok; split; [lia|exact Hmax]).
    pose proof (step_spec h o HI Hg Hf Hts) as HS.
    unfold run_from. cbn [fold_left last_ts]. fold (run_from (step h o) ops).
    assert (HI' : Inv (step h o) /\ Forall (fun r => n_ts r <= o_ts o) (step h o)).
    { unfold step. destruct (apply h o) as [h'| |].
      - destruct HS as [-> [_ HI']]. split; [exact HI'|]. apply Forall_app. split.
        + rewrite Forall_forall in *. intros x Hx. specialize (Hb _ Hx). lia.
        + constructor; [cbn; lia|constructor].
      - split; [exact HI|]. rewrite Forall_forall in *. intros x Hx. specialize (Hb _ Hx). lia.
      - split; [exact HI|]. rewrite Forall_forall in *. intros x Hx. specialize (Hb _ Hx). lia. }
    destruct HI' as [HI' Hb']. apply IH; assumption.
Qed.

Lemma increasing_split pre : forall t o post,
  increasing_from t (pre ++ o :: post) ->
  increasing_from t pre /\ o_genesis o = false /\ last_ts t pre < o_ts o /\ o_ts o + max_period < two64.
Proof.
  induction pre as [|a pre IH]; intros t o post H.
  - cbn in *. tauto.
  - cbn in H. destruct H as [Hg [Hlt [Hmax H]]]. destruct (IH _ _ _ H) as [H1 [H2 [H3 H4]]].
    cbn. tauto.
Qed.

Lemma run_app a b : run (a ++ b) = run_from (run a) b.
Proof. unfold run, run_from. apply fold_left_app. Qed.

Lemma genesis_reach t0 gs : genesis_ok t0 gs -> GInv t0 (run gs).
Proof.
  intros [Hf Hnd]. apply genesis_run; try assumption.
  - constructor; try constructor; reflexivity.
  - intros o _ H. exact H.
Qed.

Theorem reach_inv t0 gs ops :
  genesis_ok t0 gs -> increasing_from t0 ops ->
  Inv (run (gs ++ ops)) /\ Forall (fun r => n_ts r <= last_ts t0 ops) (run (gs ++ ops)).
Proof.
  intros Hg Hinc. rewrite run_app. pose proof (genesis_reach _ _ Hg) as HG.
  apply run_inv_bound; [apply (ginv_inv _ _ HG)|apply (g_max _ _ HG)|exact Hinc].
Qed.

(* the full statement of the lifecycle property *)
Theorem lifecycle_thm t0 gs pre o post :
  genesis_ok t0 gs -> increasing_from t0 (pre ++ o :: post) ->
  let h := run (gs ++ pre) in
  (forall s, node_ok h s) /\
  (forall s1 s2, is_pledging h s1 -> is_pledging h s2 -> s1 = s2) /\
  match apply h o with
  | Ok h' => h' = h ++ [rec_of o] /\ guard h o
  | Err => ~ guard h o
  | Panic => h = [] /\ o_kind o <> OPledge
  end.
Proof.
  intros Hg Hinc h. destruct (increasing_split _ _ _ _ Hinc) as [Hpre [Hgen [Hlt Hmax]]].
  destruct (reach_inv t0 gs pre Hg Hpre) as [HI Hb]. fold h in HI, Hb.
  split; [apply (inv_nodes _ HI)|]. split; [intros s1 s2; apply pledging_unique; exact HI|].
  assert (Hf : fresh_ts h (o_ts o)).
  { unfold fresh_ts. rewrite Forall_forall in *. intros x Hx. specialize (Hb _ Hx). lia. }
  assert (Hts : ts_ok (o_ts o)) by (unfold ts_ok; split; [lia|exact Hmax]).
  pose proof (step_spec h o HI Hgen Hf Hts) as HS.
  destruct (apply h o); tauto.
Qed.

(* what ReadAllNodes reports *)
Theorem reported_thm t0 gs ops th :
  genesis_ok t0 gs -> increasing_from t0 ops ->
  let h := run (gs ++ ops) in
  last_ts t0 ops <= th -> th < two64 ->
  read_all_nodes h th true = Ok h /\
  exists l, read_all_nodes h th false = Ok l /\
            (forall r, In r l <-> current h (n_signer r) = Some r) /\
            NoDup (map n_signer l).
Proof.
  intros Hg Hinc h Hth Hlt. destruct (reach_inv t0 gs ops Hg Hinc) as [HI Hb]. fold h in HI, Hb.
  assert (Hs : scan h th = Ok h).
  { unfold scan.
    assert (E0 : existsb (fun r => n_ts r =? 0) h = false).
    { destruct (existsb _ h) eqn:E; [|reflexivity]. apply existsb_exists in E. destruct E as [x [Hx Hz]].
      apply N.eqb_eq in Hz. pose proof (inv_pos _ HI) as Hp. rewrite Forall_forall in Hp. specialize (Hp _ Hx). lia. }
    rewrite E0, filter_all.
    - rewrite (inv_order _ HI). reflexivity.
    - rewrite Forall_forall in *. intros x Hx. apply N.leb_le. specialize (Hb _ Hx). lia. }
  unfold read_all_nodes. rewrite Hs. cbn. split; [reflexivity|].
  exists (latest h). split; [reflexivity|]. split; [intros r; apply in_latest_iff|apply latest_nodup].
Qed.

(* signer keys never repeat across nodes: a signer key has one creating record
   (its pledge, or its genesis accept): two pledges never share a signer *)
Lemma lifecycle_one_pledge l : lifecycle l ->
  match l with
  | [] => True
  | _ :: rest => ~ In Pledging rest
  end.
Proof. intros H; inversion H; subst; cbn; intuition discriminate. Qed.

Theorem pledge_signers_unique h r1 r2 :
  (forall s, node_ok h s) -> In r1 h -> In r2 h ->
  n_state r1 = Pledging -> n_state r2 = Pledging -> n_signer r1 = n_signer r2 -> r1 = r2.
Proof.
  intros Hn H1 H2 P1 P2 Es.
  assert (I1 : In r1 (recs_of (n_signer r1) h)) by (apply filter_In; split; [exact H1|apply N.eqb_refl]).
  assert (I2 : In r2 (recs_of (n_signer r1) h)) by (apply filter_In; split; [exact H2|apply N.eqb_eq; congruence]).
  destruct (Hn (n_signer r1)) as [E|[Hl _]]; [rewrite E in I1; destruct I1|].
  apply lifecycle_one_pledge in Hl.
  destruct (recs_of (n_signer r1) h) as [|x rest]; [destruct I1|]. cbn in Hl.
  assert (forall r, In r (x :: rest) -> n_state r = Pledging -> r = x) as Hx.
  { intros r [Hr|Hr] Hp; [congruence|]. exfalso. apply Hl. rewrite <- Hp. apply in_map. exact Hr. }
  rewrite (Hx _ I1 P1), (Hx _ I2 P2). reflexivity.
Qed.

Theorem signers_unique_thm t0 gs ops :
  genesis_ok t0 gs -> increasing_from t0 ops ->
  let h := run (gs ++ ops) in
  (forall s, node_ok h s) /\
  (forall r1 r2, In r1 h -> In r2 h -> n_state r1 = Pledging -> n_state r2 = Pledging ->
                 n_signer r1 = n_signer r2 -> r1 = r2).
Proof.
  intros Hg Hinc h. destruct (reach_inv t0 gs ops Hg Hinc) as [HI _]. fold h in HI.
  split; [apply (inv_nodes _ HI)|]. intros r1 r2. apply pledge_signers_unique. apply (inv_nodes _ HI).
Qed.
