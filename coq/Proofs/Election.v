(* Lemmas about Model/Election.v. *)
From Coq Require Import List ZArith NArith Bool Lia ZifyN ZifyNat ZifyBool Permutation.
Require Import Mixin.Base.Res Mixin.Gen.Consts Mixin.Model.Election.
Import ListNotations.
Open Scope Z_scope.

(* ---- the order ---------------------------------------------------------- *)

Lemma rec_lt_spec : forall a b,
  rec_lt a b = true <-> (r_ts a < r_ts b \/ (r_ts a = r_ts b /\ (r_id a < r_id b)%N)).
Proof.
  intros a b. unfold rec_lt.
  destruct (r_ts a <? r_ts b) eqn:E1; [apply Z.ltb_lt in E1; split; auto|].
  apply Z.ltb_ge in E1.
  destruct (r_ts b <? r_ts a) eqn:E2.
  - apply Z.ltb_lt in E2. split; [discriminate|lia].
  - apply Z.ltb_ge in E2. rewrite N.ltb_lt. split; [intro H; right; split; [lia|exact H]|].
    intros [H|[_ H]]; [lia|exact H].
Qed.

Lemma rec_lt_false_trans : forall a b c,
  rec_lt a b = false -> rec_lt b c = false -> rec_lt a c = false.
Proof.
  intros a b c H1 H2.
  destruct (rec_lt a c) eqn:E; [|reflexivity].
  apply rec_lt_spec in E.
  assert (N1 : ~ (r_ts a < r_ts b \/ (r_ts a = r_ts b /\ (r_id a < r_id b)%N)))
    by (intro X; apply rec_lt_spec in X; congruence).
  assert (N2 : ~ (r_ts b < r_ts c \/ (r_ts b = r_ts c /\ (r_id b < r_id c)%N)))
    by (intro X; apply rec_lt_spec in X; congruence).
  exfalso. lia.
Qed.

Lemma rec_lt_true_false : forall a b, rec_lt a b = true -> rec_lt b a = false.
Proof.
  intros a b H. apply rec_lt_spec in H.
  destruct (rec_lt b a) eqn:E; [|reflexivity]. apply rec_lt_spec in E. lia.
Qed.

(* ---- insertion sort ----------------------------------------------------- *)

Lemma insert_perm : forall x l, Permutation (insert x l) (x :: l).
Proof.
  intros x l. induction l as [|y l IH]; cbn [insert]; [apply Permutation_refl|].
  destruct (rec_lt y x).
  - eapply perm_trans; [apply perm_skip; exact IH|apply perm_swap].
  - apply Permutation_refl.
Qed.

Lemma sort_perm : forall l, Permutation (sort l) l.
Proof.
  induction l as [|x l IH]; [apply perm_nil|].
  unfold sort in *. cbn [fold_right].
  eapply perm_trans; [apply insert_perm|apply perm_skip; exact IH].
Qed.

Lemma sort_in : forall x l, In x (sort l) <-> In x l.
Proof.
  intros x l. split; apply Permutation_in; [apply sort_perm|apply Permutation_sym, sort_perm].
Qed.

Lemma sort_length : forall l, length (sort l) = length l.
Proof. intro l. apply Permutation_length, sort_perm. Qed.

(* head-minimal sortedness *)
Inductive sorted : list nrec -> Prop :=
| sorted_nil : sorted []
| sorted_cons : forall y l, Forall (fun z => rec_lt z y = false) l -> sorted l -> sorted (y :: l).

Lemma insert_sorted : forall x l, sorted l -> sorted (insert x l).
Proof.
  intros x l H. induction H as [|y l Hy Hs IH]; cbn [insert].
  - constructor; [constructor|constructor].
  - destruct (rec_lt y x) eqn:E.
    + constructor; [|exact IH].
      apply Forall_forall. intros z Hz.
      apply (Permutation_in _ (insert_perm x l)) in Hz. destruct Hz as [<-|Hz].
      * apply rec_lt_true_false; exact E.
      * rewrite Forall_forall in Hy. apply Hy; exact Hz.
    + constructor; [|constructor; assumption].
      constructor; [exact E|].
      apply Forall_forall. intros z Hz. rewrite Forall_forall in Hy.
      apply rec_lt_false_trans with y; [apply Hy; exact Hz|exact E].
Qed.

Lemma sort_sorted : forall l, sorted (sort l).
Proof.
  induction l as [|x l IH]; [constructor|].
  unfold sort in *. cbn [fold_right]. apply insert_sorted; exact IH.
Qed.

Lemma filter_insert : forall p x l, sorted l ->
  filter p (insert x l) = if p x then insert x (filter p l) else filter p l.
Proof.
  intros p x l H. induction H as [|y l Hy Hs IH].
  - cbn. destruct (p x); reflexivity.
  - cbn [insert]. destruct (rec_lt y x) eqn:E.
    + cbn [filter]. rewrite IH. destruct (p y) eqn:Py; destruct (p x) eqn:Px; try reflexivity.
      cbn [insert]. rewrite E. reflexivity.
    + cbn [filter]. destruct (p x) eqn:Px; [|reflexivity].
      destruct (p y) eqn:Py.
      * cbn [insert]. rewrite E. reflexivity.
      * (* the first kept element of l is not below x *)
        assert (Hall : Forall (fun z => rec_lt z x = false) (filter p l)).
        { apply Forall_forall. intros z Hz. apply filter_In in Hz. destruct Hz as [Hz _].
          rewrite Forall_forall in Hy. apply rec_lt_false_trans with y; [apply Hy; exact Hz|exact E]. }
        destruct (filter p l) as [|z r] eqn:Ef; [reflexivity|].
        cbn [insert]. inversion Hall as [|? ? Hz _]; subst. rewrite Hz. reflexivity.
Qed.

Lemma filter_sort : forall p l, filter p (sort l) = sort (filter p l).
Proof.
  intros p l. induction l as [|x l IH]; [reflexivity|].
  unfold sort in *. cbn [fold_right filter].
  rewrite filter_insert by apply sort_sorted.
  destruct (p x); [cbn [fold_right]; rewrite IH; reflexivity|exact IH].
Qed.

Lemma filter_true : forall (l : list nrec), filter (fun _ => true) l = l.
Proof. induction l as [|x l IH]; [reflexivity|cbn; rewrite IH; reflexivity]. Qed.

(* ---- the membership view ----------------------------------------------- *)

Lemma take_before_incl : forall th l x, In x (take_before th l) -> In x l.
Proof.
  intros th l. induction l as [|r l IH]; intros x H; [exact H|].
  cbn [take_before] in H. destruct (r_ts r <? th); [|contradiction].
  destruct H as [<-|H]; [left; reflexivity|right; apply IH; exact H].
Qed.

Lemma latest_incl : forall l x, In x (latest l) -> In x l.
Proof.
  induction l as [|r l IH]; intros x H; [exact H|].
  cbn [latest] in H. destruct (has_id (r_id r) l).
  - right; apply IH; exact H.
  - destruct H as [<-|H]; [left; reflexivity|right; apply IH; exact H].
Qed.

Lemma has_id_false : forall i l, has_id i l = false -> ~ In i (map r_id l).
Proof.
  intros i l H Hin. apply in_map_iff in Hin. destruct Hin as [r [<- Hr]].
  unfold has_id in H.
  assert (X : existsb (fun r0 => (r_id r0 =? r_id r)%N) l = true)
    by (apply existsb_exists; exists r; split; [exact Hr|apply N.eqb_refl]).
  congruence.
Qed.

Lemma latest_nodup : forall l, NoDup (map r_id (latest l)).
Proof.
  induction l as [|r l IH]; [constructor|].
  cbn [latest]. destruct (has_id (r_id r) l) eqn:E; [exact IH|].
  cbn [map]. constructor; [|exact IH].
  intro Hin. apply (has_id_false _ _ E).
  apply in_map_iff in Hin. destruct Hin as [z [Hz Hin]].
  apply in_map_iff. exists z. split; [exact Hz|apply latest_incl; exact Hin].
Qed.

Lemma filter_map_nodup : forall (p : nrec -> bool) l,
  NoDup (map r_id l) -> NoDup (map r_id (filter p l)).
Proof.
  intros p l. induction l as [|x l IH]; intro H; [constructor|].
  cbn [map] in H. inversion H as [|? ? Hn Hd]; subst.
  cbn [filter]. destruct (p x); [|apply IH; exact Hd].
  cbn [map]. constructor; [|apply IH; exact Hd].
  intro Hin. apply Hn. apply in_map_iff in Hin. destruct Hin as [z [Hz Hin]].
  apply in_map_iff. exists z. split; [exact Hz|]. apply filter_In in Hin. tauto.
Qed.

Lemma node_sequence_nodup : forall all th b, NoDup (map r_id (node_sequence all th b)).
Proof.
  intros all th b. unfold node_sequence.
  eapply Permutation_NoDup; [apply Permutation_map, Permutation_sym, sort_perm|].
  apply filter_map_nodup, latest_nodup.
Qed.

Lemma nodes_list_nodup : forall all th b, NoDup (map r_id (nodes_list all th b)).
Proof.
  intros all th b. unfold nodes_list.
  destruct (find _ (rev all)); [apply node_sequence_nodup|constructor].
Qed.

Lemma node_sequence_incl : forall all th b x, In x (node_sequence all th b) -> In x all.
Proof.
  intros all th b x H. unfold node_sequence in H. apply (proj1 (sort_in _ _)) in H.
  apply filter_In in H. destruct H as [H _].
  apply latest_incl in H. apply take_before_incl in H. exact H.
Qed.

Lemma nodes_list_incl : forall all th b x, In x (nodes_list all th b) -> In x all.
Proof.
  intros all th b x H. unfold nodes_list in H.
  destruct (find _ (rev all)); [eapply node_sequence_incl; exact H|contradiction].
Qed.

(* the accepted-only view is the accepted part of the full view *)
Lemma nodes_list_accepted : forall all th,
  nodes_list all th true = filter is_accepted (nodes_list all th false).
Proof.
  intros all th. unfold nodes_list. destruct (find _ (rev all)); [|reflexivity].
  unfold node_sequence. rewrite filter_sort. cbn [negb orb].
  rewrite filter_true. reflexivity.
Qed.

(* ---- election ----------------------------------------------------------- *)

Lemma split_ends : forall (l : list nrec), (2 <= length l)%nat ->
  exists a m z, l = a :: m ++ [z].
Proof.
  intros l H. destruct l as [|a l]; [cbn in H; lia|].
  destruct (exists_last (l := l)) as [m [z ->]]; [intro X; subst; cbn in H; lia|].
  exists a, m, z. reflexivity.
Qed.

Lemma middle_ends : forall a m z, middle (a :: m ++ [z]) = m.
Proof. intros. unfold middle. cbn [tl]. apply removelast_last. Qed.

Lemma min_nodes_ge_3 : 3 <= Consts.QMinNodes.
Proof. vm_compute. discriminate. Qed.

Lemma elect_on_spec : forall l day op,
  valid_op op = true -> Consts.QMinNodes <= Z.of_nat (length l) ->
  exists r, elect_on l day op = Ok (r_id r) /\ In r (middle l).
Proof.
  intros l day op Hop Hlen. unfold elect_on. rewrite Hop. cbn [negb].
  destruct (Z.of_nat (length l) <? Consts.QMinNodes) eqn:E; [apply Z.ltb_lt in E; lia|].
  pose proof min_nodes_ge_3 as H3.
  destruct (split_ends l) as [a [m [z ->]]]; [lia|].
  rewrite middle_ends.
  assert (Hm : (1 <= length m)%nat).
  { cbn [length] in Hlen. rewrite app_length in Hlen. cbn [length] in Hlen. lia. }
  destruct m as [|m0 m']; [cbn in Hm; lia|].
  set (mm := m0 :: m') in *.
  assert (Hidx : (Z.to_nat ((day + op) mod Z.of_nat (length mm)) < length mm)%nat).
  { pose proof (Z.mod_pos_bound (day + op) (Z.of_nat (length mm))). lia. }
  destruct (nth_error mm (Z.to_nat ((day + op) mod Z.of_nat (length mm)))) as [r|] eqn:En.
  - exists r. split; [reflexivity|]. eapply nth_error_In; exact En.
  - apply nth_error_None in En. lia.
Qed.

Lemma nodup_ends : forall (a z : nrec) m r,
  NoDup (map r_id (a :: m ++ [z])) -> In r m -> r_id r <> r_id a /\ r_id r <> r_id z.
Proof.
  intros a z m r H Hin. cbn [map] in H. inversion H as [|? ? Hna Hd]; subst.
  split.
  - intro X. apply Hna. rewrite <- X. apply in_map. apply in_or_app. left; exact Hin.
  - intro X. rewrite map_app in Hd. cbn [map] in Hd.
    apply NoDup_remove_2 in Hd. apply Hd. rewrite app_nil_r.
    rewrite <- X. apply in_map. exact Hin.
Qed.

Lemma elect_not_ends : forall all epoch op now,
  valid_op op = true ->
  Consts.QMinNodes <= Z.of_nat (length (nodes_list all now true)) ->
  exists id, elect all epoch op now = Ok id
    /\ In id (map r_id (nodes_list all now true))
    /\ (forall a, hd_error (nodes_list all now true) = Some a -> id <> r_id a)
    /\ (forall z, hd_error (rev (nodes_list all now true)) = Some z -> id <> r_id z).
Proof.
  intros all epoch op now Hop Hlen. unfold elect.
  destruct (elect_on_spec _ (day_of epoch now) op Hop Hlen) as [r [He Hin]].
  exists (r_id r). split; [exact He|].
  pose proof (nodes_list_nodup all now true) as Hnd.
  pose proof min_nodes_ge_3 as H3.
  destruct (split_ends (nodes_list all now true)) as [a [m [z Hl]]]; [lia|].
  rewrite Hl in *. rewrite middle_ends in Hin.
  destruct (nodup_ends a z m r Hnd Hin) as [Ha Hz].
  split; [|split].
  - apply in_map. right. apply in_or_app. left; exact Hin.
  - intros a' Hh. cbn in Hh. inversion Hh; subst. exact Ha.
  - intros z' Hh. change (a :: m ++ [z]) with ((a :: m) ++ [z]) in Hh.
    rewrite rev_app_distr in Hh. cbn in Hh. inversion Hh; subst. exact Hz.
Qed.

Lemma elect_function : forall all all' epoch epoch' op now now',
  nodes_list all now true = nodes_list all' now' true ->
  day_of epoch now = day_of epoch' now' ->
  elect all epoch op now = elect all' epoch' op now'.
Proof. intros. unfold elect. congruence. Qed.

(* ---- removal ------------------------------------------------------------ *)

Lemma remove_scan_none : forall now l ca,
  remove_scan now None l = Ok ca -> fst ca = None /\ snd ca = filter is_accepted l.
Proof.
  intros now l. induction l as [|cn l IH]; intros ca H.
  - cbn in H. inversion H; subst. split; reflexivity.
  - cbn [remove_scan tx_matches] in H.
    destruct (now <? r_ts cn); [discriminate|].
    destruct (to_int64 (now - r_ts cn) <? Consts.QPledgePeriodMinimum); [discriminate|].
    cbn [filter]. unfold is_accepted at 1.
    destruct (r_state cn) eqn:Es.
    + discriminate.
    + destruct (remove_scan now None l) as [ca'| |] eqn:E; cbn [bind] in H; try discriminate.
      inversion H; subst. cbn [fst snd]. destruct (IH ca' eq_refl) as [H1 H2].
      split; [exact H1|rewrite H2; reflexivity].
    + apply IH; exact H.
    + apply IH; exact H.
Qed.

Lemma check_remove_not_self : forall all epoch node_id now old c,
  check_remove all epoch node_id now old = Ok c -> r_id c <> node_id.
Proof.
  intros all epoch node_id now old c H. unfold check_remove in H.
  destruct (pledging_node all now); [discriminate|].
  destruct (now <? epoch); [discriminate|].
  destruct (negb (accept_hour epoch now)); [discriminate|].
  destruct (remove_scan now old (nodes_list all now false)) as [ca| |]; cbn [bind] in H; try discriminate.
  destruct (Z.of_nat (length (snd ca)) <=? Consts.QMinNodes); [discriminate|].
  destruct (match fst ca with Some c0 => Some c0 | None => hd_error (snd ca) end) as [candi|]; [|discriminate].
  destruct (r_id candi =? node_id)%N eqn:E; [discriminate|].
  inversion H; subst. apply N.eqb_neq. exact E.
Qed.

Lemma check_remove_window : forall all epoch node_id now old c,
  check_remove all epoch node_id now old = Ok c ->
  epoch <= now /\ accept_hour epoch now = true /\ pledging_node all now = None.
Proof.
  intros all epoch node_id now old c H. unfold check_remove in H.
  destruct (pledging_node all now); [discriminate|].
  destruct (now <? epoch) eqn:E1; [discriminate|]. apply Z.ltb_ge in E1.
  destruct (accept_hour epoch now); [|discriminate]. auto.
Qed.

(* without a named transaction the candidate is the oldest accepted node and
   more than the minimum number of nodes are accepted *)
Lemma check_remove_head : forall all epoch node_id now c,
  check_remove all epoch node_id now None = Ok c ->
  hd_error (nodes_list all now true) = Some c /\
  Consts.QMinNodes < Z.of_nat (length (nodes_list all now true)).
Proof.
  intros all epoch node_id now c H. unfold check_remove in H.
  destruct (pledging_node all now); [discriminate|].
  destruct (now <? epoch); [discriminate|].
  destruct (negb (accept_hour epoch now)); [discriminate|].
  destruct (remove_scan now None (nodes_list all now false)) as [ca| |] eqn:Es; cbn [bind] in H; try discriminate.
  destruct (remove_scan_none _ _ _ Es) as [H1 H2].
  rewrite nodes_list_accepted. rewrite <- H2.
  destruct (Z.of_nat (length (snd ca)) <=? Consts.QMinNodes) eqn:El; [discriminate|].
  apply Z.leb_gt in El. rewrite H1 in H.
  destruct (hd_error (snd ca)) as [candi|]; [|discriminate].
  destruct (r_id candi =? node_id)%N; [discriminate|].
  inversion H; subst. split; [reflexivity|exact El].
Qed.

Lemma elected_not_removed : forall all epoch node_id now c e,
  check_remove all epoch node_id now None = Ok c ->
  elect all epoch Consts.QOpNodeRemove now = Ok e ->
  e <> r_id c.
Proof.
  intros all epoch node_id now c e Hc He.
  destruct (check_remove_head _ _ _ _ _ Hc) as [Hh Hl].
  destruct (elect_not_ends all epoch Consts.QOpNodeRemove now) as [id [He' [_ [Ha _]]]];
    [vm_compute; reflexivity|lia|].
  rewrite He in He'. inversion He'; subst. apply Ha. exact Hh.
Qed.

(* ---- hours ---------------------------------------------------------------- *)

Lemma hour_of_range : forall epoch ts, 0 <= hour_of epoch ts < 24.
Proof. intros. unfold hour_of. apply Z.mod_pos_bound. lia. Qed.

Lemma accept_hour_spec : forall epoch ts,
  accept_hour epoch ts = true <->
  Consts.QAcceptTimeBegin <= hour_of epoch ts <= Consts.QAcceptTimeEnd.
Proof. intros. unfold accept_hour. cbv zeta. lia. Qed.

Lemma mint_hour_spec : forall epoch ts,
  mint_hour epoch ts = true <->
  Consts.QMintTimeBegin <= hour_of epoch ts <= Consts.QMintTimeEnd.
Proof. intros. unfold mint_hour. cbv zeta. lia. Qed.

Lemma pledge_hour_spec : forall epoch ts,
  pledge_hour epoch ts = true <->
  ~ (Consts.QMintTimeBegin <= hour_of epoch ts <= Consts.QMintTimeEnd) /\
  ~ (Consts.QAcceptTimeBegin <= hour_of epoch ts <= Consts.QAcceptTimeEnd).
Proof.
  intros. unfold pledge_hour. rewrite andb_true_iff, !negb_true_iff.
  rewrite <- !not_true_iff_false, mint_hour_spec, accept_hour_spec. tauto.
Qed.

Lemma mint_window_spec : forall epoch ts,
  mint_window_batch epoch ts <> 0 ->
  epoch < ts /\
  Consts.QMintTimeBegin <= ((ts - epoch) / Consts.QHour) mod 24 <= Consts.QMintTimeEnd /\
  mint_window_batch epoch ts = (ts - epoch) / Consts.QHour / 24 /\ 1 <= mint_window_batch epoch ts.
Proof.
  intros epoch ts H. unfold mint_window_batch in *.
  destruct (ts <=? epoch) eqn:E1; [congruence|]. apply Z.leb_gt in E1.
  cbv zeta in *.
  destruct ((ts - epoch) / Consts.QHour / 24 <? 1) eqn:E2; [congruence|]. apply Z.ltb_ge in E2.
  destruct (((ts - epoch) / Consts.QHour mod 24 <? Consts.QMintTimeBegin)
            || (Consts.QMintTimeEnd <? (ts - epoch) / Consts.QHour mod 24)) eqn:E3; [congruence|].
  repeat split; lia.
Qed.

Lemma mint_window_complete : forall epoch ts,
  epoch < ts -> 1 <= (ts - epoch) / Consts.QHour / 24 ->
  Consts.QMintTimeBegin <= ((ts - epoch) / Consts.QHour) mod 24 <= Consts.QMintTimeEnd ->
  mint_window_batch epoch ts = (ts - epoch) / Consts.QHour / 24.
Proof.
  intros epoch ts H1 H2 H3. unfold mint_window_batch.
  destruct (ts <=? epoch) eqn:E1; [apply Z.leb_le in E1; lia|].
  cbv zeta.
  destruct ((ts - epoch) / Consts.QHour / 24 <? 1) eqn:E2; [apply Z.ltb_lt in E2; lia|].
  destruct (((ts - epoch) / Consts.QHour mod 24 <? Consts.QMintTimeBegin)
            || (Consts.QMintTimeEnd <? (ts - epoch) / Consts.QHour mod 24)) eqn:E3; [lia|reflexivity].
Qed.

Lemma accept_timing_window : forall all epoch ts chain,
  accept_timing all epoch ts chain = Ok tt ->
  epoch <= ts /\ accept_hour epoch ts = true /\
  exists p, pledging_node all ts = Some p /\ r_ts p <= ts /\
            Consts.QAcceptPeriodMinimum <= to_int64 (ts - r_ts p) <= Consts.QAcceptPeriodMaximum.
Proof.
  intros all epoch ts chain H. unfold accept_timing in H.
  destruct (pledging_node all ts) as [p|]; [|discriminate].
  destruct (match chain with Some c => negb (r_id p =? c)%N | None => false end); [discriminate|].
  destruct (ts <? epoch) eqn:E1; [discriminate|]. apply Z.ltb_ge in E1.
  destruct (accept_hour epoch ts); [|discriminate]. cbn [negb] in H.
  destruct (ts <? r_ts p) eqn:E2; [discriminate|]. apply Z.ltb_ge in E2.
  cbv zeta in H.
  destruct (to_int64 (ts - r_ts p) <? Consts.QAcceptPeriodMinimum) eqn:E3; [discriminate|].
  destruct (Consts.QAcceptPeriodMaximum <? to_int64 (ts - r_ts p)) eqn:E4; [discriminate|].
  split; [exact E1|]. split; [reflexivity|]. exists p. split; [reflexivity|]. lia.
Qed.

(* ---- order independence of the loaded history ----------------------------- *)

(* The storage layer keys a membership record by (timestamp, signer), and the
   node id is derived from the signer, so no two records of a history carry the
   same (timestamp, id) pair.  storage.ReadAllNodes hands equal-timestamp
   records over in the iteration order of a Go map; LoadConsensusNodes re-sorts
   by (timestamp, id).  Under that guarantee the sorted history is unique. *)
Definition rec_key (r : nrec) : Z * N := (r_ts r, r_id r).
Definition distinct_keys (recs : list nrec) : Prop := NoDup (map rec_key recs).

Lemma rec_lt_both_false : forall a b,
  rec_lt a b = false -> rec_lt b a = false -> rec_key a = rec_key b.
Proof.
  intros a b H1 H2. unfold rec_key.
  assert (N1 : ~ (r_ts a < r_ts b \/ (r_ts a = r_ts b /\ (r_id a < r_id b)%N)))
    by (intro X; apply rec_lt_spec in X; congruence).
  assert (N2 : ~ (r_ts b < r_ts a \/ (r_ts b = r_ts a /\ (r_id b < r_id a)%N)))
    by (intro X; apply rec_lt_spec in X; congruence).
  f_equal; lia.
Qed.

Lemma rec_lt_irrefl : forall a, rec_lt a a = false.
Proof.
  intro a. destruct (rec_lt a a) eqn:E; [|reflexivity]. apply rec_lt_spec in E. lia.
Qed.

Lemma distinct_keys_inj : forall l a b,
  distinct_keys l -> In a l -> In b l -> rec_key a = rec_key b -> a = b.
Proof.
  unfold distinct_keys. induction l as [|x l IH]; intros a b Hd Ha Hb Hk; [contradiction|].
  cbn [map] in Hd. inversion Hd as [|? ? Hn Hd']; subst.
  destruct Ha as [<-|Ha]; destruct Hb as [<-|Hb].
  - reflexivity.
  - exfalso. apply Hn. rewrite Hk. apply in_map; exact Hb.
  - exfalso. apply Hn. rewrite <- Hk. apply in_map; exact Ha.
  - apply IH; assumption.
Qed.

Lemma sorted_head_min : forall y l z, sorted (y :: l) -> In z (y :: l) -> rec_lt z y = false.
Proof.
  intros y l z Hs Hz. inversion Hs as [|? ? Hy _]; subst.
  destruct Hz as [<-|Hz]; [apply rec_lt_irrefl|].
  rewrite Forall_forall in Hy. apply Hy; exact Hz.
Qed.

(* a total order that is antisymmetric on distinct keys has one sorted permutation *)
Lemma sorted_perm_unique : forall l l',
  sorted l -> sorted l' -> Permutation l l' -> distinct_keys l -> l = l'.
Proof.
  induction l as [|x t IH]; intros l' Hs Hs' Hp Hd.
  - apply Permutation_nil in Hp. subst. reflexivity.
  - destruct l' as [|y t']; [apply Permutation_sym, Permutation_nil in Hp; discriminate|].
    assert (Hxy : x = y).
    { assert (Hx : In x (y :: t')) by (eapply Permutation_in; [exact Hp|left; reflexivity]).
      assert (Hy : In y (x :: t)) by (eapply Permutation_in; [apply Permutation_sym; exact Hp|left; reflexivity]).
      apply (distinct_keys_inj (x :: t)); [exact Hd|left; reflexivity|exact Hy|].
      apply rec_lt_both_false.
      - eapply sorted_head_min; [exact Hs'|exact Hx].
      - eapply sorted_head_min; [exact Hs|exact Hy]. }
    subst y. f_equal.
    inversion Hs as [|? ? _ Hst]; inversion Hs' as [|? ? _ Hst']; subst.
    apply IH; [exact Hst|exact Hst'|eapply Permutation_cons_inv; exact Hp|].
    unfold distinct_keys in *. cbn [map] in Hd. inversion Hd; assumption.
Qed.

Lemma load_perm : forall recs recs',
  Permutation recs recs' -> distinct_keys recs -> load recs = load recs'.
Proof.
  intros recs recs' Hp Hd. unfold load.
  apply sorted_perm_unique; [apply sort_sorted|apply sort_sorted| |].
  - eapply perm_trans; [apply sort_perm|]. eapply perm_trans; [exact Hp|apply Permutation_sym, sort_perm].
  - unfold distinct_keys in *. eapply Permutation_NoDup; [|exact Hd].
    apply Permutation_map, Permutation_sym, sort_perm.
Qed.

Lemma distinct_keys_dec : forall recs,
  (fix nd (l : list nrec) : bool :=
     match l with
     | [] => true
     | r :: l' => negb (existsb (fun r' => (r_ts r' =? r_ts r) && (r_id r' =? r_id r)%N) l') && nd l'
     end) recs = true -> distinct_keys recs.
Proof.
  unfold distinct_keys. induction recs as [|r l IH]; intro H; [constructor|].
  apply andb_true_iff in H. destruct H as [H1 H2]. cbn [map]. constructor; [|apply IH; exact H2].
  intro Hin. apply in_map_iff in Hin. destruct Hin as [r' [Hk Hr']].
  apply negb_true_iff in H1.
  assert (X : existsb (fun r0 => (r_ts r0 =? r_ts r) && (r_id r0 =? r_id r)%N) l = true).
  { apply existsb_exists. exists r'. split; [exact Hr'|]. unfold rec_key in Hk. inversion Hk as [[E1 E2]].
    rewrite E1, E2, Z.eqb_refl, N.eqb_refl. reflexivity. }
  congruence.
Qed.
