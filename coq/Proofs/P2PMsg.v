(* Lemmas about Model/P2PMsg.v: slices, big-endian codec, totality of the
   parser, round trips of every builder, point checks, framing, size formula
   and the batcher bound. *)
From Coq Require Import List ZArith NArith Bool Lia ZifyN ZifyNat ZifyBool.
Require Import Mixin.Base.Res Mixin.Gen.Consts Mixin.Model.P2PMsg.
Import ListNotations.
Open Scope Z_scope.

(* ---- lengths ---------------------------------------------------------------- *)

Lemma len_nonneg : forall {A} (b : list A), 0 <= len b.
Proof. intros. unfold len. lia. Qed.

Lemma len_nil : forall {A}, len (@nil A) = 0.
Proof. reflexivity. Qed.

Lemma len_cons : forall {A} (x : A) b, len (x :: b) = 1 + len b.
Proof. intros. unfold len. cbn [length]. lia. Qed.

Lemma len_app : forall {A} (a b : list A), len (a ++ b) = len a + len b.
Proof. intros. unfold len. rewrite app_length. lia. Qed.

Lemma len_firstn : forall {A} (b : list A) n, 0 <= n <= len b -> len (firstn (Z.to_nat n) b) = n.
Proof. intros A b n H. unfold len in *. rewrite firstn_length. lia. Qed.

Lemma len_skipn : forall {A} (b : list A) n, 0 <= n <= len b -> len (skipn (Z.to_nat n) b) = len b - n.
Proof. intros A b n H. unfold len in *. rewrite skipn_length. lia. Qed.

Lemma len_repeat : forall {A} (x : A) n, len (repeat x n) = Z.of_nat n.
Proof. intros. unfold len. now rewrite repeat_length. Qed.

Lemma len_zero_nil : forall {A} (b : list A), len b = 0 -> b = [].
Proof. intros A [|x b] H; [reflexivity|]. rewrite len_cons in H. pose proof (len_nonneg b). lia. Qed.

(* ---- slices ------------------------------------------------------------------ *)

Lemma slice_spec : forall b lo hi, 0 <= lo <= hi -> hi <= len b ->
  exists r, slice b lo hi = Ok r /\ len r = hi - lo /\ r = firstn (Z.to_nat (hi - lo)) (skipn (Z.to_nat lo) b).
Proof.
  intros b lo hi H1 H2. unfold slice.
  replace ((0 <=? lo) && (lo <=? hi) && (hi <=? len b)) with true by lia.
  eexists; split; [reflexivity|split; [|reflexivity]].
  rewrite len_firstn; [lia|]. rewrite len_skipn; lia.
Qed.

Lemma slice_ok_inv : forall b lo hi r, slice b lo hi = Ok r ->
  0 <= lo <= hi /\ hi <= len b /\ len r = hi - lo.
Proof.
  intros b lo hi r H. unfold slice in H.
  destruct ((0 <=? lo) && (lo <=? hi) && (hi <=? len b)) eqn:E; [|discriminate].
  inversion H; subst. assert (0 <= lo <= hi /\ hi <= len b) as (H1 & H2) by lia.
  repeat split; try lia. rewrite len_firstn; [lia|]. rewrite len_skipn; lia.
Qed.

Lemma slice_not_err : forall b lo hi, slice b lo hi <> Err.
Proof. intros. unfold slice. destruct (_ && _); discriminate. Qed.

Lemma skipn_app_exact : forall {A} (a b : list A), skipn (length a) (a ++ b) = b.
Proof. intros. rewrite skipn_app, skipn_all, Nat.sub_diag. reflexivity. Qed.

Lemma firstn_app_exact : forall {A} (a b : list A), firstn (length a) (a ++ b) = a.
Proof. intros. rewrite firstn_app, firstn_all, Nat.sub_diag. cbn. now rewrite app_nil_r. Qed.

Lemma slice_app3 : forall a x b lo hi, lo = len a -> hi = len a + len x -> slice (a ++ x ++ b) lo hi = Ok x.
Proof.
  intros a x b lo hi -> ->. unfold slice.
  pose proof (len_nonneg a). pose proof (len_nonneg x). pose proof (len_nonneg b).
  replace (_ && _ && _) with true by (rewrite !len_app; lia).
  f_equal. replace (Z.to_nat (len a)) with (length a) by (unfold len; lia).
  rewrite skipn_app_exact. replace (Z.to_nat (len a + len x - len a)) with (length x) by (unfold len; lia).
  apply firstn_app_exact.
Qed.

Lemma slice_from_app : forall a b lo, lo = len a -> slice_from (a ++ b) lo = Ok b.
Proof.
  intros a b lo ->. unfold slice_from. 
  replace (a ++ b) with (a ++ b ++ []) by now rewrite app_nil_r.
  apply slice_app3; [reflexivity|]. rewrite !len_app, len_nil. lia.
Qed.

Lemma slice_from_0 : forall b, slice_from b 0 = Ok b.
Proof. intros. apply (slice_from_app [] b). reflexivity. Qed.

Lemma index_cons_0 : forall x b, index (x :: b) 0 = Ok x.
Proof.
  intros. unfold index. rewrite len_cons. pose proof (len_nonneg b).
  replace ((0 <=? 0) && (0 <? 1 + len b)) with true by lia. reflexivity.
Qed.

Lemma copy_arr_exact : forall n x rest, length x = n -> copy_arr n (x ++ rest) = x.
Proof.
  intros n x rest <-. unfold copy_arr. rewrite <- app_assoc. apply firstn_app_exact.
Qed.

Lemma copy_arr_exact' : forall n x, length x = n -> copy_arr n x = x.
Proof. intros. rewrite <- (app_nil_r x) at 1. now apply copy_arr_exact. Qed.

Lemma length_copy_arr : forall n src, length (copy_arr n src) = n.
Proof.
  intros. unfold copy_arr. apply firstn_length_le. rewrite app_length, repeat_length. lia.
Qed.

(* ---- big-endian ----------------------------------------------------------------- *)

Lemma be_val_acc_app : forall a b acc, be_val_acc acc (a ++ b) = be_val_acc (be_val_acc acc a) b.
Proof. induction a as [|x a IH]; intros; cbn; [reflexivity|apply IH]. Qed.

Lemma be_val_acc_nonneg : forall b acc, 0 <= acc -> 0 <= be_val_acc acc b.
Proof. induction b as [|x b IH]; intros; cbn; [assumption|apply IH; lia]. Qed.

Lemma be_val_nonneg : forall b, 0 <= be_val b.
Proof. intros. apply be_val_acc_nonneg. lia. Qed.

Lemma be_val_snoc : forall a x, be_val (a ++ [x]) = be_val a * 256 + Z.of_N x.
Proof. intros. unfold be_val. rewrite be_val_acc_app. reflexivity. Qed.

Lemma be_val_be_bytes : forall k v, 0 <= v -> be_val (be_bytes k v) = v mod 256 ^ Z.of_nat k.
Proof.
  induction k as [|k IH]; intros v Hv.
  - cbn. now rewrite Z.mod_1_r.
  - cbn [be_bytes]. rewrite be_val_snoc, IH by (apply Z.div_pos; lia).
    rewrite Z2N.id by (apply Z.mod_pos_bound; lia).
    replace (Z.of_nat (S k)) with (1 + Z.of_nat k) by lia.
    rewrite Z.pow_add_r by lia. change (256 ^ 1) with 256.
    assert (0 < 256 ^ Z.of_nat k) by (apply Z.pow_pos_nonneg; lia).
    rewrite Z.rem_mul_r by lia. lia.
Qed.

Lemma length_be_bytes : forall k v, length (be_bytes k v) = k.
Proof. induction k; intros; cbn; [reflexivity|]. rewrite app_length, IHk. cbn. lia. Qed.

Lemma len_be_bytes : forall k v, len (be_bytes k v) = Z.of_nat k.
Proof. intros. unfold len. now rewrite length_be_bytes. Qed.

Lemma be_roundtrip : forall k v, 0 <= v < 256 ^ Z.of_nat k -> be_val (be_bytes k v) = v.
Proof. intros. rewrite be_val_be_bytes by lia. apply Z.mod_small. assumption. Qed.

Lemma wrap32_small : forall z, 0 <= z < 4294967296 -> wrap32 z = z.
Proof. intros. unfold wrap32. change (2 ^ 32) with 4294967296. now apply Z.mod_small. Qed.

Lemma wrap16_small : forall z, 0 <= z < 65536 -> wrap16 z = z.
Proof. intros. unfold wrap16. change (2 ^ 16) with 65536. now apply Z.mod_small. Qed.

(* ---- totality of the parser ------------------------------------------------------- *)

Ltac consts :=
  change hash_size with 32 in *; change sig_size with 64 in *; change key_size with 32 in *;
  change commitments_max with 1024 in *; change max_encoding_int with 65535 in *;
  change hash_n with 32%nat in *; change key_n with 32%nat in *; change sig_n with 64%nat in *.

(* resolve one [slice] in head position of a goal [_ <> Panic] *)
Ltac do_slice :=
  match goal with
  | |- bind (slice ?b ?lo ?hi) _ <> Panic =>
      let r := fresh "r" in let E := fresh "E" in let L := fresh "L" in
      destruct (slice_spec b lo hi) as (r & E & L & _); [lia | lia | rewrite E; cbn [bind]]
  end.

Ltac np_step :=
  match goal with
  | |- Err <> Panic => discriminate
  | |- Ok _ <> Panic => discriminate
  | |- (if ?c then _ else _) <> Panic => destruct c eqn:?
  | |- bind (slice _ _ _) _ <> Panic => do_slice
  | |- match ?o with Some _ => _ | None => _ end <> Panic => destruct o eqn:?
  end.

Section Total.
Variables SN TX : Type.
Variable snap_body : bytes -> option SN.
Variable snap_signed : SN -> bool.
Variable tx_body : bytes -> option TX.
Variable check_key : bytes -> bool.

Notation parse_txs_loop := (parse_txs_loop TX tx_body).
Notation parse_txs_payload := (parse_txs_payload TX tx_body).
Notation parse_body := (parse_body SN TX snap_body snap_signed tx_body check_key).
Notation parse_msg := (parse_msg SN TX snap_body snap_signed tx_body check_key).

Lemma parse_txs_loop_no_panic : forall n data, len data < 4294967296 -> parse_txs_loop n data <> Panic.
Proof.
  induction n as [|n IH]; intros data Hlen; cbn [P2PMsg.parse_txs_loop].
  - destruct (0 <? len data); discriminate.
  - pose proof (len_nonneg data). unfold slice_from.
    np_step; [discriminate|]. do_slice. do_slice.
    pose proof (be_val_nonneg r). np_step; [discriminate|].
    rewrite (wrap32_small (4 + be_val r)) by lia.
    do_slice. np_step; [|discriminate]. do_slice.
    specialize (IH r2 ltac:(lia)). destruct (parse_txs_loop n r2); [discriminate|discriminate|congruence].
Qed.

Lemma parse_txs_payload_no_panic : forall data, len data < 4294967296 -> parse_txs_payload data <> Panic.
Proof.
  intros data Hlen. unfold P2PMsg.parse_txs_payload. pose proof (len_nonneg data).
  np_step; [discriminate|]. unfold index.
  replace ((0 <=? 0) && (0 <? len data)) with true by lia. cbn [bind]. unfold slice_from. do_slice.
  apply parse_txs_loop_no_panic. lia.
Qed.

Lemma dec_read_no_panic : forall n r, dec_read n r <> Panic.
Proof. intros. unfold dec_read. destruct (len r <? n); discriminate. Qed.

Lemma read_points_no_panic : forall n r, read_points n r <> Panic.
Proof.
  induction n as [|n IH]; intros r; cbn [read_points]; [discriminate|].
  destruct (dec_read hash_size r) as [[a r1]| |] eqn:E1; cbn [bind]; try discriminate; [|now apply dec_read_no_panic in E1].
  destruct (dec_read 8 r1) as [[b r2]| |] eqn:E2; cbn [bind]; try discriminate; [|now apply dec_read_no_panic in E2].
  destruct (dec_read hash_size r2) as [[c r3]| |] eqn:E3; cbn [bind]; try discriminate; [|now apply dec_read_no_panic in E3].
  specialize (IH r3). destruct (read_points n r3); cbn [bind]; [discriminate|discriminate|congruence].
Qed.

Lemma unmarshal_sync_points_no_panic : forall b, unmarshal_sync_points b <> Panic.
Proof.
  intros b. unfold unmarshal_sync_points, slice_from. pose proof (len_nonneg b).
  np_step; [discriminate|]. do_slice. np_step; [discriminate|]. do_slice.
  destruct (dec_read 2 r0) as [[cb r1]| |] eqn:E1; cbn [bind]; try discriminate; [|now apply dec_read_no_panic in E1].
  np_step; [discriminate|]. apply read_points_no_panic.
Qed.

Lemma precommit_loop_no_panic : forall data n i, 0 <= i -> i + Z.of_nat n <= 1024 ->
  67 + 32 * (i + Z.of_nat n) <= len data -> precommit_loop check_key data n i <> Panic.
Proof.
  intros data n. induction n as [|n IH]; intros i Hi Hn Hlen; cbn [precommit_loop]; [discriminate|].
  rewrite wrap16_small by lia. unfold slice_from. do_slice.
  np_step; [|discriminate].
  specialize (IH (i + 1) ltac:(lia) ltac:(lia) ltac:(lia)).
  destruct (precommit_loop check_key data n (i + 1)); cbn [bind]; [discriminate|discriminate|congruence].
Qed.

Lemma wants_loop_no_panic : forall txs n i, 0 <= i -> (i + Z.of_nat n) * 32 <= len txs ->
  wants_loop txs n i <> Panic.
Proof.
  intros txs n. induction n as [|n IH]; intros i Hi Hlen; cbn [wants_loop]; [discriminate|].
  consts. unfold slice_from. do_slice.
  specialize (IH (i + 1) ltac:(lia) ltac:(lia)).
  destruct (wants_loop txs n (i + 1)); cbn [bind]; [discriminate|discriminate|congruence].
Qed.

Ltac np_payload r :=
  let H := fresh "H" in
  assert (H : parse_txs_payload r <> Panic) by (apply parse_txs_payload_no_panic; lia);
  destruct (parse_txs_payload r); cbn [bind]; [discriminate|discriminate|congruence].

Lemma parse_body_no_panic : forall t data, 1 <= len data < 4294967296 -> parse_body t data <> Panic.
Proof.
  intros t data Hlen. unfold P2PMsg.parse_body, slice_from. consts.
  repeat match goal with
  | |- (if (t =? ?c) then _ else _) <> Panic => destruct (t =? c) eqn:?
  | |- (if ((t =? ?c) || (t =? ?d)) then _ else _) <> Panic => destruct ((t =? c) || (t =? d)) eqn:?
  end.
  - (* pre-commitments *)
    np_step; [discriminate|]. do_slice. do_slice. pose proof (be_val_nonneg r0).
    np_step; [discriminate|]. do_slice. np_step; [discriminate|].
    assert (Hl : len data = 67 + 32 * be_val r0) by lia.
    assert (Hp : precommit_loop check_key data (Z.to_nat (be_val r0)) 0 <> Panic)
      by (apply precommit_loop_no_panic; lia).
    destruct (precommit_loop check_key data (Z.to_nat (be_val r0)) 0); cbn [bind]; [|discriminate|congruence].
    do_slice. discriminate.
  - (* graph *)
    np_step; [discriminate|]. do_slice. do_slice.
    pose proof (unmarshal_sync_points_no_panic r0).
    destruct (unmarshal_sync_points r0); cbn [bind]; [discriminate|discriminate|congruence].
  - repeat np_step.
  - np_step; [discriminate|]. do_slice. discriminate.
  - np_step; [discriminate|]. do_slice. discriminate.
  - do_slice. repeat np_step.
  - do_slice. np_payload r.
  - np_step; [discriminate|]. do_slice. discriminate.
  - (* announcement *)
    do_slice. np_step; [discriminate|]. do_slice. do_slice. np_step; [discriminate|]. do_slice. repeat np_step.
  - (* commitment *)
    do_slice. np_step; [discriminate|]. do_slice. do_slice. do_slice. np_step; [discriminate|].
    do_slice. np_step; [|discriminate]. np_step; [discriminate|].
    assert (Hw : wants_loop r3 (Z.to_nat (len r3 / 32)) 0 <> Panic).
    { apply wants_loop_no_panic; [lia|]. pose proof (Z.mul_div_le (len r3) 32 ltac:(lia)).
      pose proof (len_nonneg r3). pose proof (Z.div_pos (len r3) 32 ltac:(lia) ltac:(lia)). lia. }
    destruct (wants_loop r3 (Z.to_nat (len r3 / 32)) 0); cbn [bind]; [discriminate|discriminate|congruence].
  - (* full challenge *)
    do_slice. np_step; [discriminate|]. do_slice. pose proof (be_val_nonneg r0). do_slice.
    np_step; [discriminate|]. do_slice. np_step; [|discriminate]. np_step; [discriminate|].
    do_slice. np_step; [discriminate|]. do_slice. np_step; [discriminate|]. do_slice.
    np_step; [discriminate|]. do_slice. np_payload r6.
  - (* transaction challenge *)
    do_slice. np_step; [discriminate|]. do_slice. do_slice. do_slice. np_payload r2.
  - do_slice. np_step; [discriminate|]. do_slice. discriminate.
  - do_slice. repeat np_step.
  - repeat np_step.
  - do_slice. discriminate.
  - discriminate.
Qed.

Theorem parse_msg_no_panic : forall version data, len data < 4294967296 -> parse_msg version data <> Panic.
Proof.
  intros v data Hlen. unfold P2PMsg.parse_msg. pose proof (len_nonneg data).
  destruct (len data <? 1) eqn:E; [discriminate|]. unfold index.
  replace ((0 <=? 0) && (0 <? len data)) with true by lia. cbn [bind].
  pose proof (parse_body_no_panic (Z.of_N (nth (Z.to_nat 0) data 0%N)) data ltac:(lia)) as Hb.
  destruct (parse_body _ data); cbn [rmap]; [discriminate|discriminate|congruence].
Qed.

End Total.

(* ---- points are checked ------------------------------------------------------------ *)

Ltac inv_step H :=
  match type of H with
  | Err = Ok _ => discriminate H
  | Panic = Ok _ => discriminate H
  | Ok _ = Ok _ => inversion H; subst; clear H
  | (if ?c then _ else _) = Ok _ => destruct c eqn:?
  | bind ?x _ = Ok _ => destruct x eqn:?; cbn [bind] in H
  | match ?o with Some _ => _ | None => _ end = Ok _ => destruct o eqn:?
  end.

Section Points.
Variables SN TX : Type.
Variable snap_body : bytes -> option SN.
Variable snap_signed : SN -> bool.
Variable tx_body : bytes -> option TX.
Variable check_key : bytes -> bool.

Notation parse_body := (parse_body SN TX snap_body snap_signed tx_body check_key).
Notation parse_msg := (parse_msg SN TX snap_body snap_signed tx_body check_key).

Lemma precommit_loop_checked : forall data n i keys,
  precommit_loop check_key data n i = Ok keys -> Forall (fun k => check_key k = true) keys.
Proof.
  intros data n. induction n as [|n IH]; intros i keys H; cbn [precommit_loop] in H.
  - inversion H. constructor.
  - cbv zeta in H. repeat inv_step H. constructor; [assumption|]. eapply IH; eassumption.
Qed.

Lemma parse_body_points : forall t data m, parse_body t data = Ok m ->
  Forall (fun k => check_key k = true) (msg_points m).
Proof.
  intros t data m H. unfold P2PMsg.parse_body in H. cbv zeta in H.
  repeat inv_step H; cbn [msg_points]; repeat constructor;
    try (apply negb_false_iff; assumption).
  eapply precommit_loop_checked; eassumption.
Qed.

Theorem parse_msg_points : forall v data v' m, parse_msg v data = Ok (v', m) ->
  Forall (fun k => check_key k = true) (msg_points m).
Proof.
  intros v data v' m H. unfold P2PMsg.parse_msg in H.
  destruct (len data <? 1); [discriminate|].
  destruct (index data 0); cbn [bind] in H; try discriminate.
  destruct (parse_body (Z.of_N a) data) eqn:E; cbn [rmap] in H; try discriminate.
  inversion H; subst. eapply parse_body_points; eassumption.
Qed.

End Points.

(* ---- round trips -------------------------------------------------------------------- *)

Lemma Ok_inj : forall {A} (a b : A), Ok a = Ok b -> a = b.
Proof. intros A a b H. now inversion H. Qed.

Lemma slice_eq3 : forall d a x b lo hi, d = a ++ x ++ b -> lo = len a -> hi = len a + len x ->
  slice d lo hi = Ok x.
Proof. intros; subst. now apply slice_app3. Qed.

Lemma slice_from_eq : forall d a b lo, d = a ++ b -> lo = len a -> slice d lo (len d) = Ok b.
Proof. intros; subst. now apply (slice_from_app a b). Qed.

Lemma copy_arr_len : forall n x rest, len x = Z.of_nat n -> copy_arr n (x ++ rest) = x.
Proof. intros. apply copy_arr_exact. unfold len in *. lia. Qed.

Lemma copy_arr_len' : forall n x, len x = Z.of_nat n -> copy_arr n x = x.
Proof. intros. apply copy_arr_exact'. unfold len in *. lia. Qed.

#[global] Hint Rewrite @len_app @len_cons @len_nil len_be_bytes : len_rw.

Ltac list_eq := cbn [app]; repeat rewrite <- app_assoc; cbn [app]; reflexivity.
Ltac len_solve :=
  consts; autorewrite with len_rw in *; change tx_max_size with 4194304 in *;
  cbn [Z.of_nat Pos.of_succ_nat Pos.succ] in *; lia.
Ltac side := first [list_eq | len_solve].
(* slice d lo hi, where d = a ++ x ++ b *)
Ltac sl a x b := rewrite (slice_eq3 _ a x b) by side; cbn [bind].
(* slice d lo (len d), where d = a ++ b *)
Ltac sf a b := rewrite (slice_from_eq _ a b) by side; cbn [bind].
Ltac gd v :=
  match goal with |- context [if ?c then _ else _] => replace c with v by len_solve end; cbv beta iota.
Ltac dispatch :=
  unfold P2PMsg.parse_body;
  repeat match goal with |- context [Z.of_N (ty ?c) =? ?d] =>
    let v := eval vm_compute in (Z.of_N (ty c) =? d) in change (Z.of_N (ty c) =? d) with v end;
  cbn [orb]; cbv beta iota; unfold slice_from.

Section Roundtrip.
Variables SN TX : Type.
Variable snap_body : bytes -> option SN.
Variable snap_signed : SN -> bool.
Variable tx_body : bytes -> option TX.
Variable check_key : bytes -> bool.

Notation snap_dec := (snap_dec SN snap_body).
Notation tx_dec := (tx_dec TX tx_body).
Notation parse_txs_loop := (parse_txs_loop TX tx_body).
Notation parse_txs_payload := (parse_txs_payload TX tx_body).
Notation parse_body := (parse_body SN TX snap_body snap_signed tx_body check_key).
Notation parse_msg := (parse_msg SN TX snap_body snap_signed tx_body check_key).

Lemma parse_msg_cons : forall v t rest,
  parse_msg v (t :: rest) = rmap (fun m => (v, m)) (parse_body (Z.of_N t) (t :: rest)).
Proof.
  intros. unfold P2PMsg.parse_msg. rewrite len_cons. pose proof (len_nonneg rest).
  replace (1 + len rest <? 1) with false by lia. rewrite index_cons_0. reflexivity.
Qed.

Lemma snap_dec_len : forall b s, snap_dec b = Some s -> 4 <= len b.
Proof. intros b s H. unfold P2PMsg.snap_dec in H. destruct (len b <? 4) eqn:E; [discriminate|lia]. Qed.

Lemma tx_dec_len : forall b t, tx_dec b = Some t -> len b <= 4194304.
Proof.
  intros b t H. unfold P2PMsg.tx_dec in H. change tx_max_size with 4194304 in H.
  destruct (4194304 <? len b) eqn:E; [discriminate|lia].
Qed.

(* transactions payload *)
Lemma parse_txs_loop_build : forall txs ts,
  Forall2 (fun b t => tx_dec b = Some t) txs ts ->
  parse_txs_loop (length txs) (concat (map frame_tx txs)) = Ok ts.
Proof.
  induction 1 as [|b t txs ts Hb _ IH]; cbn [length map concat P2PMsg.parse_txs_loop].
  - reflexivity.
  - pose proof (tx_dec_len _ _ Hb) as Hl. pose proof (len_nonneg b). unfold frame_tx at 1.
    set (rest := concat (map frame_tx txs)). pose proof (len_nonneg rest).
    gd false. sl (@nil N) (be_bytes 4 (len b)) (b ++ rest).
    rewrite be_roundtrip by (change (256 ^ Z.of_nat 4) with 4294967296; lia).
    unfold slice_from. sf (be_bytes 4 (len b)) (b ++ rest).
    gd false. rewrite wrap32_small by lia.
    sl (be_bytes 4 (len b)) b rest. rewrite Hb.
    sf (be_bytes 4 (len b) ++ b) rest. subst rest. rewrite IH. reflexivity.
Qed.

Lemma parse_txs_payload_build : forall txs ts pl,
  Forall2 (fun b t => tx_dec b = Some t) txs ts ->
  build_txs_payload txs = Ok pl -> parse_txs_payload pl = Ok ts.
Proof.
  intros txs ts pl H Hb. unfold build_txs_payload in Hb. change txs_max with 255 in Hb.
  destruct (255 <? len txs) eqn:E; [discriminate|]. inversion Hb; subst; clear Hb.
  unfold P2PMsg.parse_txs_payload. rewrite len_cons.
  set (rest := concat (map frame_tx txs)). pose proof (len_nonneg rest).
  replace (1 + len rest <? 1) with false by lia. rewrite index_cons_0. cbn [bind]. unfold slice_from.
  sf [Z.to_N (len txs)] rest.
  replace (N.to_nat (Z.to_N (len txs))) with (length txs) by (unfold len; lia).
  now apply parse_txs_loop_build.
Qed.

Lemma len_payload : forall txs pl, build_txs_payload txs = Ok pl -> 1 <= len pl.
Proof.
  intros txs pl H. unfold build_txs_payload in H. destruct (txs_max <? len txs); [discriminate|].
  inversion H. rewrite len_cons. pose proof (len_nonneg (concat (map frame_tx txs))). lia.
Qed.

Theorem roundtrip_authentication : forall v data,
  1 + len data = Consts.P2P_AuthenticationMessageSize ->
  parse_msg v (build_authentication data) = Ok (v, MAuthentication data).
Proof.
  intros v data H. unfold build_authentication. rewrite parse_msg_cons. dispatch.
  gd false. sf [ty Consts.P2P_TypeAuthentication] data. reflexivity.
Qed.

Theorem roundtrip_snapshot_confirm : forall v h, len h = hash_size ->
  parse_msg v (build_snapshot_confirm h) = Ok (v, MSnapshotConfirm h).
Proof.
  intros v h H. unfold build_snapshot_confirm. rewrite parse_msg_cons. dispatch.
  gd false. sf [ty Consts.P2P_TypeSnapshotConfirm] h. rewrite copy_arr_len' by len_solve. reflexivity.
Qed.

Theorem roundtrip_transaction_request : forall v h, len h = hash_size ->
  parse_msg v (build_transaction_request h) = Ok (v, MTransactionRequest h).
Proof.
  intros v h H. unfold build_transaction_request. rewrite parse_msg_cons. dispatch.
  gd false. sf [ty Consts.P2P_TypeTransactionRequest] h. rewrite copy_arr_len' by len_solve. reflexivity.
Qed.

Theorem roundtrip_response : forall v h si, len h = hash_size -> len si = 32 ->
  parse_msg v (build_response h si) = Ok (v, MResponse h si).
Proof.
  intros v h si H1 H2. unfold build_response. rewrite parse_msg_cons. dispatch.
  sf [ty Consts.P2P_TypeResponse] (h ++ si). gd false.
  sf (ty Consts.P2P_TypeResponse :: h) si.
  rewrite copy_arr_len by len_solve. rewrite copy_arr_len' by len_solve. reflexivity.
Qed.

Theorem roundtrip_relay : forall v me peer m r, len me = hash_size -> len peer = hash_size ->
  build_relay me peer m = Ok r -> parse_msg v r = Ok (v, MRelay r).
Proof.
  intros v me peer m r H1 H2 Hb. unfold build_relay in Hb. destruct (max_size <? len m); [discriminate|].
  inversion Hb; subst; clear Hb. rewrite parse_msg_cons. dispatch. pose proof (len_nonneg m).
  gd false. reflexivity.
Qed.

Theorem roundtrip_consumers : forall v entries,
  parse_msg v (build_consumers entries) =
  Ok (v, MConsumers (concat (map (fun e => fst e ++ snd e) entries))).
Proof.
  intros v entries. unfold build_consumers. rewrite parse_msg_cons. dispatch.
  sf [ty Consts.P2P_TypeConsumers] (concat (map (fun e : bytes * bytes => fst e ++ snd e) entries)). reflexivity.
Qed.

Theorem roundtrip_transaction : forall v b t, tx_dec b = Some t ->
  parse_msg v (build_transaction b) = Ok (v, MTransaction t).
Proof.
  intros v b t H. unfold build_transaction. rewrite parse_msg_cons. dispatch.
  sf [ty Consts.P2P_TypeTransaction] b. rewrite H. reflexivity.
Qed.

Theorem roundtrip_finalization : forall v sb s, snap_dec sb = Some s ->
  parse_msg v (build_finalization sb) = Ok (v, MFinalization s).
Proof.
  intros v sb s H. unfold build_finalization. rewrite parse_msg_cons. dispatch.
  sf [ty Consts.P2P_TypeFinalization] sb. rewrite H. reflexivity.
Qed.

Theorem roundtrip_announcement : forall v sig R sb s,
  len sig = sig_size -> len R = key_size -> check_key R = true -> snap_dec sb = Some s ->
  parse_msg v (build_announcement sig R sb) = Ok (v, MAnnouncement sig R s).
Proof.
  intros v sig R sb s H1 H2 H3 H4. pose proof (snap_dec_len _ _ H4).
  unfold build_announcement. rewrite parse_msg_cons. dispatch.
  sf [ty Consts.P2P_TypeAnnouncement] (sig ++ R ++ sb). gd false.
  sl [ty Consts.P2P_TypeAnnouncement] sig (R ++ sb).
  sf (ty Consts.P2P_TypeAnnouncement :: sig) (R ++ sb).
  rewrite (copy_arr_len key_n R sb) by len_solve. rewrite H3. cbn [negb]. cbv beta iota.
  sf (ty Consts.P2P_TypeAnnouncement :: sig ++ R) sb. rewrite H4.
  rewrite copy_arr_len' by len_solve. reflexivity.
Qed.

Theorem roundtrip_transactions : forall v txs ts typ m,
  typ = ty Consts.P2P_TypeTransactionBundle \/ typ = ty Consts.P2P_TypeFinalizedTransactionBundle ->
  Forall2 (fun b t => tx_dec b = Some t) txs ts ->
  build_transactions txs typ = Ok m -> parse_msg v m = Ok (v, MBundle (Z.of_N typ) ts).
Proof.
  intros v txs ts typ m Ht H Hb. unfold build_transactions in Hb.
  destruct (build_txs_payload txs) as [pl| |] eqn:Ep; cbn [bind] in Hb; try discriminate.
  apply Ok_inj in Hb; subst m. rewrite parse_msg_cons.
  destruct Ht; subst typ; dispatch; sf [ty Consts.P2P_TypeTransactionBundle] pl || sf [ty Consts.P2P_TypeFinalizedTransactionBundle] pl;
    rewrite (parse_txs_payload_build _ _ _ H Ep); reflexivity.
Qed.

Theorem roundtrip_transaction_challenge : forall v h cs mask txs ts m,
  len h = hash_size -> len cs = sig_size -> 0 <= mask < 2 ^ 64 ->
  Forall2 (fun b t => tx_dec b = Some t) txs ts ->
  build_transaction_challenge h cs mask txs = Ok m ->
  parse_msg v m = Ok (v, MTransactionChallenge h cs mask ts).
Proof.
  intros v h cs mask txs ts m H1 H2 H3 H Hb. unfold build_transaction_challenge in Hb.
  destruct (build_txs_payload txs) as [pl| |] eqn:Ep; cbn [bind] in Hb; try discriminate.
  apply Ok_inj in Hb; subst m. pose proof (len_payload _ _ Ep). rewrite parse_msg_cons. dispatch.
  set (T := ty Consts.P2P_TypeTransactionChallenge).
  sf [T] (h ++ cs ++ be_bytes 8 mask ++ pl). gd false.
  sf (T :: h) (cs ++ be_bytes 8 mask ++ pl).
  sl (T :: h ++ cs) (be_bytes 8 mask) pl.
  sf (T :: h ++ cs ++ be_bytes 8 mask) pl.
  rewrite (parse_txs_payload_build _ _ _ H Ep). cbn [bind].
  rewrite (copy_arr_len hash_n h) by len_solve. rewrite (copy_arr_len sig_n cs) by len_solve.
  rewrite be_roundtrip by (change (256 ^ Z.of_nat 8) with (2 ^ 64); lia). reflexivity.
Qed.

Theorem roundtrip_full_challenge : forall v sb s c ch txs ts m,
  snap_dec sb = Some s -> snap_signed s = true -> len sb < 2 ^ 32 ->
  len c = key_size -> len ch = key_size -> check_key c = true -> check_key ch = true ->
  Forall2 (fun b t => tx_dec b = Some t) txs ts ->
  build_full_challenge sb c ch txs = Ok m ->
  256 <= len m - 1 ->
  parse_msg v m = Ok (v, MFullChallenge s c ch ts).
Proof.
  intros v sb s c ch txs ts m Hs Hsig Hsb Hc Hch Kc Kch H Hb Hmin. unfold build_full_challenge in Hb.
  destruct (build_txs_payload txs) as [pl| |] eqn:Ep; cbn [bind] in Hb; try discriminate.
  apply Ok_inj in Hb; subst m. pose proof (len_payload _ _ Ep). pose proof (len_nonneg sb).
  rewrite parse_msg_cons. dispatch.
  set (T := ty Consts.P2P_TypeFullChallenge) in *. set (L := be_bytes 4 (len sb)) in *.
  assert (HL : len L = 4) by (subst L; now rewrite len_be_bytes).
  sf [T] (L ++ sb ++ c ++ ch ++ pl). gd false.
  sl [T] L (sb ++ c ++ ch ++ pl).
  subst L. rewrite be_roundtrip by (change (256 ^ Z.of_nat 4) with (2 ^ 32); lia). set (L := be_bytes 4 (len sb)) in *.
  sf (T :: L) (sb ++ c ++ ch ++ pl). gd false.
  sl (T :: L) sb (c ++ ch ++ pl). rewrite Hs, Hsig. cbn [negb]. cbv beta iota.
  sf (T :: L ++ sb) (c ++ ch ++ pl). gd false.
  sl (T :: L ++ sb) c (ch ++ pl). rewrite (copy_arr_len' key_n c) by len_solve. rewrite Kc. cbn [negb]. cbv beta iota.
  sl (T :: L ++ sb ++ c) ch pl. rewrite (copy_arr_len' key_n ch) by len_solve. rewrite Kch. cbn [negb]. cbv beta iota.
  sf (T :: L ++ sb ++ c ++ ch) pl.
  rewrite (parse_txs_payload_build _ _ _ H Ep). reflexivity.
Qed.

End Roundtrip.

(* ---- framing --------------------------------------------------------------------------- *)

Lemma firstn_len_app : forall {A} (a b : list A) n, n = len a -> firstn (Z.to_nat n) (a ++ b) = a.
Proof. intros A a b n ->. replace (Z.to_nat (len a)) with (length a) by (unfold len; lia). apply firstn_app_exact. Qed.

Lemma skipn_len_app : forall {A} (a b : list A) n, n = len a -> skipn (Z.to_nat n) (a ++ b) = b.
Proof. intros A a b n ->. replace (Z.to_nat (len a)) with (length a) by (unfold len; lia). apply skipn_app_exact. Qed.

Theorem frame_roundtrip : forall m, 1 <= len m <= max_size ->
  exists f, encode_frame m = Ok f /\ len f = header_size + len m /\
    receive max_size f = mk_recv (Ok (frame_version, m)) (header_size + len m) (len m).
Proof.
  intros m H. unfold encode_frame. replace ((len m <? 1) || (max_size <? len m)) with false by lia.
  eexists; split; [reflexivity|]. change max_size with 33554432 in *. change header_size with 6.
  split; [rewrite !len_cons, len_app, len_be_bytes; lia|].
  unfold receive. change max_size with 33554432. change header_size with 6.
  replace ((33554432 =? 0) || (33554432 <? 33554432)) with false by reflexivity.
  set (hdr := frame_version :: 0%N :: be_bytes 4 (len m)).
  change (frame_version :: 0%N :: be_bytes 4 (len m) ++ m) with (hdr ++ m).
  assert (Hh : len hdr = 6) by (subst hdr; rewrite !len_cons, len_be_bytes; lia).
  rewrite len_app, Hh. pose proof (len_nonneg m).
  replace (6 + len m <? 6) with false by lia.
  rewrite (firstn_len_app hdr m 6) by lia. rewrite (skipn_len_app hdr m 6) by lia.
  subst hdr. cbn [nth skipn]. rewrite N.eqb_refl. cbn [negb].
  rewrite be_roundtrip by (change (256 ^ Z.of_nat 4) with 4294967296; lia).
  replace (33554432 <? len m) with false by lia. replace (len m <? len m) with false by lia.
  f_equal. f_equal. f_equal. rewrite <- (app_nil_r m) at 2. apply firstn_len_app. reflexivity.
Qed.

(* a header announcing more than the limit: refused having read only the
   header, without allocating a body buffer; the bytes behind the header are irrelevant *)
Theorem oversize_rejected : forall limit hdr rest,
  0 < limit <= max_size -> len hdr = header_size ->
  limit < be_val (skipn 2 hdr) ->
  receive limit (hdr ++ rest) = mk_recv Err header_size 0.
Proof.
  intros limit hdr rest Hl Hh Hs. unfold receive. change header_size with 6 in *.
  replace ((limit =? 0) || (max_size <? limit)) with false by lia.
  rewrite len_app, Hh. pose proof (len_nonneg rest). replace (6 + len rest <? 6) with false by lia.
  rewrite (firstn_len_app hdr rest 6) by lia.
  destruct (negb (nth 0 hdr 0 =? frame_version)%N); [reflexivity|].
  replace (limit <? be_val (skipn 2 hdr)) with true by lia. reflexivity.
Qed.

Theorem encode_frame_bounds : forall m f, encode_frame m = Ok f -> 1 <= len m <= max_size.
Proof.
  intros m f H. unfold encode_frame in H. destruct ((len m <? 1) || (max_size <? len m)) eqn:E; [discriminate|lia].
Qed.

(* ---- sizes --------------------------------------------------------------------------------- *)


Lemma len_concat_frames : forall txs, len (concat (map frame_tx txs)) = sum_sizes (map len txs).
Proof.
  induction txs as [|b txs IH]; cbn [map concat sum_sizes]; [reflexivity|].
  rewrite len_app, IH. unfold frame_tx. rewrite len_app, len_be_bytes. lia.
Qed.

Lemma len_txs_payload : forall txs pl, build_txs_payload txs = Ok pl -> len pl = 1 + sum_sizes (map len txs).
Proof.
  intros txs pl H. unfold build_txs_payload in H. destruct (txs_max <? len txs); [discriminate|].
  apply Ok_inj in H; subst. now rewrite len_cons, len_concat_frames.
Qed.

Theorem size_formula : forall txs typ m, build_transactions txs typ = Ok m ->
  len m = txs_msg_len (map len txs).
Proof.
  intros txs typ m H. unfold build_transactions in H.
  destruct (build_txs_payload txs) as [pl| |] eqn:E; cbn [bind] in H; try discriminate.
  apply Ok_inj in H; subst. rewrite len_cons, (len_txs_payload _ _ E). unfold txs_msg_len. lia.
Qed.

(* ---- the batcher bound ------------------------------------------------------------------------ *)

Fixpoint sum_z (l : list Z) : Z := match l with [] => 0 | x :: r => x + sum_z r end.

Lemma sum_sizes_sum : forall l, sum_sizes l = 4 * len l + sum_z l.
Proof. induction l as [|x l IH]; cbn [sum_sizes sum_z]; [reflexivity|]. rewrite len_cons, IH. lia. Qed.

(* every admitted transaction was admitted while the running total, which includes
   it and everything before it, was below the threshold *)
Lemma batch_loop_bound : forall txs acc, 0 <= acc -> Forall (fun e => 0 <= fst e) txs ->
  acc + sum_z (select (batch_loop acc txs) (map fst txs)) < Z.max (acc + 1) batch_threshold
  /\ len (select (batch_loop acc txs) (map fst txs)) <= len txs.
Proof.
  induction txs as [|[sz b] txs IH]; intros acc Hacc Hall; cbn [batch_loop map select sum_z fst].
  - unfold len; cbn [length sum_z]; lia.
  - inversion Hall as [|? ? Hsz Hrest]; subst. cbn [fst] in Hsz.
    destruct (IH (acc + sz) ltac:(lia) Hrest) as (IH1 & IH2).
    destruct (b && (acc + sz <? batch_threshold)) eqn:E; cbn [sum_z]; rewrite !len_cons; lia.
Qed.

Lemma select_map : forall {A B} (f : A -> B) flags xs, select flags (map f xs) = map f (select flags xs).
Proof.
  intros A B f flags. induction flags as [|fl flags IH]; intros [|x xs]; cbn [select map]; try reflexivity.
  destruct fl; cbn [map]; now rewrite IH.
Qed.

Lemma map_fst_entries : forall (txs : list (bytes * bool)),
  map fst (map (fun e : bytes * bool => (len (fst e), snd e)) txs) = map len (map fst txs).
Proof. induction txs as [|x l IH]; cbn [map fst]; [reflexivity|now rewrite IH]. Qed.

Lemma batch_of_bound : forall (txs : list (bytes * bool)),
  sum_z (map len (batch_of txs)) < Z.max 1 batch_threshold /\ len (batch_of txs) <= len txs.
Proof.
  intros txs. unfold batch_of.
  match goal with |- context [batch_loop 0 ?e] => remember e as entries eqn:He end.
  assert (Hall : Forall (fun e : Z * bool => 0 <= fst e) entries).
  { subst entries. apply Forall_forall. intros e H. apply in_map_iff in H as (x & <- & _). cbn. apply len_nonneg. }
  destruct (batch_loop_bound entries 0 ltac:(lia) Hall) as (B1 & B2).
  assert (Hm : map fst entries = map len (map fst txs)) by (subst entries; apply map_fst_entries).
  rewrite Hm, select_map in B1, B2. cbn [Z.add] in B1.
  assert (Hl : len entries = len txs) by (subst entries; unfold len; now rewrite map_length).
  split; [exact B1|]. unfold len in *. rewrite map_length in B2.
  eapply Z.le_trans; [exact B2|]. rewrite Hl. apply Z.le_refl.
Qed.

Theorem batch_fits : forall (txs : list (bytes * bool)) typ,
  len txs <= txs_max ->
  exists m, build_transactions (batch_of txs) typ = Ok m /\
    len m + relay_header <= max_size /\ sum_z (map len (batch_of txs)) < Z.max 1 batch_threshold.
Proof.
  intros txs typ Hn. destruct (batch_of_bound txs) as (B1 & B2).
  remember (batch_of txs) as batch eqn:Hbatch.
  unfold build_transactions, build_txs_payload. replace (txs_max <? len batch) with false by lia.
  cbn [bind]. eexists; split; [reflexivity|]. split; [|exact B1].
  rewrite !len_cons, len_concat_frames, sum_sizes_sum.
  replace (len (map len batch)) with (len batch) by (unfold len; now rewrite map_length).
  change relay_header with 65. change max_size with 33554432. change batch_threshold with 22369621 in *.
  change txs_max with 255 in *. pose proof (len_nonneg batch). lia.
Qed.

(* a single transaction within the envelope cap, alone in a bundle or as a transaction message *)
Theorem single_fits : forall b typ, len b <= tx_max_size ->
  exists m, build_transactions [b] typ = Ok m /\ len m + relay_header <= max_size /\
    len (build_transaction b) + relay_header <= max_size.
Proof.
  intros b typ H. unfold build_transactions, build_txs_payload. cbn [bind]. 
  replace (txs_max <? len [b]) with false by reflexivity. cbn [bind].
  eexists; split; [reflexivity|]. unfold build_transaction, frame_tx. cbn [map concat].
  rewrite !len_cons, !len_app, len_be_bytes, len_nil. 
  change relay_header with 65. change max_size with 33554432. change tx_max_size with 4194304 in H.
  pose proof (len_nonneg b). lia.
Qed.

(* challenge messages carrying a batch: snapshot of at most 2^20 bytes *)
Theorem challenge_fits : forall (txs : list (bytes * bool)) sb c ch h cs mask,
  len txs <= txs_max -> len sb <= 1048576 -> len c = key_size -> len ch = key_size ->
  len h = hash_size -> len cs = sig_size ->
  (exists m, build_full_challenge sb c ch (batch_of txs) = Ok m /\ len m + relay_header <= max_size) /\
  (exists m, build_transaction_challenge h cs mask (batch_of txs) = Ok m /\ len m + relay_header <= max_size).
Proof.
  intros txs sb c ch h cs mask Hn Hsb Hc Hch Hh Hcs.
  destruct (batch_of_bound txs) as (B1 & B2).
  unfold build_full_challenge, build_transaction_challenge.
  remember (batch_of txs) as batch eqn:Hbatch.
  destruct (build_txs_payload batch) as [pl| |] eqn:E;
    try (unfold build_txs_payload in E; replace (txs_max <? len batch) with false in E by lia; discriminate).
  pose proof (len_txs_payload _ _ E) as Hpl. rewrite sum_sizes_sum in Hpl.
  replace (len (map len batch)) with (len batch) in Hpl by (unfold len; now rewrite map_length).
  cbn [bind]. change relay_header with 65 in *. change max_size with 33554432 in *.
  change batch_threshold with 22369621 in *. change txs_max with 255 in *. pose proof (len_nonneg batch).
  split; eexists; (split; [reflexivity|]); rewrite !len_cons, !len_app, len_be_bytes; consts; lia.
Qed.

Theorem relay_len_spec : forall me peer m, len me = hash_size -> len peer = hash_size ->
  rmap len (build_relay me peer m) = relay_len (len m).
Proof.
  intros me peer m H1 H2. unfold build_relay, relay_len. destruct (max_size <? len m); [reflexivity|].
  cbn [rmap]. f_equal. rewrite len_cons, !len_app. unfold relay_header. lia.
Qed.

Theorem send_accepts_spec : forall m, send_accepts (len m) = is_ok (encode_frame m).
Proof. intros. unfold send_accepts, encode_frame. destruct ((len m <? 1) || (max_size <? len m)); reflexivity. Qed.

(* ---- round trips of the list-carrying messages ------------------------------------------ *)

Lemma len_concat_const : forall (ws : list bytes) n, Forall (fun w => len w = n) ws ->
  len (concat ws) = n * len ws.
Proof.
  induction 1 as [|w ws Hw _ IH]; cbn [concat]; [unfold len; cbn; lia|].
  rewrite len_app, len_cons, IH, Hw. lia.
Qed.

Lemma wants_loop_build : forall ws pre i, 0 <= i -> len pre = 32 * i ->
  Forall (fun w => len w = 32) ws ->
  wants_loop (pre ++ concat ws) (length ws) i = Ok ws.
Proof.
  induction ws as [|w ws IH]; intros pre i Hi Hpre Hall; cbn [length wants_loop concat]; [reflexivity|].
  inversion Hall as [|? ? Hw Hrest]; subst. unfold slice_from.
  sf pre (w ++ concat ws).
  replace (pre ++ w ++ concat ws) with ((pre ++ w) ++ concat ws) by now rewrite app_assoc.
  rewrite (IH (pre ++ w) (i + 1)) by (try assumption; try lia; rewrite len_app; lia).
  cbn [bind]. rewrite (copy_arr_len hash_n w) by len_solve. reflexivity.
Qed.

Section Roundtrip2.
Variables SN TX : Type.
Variable snap_body : bytes -> option SN.
Variable snap_signed : SN -> bool.
Variable tx_body : bytes -> option TX.
Variable check_key : bytes -> bool.
Notation parse_body := (parse_body SN TX snap_body snap_signed tx_body check_key).
Notation parse_msg := (parse_msg SN TX snap_body snap_signed tx_body check_key).

Lemma precommit_loop_build : forall keys pre i, 0 <= i -> len pre = 67 + 32 * i ->
  i + len keys <= 1024 ->
  Forall (fun k => len k = 32 /\ check_key k = true) keys ->
  precommit_loop check_key (pre ++ concat keys) (length keys) i = Ok keys.
Proof.
  induction keys as [|k keys IH]; intros pre i Hi Hpre Hn Hall; cbn [length precommit_loop concat]; [reflexivity|].
  inversion Hall as [|? ? [Hk Hc] Hrest]; subst. rewrite len_cons in Hn. pose proof (len_nonneg keys).
  rewrite wrap16_small by lia. unfold slice_from.
  sf pre (k ++ concat keys). rewrite (copy_arr_len key_n k) by len_solve. rewrite Hc.
  replace (pre ++ k ++ concat keys) with ((pre ++ k) ++ concat keys) by now rewrite app_assoc.
  rewrite (IH (pre ++ k) (i + 1)) by (try assumption; try lia; rewrite len_app; lia).
  reflexivity.
Qed.

Theorem roundtrip_commitments : forall v sig keys m,
  len sig = sig_size -> 1 <= len keys ->
  Forall (fun k => len k = 32 /\ check_key k = true) keys ->
  build_commitments sig keys = Ok m ->
  parse_msg v m = Ok (v, MPreCommitments sig keys (be_bytes 2 (len keys) ++ concat keys)).
Proof.
  intros v sig keys m Hs Hn Hall Hb. unfold build_commitments in Hb. consts.
  match type of Hb with (if ?c then _ else _) = _ => destruct c eqn:E end; [discriminate|]. apply Ok_inj in Hb; subst m.
  assert (Hc : len (concat keys) = 32 * len keys).
  { apply len_concat_const. eapply Forall_impl; [|exact Hall]. now intros a [H _]. }
  rewrite (parse_msg_cons SN TX snap_body snap_signed tx_body check_key). dispatch. consts.
  set (T := ty Consts.P2P_TypePreCommitments). set (C := be_bytes 2 (len keys)).
  assert (HC : len C = 2) by (subst C; now rewrite len_be_bytes).
  gd false. sl [T] sig (C ++ concat keys). sl (T :: sig) C (concat keys).
  subst C. unfold bytes in *. rewrite be_roundtrip by (change (256 ^ Z.of_nat 2) with 65536; lia). set (C := be_bytes 2 (len keys)) in *.
  gd false. sf (T :: sig ++ C) (concat keys). gd false.
  replace (T :: sig ++ C ++ concat keys) with ((T :: sig ++ C) ++ concat keys) by list_eq.
  replace (Z.to_nat (len keys)) with (length keys) by (unfold len; lia).
  rewrite precommit_loop_build; [|lia|len_solve|lia|assumption]. cbn [bind].
  sf (T :: sig) (C ++ concat keys). rewrite copy_arr_len' by len_solve. reflexivity.
Qed.

Theorem roundtrip_commitment : forall v sig h R wants,
  len sig = sig_size -> len h = hash_size -> len R = key_size -> check_key R = true ->
  Forall (fun w => len w = 32) wants ->
  parse_msg v (build_commitment sig h R wants) =
  Ok (v, MCommitment sig h R wants (h ++ R ++ concat wants)).
Proof.
  intros v sig h R wants Hs Hh HR Hc Hall. unfold build_commitment.
  assert (Hl : len (concat wants) = 32 * len wants) by now apply len_concat_const.
  pose proof (len_nonneg wants).
  rewrite (parse_msg_cons SN TX snap_body snap_signed tx_body check_key). dispatch. consts.
  set (T := ty Consts.P2P_TypeCommitment). set (W := concat wants) in *.
  sf [T] (sig ++ h ++ R ++ W). gd false.
  sl [T] sig (h ++ R ++ W). sf (T :: sig) (h ++ R ++ W). sf (T :: sig ++ h) (R ++ W).
  rewrite (copy_arr_len 32%nat R W) by len_solve. rewrite Hc. cbn [negb]. cbv beta iota.
  sf (T :: sig ++ h ++ R) W.
  rewrite (copy_arr_len 32%nat h) by len_solve. rewrite (copy_arr_len' 64%nat sig) by len_solve.
  destruct wants as [|w ws].
  - subst W. cbn [concat]. replace (0 <? len (@nil N)) with false by reflexivity. reflexivity.
  - pose proof (len_nonneg ws). assert (Hl' := Hl). rewrite len_cons in Hl'.
    replace (0 <? len W) with true by lia.
    replace (negb (len W mod 32 =? 0)) with false by (rewrite Hl, Z.mul_comm, Z.mod_mul by lia; reflexivity).
    replace (Z.to_nat (len W / 32)) with (length (w :: ws))
      by (rewrite Hl, Z.mul_comm, Z.div_mul by lia; unfold len; lia).
    subst W. rewrite <- (app_nil_l (concat (w :: ws))).
    rewrite (wants_loop_build (w :: ws) [] 0) by (try assumption; try lia; reflexivity).
    reflexivity.
Qed.

End Roundtrip2.

(* ---- sync points ---------------------------------------------------------------------------- *)

Definition point_wf (p : sync_point) : Prop :=
  len (sp_node p) = 32 /\ len (sp_hash p) = 32 /\ 0 <= sp_number p < 2 ^ 64.

Lemma dec_read_app : forall n a b, len a = n -> dec_read n (a ++ b) = Ok (a, b).
Proof.
  intros n a b <-. unfold dec_read. rewrite len_app. pose proof (len_nonneg b).
  replace (len a + len b <? len a) with false by lia.
  now rewrite (firstn_len_app a b), (skipn_len_app a b).
Qed.

Lemma read_points_build : forall ps rest, Forall point_wf ps ->
  read_points (length ps) (concat (map marshal_point ps) ++ rest) = Ok ps.
Proof.
  induction ps as [|p ps IH]; intros rest Hall; cbn [length read_points map concat]; [reflexivity|].
  inversion Hall as [|? ? (Hn & Hh & Hnum) Hrest]; subst. unfold marshal_point at 1. consts.
  rewrite <- !app_assoc. rewrite dec_read_app by assumption. cbn [bind].
  rewrite dec_read_app by now rewrite len_be_bytes. cbn [bind].
  rewrite dec_read_app by assumption. cbn [bind]. rewrite IH by assumption. cbn [bind].
  rewrite be_roundtrip by (change (256 ^ Z.of_nat 8) with (2 ^ 64); lia).
  destruct p; reflexivity.
Qed.

Theorem sync_points_roundtrip : forall ps d, Forall point_wf ps ->
  marshal_sync_points ps = Ok d -> unmarshal_sync_points d = Ok ps.
Proof.
  intros ps d Hall Hm. unfold marshal_sync_points in Hm. consts.
  match type of Hm with (if ?c then _ else _) = _ => destruct c eqn:E end; [discriminate|].
  apply Ok_inj in Hm; subst d. unfold unmarshal_sync_points, slice_from. consts.
  set (H := Consts.P2P_MinimumEncodingHeader). set (B := concat (map marshal_point ps)).
  assert (HH : len H = 4) by reflexivity. pose proof (len_nonneg ps). pose proof (len_nonneg B).
  gd false. sl (@nil N) H (be_bytes 2 (len ps) ++ B).
  replace (bytes_eqb H H) with true by reflexivity. cbn [negb]. cbv beta iota.
  sf H (be_bytes 2 (len ps) ++ B).
  rewrite dec_read_app by now rewrite len_be_bytes. cbn [bind].
  unfold bytes in *. rewrite be_roundtrip by (change (256 ^ Z.of_nat 2) with 65536; lia).
  gd false. replace (Z.to_nat (len ps)) with (length ps) by (unfold len; lia).
  subst B. pose proof (read_points_build ps [] Hall) as Hr. rewrite app_nil_r in Hr. exact Hr.
Qed.

Theorem roundtrip_graph : forall SN TX snap_body snap_signed tx_body check_key v sig ps m d,
  len sig = sig_size -> Forall point_wf ps ->
  marshal_sync_points ps = Ok d -> build_graph sig ps = Ok m ->
  parse_msg SN TX snap_body snap_signed tx_body check_key v m = Ok (v, MGraph sig ps d).
Proof.
  intros SN TX snap_body snap_signed tx_body check_key v sig ps m d Hs Hall Hd Hb.
  unfold build_graph in Hb. rewrite Hd in Hb. cbn [bind] in Hb. apply Ok_inj in Hb; subst m.
  assert (Hl : 6 <= len d).
  { unfold marshal_sync_points in Hd. destruct (max_encoding_int <? len ps); [discriminate|].
    apply Ok_inj in Hd; subst d. rewrite !len_app, len_be_bytes.
    pose proof (len_nonneg (concat (map marshal_point ps))). change (len Consts.P2P_MinimumEncodingHeader) with 4. lia. }
  rewrite parse_msg_cons. dispatch. consts. set (T := ty Consts.P2P_TypeGraph).
  gd false. sf [T] (sig ++ d). sf (T :: sig) d.
  rewrite (sync_points_roundtrip ps d Hall Hd). cbn [bind].
  rewrite (copy_arr_len 64%nat sig d) by len_solve. reflexivity.
Qed.

(* ---- the size view of receive ------------------------------------------------------------ *)

Theorem receive_decision_spec : forall limit v x n body, 0 <= n < 4294967296 ->
  rmap (fun r => len (snd r)) (rv_result (receive limit ([v; x] ++ be_bytes 4 n ++ body))) =
  receive_decision limit v n (len body).
Proof.
  intros limit v x n body Hn. unfold receive, receive_decision. change header_size with 6.
  destruct ((limit =? 0) || (max_size <? limit)); [reflexivity|].
  set (hdr := [v; x] ++ be_bytes 4 n).
  replace ([v; x] ++ be_bytes 4 n ++ body) with (hdr ++ body) by (subst hdr; now rewrite <- app_assoc).
  assert (Hh : len hdr = 6) by (subst hdr; rewrite len_app, len_be_bytes; reflexivity).
  rewrite len_app, Hh. pose proof (len_nonneg body). replace (6 + len body <? 6) with false by lia.
  rewrite (firstn_len_app hdr body 6) by lia. rewrite (skipn_len_app hdr body 6) by lia.
  subst hdr. cbn [app nth skipn].
  destruct (negb (v =? frame_version)%N); [reflexivity|].
  rewrite be_roundtrip by (change (256 ^ Z.of_nat 4) with 4294967296; lia).
  destruct (limit <? n); [reflexivity|]. destruct (len body <? n) eqn:E; [reflexivity|].
  cbn [rmap rv_result snd]. f_equal. apply len_firstn. lia.
Qed.

(* what Send accepts, Receive returns whole: the two limits agree *)
Theorem send_receive_agree : forall n, send_accepts n = true -> send_receive_size n = Ok n.
Proof.
  intros n H. unfold send_receive_size. rewrite H. unfold send_accepts in H.
  unfold receive_decision, receive_limit. change max_size with 33554432 in *.
  replace ((33554432 =? 0) || (33554432 <? 33554432)) with false by reflexivity.
  rewrite N.eqb_refl. cbn [negb]. replace (33554432 <? n) with false by lia.
  replace (n <? n) with false by lia. reflexivity.
Qed.
