(* Lemmas about Model/Cosi.v. *)
From Coq Require Import List ZArith NArith Bool Lia Znumtheory Morphisms Setoid Permutation FinFun.
Require Import Mixin.Base.Res Mixin.Gen.Consts Mixin.Model.Group Mixin.Model.Aggregate Mixin.Model.Cosi.
Require Import Mixin.Proofs.Group Mixin.Proofs.Aggregate.
Import ListNotations.
Open Scope Z_scope.

(* ---- the mask ---------------------------------------------------------------- *)

Lemma filter_seq_range : forall (f : nat -> bool) b i,
  In i (map Z.of_nat (filter f (seq 0 b))) -> 0 <= i < Z.of_nat b.
Proof.
  intros f b i Hi. apply in_map_iff in Hi. destruct Hi as (n & E & Hn).
  apply filter_In in Hn. destruct Hn as [Hn _]. apply in_seq in Hn. subst i. lia.
Qed.

Lemma mask_keys_range : forall m i, In i (mask_keys m) -> 0 <= i < Z.of_nat mask_bits.
Proof. intros m i. exact (filter_seq_range _ mask_bits i). Qed.

Lemma filter_seq_nodup : forall (f : nat -> bool) b, NoDup (map Z.of_nat (filter f (seq 0 b))).
Proof.
  intros f b. apply Injective_map_NoDup.
  - intros x y E. apply Nat2Z.inj. exact E.
  - apply NoDup_filter. apply seq_NoDup.
Qed.

Lemma mask_keys_nodup : forall m, NoDup (mask_keys m).
Proof. intros m. exact (filter_seq_nodup _ mask_bits). Qed.

Lemma filter_seq_iff : forall (f : nat -> bool) b i,
  In i (map Z.of_nat (filter f (seq 0 b))) <-> 0 <= i < Z.of_nat b /\ f (Z.to_nat i) = true.
Proof.
  intros f b i. rewrite in_map_iff. split.
  - intros (n & E & Hn). apply filter_In in Hn. destruct Hn as [Hs Hb]. apply in_seq in Hs. subst i.
    rewrite Nat2Z.id. split; [lia | exact Hb].
  - intros (Hr & Hb). exists (Z.to_nat i). split; [lia|]. apply filter_In. split; [apply in_seq; lia | exact Hb].
Qed.

Lemma mask_keys_testbit : forall m i,
  In i (mask_keys m) <-> 0 <= i < Z.of_nat mask_bits /\ N.testbit m (N.of_nat (Z.to_nat i)) = true.
Proof. intros m i. exact (filter_seq_iff (fun n => N.testbit m (N.of_nat n)) mask_bits i). Qed.

Lemma mask_bits_eq : Z.of_nat mask_bits = Consts.CosiMaskBits.
Proof. reflexivity. Qed.

#[global] Opaque mask_keys.

Section CosiProofs.
Variable l : Z.
Variable enc : Z -> N.
Variable H : list N -> Z.

Notation mk c := (mask_keys (c_mask c)).

Lemma cosi_public_key_eq : forall keys c,
  cosi_public_key l keys c =
  if signers_okb l keys (mk c) then Ok (fsum l (map snd (sel_of keys (mk c)))) else Err.
Proof.
  intros. unfold cosi_public_key, aggregate_public_key. rewrite collect_signers_eq.
  destruct (signers_okb l keys (mk c)); reflexivity.
Qed.

Lemma okb_all_below : forall keys c, signers_okb l keys (mk c) = true ->
  all_below (Z.of_nat (length keys)) (mk c) = true.
Proof.
  intros keys c Hb. apply signers_okb_iff in Hb. destruct Hb as (_ & _ & HF).
  unfold all_below. apply forallb_forall. intros i Hi. rewrite Forall_forall in HF.
  apply Z.ltb_lt. apply (HF i Hi).
Qed.

Lemma index_outside_not_ok : forall keys c i,
  In i (mk c) -> Z.of_nat (length keys) <= i ->
  signers_okb l keys (mk c) = false /\ all_below (Z.of_nat (length keys)) (mk c) = false.
Proof.
  intros keys c i Hi Hge. split.
  - destruct (signers_okb l keys (mk c)) eqn:E; [|reflexivity].
    apply signers_okb_iff in E. destruct E as (_ & _ & HF). rewrite Forall_forall in HF.
    specialize (HF i Hi). lia.
  - destruct (all_below _ (mk c)) eqn:E; [|reflexivity].
    unfold all_below in E. rewrite forallb_forall in E. specialize (E i Hi). apply Z.ltb_lt in E. lia.
Qed.

(* ---- threshold ------------------------------------------------------------------ *)

Lemma threshold_rejects : forall keys t m c,
  t <= 0 \/ Z.of_nat (length (mk c)) < t -> full_verify l enc H keys t m c = Err.
Proof.
  intros keys t m c Ht. unfold full_verify, threshold_verify.
  destruct (t <=? 0) eqn:E1; [reflexivity|]. apply Z.leb_gt in E1.
  assert (E2 : t <=? Z.of_nat (length (mk c)) = false) by (apply Z.leb_gt; lia).
  rewrite E2. reflexivity.
Qed.

(* ---- mask index outside the key vector ---------------------------------------- *)

Lemma mask_index_rejects : forall keys c i, In i (mk c) -> Z.of_nat (length keys) <= i ->
  (forall m, challenge l enc H keys m c = Err) /\
  (forall t m, full_verify l enc H keys t m c = Err) /\
  (forall signer s m, verify_response l enc H keys signer s m c = Err) /\
  (forall rs m strict, aggregate_response l enc H keys rs m strict c = Err) /\
  (forall priv random m, response l enc H priv random keys m c = Err).
Proof.
  intros keys c i Hi Hge. destruct (index_outside_not_ok keys c i Hi Hge) as [E1 E2].
  assert (EA : cosi_public_key l keys c = Err) by (rewrite cosi_public_key_eq, E1; reflexivity).
  assert (EC : forall m, challenge l enc H keys m c = Err) by (intros; unfold challenge; rewrite EA; reflexivity).
  repeat split.
  - exact EC.
  - intros. unfold full_verify. destruct (t <=? 0); [reflexivity|].
    destruct (negb _); [reflexivity|]. rewrite EA. reflexivity.
  - intros. unfold verify_response. destruct s; [|reflexivity]. rewrite E2. reflexivity.
  - intros. unfold aggregate_response. rewrite E2. reflexivity.
  - intros. unfold response. rewrite EC. reflexivity.
Qed.

(* ---- missing / extra / nil responses ------------------------------------------- *)

Lemma missing_or_extra_rejects : forall keys rs m strict c,
  (exists i, In i (mk c) /\ resp_get rs i = None) \/ length rs <> length (mk c) ->
  aggregate_response l enc H keys rs m strict c = Err.
Proof.
  intros keys rs m strict c Hbad. unfold aggregate_response.
  destruct (negb (all_below _ (mk c))); [reflexivity|].
  destruct (forallb _ (mk c)) eqn:Ef; cbn [negb]; [|reflexivity].
  destruct Hbad as [(i & Hi & Hn) | Hlen].
  - rewrite forallb_forall in Ef. specialize (Ef i Hi). rewrite Hn in Ef. discriminate.
  - destruct (Nat.eqb (length (mk c)) (length rs)) eqn:El; cbn [negb]; [|reflexivity].
    apply Nat.eqb_eq in El. congruence.
Qed.

(* ---- single-response verification ------------------------------------------------ *)

Definition share_valid (keys : list Z) (c : cosi) (x : Z) (i s : Z) : Prop :=
  0 <= i /\
  exists r k, assoc (c_commits c) i = Some r /\ nth_error keys (Z.to_nat i) = Some k /\
              0 < k < l /\ 0 < r < l /\ 0 <= s < l /\ cg l s (r + x * k).

Lemma verify_response_iff : forall keys signer s m c x,
  challenge l enc H keys m c = Ok x ->
  (verify_response l enc H keys signer (Some s) m c = Ok tt <->
   In signer (mk c) /\ share_valid keys c x signer s) /\
  verify_response l enc H keys signer (Some s) m c <> Panic.
Proof.
  intros keys signer s m c x Hx.
  assert (Hb : signers_okb l keys (mk c) = true).
  { unfold challenge in Hx. rewrite cosi_public_key_eq in Hx. destruct (signers_okb l keys (mk c)); [reflexivity|discriminate]. }
  pose proof (okb_all_below keys c Hb) as Hall.
  unfold verify_response. rewrite Hall. cbn [negb].
  destruct (existsb (Z.eqb signer) (mk c)) eqn:Ee; cbn [negb].
  - assert (Hin : In signer (mk c)).
    { apply existsb_exists in Ee. destruct Ee as (y & Hy & E). apply Z.eqb_eq in E. subst. exact Hy. }
    destruct (assoc (c_commits c) signer) as [r|] eqn:Ea.
    + rewrite Hx. cbn [bind].
      assert (Hlt : 0 <= signer < Z.of_nat (length keys)).
      { pose proof (mask_keys_range _ _ Hin). unfold all_below in Hall. rewrite forallb_forall in Hall.
        specialize (Hall signer Hin). apply Z.ltb_lt in Hall. lia. }
      assert (Hn : nth_error keys (Z.to_nat signer) = Some (key_at keys signer)).
      { unfold key_at. apply nth_error_nth'. lia. }
      rewrite Hn. destruct (verify_with_challenge l (key_at keys signer) r s x) eqn:Ev.
      * split; [|discriminate]. split; [intros _|reflexivity]. split; [exact Hin|].
        apply verify_with_challenge_iff in Ev. split; [lia|]. exists r, (key_at keys signer). tauto.
      * split; [|discriminate]. split; [discriminate|]. intros (_ & _ & r' & k' & Hr' & Hk' & Hv).
        rewrite Hr' in Ea. inversion Ea; subst r'. rewrite Hn in Hk'. inversion Hk'; subst k'.
        assert (verify_with_challenge l (key_at keys signer) r s x = true) by (apply verify_with_challenge_iff; tauto).
        congruence.
    + split; [|discriminate]. split; [discriminate|]. intros (_ & _ & r' & k' & Hr' & _). congruence.
  - split; [|discriminate]. split; [discriminate|]. intros (Hin & _).
    assert (existsb (Z.eqb signer) (mk c) = true) by (apply existsb_exists; exists signer; split; [exact Hin | apply Z.eqb_refl]).
    congruence.
Qed.

(* ---- strict aggregation ---------------------------------------------------------- *)

Lemma share_loop_strict_ok : forall keys c x rs acc S,
  share_loop l keys c x true rs acc = Ok S ->
  forall i so, In (i, so) rs -> exists s, so = Some s /\ share_valid keys c x i s.
Proof.
  intros keys c x rs. induction rs as [|[j so'] rs IH]; intros acc S Hs i so Hin; [destruct Hin|].
  cbn [share_loop] in Hs. destruct so' as [s'|]; [|discriminate].
  destruct (assoc (c_commits c) j) as [r|] eqn:Ea; [|discriminate].
  destruct ((j <? 0) || (Z.of_nat (length keys) <=? j)) eqn:Er; [discriminate|].
  apply orb_false_iff in Er. destruct Er as [Er _]. apply Z.ltb_ge in Er.
  destruct (nth_error keys (Z.to_nat j)) as [a|] eqn:En; [|discriminate].
  destruct (verify_with_challenge l a r s' x) eqn:Ev; [|discriminate]. cbn [bind] in Hs.
  destruct (negb (scalar_ok l s')); [discriminate|].
  destruct Hin as [E|Hin].
  - inversion E; subst. exists s'. split; [reflexivity|]. apply verify_with_challenge_iff in Ev.
    split; [exact Er|]. exists r, a. tauto.
  - eapply IH; eassumption.
Qed.

Lemma strict_rejects : forall keys rs m c c' x,
  challenge l enc H keys m c = Ok x ->
  aggregate_response l enc H keys rs m true c = Ok c' ->
  forall i so, In (i, so) rs -> exists s, so = Some s /\ share_valid keys c x i s.
Proof.
  intros keys rs m c c' x Hx Ha. unfold aggregate_response in Ha.
  destruct (negb (all_below _ _)); [discriminate|].
  destruct (negb (forallb _ _)); [discriminate|].
  destruct (negb (Nat.eqb _ _)); [discriminate|].
  rewrite Hx in Ha. cbn [bind] in Ha.
  destruct (share_loop l keys c x true rs 0) as [S| |] eqn:Es; cbn [bind] in Ha; try discriminate.
  eapply share_loop_strict_ok. exact Es.
Qed.

(* ---- completeness ------------------------------------------------------------------ *)

Definition sval (so : option Z) : Z := match so with Some s => s | None => 0 end.

Lemma share_loop_complete : forall keys c x strict rs acc, 0 < l -> 0 <= acc < l ->
  (forall i so, In (i, so) rs -> exists s, so = Some s /\ share_valid keys c x i s) ->
  exists S, share_loop l keys c x strict rs acc = Ok S /\ 0 <= S < l /\
            cg l S (acc + zsum (map (fun p => sval (snd p)) rs)).
Proof.
  intros keys c x strict rs. induction rs as [|[j so] rs IH]; intros acc Hl Hacc Hv.
  - exists acc. cbn. repeat split; try lia. cg_ring.
  - destruct (Hv j so (or_introl eq_refl)) as (s & Es & Hj0 & r & k & Hr & Hk & Hkr & Hrr & Hsr & Heq). subst so.
    cbn [share_loop]. rewrite Hr.
    assert (Hj : nth_error keys (Z.to_nat j) <> None) by congruence. apply nth_error_Some in Hj.
    assert (Hstrict : (if strict then
              if (j <? 0) || (Z.of_nat (length keys) <=? j) then @Panic unit
              else match nth_error keys (Z.to_nat j) with
                   | Some a => if verify_with_challenge l a r s x then Ok tt else Err
                   | None => Panic end else Ok tt) = Ok tt).
    { destruct strict; [|reflexivity].
      assert (E0 : j <? 0 = false) by (apply Z.ltb_ge; lia).
      assert (E : Z.of_nat (length keys) <=? j = false) by (apply Z.leb_gt; lia).
      rewrite E0, E. cbn [orb]. rewrite Hk.
      assert (Ev : verify_with_challenge l k r s x = true) by (apply verify_with_challenge_iff; tauto).
      rewrite Ev. reflexivity. }
    rewrite Hstrict. cbn [bind].
    assert (Es : scalar_ok l s = true) by (apply scalar_ok_iff; exact Hsr). rewrite Es. cbn [negb].
    destruct (IH (fadd l acc s) Hl) as (S & HS & HSr & HSe).
    + unfold fadd. apply Z.mod_pos_bound. exact Hl.
    + intros; apply Hv; right; assumption.
    + exists S. split; [exact HS|]. split; [exact HSr|]. rewrite HSe. cbn [map snd sval].
      rewrite zsum_cons, fadd_cg. cg_ring.
Qed.

Lemma assoc_in_nodup : forall {A} (t : list (Z * A)) i v,
  NoDup (map fst t) -> In (i, v) t -> assoc t i = Some v.
Proof.
  intros A t. induction t as [|[j w] t IH]; intros i v Hnd Hin; [destruct Hin|].
  cbn [map fst] in Hnd. inversion Hnd as [|? ? Hni Hnd']; subst. cbn [assoc].
  destruct Hin as [E|Hin].
  - inversion E; subst. rewrite Z.eqb_refl. reflexivity.
  - destruct (i =? j) eqn:Eij.
    + apply Z.eqb_eq in Eij. subst j. exfalso. apply Hni. apply in_map_iff. exists (i, v). split; [reflexivity | exact Hin].
    + apply IH; assumption.
Qed.

Definition commit_of (c : cosi) (i : Z) : Z :=
  match assoc (c_commits c) i with Some r => r | None => 0 end.

(* valid shares from exactly the masked signers, in any map order, aggregate
   (strictly or not) to a signature that passes full verification *)
Theorem complete : forall keys rs m strict t c A, 0 < l ->
  cosi_public_key l keys c = Ok A ->
  NoDup (map fst rs) -> (forall i, In i (mk c) <-> In i (map fst rs)) ->
  (forall i so, In (i, so) rs ->
     exists s, so = Some s /\ share_valid keys c (H (challenge_input enc (c_r c) A m)) i s) ->
  cg l (c_r c) (zsum (map (commit_of c) (mk c))) ->
  point_ok l A = true -> point_ok l (c_r c) = true -> 0 < t <= Z.of_nat (length (mk c)) ->
  exists c', aggregate_response l enc H keys rs m strict c = Ok c' /\
             full_verify l enc H keys t m c' = Ok tt.
Proof.
  intros keys rs m strict t c A Hl HA Hnd Hset Hv HR HpA HpR Ht.
  set (x := H (challenge_input enc (c_r c) A m)) in *.
  assert (Hb : signers_okb l keys (mk c) = true).
  { rewrite cosi_public_key_eq in HA. destruct (signers_okb l keys (mk c)); [reflexivity | discriminate]. }
  assert (HAe : A = fsum l (map snd (sel_of keys (mk c)))).
  { rewrite cosi_public_key_eq, Hb in HA. inversion HA. reflexivity. }
  assert (Hx : challenge l enc H keys m c = Ok x) by (unfold challenge; rewrite HA; reflexivity).
  pose proof (okb_all_below keys c Hb) as Hall.
  assert (Hperm : Permutation (mk c) (map fst rs)).
  { apply NoDup_Permutation; [apply mask_keys_nodup | exact Hnd | exact Hset]. }
  assert (Hlen : length (mk c) = length rs).
  { rewrite (Permutation_length Hperm). apply map_length. }
  destruct (share_loop_complete keys c x strict rs 0 Hl ltac:(lia) Hv) as (S & HS & HSr & HSe).
  exists (mkCosi (c_r c) S (c_mask c) (c_commits c)). split.
  - unfold aggregate_response. rewrite Hall. cbn [negb].
    assert (Hf : forallb (fun i => match resp_get rs i with Some _ => true | None => false end) (mk c) = true).
    { apply forallb_forall. intros i Hi. apply Hset in Hi. apply in_map_iff in Hi.
      destruct Hi as ([j so] & Ej & Hin). cbn [fst] in Ej. subst j.
      destruct (Hv i so Hin) as (s & Es & _). subst so.
      unfold resp_get. rewrite (assoc_in_nodup rs i (Some s) Hnd Hin). reflexivity. }
    rewrite Hf. cbn [negb]. rewrite Hlen, Nat.eqb_refl. cbn [negb]. rewrite Hx. cbn [bind].
    rewrite HS. reflexivity.
  - unfold full_verify, threshold_verify. cbn [c_mask c_r c_s].
    assert (E1 : t <=? 0 = false) by (apply Z.leb_gt; lia). rewrite E1.
    assert (E2 : t <=? Z.of_nat (length (mk c)) = true) by (apply Z.leb_le; lia). rewrite E2. cbn [negb].
    change (cosi_public_key l keys (mkCosi (c_r c) S (c_mask c) (c_commits c))) with (cosi_public_key l keys c).
    rewrite HA. cbn [bind]. unfold schnorr_verify. fold x.
    assert (Ev : verify_with_challenge l A (c_r c) S x = true); [|rewrite Ev; reflexivity].
    apply verify_with_challenge_iff. apply point_ok_iff in HpA. apply point_ok_iff in HpR.
    repeat split; try lia.
    rewrite HSe, Z.add_0_l.
    rewrite (zsum_map_cg l _ (fun p => commit_of c (fst p) + x * key_at keys (fst p))).
    2:{ intros [i so] Hin. destruct (Hv i so Hin) as (s & Es & _ & r & k & Hr & Hk & _ & _ & _ & Heq).
        subst so. cbn [snd fst sval]. unfold commit_of. rewrite Hr.
        assert (Ek : key_at keys i = k) by (unfold key_at; apply nth_error_nth; exact Hk).
        rewrite Ek. exact Heq. }
    rewrite <- (map_map fst (fun i => commit_of c i + x * key_at keys i)).
    rewrite <- (zsum_perm _ _ (Permutation_map _ Hperm)).
    rewrite HR, HAe, fsum_cg.
    replace (map snd (sel_of keys (mk c))) with (map (key_at keys) (mk c))
      by (unfold sel_of; rewrite map_map; reflexivity).
    generalize (mk c). intros ks. induction ks as [|i ks IH]; cbn [map]; [rewrite !zsum_nil; cg_ring|].
    rewrite !zsum_cons, IH. cg_ring.
Qed.

(* CosiAggregateCommitment: the R half is the sum of the commitments, every
   commitment decodes and every index is inside the mask width *)
Lemma commit_loop_sum : forall rs p mask p' mask',
  commit_loop l rs p mask = Ok (p', mask') ->
  cg l p' (p + zsum (map snd rs)) /\
  Forall (fun ir => point_ok l (snd ir) = true /\ 0 <= fst ir < Consts.CosiMaskBits) rs.
Proof.
  intros rs. induction rs as [|[i r] rs IH]; intros p mask p' mask' Hc; cbn [commit_loop] in Hc.
  - inversion Hc; subst. split; [cbn; cg_ring | constructor].
  - destruct (point_ok l r) eqn:Ep; cbn [negb] in Hc; [|discriminate].
    unfold mark in Hc. destruct ((Consts.CosiMaskBits <=? i) || (i <? 0)) eqn:Er; [discriminate|].
    cbn [bind] in Hc. destruct (IH _ _ _ _ Hc) as [E HF].
    apply orb_false_iff in Er. destruct Er as [E1 E2]. apply Z.leb_gt in E1. apply Z.ltb_ge in E2.
    split.
    + rewrite E, fadd_cg. cbn [map snd]. rewrite zsum_cons. cg_ring.
    + constructor; [cbn [fst snd]; split; [exact Ep | lia] | exact HF].
Qed.

Lemma commitment_sum : forall rs c, aggregate_commitment l rs = Ok c ->
  c_commits c = rs /\ c_s c = 0 /\ cg l (c_r c) (zsum (map snd rs)) /\
  Forall (fun ir => point_ok l (snd ir) = true /\ 0 <= fst ir < Consts.CosiMaskBits) rs.
Proof.
  intros rs c Hc. unfold aggregate_commitment in Hc. destruct rs as [|ir rs]; [discriminate|].
  destruct (commit_loop l (ir :: rs) 0 0%N) as [[p mask]| |] eqn:El; cbn [bind] in Hc; try discriminate.
  inversion Hc; subst. cbn [c_commits c_s c_r fst]. destruct (commit_loop_sum _ _ _ _ _ El) as [E HF].
  repeat split; [|exact HF]. rewrite E. cg_ring.
Qed.

(* ---- the mask is the index set of the commitments map ---------------------------- *)

Lemma mark_testbit : forall mask i mask' n, mark mask i = Ok mask' ->
  0 <= i < Consts.CosiMaskBits /\ N.testbit mask' n = xorb (N.testbit mask n) (Z.to_N i =? n)%N.
Proof.
  intros mask i mask' n Hm. unfold mark in Hm.
  destruct ((Consts.CosiMaskBits <=? i) || (i <? 0)) eqn:Er; [discriminate|].
  apply orb_false_iff in Er. destruct Er as [E1 E2]. apply Z.leb_gt in E1. apply Z.ltb_ge in E2.
  injection Hm as Hm. subst mask'. split; [lia|].
  rewrite N.lxor_spec. change (N.pos (Pos.shiftl 1 (Z.to_N i))) with (N.shiftl 1 (Z.to_N i)).
  rewrite N.shiftl_1_l, N.pow2_bits_eqb. reflexivity.
Qed.

Definition has_index (n : N) (idx : list Z) : bool := existsb (fun i => (Z.to_N i =? n)%N) idx.

Lemma commit_loop_bits : forall rs p mask p' mask',
  commit_loop l rs p mask = Ok (p', mask') -> NoDup (map fst rs) ->
  forall n, N.testbit mask' n = xorb (N.testbit mask n) (has_index n (map fst rs)).
Proof.
  intros rs. induction rs as [|[i r] rs IH]; intros p mask p' mask' Hc Hnd n.
  - cbn in Hc. inversion Hc; subst. cbn. rewrite xorb_false_r. reflexivity.
  - pose proof Hc as Hc0. cbn [commit_loop] in Hc.
    destruct (negb (point_ok l r)); [discriminate|].
    destruct (mark mask i) as [mask1| |] eqn:Em; cbn [bind] in Hc; try discriminate.
    destruct (mark_testbit _ _ _ n Em) as [Hi Hb].
    cbn [map fst] in Hnd. inversion Hnd as [|? ? Hni Hnd']; subst.
    rewrite (IH _ _ _ _ Hc Hnd' n), Hb. unfold has_index. cbn [map fst existsb].
    destruct (Z.to_N i =? n)%N eqn:Ein.
    + (* n is the head index: it cannot occur in the tail *)
      assert (Et : existsb (fun j => (Z.to_N j =? n)%N) (map fst rs) = false).
      { destruct (existsb _ (map fst rs)) eqn:Ee; [|reflexivity]. exfalso.
        apply existsb_exists in Ee. destruct Ee as (j & Hj & Ejn).
        apply N.eqb_eq in Ein. apply N.eqb_eq in Ejn.
        destruct (commit_loop_sum _ _ _ _ _ Hc) as [_ HF]. rewrite Forall_forall in HF.
        apply in_map_iff in Hj. destruct Hj as ([j' r'] & Ej & Hin). cbn [fst] in Ej. subst j'.
        destruct (HF _ Hin) as [_ Hjr]. cbn [fst] in Hjr.
        assert (i = j) by (apply Z2N.inj; lia). subst j.
        apply Hni. apply in_map_iff. exists (i, r'). split; [reflexivity | exact Hin]. }
      rewrite Et. destruct (N.testbit mask n); reflexivity.
    + destruct (N.testbit mask n), (existsb _ (map fst rs)); reflexivity.
Qed.

Lemma has_index_iff : forall n idx, has_index n idx = true <-> exists j, In j idx /\ Z.to_N j = n.
Proof.
  intros n idx. unfold has_index. rewrite existsb_exists. split; intros (j & Hj & E); exists j; split; try assumption.
  - apply N.eqb_eq; exact E.
  - apply N.eqb_eq; exact E.
Qed.

Lemma has_index_perm : forall n a b, Permutation a b -> has_index n a = has_index n b.
Proof.
  intros n a b HP. unfold has_index. induction HP; cbn [existsb].
  - reflexivity.
  - rewrite IHHP. reflexivity.
  - destruct (Z.to_N y =? n)%N, (Z.to_N x =? n)%N; reflexivity.
  - congruence.
Qed.

Definition commitment_ok (ir : Z * Z) : Prop :=
  point_ok l (snd ir) = true /\ 0 <= fst ir < Consts.CosiMaskBits.

Lemma commit_loop_total : forall rs p mask, Forall commitment_ok rs ->
  exists p' mask', commit_loop l rs p mask = Ok (p', mask').
Proof.
  intros rs. induction rs as [|[i r] rs IH]; intros p mask HF.
  - exists p, mask. reflexivity.
  - inversion HF as [|? ? [Hp Hi] HF']; subst. cbn [fst snd] in *. cbn [commit_loop]. rewrite Hp. cbn [negb].
    unfold mark. assert (E : (Consts.CosiMaskBits <=? i) || (i <? 0) = false).
    { apply orb_false_iff. split; [apply Z.leb_gt | apply Z.ltb_ge]; lia. }
    rewrite E. cbn [bind]. apply IH. exact HF'.
Qed.

(* bit i of the mask is set iff i is a key of the commitments map *)
Lemma commitment_mask : forall rs c, aggregate_commitment l rs = Ok c -> NoDup (map fst rs) ->
  (forall n, N.testbit (c_mask c) n = has_index n (map fst rs)) /\
  (forall i, In i (mask_keys (c_mask c)) <-> In i (map fst rs)) /\
  length (mask_keys (c_mask c)) = length rs.
Proof.
  intros rs c Hc Hnd. pose proof (commitment_sum rs c Hc) as (_ & _ & _ & HF).
  unfold aggregate_commitment in Hc. destruct rs as [|ir rs]; [discriminate|].
  destruct (commit_loop l (ir :: rs) 0 0%N) as [[p mask]| |] eqn:El; cbn [bind] in Hc; try discriminate.
  inversion Hc; subst. cbn [c_mask snd].
  assert (Hbits : forall n, N.testbit mask n = has_index n (map fst (ir :: rs))).
  { intros n. rewrite (commit_loop_bits _ _ _ _ _ El Hnd n), N.bits_0. apply xorb_false_l. }
  assert (Hset : forall i, In i (mask_keys mask) <-> In i (map fst (ir :: rs))).
  { intros i. rewrite mask_keys_testbit, mask_bits_eq, Z_nat_N, Hbits, has_index_iff. split.
    - intros (Hr & j & Hj & E). rewrite Forall_forall in HF. apply in_map_iff in Hj.
      destruct Hj as ([j' r'] & Ej & Hin). cbn [fst] in Ej. subst j'.
      destruct (HF _ Hin) as [_ Hjr]. cbn [fst] in Hjr.
      assert (j = i) by (apply Z2N.inj; lia). subst j. apply in_map_iff. exists (i, r'). split; [reflexivity | exact Hin].
    - intros Hi. pose proof Hi as Hi'. apply in_map_iff in Hi'. destruct Hi' as ([i' r'] & Ei & Hin). cbn [fst] in Ei. subst i'.
      rewrite Forall_forall in HF. destruct (HF _ Hin) as [_ Hr]. cbn [fst] in Hr.
      split; [exact Hr|]. exists i. split; [exact Hi | reflexivity]. }
  split; [exact Hbits|]. split; [exact Hset|].
  rewrite <- (map_length fst (ir :: rs)). apply Permutation_length.
  apply NoDup_Permutation; [apply mask_keys_nodup | exact Hnd | exact Hset].
Qed.

(* map iteration order is irrelevant *)
Lemma commitment_perm : forall rs rs' c, aggregate_commitment l rs = Ok c -> NoDup (map fst rs) ->
  Permutation rs rs' ->
  exists c', aggregate_commitment l rs' = Ok c' /\ c_mask c' = c_mask c /\ cg l (c_r c') (c_r c).
Proof.
  intros rs rs' c Hc Hnd HP.
  pose proof (commitment_sum rs c Hc) as (_ & _ & Hr & HF).
  assert (HF' : Forall commitment_ok rs') by (eapply Permutation_Forall; [exact HP | exact HF]).
  assert (Hnd' : NoDup (map fst rs')) by (eapply Permutation_NoDup; [apply Permutation_map; exact HP | exact Hnd]).
  destruct (commit_loop_total rs' 0 0%N HF') as (p' & mask' & El').
  assert (Hne : rs' <> []).
  { intro E. subst rs'. apply Permutation_sym, Permutation_nil in HP. subst rs. discriminate. }
  assert (Hc' : aggregate_commitment l rs' = Ok (mkCosi p' 0 mask' rs')).
  { unfold aggregate_commitment. destruct rs' as [|x xs]; [congruence|]. rewrite El'. reflexivity. }
  exists (mkCosi p' 0 mask' rs'). split; [exact Hc'|]. cbn [c_mask c_r]. split.
  - apply N.bits_inj. intros n.
    destruct (commitment_mask rs c Hc Hnd) as (Hb & _). destruct (commitment_mask rs' _ Hc' Hnd') as (Hb' & _).
    cbn [c_mask] in Hb'. rewrite Hb, Hb'. symmetry. apply has_index_perm. apply Permutation_map. exact HP.
  - pose proof (commitment_sum rs' _ Hc') as (_ & _ & Hr' & _). cbn [c_r] in Hr'.
    rewrite Hr, Hr'. rewrite (zsum_perm _ _ (Permutation_map snd HP)). reflexivity.
Qed.

(* hence the hypothesis of [complete] on R holds after CosiAggregateCommitment *)
Lemma commitment_wf : forall rs c, aggregate_commitment l rs = Ok c -> NoDup (map fst rs) ->
  cg l (c_r c) (zsum (map (commit_of c) (mask_keys (c_mask c)))).
Proof.
  intros rs c Hc Hnd. pose proof (commitment_sum rs c Hc) as (Hcm & _ & Hr & _).
  destruct (commitment_mask rs c Hc Hnd) as (_ & Hset & _).
  assert (HP : Permutation (mask_keys (c_mask c)) (map fst rs))
    by (apply NoDup_Permutation; [apply mask_keys_nodup | exact Hnd | exact Hset]).
  rewrite (zsum_perm _ _ (Permutation_map (commit_of c) HP)), map_map, Hr.
  apply cg_eq. f_equal. apply map_ext_in. intros [i r] Hin. cbn [fst snd].
  unfold commit_of. rewrite Hcm, (assoc_in_nodup rs i r Hnd Hin). reflexivity.
Qed.

(* ---- when the non-identity side conditions fail ------------------------------------- *)

Lemma sum_identity_iff : forall xs, 0 < l -> (point_ok l (fsum l xs) = false <-> cg l (zsum xs) 0).
Proof.
  intros xs Hl. pose proof (fsum_range l xs Hl) as Hr. split.
  - intros Hp. assert (E : fsum l xs = 0).
    { destruct (Z.eq_dec (fsum l xs) 0) as [E|E]; [exact E|].
      assert (point_ok l (fsum l xs) = true) by (apply point_ok_iff; lia). congruence. }
    rewrite <- (fsum_cg l xs), E. reflexivity.
  - intros Hz. assert (E : fsum l xs = 0).
    { apply (cg_small l); [exact Hr | lia |]. rewrite fsum_cg. exact Hz. }
    rewrite E. unfold point_ok. rewrite Z.ltb_irrefl. reflexivity.
Qed.

Lemma identity_rejected : forall keys t m c A,
  cosi_public_key l keys c = Ok A ->
  point_ok l A = false \/ point_ok l (c_r c) = false ->
  full_verify l enc H keys t m c = Err.
Proof.
  intros keys t m c A HA Hid. unfold full_verify.
  destruct (t <=? 0); [reflexivity|]. destruct (negb _); [reflexivity|].
  rewrite HA. cbn [bind]. unfold schnorr_verify, verify_with_challenge.
  destruct Hid as [E|E]; rewrite E; [reflexivity|]. rewrite andb_false_r. reflexivity.
Qed.

End CosiProofs.
