(* Link between the consensus chain of C28 (Model/KernelSnap.v, read-only here)
   and the membership lifecycle of C27 (Model/NodeState.v).

   A recorded consensus history is a list of [crec] records in write order;
   C28 proves it is a [chain]: one transaction per record, each record linked
   to the next, timestamps strictly increasing.  A consensus record holds the
   hash of its sole transaction and the timestamp of its snapshot - the very
   timestamp finalizeTransaction hands to writeNodePledge/Accept/Cancel/Remove.
   Whether that transaction is a membership operation, and with which keys, is
   in the TRANSACTION body the hash points to; it is a parameter here:
     [body t = Some (kind, signer, payee)]  t is a node pledge/accept/cancel/remove
     [body t = None]                        t is a mint or a custodian transaction.
   [project body l] is the list of node operations C27 consumes: the
   membership-class records of l, in chain order, same transaction hash, same
   timestamp.  For every chain it has strictly increasing timestamps, so the
   timestamp hypothesis of C27_lifecycle is discharged by C28. *)
From Coq Require Import List ZArith NArith Bool Lia ZifyN.
Require Import Mixin.Base.Res Mixin.Model.KernelSnap.
Require Mixin.Proofs.KernelSnap.
Require Import Mixin.Model.NodeState Mixin.Proofs.NodeState.
Import ListNotations.

Definition body_t := N -> option (okind * N * N).

Definition op_of_rec (body : body_t) (r : crec) : option op :=
  match cr_txs r with
  | [t] =>
      match body t with
      | Some (k, s, p) => Some (mk_op k s p t (Z.to_N (cr_ts r)) false)
      | None => None
      end
  | _ => None
  end.

Fixpoint project (body : body_t) (l : list crec) : list op :=
  match l with
  | [] => []
  | r :: t =>
      match op_of_rec body r with
      | Some o => o :: project body t
      | None => project body t
      end
  end.

(* the projected operation is the record's transaction at the record's timestamp *)
Lemma op_of_rec_spec body r o :
  op_of_rec body r = Some o ->
  cr_txs r = [o_tx o] /\ o_ts o = Z.to_N (cr_ts r) /\ o_genesis o = false /\
  body (o_tx o) = Some (o_kind o, o_signer o, o_payee o).
Proof.
  unfold op_of_rec. destruct (cr_txs r) as [|t [|x xs]]; try discriminate.
  destruct (body t) as [[[k s] p]|] eqn:E; [|discriminate].
  intros H. inversion H; subst. cbn. rewrite E. repeat split.
Qed.

(* timestamps along a chain *)
Fixpoint inc_from (t : Z) (l : list crec) : Prop :=
  match l with
  | [] => True
  | r :: l' => (t < cr_ts r)%Z /\ inc_from (cr_ts r) l'
  end.

Lemma chain_inc : forall rest g, chain (g :: rest) -> inc_from (cr_ts g) rest.
Proof.
  induction rest as [|r rest IH]; intros g H; [exact I|].
  inversion H as [|? ? ? Hl Hc]; subst. cbn. split.
  - destruct Hl as [t1 [t2 [_ [_ [_ [_ Hlt]]]]]]. exact Hlt.
  - apply IH. exact Hc.
Qed.

Lemma increasing_weaken ops : forall t t', (t <= t')%N -> increasing_from t' ops -> increasing_from t ops.
Proof.
  destruct ops as [|o ops]; intros t t' Hle H; [exact I|].
  cbn in *. destruct H as [H1 [H2 [H3 H4]]]. repeat split; try assumption. lia.
Qed.

Definition in_range (r : crec) : Prop :=
  (cr_ts r + Z.of_N max_period < Z.of_N NodeState.two64)%Z.

Lemma project_increasing body : forall l t,
  (0 <= t)%Z -> inc_from t l -> Forall in_range l ->
  increasing_from (Z.to_N t) (project body l).
Proof.
  induction l as [|r l IH]; intros t Ht Hinc Hr; [exact I|].
  cbn in Hinc. destruct Hinc as [Hlt Hinc]. inversion Hr as [|? ? Hr1 Hr']; subst.
  assert (IH' : increasing_from (Z.to_N (cr_ts r)) (project body l)) by (apply IH; [lia|exact Hinc|exact Hr']).
  cbn [project]. destruct (op_of_rec body r) as [o|] eqn:E.
  - destruct (op_of_rec_spec _ _ _ E) as [_ [Hts [Hg _]]]. cbn. rewrite Hts.
    split; [exact Hg|]. split; [lia|]. split; [|exact IH'].
    unfold in_range in Hr1. apply N2Z.inj_lt. rewrite N2Z.inj_add, Z2N.id by lia. exact Hr1.
  - apply (increasing_weaken _ _ (Z.to_N (cr_ts r))); [lia|exact IH'].
Qed.

Theorem chain_projection_increasing body g rest :
  chain (g :: rest) -> (0 <= cr_ts g)%Z -> Forall in_range rest ->
  increasing_from (Z.to_N (cr_ts g)) (project body rest).
Proof.
  intros Hc H0 Hr. apply project_increasing; [exact H0|apply chain_inc; exact Hc|exact Hr].
Qed.

(* the lifecycle statement over a recorded consensus chain: no hypothesis on
   the order of timestamps is left.  g is the record of the genesis consensus
   snapshot (the chain's first record); gs are the genesis nodes. *)
Theorem lifecycle_over_chain body gs g rest pre o post :
  chain (g :: rest) -> (0 <= cr_ts g)%Z -> Forall in_range rest ->
  genesis_ok (Z.to_N (cr_ts g)) gs ->
  project body rest = pre ++ o :: post ->
  let h := run (gs ++ pre) in
  (forall s, node_ok h s) /\
  (forall s1 s2, is_pledging h s1 -> is_pledging h s2 -> s1 = s2) /\
  match apply h o with
  | Ok h' => h' = h ++ [rec_of o] /\ guard h o
  | Err => ~ guard h o
  | Panic => h = [] /\ o_kind o <> OPledge
  end.
Proof.
  intros Hc H0 Hr Hg Hp. apply (lifecycle_thm (Z.to_N (cr_ts g)) gs pre o post Hg).
  rewrite <- Hp. apply chain_projection_increasing; assumption.
Qed.

Theorem reported_over_chain body gs g rest th :
  chain (g :: rest) -> (0 <= cr_ts g)%Z -> Forall in_range rest ->
  genesis_ok (Z.to_N (cr_ts g)) gs ->
  let ops := project body rest in
  let h := run (gs ++ ops) in
  (last_ts (Z.to_N (cr_ts g)) ops <= th)%N -> (th < NodeState.two64)%N ->
  read_all_nodes h th true = Ok h /\
  exists l, read_all_nodes h th false = Ok l /\
            (forall r, In r l <-> current h (n_signer r) = Some r) /\
            NoDup (map n_signer l).
Proof.
  intros Hc H0 Hr Hg ops h. apply (reported_thm (Z.to_N (cr_ts g)) gs ops th Hg).
  apply chain_projection_increasing; assumption.
Qed.

(* ---- the same over C28's write histories --------------------------------------- *)

Lemma cset_head r : forall x t, exists x' t', cset r (x :: t) = x' :: t' /\ cr_ts x' = cr_ts x.
Proof.
  intros x t. cbn. destruct (key_eq x r) eqn:E.
  - exists r, t. split; [reflexivity|]. unfold key_eq in E. apply andb_true_iff in E.
    destruct E as [E _]. apply Z.eqb_eq in E. symmetry. exact E.
  - exists x, (cset r t). split; reflexivity.
Qed.

Lemma write_head o x t h' :
  write_consensus_snapshot (x :: t) o = Ok h' -> exists x' t', h' = x' :: t' /\ cr_ts x' = cr_ts x.
Proof.
  unfold write_consensus_snapshot.
  destruct (co_txs o) as [|sole [|y ys]]; try discriminate.
  destruct (negb (sole =? co_tx o)%N); [discriminate|].
  destruct (negb (co_mint o) && negb match co_out0 o with Some t0 => consensus_out t0 | None => false end);
    [discriminate|].
  destruct (co_genesis o).
  - intros H. inversion H; subst. apply cset_head.
  - destruct (read_last (x :: t)) as [last|]; [|discriminate].
    destruct (match cr_next last with Some _ => true | None => false end); [discriminate|].
    destruct (cr_txs last) as [|lsole [|z zs]]; try discriminate.
    destruct (lsole =? co_tx o)%N.
    + intros H. inversion H; subst. exists x, t. split; reflexivity.
    + destruct (co_refs o) as [|r0 rs]; [discriminate|].
      destruct (negb (lsole =? r0)%N); [discriminate|].
      destruct (co_ts o <=? cr_ts last)%Z; [discriminate|].
      intros H. injection H as <-.
      repeat (cbn [cset];
              match goal with
              | |- context [if key_eq ?a ?b then _ else _] =>
                  let E := fresh "E" in destruct (key_eq a b) eqn:E
              end);
      (eexists; eexists; split; [reflexivity|]); cbn;
      repeat match goal with
             | E : key_eq _ _ = true |- _ =>
                 unfold key_eq in E; apply andb_true_iff in E; destruct E as [E _];
                 apply Z.eqb_eq in E; cbn in E
             end; congruence.
Qed.

Lemma writes_head : forall cops x t,
  exists x' t', fold_left apply_cop cops (x :: t) = x' :: t' /\ cr_ts x' = cr_ts x.
Proof.
  induction cops as [|o cops IH]; intros x t; [exists x, t; split; reflexivity|].
  cbn [fold_left]. unfold apply_cop at 2.
  destruct (write_consensus_snapshot (x :: t) o) as [h'| |] eqn:E.
  - destruct (write_head _ _ _ _ E) as [x1 [t1 [-> H1]]].
    destruct (IH x1 t1) as [x2 [t2 [E2 H2]]]. exists x2, t2. split; [exact E2|congruence].
  - apply IH.
  - apply IH.
Qed.

(* every store reached from the genesis consensus record g by any sequence of
   (non-genesis) writeConsensusSnapshot calls is a chain g' :: rest with the
   timestamp of g, and the membership history built from its node operations
   satisfies the lifecycle *)
Theorem lifecycle_over_consensus_writes body gs g cops :
  chain [g] -> Forall (fun c => co_genesis c = false) cops ->
  exists g' rest,
    fold_left apply_cop cops [g] = g' :: rest /\ cr_ts g' = cr_ts g /\ chain (g' :: rest) /\
    ((0 <= cr_ts g)%Z -> Forall in_range rest -> genesis_ok (Z.to_N (cr_ts g)) gs ->
     forall pre o post, project body rest = pre ++ o :: post ->
       let h := run (gs ++ pre) in
       (forall s, node_ok h s) /\
       (forall s1 s2, is_pledging h s1 -> is_pledging h s2 -> s1 = s2) /\
       match apply h o with
       | Ok h' => h' = h ++ [rec_of o] /\ guard h o
       | Err => ~ guard h o
       | Panic => h = [] /\ o_kind o <> OPledge
       end).
Proof.
  intros Hc Hf. destruct (writes_head cops g []) as [g' [rest [E Hts]]].
  exists g', rest. split; [exact E|]. split; [exact Hts|].
  assert (Hc' : chain (g' :: rest)).
  { rewrite <- E. apply Mixin.Proofs.KernelSnap.c28_single_chain; assumption. }
  split; [exact Hc'|].
  intros H0 Hr Hg pre o post Hp. rewrite <- Hts in H0, Hg.
  exact (lifecycle_over_chain body gs g' rest pre o post Hc' H0 Hr Hg Hp).
Qed.
