(* Lemmas about Model/RoundLinks.v: what an accepted transition establishes,
   that a rejected one changes nothing, and that the in-memory RoundLinks mirror
   the durable LINK records in every reachable state - provided external
   references are not node ids (a node id names a HEAD record; see the refuted
   statements in Props/C20.v). *)
From Coq Require Import List ZArith NArith Bool Lia ZifyN ZifyBool Permutation Sorted.
Require Import Mixin.Base.Res Mixin.Gen.Consts Mixin.Model.RoundHash Mixin.Model.LiveRound
               Mixin.Model.RoundLinks Mixin.Proofs.RoundHash Mixin.Proofs.LiveRound.
Import ListNotations.
Open Scope N_scope.

Lemma debug_on : debug_asserts = true.
Proof. reflexivity. Qed.

(* ---- association lists ------------------------------------------------------------------ *)
Lemma read_round_some : forall d k r, read_round d k = Ok (Some r) ->
  find_round k (d_rounds d) = Some r /\ r_hash r <> 0.
Proof.
  intros d k r Hr. unfold read_round in Hr. destruct (find_round k (d_rounds d)) as [x|]; [|discriminate].
  destruct (r_hash x =? 0) eqn:E; [discriminate|]. inversion Hr; subst. split; [reflexivity|lia].
Qed.
Lemma read_round_none : forall d k, read_round d k = Ok None -> find_round k (d_rounds d) = None.
Proof.
  intros d k Hr. unfold read_round in Hr. destruct (find_round k (d_rounds d)) as [x|]; [|reflexivity].
  destruct (r_hash x =? 0); discriminate.
Qed.
Lemma read_round_not_err : forall d k, read_round d k <> Err.
Proof. intros d k. unfold read_round. destruct (find_round k (d_rounds d)) as [x|]; [destruct (r_hash x =? 0)|]; discriminate. Qed.

Lemma dur_link_put : forall d f t v f' t',
  dur_link (put_link f t v d) f' t' = if (f' =? f) && (t' =? t) then v else dur_link d f' t'.
Proof. reflexivity. Qed.
Lemma dur_link_put_round : forall d k v f t, dur_link (put_round k v d) f t = dur_link d f t.
Proof. reflexivity. Qed.
Lemma find_put_round : forall d k v k',
  find_round k' (d_rounds (put_round k v d)) = if k' =? k then Some v else find_round k' (d_rounds d).
Proof. reflexivity. Qed.
Lemma find_put_link : forall d f t v k, find_round k (d_rounds (put_link f t v d)) = find_round k (d_rounds d).
Proof. reflexivity. Qed.

(* ---- the storage calls -------------------------------------------------------------------- *)
Definition closed_rec (self fs : N) (s : round_rec) : round_rec :=
  mk_rr self (r_node s) (r_number s) fs (r_self s) (r_ext s).

Lemma store_start_ok : forall d node number self ext fs d', number <> 0 ->
  store_start_new_round d node number self ext fs = Ok d' ->
  exists s e,
    find_round node (d_rounds d) = Some s /\ r_number s = number - 1 /\
    find_round ext (d_rounds d) = Some e /\ r_hash e <> 0 /\ r_node e <> r_node s /\
    find_round self (d_rounds d) = None /\ dur_link d node (r_node e) <= r_number e /\
    d' = put_round node (mk_rr node node number 0 self ext)
           (put_round self (closed_rec self fs s) (put_link node (r_node e) (r_number e) d)).
Proof.
  intros d node number self ext fs d' Hn Hs. unfold store_start_new_round in Hs.
  rewrite debug_on in Hs. assert (En : negb (number =? 0) = true) by lia. rewrite En in Hs.
  cbn [andb] in Hs.
  destruct (read_round d node) as [[s|]| |] eqn:Rs; cbn [bind] in Hs; try discriminate.
  2:{ destruct (read_round d ext) as [[e|]| |]; cbn [bind] in Hs; discriminate. }
  destruct (read_round d ext) as [[e|]| |] eqn:Re; cbn [bind] in Hs; try discriminate.
  2:{ destruct (negb (r_number s =? number - 1)); cbn [bind] in Hs; discriminate. }
  destruct (negb (r_number s =? number - 1)) eqn:E1; cbn [bind] in Hs; [discriminate|].
  destruct (r_node e =? r_node s) eqn:E2; cbn [bind] in Hs; [discriminate|].
  destruct (read_round d self) as [[o|]| |] eqn:Ro; cbn [bind] in Hs; try discriminate.
  destruct (r_number e <? dur_link d node (r_node e)) eqn:E3; cbn [bind] in Hs; [discriminate|].
  inversion Hs; subst d'. clear Hs.
  destruct (read_round_some _ _ _ Rs) as [Fs _]. destruct (read_round_some _ _ _ Re) as [Fe He].
  exists s, e. repeat split; try assumption; try lia.
  apply read_round_none; exact Ro.
Qed.

Lemma store_update_ok : forall d node number self ext d',
  store_update_empty_head d node number self ext = Ok d' ->
  exists s e,
    find_round node (d_rounds d) = Some s /\ r_number s = number /\ r_self s = self /\
    find_round ext (d_rounds d) = Some e /\ r_hash e <> 0 /\ r_node e <> r_node s /\
    d' = put_round node (mk_rr node node number 0 self ext) (put_link node (r_node e) (r_number e) d).
Proof.
  intros d node number self ext d' Hs. unfold store_update_empty_head in Hs.
  destruct (read_round d node) as [[s|]| |] eqn:Rs; cbn [bind] in Hs; try discriminate.
  destruct (negb (r_number s =? number)) eqn:E1; [discriminate|].
  destruct (negb (r_self s =? self)) eqn:E2; [discriminate|].
  destruct (read_round d ext) as [[e|]| |] eqn:Re; cbn [bind] in Hs; try discriminate.
  destruct (r_node e =? r_node s) eqn:E3; [discriminate|].
  inversion Hs; subst d'. clear Hs.
  destruct (read_round_some _ _ _ Rs) as [Fs _]. destruct (read_round_some _ _ _ Re) as [Fe He].
  exists s, e. repeat split; try assumption; lia.
Qed.

Lemma update_external_ok : forall d fnode links e strict sanity links',
  update_external d fnode links e strict sanity = Ok links' ->
  fnode <> r_node e /\ get_link (r_node e) links <= r_number e /\
  dur_link d fnode (r_node e) = get_link (r_node e) links /\
  links' = (r_node e, r_number e) :: links.
Proof.
  intros d fnode links e strict sanity links' Hu. unfold update_external in Hu.
  destruct (fnode =? r_node e) eqn:E1; [discriminate|].
  destruct (r_number e <? get_link (r_node e) links) eqn:E2; [discriminate|].
  destruct (negb (dur_link d fnode (r_node e) =? get_link (r_node e) links)) eqn:E3; [discriminate|].
  destruct (strict && negb sanity); [discriminate|]. inversion Hu; subst.
  repeat split; lia.
Qed.

(* ---- invariant of one chain against the durable records ------------------------------------- *)
Definition chain_wf (c : chain) : Prop :=
  ch_id c = c_node (ch_cache c) /\ ch_id c = f_node (ch_final c).

Definition mirror (d : durable) (c : chain) : Prop :=
  forall n, get_link n (ch_links c) = dur_link d (ch_id c) n.

(* idl: the node ids, i.e. the keys of HEAD records *)
Definition chain_inv (idl : list N) (d : durable) (c : chain) : Prop :=
  chain_wf c /\ mirror d c /\ ~ In (c_ext (ch_cache c)) idl /\
  exists x, find_round (c_ext (ch_cache c)) (d_rounds d) = Some x /\
            get_link (r_node x) (ch_links c) = r_number x.

(* what a transition of chain [id] may change in the durable records *)
Definition dur_frame (id : N) (d d' : durable) : Prop :=
  (forall from to, from <> id -> dur_link d' from to = dur_link d from to) /\
  (forall k x, k <> id -> find_round k (d_rounds d) = Some x -> find_round k (d_rounds d') = Some x).

Lemma dur_frame_refl : forall id d, dur_frame id d d.
Proof. intros id d. split; intros; auto. Qed.

Lemma chain_inv_frame : forall idl d d' id c,
  In id idl -> ch_id c <> id -> dur_frame id d d' -> chain_inv idl d c -> chain_inv idl d' c.
Proof.
  intros idl d d' id c Hid Hne [F1 F2] [Hwf [Hm [Hx [x [Fx Lx]]]]].
  split; [exact Hwf|]. split; [|split; [exact Hx|]].
  - intro n. rewrite F1 by exact Hne. apply Hm.
  - exists x. split; [|exact Lx]. apply F2; [|exact Fx]. intro E. apply Hx. rewrite E. exact Hid.
Qed.

Lemma chain_inv_set_snaps : forall idl d c l, chain_inv idl d c -> chain_inv idl d (set_snaps c l).
Proof. intros idl d c l Hc. exact Hc. Qed.

Section Trans.
Variable H : hin -> N.
Variable sort : list snap -> list snap.
Variable sort_ts : list snap -> list snap.

(* ---- startNewRoundAndPersist ------------------------------------------------------------------ *)

(* everything an accepted start did, in terms of the state before it *)
Definition start_effect (d : durable) (c : chain) (self ext ts : N) (finalized dummy : bool)
           (d' : durable) (c' : chain) : Prop :=
  let k := ch_cache c in
  let id := ch_id c in
  let ext' := if dummy then c_ext k else ext in
  exists start end_ s e,
    id = c_node k /\
    as_final H sort (c_node k) (c_number k) (c_snaps k) = Ok (Some (start, end_, self)) /\
    find_round id (d_rounds d) = Some s /\ r_number s = c_number k /\
    find_round ext' (d_rounds d) = Some e /\ r_hash e <> 0 /\ r_node e <> r_node s /\
    find_round self (d_rounds d) = None /\
    dur_link d id (r_node e) <= r_number e /\
    (dummy = false -> r_hash e = ext /\ id <> r_node e /\
                      get_link (r_node e) (ch_links c) <= r_number e /\
                      dur_link d id (r_node e) = get_link (r_node e) (ch_links c)) /\
    (dummy = true -> finalized = true /\ find_round ext (d_rounds d) = None) /\
    d' = put_round id (mk_rr id id (c_number k + 1) 0 self ext')
           (put_round self (closed_rec self start s) (put_link id (r_node e) (r_number e) d)) /\
    c' = mk_chain id (mk_fr (c_node k) (c_number k) start end_ self)
           (mk_cr id (c_number k + 1) ts self ext' [])
           (if dummy then ch_links c else (r_node e, r_number e) :: ch_links c).

Lemma start_ok_inv : forall d c self ext ts finalized sanity d' c' dummy,
  start_new_round H sort d c self ext ts finalized sanity = (d', c', Ok dummy) ->
  start_effect d c self ext ts finalized dummy d' c'.
Proof.
  intros d c self ext ts finalized sanity d' c' dummy Hs. unfold start_new_round in Hs.
  destruct (negb (ch_id c =? c_node (ch_cache c))) eqn:E0; [inversion Hs|].
  destruct (as_final H sort (c_node (ch_cache c)) (c_number (ch_cache c)) (c_snaps (ch_cache c)))
    as [[[[start end_] h]|]| |] eqn:Ef; try (inversion Hs; fail).
  destruct (negb (self =? h)) eqn:E1; [inversion Hs|].
  assert (Eh : h = self) by lia. subst h.
  assert (Eid : ch_id c = c_node (ch_cache c)) by lia.
  cbn [f_number f_start f_node] in Hs.
  destruct (read_round d ext) as [[e0|]| |] eqn:Re; try (inversion Hs; fail).
  - (* external found *)
    destruct (negb (r_hash e0 =? ext)) eqn:E2; [inversion Hs|].
    destruct (update_external d (c_node (ch_cache c)) (ch_links c) e0 (negb finalized) sanity) as [links| |] eqn:Eu;
      try (inversion Hs; fail).
    apply update_external_ok in Eu. destruct Eu as [U1 [U2 [U3 U4]]]. subst links.
    match type of Hs with context [store_start_new_round ?a1 ?a2 ?a3 ?a4 ?a5 ?a6] =>
      destruct (store_start_new_round a1 a2 a3 a4 a5 a6) as [d1| |] eqn:Est end; try (inversion Hs; fail).
    match type of Hs with (if ?b then _ else _) = _ => destruct b end; inversion Hs; subst d' c' dummy. clear Hs.
    apply store_start_ok in Est; [|lia].
    destruct Est as [s [e [F1 [F2 [F3 [F4 [F5 [F6 [F7 F8]]]]]]]]].
    destruct (read_round_some _ _ _ Re) as [Fe0 _]. rewrite Fe0 in F3. inversion F3; subst e0.
    exists start, end_, s, e. rewrite <- Eid in *.
    repeat split; try assumption; try lia; try discriminate.
  - (* unknown external: the dummy path *)
    destruct finalized; [|inversion Hs].
    match type of Hs with context [store_start_new_round ?a1 ?a2 ?a3 ?a4 ?a5 ?a6] =>
      destruct (store_start_new_round a1 a2 a3 a4 a5 a6) as [d1| |] eqn:Est end; try (inversion Hs; fail).
    match type of Hs with (if ?b then _ else _) = _ => destruct b end; inversion Hs; subst d' c' dummy. clear Hs.
    apply store_start_ok in Est; [|lia].
    destruct Est as [s [e [F1 [F2 [F3 [F4 [F5 [F6 [F7 F8]]]]]]]]].
    exists start, end_, s, e. rewrite <- Eid in *.
    repeat split; try assumption; try lia; try discriminate.
    apply read_round_none; exact Re.
Qed.

(* a rejected start changes nothing but the order of the live round's slice *)
Lemma start_err_inv : forall d c self ext ts finalized sanity d' c',
  start_new_round H sort d c self ext ts finalized sanity = (d', c', Err) ->
  d' = d /\ (c' = c \/ c' = set_snaps c (sort (c_snaps (ch_cache c)))).
Proof.
  intros d c self ext ts finalized sanity d' c' Hs. unfold start_new_round in Hs.
  destruct (negb (ch_id c =? c_node (ch_cache c))); [inversion Hs|].
  destruct (as_final H sort (c_node (ch_cache c)) (c_number (ch_cache c)) (c_snaps (ch_cache c)))
    as [[[[start end_] h]|]| |]; try (inversion Hs; subst; auto; fail).
  destruct (negb (self =? h)); [inversion Hs; subst; auto|].
  cbn [f_number f_start f_node] in Hs.
  destruct (read_round d ext) as [[e0|]| |]; try (inversion Hs; subst; auto; fail).
  - destruct (negb (r_hash e0 =? ext)); [inversion Hs|].
    destruct (update_external d (c_node (ch_cache c)) (ch_links c) e0 (negb finalized) sanity) as [links| |];
      try (inversion Hs; subst; auto; fail).
    match type of Hs with context [store_start_new_round ?a1 ?a2 ?a3 ?a4 ?a5 ?a6] =>
      destruct (store_start_new_round a1 a2 a3 a4 a5 a6) as [d1| |] end; try (inversion Hs; fail).
    match type of Hs with (if ?b then _ else _) = _ => destruct b end; inversion Hs.
  - destruct finalized; [|inversion Hs; subst; auto].
    match type of Hs with context [store_start_new_round ?a1 ?a2 ?a3 ?a4 ?a5 ?a6] =>
      destruct (store_start_new_round a1 a2 a3 a4 a5 a6) as [d1| |] end; try (inversion Hs; fail).
    match type of Hs with (if ?b then _ else _) = _ => destruct b end; inversion Hs.
Qed.

(* ---- updateEmptyHeadRoundAndPersist ------------------------------------------------------------- *)
Definition update_effect (d : durable) (c : chain) (self ext : N) (d' : durable) (c' : chain) : Prop :=
  let k := ch_cache c in
  let id := ch_id c in
  exists s e,
    c_snaps k = [] /\ self = c_self k /\ id = c_node k /\ id = f_node (ch_final c) /\
    find_round id (d_rounds d) = Some s /\ r_number s = c_number k /\ r_self s = self /\
    find_round ext (d_rounds d) = Some e /\ r_hash e = ext /\ r_hash e <> 0 /\ id <> r_node e /\
    get_link (r_node e) (ch_links c) <= r_number e /\
    dur_link d id (r_node e) = get_link (r_node e) (ch_links c) /\
    d' = put_round id (mk_rr id id (c_number k) 0 self ext) (put_link id (r_node e) (r_number e) d) /\
    c' = mk_chain id (ch_final c) (mk_cr id (c_number k) (c_ts k) self ext [])
           ((r_node e, r_number e) :: ch_links c).

Lemma update_ok_inv : forall d c self ext ts strict sanity d' c',
  update_empty_head d c self ext ts strict sanity = (d', c', Ok tt) ->
  update_effect d c self ext d' c'.
Proof.
  intros d c self ext ts strict sanity d' c' Hs. unfold update_empty_head in Hs.
  destruct (c_snaps (ch_cache c)) eqn:Esn; [|inversion Hs].
  destruct (negb (self =? c_self (ch_cache c))) eqn:E1; [inversion Hs|].
  destruct (read_round d ext) as [[e0|]| |] eqn:Re; try (inversion Hs; fail).
  destruct (negb (r_hash e0 =? ext)) eqn:E2; [inversion Hs|].
  destruct (update_external d (f_node (ch_final c)) (ch_links c) e0 strict sanity) as [links| |] eqn:Eu;
    try (inversion Hs; fail).
  destruct (store_update_empty_head d (c_node (ch_cache c)) (c_number (ch_cache c)) self ext) as [d1| |] eqn:Est;
    try (inversion Hs; fail).
  destruct ((ch_id c =? c_node (ch_cache c)) && (ch_id c =? f_node (ch_final c))
            && (f_number (ch_final c) + 1 =? c_number (ch_cache c))) eqn:E3; [|inversion Hs].
  inversion Hs; subst d' c'. clear Hs.
  apply update_external_ok in Eu. destruct Eu as [U1 [U2 [U3 U4]]]. subst links.
  apply store_update_ok in Est. destruct Est as [s [e [F1 [F2 [F3 [F4 [F5 [F6 F7]]]]]]]].
  destruct (read_round_some _ _ _ Re) as [Fe0 He0]. rewrite Fe0 in F4. inversion F4; subst e0.
  assert (A1 : ch_id c = c_node (ch_cache c)) by lia.
  assert (A2 : ch_id c = f_node (ch_final c)) by lia.
  exists s, e. rewrite <- A1 in *. rewrite <- A2 in *.
  repeat split; try assumption; lia.
Qed.

Lemma update_err_inv : forall d c self ext ts strict sanity d' c',
  update_empty_head d c self ext ts strict sanity = (d', c', Err) -> d' = d /\ c' = c.
Proof.
  intros d c self ext ts strict sanity d' c' Hs. unfold update_empty_head in Hs.
  destruct (c_snaps (ch_cache c)); [|inversion Hs; auto].
  destruct (negb (self =? c_self (ch_cache c))); [inversion Hs; auto|].
  destruct (read_round d ext) as [[e0|]| |]; try (inversion Hs; auto; fail).
  destruct (negb (r_hash e0 =? ext)); [inversion Hs|].
  destruct (update_external d (f_node (ch_final c)) (ch_links c) e0 strict sanity) as [links| |];
    try (inversion Hs; auto; fail).
  destruct (store_update_empty_head d (c_node (ch_cache c)) (c_number (ch_cache c)) self ext); try (inversion Hs; fail).
  destruct ((ch_id c =? c_node (ch_cache c)) && (ch_id c =? f_node (ch_final c))
            && (f_number (ch_final c) + 1 =? c_number (ch_cache c))); inversion Hs.
Qed.

(* ---- the invariant is preserved by an accepted transition whose external is not a node id ------ *)
Lemma get_link_cons : forall n k v l, get_link n ((k, v) :: l) = if n =? k then v else get_link n l.
Proof. reflexivity. Qed.

Lemma start_preserves : forall idl d c self ext ts finalized dummy d' c',
  In (ch_id c) idl -> ~ In ext idl -> chain_inv idl d c ->
  start_effect d c self ext ts finalized dummy d' c' ->
  chain_inv idl d' c' /\ ch_id c' = ch_id c /\ dur_frame (ch_id c) d d'.
Proof.
  intros idl d c self ext ts finalized dummy d' c' Hid Hext [Hwf [Hm [Hx [x [Fx Lx]]]]] He.
  destruct He as [start [end_ [s [e [A1 [A2 [A3 [A4 [A5 [A6 [A7 [A8 [A9 [A10 [A11 [A12 A13]]]]]]]]]]]]]]]].
  set (ext' := if dummy then c_ext (ch_cache c) else ext) in *.
  assert (Hext' : ~ In ext' idl) by (unfold ext'; destruct dummy; assumption).
  assert (Ne1 : ext' <> ch_id c) by (intro E; apply Hext'; rewrite E; exact Hid).
  assert (Ne2 : ext' <> self) by (intro E; rewrite E in A5; rewrite A8 in A5; discriminate).
  (* the value written to the link equals the new in-memory value *)
  assert (Hval : forall n, get_link n (if dummy then ch_links c else (r_node e, r_number e) :: ch_links c)
                          = if n =? r_node e then r_number e else dur_link d (ch_id c) n).
  { intro n. destruct dummy.
    - unfold ext' in A5. rewrite Fx in A5. inversion A5; subst x.
      destruct (n =? r_node e) eqn:En; [assert (n = r_node e) by lia; subst n; exact Lx | apply Hm].
    - rewrite get_link_cons. destruct (n =? r_node e); [reflexivity | apply Hm]. }
  subst d' c'. split; [|split; [reflexivity|]].
  - split; [split; cbn; [reflexivity | exact A1]|]. split; [|split].
    + intro n. cbn [ch_links ch_id]. rewrite Hval.
      rewrite !dur_link_put_round, dur_link_put. rewrite N.eqb_refl. cbn [andb]. reflexivity.
    + cbn [ch_cache c_ext]. exact Hext'.
    + cbn [ch_cache c_ext ch_links]. exists e. split.
      * rewrite !find_put_round, find_put_link.
        assert (E1 : (ext' =? ch_id c) = false) by lia. assert (E2 : (ext' =? self) = false) by lia.
        rewrite E1, E2. exact A5.
      * rewrite Hval. rewrite N.eqb_refl. reflexivity.
  - split.
    + intros from to Hne. rewrite !dur_link_put_round, dur_link_put.
      assert (E : (from =? ch_id c) = false) by lia. rewrite E. reflexivity.
    + intros k0 x0 Hne Fk. rewrite !find_put_round, find_put_link.
      assert (E1 : (k0 =? ch_id c) = false) by lia. rewrite E1.
      destruct (k0 =? self) eqn:E2; [|exact Fk].
      assert (k0 = self) by lia. subst k0. rewrite A8 in Fk. discriminate.
Qed.

Lemma update_preserves : forall idl d c self ext d' c',
  In (ch_id c) idl -> ~ In ext idl -> chain_inv idl d c ->
  update_effect d c self ext d' c' ->
  chain_inv idl d' c' /\ ch_id c' = ch_id c /\ dur_frame (ch_id c) d d'.
Proof.
  intros idl d c self ext d' c' Hid Hext [Hwf [Hm _]] He.
  destruct He as [s [e [A1 [A2 [A3 [A4 [A5 [A6 [A7 [A8 [A9 [A10 [A11 [A12 [A13 [A14 A15]]]]]]]]]]]]]]]].
  assert (Ne1 : ext <> ch_id c) by (intro E; apply Hext; rewrite E; exact Hid).
  subst d' c'. split; [|split; [reflexivity|]].
  - split; [split; cbn; [reflexivity | exact A4]|]. split; [|split].
    + intro n. cbn [ch_links ch_id]. rewrite get_link_cons, dur_link_put_round, dur_link_put.
      rewrite N.eqb_refl. cbn [andb]. destruct (n =? r_node e); [reflexivity | apply Hm].
    + cbn [ch_cache c_ext]. exact Hext.
    + cbn [ch_cache c_ext ch_links]. exists e. split.
      * rewrite find_put_round, find_put_link. assert (E1 : (ext =? ch_id c) = false) by lia. rewrite E1. exact A8.
      * rewrite get_link_cons, N.eqb_refl. reflexivity.
  - split.
    + intros from to Hne. rewrite dur_link_put_round, dur_link_put.
      assert (E : (from =? ch_id c) = false) by lia. rewrite E. reflexivity.
    + intros k0 x0 Hne Fk. rewrite find_put_round, find_put_link.
      assert (E1 : (k0 =? ch_id c) = false) by lia. rewrite E1. exact Fk.
Qed.

(* ---- worlds --------------------------------------------------------------------------------------- *)
Definition ids (w : world) : list N := map ch_id (w_chains w).
Definition world_inv (w : world) : Prop :=
  NoDup (ids w) /\ Forall (chain_inv (ids w) (w_dur w)) (w_chains w).

(* the external reference of a transition is not a node id (it cannot be a HEAD record) *)
Definition honest (idl : list N) (o : op) : Prop :=
  match o with
  | OAdd _ _ => True
  | OStart _ _ ext _ _ _ => ~ In ext idl
  | OUpdate _ _ ext _ _ _ => ~ In ext idl
  end.

Lemma find_chain_some : forall cid l c, find_chain cid l = Some c -> In c l /\ ch_id c = cid.
Proof.
  intros cid l c. induction l as [|x l IH]; intro Hf; [discriminate|]. cbn [find_chain] in Hf.
  destruct (ch_id x =? cid) eqn:E.
  - inversion Hf; subst. split; [left; reflexivity | lia].
  - destruct (IH Hf) as [H1 H2]. split; [right; exact H1 | exact H2].
Qed.

Lemma put_chain_ids : forall c' l, map ch_id (put_chain c' l) = map ch_id l.
Proof.
  intros c' l. unfold put_chain. rewrite map_map. apply map_ext_in. intros x _.
  destruct (ch_id x =? ch_id c') eqn:E; [lia | reflexivity].
Qed.

Lemma put_chain_forall : forall (P : chain -> Prop) c' l,
  P c' -> (forall x, In x l -> ch_id x <> ch_id c' -> P x) -> Forall P (put_chain c' l).
Proof.
  intros P c' l Hc Hx. unfold put_chain. rewrite Forall_forall. intros y Hy.
  apply in_map_iff in Hy. destruct Hy as [x [E Hin]].
  destruct (ch_id x =? ch_id c') eqn:Eid; subst y; [exact Hc | apply Hx; [exact Hin | lia]].
Qed.

Lemma step_preserves : forall w o w' k,
  world_inv w -> honest (ids w) o -> step H sort sort_ts w o = (w', k) -> k <> 2 -> world_inv w'.
Proof.
  intros w o w' k [Hnd Hall] Hh Hs Hk. unfold step in Hs.
  destruct (find_chain (op_chain o) (w_chains w)) as [c|] eqn:Hf; [|inversion Hs; subst; contradiction].
  destruct (find_chain_some _ _ _ Hf) as [Hin Hcid].
  rewrite Forall_forall in Hall. pose proof (Hall c Hin) as Hc.
  assert (Hidin : In (ch_id c) (ids w)) by (unfold ids; apply in_map; exact Hin).
  assert (Hfin : forall d' c', ch_id c' = ch_id c -> chain_inv (ids w) d' c' -> dur_frame (ch_id c) (w_dur w) d' ->
                 world_inv (mk_world d' (put_chain c' (w_chains w)))).
  { intros d' c' Eid Hc' Hfr. unfold world_inv, ids. cbn [w_chains w_dur]. rewrite put_chain_ids.
    split; [exact Hnd|]. apply put_chain_forall; [exact Hc'|].
    intros x Hx Hne. eapply chain_inv_frame; [exact Hidin | rewrite <- Eid; exact Hne | exact Hfr | apply Hall; exact Hx]. }
  destruct o as [cid s | cid self ext ts finalized sanity | cid self ext ts strict sanity]; cbn [honest] in Hh.
  - assert (Hadd : forall c' r, add_snapshot sort_ts c s = (c', r) -> c' = c \/ exists l, c' = set_snaps c l).
    { intros c' r Ha. unfold add_snapshot in Ha.
      destruct (validate_snapshot sort_ts (c_number (ch_cache c)) (c_snaps (ch_cache c)) s false) as [l1 r1].
      destruct r1 as [[]| |]; try (inversion Ha; subst; left; reflexivity).
      destruct (validate_snapshot sort_ts (c_number (ch_cache c)) l1 s true) as [l2 r2].
      destruct r2 as [[]| |]; inversion Ha; subst; [right; eexists; reflexivity | left; reflexivity | left; reflexivity]. }
    destruct (add_snapshot sort_ts c s) as [c' r] eqn:Ea. inversion Hs; subst w' k.
    destruct (Hadd _ _ eq_refl) as [E|[l E]]; subst c';
      (apply Hfin; [reflexivity | try apply chain_inv_set_snaps; exact Hc | apply dur_frame_refl]).
  - destruct (start_new_round H sort (w_dur w) c self ext ts finalized sanity) as [[d' c'] r] eqn:Est.
    inversion Hs; subst w' k. destruct r as [dummy| |].
    + apply start_ok_inv in Est.
      destruct (start_preserves _ _ _ _ _ _ _ _ _ _ Hidin Hh Hc Est) as [P1 [P2 P3]]. apply Hfin; assumption.
    + apply start_err_inv in Est. destruct Est as [Ed [Ec|Ec]]; subst d' c';
        (apply Hfin; [reflexivity | exact Hc | apply dur_frame_refl]).
    + contradiction.
  - destruct (update_empty_head (w_dur w) c self ext ts strict sanity) as [[d' c'] r] eqn:Est.
    inversion Hs; subst w' k. destruct r as [[]| |].
    + apply update_ok_inv in Est.
      destruct (update_preserves _ _ _ _ _ _ _ Hidin Hh Hc Est) as [P1 [P2 P3]]. apply Hfin; assumption.
    + apply update_err_inv in Est. destruct Est as [Ed Ec]; subst d' c'.
      apply Hfin; [reflexivity | exact Hc | apply dur_frame_refl].
    + contradiction.
Qed.

Lemma step_ids : forall w o w' k, step H sort sort_ts w o = (w', k) -> ids w' = ids w.
Proof.
  intros w o w' k Hs. unfold step in Hs.
  destruct (find_chain (op_chain o) (w_chains w)) as [c|]; [|inversion Hs; reflexivity].
  destruct o as [cid s | cid self ext ts finalized sanity | cid self ext ts strict sanity].
  - destruct (add_snapshot sort_ts c s) as [c' r]. inversion Hs; subst. apply put_chain_ids.
  - destruct (start_new_round H sort (w_dur w) c self ext ts finalized sanity) as [[d' c'] r].
    inversion Hs; subst. apply put_chain_ids.
  - destruct (update_empty_head (w_dur w) c self ext ts strict sanity) as [[d' c'] r].
    inversion Hs; subst. apply put_chain_ids.
Qed.

(* every history of honest transitions that did not die keeps the invariant *)
Theorem steps_preserve : forall os w w' ks,
  world_inv w -> Forall (honest (ids w)) os ->
  steps H sort sort_ts w os = (w', ks) -> ~ In 2 ks -> world_inv w'.
Proof.
  induction os as [|o os IH]; intros w w' ks Hw Hh Hs Hk.
  - inversion Hs; subst. exact Hw.
  - inversion Hh as [|? ? Ho Hos]; subst. cbn [steps] in Hs.
    destruct (step H sort sort_ts w o) as [w1 k] eqn:Est.
    destruct (k =? 2) eqn:Ek.
    + inversion Hs; subst. exfalso. apply Hk. left. lia.
    + destruct (steps H sort sort_ts w1 os) as [wf ks'] eqn:Est2. inversion Hs; subst.
      assert (Hk2 : k <> 2) by lia.
      pose proof (step_preserves _ _ _ _ Hw Ho Est Hk2) as Hw1.
      apply (IH w1 w' ks'); [exact Hw1 | rewrite (step_ids _ _ _ _ Est); exact Hos | exact Est2|].
      intro Hin. apply Hk. right. exact Hin.
Qed.

Theorem world_inv_mirror : forall w, world_inv w ->
  forall c, In c (w_chains w) -> forall n, get_link n (ch_links c) = dur_link (w_dur w) (ch_id c) n.
Proof.
  intros w [_ Hall] c Hin n. rewrite Forall_forall in Hall. destruct (Hall c Hin) as [_ [Hm _]]. apply Hm.
Qed.

(* ---- a rejected transition: nothing changes but slice order -------------------------------------- *)
Definition same_but_order (a b : chain) : Prop :=
  exists l, Permutation l (c_snaps (ch_cache a)) /\ b = set_snaps a l.

Lemma set_snaps_self : forall a, a = set_snaps a (c_snaps (ch_cache a)).
Proof. intros [i f [n k t s e l] ls]. reflexivity. Qed.

Lemma same_but_order_refl : forall a, same_but_order a a.
Proof. intro a. exists (c_snaps (ch_cache a)). split; [apply Permutation_refl | apply set_snaps_self]. Qed.

Lemma put_chain_notin : forall c' l, ~ In (ch_id c') (map ch_id l) -> put_chain c' l = l.
Proof.
  intros c' l. induction l as [|x l IH]; intro Hn; [reflexivity|]. cbn [put_chain map] in *.
  assert (E : (ch_id x =? ch_id c') = false) by (destruct (ch_id x =? ch_id c') eqn:E; [exfalso; apply Hn; left; lia | reflexivity]).
  rewrite E. f_equal. apply IH. intro Hin. apply Hn. right. exact Hin.
Qed.

Lemma put_chain_forall2 : forall (R : chain -> chain -> Prop) c c' l,
  (forall x, R x x) -> NoDup (map ch_id l) -> find_chain (ch_id c) l = Some c -> ch_id c' = ch_id c -> R c c' ->
  Forall2 R l (put_chain c' l).
Proof.
  intros R c c' l Hrefl. induction l as [|x l IH]; intros Hnd Hf Eid Hr; [discriminate|].
  inversion Hnd as [|? ? Hnotin Hnd']; subst. cbn [find_chain] in Hf. cbn [put_chain map].
  destruct (ch_id x =? ch_id c) eqn:E.
  - inversion Hf; subst x. assert (E2 : (ch_id c =? ch_id c') = true) by lia. rewrite E2.
    constructor; [exact Hr|].
    change (map (fun c0 : chain => if ch_id c0 =? ch_id c' then c' else c0) l) with (put_chain c' l).
    rewrite put_chain_notin by (rewrite Eid; exact Hnotin).
    clear -Hrefl. induction l; constructor; auto.
  - assert (E2 : (ch_id x =? ch_id c') = false) by lia. rewrite E2.
    constructor; [apply Hrefl | apply IH; assumption].
Qed.

Theorem step_reject_unchanged : forall w o w',
  sort_spec snap_lt sort -> sort_spec ts_lt sort_ts -> NoDup (ids w) ->
  step H sort sort_ts w o = (w', 1) ->
  w_dur w' = w_dur w /\ Forall2 same_but_order (w_chains w) (w_chains w').
Proof.
  intros w o w' HS HT Hnd Hs. unfold step in Hs.
  destruct (find_chain (op_chain o) (w_chains w)) as [c|] eqn:Hf; [|inversion Hs].
  destruct (find_chain_some _ _ _ Hf) as [Hin Hcid]. rewrite <- Hcid in Hf.
  assert (Hfin : forall c', ch_id c' = ch_id c -> same_but_order c c' ->
                 Forall2 same_but_order (w_chains w) (put_chain c' (w_chains w))).
  { intros c' Eid Hr. eapply put_chain_forall2; try eassumption. apply same_but_order_refl. }
  destruct o as [cid s | cid self ext ts finalized sanity | cid self ext ts strict sanity].
  - unfold add_snapshot in Hs.
    destruct (validate_snapshot sort_ts (c_number (ch_cache c)) (c_snaps (ch_cache c)) s false) as [l1 r1] eqn:Hv.
    destruct r1 as [[]| |].
    + destruct (validate_snapshot sort_ts (c_number (ch_cache c)) l1 s true) as [l2 r2].
      destruct r2 as [[]| |]; inversion Hs.
    + inversion Hs; subst w'. cbn [w_dur w_chains]. split; [reflexivity|].
      apply Hfin; [reflexivity | apply same_but_order_refl].
    + inversion Hs.
  - destruct (start_new_round H sort (w_dur w) c self ext ts finalized sanity) as [[d' c'] r] eqn:Est.
    destruct r as [[|]| |]; inversion Hs; subst w'. cbn [w_dur w_chains].
    apply start_err_inv in Est. destruct Est as [Ed [Ec|Ec]]; subst d' c'; (split; [reflexivity|]).
    + apply Hfin; [reflexivity | apply same_but_order_refl].
    + apply Hfin; [reflexivity|]. exists (sort (c_snaps (ch_cache c))). split; [apply (proj1 (HS _)) | reflexivity].
  - destruct (update_empty_head (w_dur w) c self ext ts strict sanity) as [[d' c'] r] eqn:Est.
    destruct r as [[]| |]; inversion Hs; subst w'. cbn [w_dur w_chains].
    apply update_err_inv in Est. destruct Est as [Ed Ec]; subst d' c'. split; [reflexivity|].
    apply Hfin; [reflexivity | apply same_but_order_refl].
Qed.
End Trans.

(* ---- readable consequences of an accepted transition (the C20 step statements) ------------------- *)
Section StepStatements.
Variable H : hin -> N.
Variable sort : list snap -> list snap.

Lemma start_step : forall d c self ext ts finalized sanity d' c' dummy,
  start_new_round H sort d c self ext ts finalized sanity = (d', c', Ok dummy) ->
  let k := ch_cache c in
  let id := ch_id c in
  ch_id c' = id /\
  c_number (ch_cache c') = c_number k + 1 /\ f_number (ch_final c') = c_number k /\
  (exists start end_,
     as_final H sort (c_node k) (c_number k) (c_snaps k) = Ok (Some (start, end_, self)) /\
     ch_final c' = mk_fr id (c_number k) start end_ self) /\
  c_self (ch_cache c') = self /\ c_snaps (ch_cache c') = [] /\
  find_round id (d_rounds d') = Some (mk_rr id id (c_number k + 1) 0 self (c_ext (ch_cache c'))) /\
  (exists s, find_round id (d_rounds d) = Some s /\ r_number s = c_number k /\
             find_round self (d_rounds d) = None /\
             find_round self (d_rounds d') = Some (closed_rec self (f_start (ch_final c')) s)) /\
  exists e,
    find_round (c_ext (ch_cache c')) (d_rounds d) = Some e /\ r_hash e <> 0 /\
    dur_link d id (r_node e) <= r_number e /\ dur_link d' id (r_node e) = r_number e /\
    (forall n, n <> r_node e -> dur_link d' id n = dur_link d id n) /\
    (forall from n, from <> id -> dur_link d' from n = dur_link d from n) /\
    (dummy = false ->
       c_ext (ch_cache c') = ext /\ r_hash e = ext /\ r_node e <> id /\
       dur_link d id (r_node e) = get_link (r_node e) (ch_links c) /\
       get_link (r_node e) (ch_links c') = r_number e /\
       (forall n, n <> r_node e -> get_link n (ch_links c') = get_link n (ch_links c))) /\
    (dummy = true ->
       finalized = true /\ find_round ext (d_rounds d) = None /\
       c_ext (ch_cache c') = c_ext k /\ ch_links c' = ch_links c).
Proof.
  intros d c self ext ts finalized sanity d' c' dummy Hs k id.
  apply start_ok_inv in Hs.
  destruct Hs as [start [end_ [s [e [A1 [A2 [A3 [A4 [A5 [A6 [A7 [A8 [A9 [A10 [A11 [A12 A13]]]]]]]]]]]]]]]].
  fold k in A1, A2, A4, A5, A12, A13. fold id in A1, A3, A9, A10, A12, A13. subst d' c'.
  cbn [ch_id ch_cache ch_final ch_links c_number c_self c_ext c_snaps f_number f_start].
  split; [reflexivity|]. split; [reflexivity|]. split; [reflexivity|].
  split; [exists start, end_; split; [exact A2 | rewrite <- A1; reflexivity]|].
  split; [reflexivity|]. split; [reflexivity|].
  split; [rewrite find_put_round, N.eqb_refl; reflexivity|].
  split.
  { exists s. repeat split; try assumption.
    rewrite !find_put_round, find_put_link.
    destruct (self =? id) eqn:E; [assert (self = id) by lia; subst self; rewrite A3 in A8; discriminate|].
    rewrite N.eqb_refl. reflexivity. }
  exists e. split; [exact A5|]. split; [exact A6|]. split; [exact A9|].
  split; [rewrite !dur_link_put_round, dur_link_put, !N.eqb_refl; reflexivity|].
  split.
  { intros n Hn. rewrite !dur_link_put_round, dur_link_put.
    assert (E : (n =? r_node e) = false) by lia. rewrite E, andb_false_r. reflexivity. }
  split.
  { intros from n Hn. rewrite !dur_link_put_round, dur_link_put.
    assert (E : (from =? id) = false) by lia. rewrite E. reflexivity. }
  split.
  - intro Ed. subst dummy. destruct (A10 eq_refl) as [B1 [B2 [B3 B4]]].
    repeat split; try assumption; try (intro E; apply B2; symmetry; exact E).
    + rewrite get_link_cons, N.eqb_refl. reflexivity.
    + intros n Hn. rewrite get_link_cons. assert (E : (n =? r_node e) = false) by lia. rewrite E. reflexivity.
  - intro Ed. subst dummy. destruct (A11 eq_refl) as [B1 B2]. repeat split; assumption.
Qed.

Lemma update_step : forall d c self ext ts strict sanity d' c',
  update_empty_head d c self ext ts strict sanity = (d', c', Ok tt) ->
  let k := ch_cache c in
  let id := ch_id c in
  ch_id c' = id /\ ch_final c' = ch_final c /\
  c_number (ch_cache c') = c_number k /\ c_self (ch_cache c') = c_self k /\ self = c_self k /\
  c_snaps k = [] /\ c_ext (ch_cache c') = ext /\
  find_round id (d_rounds d') = Some (mk_rr id id (c_number k) 0 self ext) /\
  exists e,
    find_round ext (d_rounds d) = Some e /\ r_hash e = ext /\ r_node e <> id /\
    dur_link d id (r_node e) = get_link (r_node e) (ch_links c) /\
    get_link (r_node e) (ch_links c) <= r_number e /\
    dur_link d' id (r_node e) = r_number e /\ get_link (r_node e) (ch_links c') = r_number e /\
    (forall n, n <> r_node e -> dur_link d' id n = dur_link d id n /\
                                get_link n (ch_links c') = get_link n (ch_links c)) /\
    (forall from n, from <> id -> dur_link d' from n = dur_link d from n) /\
    (forall key, key <> id -> find_round key (d_rounds d') = find_round key (d_rounds d)).
Proof.
  intros d c self ext ts strict sanity d' c' Hs k id.
  apply update_ok_inv in Hs.
  destruct Hs as [s [e [A1 [A2 [A3 [A4 [A5 [A6 [A7 [A8 [A9 [A10 [A11 [A12 [A13 [A14 A15]]]]]]]]]]]]]]]].
  fold k in A1, A2, A3, A6, A14, A15. fold id in A3, A4, A5, A11, A13, A14, A15. subst d' c'.
  cbn [ch_id ch_cache ch_final ch_links c_number c_self c_ext c_snaps].
  split; [reflexivity|]. split; [reflexivity|]. split; [reflexivity|]. split; [exact A2|]. split; [exact A2|].
  split; [exact A1|]. split; [reflexivity|].
  split; [rewrite find_put_round, N.eqb_refl; reflexivity|].
  exists e. split; [exact A8|]. split; [exact A9|]. split; [intro E; apply A11; symmetry; exact E|].
  split; [exact A13|]. split; [exact A12|].
  split; [rewrite dur_link_put_round, dur_link_put, !N.eqb_refl; reflexivity|].
  split; [rewrite get_link_cons, N.eqb_refl; reflexivity|].
  split.
  { intros n Hn. assert (E : (n =? r_node e) = false) by lia. split.
    - rewrite dur_link_put_round, dur_link_put, E, andb_false_r. reflexivity.
    - rewrite get_link_cons, E. reflexivity. }
  split.
  { intros from n Hn. rewrite dur_link_put_round, dur_link_put.
    assert (E : (from =? id) = false) by lia. rewrite E. reflexivity. }
  intros key Hn. rewrite find_put_round, find_put_link.
  assert (E : (key =? id) = false) by lia. rewrite E. reflexivity.
Qed.
End StepStatements.
