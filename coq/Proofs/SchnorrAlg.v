(* Lemmas about Model/SchnorrAlg.v: the Schnorr verification equation and the
   random-linear-combination batch equation in Z_l. *)
From Coq Require Import List ZArith Bool Lia Znumtheory.
Require Import Mixin.Base.Res Mixin.Model.SchnorrAlg.
Import ListNotations.
Open Scope Z_scope.

Section AlgProofs.
Variable l : Z.

(* ---- congruence helpers ---------------------------------------------------- *)

Lemma mod_eq_divide : forall a b, 0 < l -> (a mod l = b mod l <-> (l | a - b)).
Proof.
  intros a b Hl. split.
  - intro H. apply Z.mod_divide; [lia|].
    rewrite Zminus_mod, H, Z.sub_diag. apply Z.mod_0_l. lia.
  - intros [q Hq]. replace a with (b + q * l) by lia.
    apply Z_mod_plus_full.
Qed.

Lemma verify_ch_spec : forall k a r s, 0 < l ->
  verify_ch l k a r s = true <-> (0 <= s < l /\ (l | r + k * a - s)).
Proof.
  intros k a r s Hl. unfold verify_ch, canonical.
  rewrite !andb_true_iff, Z.leb_le, Z.ltb_lt, Z.eqb_eq, mod_eq_divide by assumption.
  split; intros [H1 H2]; (split; [lia|]).
  - destruct H2 as [q Hq]. exists (- q). lia.
  - destruct H2 as [q Hq]. exists (- q). lia.
Qed.

(* ---- exactly one response verifies ------------------------------------------ *)

Lemma verify_ch_unique_s : forall k a r, 0 < l ->
  verify_ch l k a r ((r + k * a) mod l) = true /\
  forall s, verify_ch l k a r s = true -> s = (r + k * a) mod l.
Proof.
  intros k a r Hl. split.
  - apply verify_ch_spec; [assumption|]. split.
    + apply Z.mod_pos_bound. assumption.
    + exists ((r + k * a) / l).
      pose proof (Z.div_mod (r + k * a) l ltac:(lia)). lia.
  - intros s Hs. apply verify_ch_spec in Hs; [|assumption]. destruct Hs as [Hr [q Hq]].
    apply Z.mod_unique_pos with (q := q); lia.
Qed.

(* ---- with the key, the commitment and the response fixed, one challenge ----- *)

Lemma unique_accepting_challenge : forall a r s k k',
  prime l -> a mod l <> 0 ->
  verify_ch l k a r s = true -> verify_ch l k' a r s = true ->
  k mod l = k' mod l.
Proof.
  intros a r s k k' Hp Ha H1 H2.
  assert (Hl : 0 < l) by (pose proof (prime_ge_2 _ Hp); lia).
  apply verify_ch_spec in H1; [|assumption]. apply verify_ch_spec in H2; [|assumption].
  destruct H1 as [_ [q1 Hq1]]. destruct H2 as [_ [q2 Hq2]].
  apply mod_eq_divide; [assumption|].
  assert (Hd : (l | (k - k') * a)) by (exists (q1 - q2); lia).
  apply prime_mult in Hd; [|assumption].
  destruct Hd as [Hd | Hd]; [assumption|].
  exfalso. apply Ha. apply Z.mod_divide; [lia | assumption].
Qed.

(* the accepting challenge as a function of (a, r, s): k = (s - r) * a^-1 *)
Lemma accepting_challenge_determined : forall a r s k,
  prime l -> a mod l <> 0 -> verify_ch l k a r s = true ->
  forall k', verify_ch l k' a r s = true <-> (0 <= s < l /\ k' mod l = k mod l).
Proof.
  intros a r s k Hp Ha Hk k'.
  assert (Hl : 0 < l) by (pose proof (prime_ge_2 _ Hp); lia).
  split.
  - intro Hk'. split.
    + apply verify_ch_spec in Hk'; tauto.
    + eapply unique_accepting_challenge; eassumption.
  - intros [Hs Hm]. apply verify_ch_spec; [assumption|]. split; [assumption|].
    apply verify_ch_spec in Hk; [|assumption]. destruct Hk as [_ [q Hq]].
    apply mod_eq_divide in Hm; [|assumption]. destruct Hm as [q' Hq'].
    exists (q + q' * a). nia.
Qed.

(* ---- batch verification ------------------------------------------------------ *)

Definition delta (e : entry) : Z := e_r e + e_k e * e_a e - e_s e.
Definition lin (zs : list Z) (es : list entry) : Z :=
  - sum_zs zs es + sum_zr zs es + sum_zka zs es.

Lemma lin_cons : forall z zs e es, lin (z :: zs) (e :: es) = z * delta e + lin zs es.
Proof. intros. unfold lin, delta. cbn [sum_zs sum_zr sum_zka]. ring. Qed.

Lemma lin_nil_r : forall zs, lin zs [] = 0.
Proof. intros. unfold lin. destruct zs; reflexivity. Qed.
Lemma lin_nil_l : forall es, lin [] es = 0.
Proof. intros. unfold lin. reflexivity. Qed.

Lemma lin_app : forall zs1 es1 zs2 es2, length zs1 = length es1 ->
  lin (zs1 ++ zs2) (es1 ++ es2) = lin zs1 es1 + lin zs2 es2.
Proof.
  induction zs1 as [|z zs1 IH]; intros es1 zs2 es2 Hlen.
  - destruct es1; [|discriminate]. cbn [app]. rewrite lin_nil_l. ring.
  - destruct es1 as [|e es1]; [discriminate|]. cbn [app]. rewrite !lin_cons.
    rewrite IH by (cbn in Hlen; lia). ring.
Qed.

Lemma entry_ok_spec : forall e, 0 < l ->
  entry_ok l e = true <-> (0 <= e_s e < l /\ (l | delta e)).
Proof. intros e Hl. unfold entry_ok, delta. apply verify_ch_spec. assumption. Qed.

Lemma lin_divide : forall es, 0 < l -> Forall (fun e => entry_ok l e = true) es ->
  forall zs, (l | lin zs es).
Proof.
  intros es Hl HF. induction HF as [|e es He _ IH]; intros zs.
  - rewrite lin_nil_r. apply Z.divide_0_r.
  - destruct zs as [|z zs]; [rewrite lin_nil_l; apply Z.divide_0_r|].
    rewrite lin_cons. apply entry_ok_spec in He; [|assumption].
    apply Z.divide_add_r; [apply Z.divide_mul_r; tauto | apply IH].
Qed.

Lemma batch_check_spec : forall zs es, 0 < l ->
  batch_check l zs es = true <->
  (Forall (fun e => 0 <= e_s e < l) es /\ (l | 8 * lin zs es)).
Proof.
  intros zs es Hl. unfold batch_check. fold (lin zs es).
  rewrite andb_true_iff, forallb_forall, Forall_forall, Z.eqb_eq.
  rewrite Z.mod_divide by lia.
  split; intros [H1 H2]; (split; [|assumption]); intros e He; specialize (H1 e He);
    unfold canonical in *; lia.
Qed.

(* completeness: valid entries pass for EVERY coefficient vector *)
Lemma batch_check_complete : forall es zs, 0 < l ->
  Forall (fun e => entry_ok l e = true) es -> batch_check l zs es = true.
Proof.
  intros es zs Hl HF. apply batch_check_spec; [assumption|]. split.
  - eapply Forall_impl; [|exact HF]. intros e He. apply entry_ok_spec in He; tauto.
  - apply Z.divide_mul_r. apply lin_divide; assumption.
Qed.

Lemma batch_verify_complete : forall es zs, 0 < l -> es <> [] ->
  Forall (fun e => entry_ok l e = true) es -> batch_verify l zs es = true.
Proof.
  intros es zs Hl Hne HF. unfold batch_verify.
  destruct es as [|e [|e' es']]; [congruence| |].
  - inversion HF; assumption.
  - apply batch_check_complete; assumption.
Qed.

(* soundness: an invalid entry passes for at most one value (mod l) of its
   own coefficient, whatever the other coefficients are *)
Lemma batch_check_sound : forall pre e post zpre zpost z z',
  prime l -> l <> 2 ->
  length zpre = length pre ->
  entry_ok l e = false ->
  batch_check l (zpre ++ z :: zpost) (pre ++ e :: post) = true ->
  batch_check l (zpre ++ z' :: zpost) (pre ++ e :: post) = true ->
  z mod l = z' mod l.
Proof.
  intros pre e post zpre zpost z z' Hp H2 Hlen Hbad B1 B2.
  assert (Hl : 0 < l) by (pose proof (prime_ge_2 _ Hp); lia).
  apply batch_check_spec in B1; [|assumption]. apply batch_check_spec in B2; [|assumption].
  destruct B1 as [Hcan D1]. destruct B2 as [_ D2].
  rewrite lin_app, lin_cons in D1, D2 by assumption.
  assert (Hs : 0 <= e_s e < l).
  { rewrite Forall_forall in Hcan. apply Hcan. apply in_or_app. right. left. reflexivity. }
  assert (Hnd : ~ (l | delta e)).
  { intro Hd. assert (entry_ok l e = true) by (apply entry_ok_spec; tauto). congruence. }
  apply mod_eq_divide; [assumption|].
  assert (Hd : (l | 8 * ((z - z') * delta e))).
  { destruct D1 as [q1 Hq1]. destruct D2 as [q2 Hq2]. exists (q1 - q2). lia. }
  apply prime_mult in Hd; [|assumption]. destruct Hd as [Hd | Hd].
  - exfalso. replace 8 with (2 * (2 * 2)) in Hd by reflexivity.
    assert (H2' : (l | 2)).
    { apply prime_mult in Hd; [|assumption]. destruct Hd as [Hd|Hd]; [assumption|].
      apply prime_mult in Hd; [|assumption]. destruct Hd; assumption. }
    apply Z.divide_pos_le in H2'; [|lia]. pose proof (prime_ge_2 _ Hp). lia.
  - apply prime_mult in Hd; [|assumption]. destruct Hd as [Hd | Hd]; [assumption | contradiction].
Qed.

Lemma batch_verify_sound : forall pre e post zpre zpost z z',
  prime l -> l <> 2 ->
  length zpre = length pre ->
  entry_ok l e = false ->
  batch_verify l (zpre ++ z :: zpost) (pre ++ e :: post) = true ->
  batch_verify l (zpre ++ z' :: zpost) (pre ++ e :: post) = true ->
  z mod l = z' mod l.
Proof.
  intros pre e post zpre zpost z z' Hp H2 Hlen Hbad B1 B2.
  unfold batch_verify in B1, B2.
  destruct (pre ++ e :: post) as [|e0 [|e1 rest]] eqn:E.
  - discriminate.
  - destruct pre as [|p pre'].
    + cbn in E. inversion E; subst. congruence.
    + cbn in E. inversion E as [[Hp0 Hrest]]. destruct pre'; discriminate.
  - rewrite <- E in B1, B2. eapply batch_check_sound; eassumption.
Qed.

(* a failing entry and a coefficient that is nonzero mod l: the batch fails when
   every OTHER entry is valid (the usual "one bad signature" case) *)
Lemma batch_check_one_bad : forall pre e post zpre zpost z,
  prime l -> l <> 2 -> length zpre = length pre ->
  Forall (fun x => entry_ok l x = true) pre -> Forall (fun x => entry_ok l x = true) post ->
  entry_ok l e = false -> z mod l <> 0 ->
  batch_check l (zpre ++ z :: zpost) (pre ++ e :: post) = false.
Proof.
  intros pre e post zpre zpost z Hp H2 Hlen Fpre Fpost Hbad Hz.
  assert (Hl : 0 < l) by (pose proof (prime_ge_2 _ Hp); lia).
  destruct (batch_check l (zpre ++ z :: zpost) (pre ++ e :: post)) eqn:B; [|reflexivity].
  exfalso. apply Hz.
  assert (B0 : batch_check l (zpre ++ 0 :: zpost) (pre ++ e :: post) = true).
  { apply batch_check_spec; [assumption|]. apply batch_check_spec in B; [|assumption].
    destruct B as [Hcan _]. split; [assumption|].
    rewrite lin_app, lin_cons by assumption. apply Z.divide_mul_r.
    apply Z.divide_add_r; [apply lin_divide; assumption|].
    apply Z.divide_add_r; [exists 0; lia | apply lin_divide; assumption]. }
  rewrite (batch_check_sound pre e post zpre zpost z 0 Hp H2 Hlen Hbad B B0).
  apply Z.mod_0_l. lia.
Qed.

End AlgProofs.
