(* Lemmas about Model/GhostKey.v: arithmetic in Z_l for an arbitrary modulus. *)
From Coq Require Import ZArith Lia.
Require Import Mixin.Model.GhostKey.
Open Scope Z_scope.

Section GhostProofs.
  Variable l : Z.
  Variable hs : Z -> Z -> Z.
  Hypothesis l_pos : 0 < l.

  Lemma smul_comm_pub : forall x y, smul l x (pub l y) = smul l y (pub l x).
  Proof.
    intros x y. unfold smul, pub.
    rewrite Z.mul_mod_idemp_r by lia. rewrite Z.mul_mod_idemp_r by lia.
    f_equal. apply Z.mul_comm.
  Qed.

  (* the shared point: a·R = r·A *)
  Lemma shared_point : forall r a, smul l a (pub l r) = smul l r (pub l a).
  Proof. intros. apply smul_comm_pub. Qed.

  Lemma ghost_match : forall r a b i,
    pub l (derive_private l hs (pub l r) a b i) = derive_public l hs r (pub l a) (pub l b) i.
  Proof.
    intros r a b i. unfold derive_private, derive_public.
    rewrite (shared_point r a). unfold padd, pub.
    rewrite Z.mod_mod by lia.
    rewrite Z.add_mod_idemp_l by lia. rewrite Z.add_mod_idemp_r by lia.
    f_equal. apply Z.add_comm.
  Qed.

  Lemma ghost_view : forall r a b i,
    view l hs (derive_public l hs r (pub l a) (pub l b) i) a (pub l r) i = pub l b.
  Proof.
    intros r a b i. unfold view, derive_public.
    rewrite (shared_point r a).
    set (x := hs (smul l r (pub l a)) i). unfold padd, psub, pub.
    rewrite Zminus_mod_idemp_l.
    replace (b mod l + x mod l - x mod l) with (b mod l) by lia.
    apply Z.mod_mod. lia.
  Qed.

  (* the recipient's one-time private key is a scalar of the group *)
  Lemma derive_private_range : forall R a b i, 0 <= derive_private l hs R a b i < l.
  Proof. intros. unfold derive_private. apply Z.mod_pos_bound. exact l_pos. Qed.

  (* two output indexes with different hash scalars give different one-time keys *)
  Lemma ghost_index_separates : forall r A B i j,
    pub l (hs (smul l r A) i) <> pub l (hs (smul l r A) j) ->
    derive_public l hs r A (pub l B) i <> derive_public l hs r A (pub l B) j.
  Proof.
    intros r A B i j Hne Heq. apply Hne. unfold derive_public, padd, pub in *.
    set (x := hs (smul l r A) i) in *. set (y := hs (smul l r A) j) in *.
    rewrite Z.add_mod_idemp_l in Heq by lia. rewrite Z.add_mod_idemp_l in Heq by lia.
    rewrite Z.add_mod_idemp_r in Heq by lia. rewrite Z.add_mod_idemp_r in Heq by lia.
    assert (H1 : ((B + x) - (B + y)) mod l = 0).
    { rewrite Zminus_mod, Heq, Z.sub_diag. apply Z.mod_0_l. lia. }
    replace (B + x - (B + y)) with (x - y) in H1 by lia.
    rewrite Zminus_mod in H1.
    pose proof (Z.mod_pos_bound x l l_pos). pose proof (Z.mod_pos_bound y l l_pos).
    destruct (Z.eq_dec (x mod l) (y mod l)) as [E|E]; [exact E|].
    exfalso.
    destruct (Z_lt_le_dec (x mod l) (y mod l)).
    - rewrite <- (Z.mod_add _ 1 l) in H1 by lia. rewrite Z.mod_small in H1 by lia. lia.
    - rewrite Z.mod_small in H1 by lia. lia.
  Qed.
End GhostProofs.
