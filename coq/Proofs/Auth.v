(* Lemmas about Model/Auth.v. *)
From Coq Require Import List ZArith NArith Bool Lia.
Require Import Mixin.Base.Res Mixin.Gen.Consts Mixin.Model.Auth.
Import ListNotations.
Open Scope Z_scope.

(* ---- layout ------------------------------------------------------------------ *)
Lemma layout : ts_size = 8%nat /\ off_rcp = 8%nat /\ off_key = 40%nat /\ off_flag = 72%nat /\
               off_sig = 73%nat /\ msg_len = 137%nat.
Proof. repeat split; reflexivity. Qed.

(* the layout adds up to the length of a message produced by the builder *)
Lemma layout_consistent :
  Consts.AuthTimestampSize + Consts.AuthHashSize + Consts.AuthKeySize + 1 + Consts.AuthSignatureSize
  = Consts.AuthMsgLen.
Proof. reflexivity. Qed.

(* ---- float64 ------------------------------------------------------------------- *)

Lemma round53_pos_small : forall x, x < 2 ^ 53 -> round53_pos x = x.
Proof. intros x H. unfold round53_pos. apply Z.ltb_lt in H. rewrite H. reflexivity. Qed.

Lemma round53_small : forall x, - 2 ^ 53 < x < 2 ^ 53 -> round53 x = x.
Proof.
  intros x H. unfold round53. destruct (x <? 0) eqn:E.
  - rewrite round53_pos_small by lia. lia.
  - apply round53_pos_small. lia.
Qed.

Lemma round53_pos_big : forall x, 2 ^ 53 <= x -> 2 ^ 53 <= round53_pos x.
Proof.
  intros x H. unfold round53_pos.
  assert (Hx : ~ x < 2 ^ 53) by lia. apply Z.ltb_nlt in Hx. rewrite Hx.
  assert (Hlog : 53 <= Z.log2 x) by (apply Z.log2_le_pow2; lia).
  set (e := Z.log2 x - 52). assert (He : 1 <= e) by (unfold e; lia).
  assert (Hpe : 0 < 2 ^ e) by (apply Z.pow_pos_nonneg; lia).
  assert (Hlow : 2 ^ Z.log2 x <= x) by (apply Z.log2_spec; lia).
  assert (Hsplit : 2 ^ Z.log2 x = 2 ^ 52 * 2 ^ e).
  { rewrite <- Z.pow_add_r by lia. f_equal. unfold e. lia. }
  assert (Hq : 2 ^ 52 <= x / 2 ^ e).
  { apply Z.div_le_lower_bound; [lia|]. rewrite Z.mul_comm. lia. }
  assert (Hbig : 2 ^ 53 <= 2 ^ 52 * 2 ^ e).
  { rewrite <- Hsplit. apply Z.pow_le_mono_r; lia. }
  assert (Hmul : 2 ^ 52 * 2 ^ e <= x / 2 ^ e * 2 ^ e) by (apply Z.mul_le_mono_nonneg_r; lia).
  assert (Hmul1 : x / 2 ^ e * 2 ^ e <= (x / 2 ^ e + 1) * 2 ^ e) by lia.
  destruct (x mod 2 ^ e <? 2 ^ (e - 1)); [lia|].
  destruct (2 ^ (e - 1) <? x mod 2 ^ e); [lia|].
  destruct (Z.even (x / 2 ^ e)); lia.
Qed.

Lemma round53_pos_half : forall y, 2 ^ 52 <= y -> 2 ^ 52 <= round53_pos y.
Proof.
  intros y H. destruct (Z_lt_le_dec y (2 ^ 53)).
  - rewrite round53_pos_small by assumption. exact H.
  - pose proof (round53_pos_big y l). lia.
Qed.

(* inside the range of real clocks the float64 test is the exact integer test,
   for every 64-bit (indeed every non-negative) timestamp *)
Lemma skew_exact : forall now ts timeout,
  0 <= now < 2 ^ 52 -> 0 <= ts -> 0 <= timeout < 2 ^ 52 ->
  skew_exceeds now ts timeout = (timeout <? Z.abs (now - ts)).
Proof.
  intros now ts timeout Hnow Hts Ht. unfold skew_exceeds.
  assert (P52 : 2 ^ 53 = 2 * 2 ^ 52) by reflexivity.
  rewrite (round53_small timeout) by lia. rewrite (round53_small now) by lia.
  destruct (Z_lt_le_dec ts (2 ^ 53)) as [Hs|Hs].
  - rewrite (round53_small ts) by lia. rewrite (round53_small (now - ts)) by lia. reflexivity.
  - assert (HR : 2 ^ 53 <= round53 ts).
    { unfold round53. assert (E : (ts <? 0) = false) by (apply Z.ltb_ge; lia). rewrite E.
      apply round53_pos_big. exact Hs. }
    set (R := round53 ts) in *.
    assert (Hd : now - R < 0) by lia.
    unfold round53 at 1. apply Z.ltb_lt in Hd. rewrite Hd. apply Z.ltb_lt in Hd.
    pose proof (round53_pos_half (- (now - R)) ltac:(lia)) as Hh.
    assert (E1 : (timeout <? Z.abs (- round53_pos (- (now - R)))) = true) by (apply Z.ltb_lt; lia).
    assert (E2 : (timeout <? Z.abs (now - ts)) = true) by (apply Z.ltb_lt; lia).
    rewrite E1, E2. reflexivity.
Qed.

(* ---- authenticate ---------------------------------------------------------------- *)

Definition msg_ts (msg : list N) : Z := Z.of_N (be_val (firstn ts_size msg)).
Definition msg_rcp (msg : list N) : N := be_val (slice off_rcp off_key msg).
Definition msg_key (msg : list N) : N := be_val (slice off_key off_flag msg).
Definition msg_sig (msg : list N) : N := be_val (slice off_sig msg_len msg).
Definition msg_signed (msg : list N) : list N := firstn off_sig msg.
Definition msg_flag (msg : list N) : bool := (nth off_flag msg 0 =? 1)%N.

Section AuthProofs.
  Variable Hmsg : list N -> N.
  Variable peer_id : N -> N -> N.
  Variable verify : N -> N -> N -> bool.

  Let auth := authenticate Hmsg peer_id verify.

  Lemma auth_no_panic : forall net rcp msg timeout now, auth net rcp msg timeout now <> Panic.
  Proof.
    intros. unfold auth, authenticate.
    repeat match goal with |- (if ?c then _ else _) <> _ => destruct c; [discriminate|] end.
    repeat match goal with |- context [if ?c then _ else _] => destruct c end; discriminate.
  Qed.

  (* the raw decision, with the float64 test as the code has it *)
  Lemma auth_ok_iff_raw : forall net rcp msg timeout now tok,
    auth net rcp msg timeout now = Ok tok <->
    (length msg = msg_len /\
     ((0 <? timeout) && skew_exceeds now (msg_ts msg) timeout = false) /\
     msg_rcp msg = rcp /\
     peer_id net (msg_key msg) <> rcp /\
     verify (msg_key msg) (Hmsg (msg_signed msg)) (msg_sig msg) = true /\
     tok = mk_token (peer_id net (msg_key msg)) (msg_ts msg) (msg_flag msg) msg).
  Proof.
    intros net rcp msg timeout now tok. unfold auth, authenticate.
    fold (msg_ts msg) (msg_rcp msg) (msg_key msg) (msg_sig msg) (msg_signed msg) (msg_flag msg).
    destruct (Nat.eqb (length msg) msg_len) eqn:E1; cbn [negb].
    2:{ apply Nat.eqb_neq in E1. split; [discriminate|]. intros (H & _). contradiction. }
    apply Nat.eqb_eq in E1.
    destruct ((0 <? timeout) && skew_exceeds now (msg_ts msg) timeout) eqn:E2.
    { split; [discriminate|]. intros (_ & H & _). discriminate. }
    destruct (msg_rcp msg =? rcp)%N eqn:E3; cbn [negb].
    2:{ apply N.eqb_neq in E3. split; [discriminate|]. intros (_ & _ & H & _). contradiction. }
    apply N.eqb_eq in E3.
    destruct (peer_id net (msg_key msg) =? rcp)%N eqn:E4.
    { apply N.eqb_eq in E4. split; [discriminate|]. intros (_ & _ & _ & H & _). contradiction. }
    apply N.eqb_neq in E4.
    destruct (verify (msg_key msg) (Hmsg (msg_signed msg)) (msg_sig msg)) eqn:E5; cbn [negb].
    2:{ split; [discriminate|]. intros (_ & _ & _ & _ & H & _). discriminate. }
    split.
    - intro H. injection H as <-. repeat split; assumption.
    - intros (_ & _ & _ & _ & _ & ->). reflexivity.
  Qed.

  Lemma skew_ok_iff : forall now ts timeout,
    0 <= now < 2 ^ 52 -> 0 <= ts -> timeout < 2 ^ 52 ->
    ((0 <? timeout) && skew_exceeds now ts timeout = false <->
     (0 < timeout -> Z.abs (now - ts) <= timeout)).
  Proof.
    intros now ts timeout Hn Hts Ht.
    destruct (0 <? timeout) eqn:E; cbn [andb].
    - apply Z.ltb_lt in E. rewrite skew_exact by lia. rewrite Z.ltb_ge. tauto.
    - apply Z.ltb_ge in E. split; [intros _ H; lia|reflexivity].
  Qed.

  Lemma msg_ts_nonneg : forall msg, 0 <= msg_ts msg.
  Proof. intro. unfold msg_ts. lia. Qed.

  Theorem accept_iff : forall net rcp msg timeout now,
    0 <= now < 2 ^ 52 -> timeout < 2 ^ 52 ->
    ((exists tok, auth net rcp msg timeout now = Ok tok) <->
     (length msg = msg_len /\
      msg_rcp msg = rcp /\
      (0 < timeout -> Z.abs (now - msg_ts msg) <= timeout) /\
      peer_id net (msg_key msg) <> rcp /\
      verify (msg_key msg) (Hmsg (msg_signed msg)) (msg_sig msg) = true)).
  Proof.
    intros net rcp msg timeout now Hn Ht. split.
    - intros [tok H]. apply auth_ok_iff_raw in H. destruct H as (H1 & H2 & H3 & H4 & H5 & _).
      pose proof (proj1 (skew_ok_iff now (msg_ts msg) timeout Hn (msg_ts_nonneg msg) Ht) H2) as H2'. tauto.
    - intros (H1 & H3 & H2 & H4 & H5).
      pose proof (proj2 (skew_ok_iff now (msg_ts msg) timeout Hn (msg_ts_nonneg msg) Ht) H2) as H2'.
      eexists. apply auth_ok_iff_raw. repeat split; eassumption.
  Qed.

  Theorem token_fields : forall net rcp msg timeout now tok,
    auth net rcp msg timeout now = Ok tok ->
    t_peer tok = peer_id net (msg_key msg) /\ t_ts tok = msg_ts msg /\
    t_relayer tok = msg_flag msg /\ t_data tok = msg /\ t_peer tok <> rcp.
  Proof.
    intros net rcp msg timeout now tok H. apply auth_ok_iff_raw in H.
    destruct H as (_ & _ & _ & H4 & _ & ->). cbn. repeat split. exact H4.
  Qed.

  (* ---- the relayer flag is inside the signed bytes ---------------------------------- *)

  Lemma firstn_exact : forall (l1 l2 : list N) n, length l1 = n -> firstn n (l1 ++ l2) = l1.
  Proof.
    induction l1 as [|x l1 IH]; intros l2 n Hn; subst n; cbn [length firstn app]; [reflexivity|].
    f_equal. apply IH. reflexivity.
  Qed.

  Lemma skipn_exact : forall (l1 l2 : list N) n, length l1 = n -> skipn n (l1 ++ l2) = l2.
  Proof.
    induction l1 as [|x l1 IH]; intros l2 n Hn; subst n; cbn [length skipn app]; [reflexivity|].
    apply IH. reflexivity.
  Qed.

  Lemma firstn_within : forall (n : nat) (l1 l2 : list N), (n <= length l1)%nat -> firstn n (l1 ++ l2) = firstn n l1.
  Proof.
    induction n as [|n IH]; intros l1 l2 H; [reflexivity|].
    destruct l1 as [|x l1]; cbn [length] in H; [lia|]. cbn [app firstn]. f_equal. apply IH. lia.
  Qed.

  Lemma skipn_within : forall (n : nat) (l1 l2 : list N), (n <= length l1)%nat -> skipn n (l1 ++ l2) = skipn n l1 ++ l2.
  Proof.
    induction n as [|n IH]; intros l1 l2 H; [reflexivity|].
    destruct l1 as [|x l1]; cbn [length] in H; [lia|]. cbn [app skipn]. apply IH. lia.
  Qed.

  Lemma offs_le : (off_rcp <= off_flag)%nat /\ (off_key <= off_flag)%nat /\ (ts_size <= off_flag)%nat /\
                  (off_key - off_rcp <= off_flag - off_rcp)%nat.
  Proof. repeat split; apply Nat.leb_le; reflexivity. Qed.

  Section Flag.
    Variables (pre suf : list N) (f : N).
    Hypothesis Lpre : length pre = off_flag.
    Let m := pre ++ f :: suf.

    Lemma flag_key : msg_key m = be_val (skipn off_key pre).
    Proof.
      unfold msg_key, slice, m. rewrite skipn_within by (rewrite Lpre; apply offs_le).
      rewrite firstn_exact; [reflexivity|]. rewrite skipn_length, Lpre. reflexivity.
    Qed.

    Lemma flag_rcp : msg_rcp m = be_val (firstn (off_key - off_rcp) (skipn off_rcp pre)).
    Proof.
      unfold msg_rcp, slice, m. rewrite skipn_within by (rewrite Lpre; apply offs_le).
      rewrite firstn_within; [reflexivity|]. rewrite skipn_length, Lpre. apply offs_le.
    Qed.

    Lemma flag_ts : msg_ts m = Z.of_N (be_val (firstn ts_size pre)).
    Proof.
      unfold msg_ts, m. rewrite firstn_within; [reflexivity|]. rewrite Lpre. apply offs_le.
    Qed.

    Lemma flag_sig : msg_sig m = be_val (firstn (msg_len - off_sig) suf).
    Proof.
      unfold msg_sig, slice, m.
      change (pre ++ f :: suf) with (pre ++ [f] ++ suf). rewrite app_assoc.
      rewrite skipn_exact; [reflexivity|]. rewrite app_length, Lpre. unfold off_sig. cbn [length]. lia.
    Qed.

    Lemma flag_signed : msg_signed m = pre ++ [f].
    Proof.
      unfold msg_signed, m. change (pre ++ f :: suf) with (pre ++ [f] ++ suf). rewrite app_assoc.
      apply firstn_exact. rewrite app_length, Lpre. unfold off_sig. cbn [length]. lia.
    Qed.

    Lemma flag_flag : msg_flag m = (f =? 1)%N.
    Proof. unfold msg_flag, m. rewrite <- Lpre. rewrite nth_middle. reflexivity. Qed.
  End Flag.

  (* two accepted messages that differ only in the flag byte carry the same key
     and the same signature, and that signature verifies for the hashes of two
     different signed prefixes *)
  Theorem flag_bound : forall net rcp timeout now pre suf f1 f2 t1 t2,
    length pre = off_flag -> f1 <> f2 ->
    auth net rcp (pre ++ f1 :: suf) timeout now = Ok t1 ->
    auth net rcp (pre ++ f2 :: suf) timeout now = Ok t2 ->
    let k := msg_key (pre ++ f1 :: suf) in
    let s := msg_sig (pre ++ f1 :: suf) in
    msg_key (pre ++ f2 :: suf) = k /\ msg_sig (pre ++ f2 :: suf) = s /\
    t_peer t1 = t_peer t2 /\
    msg_signed (pre ++ f1 :: suf) = pre ++ [f1] /\ msg_signed (pre ++ f2 :: suf) = pre ++ [f2] /\
    pre ++ [f1] <> pre ++ [f2] /\
    verify k (Hmsg (pre ++ [f1])) s = true /\ verify k (Hmsg (pre ++ [f2])) s = true.
  Proof.
    intros net rcp timeout now pre suf f1 f2 t1 t2 Lpre Hne A1 A2 k s.
    apply auth_ok_iff_raw in A1. apply auth_ok_iff_raw in A2.
    destruct A1 as (_ & _ & _ & _ & V1 & ->). destruct A2 as (_ & _ & _ & _ & V2 & ->).
    unfold k, s in *.
    rewrite (flag_signed pre suf f1 Lpre) in V1. rewrite (flag_signed pre suf f2 Lpre) in V2.
    rewrite (flag_key pre suf f2 Lpre), (flag_sig pre suf f2 Lpre) in *.
    rewrite (flag_key pre suf f1 Lpre), (flag_sig pre suf f1 Lpre) in *.
    cbn [t_peer].
    repeat split; try assumption; try reflexivity; try (apply flag_signed; assumption).
    intro E. apply app_inv_head in E. injection E as E. contradiction.
  Qed.

  (* with a signature that binds the signed bytes (unforgeability of the
     signature together with collision-freedom of the hash, stated as one
     hypothesis on the two primitives), any two accepted messages with the same
     key and signature have the same signed bytes: no byte of the time,
     recipient, key or relayer flag can be changed under the same signature *)
  Hypothesis sig_binds : forall k a b s,
    verify k (Hmsg a) s = true -> verify k (Hmsg b) s = true -> a = b.

  Theorem signed_prefix_bound : forall net rcp m1 m2 timeout1 now1 timeout2 now2 t1 t2,
    auth net rcp m1 timeout1 now1 = Ok t1 -> auth net rcp m2 timeout2 now2 = Ok t2 ->
    msg_key m1 = msg_key m2 -> msg_sig m1 = msg_sig m2 ->
    msg_signed m1 = msg_signed m2.
  Proof.
    intros net rcp m1 m2 to1 n1 to2 n2 t1 t2 A1 A2 Hk Hs.
    apply auth_ok_iff_raw in A1. apply auth_ok_iff_raw in A2.
    destruct A1 as (_ & _ & _ & _ & V1 & _). destruct A2 as (_ & _ & _ & _ & V2 & _).
    rewrite Hk, Hs in V1. exact (sig_binds _ _ _ _ V1 V2).
  Qed.

  Theorem flag_cannot_flip : forall net rcp timeout now timeout' now' pre suf f1 f2 t1,
    length pre = off_flag -> f1 <> f2 ->
    auth net rcp (pre ++ f1 :: suf) timeout now = Ok t1 ->
    forall t2, auth net rcp (pre ++ f2 :: suf) timeout' now' <> Ok t2.
  Proof.
    intros net rcp timeout now timeout' now' pre suf f1 f2 t1 Lpre Hne A1 t2 A2.
    pose proof (signed_prefix_bound _ _ _ _ _ _ _ _ _ _ A1 A2) as E.
    rewrite (flag_key pre suf f1 Lpre), (flag_key pre suf f2 Lpre) in E.
    rewrite (flag_sig pre suf f1 Lpre), (flag_sig pre suf f2 Lpre) in E.
    specialize (E eq_refl eq_refl).
    rewrite (flag_signed pre suf f1 Lpre), (flag_signed pre suf f2 Lpre) in E.
    apply app_inv_head in E. injection E as E. contradiction.
  Qed.
End AuthProofs.

(* ---- a concrete instance (non-vacuity of the theorems above) ------------------------ *)
Fixpoint ex_bytes_eqb (a b : list N) : bool :=
  match a, b with
  | [], [] => true
  | x :: a', y :: b' => (x =? y)%N && ex_bytes_eqb a' b'
  | _, _ => false
  end.

Lemma ex_bytes_eqb_eq : forall a b, ex_bytes_eqb a b = true -> a = b.
Proof.
  induction a as [|x a IH]; destruct b as [|y b]; cbn [ex_bytes_eqb]; intro H; try reflexivity; try discriminate.
  apply andb_true_iff in H. destruct H as [H1 H2]. apply N.eqb_eq in H1. apply IH in H2. subst. reflexivity.
Qed.

(* time 0, recipient 5, key 9, relayer flag 1, signature 7 *)
Definition ex_pre : list N := repeat 0%N 8 ++ (repeat 0%N 31 ++ [5%N]) ++ (repeat 0%N 31 ++ [9%N]).
Definition ex_suf : list N := repeat 0%N 63 ++ [7%N].
Definition ex_msg (flag : N) : list N := ex_pre ++ flag :: ex_suf.
Definition ex_H (a : list N) : N := if ex_bytes_eqb a (ex_pre ++ [1%N]) then 42%N else 0%N.
Definition ex_peer (n k : N) : N := (k + 100)%N.
Definition ex_verify (k h s : N) : bool := (k =? 9)%N && (h =? 42)%N && (s =? 7)%N.

Lemma ex_sig_binds : forall k a b s,
  ex_verify k (ex_H a) s = true -> ex_verify k (ex_H b) s = true -> a = b.
Proof.
  intros k a b s Ha Hb. unfold ex_verify, ex_H in *.
  destruct (ex_bytes_eqb a (ex_pre ++ [1%N])) eqn:Ea.
  2:{ rewrite andb_false_r in Ha. discriminate. }
  destruct (ex_bytes_eqb b (ex_pre ++ [1%N])) eqn:Eb.
  2:{ rewrite andb_false_r in Hb. discriminate. }
  apply ex_bytes_eqb_eq in Ea. apply ex_bytes_eqb_eq in Eb. congruence.
Qed.
