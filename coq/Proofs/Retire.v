(* Lemmas about the proposal-retirement model (Model/Retire.v) for Props/C24.v. *)
From Coq Require Import List ZArith NArith Bool Lia ZifyN ZifyNat ZifyBool.
Require Import Mixin.Base.Res Mixin.Gen.Consts Mixin.Model.Cache Mixin.Model.Retire Mixin.Proofs.Cache.
Import ListNotations.
Open Scope N_scope.

(* what requeueTransactions sees *)
Definition unfinalized (ps : pstore) (h : N) : Prop := snd (read_tx ps h) = false.
Definition has_body (ps : pstore) (c : cache) (h : N) : Prop :=
  fst (read_tx ps h) <> None \/ exists b, get_tx h c = Ok (Some b).
(* has a body, or is already eligible *)
Definition ready (ps : pstore) (c : cache) (h : N) : Prop := has_body ps c h \/ eligible c h.

(* the cache restricted to one hash is unchanged *)
Definition same_at (x : N) (c c' : cache) : Prop :=
  pending x c' = pending x c /\
  (forall ts, In (ts, x) (queue c') <-> In (ts, x) (queue c)) /\
  (In x (order c') <-> In x (order c)) /\
  aget x (payload c') = aget x (payload c).

Lemma same_at_refl : forall x c, same_at x c c.
Proof. intros. unfold same_at. intuition. Qed.

Lemma same_at_trans : forall x a b c, same_at x a b -> same_at x b c -> same_at x a c.
Proof.
  intros x a b c [H1 [H2 [H3 H4]]] [G1 [G2 [G3 G4]]]. unfold same_at.
  split; [congruence|]. split; [|split; [|congruence]].
  - intros ts. rewrite G2. apply H2.
  - rewrite G3. exact H3.
Qed.

Lemma count_qins_other : forall x k q, snd k <> x -> count x (map snd (qins k q)) = count x (map snd q).
Proof.
  intros x k q Hne. induction q as [|y q IH]; cbn [qins].
  - unfold count. cbn [map count_occ]. destruct (N.eq_dec (snd k) x); [contradiction | reflexivity].
  - destruct (key_eqb k y); [reflexivity|]. destruct (key_ltb k y).
    + unfold count. cbn [map count_occ]. destruct (N.eq_dec (snd k) x); [contradiction | reflexivity].
    + unfold count in *. cbn [map count_occ]. rewrite IH. reflexivity.
Qed.

Lemma queue_tx_same_at : forall ts h b c x, h <> x -> same_at x c (queue_tx ts h b c).
Proof.
  intros ts h b c x Hne. unfold queue_tx. destruct (mem h (order c)); [apply same_at_refl|].
  unfold same_at, pending. cbn [queue order payload].
  split; [apply count_qins_other; exact Hne|]. split; [|split].
  - intros t. rewrite In_qins. split; [|intuition]. intros [H|H]; [inversion H; congruence | exact H].
  - rewrite In_oins. split; [|intuition]. intros [H|H]; [congruence | exact H].
  - apply aget_aset_other. congruence.
Qed.

(* ---- requeue of one hash ------------------------------------------------------------- *)

Lemma requeue_one_cases : forall ps c t h,
  fst (requeue_one ps (c, t) h) = c \/ exists b, fst (requeue_one ps (c, t) h) = queue_tx t h b c.
Proof.
  intros ps c t h. unfold requeue_one. destruct (read_tx ps h) as [[b|] [|]]; cbn [fst]; eauto.
  destruct (get_tx h c) as [[b|]| |]; cbn [fst]; eauto.
Qed.

Lemma requeue_one_wf : forall ps c t h, cache_wf c -> cache_wf (fst (requeue_one ps (c, t) h)).
Proof.
  intros ps c t h Hwf. destruct (requeue_one_cases ps c t h) as [H|[b H]]; rewrite H; [exact Hwf|].
  apply wf_queue. exact Hwf.
Qed.

Lemma requeue_one_mono : forall ps c t h x, eligible c x -> eligible (fst (requeue_one ps (c, t) h)) x.
Proof.
  intros ps c t h x He. destruct (requeue_one_cases ps c t h) as [H|[b H]]; rewrite H; [exact He|].
  apply eligible_queue_mono. exact He.
Qed.

Lemma requeue_one_same_at : forall ps c t h x, h <> x -> same_at x c (fst (requeue_one ps (c, t) h)).
Proof.
  intros ps c t h x Hne. destruct (requeue_one_cases ps c t h) as [H|[b H]]; rewrite H;
    [apply same_at_refl | apply queue_tx_same_at; exact Hne].
Qed.

Lemma requeue_one_eligible : forall ps c t h,
  cache_wf c -> unfinalized ps h -> ready ps c h -> eligible (fst (requeue_one ps (c, t) h)) h.
Proof.
  intros ps c t h Hwf Hu [[Hb|[b Hb]]|He]; [| |apply requeue_one_mono; exact He];
    unfold unfinalized in Hu; unfold requeue_one.
  - destruct (read_tx ps h) as [[b|] f]; cbn [fst snd] in *; [|congruence]. subst f.
    cbn [fst]. apply queue_tx_eligible. exact Hwf.
  - destruct (read_tx ps h) as [[b'|] f]; cbn [fst snd] in *; subst f; cbn [fst].
    + apply queue_tx_eligible. exact Hwf.
    + rewrite Hb. cbn [fst]. apply queue_tx_eligible. exact Hwf.
Qed.

Lemma get_same_at : forall x c c', same_at x c c' -> get_tx x c' = get_tx x c.
Proof. intros x c c' [_ [_ [_ H]]]. unfold get_tx, read_body. rewrite H. reflexivity. Qed.

Lemma requeue_one_ready : forall ps c t h x, ready ps c x -> ready ps (fst (requeue_one ps (c, t) h)) x.
Proof.
  intros ps c t h x [[Hb|[b Hb]]|He].
  - left. left. exact Hb.
  - destruct (N.eq_dec h x) as [Heq|Hne].
    + subst h. destruct (requeue_one_cases ps c t x) as [H|[b' H]]; rewrite H.
      * left. right. eauto.
      * unfold queue_tx. destruct (mem x (order c)) eqn:Em; [left; right; eauto|].
        right. split; cbn [queue payload].
        -- exists t. apply In_qins. left. reflexivity.
        -- exists b'. apply aget_aset_same.
    + left. right. exists b. rewrite (get_same_at _ _ _ (requeue_one_same_at ps c t h x Hne)). exact Hb.
  - right. apply requeue_one_mono. exact He.
Qed.

(* ---- requeue of a list ------------------------------------------------------------- *)

Lemma requeue_cons : forall ps a hs c t,
  requeue ps (a :: hs) (c, t) = requeue ps hs (requeue_one ps (c, t) a).
Proof. reflexivity. Qed.

Lemma requeue_wf : forall ps hs c t, cache_wf c -> cache_wf (fst (requeue ps hs (c, t))).
Proof.
  intros ps hs. induction hs as [|a hs IH]; intros c t Hwf; [exact Hwf|].
  rewrite requeue_cons. pose proof (requeue_one_wf ps c t a Hwf) as H1.
  destruct (requeue_one ps (c, t) a) as [c1 t1]. apply IH. exact H1.
Qed.

Lemma requeue_mono : forall ps hs c t x, eligible c x -> eligible (fst (requeue ps hs (c, t))) x.
Proof.
  intros ps hs. induction hs as [|a hs IH]; intros c t x He; [exact He|].
  rewrite requeue_cons. pose proof (requeue_one_mono ps c t a x He) as H1.
  destruct (requeue_one ps (c, t) a) as [c1 t1]. apply IH. exact H1.
Qed.

Lemma requeue_ready : forall ps hs c t x, ready ps c x -> ready ps (fst (requeue ps hs (c, t))) x.
Proof.
  intros ps hs. induction hs as [|a hs IH]; intros c t x He; [exact He|].
  rewrite requeue_cons. pose proof (requeue_one_ready ps c t a x He) as H1.
  destruct (requeue_one ps (c, t) a) as [c1 t1]. apply IH. exact H1.
Qed.

Lemma requeue_same_at : forall ps hs c t x, ~ In x hs -> same_at x c (fst (requeue ps hs (c, t))).
Proof.
  intros ps hs. induction hs as [|a hs IH]; intros c t x Hn; [apply same_at_refl|].
  rewrite requeue_cons.
  assert (Ha : a <> x) by (intro; apply Hn; left; assumption).
  pose proof (requeue_one_same_at ps c t a x Ha) as H1.
  destruct (requeue_one ps (c, t) a) as [c1 t1]. cbn [fst] in H1.
  apply (same_at_trans _ _ _ _ H1). apply IH. intro Hc. apply Hn. right. exact Hc.
Qed.

Lemma requeue_eligible_all : forall ps hs c t x,
  cache_wf c -> In x hs -> unfinalized ps x -> ready ps c x ->
  eligible (fst (requeue ps hs (c, t))) x.
Proof.
  intros ps hs. induction hs as [|a hs IH]; intros c t x Hwf Hin Hu Hr; [destruct Hin|].
  rewrite requeue_cons.
  pose proof (requeue_one_wf ps c t a Hwf) as Hwf1.
  pose proof (requeue_one_ready ps c t a x Hr) as Hr1.
  destruct (N.eq_dec a x) as [He|Hne].
  - subst a. pose proof (requeue_one_eligible ps c t x Hwf Hu Hr) as H1.
    destruct (requeue_one ps (c, t) x) as [c1 t1]. apply requeue_mono. exact H1.
  - destruct Hin as [Hin|Hin]; [contradiction|].
    destruct (requeue_one ps (c, t) a) as [c1 t1]. apply IH; assumption.
Qed.

(* ---- abandon / retry ----------------------------------------------------------------- *)

Lemma opt_eqb_eq : forall a b, opt_eqb a b = true <-> a = b.
Proof.
  intros [x|] [y|]; cbn [opt_eqb]; split; intro H; try congruence; try reflexivity.
  - apply N.eqb_eq in H. congruence.
  - inversion H. apply N.eqb_refl.
Qed.

Lemma retry_fields : forall ps s st,
  aggs (retry ps s st) = filter (fun a => negb (agg_hash a =? s_hash s)) (aggs st) /\
  vers (retry ps s st) = abandon_vers s (vers st) /\
  cch (retry ps s st) = fst (requeue ps (s_txs s) (cch st, clk st)).
Proof.
  intros ps s st. unfold retry. cbn [abandon aggs vers cch clk].
  destruct (requeue ps (s_txs s) (cch st, clk st)) as [c t]. cbn [aggs vers cch fst]. auto.
Qed.

Lemma aget_adel_sub : forall A h k (v : A) m, aget k (adel h m) = Some v -> aget k m = Some v.
Proof.
  intros A h k v m H. destruct (N.eq_dec k h) as [He|Hne].
  - subst. rewrite aget_adel_same in H. discriminate.
  - rewrite aget_adel_other in H by exact Hne. exact H.
Qed.

Lemma abandon_vers_kept : forall s vs k v,
  aget k vs = Some v -> k <> s_hash s -> aget (s_hash s) vs <> Some v ->
  aget k (abandon_vers s vs) = Some v.
Proof.
  intros s vs k v Hk Hne Hv. unfold abandon_vers.
  set (v0 := aget (s_hash s) vs) in *.
  assert (H0 : aget k (adel (s_hash s) vs) = Some v) by (rewrite aget_adel_other by exact Hne; exact Hk).
  generalize dependent (adel (s_hash s) vs). induction (s_txs s) as [|tx txs IH]; intros m Hm; cbn [fold_left]; [exact Hm|].
  apply IH. destruct (opt_eqb (aget tx m) v0) eqn:E; [|exact Hm].
  apply opt_eqb_eq in E. destruct (N.eq_dec k tx) as [He|Hn2].
  - subst tx. congruence.
  - rewrite aget_adel_other by exact Hn2. exact Hm.
Qed.

Lemma abandon_vers_sub : forall s vs k v, aget k (abandon_vers s vs) = Some v -> aget k vs = Some v.
Proof.
  intros s vs k v. unfold abandon_vers.
  set (v0 := aget (s_hash s) vs). intro H.
  apply (aget_adel_sub _ (s_hash s)). revert H.
  generalize (adel (s_hash s) vs). induction (s_txs s) as [|tx txs IH]; intros m Hm; cbn [fold_left] in Hm; [exact Hm|].
  apply IH in Hm. destruct (opt_eqb (aget tx m) v0); [|exact Hm]. exact (aget_adel_sub _ _ _ _ _ Hm).
Qed.

Lemma retry_no_loss : forall ps s st h,
  cache_wf (cch st) -> In h (s_txs s) -> unfinalized ps h -> ready ps (cch st) h ->
  eligible (cch (retry ps s st)) h.
Proof.
  intros ps s st h Hwf Hin Hu Hr. destruct (retry_fields ps s st) as [_ [_ Hc]]. rewrite Hc.
  apply requeue_eligible_all; assumption.
Qed.

Lemma retry_wf : forall ps s st, cache_wf (cch st) -> cache_wf (cch (retry ps s st)).
Proof.
  intros ps s st Hwf. destruct (retry_fields ps s st) as [_ [_ Hc]]. rewrite Hc. apply requeue_wf. exact Hwf.
Qed.

Lemma retry_mono : forall ps s st x, eligible (cch st) x -> eligible (cch (retry ps s st)) x.
Proof.
  intros ps s st x He. destruct (retry_fields ps s st) as [_ [_ Hc]]. rewrite Hc. apply requeue_mono. exact He.
Qed.

Lemma retry_ready : forall ps s st x, ready ps (cch st) x -> ready ps (cch (retry ps s st)) x.
Proof.
  intros ps s st x He. destruct (retry_fields ps s st) as [_ [_ Hc]]. rewrite Hc. apply requeue_ready. exact He.
Qed.

(* ---- expiry ---------------------------------------------------------------------------- *)

Definition estep (ps : pstore) (now : N) (s : rstate) (a : agg) : rstate :=
  if expires now a then retry ps (a_snap a) s else s.

Lemma expire_fold : forall ps now st, expire ps now st = fold_left (estep ps now) (aggs st) st.
Proof. reflexivity. Qed.

Lemma efold_wf : forall ps now l st, cache_wf (cch st) -> cache_wf (cch (fold_left (estep ps now) l st)).
Proof.
  intros ps now l. induction l as [|a l IH]; intros st Hwf; cbn [fold_left]; [exact Hwf|].
  apply IH. unfold estep. destruct (expires now a); [apply retry_wf|]; exact Hwf.
Qed.

Lemma efold_mono : forall ps now l st x,
  eligible (cch st) x -> eligible (cch (fold_left (estep ps now) l st)) x.
Proof.
  intros ps now l. induction l as [|a l IH]; intros st x He; cbn [fold_left]; [exact He|].
  apply IH. unfold estep. destruct (expires now a); [apply retry_mono|]; exact He.
Qed.

Lemma efold_no_loss : forall ps now l st a h,
  cache_wf (cch st) -> In a l -> expires now a = true -> In h (s_txs (a_snap a)) ->
  unfinalized ps h -> ready ps (cch st) h ->
  eligible (cch (fold_left (estep ps now) l st)) h.
Proof.
  intros ps now l. induction l as [|a0 l IH]; intros st a h Hwf Hin He Hh Hu Hr; [destruct Hin|].
  cbn [fold_left].
  assert (Hwf1 : cache_wf (cch (estep ps now st a0))).
  { unfold estep. destruct (expires now a0); [apply retry_wf|]; exact Hwf. }
  assert (Hr1 : ready ps (cch (estep ps now st a0)) h).
  { unfold estep. destruct (expires now a0); [apply retry_ready|]; exact Hr. }
  destruct Hin as [Hin|Hin].
  - subst a0. apply efold_mono. unfold estep. rewrite He. apply retry_no_loss; assumption.
  - apply (IH _ a h); assumption.
Qed.

Lemma efold_aggs : forall ps now l st a,
  In a (aggs (fold_left (estep ps now) l st)) <->
  In a (aggs st) /\ forall b, In b l -> expires now b = true -> agg_hash a <> agg_hash b.
Proof.
  intros ps now l. induction l as [|a0 l IH]; intros st a; cbn [fold_left].
  - split; [intros H; split; [exact H | intros b []] | intros [H _]; exact H].
  - rewrite IH. unfold estep. destruct (expires now a0) eqn:E.
    + destruct (retry_fields ps (a_snap a0) st) as [Ha _]. rewrite Ha. rewrite filter_In, negb_true_iff, N.eqb_neq.
      fold (agg_hash a0). split.
      * intros [[H1 H2] H3]. split; [exact H1|]. intros b [Hb|Hb] He; [subst b; exact H2 | exact (H3 b Hb He)].
      * intros [H1 H2]. split; [split; [exact H1 | apply (H2 a0); [left; reflexivity | exact E]]|].
        intros b Hb He. apply (H2 b); [right; exact Hb | exact He].
    + split.
      * intros [H1 H3]. split; [exact H1|]. intros b [Hb|Hb] He; [subst b; congruence | exact (H3 b Hb He)].
      * intros [H1 H2]. split; [exact H1|]. intros b Hb He. apply (H2 b); [right; exact Hb | exact He].
Qed.

Lemma nodup_map_inj : forall (f : agg -> N) l a b,
  NoDup (map f l) -> In a l -> In b l -> f a = f b -> a = b.
Proof.
  intros f l. induction l as [|x l IH]; intros a b Hn Ha Hb Hf; [destruct Ha|].
  cbn [map] in Hn. inversion Hn as [|? ? Hx Hl]; subst.
  destruct Ha as [Ha|Ha]; destruct Hb as [Hb|Hb]; subst.
  - reflexivity.
  - exfalso. apply Hx. rewrite Hf. apply in_map. exact Hb.
  - exfalso. apply Hx. rewrite <- Hf. apply in_map. exact Ha.
  - apply IH; assumption.
Qed.

Lemma expire_aggs : forall ps now st a,
  NoDup (map agg_hash (aggs st)) ->
  (In a (aggs (expire ps now st)) <-> In a (aggs st) /\ expires now a = false).
Proof.
  intros ps now st a Hn. rewrite expire_fold, efold_aggs. split.
  - intros [H1 H2]. split; [exact H1|]. destruct (expires now a) eqn:E; [|reflexivity].
    exfalso. apply (H2 a H1 E). reflexivity.
  - intros [H1 H2]. split; [exact H1|]. intros b Hb He Hf.
    assert (a = b) by (apply (nodup_map_inj agg_hash (aggs st)); assumption). subst b. congruence.
Qed.

Lemma efold_vers_kept : forall ps now l st k v,
  aget k (vers st) = Some v ->
  (forall a, In a l -> expires now a = true -> k <> agg_hash a /\ aget (agg_hash a) (vers st) <> Some v) ->
  aget k (vers (fold_left (estep ps now) l st)) = Some v.
Proof.
  intros ps now l. induction l as [|a0 l IH]; intros st k v Hk Hall; cbn [fold_left]; [exact Hk|].
  apply IH.
  - unfold estep. destruct (expires now a0) eqn:E; [|exact Hk].
    destruct (retry_fields ps (a_snap a0) st) as [_ [Hv _]]. rewrite Hv.
    destruct (Hall a0 (or_introl eq_refl) E) as [H1 H2]. apply abandon_vers_kept; assumption.
  - intros a Ha He. destruct (Hall a (or_intror Ha) He) as [H1 H2]. split; [exact H1|].
    unfold estep. destruct (expires now a0); [|exact H2].
    destruct (retry_fields ps (a_snap a0) st) as [_ [Hv _]]. rewrite Hv.
    intro Hc. apply H2. exact (abandon_vers_sub _ _ _ _ Hc).
Qed.

(* ---- round reset ------------------------------------------------------------------------ *)

Lemma reset_collect_spec : forall owned txs seen x,
  In x (reset_collect owned txs seen) <-> In x seen \/ (In x txs /\ ~ In x owned).
Proof.
  intros owned txs. induction txs as [|tx txs IH]; intros seen x; cbn [reset_collect].
  - cbn. intuition.
  - destruct (mem tx owned || mem tx seen) eqn:E.
    + rewrite IH. cbn [In]. split; [intuition|]. intros [H|[[H|H] Hn]]; [left; exact H | | right; split; assumption].
      subst tx. apply orb_true_iff in E. destruct E as [E|E]; apply mem_In in E; [contradiction | left; exact E].
    + apply orb_false_iff in E. destruct E as [E1 E2]. apply mem_false in E1.
      rewrite IH, in_app_iff. cbn [In]. split.
      * intros [[H|[H|[]]]|[H Hn]]; [left; exact H | subst; right; split; [left; reflexivity | exact E1] | right; split; [right; exact H | exact Hn]].
      * intros [H|[[H|H] Hn]]; [left; left; exact H | subst; left; right; left; reflexivity | right; split; assumption].
Qed.

Lemma reset_retry_spec : forall owned ags x,
  In x (reset_retry owned ags) <-> (exists a, In a ags /\ In x (s_txs (a_snap a))) /\ ~ In x owned.
Proof.
  intros owned ags x. unfold reset_retry.
  assert (H : forall l seen,
    In x (fold_left (fun seen a => reset_collect owned (s_txs (a_snap a)) seen) l seen) <->
    In x seen \/ ((exists a, In a l /\ In x (s_txs (a_snap a))) /\ ~ In x owned)).
  { induction l as [|a l IH]; intros seen; cbn [fold_left].
    - split; [intros H; left; exact H | intros [H|[[a [[] _]] _]]; exact H].
    - rewrite IH, reset_collect_spec. split.
      + intros [[H|[H Hn]]|[[b [Hb Hx]] Hn]].
        * left. exact H.
        * right. split; [exists a; split; [left; reflexivity | exact H] | exact Hn].
        * right. split; [exists b; split; [right; exact Hb | exact Hx] | exact Hn].
      + intros [H|[[b [[Hb|Hb] Hx]] Hn]].
        * left. left. exact H.
        * subst b. left. right. split; assumption.
        * right. split; [exists b; split; assumption | exact Hn]. }
  rewrite H. cbn [In]. intuition.
Qed.

Lemma reset_fields : forall ps owned st,
  aggs (reset ps owned st) = [] /\ vers (reset ps owned st) = [] /\
  cch (reset ps owned st) = fst (requeue ps (reset_retry owned (aggs st)) (cch st, clk st)).
Proof.
  intros ps owned st. unfold reset.
  destruct (requeue ps (reset_retry owned (aggs st)) (cch st, clk st)) as [c t]. cbn [aggs vers cch fst]. auto.
Qed.

Lemma reset_no_loss : forall ps owned st a h,
  cache_wf (cch st) -> In a (aggs st) -> In h (s_txs (a_snap a)) ->
  unfinalized ps h -> has_body ps (cch st) h ->
  eligible (cch (reset ps owned st)) h \/ In h owned.
Proof.
  intros ps owned st a h Hwf Ha Hh Hu Hb.
  destruct (in_dec N.eq_dec h owned) as [Ho|Ho]; [right; exact Ho | left].
  destruct (reset_fields ps owned st) as [_ [_ Hc]]. rewrite Hc.
  apply requeue_eligible_all; try assumption; [|left; exact Hb].
  apply reset_retry_spec. split; [exists a; split; assumption | exact Ho].
Qed.

Lemma reset_owned_untouched : forall ps owned st h,
  In h owned -> same_at h (cch st) (cch (reset ps owned st)).
Proof.
  intros ps owned st h Ho. destruct (reset_fields ps owned st) as [_ [_ Hc]]. rewrite Hc.
  apply requeue_same_at. intro Hc2. apply reset_retry_spec in Hc2. destruct Hc2 as [_ Hn]. contradiction.
Qed.

Lemma complete_not_expires : forall now a,
  (a_base a <= a_commit a)%Z -> a_resp a = a_commit a -> expires now a = false.
Proof.
  intros now a H1 H2. unfold expires, complete.
  apply Z.leb_le in H1. rewrite H1, H2, Z.eqb_refl. cbn. apply andb_false_r.
Qed.

Lemma not_yet_not_expires : forall now a,
  now < (s_ts (a_snap a) + round_gap) mod 2 ^ 64 -> expires now a = false.
Proof.
  intros now a H. unfold expires, not_yet. apply N.ltb_lt in H. rewrite H. reflexivity.
Qed.

(* ---- kernel/node.go wrappers --------------------------------------------------------- *)

Lemma node_store_queue : forall ps txs c,
  queue (node_store ps txs c) = queue c /\ order (node_store ps txs c) = order c.
Proof.
  intros ps txs. induction txs as [|tx txs IH]; intros c; unfold node_store in *; cbn [fold_left]; [auto|].
  destruct (IH (node_store_one ps c tx)) as [H1 H2]. rewrite H1, H2. unfold node_store_one.
  destruct (fst (read_tx ps (fst tx))); [auto|]. apply store_queue.
Qed.

Lemma node_queue_eligible : forall ps txs c t tx,
  cache_wf c -> In tx txs -> unfinalized ps (fst tx) ->
  eligible (fst (node_queue ps txs (c, t))) (fst tx).
Proof.
  intros ps txs. induction txs as [|a txs IH]; intros c t tx Hwf Hin Hu; [destruct Hin|].
  unfold node_queue in *. cbn [fold_left].
  assert (Hmono : forall l c t x, eligible c x -> eligible (fst (fold_left (node_queue_one ps) l (c, t))) x).
  { induction l as [|b l IHl]; intros c0 t0 x He; cbn [fold_left]; [exact He|].
    unfold node_queue_one at 2. destruct (snd (read_tx ps (fst b))); [apply IHl; exact He|].
    apply IHl. apply eligible_queue_mono. exact He. }
  destruct Hin as [Hin|Hin].
  - subst a. unfold node_queue_one at 2. unfold unfinalized in Hu. rewrite Hu.
    apply Hmono. apply queue_tx_eligible. exact Hwf.
  - unfold node_queue_one at 2. destruct (snd (read_tx ps (fst a))); [apply IH; assumption|].
    apply IH; try assumption. apply wf_queue. exact Hwf.
Qed.
