(* Lemmas about Model/Base58.v: positional notation in a base b >= 2 is a
   bijection between numbers and digit strings without a leading zero; base58
   encode/decode are mutually inverse. *)
From Coq Require Import List ZArith NArith Bool Lia.
Require Import Mixin.Gen.Consts Mixin.Model.Base58.
Import ListNotations.
Open Scope N_scope.

(* ---- leading characters -------------------------------------------------- *)

Definition no_leading (z : N) (l : list N) : Prop :=
  match l with [] => True | x :: _ => x <> z end.

Lemma split_leading : forall z l,
  l = repeat z (count_leading z l) ++ skipn (count_leading z l) l /\
  no_leading z (skipn (count_leading z l) l).
Proof.
  intros z l. induction l as [|x l IH]; cbn [count_leading].
  - split; [reflexivity|exact I].
  - destruct (x =? z) eqn:E.
    + apply N.eqb_eq in E. subst x. cbn [repeat skipn app]. destruct IH as [IH1 IH2].
      split; [f_equal; exact IH1|exact IH2].
    + apply N.eqb_neq in E. cbn [repeat skipn app]. split; [reflexivity|exact E].
Qed.

Lemma count_leading_repeat : forall z k l,
  no_leading z l -> count_leading z (repeat z k ++ l) = k.
Proof.
  intros z k l Hl. induction k as [|k IH]; cbn [repeat app count_leading].
  - destruct l as [|x l]; [reflexivity|]. cbn [count_leading]. cbn in Hl.
    apply N.eqb_neq in Hl. rewrite Hl. reflexivity.
  - rewrite N.eqb_refl. f_equal. exact IH.
Qed.

(* ---- val ------------------------------------------------------------------ *)

Lemma val_acc_app : forall b l1 l2 acc,
  val_acc b acc (l1 ++ l2) = val_acc b (val_acc b acc l1) l2.
Proof. intros b l1. induction l1 as [|d l1 IH]; intros; cbn [app val_acc]; [reflexivity|apply IH]. Qed.

Lemma val_snoc : forall b ds d, val b (ds ++ [d]) = val b ds * b + d.
Proof. intros. unfold val. rewrite val_acc_app. reflexivity. Qed.

Lemma val_repeat0 : forall b k l, val b (repeat 0 k ++ l) = val b l.
Proof.
  intros b k l. unfold val. induction k as [|k IH]; cbn [repeat app val_acc]; [reflexivity|].
  rewrite N.mul_0_l, N.add_0_l. exact IH.
Qed.

Lemma val_acc_ge : forall b l acc, 1 <= b -> acc <= val_acc b acc l.
Proof.
  intros b l. induction l as [|d l IH]; intros acc Hb; cbn [val_acc]; [lia|].
  specialize (IH (acc * b + d) Hb). nia.
Qed.

Lemma val_pos : forall b d l, 1 <= b -> d <> 0 -> 0 < val b (d :: l).
Proof.
  intros b d l Hb Hd. unfold val. cbn [val_acc].
  pose proof (val_acc_ge b l (0 * b + d) Hb). lia.
Qed.

(* ---- digits ---------------------------------------------------------------- *)

Lemma digits_fuel_acc : forall b f n acc,
  digits_fuel b f n acc = digits_fuel b f n [] ++ acc.
Proof.
  intros b f. induction f as [|f IH]; intros n acc; cbn [digits_fuel]; [reflexivity|].
  destruct (n =? 0); [reflexivity|].
  rewrite (IH (n / b) (n mod b :: acc)), (IH (n / b) [n mod b]).
  rewrite <- app_assoc. reflexivity.
Qed.

Lemma half_bound : forall b n f, 2 <= b -> n < 2 ^ N.of_nat (S f) -> n / b < 2 ^ N.of_nat f.
Proof.
  intros b n f Hb Hn.
  replace (N.of_nat (S f)) with (N.succ (N.of_nat f)) in Hn by lia.
  rewrite N.pow_succ_r' in Hn.
  apply N.div_lt_upper_bound; [lia|]. nia.
Qed.

Lemma digits_fuel_val : forall b f n, 2 <= b -> n < 2 ^ N.of_nat f ->
  val b (digits_fuel b f n []) = n.
Proof.
  intros b f. induction f as [|f IH]; intros n Hb Hn.
  - cbn in Hn. cbn [digits_fuel]. unfold val. cbn. lia.
  - cbn [digits_fuel]. destruct (n =? 0) eqn:E.
    + apply N.eqb_eq in E. subst. reflexivity.
    + rewrite digits_fuel_acc, val_snoc, IH by (auto using half_bound).
      pose proof (N.div_mod' n b). lia.
Qed.

Lemma size_bound : forall n, n < 2 ^ N.of_nat (N.to_nat (N.size n)).
Proof. intro n. rewrite N2Nat.id. apply N.size_gt. Qed.

Lemma val_digits : forall b n, 2 <= b -> val b (digits b n) = n.
Proof. intros. unfold digits. apply digits_fuel_val; [assumption|apply size_bound]. Qed.

Lemma digits_fuel_lt : forall b f n acc, 0 < b ->
  Forall (fun d => d < b) acc -> Forall (fun d => d < b) (digits_fuel b f n acc).
Proof.
  intros b f. induction f as [|f IH]; intros n acc Hb Hacc; cbn [digits_fuel]; [exact Hacc|].
  destruct (n =? 0); [exact Hacc|]. apply IH; [exact Hb|].
  constructor; [apply N.mod_lt; lia|exact Hacc].
Qed.

Lemma digits_lt : forall b n, 0 < b -> Forall (fun d => d < b) (digits b n).
Proof. intros. unfold digits. apply digits_fuel_lt; [assumption|constructor]. Qed.

(* uniqueness: a digit string without leading zero is the digit string of its value *)
Lemma digits_fuel_of_val : forall b ds, 2 <= b ->
  Forall (fun d => d < b) ds -> no_leading 0 ds ->
  forall f acc, val b ds < 2 ^ N.of_nat f -> digits_fuel b f (val b ds) acc = ds ++ acc.
Proof.
  intros b ds Hb. induction ds as [|d ds IH] using rev_ind; intros Hlt Hlead f acc Hf.
  - unfold val. cbn [val_acc]. destruct f; cbn [digits_fuel]; reflexivity.
  - apply Forall_app in Hlt. destruct Hlt as [Hlt Hd]. inversion Hd as [|? ? Hd' _]; subst.
    rewrite val_snoc in *.
    assert (Hnz : val b ds * b + d <> 0).
    { destruct ds as [|x ds]; cbn in Hlead.
      - unfold val. cbn. lia.
      - pose proof (val_pos b x ds ltac:(lia) Hlead). nia. }
    destruct f as [|f].
    { cbn in Hf. lia. }
    cbn [digits_fuel]. apply N.eqb_neq in Hnz. rewrite Hnz.
    assert (Hdiv : (val b ds * b + d) / b = val b ds).
    { replace (val b ds * b + d) with (d + val b ds * b) by lia. rewrite N.div_add by lia.
      rewrite N.div_small by lia. lia. }
    assert (Hmod : (val b ds * b + d) mod b = d).
    { replace (val b ds * b + d) with (d + val b ds * b) by lia. rewrite N.mod_add by lia.
      apply N.mod_small. lia. }
    rewrite Hdiv, Hmod.
    rewrite IH.
    + rewrite <- app_assoc. reflexivity.
    + exact Hlt.
    + destruct ds as [|x ds]; [exact I|exact Hlead].
    + rewrite <- Hdiv. apply half_bound; assumption.
Qed.

Lemma digits_of_val : forall b ds, 2 <= b ->
  Forall (fun d => d < b) ds -> no_leading 0 ds -> digits b (val b ds) = ds.
Proof.
  intros b ds Hb Hlt Hlead. unfold digits.
  rewrite (digits_fuel_of_val b ds Hb Hlt Hlead); [apply app_nil_r|apply size_bound].
Qed.

Lemma digits_no_leading : forall b n, 2 <= b -> no_leading 0 (digits b n).
Proof.
  intros b n Hb.
  destruct (split_leading 0 (digits b n)) as [Hsplit Hno].
  set (k := count_leading 0 (digits b n)) in *.
  set (r := skipn k (digits b n)) in *. clearbody r. clearbody k.
  assert (Hv : val b r = n).
  { transitivity (val b (digits b n)); [|apply val_digits; exact Hb].
    rewrite Hsplit. rewrite val_repeat0. reflexivity. }
  assert (Hr : Forall (fun d => d < b) r).
  { pose proof (digits_lt b n ltac:(lia)) as H. rewrite Hsplit in H. apply Forall_app in H. tauto. }
  pose proof (digits_of_val b r Hb Hr Hno) as Hd. rewrite Hv in Hd.
  rewrite Hd. exact Hno.
Qed.

(* ---- the alphabet ------------------------------------------------------------ *)

Definition over_alphabet (s : list N) : Prop := Forall (fun c => In c alphabet) s.

Lemma index_of_sound : forall c l i j, index_of c l i = Some j ->
  i <= j /\ j < i + N.of_nat (length l) /\ nth (N.to_nat (j - i)) l 0 = c.
Proof.
  intros c l. induction l as [|x l IH]; intros i j H; cbn [index_of] in H; [discriminate|].
  destruct (x =? c) eqn:E.
  - inversion H; subst. apply N.eqb_eq in E. subst. rewrite N.sub_diag. cbn. repeat split; lia.
  - apply IH in H. destruct H as (H1 & H2 & H3). cbn [length].
    repeat split; [lia|lia|].
    replace (N.to_nat (j - i)) with (S (N.to_nat (j - N.succ i))) by lia. exact H3.
Qed.

Lemma index_of_complete : forall c l i, In c l -> exists j, index_of c l i = Some j.
Proof.
  intros c l. induction l as [|x l IH]; intros i Hin; [destruct Hin|].
  cbn [index_of]. destruct (x =? c) eqn:E; [eexists; reflexivity|].
  destruct Hin as [Hx|Hin]; [subst; rewrite N.eqb_refl in E; discriminate|]. apply IH. exact Hin.
Qed.

Lemma alphabet_length : length alphabet = 58%nat.
Proof. reflexivity. Qed.

Lemma digit_of_sound : forall c d, digit_of c = Some d -> d < 58 /\ char_of d = c /\ In c alphabet.
Proof.
  intros c d H. unfold digit_of in H. apply index_of_sound in H. destruct H as (_ & H2 & H3).
  rewrite alphabet_length in H2. rewrite N.sub_0_r in H3. unfold char_of.
  repeat split; [lia|exact H3|]. rewrite <- H3. apply nth_In. rewrite alphabet_length. lia.
Qed.

Lemma digit_of_complete : forall c, In c alphabet -> exists d, digit_of c = Some d.
Proof. intros. unfold digit_of. apply index_of_complete. assumption. Qed.

Definition digit_char_ok (d : N) : bool :=
  match digit_of (char_of d) with Some d' => d' =? d | None => false end.

Lemma digit_char_table : forallb digit_char_ok (map N.of_nat (seq 0 58)) = true.
Proof. vm_compute. reflexivity. Qed.

Lemma digit_of_char_of : forall d, d < 58 -> digit_of (char_of d) = Some d.
Proof.
  intros d Hd. pose proof digit_char_table as T. rewrite forallb_forall in T.
  specialize (T d). unfold digit_char_ok in T.
  assert (Hin : In d (map N.of_nat (seq 0 58))).
  { rewrite <- (N2Nat.id d). apply in_map. apply in_seq. lia. }
  specialize (T Hin). destruct (digit_of (char_of d)) as [d'|]; [|discriminate].
  apply N.eqb_eq in T. subst. reflexivity.
Qed.

Lemma char_of_0 : char_of 0 = zero_char.
Proof. reflexivity. Qed.

Lemma digit_of_zero_char : digit_of zero_char = Some 0.
Proof. vm_compute. reflexivity. Qed.

Lemma char_of_nonzero : forall d, d < 58 -> d <> 0 -> char_of d <> zero_char.
Proof.
  intros d Hd Hnz Heq. pose proof (digit_of_char_of d Hd) as H.
  rewrite Heq, digit_of_zero_char in H. inversion H. lia.
Qed.

(* ---- map_opt ------------------------------------------------------------------- *)

Lemma map_opt_app : forall (A B : Type) (f : A -> option B) l1 l2 r1 r2,
  map_opt f l1 = Some r1 -> map_opt f l2 = Some r2 -> map_opt f (l1 ++ l2) = Some (r1 ++ r2).
Proof.
  intros A B f l1. induction l1 as [|x l1 IH]; intros l2 r1 r2 H1 H2; cbn [map_opt app] in *.
  - inversion H1. exact H2.
  - destruct (f x) as [y|]; [|discriminate]. destruct (map_opt f l1) as [ys|] eqn:E; [|discriminate].
    inversion H1; subst. rewrite (IH l2 ys r2 eq_refl H2). reflexivity.
Qed.

Lemma map_opt_digits : forall ds, Forall (fun d => d < 58) ds ->
  map_opt digit_of (map char_of ds) = Some ds.
Proof.
  intros ds H. induction H as [|d ds Hd _ IH]; cbn [map map_opt]; [reflexivity|].
  rewrite (digit_of_char_of d Hd), IH. reflexivity.
Qed.

Lemma map_opt_zeros : forall k, map_opt digit_of (repeat zero_char k) = Some (repeat 0 k).
Proof.
  induction k as [|k IH]; cbn [repeat map_opt]; [reflexivity|].
  rewrite digit_of_zero_char, IH. reflexivity.
Qed.

Lemma map_opt_sound : forall s ds, map_opt digit_of s = Some ds ->
  map char_of ds = s /\ Forall (fun d => d < 58) ds /\ over_alphabet s.
Proof.
  intros s. induction s as [|c s IH]; intros ds H; cbn [map_opt] in H.
  - inversion H. repeat split; constructor.
  - destruct (digit_of c) as [d|] eqn:E; [|discriminate].
    destruct (map_opt digit_of s) as [ds'|]; [|discriminate]. inversion H; subst.
    destruct (IH ds' eq_refl) as (H1 & H2 & H3). apply digit_of_sound in E. destruct E as (E1 & E2 & E3).
    cbn [map]. repeat split; [rewrite E2, H1; reflexivity|constructor; assumption|constructor; assumption].
Qed.

Lemma map_opt_complete : forall s, over_alphabet s -> exists ds, map_opt digit_of s = Some ds.
Proof.
  intros s H. induction H as [|c s Hc _ IH]; [exists []; reflexivity|].
  destruct (digit_of_complete c Hc) as [d Hd]. destruct IH as [ds Hds].
  exists (d :: ds). cbn [map_opt]. rewrite Hd, Hds. reflexivity.
Qed.

Lemma map_opt_none : forall s, map_opt digit_of s = None -> ~ over_alphabet s.
Proof.
  intros s H Ho. destruct (map_opt_complete s Ho) as [ds Hds]. rewrite Hds in H. discriminate.
Qed.

Lemma no_leading_map_char : forall ds, Forall (fun d => d < 58) ds -> no_leading 0 ds ->
  no_leading zero_char (map char_of ds).
Proof.
  intros ds H Hl. destruct ds as [|d ds]; [exact I|]. cbn in *. inversion H; subst.
  apply char_of_nonzero; assumption.
Qed.

(* ---- round trips ------------------------------------------------------------------ *)

Theorem decode_encode : forall bs, Forall (fun b => b < 256) bs -> decode (encode bs) = bs.
Proof.
  intros bs Hbs.
  destruct (split_leading 0 bs) as [Hsplit Hno].
  remember (count_leading 0 bs) as k eqn:Hk. set (r := skipn k bs) in *. clearbody r.
  assert (Hr : Forall (fun b => b < 256) r).
  { rewrite Hsplit in Hbs. apply Forall_app in Hbs. tauto. }
  assert (Hv : val 256 bs = val 256 r) by (rewrite Hsplit; apply val_repeat0).
  unfold encode. rewrite <- Hk, Hv.
  set (ds := digits 58 (val 256 r)).
  assert (Hds : Forall (fun d => d < 58) ds) by (apply digits_lt; lia).
  assert (Hdl : no_leading 0 ds) by (apply digits_no_leading; lia).
  unfold decode.
  rewrite (map_opt_app _ _ digit_of _ _ _ _ (map_opt_zeros k) (map_opt_digits ds Hds)).
  rewrite count_leading_repeat by (apply no_leading_map_char; assumption).
  rewrite val_repeat0. unfold ds. rewrite val_digits by lia.
  rewrite digits_of_val by (try lia; assumption).
  symmetry. exact Hsplit.
Qed.

Theorem encode_decode : forall s, over_alphabet s -> encode (decode s) = s.
Proof.
  intros s Hs.
  destruct (split_leading zero_char s) as [Hsplit Hno].
  remember (count_leading zero_char s) as k eqn:Hk. set (r := skipn k s) in *. clearbody r.
  assert (Hr : over_alphabet r).
  { unfold over_alphabet in *. rewrite Hsplit in Hs. apply Forall_app in Hs. tauto. }
  destruct (map_opt_complete r Hr) as [dr Hdr].
  destruct (map_opt_sound r dr Hdr) as (Hmap & Hlt & _).
  assert (Hdl : no_leading 0 dr).
  { destruct dr as [|d dr]; [exact I|]. cbn. intro Hz. subst d.
    cbn [map] in Hmap. rewrite char_of_0 in Hmap. rewrite <- Hmap in Hno. cbn in Hno. congruence. }
  assert (Hall : map_opt digit_of s = Some (repeat 0 k ++ dr)).
  { rewrite Hsplit at 1. apply map_opt_app; [apply map_opt_zeros|exact Hdr]. }
  unfold decode. rewrite Hall. rewrite <- Hk. rewrite val_repeat0.
  set (v := val 58 dr).
  unfold encode.
  rewrite count_leading_repeat by (apply digits_no_leading; lia).
  rewrite val_repeat0, val_digits by lia.
  unfold v. rewrite digits_of_val by (try lia; assumption).
  rewrite Hmap. symmetry. exact Hsplit.
Qed.

Theorem decode_invalid : forall s, ~ over_alphabet s -> decode s = [].
Proof.
  intros s H. unfold decode. destruct (map_opt digit_of s) as [ds|] eqn:E; [|reflexivity].
  exfalso. apply H. apply (map_opt_sound s ds E).
Qed.

(* decode is injective on texts over the alphabet; encode on byte strings *)
Corollary decode_injective : forall s t, over_alphabet s -> over_alphabet t -> decode s = decode t -> s = t.
Proof. intros s t Hs Ht H. rewrite <- (encode_decode s Hs), <- (encode_decode t Ht), H. reflexivity. Qed.

Lemma decode_nonempty_alphabet : forall s, decode s <> [] -> over_alphabet s.
Proof.
  intros s H. unfold decode in H. destruct (map_opt digit_of s) as [ds|] eqn:E; [|congruence].
  apply (map_opt_sound s ds E).
Qed.

(* ---- non-ASCII input ------------------------------------------------------------
   The Go decoder ranges over the RUNES of the text and refuses every rune
   above 255, every rune 128..255 (not in the table) and U+FFFD (invalid
   UTF-8).  Every byte of the UTF-8 form of such a rune, and every byte of an
   invalid sequence, is >= 128, so at the level of bytes this is: a text with
   a byte >= 128 decodes to the empty string - which the byte model does. *)
Lemma alphabet_ascii_b : forallb (fun c => c <? 128) alphabet = true.
Proof. vm_compute. reflexivity. Qed.

Lemma over_alphabet_ascii : forall s, over_alphabet s -> Forall (fun c => c < 128) s.
Proof.
  intros s H. unfold over_alphabet in H. rewrite Forall_forall in *. intros c Hc.
  pose proof alphabet_ascii_b as T. rewrite forallb_forall in T.
  apply N.ltb_lt. apply T. apply H. exact Hc.
Qed.

Theorem decode_non_ascii : forall s, Exists (fun c => 128 <= c) s -> decode s = [].
Proof.
  intros s H. apply decode_invalid. intro Ho. apply over_alphabet_ascii in Ho.
  rewrite Exists_exists in H. destruct H as (c & Hin & Hc). rewrite Forall_forall in Ho.
  specialize (Ho c Hin). lia.
Qed.

Lemma char_of_in : forall d, d < 58 -> In (char_of d) alphabet.
Proof. intros d Hd. unfold char_of. apply nth_In. rewrite alphabet_length. lia. Qed.

Lemma encode_over_alphabet : forall bs, over_alphabet (encode bs).
Proof.
  intro bs. unfold encode, over_alphabet. apply Forall_app. split.
  - apply Forall_forall. intros c Hc. apply repeat_spec in Hc. subst c.
    rewrite <- char_of_0. apply char_of_in. lia.
  - apply Forall_forall. intros c Hc. apply in_map_iff in Hc. destruct Hc as (d & <- & Hd).
    apply char_of_in. pose proof (digits_lt 58 (val 256 bs) ltac:(lia)) as L.
    rewrite Forall_forall in L. apply L. exact Hd.
Qed.
