(* Lemmas about Model/Aggregate.v: signer collection, Schnorr verification
   equation, completeness and binding of aggregate signatures. *)
From Coq Require Import List ZArith NArith Bool Lia Znumtheory Morphisms Setoid.
Require Import Mixin.Base.Res Mixin.Model.Group Mixin.Model.Aggregate Mixin.Proofs.Group.
Import ListNotations.
Open Scope Z_scope.

(* ---- collectAggregateSigners ------------------------------------------------- *)

Definition key_at (keys : list Z) (i : Z) : Z := nth (Z.to_nat i) keys 0.

(* strictly increasing above prev, inside the key vector, decodable keys *)
Fixpoint okb (l : Z) (keys : list Z) (prev : Z) (s : list Z) : bool :=
  match s with
  | [] => true
  | i :: r => (prev <? i) && (i <? Z.of_nat (length keys)) && point_ok l (key_at keys i) && okb l keys i r
  end.

Definition sel_of (keys : list Z) (s : list Z) : list (Z * Z) := map (fun i => (i, key_at keys i)) s.

Lemma collect_loop_eq : forall l keys s prev, -1 <= prev ->
  collect_loop l keys prev s = if okb l keys prev s then Ok (sel_of keys s) else Err.
Proof.
  intros l keys s. induction s as [|i r IH]; intros prev Hp; [reflexivity|].
  cbn [collect_loop okb sel_of map].
  destruct (i <=? prev) eqn:E1.
  - apply Z.leb_le in E1. assert (E : prev <? i = false) by (apply Z.ltb_ge; lia). rewrite E. reflexivity.
  - apply Z.leb_gt in E1. assert (E : prev <? i = true) by (apply Z.ltb_lt; lia). rewrite E. cbn [andb].
    destruct (Z.of_nat (length keys) <=? i) eqn:E2.
    + apply Z.leb_le in E2. assert (E' : i <? Z.of_nat (length keys) = false) by (apply Z.ltb_ge; lia).
      rewrite E'. reflexivity.
    + apply Z.leb_gt in E2. assert (E' : i <? Z.of_nat (length keys) = true) by (apply Z.ltb_lt; lia).
      rewrite E'. cbn [andb].
      assert (Hn : nth_error keys (Z.to_nat i) = Some (key_at keys i)).
      { unfold key_at. apply nth_error_nth'. lia. }
      rewrite Hn. destruct (point_ok l (key_at keys i)); cbn [negb andb]; [|reflexivity].
      rewrite IH by lia. fold (sel_of keys r). destruct (okb l keys i r); reflexivity.
Qed.

Definition signers_okb (l : Z) (keys s : list Z) : bool :=
  match s with [] => false | _ => okb l keys (-1) s end.

Lemma collect_signers_eq : forall l keys s,
  collect_signers l keys s = if signers_okb l keys s then Ok (sel_of keys s) else Err.
Proof.
  intros l keys s. unfold collect_signers, signers_okb. destruct s as [|i r]; [reflexivity|].
  apply collect_loop_eq. lia.
Qed.

(* the same condition as a proposition *)
Fixpoint increasing (prev : Z) (s : list Z) : Prop :=
  match s with [] => True | i :: r => prev < i /\ increasing i r end.

Definition signers_ok (l : Z) (keys s : list Z) : Prop :=
  s <> [] /\ increasing (-1) s /\
  Forall (fun i => i < Z.of_nat (length keys) /\ point_ok l (key_at keys i) = true) s.

Lemma okb_iff : forall l keys s prev,
  okb l keys prev s = true <->
  increasing prev s /\ Forall (fun i => i < Z.of_nat (length keys) /\ point_ok l (key_at keys i) = true) s.
Proof.
  intros l keys s. induction s as [|i r IH]; intros prev; cbn [okb increasing].
  - split; [intros _; split; [exact I | constructor] | reflexivity].
  - rewrite !andb_true_iff, !Z.ltb_lt, IH. split.
    + intros (((H1 & H2) & H3) & H4 & H5). split; [split; assumption | constructor; [split; assumption | assumption]].
    + intros ((H1 & H4) & HF). inversion HF as [|? ? (H2 & H3) H5]; subst. tauto.
Qed.

Lemma signers_okb_iff : forall l keys s, signers_okb l keys s = true <-> signers_ok l keys s.
Proof.
  intros l keys s. unfold signers_okb, signers_ok. destruct s as [|i r].
  - split; [discriminate | intros (H & _); congruence].
  - rewrite okb_iff. split; [intros (H1 & H2); repeat split; [discriminate | apply H1 | apply H1 | exact H2]
                            | intros (_ & H1 & H2); split; assumption].
Qed.

(* unsorted, duplicated, out-of-range or empty signer lists (or an undecodable
   selected key) are refused whatever the encoding and the hash are *)
Lemma order_range : forall l enc H keys signers,
  ~ signers_ok l keys signers ->
  collect_signers l keys signers = Err /\
  (forall privs seed m, aggregate_sign l enc H privs keys signers seed m = Err) /\
  (forall r s m, aggregate_verify l enc H r s keys signers m = Err).
Proof.
  intros l enc H keys signers Hn.
  assert (E : collect_signers l keys signers = Err).
  { rewrite collect_signers_eq. destruct (signers_okb l keys signers) eqn:Eb; [|reflexivity].
    apply signers_okb_iff in Eb. contradiction. }
  split; [exact E|]. split.
  - intros. unfold aggregate_sign, aggregate_weighted_public_key. rewrite E. cbn [bind].
    destruct (negb _); [reflexivity|]. destruct (_ <? _)%nat; reflexivity.
  - intros. unfold aggregate_verify, aggregate_weighted_public_key. rewrite E. reflexivity.
Qed.

(* ---- the Schnorr equation ------------------------------------------------------ *)

Lemma verify_with_challenge_iff : forall l k r s c,
  verify_with_challenge l k r s c = true <->
  0 < k < l /\ 0 < r < l /\ 0 <= s < l /\ cg l s (r + c * k).
Proof.
  intros. unfold verify_with_challenge.
  rewrite !andb_true_iff, !point_ok_iff, scalar_ok_iff, Z.eqb_eq, cg_iff. tauto.
Qed.

(* ---- sums --------------------------------------------------------------------- *)

Lemma zsum_map_cg : forall l {A} (f g : A -> Z) ts,
  (forall t, In t ts -> cg l (f t) (g t)) -> cg l (zsum (map f ts)) (zsum (map g ts)).
Proof.
  intros l A f g ts. induction ts as [|t ts IH]; intros Hfg; cbn [map]; [reflexivity|].
  rewrite !zsum_cons. rewrite (Hfg t (or_introl eq_refl)), IH; [reflexivity|].
  intros; apply Hfg; right; assumption.
Qed.

Lemma zsum_map_lin : forall {A} x (f g : A -> Z) ts,
  zsum (map (fun t => x * f t + g t) ts) = x * zsum (map f ts) + zsum (map g ts).
Proof.
  intros A x f g ts. induction ts as [|t ts IH]; cbn [map]; [cbn; ring|].
  rewrite !zsum_cons, IH. ring.
Qed.

(* ---- AggregateSign ---------------------------------------------------------------- *)

Section Sign.
Variable l : Z.
Variable enc : Z -> N.
Variable H : list N -> Z.

Definition nonce_of (seed tr : list N) (a : Z) (m : N) (ik : Z * Z) : Z * Z :=
  (snd ik, H (nonce_input enc (snd ik) seed tr a (fst ik) m)).

(* what the per-signer loop returns when it succeeds: the private scalars are
   the discrete logs of the selected keys *)
Lemma sign_loop_ok : forall seed tr a m sel privs yz,
  sign_loop l enc H seed tr a m sel privs = Ok yz -> yz = map (nonce_of seed tr a m) sel.
Proof.
  intros seed tr a m sel. induction sel as [|[i k] sel IH]; intros privs yz Hs; cbn [sign_loop] in Hs.
  - inversion Hs. reflexivity.
  - destruct privs as [|y privs]; [discriminate|].
    destruct (65535 <? i); [discriminate|].
    destruct (negb (scalar_ok l y)); [discriminate|].
    destruct (negb (y =? k)) eqn:Ey; [discriminate|].
    apply negb_false_iff, Z.eqb_eq in Ey. subst y.
    destruct (sign_loop l enc H seed tr a m sel privs) as [tl| |] eqn:Et; cbn [bind] in Hs; try discriminate.
    inversion Hs. cbn [map]. rewrite (IH _ _ Et). reflexivity.
Qed.

Lemma sign_loop_complete : forall seed tr a m sel,
  Forall (fun ik => fst ik <= 65535 /\ 0 <= snd ik < l) sel ->
  sign_loop l enc H seed tr a m sel (map snd sel) = Ok (map (nonce_of seed tr a m) sel).
Proof.
  intros seed tr a m sel HF. induction sel as [|[i k] sel IH]; [reflexivity|].
  inversion HF as [|? ? (H1 & H2) HF']; subst. cbn [fst snd] in *.
  cbn [sign_loop map snd].
  assert (E1 : 65535 <? i = false) by (apply Z.ltb_ge; lia). rewrite E1.
  assert (E2 : scalar_ok l k = true) by (apply scalar_ok_iff; lia). rewrite E2, Z.eqb_refl. cbn [negb].
  rewrite (IH HF'). reflexivity.
Qed.

Definition chal (r a : Z) (m : N) : Z := H (challenge_input enc r a m).

Lemma combine_map_self : forall {A B} (f : A -> B) xs, combine xs (map f xs) = map (fun x => (x, f x)) xs.
Proof. intros A B f xs. induction xs; cbn; [reflexivity | rewrite IHxs; reflexivity]. Qed.

(* a signature AggregateSign returns satisfies the verification equation for
   the weighted key of its own signer set *)
Lemma sign_sound : forall privs keys signers seed m r s, 0 < l ->
  aggregate_sign l enc H privs keys signers seed m = Ok (r, s) ->
  signers_ok l keys signers /\
  0 <= r < l /\ 0 <= s < l /\
  let a := weighted_key_of l enc H (sel_of keys signers) in
  cg l s (r + chal r a m * a).
Proof.
  intros privs keys signers seed m r s Hl Hs. unfold aggregate_sign in Hs.
  destruct (negb _); [discriminate|]. destruct (_ <? _)%nat; [discriminate|].
  unfold aggregate_weighted_public_key in Hs. rewrite collect_signers_eq in Hs.
  destruct (signers_okb l keys signers) eqn:Eb; [|discriminate].
  cbn [bind] in Hs. set (sel := sel_of keys signers) in *.
  destruct (sign_loop l enc H seed (transcript enc sel) (weighted_key_of l enc H sel) m sel privs) as [yz| |] eqn:El;
    cbn [bind] in Hs; try discriminate.
  apply sign_loop_ok in El. subst yz. inversion Hs as [[Hr Hsv]]. clear Hs. subst r s.
  split; [apply signers_okb_iff; exact Eb|].
  split; [apply fsum_range; exact Hl|]. split; [apply fsum_range; exact Hl|].
  cbv zeta. set (a := weighted_key_of l enc H sel). set (tr := transcript enc sel).
  set (x := H (challenge_input enc (fsum l (map snd (map (nonce_of seed tr a m) sel))) a m)).
  unfold chal. fold x.
  rewrite combine_map_self, map_map.
  rewrite fsum_cg.
  rewrite (fsum_cg l (map snd _)), map_map.
  rewrite (zsum_map_cg l _ (fun ik => x * (coef enc H tr ik * snd ik) + H (nonce_input enc (snd ik) seed tr a (fst ik) m))).
  2:{ intros [i k] _. cbn [nonce_of fst snd]. rewrite cg_mod, fmul_cg. reflexivity. }
  rewrite zsum_map_lin. cbn [nonce_of snd].
  assert (Ha : cg l a (zsum (map (fun ik => coef enc H tr ik * snd ik) sel))).
  { unfold a, weighted_key_of. fold tr. rewrite fsum_cg. apply zsum_map_cg. intros; apply fmul_cg. }
  set (Z1 := zsum (map (fun ik => coef enc H tr ik * snd ik) sel)) in *.
  set (Z2 := zsum (map _ sel)).
  rewrite Ha. cg_ring.
Qed.

Lemma verify_eq : forall r s keys signers m, 0 < l ->
  signers_ok l keys signers ->
  let a := weighted_key_of l enc H (sel_of keys signers) in
  (aggregate_verify l enc H r s keys signers m = Ok tt <->
   0 < a < l /\ 0 < r < l /\ 0 <= s < l /\ cg l s (r + chal r a m * a)).
Proof.
  intros r s keys signers m Hl Hok. cbv zeta. unfold aggregate_verify, aggregate_weighted_public_key.
  rewrite collect_signers_eq. apply signers_okb_iff in Hok. rewrite Hok. cbn [bind fst].
  unfold schnorr_verify. fold (chal r (weighted_key_of l enc H (sel_of keys signers)) m).
  destruct (verify_with_challenge l _ r s _) eqn:E.
  - apply verify_with_challenge_iff in E. tauto.
  - split; [discriminate|]. intros Hc. apply verify_with_challenge_iff in Hc. congruence.
Qed.

Lemma verify_ok_signers : forall r s keys signers m,
  aggregate_verify l enc H r s keys signers m = Ok tt -> signers_ok l keys signers.
Proof.
  intros r s keys signers m Hv. apply signers_okb_iff.
  unfold aggregate_verify, aggregate_weighted_public_key in Hv. rewrite collect_signers_eq in Hv.
  destruct (signers_okb l keys signers); [reflexivity | discriminate].
Qed.

(* completeness *)
Lemma sign_complete : forall keys signers seed m, 0 < l ->
  signers_ok l keys signers -> Forall (fun i => i <= 65535) signers -> (32 <= length seed)%nat ->
  exists r s,
    aggregate_sign l enc H (map (key_at keys) signers) keys signers seed m = Ok (r, s) /\
    (point_ok l (weighted_key_of l enc H (sel_of keys signers)) = true -> point_ok l r = true ->
     aggregate_verify l enc H r s keys signers m = Ok tt).
Proof.
  intros keys signers seed m Hl Hok H16 Hseed.
  assert (Hex : exists r s, aggregate_sign l enc H (map (key_at keys) signers) keys signers seed m = Ok (r, s)).
  { unfold aggregate_sign. rewrite map_length, Nat.eqb_refl. cbn [negb].
    assert (E : (length seed <? 32)%nat = false) by (apply Nat.ltb_ge; lia). rewrite E.
    unfold aggregate_weighted_public_key. rewrite collect_signers_eq.
    pose proof Hok as Hb. apply signers_okb_iff in Hb. rewrite Hb. cbn [bind].
    replace (map (key_at keys) signers) with (map snd (sel_of keys signers))
      by (unfold sel_of; rewrite map_map; reflexivity).
    rewrite sign_loop_complete.
    - cbn [bind]. eexists; eexists; reflexivity.
    - destruct Hok as (_ & _ & HF). unfold sel_of. rewrite Forall_map. rewrite Forall_forall in *.
      intros i Hi. cbn [fst snd]. specialize (HF i Hi). specialize (H16 i Hi).
      destruct HF as [_ Hp]. apply point_ok_iff in Hp. lia. }
  destruct Hex as (r & s & Hs). exists r, s. split; [exact Hs|].
  intros Ha Hr. destruct (sign_sound _ _ _ _ _ _ _ Hl Hs) as (_ & _ & Hsr & Heq).
  apply verify_eq; [assumption | assumption |].
  apply point_ok_iff in Ha. apply point_ok_iff in Hr. tauto.
Qed.

(* binding: one signature accepted in two contexts ties the two challenges and
   the two weighted keys by one linear relation *)
Lemma binding : forall r s keys signers m keys' signers' m', 0 < l ->
  aggregate_verify l enc H r s keys signers m = Ok tt ->
  aggregate_verify l enc H r s keys' signers' m' = Ok tt ->
  let a := weighted_key_of l enc H (sel_of keys signers) in
  let a' := weighted_key_of l enc H (sel_of keys' signers') in
  0 < a' < l /\ cg l (chal r a' m' * a') (chal r a m * a).
Proof.
  intros r s keys signers m keys' signers' m' Hl H1 H2. cbv zeta.
  pose proof (verify_ok_signers _ _ _ _ _ H1) as Hok1. pose proof (verify_ok_signers _ _ _ _ _ H2) as Hok2.
  apply (verify_eq _ _ _ _ _ Hl Hok1) in H1. apply (verify_eq _ _ _ _ _ Hl Hok2) in H2.
  destruct H1 as (_ & _ & _ & E1). destruct H2 as (Ha' & _ & _ & E2).
  split; [exact Ha'|].
  set (u := chal r _ m' * _) in *. set (v := chal r _ m * _) in *.
  assert (E : cg l (r + u) (r + v)) by (rewrite <- E1, <- E2; reflexivity).
  replace u with ((r + u) - r) by ring. rewrite E. cg_ring.
Qed.

End Sign.

Section Binding.
Variable l : Z.
Variable enc : Z -> N.
Variable H : list N -> Z.

(* with a prime order the second challenge is one specific value *)
Lemma binding_challenge : forall r s keys signers m keys' signers' m', prime l ->
  aggregate_verify l enc H r s keys signers m = Ok tt ->
  aggregate_verify l enc H r s keys' signers' m' = Ok tt ->
  let a := weighted_key_of l enc H (sel_of keys signers) in
  let a' := weighted_key_of l enc H (sel_of keys' signers') in
  exists w, (a' * w) mod l = 1 mod l /\
            chal enc H r a' m' mod l = (chal enc H r a m * a * w) mod l.
Proof.
  intros r s keys signers m keys' signers' m' Hp H1 H2. cbv zeta.
  assert (Hl : 0 < l) by (destruct Hp; lia).
  destruct (binding l enc H _ _ _ _ _ _ _ _ Hl H1 H2) as (Ha' & E).
  set (a := weighted_key_of l enc H (sel_of keys signers)) in *.
  set (a' := weighted_key_of l enc H (sel_of keys' signers')) in *.
  assert (Hnz : a' mod l <> 0) by (rewrite Z.mod_small; lia).
  destruct (inv_exists l a' Hp Hnz) as [w Hw]. exists w. split; [apply cg_iff; exact Hw|].
  apply cg_iff.
  replace (chal enc H r a m * a * w) with ((chal enc H r a m * a) * w) by ring.
  rewrite <- E.
  replace (chal enc H r a' m' * a' * w) with (chal enc H r a' m' * (a' * w)) by ring.
  rewrite Hw. cg_ring.
Qed.

(* a signature made by AggregateSign for S, offered for another context *)
Lemma subset_relation : forall privs keys signers seed m r s keys' signers' m', 0 < l ->
  aggregate_sign l enc H privs keys signers seed m = Ok (r, s) ->
  signers_ok l keys' signers' ->
  let a := weighted_key_of l enc H (sel_of keys signers) in
  let a' := weighted_key_of l enc H (sel_of keys' signers') in
  (aggregate_verify l enc H r s keys' signers' m' = Ok tt <->
   0 < a' < l /\ 0 < r < l /\ cg l (chal enc H r a m * a) (chal enc H r a' m' * a')).
Proof.
  intros privs keys signers seed m r s keys' signers' m' Hl Hs Hok. cbv zeta.
  destruct (sign_sound l enc H _ _ _ _ _ _ _ Hl Hs) as (_ & Hr & Hsr & E). cbv zeta in E.
  rewrite (verify_eq l enc H r s keys' signers' m' Hl Hok).
  set (u := chal enc H r _ m * _) in *. set (v := chal enc H r _ m' * _) in *.
  split.
  - intros (Ha & Hr' & _ & E2). repeat split; try tauto.
    assert (E3 : cg l (r + u) (r + v)) by (rewrite <- E, <- E2; reflexivity).
    replace u with ((r + u) - r) by ring. rewrite E3. cg_ring.
  - intros (Ha & Hr' & E2). repeat split; try tauto. rewrite E, E2. reflexivity.
Qed.

(* rogue key x.B - K_v next to K_v: the weighted key is independent of the
   victim's key only if the two coefficients coincide *)
Lemma rogue_key : forall i j kv kr x, cg l kr (x - kv) ->
  let sel := [(i, kv); (j, kr)] in
  let tr := transcript enc sel in
  cg l (weighted_key_of l enc H sel)
       (coef enc H tr (j, kr) * x + (coef enc H tr (i, kv) - coef enc H tr (j, kr)) * kv).
Proof.
  intros i j kv kr x Hk. cbv zeta. unfold weighted_key_of. rewrite fsum_cg.
  cbn [map]. rewrite !zsum_cons, zsum_nil. cbn [snd]. rewrite !fmul_cg.
  set (c1 := coef enc H _ (i, kv)). set (c2 := coef enc H _ (j, kr)).
  rewrite Hk. cg_ring.
Qed.

End Binding.

(* ---- byte-level injectivity of the transcripts ----------------------------------- *)

Lemma app_inj_len : forall {A} (a a' b b' : list A),
  length a = length a' -> a ++ b = a' ++ b' -> a = a' /\ b = b'.
Proof.
  intros A a. induction a as [|x a IH]; intros a' b b' Hl He; destruct a' as [|x' a']; cbn in Hl; try discriminate.
  - split; [reflexivity | exact He].
  - cbn in He. injection He as Ex Er. destruct (IH a' b b' ltac:(lia) Er) as [E1 E2]. subst. split; reflexivity.
Qed.

Lemma app_inj_len_tail : forall {A} (a a' b b' : list A),
  length b = length b' -> a ++ b = a' ++ b' -> a = a' /\ b = b'.
Proof.
  intros A a a' b b' Hl He. apply app_inj_len; [|exact He].
  apply (f_equal (@length A)) in He. rewrite !app_length in He. lia.
Qed.

Lemma be_bytes_length : forall n v, length (be_bytes n v) = n.
Proof.
  induction n as [|n IH]; intros v; cbn [be_bytes]; [reflexivity|].
  rewrite app_length, IH. cbn. lia.
Qed.

Lemma be_bytes_inj : forall n v w,
  (v < 2 ^ (8 * N.of_nat n))%N -> (w < 2 ^ (8 * N.of_nat n))%N -> be_bytes n v = be_bytes n w -> v = w.
Proof.
  induction n as [|n IH]; intros v w Hv Hw He.
  - cbn in Hv, Hw. lia.
  - cbn [be_bytes] in He. apply app_inj_tail in He. destruct He as [E1 E2].
    replace (8 * N.of_nat (S n))%N with (8 + 8 * N.of_nat n)%N in Hv, Hw by lia.
    rewrite N.pow_add_r in Hv, Hw.
    assert (Hd : forall x, (x < 2 ^ 8 * 2 ^ (8 * N.of_nat n))%N -> (N.shiftr x 8 < 2 ^ (8 * N.of_nat n))%N).
    { intros x Hx. rewrite N.shiftr_div_pow2. apply N.div_lt_upper_bound; [discriminate | exact Hx]. }
    pose proof (IH _ _ (Hd v Hv) (Hd w Hw) E1) as E3.
    change 255%N with (N.ones 8) in E2. rewrite !N.land_ones in E2. rewrite !N.shiftr_div_pow2 in E3.
    rewrite (N.div_mod' v (2 ^ 8)), (N.div_mod' w (2 ^ 8)), E2, E3. reflexivity.
Qed.

Lemma u32be_length : forall i, length (u32be i) = 4%nat.
Proof. intros. unfold u32be. apply be_bytes_length. Qed.

Lemma bytes32_length : forall v, length (bytes32 v) = 32%nat.
Proof. intros. unfold bytes32. apply be_bytes_length. Qed.

Lemma u32be_inj : forall i j, 0 <= i < 2 ^ 32 -> 0 <= j < 2 ^ 32 -> u32be i = u32be j -> i = j.
Proof.
  intros i j Hi Hj He. unfold u32be in He. rewrite !Z.mod_small in He by assumption.
  apply be_bytes_inj in He.
  - apply Z2N.inj; lia.
  - change (2 ^ (8 * N.of_nat 4))%N with (Z.to_N (2 ^ 32)). apply Z2N.inj_lt; lia.
  - change (2 ^ (8 * N.of_nat 4))%N with (Z.to_N (2 ^ 32)). apply Z2N.inj_lt; lia.
Qed.

Definition n256 : N := (2 ^ 256)%N.

Lemma bytes32_inj : forall v w, (v < n256)%N -> (w < n256)%N -> bytes32 v = bytes32 w -> v = w.
Proof. intros v w Hv Hw He. unfold bytes32 in He. apply be_bytes_inj in He; assumption. Qed.

Section Transcripts.
Variable l : Z.
Variable enc : Z -> N.
(* the point encoding is injective on [0,l) and 32 bytes wide *)
Hypothesis enc_inj : forall a b, 0 <= a < l -> 0 <= b < l -> enc a = enc b -> a = b.
Hypothesis enc_range : forall a, (enc a < n256)%N.

Definition entry_ok (ik : Z * Z) : Prop := 0 <= fst ik < 2 ^ 32 /\ 0 <= snd ik < l.

Definition entry_bytes (ik : Z * Z) : list N := u32be (fst ik) ++ bytes32 (enc (snd ik)).

Lemma entry_bytes_length : forall ik, length (entry_bytes ik) = 36%nat.
Proof. intros. unfold entry_bytes. rewrite app_length, u32be_length, bytes32_length. reflexivity. Qed.

Lemma entry_bytes_inj : forall ik ik', entry_ok ik -> entry_ok ik' -> entry_bytes ik = entry_bytes ik' -> ik = ik'.
Proof.
  intros [i k] [i' k'] [Hi Hk] [Hi' Hk'] He. unfold entry_bytes in He. cbn [fst snd] in *.
  apply app_inj_len in He; [|rewrite !u32be_length; reflexivity]. destruct He as [E1 E2].
  apply u32be_inj in E1; try assumption. apply bytes32_inj in E2; try apply enc_range.
  apply enc_inj in E2; try assumption. subst. reflexivity.
Qed.

Lemma sel_bytes_inj : forall sel sel', Forall entry_ok sel -> Forall entry_ok sel' ->
  flat_map entry_bytes sel = flat_map entry_bytes sel' -> sel = sel'.
Proof.
  induction sel as [|ik sel IH]; intros sel' HF HF' He; destruct sel' as [|ik' sel'].
  - reflexivity.
  - exfalso. apply (f_equal (@length N)) in He. cbn [flat_map] in He.
    rewrite app_length, entry_bytes_length in He. cbn in He. lia.
  - exfalso. apply (f_equal (@length N)) in He. cbn [flat_map] in He.
    rewrite app_length, entry_bytes_length in He. cbn in He. lia.
  - cbn [flat_map] in He. apply app_inj_len in He; [|rewrite !entry_bytes_length; reflexivity].
    destruct He as [E1 E2]. inversion HF; inversion HF'; subst.
    apply entry_bytes_inj in E1; try assumption. subst ik'. f_equal. apply IH; assumption.
Qed.

(* the signer transcript determines the signer list and the keys at those positions *)
Lemma transcript_inj : forall sel sel', Forall entry_ok sel -> Forall entry_ok sel' ->
  transcript enc sel = transcript enc sel' -> sel = sel'.
Proof.
  intros sel sel' HF HF' He. unfold transcript in He.
  apply app_inj_len in He; [|rewrite !u32be_length; reflexivity]. destruct He as [_ E].
  apply sel_bytes_inj; assumption.
Qed.

(* a coefficient transcript determines the signer transcript, the index and the key *)
Lemma coef_input_inj : forall tr tr' ik ik', entry_ok ik -> entry_ok ik' ->
  coef_input enc tr ik = coef_input enc tr' ik' -> tr = tr' /\ ik = ik'.
Proof.
  intros tr tr' ik ik' Hk Hk' He. unfold coef_input in He. apply app_inv_head in He.
  fold (entry_bytes ik) in He. fold (entry_bytes ik') in He.
  apply app_inj_len_tail in He; [|rewrite !entry_bytes_length; reflexivity].
  destruct He as [E1 E2]. split; [exact E1 | apply entry_bytes_inj; assumption].
Qed.

(* the challenge transcript determines R, the aggregated key and the message *)
Lemma challenge_input_inj : forall r a m r' a' m', (m < n256)%N -> (m' < n256)%N ->
  challenge_input enc r a m = challenge_input enc r' a' m' -> enc r = enc r' /\ enc a = enc a' /\ m = m'.
Proof.
  intros r a m r' a' m' Hm Hm' He. unfold challenge_input in He.
  apply app_inj_len in He; [|rewrite !bytes32_length; reflexivity]. destruct He as [E1 He].
  apply app_inj_len in He; [|rewrite !bytes32_length; reflexivity]. destruct He as [E2 E3].
  apply bytes32_inj in E1; try apply enc_range. apply bytes32_inj in E2; try apply enc_range.
  apply bytes32_inj in E3; try assumption. tauto.
Qed.

Variable H : list N -> Z.

Lemma sel_entries_ok : forall keys signers, signers_ok l keys signers ->
  Z.of_nat (length keys) <= 2 ^ 32 -> Forall entry_ok (sel_of keys signers).
Proof.
  intros keys signers (_ & Hinc & HF) Hlen. unfold sel_of. rewrite Forall_map.
  assert (Hge : forall prev s, -1 <= prev -> increasing prev s -> Forall (fun i => 0 <= i) s).
  { intros prev s. revert prev. induction s as [|i s IH]; intros prev Hp Hi; constructor.
    - destruct Hi; lia.
    - destruct Hi as [Hi1 Hi2]. apply (IH i); [lia | exact Hi2]. }
  pose proof (Hge (-1) signers ltac:(lia) Hinc) as H0.
  rewrite Forall_forall in *. intros i Hi. destruct (HF i Hi) as [Hlt Hp]. apply point_ok_iff in Hp.
  specialize (H0 i Hi). unfold entry_ok. cbn [fst snd]. lia.
Qed.

(* binding, stated over signer sets, keys and message: a signature accepted in
   two contexts means (i) same signer list, same keys at those positions, same
   message; or (ii) two different signer transcripts whose weighted keys collide
   although every coefficient is the hash of a different input; or (iii) the
   hash of a different challenge transcript equals the one value c.A/A'. *)
Lemma binding_sets : forall r s keys signers m keys' signers' m', prime l ->
  (m < n256)%N -> (m' < n256)%N ->
  Z.of_nat (length keys) <= 2 ^ 32 -> Z.of_nat (length keys') <= 2 ^ 32 ->
  aggregate_verify l enc H r s keys signers m = Ok tt ->
  aggregate_verify l enc H r s keys' signers' m' = Ok tt ->
  let sel := sel_of keys signers in let sel' := sel_of keys' signers' in
  let a := weighted_key_of l enc H sel in let a' := weighted_key_of l enc H sel' in
  (sel = sel' /\ m = m') \/
  (sel <> sel' /\ m = m' /\ a = a' /\
   forall ik ik', In ik sel -> In ik' sel' ->
     coef_input enc (transcript enc sel) ik <> coef_input enc (transcript enc sel') ik') \/
  (challenge_input enc r a m <> challenge_input enc r a' m' /\
   exists w, (a' * w) mod l = 1 mod l /\
             H (challenge_input enc r a' m') mod l = (H (challenge_input enc r a m) * a * w) mod l).
Proof.
  intros r s keys signers m keys' signers' m' Hp Hm Hm' Hlen Hlen' H1 H2. cbv zeta.
  assert (Hl : 0 < l) by (destruct Hp; lia).
  pose proof (sel_entries_ok _ _ (verify_ok_signers l enc H _ _ _ _ _ H1) Hlen) as HF.
  pose proof (sel_entries_ok _ _ (verify_ok_signers l enc H _ _ _ _ _ H2) Hlen') as HF'.
  set (sel := sel_of keys signers) in *. set (sel' := sel_of keys' signers') in *.
  set (a := weighted_key_of l enc H sel). set (a' := weighted_key_of l enc H sel').
  destruct (list_eq_dec N.eq_dec (challenge_input enc r a m) (challenge_input enc r a' m')) as [E|E].
  - destruct (challenge_input_inj _ _ _ _ _ _ Hm Hm' E) as (_ & Ea & Em).
    assert (Eaa : a = a').
    { apply enc_inj; [apply fsum_range; exact Hl | apply fsum_range; exact Hl | exact Ea]. }
    assert (Hdec : {sel = sel'} + {sel <> sel'}).
    { apply list_eq_dec. intros [x y] [x' y']. destruct (Z.eq_dec x x'), (Z.eq_dec y y'); subst;
        [left; reflexivity | right; congruence | right; congruence | right; congruence]. }
    destruct Hdec as [Es|Es]; [left; split; assumption|].
    right; left. repeat split; try assumption.
    intros ik ik' Hin Hin' Ec. rewrite Forall_forall in HF, HF'.
    destruct (coef_input_inj _ _ _ _ (HF _ Hin) (HF' _ Hin') Ec) as [Etr _].
    apply Es. apply transcript_inj; [apply Forall_forall; exact HF | apply Forall_forall; exact HF' | exact Etr].
  - right; right. split; [exact E|].
    exact (binding_challenge l enc H _ _ _ _ _ _ _ _ Hp H1 H2).
Qed.

End Transcripts.
