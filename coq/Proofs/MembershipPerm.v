(* Order-independence of the Go map iteration in nodeSequenceWithoutState (and
   readAllNodes): the map is an association list with distinct node ids; the
   code appends its entries in iteration order and then sorts by (timestamp,
   id).  For every permutation of the association list the result is the same. *)
From Coq Require Import List ZArith NArith Bool Lia ZifyN ZifyNat ZifyBool Permutation.
Require Import Mixin.Base.Res Mixin.Model.Membership Mixin.Proofs.Membership.
Import ListNotations.
Open Scope N_scope.

(* ---- the (timestamp, id) sort ------------------------------------------------------- *)
Fixpoint ksorted (l : list nrec) : Prop :=
  match l with
  | [] => True
  | x :: l' => Forall (fun y => rec_lt y x = false) l' /\ ksorted l'
  end.

Lemma insert_ksorted : forall r l, ksorted l -> ksorted (insert_rec r l).
Proof.
  intros r l. induction l as [|x l IH]; intros Hs; cbn [insert_rec].
  - cbn. split; [constructor|exact I].
  - destruct Hs as [Hx Hl]. destruct (rec_lt r x) eqn:E.
    + cbn [ksorted]. split; [|split; assumption].
      constructor.
      * unfold rec_lt in *. lia.
      * eapply Forall_impl; [|exact Hx]. cbn. intros y Hy. unfold rec_lt in *. lia.
    + cbn [ksorted]. split; [|apply IH; exact Hl].
      apply Forall_insert; [exact Hx|exact E].
Qed.

Lemma sort_recs_ksorted : forall l, ksorted (sort_recs l).
Proof.
  intros l. unfold sort_recs.
  assert (G : forall l acc, ksorted acc -> ksorted (fold_left (fun acc r => insert_rec r acc) l acc)).
  { induction l0 as [|r l0 IH]; intros acc Ha; cbn [fold_left]; [exact Ha|].
    apply IH. apply insert_ksorted. exact Ha. }
  apply G. exact I.
Qed.

Lemma insert_perm : forall r l, Permutation (insert_rec r l) (r :: l).
Proof.
  intros r l. induction l as [|x l IH]; cbn [insert_rec]; [apply Permutation_refl|].
  destruct (rec_lt r x); [apply Permutation_refl|].
  apply perm_trans with (x :: r :: l); [apply perm_skip; exact IH|apply perm_swap].
Qed.

Lemma sort_recs_perm_self : forall l, Permutation (sort_recs l) l.
Proof.
  intros l. unfold sort_recs.
  assert (G : forall l acc, Permutation (fold_left (fun acc r => insert_rec r acc) l acc) (l ++ acc)).
  { induction l0 as [|r l0 IH]; intros acc; cbn [fold_left app]; [apply Permutation_refl|].
    apply perm_trans with (l0 ++ insert_rec r acc); [apply IH|].
    apply perm_trans with (l0 ++ r :: acc); [apply Permutation_app_head; apply insert_perm|].
    apply Permutation_sym. apply Permutation_middle. }
  pose proof (G l []) as H. rewrite app_nil_r in H. exact H.
Qed.

Lemma nodup_map_inj : forall {A B} (f : A -> B) l a b,
  NoDup (map f l) -> In a l -> In b l -> f a = f b -> a = b.
Proof.
  intros A B f l. induction l as [|x l IH]; intros a b Hnd Ha Hb Hf; [contradiction|].
  cbn [map] in Hnd. inversion Hnd as [|? ? Hnx Hnd']; subst.
  destruct Ha as [->|Ha], Hb as [->|Hb].
  - reflexivity.
  - exfalso. apply Hnx. rewrite Hf. apply in_map. exact Hb.
  - exfalso. apply Hnx. rewrite <- Hf. apply in_map. exact Ha.
  - apply IH; assumption.
Qed.

(* a key-sorted list with distinct ids is determined by its elements *)
Lemma ksorted_perm_unique : forall l1 l2,
  Permutation l1 l2 -> NoDup (map r_id l1) -> ksorted l1 -> ksorted l2 -> l1 = l2.
Proof.
  induction l1 as [|a t1 IH]; intros l2 Hp Hnd Hs1 Hs2.
  - apply Permutation_nil in Hp. subst. reflexivity.
  - destruct l2 as [|b t2]; [apply Permutation_sym in Hp; apply Permutation_nil in Hp; discriminate|].
    assert (Hab : a = b).
    { assert (Ha2 : In a (b :: t2)) by (apply (Permutation_in _ Hp); left; reflexivity).
      assert (Hb1 : In b (a :: t1)) by (apply (Permutation_in _ (Permutation_sym Hp)); left; reflexivity).
      destruct Ha2 as [Ha2|Ha2]; [symmetry; exact Ha2|].
      destruct Hb1 as [Hb1|Hb1]; [exact Hb1|].
      destruct Hs1 as [Hf1 _]. destruct Hs2 as [Hf2 _].
      pose proof (proj1 (Forall_forall _ _) Hf1 b Hb1) as L1.
      pose proof (proj1 (Forall_forall _ _) Hf2 a Ha2) as L2.
      apply (nodup_map_inj r_id (a :: t1) a b Hnd); [left; reflexivity|right; exact Hb1|].
      unfold rec_lt in *. lia. }
    subst b. f_equal.
    apply IH.
    + apply (Permutation_cons_inv Hp).
    + cbn [map] in Hnd. inversion Hnd; assumption.
    + destruct Hs1; assumption.
    + destruct Hs2; assumption.
Qed.

Lemma sort_recs_perm : forall l l',
  Permutation l l' -> NoDup (map r_id l) -> sort_recs l = sort_recs l'.
Proof.
  intros l l' Hp Hnd. apply ksorted_perm_unique.
  - apply perm_trans with l; [apply sort_recs_perm_self|].
    apply perm_trans with l'; [exact Hp|apply Permutation_sym; apply sort_recs_perm_self].
  - apply (Permutation_NoDup (l := map r_id l)); [|exact Hnd].
    apply Permutation_map. apply Permutation_sym. apply sort_recs_perm_self.
  - apply sort_recs_ksorted.
  - apply sort_recs_ksorted.
Qed.

(* ---- the map has distinct ids ------------------------------------------------------------ *)
Lemma map_set_ids : forall r m i,
  In i (map r_id (map_set r m)) -> i = r_id r \/ In i (map r_id m).
Proof.
  intros r m. induction m as [|x m IH]; intros i H; cbn [map_set] in H.
  - cbn in H. destruct H as [<-|[]]. left; reflexivity.
  - destruct (r_id x =? r_id r) eqn:E.
    + cbn [map] in *. destruct H as [<-|H]; [left; reflexivity|right; right; exact H].
    + cbn [map] in *. destruct H as [<-|H]; [right; left; reflexivity|].
      destruct (IH i H) as [->|Hi]; [left; reflexivity|right; right; exact Hi].
Qed.

Lemma map_set_nodup : forall r m, NoDup (map r_id m) -> NoDup (map r_id (map_set r m)).
Proof.
  intros r m. induction m as [|x m IH]; intros Hnd; cbn [map_set].
  - cbn. constructor; [intros []|constructor].
  - cbn [map] in Hnd. inversion Hnd as [|? ? Hnx Hnd']; subst.
    destruct (r_id x =? r_id r) eqn:E.
    + apply N.eqb_eq in E. cbn [map]. rewrite <- E. constructor; assumption.
    + cbn [map]. constructor; [|apply IH; exact Hnd'].
      intros Hin. apply map_set_ids in Hin. destruct Hin as [Hi|Hi]; [lia|contradiction].
Qed.

Lemma latest_by_id_nodup : forall l, NoDup (map r_id (latest_by_id l)).
Proof.
  intros l. unfold latest_by_id.
  assert (G : forall l acc, NoDup (map r_id acc) ->
              NoDup (map r_id (fold_left (fun m r => map_set r m) l acc))).
  { induction l0 as [|r l0 IH]; intros acc Ha; cbn [fold_left]; [exact Ha|].
    apply IH. apply map_set_nodup. exact Ha. }
  apply G. constructor.
Qed.

Lemma filter_perm : forall {A} (f : A -> bool) l l',
  Permutation l l' -> Permutation (filter f l) (filter f l').
Proof.
  intros A f l l' H. induction H as [|x l l' H IH|x y l|l l' l'' H1 IH1 H2 IH2]; cbn [filter].
  - constructor.
  - destruct (f x); [apply perm_skip|]; exact IH.
  - destruct (f x), (f y); try apply Permutation_refl. apply perm_swap.
  - eapply perm_trans; eassumption.
Qed.

Lemma filter_nodup_map : forall {A B} (f : A -> B) (g : A -> bool) l,
  NoDup (map f l) -> NoDup (map f (filter g l)).
Proof.
  intros A B f g l. induction l as [|x l IH]; intros H; cbn [filter map] in *; [constructor|].
  inversion H as [|? ? Hnx Hnd]; subst. destruct (g x); [|apply IH; exact Hnd].
  cbn [map]. constructor; [|apply IH; exact Hnd].
  intros Hin. apply Hnx. apply in_map_iff in Hin. destruct Hin as (y & Hy & Hin).
  apply filter_In in Hin. rewrite <- Hy. apply in_map. tauto.
Qed.

(* ---- the sequence as a function of the map ---------------------------------------------------- *)
(* what nodeSequenceWithoutState does after the map is filled: append the
   entries (all, or the accepted ones) in iteration order, sort, number *)
Definition sequence_of_map (ao : bool) (m : list nrec) : list cnode :=
  assign_index 0 (sort_recs (accepted_filter ao m)).

Lemma nsws_is_sequence_of_map : forall th ao all,
  node_sequence_without_state th ao all = sequence_of_map ao (latest_by_id (take_before th all)).
Proof. reflexivity. Qed.

Lemma sequence_of_map_perm : forall ao m m',
  Permutation m m' -> NoDup (map r_id m) -> sequence_of_map ao m = sequence_of_map ao m'.
Proof.
  intros ao m m' Hp Hnd. unfold sequence_of_map, accepted_filter. f_equal.
  destruct ao.
  - apply sort_recs_perm; [apply filter_perm; exact Hp|apply filter_nodup_map; exact Hnd].
  - apply sort_recs_perm; assumption.
Qed.

(* ---- a node whose every map iteration runs in an arbitrary order ------------------------------ *)
(* [iter th ao m] is the order in which the Go runtime happens to iterate the
   map m during the call with arguments (th, ao): any permutation of m *)
Definition iteration := N -> bool -> list nrec -> list nrec.
Definition is_iteration (iter : iteration) : Prop := forall th ao m, Permutation m (iter th ao m).

Definition nsws_with (iter : iteration) (th : N) (ao : bool) (all : list nrec) : list cnode :=
  sequence_of_map ao (iter th ao (latest_by_id (take_before th all))).

Definition build_sequences_with (iter : iteration) (ao : bool) (all : list nrec) : list (N * list cnode) :=
  map (fun n => (r_ts n, nsws_with iter (u64 (r_ts n + 1)) ao all)) all.

Definition load_node_with (iter : iteration) (recs : list nrec) (genesis : list N) (epoch : N) (mainnet : bool) : mnode :=
  let all := sort_recs recs in
  mknode all (build_sequences_with iter false all) (build_sequences_with iter true all) genesis epoch mainnet.

Definition read_all_latest_with (iter : iteration) (threshold : N) (store : list nrec) : list nrec :=
  sort_recs (iter threshold false (latest_by_id (read_all_with_state threshold store))).

Lemma nsws_with_eq : forall iter th ao all, is_iteration iter ->
  nsws_with iter th ao all = node_sequence_without_state th ao all.
Proof.
  intros iter th ao all Hi. unfold nsws_with. rewrite nsws_is_sequence_of_map. symmetry.
  apply sequence_of_map_perm; [apply Hi|apply latest_by_id_nodup].
Qed.

Lemma load_node_with_eq : forall iter recs genesis epoch mainnet, is_iteration iter ->
  load_node_with iter recs genesis epoch mainnet = load_node recs genesis epoch mainnet.
Proof.
  intros iter recs genesis epoch mainnet Hi. unfold load_node_with, load_node.
  assert (G : forall ao all, build_sequences_with iter ao all = build_sequences ao all).
  { intros ao all. unfold build_sequences_with, build_sequences. apply map_ext. intros n.
    rewrite nsws_with_eq by exact Hi. reflexivity. }
  rewrite !G. reflexivity.
Qed.

Lemma read_all_latest_with_eq : forall iter th store, is_iteration iter ->
  read_all_latest_with iter th store = read_all_latest th store.
Proof.
  intros iter th store Hi. unfold read_all_latest_with, read_all_latest. symmetry.
  apply sort_recs_perm; [apply Hi|apply latest_by_id_nodup].
Qed.
