(* Lemmas about Model/RoundHash.v: the (timestamp, hash) order has a unique
   sorted permutation, so both round-hash transcriptions compute a function of
   the multiset of (timestamp, hash) pairs, whatever sorting procedure is used. *)
From Coq Require Import List ZArith NArith Bool Lia ZifyN ZifyBool Permutation Sorted.
Require Import Mixin.Base.Res Mixin.Gen.Consts Mixin.Model.RoundHash.
Import ListNotations.
Open Scope N_scope.

(* ---- what a sort.Slice call guarantees ---------------------------------------- *)
Definition sort_spec {A : Type} (lt : A -> A -> bool) (sort : list A -> list A) : Prop :=
  forall l, Permutation (sort l) l /\ StronglySorted (fun a b => lt b a = false) (sort l).

Definition key_le (a b : N * N) : Prop := key_lt b a = false.

Lemma key_le_antisym : forall a b, key_le a b -> key_le b a -> a = b.
Proof.
  intros [a1 a2] [b1 b2]; unfold key_le, key_lt; cbn [fst snd]; intros H1 H2.
  assert (a1 = b1) by lia. subst. assert (a2 = b2) by lia. subst. reflexivity.
Qed.

Lemma snap_lt_key : forall a b, snap_lt a b = key_lt (skey a) (skey b).
Proof.
  intros a b; unfold snap_lt, key_lt, skey; cbn [fst snd].
  destruct (s_ts a <? s_ts b) eqn:E1; [reflexivity|].
  destruct (s_ts b <? s_ts a) eqn:E2; cbn [orb].
  - assert (E3 : (s_ts a =? s_ts b) = false) by lia. rewrite E3. reflexivity.
  - assert (E3 : (s_ts a =? s_ts b) = true) by lia. rewrite E3. reflexivity.
Qed.

Lemma tsnap_lt_snap : forall a b, tsnap_lt a b = snap_lt (t_snap a) (t_snap b).
Proof. reflexivity. Qed.

(* ---- a sorted permutation is unique under an antisymmetric order --------------- *)
Section Unique.
Context {K : Type} (le : K -> K -> Prop).
Hypothesis antisym : forall a b, le a b -> le b a -> a = b.

Lemma sorted_perm_unique : forall l1 l2,
  Permutation l1 l2 -> StronglySorted le l1 -> StronglySorted le l2 -> l1 = l2.
Proof.
  induction l1 as [|a l1 IH]; intros l2 HP S1 S2.
  - apply Permutation_nil in HP. subst. reflexivity.
  - destruct l2 as [|b l2]; [apply Permutation_sym, Permutation_nil in HP; discriminate|].
    apply StronglySorted_inv in S1. destruct S1 as [S1 F1].
    apply StronglySorted_inv in S2. destruct S2 as [S2 F2].
    rewrite Forall_forall in F1, F2.
    assert (Eab : a = b).
    { assert (Ia : In a (b :: l2)) by (eapply Permutation_in; [exact HP | left; reflexivity]).
      assert (Ib : In b (a :: l1)) by (eapply Permutation_in; [apply Permutation_sym; exact HP | left; reflexivity]).
      destruct Ia as [Ia|Ia]; [symmetry; exact Ia|].
      destruct Ib as [Ib|Ib]; [exact Ib|].
      apply antisym; [apply F1; exact Ib | apply F2; exact Ia]. }
    subst b. f_equal. apply IH; [eapply Permutation_cons_inv; exact HP | exact S1 | exact S2].
Qed.
End Unique.

Lemma StronglySorted_map : forall {A B} (f : A -> B) (R : B -> B -> Prop) l,
  StronglySorted (fun a b => R (f a) (f b)) l -> StronglySorted R (map f l).
Proof.
  intros A B f R l HS. induction HS as [|a l HS IH F]; cbn [map]; constructor.
  - exact IH.
  - rewrite Forall_forall in *. intros y Hy. apply in_map_iff in Hy.
    destruct Hy as [x [Hx Hin]]. subst y. apply F. exact Hin.
Qed.

Lemma sorted_keys : forall sort, sort_spec snap_lt sort ->
  forall l, StronglySorted key_le (map skey (sort l)).
Proof.
  intros sort HS l. apply StronglySorted_map. destruct (HS l) as [_ S].
  eapply StronglySorted_ind with (P := fun l => StronglySorted (fun a b => key_le (skey a) (skey b)) l);
    [constructor | | exact S].
  intros a l0 _ IH F. constructor; [exact IH|].
  rewrite Forall_forall in *. intros x Hx. unfold key_le. rewrite <- snap_lt_key. apply F. exact Hx.
Qed.

(* the keys of the sorted slice are determined by the multiset of keys alone *)
Lemma sorted_keys_unique : forall sort sort', sort_spec snap_lt sort -> sort_spec snap_lt sort' ->
  forall l l', Permutation (map skey l) (map skey l') ->
  map skey (sort l) = map skey (sort' l').
Proof.
  intros sort sort' HS HS' l l' HP.
  apply (sorted_perm_unique key_le key_le_antisym).
  - eapply perm_trans; [apply Permutation_map; apply (proj1 (HS l))|].
    eapply perm_trans; [exact HP|]. apply Permutation_sym, Permutation_map, (proj1 (HS' l')).
  - apply sorted_keys; exact HS.
  - apply sorted_keys; exact HS'.
Qed.

(* ---- list helpers ------------------------------------------------------------------ *)
Lemma last_map : forall {A B} (f : A -> B) l d, last (map f l) (f d) = f (last l d).
Proof.
  intros A B f l d. induction l as [|a l IH]; [reflexivity|].
  destruct l as [|b l]; [reflexivity|]. cbn [map] in *. cbn [last]. exact IH.
Qed.

Lemma last_in : forall {A} (l : list A) d, l <> [] -> In (last l d) l.
Proof.
  intros A l d. induction l as [|a l IH]; intro Hne; [contradiction|].
  destruct l as [|b l]; [left; reflexivity|]. right. apply IH. discriminate.
Qed.

Lemma last_cons_nonempty : forall {A} (a : A) l d, l <> [] -> last (a :: l) d = last l d.
Proof. intros A a l d Hne. destruct l; [contradiction|reflexivity]. Qed.

Lemma last_default : forall {A} (l : list A) d d', l <> [] -> last l d = last l d'.
Proof.
  intros A l d d'. induction l as [|a l IH]; intro Hne; [contradiction|].
  destruct l as [|b l]; [reflexivity|]. cbn [last]. apply IH. discriminate.
Qed.

(* every element of a slice sorted by (timestamp, hash) is at most its last one *)
Lemma sorted_le_last : forall (sl : list snap) d,
  StronglySorted (fun a b => snap_lt b a = false) sl ->
  Forall (fun s => s_ts s <= s_ts (last sl d)) sl.
Proof.
  intros sl d HS. induction HS as [|a l HS IH F]; [constructor|].
  destruct l as [|b l].
  - constructor; [cbn [last]; lia | constructor].
  - constructor.
    + rewrite Forall_forall in F.
      assert (Hl : In (last (b :: l) d) (b :: l)) by (apply last_in; discriminate).
      specialize (F _ Hl). rewrite last_cons_nonempty by discriminate.
      unfold snap_lt in F.
      destruct (s_ts (last (b :: l) d) <? s_ts a) eqn:E; [discriminate|]. lia.
    + rewrite last_cons_nonempty by discriminate. exact IH.
Qed.

Lemma sorted_ge_head : forall (a : snap) l,
  StronglySorted (fun a b => snap_lt b a = false) (a :: l) ->
  Forall (fun s => s_ts a <= s_ts s) (a :: l).
Proof.
  intros a l HS. apply StronglySorted_inv in HS. destruct HS as [_ F].
  constructor; [lia|]. rewrite Forall_forall in *. intros x Hx. specialize (F _ Hx).
  unfold snap_lt in F. destruct (s_ts x <? s_ts a) eqn:E; [discriminate|]. lia.
Qed.

(* ---- the specification both transcriptions meet ------------------------------------ *)
Section Spec.
Variable H : hin -> N.

Definition fold_keys (h0 : N) (ks : list (N * N)) : N :=
  fold_left (fun h k => H (HLink h (snd k))) ks h0.

Definition round_hash_spec (node number : N) (ks : list (N * N)) : res (N * N * N) :=
  match ks with
  | [] => Panic
  | k0 :: _ =>
      let start := fst k0 in
      let end_ := fst (last ks k0) in
      if add64 start round_gap <=? end_ then Panic
      else Ok (start, end_, fold_keys (H (HSeed node number)) ks)
  end.

Lemma max_version_ge : forall l v,
  v <= max_version v l /\ Forall (fun s => s_version s <= max_version v l) l.
Proof.
  induction l as [|s l IH]; intro v; cbn [max_version]; [split; [lia|constructor]|].
  destruct (IH (if v <? s_version s then s_version s else v)) as [H1 H2].
  destruct (v <? s_version s) eqn:E; split; try lia; constructor; try lia; exact H2.
Qed.

Lemma chain_common_ok : forall l version end_ h,
  Forall (fun s => s_version s <= version) l ->
  Forall (fun s => s_ts s <= end_) l ->
  chain_common H version end_ h l = Ok (fold_keys h (map skey l)).
Proof.
  induction l as [|s l IH]; intros version end_ h FV FT; [reflexivity|].
  inversion FV as [|? ? V1 V2]; subst. inversion FT as [|? ? T1 T2]; subst.
  cbn [chain_common map]. unfold fold_keys; cbn [fold_left skey snd].
  assert (E1 : (version <? s_version s) = false) by lia. rewrite E1.
  assert (E2 : (end_ <? s_ts s) = false) by lia. rewrite E2.
  apply IH; assumption.
Qed.

(* the body of ComputeRoundHash after its sort *)
Lemma common_sorted_spec : forall node number sl,
  StronglySorted (fun a b => snap_lt b a = false) sl ->
  round_hash_common H (fun x => x) node number sl = round_hash_spec node number (map skey sl).
Proof.
  intros node number sl HS. unfold round_hash_common, round_hash_spec.
  destruct sl as [|s0 sl']; [reflexivity|].
  cbn [map]. change (skey s0 :: map skey sl') with (map skey (s0 :: sl')).
  rewrite (last_map skey (s0 :: sl') s0). cbn [skey fst].
  destruct (add64 (s_ts s0) round_gap <=? s_ts (last (s0 :: sl') s0)) eqn:E; [reflexivity|].
  rewrite chain_common_ok.
  - reflexivity.
  - apply (proj2 (max_version_ge (s0 :: sl') (s_version s0))).
  - apply sorted_le_last. exact HS.
Qed.

Lemma common_spec : forall sort, sort_spec snap_lt sort -> forall node number l,
  round_hash_common H sort node number l = round_hash_spec node number (map skey (sort l)).
Proof.
  intros sort HS node number l.
  rewrite <- common_sorted_spec by apply (proj2 (HS l)). reflexivity.
Qed.

(* the storage transcription is the common one on the projected slice *)
Lemma max_version_t_map : forall l v, max_version_t v l = max_version v (map t_snap l).
Proof. induction l as [|s l IH]; intro v; [reflexivity|]. cbn [max_version_t max_version map]. apply IH. Qed.

Lemma chain_storage_map : forall l version end_ h,
  chain_storage H version end_ h l = chain_common H version end_ h (map t_snap l).
Proof.
  induction l as [|s l IH]; intros version end_ h; [reflexivity|].
  cbn [chain_storage chain_common map].
  destruct (version <? s_version (t_snap s)); [reflexivity|].
  destruct (end_ <? s_ts (t_snap s)); [reflexivity|]. apply IH.
Qed.

Lemma storage_as_common : forall sort_t node number l,
  round_hash_storage H sort_t node number l =
  round_hash_common H (fun x => x) node number (map t_snap (sort_t l)).
Proof.
  intros sort_t node number l. unfold round_hash_storage, round_hash_common.
  destruct (sort_t l) as [|s0 sl'] eqn:E; [reflexivity|].
  cbn [map]. change (t_snap s0 :: map t_snap sl') with (map t_snap (s0 :: sl')).
  rewrite (last_map t_snap (s0 :: sl') s0).
  destruct (add64 (s_ts (t_snap s0)) round_gap <=? s_ts (t_snap (last (s0 :: sl') s0))); [reflexivity|].
  rewrite max_version_t_map, chain_storage_map. reflexivity.
Qed.

Lemma storage_sorted_proj : forall sort_t, sort_spec tsnap_lt sort_t -> forall l,
  StronglySorted (fun a b => snap_lt b a = false) (map t_snap (sort_t l)).
Proof.
  intros sort_t HS l. apply StronglySorted_map. exact (proj2 (HS l)).
Qed.

Lemma storage_spec : forall sort_t, sort_spec tsnap_lt sort_t -> forall node number l,
  round_hash_storage H sort_t node number l =
  round_hash_spec node number (map skey (map t_snap (sort_t l))).
Proof.
  intros sort_t HS node number l. rewrite storage_as_common.
  apply common_sorted_spec. apply storage_sorted_proj. exact HS.
Qed.

(* ---- the C18 statements ---------------------------------------------------------------- *)

(* the result depends only on node, number and the multiset of (timestamp, hash),
   whichever conforming sort is used *)
Theorem common_depends_only_on_keys : forall sort sort', sort_spec snap_lt sort -> sort_spec snap_lt sort' ->
  forall node number l l', Permutation (map skey l) (map skey l') ->
  round_hash_common H sort node number l = round_hash_common H sort' node number l'.
Proof.
  intros sort sort' HS HS' node number l l' HP.
  rewrite (common_spec sort HS), (common_spec sort' HS').
  f_equal. apply sorted_keys_unique; assumption.
Qed.

Theorem common_perm_invariant : forall sort, sort_spec snap_lt sort ->
  forall node number l l', Permutation l l' ->
  round_hash_common H sort node number l = round_hash_common H sort node number l'.
Proof.
  intros sort HS node number l l' HP.
  apply common_depends_only_on_keys; [exact HS | exact HS | apply Permutation_map; exact HP].
Qed.

Theorem common_depends_only_on_set : forall sort sort', sort_spec snap_lt sort -> sort_spec snap_lt sort' ->
  forall node number l l',
  NoDup (map skey l) -> NoDup (map skey l') ->
  (forall k, In k (map skey l) <-> In k (map skey l')) ->
  round_hash_common H sort node number l = round_hash_common H sort' node number l'.
Proof.
  intros sort sort' HS HS' node number l l' N1 N2 Hiff.
  apply common_depends_only_on_keys; [exact HS | exact HS'|].
  apply NoDup_Permutation; assumption.
Qed.

Theorem two_impls_agree : forall sort sort_t, sort_spec snap_lt sort -> sort_spec tsnap_lt sort_t ->
  forall node number lt,
  round_hash_storage H sort_t node number lt = round_hash_common H sort node number (map t_snap lt).
Proof.
  intros sort sort_t HS HT node number lt.
  rewrite (storage_spec sort_t HT), (common_spec sort HS). f_equal.
  apply (sorted_perm_unique key_le key_le_antisym).
  - eapply perm_trans; [apply Permutation_map, Permutation_map, (proj1 (HT lt))|].
    apply Permutation_sym, Permutation_map, (proj1 (HS (map t_snap lt))).
  - apply StronglySorted_map.
    pose proof (storage_sorted_proj sort_t HT lt) as S.
    eapply StronglySorted_ind with (P := fun l => StronglySorted (fun a b => key_le (skey a) (skey b)) l);
      [constructor | | exact S].
    intros a l0 _ IH F. constructor; [exact IH|].
    rewrite Forall_forall in *. intros x Hx. unfold key_le. rewrite <- snap_lt_key. apply F. exact Hx.
  - apply sorted_keys. exact HS.
Qed.

(* both panic on exactly the same inputs and otherwise return start = min, end = max *)
Lemma spec_ok_inv : forall node number ks r, round_hash_spec node number ks = Ok r ->
  exists k0 ks', ks = k0 :: ks' /\ fst (fst r) = fst k0 /\ snd (fst r) = fst (last ks k0) /\
                 add64 (fst k0) round_gap > fst (last ks k0).
Proof.
  intros node number ks r Hr. unfold round_hash_spec in Hr. destruct ks as [|k0 ks']; [discriminate|].
  exists k0, ks'. destruct (add64 (fst k0) round_gap <=? fst (last (k0 :: ks') k0)) eqn:E; [discriminate|].
  inversion Hr; subst r; cbn [fst snd]. repeat split. lia.
Qed.
End Spec.

(* ---- insertion sort meets the specification (used when the model is run) -------------- *)
Section Isort.
Context {A : Type} (lt : A -> A -> bool).
Hypothesis lt_asym : forall a b, lt a b = true -> lt b a = false.
Hypothesis lt_negtrans : forall a b c, lt b a = false -> lt c b = false -> lt c a = false.

Lemma insert_perm : forall x l, Permutation (insert_by lt x l) (x :: l).
Proof.
  intros x l. induction l as [|y t IH]; [apply Permutation_refl|]. cbn [insert_by].
  destruct (lt y x); [|apply Permutation_refl].
  eapply perm_trans; [apply perm_skip; exact IH | apply perm_swap].
Qed.

Lemma insert_sorted : forall x l, StronglySorted (fun a b => lt b a = false) l ->
  StronglySorted (fun a b => lt b a = false) (insert_by lt x l).
Proof.
  intros x l HS. induction HS as [|y t HS IH F]; cbn [insert_by]; [constructor; constructor|].
  destruct (lt y x) eqn:E.
  - constructor; [exact IH|]. rewrite Forall_forall in *. intros z Hz.
    apply (Permutation_in _ (insert_perm x t)) in Hz. destruct Hz as [Hz|Hz].
    + subst z. apply lt_asym. exact E.
    + apply F. exact Hz.
  - constructor; [constructor; assumption|].
    constructor; [exact E|]. rewrite Forall_forall in *. intros z Hz.
    eapply lt_negtrans; [exact E | apply F; exact Hz].
Qed.

Lemma isort_spec : sort_spec lt (isort_by lt).
Proof.
  intro l. unfold isort_by. induction l as [|x l [IHp IHs]]; cbn [fold_right]; [split; constructor|].
  split.
  - eapply perm_trans; [apply insert_perm | apply perm_skip; exact IHp].
  - apply insert_sorted. exact IHs.
Qed.
End Isort.

Lemma snap_lt_asym : forall a b, snap_lt a b = true -> snap_lt b a = false.
Proof. intros a b; rewrite !snap_lt_key; unfold key_lt; cbn [fst snd]; lia. Qed.
Lemma snap_lt_negtrans : forall a b c, snap_lt b a = false -> snap_lt c b = false -> snap_lt c a = false.
Proof. intros a b c; rewrite !snap_lt_key; unfold key_lt; cbn [fst snd]; lia. Qed.

Lemma isort_snap_spec : sort_spec snap_lt isort_snap.
Proof. apply isort_spec; [exact snap_lt_asym | exact snap_lt_negtrans]. Qed.
Lemma isort_tsnap_spec : sort_spec tsnap_lt isort_tsnap.
Proof.
  apply isort_spec.
  - intros a b. rewrite !tsnap_lt_snap. apply snap_lt_asym.
  - intros a b c. rewrite !tsnap_lt_snap. apply snap_lt_negtrans.
Qed.
