(* Lemmas about Model/HexText.v: hexadecimal and JSON text forms of keys,
   hashes, signatures and collective signatures round-trip. *)
From Coq Require Import List ZArith NArith Bool Lia.
Require Import Mixin.Base.Res Mixin.Gen.Consts Mixin.Model.HexText.
Import ListNotations.
Open Scope N_scope.

Definition bytes (l : list N) : Prop := Forall (fun b => b < 256) l.
Definition hex_text (s : list N) : Prop := Forall (fun c => hex_val c <> None) s.
(* ASCII lower-casing of A-F *)
Definition lower (c : N) : N := if (65 <=? c) && (c <=? 70) then c + 32 else c.

Lemma hex_val_char : forall d, d < 16 -> hex_val (hex_char d) = Some d.
Proof.
  intros d Hd. assert (In d (map N.of_nat (seq 0 16))) as Hin.
  { rewrite <- (N2Nat.id d). apply in_map, in_seq. lia. }
  cbn in Hin. repeat (destruct Hin as [<-|Hin]; [reflexivity|]). destruct Hin.
Qed.

Lemma hex_val_sound : forall c h, hex_val c = Some h -> h < 16 /\ hex_char h = lower c.
Proof.
  intros c h H. unfold hex_val in H. unfold lower, hex_char.
  destruct ((48 <=? c) && (c <=? 57)) eqn:E1.
  { inversion H; subst. apply andb_true_iff in E1. destruct E1 as [A B].
    apply N.leb_le in A. apply N.leb_le in B.
    assert (E : (65 <=? c) && (c <=? 70) = false) by (apply andb_false_iff; left; apply N.leb_gt; lia).
    rewrite E. assert (c - 48 <? 10 = true) as -> by (apply N.ltb_lt; lia). split; lia. }
  destruct ((97 <=? c) && (c <=? 102)) eqn:E2.
  { inversion H; subst. apply andb_true_iff in E2. destruct E2 as [A B].
    apply N.leb_le in A. apply N.leb_le in B.
    assert (E : (65 <=? c) && (c <=? 70) = false) by (apply andb_false_iff; right; apply N.leb_gt; lia).
    rewrite E. assert (c - 87 <? 10 = false) as -> by (apply N.ltb_ge; lia). split; lia. }
  destruct ((65 <=? c) && (c <=? 70)) eqn:E3; [|discriminate].
  inversion H; subst. apply andb_true_iff in E3. destruct E3 as [A B].
  apply N.leb_le in A. apply N.leb_le in B.
  assert (c - 55 <? 10 = false) as -> by (apply N.ltb_ge; lia). split; lia.
Qed.

Lemma hex_encode_app : forall a b, hex_encode (a ++ b) = hex_encode a ++ hex_encode b.
Proof. induction a as [|x a IH]; intros; cbn [hex_encode app]; [reflexivity|]. rewrite IH. reflexivity. Qed.

Lemma hex_encode_length : forall bs, length (hex_encode bs) = (2 * length bs)%nat.
Proof. induction bs as [|b bs IH]; cbn [hex_encode length]; lia. Qed.

Lemma hex_decode_encode : forall bs, bytes bs -> hex_decode (hex_encode bs) = Some bs.
Proof.
  intros bs H. induction H as [|b bs Hb _ IH]; [reflexivity|].
  cbn [hex_encode hex_decode].
  rewrite hex_val_char by (apply N.div_lt_upper_bound; lia).
  rewrite hex_val_char by (apply N.mod_lt; lia).
  rewrite IH. pose proof (N.div_mod' b 16). repeat f_equal. lia.
Qed.

Lemma hex_encode_text : forall bs, bytes bs -> hex_text (hex_encode bs).
Proof.
  intros bs H. induction H as [|b bs Hb _ IH]; [constructor|].
  cbn [hex_encode]. constructor; [|constructor; [|exact IH]].
  - rewrite hex_val_char by (apply N.div_lt_upper_bound; lia). discriminate.
  - rewrite hex_val_char by (apply N.mod_lt; lia). discriminate.
Qed.

(* strong induction on pairs *)
Lemma hex_decode_sound : forall s bs, hex_decode s = Some bs ->
  bytes bs /\ hex_encode bs = map lower s /\ length s = (2 * length bs)%nat.
Proof.
  fix IH 1. intros s bs H. destruct s as [|c1 [|c2 s]].
  - inversion H. repeat split. constructor.
  - discriminate.
  - cbn [hex_decode] in H.
    destruct (hex_val c1) as [h|] eqn:E1; [|discriminate].
    destruct (hex_val c2) as [l|] eqn:E2; [|discriminate].
    destruct (hex_decode s) as [bs'|] eqn:E3; [|discriminate].
    inversion H; subst. destruct (IH s bs' E3) as (B & Henc & Hlen).
    apply hex_val_sound in E1. apply hex_val_sound in E2. destruct E1 as [H1 C1]. destruct E2 as [H2 C2].
    repeat split.
    + constructor; [lia|exact B].
    + cbn [hex_encode map].
      replace ((h * 16 + l) / 16) with h.
      2:{ replace (h * 16 + l) with (l + h * 16) by lia. rewrite N.div_add by lia. rewrite N.div_small by lia. lia. }
      replace ((h * 16 + l) mod 16) with l.
      2:{ replace (h * 16 + l) with (l + h * 16) by lia. rewrite N.mod_add by lia. rewrite N.mod_small by lia. lia. }
      rewrite C1, C2, Henc. reflexivity.
    + cbn [length]. lia.
Qed.

(* ---- fixed-size values (key, hash, signature) ---------------------------------- *)

Theorem fixed_print_parse : forall size bs, bytes bs -> length bs = size ->
  fixed_of_string size (fixed_to_string bs) = Ok bs.
Proof.
  intros size bs B L. unfold fixed_of_string, fixed_to_string.
  rewrite hex_decode_encode by exact B. rewrite L, Nat.eqb_refl. reflexivity.
Qed.

Theorem fixed_parse_sound : forall size s v, fixed_of_string size s = Ok v ->
  bytes v /\ length v = size /\ fixed_to_string v = map lower s /\
  fixed_of_string size (fixed_to_string v) = Ok v.
Proof.
  intros size s v H. unfold fixed_of_string in H.
  destruct (hex_decode s) as [bs|] eqn:E; [|discriminate].
  destruct (Nat.eqb (length bs) size) eqn:L; [|discriminate]. inversion H; subst v.
  apply Nat.eqb_eq in L. destruct (hex_decode_sound s bs E) as (B & Henc & _).
  repeat split; try assumption. apply fixed_print_parse; assumption.
Qed.

(* ---- JSON -------------------------------------------------------------------------- *)

Lemma mem_false : forall c l, (forall x, In x l -> x <> c) -> mem c l = false.
Proof.
  intros c l. induction l as [|x l IH]; intros H; [reflexivity|]. cbn [mem].
  assert (x <> c) as Hx by (apply H; left; reflexivity). apply N.eqb_neq in Hx. rewrite Hx. cbn.
  apply IH. intros y Hy. apply H. right. exact Hy.
Qed.

Lemma hex_text_no : forall s c, hex_text s -> hex_val c = None -> mem c s = false.
Proof.
  intros s c Hs Hc. apply mem_false. intros x Hx Heq. subst x.
  unfold hex_text in Hs. rewrite Forall_forall in Hs. apply (Hs c Hx). exact Hc.
Qed.

Lemma json_unquote_quote : forall t, hex_text t -> json_unquote (json_quote t) = Some t.
Proof.
  intros t Ht. unfold json_quote, json_unquote.
  destruct t as [|c t'] eqn:Et.
  - reflexivity.
  - rewrite <- Et in *. clear Et.
    assert (Hrest : exists y r, t ++ [dquote] = y :: r).
    { destruct t; cbn; eauto. }
    destruct Hrest as (y & r & Hrest).
    change (dquote :: t ++ [dquote]) with (dquote :: (t ++ [dquote])).
    rewrite Hrest. rewrite <- Hrest.
    rewrite removelast_last, last_last.
    assert (Hq : (dquote =? dquote) = true) by reflexivity. rewrite !Hq. cbn [negb].
    rewrite (hex_text_no t dquote Ht eq_refl).
    rewrite (hex_text_no t ch_lf Ht eq_refl). reflexivity.
Qed.

Theorem fixed_json_roundtrip : forall size bs, bytes bs -> length bs = size ->
  fixed_of_json size (fixed_to_json bs) = Ok bs.
Proof.
  intros size bs B L. unfold fixed_of_json, fixed_to_json.
  rewrite json_unquote_quote by (apply hex_encode_text; exact B).
  apply fixed_print_parse; assumption.
Qed.

Theorem fixed_json_sound : forall size s v, fixed_of_json size s = Ok v ->
  fixed_of_json size (fixed_to_json v) = Ok v /\ fixed_of_string size (fixed_to_string v) = Ok v.
Proof.
  intros size s v H. unfold fixed_of_json in H. destruct (json_unquote s) as [t|]; [|discriminate].
  destruct (fixed_parse_sound size t v H) as (B & L & _ & P).
  split; [apply fixed_json_roundtrip; assumption|exact P].
Qed.

(* ---- collective signature ------------------------------------------------------------ *)

Lemma be_val_acc_spec : forall l acc, be_val_acc acc l = acc * 256 ^ N.of_nat (length l) + be_val l.
Proof.
  unfold be_val. induction l as [|b l IH]; intros acc; cbn [be_val_acc length].
  - cbn. lia.
  - rewrite (IH (acc * 256 + b)), (IH (0 * 256 + b)).
    replace (N.of_nat (S (length l))) with (N.succ (N.of_nat (length l))) by lia.
    rewrite N.pow_succ_r'. lia.
Qed.

Lemma be_bytes_length : forall n v, length (be_bytes n v) = n.
Proof. induction n; intros; cbn [be_bytes length]; auto. Qed.

Lemma be_bytes_bytes : forall n v, bytes (be_bytes n v).
Proof. induction n as [|n IH]; intros; cbn [be_bytes]; constructor; [apply N.mod_lt; lia|apply IH]. Qed.

Lemma be_val_be_bytes_mod : forall n v, be_val (be_bytes n v) = v mod 256 ^ N.of_nat n.
Proof.
  induction n as [|n IH]; intros v.
  - cbn. rewrite N.mod_1_r. reflexivity.
  - cbn [be_bytes]. unfold be_val. cbn [be_val_acc]. rewrite be_val_acc_spec, be_bytes_length, IH.
    replace (N.of_nat (S n)) with (N.succ (N.of_nat n)) by lia. rewrite N.pow_succ_r'.
    set (p := 256 ^ N.of_nat n). assert (p <> 0) by (apply N.pow_nonzero; lia).
    rewrite (N.mul_comm 256 p). rewrite N.mod_mul_r by lia. lia.
Qed.

Lemma be_val_be_bytes : forall n v, v < 256 ^ N.of_nat n -> be_val (be_bytes n v) = v.
Proof. intros. rewrite be_val_be_bytes_mod. apply N.mod_small. assumption. Qed.

Lemma sizes : sig_size = 64%nat /\ mask_size = 8%nat /\ key_size = 32%nat /\ hash_size = 32%nat.
Proof. repeat split; reflexivity. Qed.

Lemma firstn_exact : forall (l1 l2 : list N) n, length l1 = n -> firstn n (l1 ++ l2) = l1.
Proof.
  induction l1 as [|x l1 IH]; intros l2 n Hn; subst n; cbn [length firstn app]; [reflexivity|].
  f_equal. apply IH. reflexivity.
Qed.

Lemma skipn_exact : forall (l1 l2 : list N) n, length l1 = n -> skipn n (l1 ++ l2) = l2.
Proof.
  induction l1 as [|x l1 IH]; intros l2 n Hn; subst n; cbn [length skipn app]; [reflexivity|].
  apply IH. reflexivity.
Qed.

Theorem cosi_json_roundtrip : forall sg m, bytes sg -> length sg = sig_size -> m < 2 ^ 64 ->
  cosi_of_json (cosi_to_json (sg, m)) = Ok (sg, m).
Proof.
  intros sg m B L Hm. unfold cosi_of_json, cosi_to_json, cosi_to_string. cbn [fst snd].
  rewrite <- hex_encode_app.
  assert (Ball : bytes (sg ++ be_bytes mask_size m)).
  { apply Forall_app. split; [exact B|apply be_bytes_bytes]. }
  rewrite json_unquote_quote by (apply hex_encode_text; exact Ball).
  rewrite hex_decode_encode by exact Ball.
  rewrite app_length, be_bytes_length, L, Nat.eqb_refl.
  rewrite (firstn_exact sg _ sig_size L), (skipn_exact sg _ sig_size L).
  rewrite be_val_be_bytes; [reflexivity|]. exact Hm.
Qed.

Theorem cosi_json_sound : forall s sg m, cosi_of_json s = Ok (sg, m) ->
  bytes sg /\ length sg = sig_size /\ m < 2 ^ 64 /\ cosi_of_json (cosi_to_json (sg, m)) = Ok (sg, m).
Proof.
  intros s sg m H. unfold cosi_of_json in H.
  destruct (json_unquote s) as [t|]; [|discriminate].
  destruct (hex_decode t) as [bs|] eqn:E; [|discriminate].
  destruct (Nat.eqb (length bs) (sig_size + mask_size)) eqn:L; [|discriminate].
  apply Nat.eqb_eq in L.
  assert (Hsg : firstn sig_size bs = sg) by congruence.
  assert (Hm : be_val (skipn sig_size bs) = m) by congruence. clear H.
  destruct (hex_decode_sound t bs E) as (B & _ & _).
  assert (Bsg : bytes sg).
  { subst sg. unfold bytes in *. rewrite <- (firstn_skipn sig_size bs) in B. apply Forall_app in B. tauto. }
  assert (Lsg : length sg = sig_size).
  { subst sg. rewrite firstn_length. rewrite L. apply Nat.min_l. lia. }
  assert (Hmask : m < 2 ^ 64).
  { subst m. assert (Bsk : bytes (skipn sig_size bs)).
    { unfold bytes in *. rewrite <- (firstn_skipn sig_size bs) in B. apply Forall_app in B. tauto. }
    assert (Lsk : length (skipn sig_size bs) = 8%nat).
    { rewrite skipn_length, L. destruct sizes as (-> & -> & _). reflexivity. }
    revert Bsk Lsk. generalize (skipn sig_size bs). intros l Bl Ll.
    assert (G : forall l, bytes l -> be_val l < 256 ^ N.of_nat (length l)).
    { clear. intros l Hl. induction Hl as [|b l Hb _ IH].
      - cbn. lia.
      - unfold be_val in *. cbn [be_val_acc length]. rewrite be_val_acc_spec.
        replace (N.of_nat (S (length l))) with (N.succ (N.of_nat (length l))) by lia.
        rewrite N.pow_succ_r'. unfold bytes in IH. set (p := 256 ^ N.of_nat (length l)) in *.
        fold (be_val l). fold (be_val l) in IH.
        assert ((b + 1) * p <= 256 * p) by (apply N.mul_le_mono_r; lia). lia. }
    specialize (G l Bl). rewrite Ll in G. exact G. }
  repeat split; try assumption. apply cosi_json_roundtrip; assumption.
Qed.
