(* Arithmetic modulo the group order: an opaque congruence relation with
   Proper instances, the Schnorr verification equation, sums, and modular
   inverses for a prime modulus. *)
From Coq Require Import List ZArith NArith Bool Lia Znumtheory Morphisms Setoid Permutation.
Require Import Mixin.Model.Group.
Import ListNotations.
Open Scope Z_scope.

(* sealed: [cg] never unfolds to an equation, so [rewrite] always goes through
   the Proper instances below *)
Definition cg_pack : { R : Z -> Z -> Z -> Prop | forall l a b, R l a b <-> a mod l = b mod l }.
Proof. exists (fun l a b => a mod l = b mod l). intros; reflexivity. Qed.

Definition cg : Z -> Z -> Z -> Prop := proj1_sig cg_pack.

Lemma cg_iff : forall l a b, cg l a b <-> a mod l = b mod l.
Proof. exact (proj2_sig cg_pack). Qed.

#[global] Instance cg_equiv l : Equivalence (cg l).
Proof.
  split; [intros x; apply cg_iff; reflexivity | intros x y H; apply cg_iff; apply cg_iff in H; symmetry; exact H
         | intros x y z H1 H2; apply cg_iff; apply cg_iff in H1; apply cg_iff in H2; rewrite H1; exact H2].
Qed.

#[global] Instance cg_add l : Proper (cg l ==> cg l ==> cg l) Z.add.
Proof. intros a b H c d H'. apply cg_iff. apply cg_iff in H. apply cg_iff in H'. rewrite Zplus_mod, H, H', <- Zplus_mod. reflexivity. Qed.

#[global] Instance cg_sub l : Proper (cg l ==> cg l ==> cg l) Z.sub.
Proof. intros a b H c d H'. apply cg_iff. apply cg_iff in H. apply cg_iff in H'. rewrite Zminus_mod, H, H', <- Zminus_mod. reflexivity. Qed.

#[global] Instance cg_mul l : Proper (cg l ==> cg l ==> cg l) Z.mul.
Proof. intros a b H c d H'. apply cg_iff. apply cg_iff in H. apply cg_iff in H'. rewrite Zmult_mod, H, H', <- Zmult_mod. reflexivity. Qed.

#[global] Instance cg_opp l : Proper (cg l ==> cg l) Z.opp.
Proof.
  intros a b H. change (- a) with (Z.opp a). replace (- a) with (0 - a) by ring.
  replace (- b) with (0 - b) by ring. rewrite H. reflexivity.
Qed.

Lemma cg_mod : forall l a, cg l (a mod l) a.
Proof. intros. apply cg_iff. apply Zmod_mod. Qed.

Lemma cg_eq : forall l a b, a = b -> cg l a b.
Proof. intros; subst; reflexivity. Qed.

Lemma cg_small : forall l a b, 0 <= a < l -> 0 <= b < l -> cg l a b -> a = b.
Proof. intros l a b Ha Hb H. apply cg_iff in H. rewrite !Z.mod_small in H by assumption. exact H. Qed.

Lemma cg_zero_mod : forall l a, cg l a 0 <-> a mod l = 0.
Proof. intros. rewrite cg_iff, Zmod_0_l. reflexivity. Qed.

#[global] Typeclasses Opaque cg.

Ltac cg_ring := apply cg_eq; ring.

(* ---- model operations -------------------------------------------------------- *)

Lemma fadd_cg : forall l a b, cg l (fadd l a b) (a + b).
Proof. intros. unfold fadd. apply cg_mod. Qed.
Lemma fmul_cg : forall l a b, cg l (fmul l a b) (a * b).
Proof. intros. unfold fmul. apply cg_mod. Qed.
Lemma fsub_cg : forall l a b, cg l (fsub l a b) (a - b).
Proof. intros. unfold fsub. apply cg_mod. Qed.

Definition zsum (xs : list Z) : Z := fold_right Z.add 0 xs.

Lemma fsum_cg : forall l xs, cg l (fsum l xs) (zsum xs).
Proof. intros. unfold fsum. apply cg_mod. Qed.

Lemma zsum_cons : forall x xs, zsum (x :: xs) = x + zsum xs.
Proof. reflexivity. Qed.
Lemma zsum_nil : zsum [] = 0.
Proof. reflexivity. Qed.

Lemma zsum_app : forall a b, zsum (a ++ b) = zsum a + zsum b.
Proof.
  induction a as [|x a IH]; intros b; [reflexivity|].
  rewrite <- app_comm_cons, !zsum_cons, IH. ring.
Qed.

Lemma zsum_perm : forall a b, Permutation a b -> zsum a = zsum b.
Proof. induction 1; rewrite ?zsum_cons in *; lia. Qed.

Lemma fsum_range : forall l xs, 0 < l -> 0 <= fsum l xs < l.
Proof. intros. unfold fsum. apply Z.mod_pos_bound. assumption. Qed.

Lemma point_ok_iff : forall l p, point_ok l p = true <-> 0 < p < l.
Proof. intros. unfold point_ok. rewrite andb_true_iff, !Z.ltb_lt. tauto. Qed.

Lemma scalar_ok_iff : forall l s, scalar_ok l s = true <-> 0 <= s < l.
Proof. intros. unfold scalar_ok. rewrite andb_true_iff, Z.leb_le, Z.ltb_lt. tauto. Qed.

(* ---- prime modulus: inverses -------------------------------------------------- *)

Lemma inv_exists : forall l x, prime l -> x mod l <> 0 -> exists w, cg l (x * w) 1.
Proof.
  intros l x Hp Hx.
  assert (Hl : 1 < l) by (destruct Hp; assumption).
  assert (Hnd : ~ (l | x)).
  { intro Hd. apply Hx. apply Zdivide_mod. exact Hd. }
  pose proof (prime_rel_prime l Hp x Hnd) as Hr.
  destruct (rel_prime_bezout _ _ Hr) as [u v Huv].
  exists v. apply cg_iff.
  replace (x * v) with (1 + (- u) * l) by lia.
  rewrite Z_mod_plus_full. reflexivity.
Qed.

Lemma cg_cancel : forall l x a b, prime l -> x mod l <> 0 -> cg l (x * a) (x * b) -> cg l a b.
Proof.
  intros l x a b Hp Hx H.
  destruct (inv_exists l x Hp Hx) as [w Hw].
  assert (E : cg l (w * (x * a)) (w * (x * b))) by (rewrite H; reflexivity).
  replace (w * (x * a)) with ((x * w) * a) in E by ring.
  replace (w * (x * b)) with ((x * w) * b) in E by ring.
  rewrite Hw in E. rewrite !Z.mul_1_l in E. exact E.
Qed.

(* extended Euclid keeps the Bezout identity, whatever the fuel *)
Lemma egcd_bezout : forall fuel a b g u v, egcd fuel a b = (g, u, v) -> u * a + v * b = g.
Proof.
  induction fuel as [|f IH]; intros a b g u v H; cbn [egcd] in H.
  - inversion H; subst. ring.
  - destruct (b =? 0) eqn:Eb.
    + inversion H; subst. ring.
    + destruct (egcd f b (a mod b)) as [[g' u'] v'] eqn:Er.
      inversion H; subst. specialize (IH _ _ _ _ _ Er).
      apply Z.eqb_neq in Eb. pose proof (Z_div_mod_eq_full a b). nia.
Qed.
