(* Every transaction the byte-level decoder model returns (Model/TxCodec.v, unmarshal)
   projects to a transaction satisfying the well-formedness predicate [decodable] that
   C05's panic-freedom theorem assumes (Proofs/Validate.v). *)
From Coq Require Import List ZArith NArith Bool Lia ZifyN ZifyNat ZifyBool.
Require Import Mixin.Base.Res Mixin.Gen.Consts.
Require Mixin.Model.TxCodec Mixin.Proofs.TxCodec Mixin.Proofs.TxCodecTop.
Require Mixin.Model.Validate Mixin.Proofs.Validate.
Require Import Mixin.Model.CodecValidateLink.
Import ListNotations.

Module CP := Mixin.Proofs.TxCodec.
Module CT := Mixin.Proofs.TxCodecTop.
Module VP := Mixin.Proofs.Validate.

Ltac stp H :=
  match type of H with
  | match ?e with Some _ => _ | None => None end = Some _ =>
      let E := fresh "E" in destruct e as [[? ?]|] eqn:E; [cbv iota beta in H | discriminate H]
  | (if ?c then _ else _) = Some _ =>
      let K := fresh "K" in destruct c eqn:K; try discriminate H
  end.

(* ---- numbers ------------------------------------------------------------------------------ *)

Lemma len_blen {A} (l : list A) : V.len l = Z.of_N (C.blen l).
Proof. unfold V.len, C.blen. lia. Qed.

Lemma log2_size p : (Z.log2 (Z.pos p) + 1 = Z.pos (Pos.size p))%Z.
Proof. destruct p; cbn [Z.log2 Pos.size]; lia. Qed.

Lemma int_bytes_of_N v : V.int_bytes (Z.of_N v) = Z.of_N (C.int_size v).
Proof.
  unfold V.int_bytes, C.int_size. destruct v as [|p]; [reflexivity|].
  change (Z.of_N (N.pos p) =? 0)%Z with false. cbv iota.
  cbn [N.size Z.of_N Z.abs]. pose proof (log2_size p) as L.
  rewrite N2Z.inj_div, N2Z.inj_add. cbn [Z.of_N].
  replace (Z.log2 (Z.pos p) + 8)%Z with (Z.pos (Pos.size p) + 7)%Z by lia. reflexivity.
Qed.

Lemma le_int_blen {A} (l : list A) : (C.blen l <= 65535)%N -> V.le_int (V.len l) = true.
Proof. intros H. unfold V.le_int, V.enc_int_max, Consts.ValMaximumEncodingInt. rewrite len_blen. lia. Qed.

Lemma amount_ok_of_N v : C.ok_integer v = true -> VP.amount_ok (Z.of_N v) = true.
Proof.
  unfold C.ok_integer, VP.amount_ok, V.le_int, V.enc_int_max, Consts.ValMaximumEncodingInt.
  rewrite CP.max_int_val, int_bytes_of_N. intros H. lia.
Qed.

Lemma ok_len_blen x : C.ok_len x = true -> (C.blen x <= 65535)%N.
Proof. unfold C.ok_len. rewrite CP.max_int_val. lia. Qed.

(* ---- what unmarshal establishes -------------------------------------------------------------- *)

Lemma unmarshal_inv b t : C.unmarshal b = Ok t ->
  (C.blen b <= C.tx_max_size)%N /\ C.dec_tx b = Some t /\
  C.t_version t = C.tx_version /\ C.ok_tx t = true /\ b = C.ser_tx t.
Proof.
  intros H. pose proof (CT.unmarshal_canonical _ _ H) as E.
  unfold C.unmarshal in H.
  destruct (C.tx_max_size <? C.blen b)%N eqn:L; [discriminate H|].
  destruct (C.dec_tx b) as [t'|] eqn:D; [|discriminate H].
  assert (t' = t) as ->.
  { destruct (C.enc_tx t') as [c| |]; try discriminate H. destruct (C.bytes_eqb c b); [|discriminate H].
    inversion H. reflexivity. }
  unfold C.enc_tx in E.
  destruct ((C.t_version t =? C.tx_version)%N && C.ok_tx t) eqn:G; [|discriminate E].
  apply andb_prop in G. destruct G as [G1 G2]. inversion E as [E'].
  apply N.ltb_ge in L. apply N.eqb_eq in G1. subst b.
  split; [exact L|]. split; [reflexivity|]. split; [exact G1|]. split; [exact G2|reflexivity].
Qed.

Lemma par_list_all {A} (p : C.bytes -> option (A * C.bytes)) (P : A -> Prop) :
  (forall b x r, p b = Some (x, r) -> P x) ->
  forall n b xs r, C.par_list p n b = Some (xs, r) -> Forall P xs /\ length xs = n.
Proof.
  intros Hp. induction n as [|n IH]; intros b xs r H; cbn [C.par_list] in H.
  - inversion H. split; [constructor|reflexivity].
  - stp H. stp H. inversion H; subst. destruct (IH _ _ _ E0) as [F L].
    split; [constructor; [eapply Hp; eassumption|exact F]|cbn [length]; lia].
Qed.

Lemma par_output_keys lim b o r : C.par_output lim b = Some (o, r) -> (C.blen (C.o_keys o) <= lim)%N.
Proof.
  intros H. unfold C.par_output in H. repeat stp H.
  inversion H; subst. cbn [C.o_keys].
  match goal with E : C.par_list C.rd_h32 _ _ = Some _ |- _ =>
    destruct (par_list_all C.rd_h32 (fun _ => True) (fun _ _ _ _ => I) _ _ _ _ E) as [_ L] end.
  unfold C.blen. lia.
Qed.

Lemma par_auth_maps b a r : C.par_auth b = Some (a, r) ->
  match a with C.SigMaps ms => (C.blen ms <= C.slice_limit)%N | C.Aggregate _ _ => True end.
Proof.
  intros H. unfold C.par_auth in H. stp H. stp H.
  - stp H. stp H. stp H. inversion H; subst. exact I.
  - stp H.
    + stp H. inversion H; subst.
      match goal with E : C.par_list C.par_sigs _ _ = Some _ |- _ =>
        destruct (par_list_all C.par_sigs (fun _ => True) (fun _ _ _ _ => I) _ _ _ _ E) as [_ L] end.
      unfold C.blen. lia.
    + inversion H; subst. unfold C.blen. cbn [length]. rewrite CP.slice_limit_val. lia.
Qed.

Lemma dec_tx_counts b t : C.dec_tx b = Some t ->
  Forall (fun o => (C.blen (C.o_keys o) <= C.slice_limit)%N) (C.t_outputs t) /\
  (C.blen (C.t_refs t) <= C.slice_limit)%N /\
  match C.t_auth t with C.SigMaps ms => (C.blen ms <= C.slice_limit)%N | C.Aggregate _ _ => True end.
Proof.
  intros H. unfold C.dec_tx, C.dec_tx_lim in H.
  stp H. stp H. stp H. stp H. stp H. stp H. stp H. stp H. stp H. stp H. stp H. stp H. stp H. stp H. stp H. stp H.
  match type of H with match ?bb with [] => _ | _ :: _ => _ end = _ => destruct bb; [|discriminate H] end.
  inversion H; subst. cbn [C.t_outputs C.t_refs C.t_auth].
  repeat split.
  - match goal with E : C.par_list (C.par_output _) _ _ = Some _ |- _ =>
      exact (proj1 (par_list_all _ _ (fun b x r => par_output_keys _ b x r) _ _ _ _ E)) end.
  - match goal with E : C.par_list C.rd_h32 _ _ = Some _ |- _ =>
      destruct (par_list_all C.rd_h32 (fun _ => True) (fun _ _ _ _ => I) _ _ _ _ E) as [_ L] end.
    unfold C.blen. lia.
  - eapply par_auth_maps. eassumption.
Qed.

(* ---- fields -------------------------------------------------------------------------------------- *)

Section Fields.
  Variable trim : list N -> bool.
  Variable sigv : nat -> N -> N -> bool.

  Lemma dec_input_of_ok i : C.ok_input i = true -> VP.dec_input_ok (proj_input trim i) = true.
  Proof.
    unfold C.ok_input, VP.dec_input_ok. rewrite !andb_true_iff. intros (((Hi & Hg) & Hd) & Hm).
    cbn [proj_input V.i_index V.i_genesis V.i_deposit V.i_mint].
    rewrite CP.index_limit_val in Hi. unfold Consts.ValInputIndexLimit.
    apply ok_len_blen in Hg.
    split; [split; [split; [split|]|]|].
    - lia.
    - lia.
    - unfold proj_genesis. destruct (C.i_genesis i) as [|x g] eqn:Eg; [reflexivity|].
      rewrite (le_int_blen (x :: g) Hg), andb_true_r. unfold V.len. cbn [length]. lia.
    - destruct (C.i_deposit i) as [d|]; [|reflexivity]. cbn [option_map C.ok_opt] in *.
      unfold C.ok_deposit in Hd. rewrite !andb_true_iff in Hd. destruct Hd as ((Hk & Ht) & Ha).
      cbn [proj_deposit V.d_key V.d_txlen V.d_amount V.d_index].
      rewrite (le_int_blen _ (ok_len_blen _ Hk)), (le_int_blen _ (ok_len_blen _ Ht)), (amount_ok_of_N _ Ha).
      cbn [andb]. rewrite andb_true_r. unfold V.len. lia.
    - destruct (C.i_mint i) as [m|]; [|reflexivity]. cbn [option_map C.ok_opt] in *.
      unfold C.ok_mint in Hm. rewrite !andb_true_iff in Hm. destruct Hm as (Hk & Ha).
      cbn [proj_mint V.m_group V.m_amount V.m_batch].
      rewrite (le_int_blen _ (ok_len_blen _ Hk)), (amount_ok_of_N _ Ha). cbn [andb]. lia.
  Qed.

  Lemma dec_output_of_ok o :
    C.ok_output o = true -> (C.blen (C.o_keys o) <= C.slice_limit)%N ->
    VP.dec_output_ok (proj_output o) = true.
  Proof.
    unfold C.ok_output, VP.dec_output_ok. rewrite !andb_true_iff. intros (((Ha & _) & Hs) & Hw) Hk.
    cbn [proj_output V.o_amount V.o_keys V.o_script V.o_withdrawal].
    rewrite CP.slice_limit_val in Hk.
    split; [split; [split|]|].
    - exact (amount_ok_of_N _ Ha).
    - rewrite len_blen. unfold V.slice_limit, Consts.ValSliceCountLimit. lia.
    - exact (le_int_blen _ (ok_len_blen _ Hs)).
    - destruct (C.o_withdrawal o) as [w|]; [|reflexivity]. cbn [option_map C.ok_opt] in *.
      unfold C.ok_withdrawal in Hw. rewrite andb_true_iff in Hw. destruct Hw as [H1 H2].
      rewrite (le_int_blen _ (ok_len_blen _ H1)), (le_int_blen _ (ok_len_blen _ H2)).
      unfold V.len. cbn [andb]. rewrite !andb_true_r. lia.
  Qed.

  (* ---- sizes: the model's payload size is the length of the encoder's output ----------------- *)

  Definition zl {A} (l : list A) : Z := Z.of_nat (length l).

  Lemma zl_app {A} (x y : list A) : zl (x ++ y) = (zl x + zl y)%Z.
  Proof. unfold zl. rewrite app_length. lia. Qed.
  Lemma zl_be n v : zl (C.be_enc n v) = Z.of_nat n.
  Proof. unfold zl. rewrite CP.be_enc_length. reflexivity. Qed.
  Lemma zl_bytes x : zl (C.ser_bytes x) = (2 + V.len x)%Z.
  Proof. unfold C.ser_bytes, C.ser_u16. rewrite zl_app, zl_be. unfold zl, V.len. lia. Qed.
  Lemma zl_integer v : zl (C.ser_integer v) = (2 + V.int_bytes (Z.of_N v))%Z.
  Proof. unfold C.ser_integer, C.ser_u16. rewrite zl_app, !zl_be, int_bytes_of_N. lia. Qed.
  Lemma zl_magic : zl C.magic = 2%Z. Proof. reflexivity. Qed.
  Lemma zl_null : zl C.null = 2%Z. Proof. reflexivity. Qed.

  Lemma zl_input i : zl (C.ser_input i) = V.input_size (proj_input trim i).
  Proof.
    unfold C.ser_input, V.input_size, C.ser_h32, C.ser_u16.
    rewrite !zl_app, !zl_be, zl_bytes.
    cbn [proj_input V.i_genesis V.i_deposit V.i_mint].
    assert (G : V.len (C.i_genesis i) = V.opt_len (proj_genesis (C.i_genesis i))).
    { unfold proj_genesis. destruct (C.i_genesis i); reflexivity. }
    rewrite G.
    assert (D : zl (C.ser_opt C.ser_deposit (C.i_deposit i)) =
                (2 + match option_map (proj_deposit trim) (C.i_deposit i) with None => 0 | Some d => V.deposit_size d end)%Z).
    { destruct (C.i_deposit i) as [d|]; cbn [C.ser_opt option_map]; [|rewrite zl_null; lia].
      rewrite zl_app, zl_magic. unfold C.ser_deposit, V.deposit_size, C.ser_h32, C.ser_u64.
      rewrite !zl_app, !zl_be, !zl_bytes, zl_integer. cbn [proj_deposit V.d_key V.d_txlen V.d_amount]. lia. }
    assert (M : zl (C.ser_opt C.ser_mint (C.i_mint i)) =
                (2 + match option_map proj_mint (C.i_mint i) with None => 0 | Some m => V.mint_size m end)%Z).
    { destruct (C.i_mint i) as [m|]; cbn [C.ser_opt option_map]; [|rewrite zl_null; lia].
      rewrite zl_app, zl_magic. unfold C.ser_mint, V.mint_size, C.ser_u64.
      rewrite !zl_app, !zl_be, !zl_bytes, zl_integer. cbn [proj_mint V.m_group V.m_amount]. lia. }
    rewrite D, M. lia.
  Qed.

  Lemma zl_flat_h32 ks : zl (flat_map C.ser_h32 ks) = (32 * V.len ks)%Z.
  Proof.
    induction ks as [|k ks IH]; [reflexivity|]. cbn [flat_map]. rewrite zl_app, IH. unfold C.ser_h32.
    rewrite zl_be. unfold V.len. cbn [length]. lia.
  Qed.

  Lemma zl_output o : zl (C.ser_output o) = V.output_size (proj_output o).
  Proof.
    unfold C.ser_output, V.output_size, C.ser_h32, C.ser_u16.
    rewrite !zl_app, !zl_be, zl_bytes, zl_integer, zl_flat_h32.
    cbn [proj_output V.o_amount V.o_keys V.o_script V.o_withdrawal].
    assert (W : zl (C.ser_opt C.ser_withdrawal (C.o_withdrawal o)) =
                (2 + match option_map (fun w => (V.len (C.w_address w), V.len (C.w_tag w))) (C.o_withdrawal o)
                     with None => 0 | Some (a, g) => 2 + a + 2 + g end)%Z).
    { destruct (C.o_withdrawal o) as [w|]; cbn [C.ser_opt option_map]; [|rewrite zl_null; lia].
      rewrite zl_app, zl_magic. unfold C.ser_withdrawal. rewrite zl_app, !zl_bytes. lia. }
    rewrite W. change (zl [0%N; C.o_type o]) with 2%Z. lia.
  Qed.

  Lemma zl_flat {A B} (f : A -> list N) (g : A -> B) (sz : B -> Z) (l : list A) :
    (forall a, zl (f a) = sz (g a)) -> zl (flat_map f l) = V.sum_map sz (map g l).
  Proof.
    intros Hf. induction l as [|a l IH]; [reflexivity|].
    cbn [flat_map map]. rewrite zl_app, IH, Hf. reflexivity.
  Qed.

  Lemma zl_auth a : (2 <= zl (C.ser_auth a))%Z.
  Proof.
    destruct a as [ms|sg s]; cbn [C.ser_auth].
    - unfold C.ser_u16. rewrite zl_app, zl_be. unfold zl. lia.
    - unfold C.ser_agg, C.ser_u16. rewrite zl_app, zl_be. unfold zl. lia.
  Qed.

  Lemma payload_size_le t : (V.payload_size (proj trim sigv t) <= zl (C.ser_tx t))%Z.
  Proof.
    unfold C.ser_tx, V.payload_size, C.ser_h32, C.ser_u16, C.ser_u32.
    rewrite !zl_app, !zl_be, zl_magic.
    rewrite (zl_flat C.ser_input (proj_input trim) V.input_size _ zl_input).
    rewrite (zl_flat C.ser_output proj_output V.output_size _ zl_output).
    rewrite zl_flat_h32. cbn [proj V.t_inputs V.t_outputs V.t_refs V.t_extra].
    pose proof (zl_auth (C.t_auth t)) as A. change (zl [0%N; C.t_version t]) with 2%Z.
    unfold zl at 1, V.len. lia.
  Qed.
End Fields.

(* ---- signatures --------------------------------------------------------------------------------- *)

Lemma agg_order_of_increasing s : forall prev,
  C.signers_increasing prev s = true ->
  V.agg_order_ok (match prev with None => (-1)%Z | Some p => Z.of_N p end) (map Z.of_N s) = true.
Proof.
  induction s as [|m s IH]; intros prev H; cbn [C.signers_increasing map V.agg_order_ok] in *; [reflexivity|].
  rewrite !andb_true_iff in H. destruct H as ((H1 & H2) & H3).
  rewrite CP.max_int_val in H2. unfold V.enc_int_max, Consts.ValMaximumEncodingInt.
  assert (X : ((Z.of_N m <=? match prev with None => -1 | Some p => Z.of_N p end)
               || (Z.of_N m >? 65535))%Z = false).
  { destruct prev as [p|]; apply orb_false_iff; split; lia. }
  rewrite X. exact (IH (Some m) H3).
Qed.

Lemma agg_signers_of_validate s : C.validate_signers s = true -> V.agg_signers_ok (map Z.of_N s) = true.
Proof.
  unfold C.validate_signers, V.agg_signers_ok. rewrite !andb_true_iff. intros [H1 H2]. split.
  - rewrite CP.max_int_val in H1. unfold V.enc_int_max, Consts.ValMaximumEncodingInt, V.len, C.blen in *.
    rewrite map_length. lia.
  - exact (agg_order_of_increasing s None H2).
Qed.

Lemma proj_maps_length sigv ms : forall pos, length (proj_maps sigv pos ms) = length ms.
Proof. induction ms as [|m ms IH]; intros pos; cbn [proj_maps length]; [reflexivity|]. rewrite IH. reflexivity. Qed.

(* ---- the link --------------------------------------------------------------------------------------- *)

Theorem unmarshal_decodable trim sigv b t :
  C.unmarshal b = Ok t -> VP.decodable (proj trim sigv t) = true.
Proof.
  intros H. destruct (unmarshal_inv _ _ H) as (Hsz & Hdec & Hv & Hok & Hb).
  destruct (dec_tx_counts _ _ Hdec) as (Hkeys & Hrefs & Hmaps).
  unfold C.ok_tx in Hok. rewrite !andb_true_iff in Hok.
  destruct Hok as ((((((Hil & Hif) & Hol) & Hof) & _) & Hex) & Hau).
  rewrite CP.slice_limit_val in *. rewrite CP.extra_cap_val in Hex.
  unfold VP.decodable. rewrite !andb_true_iff.
  split; [split; [split; [split; [split; [split; [split; [split|]|]|]|]|]|]|].
  - cbn [proj V.t_version]. rewrite Hv. reflexivity.
  - cbn [proj V.t_inputs]. unfold V.len, V.slice_limit, Consts.ValSliceCountLimit. rewrite map_length.
    unfold C.blen in Hil. lia.
  - cbn [proj V.t_inputs]. rewrite forallb_forall in Hif. apply forallb_forall. intros x Hx.
    apply in_map_iff in Hx. destruct Hx as (i & <- & Hi). apply (dec_input_of_ok trim sigv). exact (Hif i Hi).
  - cbn [proj V.t_outputs]. unfold V.len, V.slice_limit, Consts.ValSliceCountLimit. rewrite map_length.
    unfold C.blen in Hol. lia.
  - cbn [proj V.t_outputs]. rewrite forallb_forall in Hof. rewrite Forall_forall in Hkeys.
    apply forallb_forall. intros x Hx. apply in_map_iff in Hx. destruct Hx as (o & <- & Ho).
    apply dec_output_of_ok; [exact (Hof o Ho)|]. rewrite CP.slice_limit_val. exact (Hkeys o Ho).
  - cbn [proj V.t_refs]. rewrite len_blen. unfold V.slice_limit, Consts.ValSliceCountLimit. lia.
  - cbn [proj V.t_extra]. rewrite len_blen. unfold V.extra_capacity, Consts.ValExtraSizeStorageCapacity. lia.
  - pose proof (payload_size_le trim sigv t) as P. subst b.
    assert (Hm : C.tx_max_size = 4194304%N) by reflexivity. rewrite Hm in Hsz.
    unfold Consts.ValTransactionMaximumSize. unfold zl in P. unfold C.blen in Hsz. lia.
  - unfold VP.dec_sigs_ok. cbn [proj V.t_agg V.t_sigs].
    destruct (C.t_auth t) as [ms|sg s].
    + destruct ms as [|m ms]; [reflexivity|].
      rewrite andb_true_iff. unfold V.len, V.slice_limit, Consts.ValSliceCountLimit.
      rewrite proj_maps_length. unfold C.blen in Hmaps. cbn [length] in *. split; lia.
    + cbn [C.ok_auth] in Hau. destruct s as [|x s]; [reflexivity|]. apply agg_signers_of_validate. exact Hau.
Qed.

(* C05 over byte strings: whatever decodes validates without a panic *)
Theorem no_panic_bytes trim sigv b t v f h ts fork :
  C.unmarshal b = Ok t -> VP.ledger_inv v ts ->
  V.validate v f h ts fork (proj trim sigv t) <> Panic.
Proof.
  intros H L. apply VP.no_panic; [exact (unmarshal_decodable trim sigv b t H)|exact L].
Qed.
