(* Lemmas about Model/Work.v (C26: node work is credited exactly once). *)
From Coq Require Import List ZArith NArith Bool Lia ZifyN ZifyNat ZifyBool Permutation.
Require Import Mixin.Base.Res Mixin.Gen.Consts Mixin.Model.Work.
Import ListNotations.
Open Scope Z_scope.

(* ---------- lists ---------- *)

Lemma memN_In : forall x l, memN x l = true <-> In x l.
Proof.
  intros x l. induction l as [|y l IH]; cbn [memN In].
  - split; [discriminate | tauto].
  - rewrite orb_true_iff, IH, N.eqb_eq. tauto.
Qed.

Lemma memN_notIn : forall x l, memN x l = false <-> ~ In x l.
Proof.
  intros x l. rewrite <- memN_In. destruct (memN x l); split; intros H; congruence.
Qed.

Lemma filter_all : forall {A} (f : A -> bool) l,
  (forall x, In x l -> f x = true) -> filter f l = l.
Proof.
  intros A f l. induction l as [|a l IH]; intros H; cbn [filter]; [reflexivity|].
  rewrite (H a) by (left; reflexivity). rewrite IH; [reflexivity|].
  intros x Hx. apply H. right. exact Hx.
Qed.

Lemma filter_none : forall {A} (f : A -> bool) l,
  (forall x, In x l -> f x = false) -> filter f l = [].
Proof.
  intros A f l. induction l as [|a l IH]; intros H; cbn [filter]; [reflexivity|].
  rewrite (H a) by (left; reflexivity). apply IH.
  intros x Hx. apply H. right. exact Hx.
Qed.

Lemma NoDup_filter_ : forall {A} (f : A -> bool) l, NoDup l -> NoDup (filter f l).
Proof.
  intros A f l H. induction H as [|x l Hx Hl IH]; cbn [filter]; [constructor|].
  destruct (f x); [|exact IH]. constructor; [|exact IH].
  rewrite filter_In. tauto.
Qed.

Lemma NoDup_map_pair : forall {A B} (n : A) (l : list B), NoDup l -> NoDup (map (pair n) l).
Proof.
  intros A B n l H. induction H as [|x l Hx Hl IH]; cbn [map]; constructor; [|exact IH].
  rewrite in_map_iff. intros [y [E Hy]]. inversion E; subst. exact (Hx Hy).
Qed.

Lemma NoDup_app_ : forall {A} (l l' : list A),
  NoDup l -> NoDup l' -> (forall x, In x l -> ~ In x l') -> NoDup (l ++ l').
Proof.
  intros A l l' Hl Hl' Hd. induction Hl as [|x l Hx Hl IH]; cbn [app]; [exact Hl'|].
  constructor.
  - rewrite in_app_iff. intros [H|H]; [exact (Hx H)|].
    apply (Hd x); [left; reflexivity | exact H].
  - apply IH. intros y Hy. apply Hd. right. exact Hy.
Qed.

Lemma NoDup_hashes : forall l, NoDup (hashes l) -> NoDup l.
Proof. intros l. unfold hashes. apply NoDup_map_inv. Qed.

(* ---------- arithmetic ---------- *)

Lemma two64_pos : 0 < two64.
Proof. reflexivity. Qed.

Lemma mod_add_l : forall a b, (a mod two64 + b) mod two64 = (a + b) mod two64.
Proof. intros. apply Zplus_mod_idemp_l. Qed.

(* ---------- counting ---------- *)

Lemma leads_nil : forall n d, leads [] n d = 0.
Proof. reflexivity. Qed.

Lemma leads_cons : forall x C n d,
  leads (x :: C) n d =
  (if (fst x =? n)%N && (pair_day x =? d) then 1 else 0) + leads C n d.
Proof.
  intros. unfold leads. cbn [filter].
  destruct ((fst x =? n)%N && (pair_day x =? d)); cbn [length]; lia.
Qed.

Lemma leads_app : forall C D n d, leads (C ++ D) n d = leads C n d + leads D n d.
Proof.
  intros C D n d. induction C as [|x C IH]; cbn [app].
  - rewrite leads_nil. lia.
  - rewrite !leads_cons, IH. lia.
Qed.

Lemma leads_nonneg : forall C n d, 0 <= leads C n d.
Proof. intros. unfold leads. lia. Qed.

Lemma signs_app : forall C D m d, signs (C ++ D) m d = signs C m d + signs D m d.
Proof.
  intros C D m d. induction C as [|x C IH]; cbn [app signs]; [lia|].
  rewrite IH. lia.
Qed.

Lemma leads_perm : forall C D n d, Permutation C D -> leads C n d = leads D n d.
Proof.
  intros C D n d H. induction H as [|x l l' H IH|x y l|l l' l'' H1 IH1 H2 IH2].
  - reflexivity.
  - rewrite !leads_cons, IH. reflexivity.
  - rewrite !leads_cons. lia.
  - congruence.
Qed.

Lemma signs_perm : forall C D m d, Permutation C D -> signs C m d = signs D m d.
Proof.
  intros C D m d H. induction H as [|x l l' H IH|x y l|l l' l'' H1 IH1 H2 IH2].
  - reflexivity.
  - cbn [signs]. rewrite IH. reflexivity.
  - cbn [signs]. lia.
  - congruence.
Qed.

Lemma wm_leader : forall n fresh,
  (forall w, In w fresh -> occ n (s_signers w) = 1) ->
  wm n fresh = Z.of_nat (length fresh).
Proof.
  intros n fresh. induction fresh as [|a fresh IH]; intros H; cbn [wm length]; [reflexivity|].
  rewrite (H a) by (left; reflexivity).
  rewrite IH by (intros w Hw; apply H; right; exact Hw). lia.
Qed.

(* contributions of a batch of snapshots of one proposer, all of day D *)
Lemma leads_batch : forall n fresh D n' d,
  (forall w, In w fresh -> day_of (s_ts w) = D) ->
  leads (map (pair n) fresh) n' d =
  if (n' =? n)%N && (d =? D) then Z.of_nat (length fresh) else 0.
Proof.
  intros n fresh D n' d. induction fresh as [|a fresh IH]; intros H; cbn [map].
  - rewrite leads_nil. destruct ((n' =? n)%N && (d =? D)); reflexivity.
  - rewrite leads_cons, IH by (intros w Hw; apply H; right; exact Hw).
    unfold pair_day. cbn [fst snd length]. rewrite (H a) by (left; reflexivity).
    destruct (n =? n')%N eqn:E1; destruct (D =? d) eqn:E2;
      destruct (n' =? n)%N eqn:E3; destruct (d =? D) eqn:E4; cbn [andb]; lia.
Qed.

Lemma signs_batch : forall n fresh D m d,
  (forall w, In w fresh -> day_of (s_ts w) = D) ->
  signs (map (pair n) fresh) m d =
  if negb (m =? n)%N && (d =? D) then wm m fresh else 0.
Proof.
  intros n fresh D m d. induction fresh as [|a fresh IH]; intros H; cbn [map signs wm].
  - destruct (negb (m =? n)%N && (d =? D)); reflexivity.
  - rewrite IH by (intros w Hw; apply H; right; exact Hw).
    unfold pair_day. cbn [fst snd]. rewrite (H a) by (left; reflexivity).
    destruct (n =? m)%N eqn:E1; destruct (D =? d) eqn:E2;
      destruct (m =? n)%N eqn:E3; destruct (d =? D) eqn:E4; cbn [andb negb]; lia.
Qed.

Lemma occ_nonneg : forall m l, 0 <= occ m l.
Proof. intros m l. induction l as [|x l IH]; cbn [occ]; [lia|]. destruct (x =? m)%N; lia. Qed.

Lemma occ_notin : forall m l, memN m l = false -> occ m l = 0.
Proof.
  intros m l. induction l as [|x l IH]; cbn [occ memN]; [reflexivity|].
  intros H. apply orb_false_iff in H. destruct H as [H1 H2]. rewrite H1, IH by exact H2. reflexivity.
Qed.

Lemma occ_nodup : forall m l, NoDup l -> occ m l = if memN m l then 1 else 0.
Proof.
  intros m l H. induction H as [|x l Hx Hl IH]; cbn [occ memN]; [reflexivity|].
  destruct (x =? m)%N eqn:E; cbn [orb].
  - apply N.eqb_eq in E. subst x. rewrite occ_notin; [reflexivity|].
    apply memN_notIn. exact Hx.
  - rewrite IH. lia.
Qed.

Lemma signs_mem_eq : forall C m d,
  (forall x, In x C -> NoDup (s_signers (snd x))) -> signs C m d = signs_mem C m d.
Proof.
  intros C m d. unfold signs_mem. induction C as [|x C IH]; intros H; cbn [signs filter]; [reflexivity|].
  rewrite IH by (intros y Hy; apply H; right; exact Hy).
  rewrite (occ_nodup m (s_signers (snd x))) by (apply H; left; reflexivity).
  destruct (negb (fst x =? m)%N && (pair_day x =? d)); cbn [andb];
    destruct (memN m (s_signers (snd x))); cbn [length]; lia.
Qed.

(* ---------- one call ---------- *)

(* state after crediting a batch *)
Definition credited (st1 : state) (n : N) (fresh : list snap) : state :=
  match fresh with
  | [] => st1
  | w0 :: _ => credit_day st1 n (day_of (s_ts w0)) fresh
  end.

Lemma signers_nonempty : forall n w, occ n (s_signers w) = 1 -> is_nil (s_signers w) = false.
Proof. intros n w H. destruct (s_signers w); [cbn in H; discriminate | reflexivity]. Qed.

Lemma credit_fresh_ok : forall st1 n fresh,
  (forall w, In w fresh -> s_ts w <> 0 /\ s_hash w <> 0%N /\ occ n (s_signers w) = 1) ->
  (forall w w', In w fresh -> In w' fresh -> day_of (s_ts w) = day_of (s_ts w')) ->
  credit_fresh st1 n fresh true = Ok (credited st1 n fresh).
Proof.
  intros st1 n fresh Hwf Hday. destruct fresh as [|w0 fr]; [reflexivity|].
  unfold credit_fresh, credited.
  destruct (Hwf w0 (or_introl eq_refl)) as [_ [_ Hocc0]].
  rewrite (signers_nonempty n w0 Hocc0). cbn [negb orb].
  assert (Hall : forallb (snap_ok (day_of (s_ts w0))) (w0 :: fr) = true).
  { apply forallb_forall. intros w Hw. destruct (Hwf w Hw) as [Hts [Hh _]].
    unfold snap_ok. rewrite (Hday w w0 Hw (or_introl eq_refl)).
    rewrite Z.eqb_refl.
    assert (E1 : (s_ts w =? 0) = false) by lia.
    assert (E2 : (s_hash w =? 0)%N = false) by lia.
    rewrite E1, E2. reflexivity. }
  cbv zeta. rewrite Hall. cbn [negb].
  rewrite (wm_leader n (w0 :: fr)) by (intros w Hw; apply (Hwf w Hw)).
  rewrite Z.eqb_refl. reflexivity.
Qed.

Lemma credited_cp : forall st1 n fresh, cp (credited st1 n fresh) = cp st1.
Proof. intros. destruct fresh; reflexivity. Qed.

Lemma credited_lead : forall st1 n fresh a n' d,
  (forall w, In w fresh -> occ n (s_signers w) = 1) ->
  (forall w w', In w fresh -> In w' fresh -> day_of (s_ts w) = day_of (s_ts w')) ->
  lead st1 n' d = a mod two64 ->
  lead (credited st1 n fresh) n' d = (a + leads (map (pair n) fresh) n' d) mod two64.
Proof.
  intros st1 n fresh a n' d Hocc Hday Ha. destruct fresh as [|w0 fr].
  - cbn [credited map]. rewrite leads_nil, Z.add_0_r. exact Ha.
  - rewrite (leads_batch n (w0 :: fr) (day_of (s_ts w0)))
      by (intros w Hw; apply Hday; [exact Hw | left; reflexivity]).
    cbn [credited credit_day lead].
    destruct ((n' =? n)%N && (d =? day_of (s_ts w0))).
    + rewrite Ha, (wm_leader n (w0 :: fr)) by exact Hocc. apply mod_add_l.
    + rewrite Z.add_0_r. exact Ha.
Qed.

Lemma credited_sign : forall st1 n fresh a m d,
  (forall w w', In w fresh -> In w' fresh -> day_of (s_ts w) = day_of (s_ts w')) ->
  sign st1 m d = a mod two64 ->
  sign (credited st1 n fresh) m d = (a + signs (map (pair n) fresh) m d) mod two64.
Proof.
  intros st1 n fresh a m d Hday Ha. destruct fresh as [|w0 fr].
  - cbn [credited map signs]. rewrite Z.add_0_r. exact Ha.
  - rewrite (signs_batch n (w0 :: fr) (day_of (s_ts w0)))
      by (intros w Hw; apply Hday; [exact Hw | left; reflexivity]).
    cbn [credited credit_day sign].
    destruct (negb (m =? n)%N && (d =? day_of (s_ts w0))); cbn [andb].
    + destruct (wm m (w0 :: fr) =? 0) eqn:E; cbn [negb].
      * apply Z.eqb_eq in E. rewrite E, Z.add_0_r. exact Ha.
      * rewrite Ha. apply mod_add_l.
    + rewrite Z.add_0_r. exact Ha.
Qed.

(* which snapshots of a submission are credited: those not in the seen set when
   the round is re-submitted, all of them when the round is new *)
Definition keep (same : bool) (seen : list N) (w : snap) : bool :=
  if same then negb (memN (s_hash w) seen) else true.

Lemma wrw_ok : forall st n r snaps off seen,
  cp st n = (off, seen) -> 0 <= off -> off + 1 < two64 -> off <= r <= off + 1 ->
  (r = off -> forall x, In x seen -> In x (hashes snaps)) ->
  (forall w, In w (filter (keep (r =? off) seen) snaps) ->
     s_ts w <> 0 /\ s_hash w <> 0%N /\ occ n (s_signers w) = 1) ->
  (forall w w', In w (filter (keep (r =? off) seen) snaps) ->
     In w' (filter (keep (r =? off) seen) snaps) -> day_of (s_ts w) = day_of (s_ts w')) ->
  write_round_work st n r snaps true =
  Ok (credited (set_cp st n (r, hashes snaps)) n (filter (keep (r =? off) seen) snaps)).
Proof.
  intros st n r snaps off seen Hcp Hoff Hlt Hr Hcov Hwf Hday.
  unfold write_round_work. rewrite Hcp.
  assert (E1 : (off >? r) = false) by lia. rewrite E1.
  rewrite (Z.mod_small (off + 1) two64) by lia.
  assert (E2 : (r >? off + 1) = false) by lia. rewrite E2. cbv zeta.
  destruct (r =? off) eqn:E.
  - assert (Hc : forallb (fun h => memN h (hashes snaps)) seen = true).
    { apply forallb_forall. intros x Hx. apply memN_In. apply Hcov; [lia | exact Hx]. }
    rewrite Hc. cbn [negb andb].
    apply credit_fresh_ok; assumption.
  - cbn [andb].
    rewrite (filter_all (keep false seen) snaps) in * by reflexivity.
    apply credit_fresh_ok; assumption.
Qed.

Lemma stale_noop : forall st n r ws c,
  fst (cp st n) > r -> write_round_work st n r ws c = Ok st.
Proof.
  intros st n r ws c H. unfold write_round_work.
  destruct (cp st n) as [off seen] eqn:E. cbn [fst] in H.
  assert (Hgt : (off >? r) = true) by lia. rewrite Hgt. reflexivity.
Qed.

Lemma replay_identity : forall st n r seen snaps credit,
  cp st n = (r, seen) -> 0 <= r -> r + 1 < two64 ->
  (forall w, In w snaps -> In (s_hash w) seen) ->
  (forall x, In x seen -> In x (hashes snaps)) ->
  exists st', write_round_work st n r snaps credit = Ok st' /\
    lead st' = lead st /\ sign st' = sign st /\
    (forall m, m <> n -> cp st' m = cp st m) /\
    cp st' n = (r, hashes snaps).
Proof.
  intros st n r seen snaps credit Hcp Hr Hlt Hin Hcov.
  exists (set_cp st n (r, hashes snaps)). split; [|split; [reflexivity|split; [reflexivity|split]]].
  - unfold write_round_work. rewrite Hcp.
    assert (E1 : (r >? r) = false) by lia. rewrite E1.
    rewrite (Z.mod_small (r + 1) two64) by lia.
    assert (E2 : (r >? r + 1) = false) by lia. rewrite E2. cbv zeta.
    rewrite Z.eqb_refl.
    assert (Hc : forallb (fun h => memN h (hashes snaps)) seen = true).
    { apply forallb_forall. intros x Hx. apply memN_In. apply Hcov. exact Hx. }
    rewrite Hc. cbn [negb andb].
    rewrite filter_none; [reflexivity|].
    intros w Hw. apply negb_false_iff. apply memN_In. apply Hin. exact Hw.
  - intros m Hm. cbn [set_cp cp]. assert (E : (m =? n)%N = false) by lia. rewrite E. reflexivity.
  - cbn [set_cp cp]. rewrite N.eqb_refl. reflexivity.
Qed.

(* ---------- the refused shapes ---------- *)

Lemma panic_gap : forall st n r snaps credit off seen,
  cp st n = (off, seen) -> 0 <= off -> off + 1 < two64 -> r > off + 1 ->
  write_round_work st n r snaps credit = Panic.
Proof.
  intros st n r snaps credit off seen Hcp Hoff Hlt Hr.
  unfold write_round_work. rewrite Hcp.
  assert (E1 : (off >? r) = false) by lia. rewrite E1.
  rewrite (Z.mod_small (off + 1) two64) by lia.
  assert (E2 : (r >? off + 1) = true) by lia. rewrite E2. reflexivity.
Qed.

Lemma panic_missing : forall st n r snaps credit seen x,
  cp st n = (r, seen) -> In x seen -> ~ In x (hashes snaps) ->
  write_round_work st n r snaps credit = Panic.
Proof.
  intros st n r snaps credit seen x Hcp Hx Hnot.
  unfold write_round_work. rewrite Hcp.
  assert (E1 : (r >? r) = false) by lia. rewrite E1.
  destruct (r >? (r + 1) mod two64); [reflexivity|]. cbv zeta.
  rewrite Z.eqb_refl.
  destruct (forallb (fun h => memN h (hashes snaps)) seen) eqn:Hc.
  - exfalso. apply Hnot. apply memN_In.
    rewrite forallb_forall in Hc. apply Hc. exact Hx.
  - reflexivity.
Qed.

(* a new round whose first snapshot has signers, credit requested:
   refused if some snapshot fails validation ... *)
Lemma panic_invalid_snapshot : forall st n off seen w0 rest w,
  cp st n = (off, seen) -> 0 <= off -> off + 1 < two64 ->
  s_signers w0 <> [] -> In w (w0 :: rest) ->
  (s_ts w = 0 \/ day_of (s_ts w) <> day_of (s_ts w0) \/ s_hash w = 0%N) ->
  write_round_work st n (off + 1) (w0 :: rest) true = Panic.
Proof.
  intros st n off seen w0 rest w Hcp Hoff Hlt Hsg Hw Hbad.
  unfold write_round_work. rewrite Hcp.
  assert (E1 : (off >? off + 1) = false) by lia. rewrite E1.
  rewrite (Z.mod_small (off + 1) two64) by lia.
  assert (E2 : (off + 1 >? off + 1) = false) by lia. rewrite E2. cbv zeta.
  assert (E3 : (off + 1 =? off) = false) by lia. rewrite E3. cbn [andb].
  unfold credit_fresh.
  assert (E4 : is_nil (s_signers w0) = false) by (destruct (s_signers w0); [congruence | reflexivity]).
  rewrite E4. cbn [negb orb]. cbv zeta.
  destruct (forallb (snap_ok (day_of (s_ts w0))) (w0 :: rest)) eqn:Hall; [|reflexivity].
  exfalso. rewrite forallb_forall in Hall. specialize (Hall w Hw).
  unfold snap_ok in Hall. lia.
Qed.

(* ... or if the proposer's signer entries do not add up to the batch size *)
Lemma panic_leader_count : forall st n off seen w0 rest,
  cp st n = (off, seen) -> 0 <= off -> off + 1 < two64 ->
  s_signers w0 <> [] ->
  wm n (w0 :: rest) <> Z.of_nat (length (w0 :: rest)) ->
  write_round_work st n (off + 1) (w0 :: rest) true = Panic.
Proof.
  intros st n off seen w0 rest Hcp Hoff Hlt Hsg Hwm.
  unfold write_round_work. rewrite Hcp.
  assert (E1 : (off >? off + 1) = false) by lia. rewrite E1.
  rewrite (Z.mod_small (off + 1) two64) by lia.
  assert (E2 : (off + 1 >? off + 1) = false) by lia. rewrite E2. cbv zeta.
  assert (E3 : (off + 1 =? off) = false) by lia. rewrite E3. cbn [andb].
  unfold credit_fresh.
  assert (E4 : is_nil (s_signers w0) = false) by (destruct (s_signers w0); [congruence | reflexivity]).
  rewrite E4. cbn [negb orb]. cbv zeta.
  destruct (forallb (snap_ok (day_of (s_ts w0))) (w0 :: rest)); [|reflexivity]. cbn [negb].
  assert (E5 : (wm n (w0 :: rest) =? Z.of_nat (length (w0 :: rest))) = false) by lia.
  rewrite E5. reflexivity.
Qed.

(* ---------- histories ---------- *)

Lemma run_all_app : forall h1 h2 st,
  run_all st (h1 ++ h2) = bind (run_all st h1) (fun st' => run_all st' h2).
Proof.
  intros h1. induction h1 as [|s h1 IH]; intros h2 st; cbn [app run_all bind]; [reflexivity|].
  destruct (apply_sub st s) as [st'| |]; cbn [bind]; [apply IH | reflexivity | reflexivity].
Qed.

Lemma run_all_run : forall h st st', run_all st h = Ok st' -> run st h = st'.
Proof.
  intros h. induction h as [|s h IH]; intros st st' H; cbn [run_all] in H.
  - inversion H. reflexivity.
  - unfold run. cbn [fold_left]. unfold submit at 2.
    destruct (apply_sub st s) as [st1| |]; cbn [bind] in H; try discriminate.
    apply IH. exact H.
Qed.

Lemma cur_snoc : forall n h s, cur n (h ++ [s]) = cur_step n (cur n h) s.
Proof. intros. unfold cur. rewrite fold_left_app. reflexivity. Qed.

Lemma all_pairs_snoc : forall h s, all_pairs (h ++ [s]) = all_pairs h ++ pairs_of s.
Proof. intros. unfold all_pairs. rewrite flat_map_app. cbn [flat_map]. rewrite app_nil_r. reflexivity. Qed.

Lemma in_all_pairs : forall n w h,
  In (n, w) (all_pairs h) <-> exists p, In p h /\ u_node p = n /\ In w (u_snaps p).
Proof.
  intros n w h. unfold all_pairs. rewrite in_flat_map. split.
  - intros [p [Hp Hin]]. exists p. unfold pairs_of in Hin. rewrite in_map_iff in Hin.
    destruct Hin as [w' [E Hw]]. inversion E; subst. auto.
  - intros [p [Hp [Hn Hw]]]. exists p. split; [exact Hp|].
    unfold pairs_of. rewrite in_map_iff. exists w. subst n. auto.
Qed.

Lemma in_pairs_of : forall x s, In x (pairs_of s) <-> exists w, x = (u_node s, w) /\ In w (u_snaps s).
Proof.
  intros x s. unfold pairs_of. rewrite in_map_iff. split; intros [w [E Hw]]; exists w; split; auto.
Qed.

(* the current submission after a valid next step / after a stale replay *)
Lemma cur_snoc_next : forall n h s,
  u_round s >= cur_round (u_node s) h ->
  cur n (h ++ [s]) = if (u_node s =? n)%N then Some s else cur n h.
Proof.
  intros n h s H. rewrite cur_snoc. unfold cur_step.
  destruct (u_node s =? n)%N eqn:E; cbn [andb]; [|reflexivity].
  apply N.eqb_eq in E. subst n. unfold cur_round in H.
  assert (E2 : (u_round s <? round_of (cur (u_node s) h)) = false) by lia.
  rewrite E2. reflexivity.
Qed.

Lemma cur_snoc_stale : forall n h s,
  u_round s < cur_round (u_node s) h -> cur n (h ++ [s]) = cur n h.
Proof.
  intros n h s H. rewrite cur_snoc. unfold cur_step.
  destruct (u_node s =? n)%N eqn:E; cbn [andb]; [|reflexivity].
  apply N.eqb_eq in E. subst n. unfold cur_round in H.
  assert (E2 : (u_round s <? round_of (cur (u_node s) h)) = true) by lia.
  rewrite E2. reflexivity.
Qed.

Lemma follows_ge : forall h s, follows h s -> u_round s >= cur_round (u_node s) h.
Proof. intros h s [[H _]|H]; lia. Qed.

(* facts about valid histories that do not mention the store *)
Definition hist_inv (h : list sub) : Prop :=
  (forall n c, cur n h = Some c -> In c h /\ u_node c = n) /\
  (forall n, 0 <= cur_round n h < two64 - 1) /\
  (forall n p, In p h -> u_node p = n ->
     u_round p <= cur_round n h /\
     (u_round p = cur_round n h -> incl (u_snaps p) (cur_snaps n h))).

Lemma valid_hist_inv : forall h, valid h -> hist_inv h.
Proof.
  intros h H. induction H as [|h s Hv IH Hwf Hfol Hcons|h s Hv IH Hst].
  - split; [|split].
    + intros n c Hc. discriminate.
    + intros n. unfold cur_round, cur. cbn. split; [lia | reflexivity].
    + intros n p [].
  - destruct IH as [I1 [I2 I3]]. pose proof (follows_ge h s Hfol) as Hge.
    destruct Hwf as [Hr _].
    split; [|split].
    + intros n c Hc. rewrite (cur_snoc_next n h s Hge) in Hc.
      destruct (u_node s =? n)%N eqn:E.
      * inversion Hc; subst c. split; [apply in_or_app; right; left; reflexivity | lia].
      * destruct (I1 n c Hc) as [Hin Hn]. split; [apply in_or_app; left; exact Hin | exact Hn].
    + intros n. unfold cur_round. rewrite (cur_snoc_next n h s Hge).
      destruct (u_node s =? n)%N; [cbn [round_of]; exact Hr | apply I2].
    + intros n p Hp Hn. unfold cur_round, cur_snaps. rewrite (cur_snoc_next n h s Hge).
      apply in_app_or in Hp. destruct (u_node s =? n)%N eqn:E.
      * apply N.eqb_eq in E. cbn [round_of snaps_of].
        destruct Hp as [Hp|[Hp|[]]].
        -- destruct (I3 n p Hp Hn) as [Hle Hincl]. rewrite <- E in Hle, Hincl.
           split; [lia|]. intros Heq.
           destruct Hfol as [[Hsame Hsup]|Hnext]; [|lia].
           apply (incl_tran (m := cur_snaps (u_node s) h)); [apply Hincl; lia | exact Hsup].
        -- subst p. split; [lia | intros _; apply incl_refl].
      * destruct Hp as [Hp|[Hp|[]]]; [apply I3; assumption|].
        subst p. lia.
  - destruct IH as [I1 [I2 I3]]. destruct Hst as [Hlt _].
    split; [|split].
    + intros n c Hc. rewrite (cur_snoc_stale n h s Hlt) in Hc.
      destruct (I1 n c Hc) as [Hin Hn]. split; [apply in_or_app; left; exact Hin | exact Hn].
    + intros n. unfold cur_round. rewrite (cur_snoc_stale n h s Hlt). apply I2.
    + intros n p Hp Hn. unfold cur_round, cur_snaps. rewrite (cur_snoc_stale n h s Hlt).
      apply in_app_or in Hp. destruct Hp as [Hp|[Hp|[]]]; [apply I3; assumption|].
      subst p. subst n. fold (cur_round (u_node s) h). split; [lia | intros Heq; lia].
Qed.

(* the crediting decision of the store coincides with "not submitted before" *)
Lemma keep_true_new : forall h s w,
  hist_inv h -> follows h s -> hash_consistent h s -> In w (u_snaps s) ->
  keep (u_round s =? cur_round (u_node s) h) (hashes (cur_snaps (u_node s) h)) w = true ->
  ~ In (u_node s, w) (all_pairs h).
Proof.
  intros h s w [I1 [I2 I3]] Hfol Hcons Hw Hk Hin. unfold keep in Hk.
  apply in_all_pairs in Hin. destruct Hin as [p [Hp [Hn Hwp]]].
  destruct (Hcons p w w Hp Hwp Hw eq_refl) as [_ [_ Hrd]].
  destruct (I3 (u_node s) p Hp Hn) as [Hle Hincl].
  destruct (u_round s =? cur_round (u_node s) h) eqn:E.
  - rewrite negb_true_iff, memN_notIn in Hk. apply Hk.
    unfold hashes. apply in_map. apply Hincl; [lia | exact Hwp].
  - destruct Hfol as [[Hsame _]|Hnext]; lia.
Qed.

Lemma keep_false_old : forall h s w,
  hist_inv h -> hash_consistent h s -> In w (u_snaps s) ->
  keep (u_round s =? cur_round (u_node s) h) (hashes (cur_snaps (u_node s) h)) w = false ->
  In (u_node s, w) (all_pairs h).
Proof.
  intros h s w [I1 [I2 I3]] Hcons Hw Hk. unfold keep in Hk.
  destruct (u_round s =? cur_round (u_node s) h); [|discriminate].
  rewrite negb_false_iff, memN_In in Hk.
  unfold hashes in Hk. rewrite in_map_iff in Hk. destruct Hk as [w2 [Hh Hw2]].
  unfold cur_snaps in Hw2. destruct (cur (u_node s) h) as [c|] eqn:Ec; [|destruct Hw2].
  cbn [snaps_of] in Hw2. destruct (I1 _ _ Ec) as [Hc Hcn].
  destruct (Hcons c w2 w Hc Hw2 Hw Hh) as [Heq _]. subst w2.
  apply in_all_pairs. exists c. auto.
Qed.

Definition cp_of (n : N) (h : list sub) : Z * list N :=
  (cur_round n h, hashes (cur_snaps n h)).

Definition state_inv (h : list sub) (st : state) (C : list (N * snap)) : Prop :=
  enumerates C h /\
  (forall n, cp st n = cp_of n h) /\
  (forall n d, lead st n d = leads C n d mod two64) /\
  (forall m d, sign st m d = signs C m d mod two64).

Lemma main_inv : forall h, valid h ->
  exists st C, run_all empty_state h = Ok st /\ state_inv h st C.
Proof.
  intros h H. induction H as [|h s Hv IH Hwf Hfol Hcons|h s Hv IH Hst].
  - exists empty_state, []. split; [reflexivity|]. split; [|split; [|split]].
    + split; [constructor | intros x; split; intros []].
    + intros n. reflexivity.
    + intros n d. reflexivity.
    + intros m d. reflexivity.
  - destruct IH as [st [C [Hrun [[Hnd Hen] [Hcp [Hld Hsg]]]]]].
    pose proof (valid_hist_inv h Hv) as Hinv.
    pose proof Hinv as [I1 [I2 I3]].
    pose proof (follows_ge h s Hfol) as Hge.
    destruct Hwf as [Hr [Hcr [Hnodup [Hsn Hday]]]].
    set (fresh := filter (keep (u_round s =? cur_round (u_node s) h)
                               (hashes (cur_snaps (u_node s) h))) (u_snaps s)).
    assert (Hfresh_in : forall w, In w fresh -> In w (u_snaps s)).
    { intros w Hw. unfold fresh in Hw. apply filter_In in Hw. tauto. }
    assert (Hstep : apply_sub st s =
                    Ok (credited (set_cp st (u_node s) (u_round s, hashes (u_snaps s))) (u_node s) fresh)).
    { unfold apply_sub. rewrite Hcr. unfold fresh.
      apply (wrw_ok st (u_node s) (u_round s) (u_snaps s)
                    (cur_round (u_node s) h) (hashes (cur_snaps (u_node s) h))).
      - apply Hcp.
      - apply I2.
      - pose proof (I2 (u_node s)). lia.
      - destruct Hfol as [[Hsame _]|Hnext]; lia.
      - intros Heq x Hx. destruct Hfol as [[_ Hsup]|Hnext]; [|lia].
        unfold hashes in *. rewrite in_map_iff in *. destruct Hx as [w [Hh Hw]].
        exists w. split; [exact Hh | apply Hsup; exact Hw].
      - intros w Hw. apply Hsn. apply Hfresh_in. exact Hw.
      - intros w w' Hw Hw'. apply Hday; apply Hfresh_in; assumption. }
    exists (credited (set_cp st (u_node s) (u_round s, hashes (u_snaps s))) (u_node s) fresh),
           (C ++ map (pair (u_node s)) fresh).
    split.
    { rewrite run_all_app, Hrun. cbn [bind run_all]. rewrite Hstep. reflexivity. }
    assert (Hnew : forall w, In w fresh -> ~ In (u_node s, w) (all_pairs h)).
    { intros w Hw. unfold fresh in Hw. apply filter_In in Hw. destruct Hw as [Hw Hk].
      apply (keep_true_new h s w Hinv Hfol Hcons Hw Hk). }
    split; [|split; [|split]].
    + split.
      * apply NoDup_app_; [exact Hnd | |].
        -- apply NoDup_map_pair. unfold fresh. apply NoDup_filter_. apply NoDup_hashes. exact Hnodup.
        -- intros x Hx Hx2. rewrite in_map_iff in Hx2. destruct Hx2 as [w [E Hw]]. subst x.
           apply (Hnew w Hw). apply Hen. exact Hx.
      * intros x. rewrite all_pairs_snoc, !in_app_iff, Hen. split.
        -- intros [Hx|Hx]; [left; exact Hx|]. right.
           rewrite in_map_iff in Hx. destruct Hx as [w [E Hw]]. subst x.
           apply in_pairs_of. exists w. split; [reflexivity | apply Hfresh_in; exact Hw].
        -- intros [Hx|Hx]; [left; exact Hx|].
           apply in_pairs_of in Hx. destruct Hx as [w [E Hw]]. subst x.
           destruct (keep (u_round s =? cur_round (u_node s) h)
                          (hashes (cur_snaps (u_node s) h)) w) eqn:Hk.
           ++ right. apply in_map. unfold fresh. apply filter_In. split; assumption.
           ++ left. apply (keep_false_old h s w Hinv Hcons Hw Hk).
    + intros n'. rewrite credited_cp. cbn [set_cp cp]. unfold cp_of, cur_round, cur_snaps.
      rewrite (cur_snoc_next n' h s Hge).
      rewrite (N.eqb_sym n' (u_node s)). destruct (u_node s =? n')%N; [reflexivity | apply Hcp].
    + intros n' d. rewrite leads_app. apply credited_lead.
      * intros w Hw. apply Hsn. apply Hfresh_in. exact Hw.
      * intros w w' Hw Hw'. apply Hday; apply Hfresh_in; assumption.
      * apply Hld.
    + intros m d. rewrite signs_app. apply credited_sign.
      * intros w w' Hw Hw'. apply Hday; apply Hfresh_in; assumption.
      * apply Hsg.
  - destruct IH as [st [C [Hrun [[Hnd Hen] [Hcp [Hld Hsg]]]]]].
    destruct Hst as [Hlt Hold].
    exists st, C. split.
    { rewrite run_all_app, Hrun. cbn [bind run_all]. unfold apply_sub.
      rewrite stale_noop; [reflexivity|]. rewrite Hcp. cbn [cp_of fst]. lia. }
    split; [|split; [|split]]; [|intros n'|exact Hld|exact Hsg].
    + split; [exact Hnd|]. intros x. rewrite all_pairs_snoc, in_app_iff, Hen. split; [tauto|].
      intros [Hx|Hx]; [exact Hx|]. apply in_pairs_of in Hx. destruct Hx as [w [E Hw]]. subst x.
      apply Hold. exact Hw.
    + rewrite Hcp. unfold cp_of, cur_round, cur_snaps. rewrite (cur_snoc_stale n' h s Hlt). reflexivity.
Qed.

(* ---------- the property ---------- *)

Lemma enumerates_perm : forall C D h, enumerates C h -> enumerates D h -> Permutation C D.
Proof.
  intros C D h [N1 I1] [N2 I2]. apply NoDup_Permutation; [exact N1 | exact N2 |].
  intros x. rewrite I1, I2. tauto.
Qed.

Lemma signs_nonneg : forall C m d, 0 <= signs C m d.
Proof.
  intros C m d. induction C as [|x C IH]; cbn [signs]; [lia|].
  pose proof (occ_nonneg m (s_signers (snd x))).
  destruct (negb (fst x =? m)%N && (pair_day x =? d)); lia.
Qed.

Lemma exactly_once : forall h, valid h ->
  exists st, run_all empty_state h = Ok st /\
    forall C, enumerates C h ->
      (forall n d, lead st n d = leads C n d mod two64) /\
      (forall m d, sign st m d = signs C m d mod two64).
Proof.
  intros h Hv. destruct (main_inv h Hv) as [st [C0 [Hrun [Hen0 [_ [Hld Hsg]]]]]].
  exists st. split; [exact Hrun|]. intros C Hen.
  pose proof (enumerates_perm C0 C h Hen0 Hen) as Hp. split.
  - intros n d. rewrite Hld, (leads_perm C0 C n d Hp). reflexivity.
  - intros m d. rewrite Hsg, (signs_perm C0 C m d Hp). reflexivity.
Qed.

Lemma exactly_once_nowrap : forall h, valid h ->
  exists st, run_all empty_state h = Ok st /\ run empty_state h = st /\
    forall C, enumerates C h ->
      (forall n d, leads C n d < two64 -> lead st n d = leads C n d) /\
      (forall m d, signs C m d < two64 -> sign st m d = signs C m d) /\
      (forall m d, (forall x, In x C -> NoDup (s_signers (snd x))) ->
                   signs C m d < two64 -> sign st m d = signs_mem C m d).
Proof.
  intros h Hv. destruct (exactly_once h Hv) as [st [Hrun Hall]].
  exists st. split; [exact Hrun|]. split; [apply run_all_run; exact Hrun|].
  intros C Hen. destruct (Hall C Hen) as [Hld Hsg]. split; [|split].
  - intros n d Hlt. rewrite Hld. apply Z.mod_small. pose proof (leads_nonneg C n d). lia.
  - intros m d Hlt. rewrite Hsg. apply Z.mod_small. pose proof (signs_nonneg C m d). lia.
  - intros m d Hnd Hlt. rewrite Hsg, <- (signs_mem_eq C m d Hnd).
    apply Z.mod_small. pose proof (signs_nonneg C m d). lia.
Qed.

Lemma enumeration_exists : forall h, valid h -> exists C, enumerates C h.
Proof.
  intros h Hv. destruct (main_inv h Hv) as [st [C [_ [Hen _]]]]. exists C. exact Hen.
Qed.

Lemma offset_tracks : forall h, valid h ->
  exists st, run_all empty_state h = Ok st /\ forall n, read_work_offset st n = cur_round n h.
Proof.
  intros h Hv. destruct (main_inv h Hv) as [st [C [Hrun [_ [Hcp _]]]]].
  exists st. split; [exact Hrun|]. intros n. unfold read_work_offset. rewrite Hcp. reflexivity.
Qed.
