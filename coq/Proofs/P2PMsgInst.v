(* The peer message parser of Model/P2PMsg.v with its opaque payload decoders
   instantiated by the byte-level decoders of Model/TxCodec.v
   (common.UnmarshalVersionedTransaction) and Model/SnapCodec.v
   (common.UnmarshalVersionedSnapshot), which other properties (C06, C07) prove
   total.  Read-only use of those developments.  The curve point check stays a
   parameter: it is a total boolean function. *)
From Coq Require Import List ZArith NArith Bool Lia ZifyN ZifyNat ZifyBool.
Require Import Mixin.Base.Res Mixin.Gen.Consts Mixin.Model.P2PMsg Mixin.Proofs.P2PMsg.
Require Mixin.Model.TxCodec Mixin.Model.SnapCodec Mixin.Proofs.TxCodec Mixin.Proofs.TxCodecTop Mixin.Proofs.SnapCodec.
Import ListNotations.
Open Scope Z_scope.

Module TxM := Mixin.Model.TxCodec.
Module SnM := Mixin.Model.SnapCodec.
Module TxP := Mixin.Proofs.TxCodec.
Module TxT := Mixin.Proofs.TxCodecTop.
Module SnP := Mixin.Proofs.SnapCodec.

(* what parseNetworkMessage keeps of common.UnmarshalVersionedSnapshot: snap.Snapshot *)
Definition snap_body_c (b : bytes) : option SnM.snapshot :=
  match SnM.unmarshal_snapshot b with
  | Ok (s, _) => Some s
  | _ => None
  end.
Definition snap_signed_c (s : SnM.snapshot) : bool := SnM.is_some (SnM.s_sig s).

(* common.UnmarshalVersionedTransaction *)
Definition tx_body_c (b : bytes) : option TxM.tx :=
  match TxM.unmarshal b with
  | Ok t => Some t
  | _ => None
  end.

Definition cmsg := msg SnM.snapshot TxM.tx.

Definition parse_msg_concrete (check_key : bytes -> bool) (v : N) (b : bytes) : res (N * cmsg) :=
  parse_msg SnM.snapshot TxM.tx snap_body_c snap_signed_c tx_body_c check_key v b.

(* The version-header check and the size cap that Model/P2PMsg.v writes in front
   of the opaque decoders are the ones the concrete decoders start with: the
   composition is exactly UnmarshalVersionedSnapshot / UnmarshalVersionedTransaction. *)
Lemma snap_dec_concrete : forall b, snap_dec SnM.snapshot snap_body_c b = snap_body_c b.
Proof.
  intros b. unfold snap_dec, snap_body_c, SnM.unmarshal_snapshot, SnM.check_snap_version.
  destruct b as [|x0 [|x1 [|x2 [|x3 r]]]]; try reflexivity.
  replace (len (x0 :: x1 :: x2 :: x3 :: r) <? 4) with false
    by (rewrite !len_cons; pose proof (len_nonneg r); lia).
  cbn [firstn SnM.take]. change Consts.P2P_SnapshotEncodingHeader with [119; 119; 0; 2]%N.
  change (SnM.magic ++ [0%N; SnM.snap_version]) with [119; 119; 0; 2]%N.
  cbn [bytes_eqb SnM.list_eqb].
  destruct (x0 =? 119)%N; [|reflexivity]. destruct (x1 =? 119)%N; [|reflexivity].
  destruct (x2 =? 0)%N; [|reflexivity]. destruct (x3 =? 2)%N; reflexivity.
Qed.

Lemma tx_dec_concrete : forall b, tx_dec TxM.tx tx_body_c b = tx_body_c b.
Proof.
  intros b. unfold tx_dec, tx_body_c, TxM.unmarshal, TxM.blen. change tx_max_size with 4194304.
  change TxM.tx_max_size with 4194304%N. unfold len.
  destruct (4194304 <? Z.of_nat (length b)) eqn:E.
  - replace (4194304 <? N.of_nat (length b))%N with true by lia. reflexivity.
  - reflexivity.
Qed.

(* ---- totality with no hypothesis on the payload decoders -------------------------------- *)

Definition is_bytes (b : bytes) : Prop := Forall (fun x => (x < 256)%N) b.

Lemma Forall_firstn' : forall {A} (P : A -> Prop) n l, Forall P l -> Forall P (firstn n l).
Proof. induction n; intros [|x l] H; cbn; try constructor; inversion H; subst; auto. Qed.
Lemma Forall_skipn' : forall {A} (P : A -> Prop) n l, Forall P l -> Forall P (skipn n l).
Proof. induction n; intros [|x l] H; cbn; try assumption; inversion H; subst; auto. Qed.

Lemma is_bytes_slice : forall b lo hi r, is_bytes b -> slice b lo hi = Ok r -> is_bytes r.
Proof.
  intros b lo hi r Hb H. unfold slice in H. destruct (_ && _); [|discriminate].
  apply Ok_inj in H; subst r. unfold is_bytes in *. apply Forall_firstn', Forall_skipn'. exact Hb.
Qed.

Lemma tx_body_c_no_panic : forall b, is_bytes b -> TxM.unmarshal b <> Panic.
Proof. intros b H. apply TxT.unmarshal_no_panic. exact H. Qed.

Lemma snap_body_c_no_panic : forall b, SnM.unmarshal_snapshot b <> Panic.
Proof. exact SnP.unmarshal_no_panic. Qed.

(* The parser does not panic, and neither does any call of the two payload
   decoders on any slice of the message: turning their outcome into an option
   above hides no panic. *)
Theorem total_concrete : forall check_key v b, len b < 4294967296 -> is_bytes b ->
  parse_msg_concrete check_key v b <> Panic /\
  (forall lo hi r, slice b lo hi = Ok r ->
     TxM.unmarshal r <> Panic /\ SnM.unmarshal_snapshot r <> Panic).
Proof.
  intros check_key v b Hl Hb. split.
  - apply parse_msg_no_panic. exact Hl.
  - intros lo hi r Hs. split; [|apply snap_body_c_no_panic].
    apply tx_body_c_no_panic. eapply is_bytes_slice; eassumption.
Qed.

(* ---- round trips through the concrete codecs ------------------------------------------------ *)

Lemma tx_dec_ser : forall t, TxT.wf_tx t -> tx_dec TxM.tx tx_body_c (TxM.ser_tx t) = Some t.
Proof.
  intros t H. rewrite tx_dec_concrete. unfold tx_body_c.
  destruct (TxT.unmarshal_roundtrip t H) as (_ & ->). reflexivity.
Qed.

Theorem roundtrip_transaction_concrete : forall check_key v t, TxT.wf_tx t ->
  parse_msg_concrete check_key v (build_transaction (TxM.ser_tx t)) = Ok (v, MTransaction t).
Proof. intros. apply roundtrip_transaction. now apply tx_dec_ser. Qed.

Lemma tx_dec_ser_all : forall ts, Forall TxT.wf_tx ts ->
  Forall2 (fun b t => tx_dec TxM.tx tx_body_c b = Some t) (map TxM.ser_tx ts) ts.
Proof. induction 1 as [|t ts Hw _ IH]; cbn [map]; constructor; [now apply tx_dec_ser|exact IH]. Qed.

Theorem roundtrip_transactions_concrete : forall check_key v ts typ m,
  typ = ty Consts.P2P_TypeTransactionBundle \/ typ = ty Consts.P2P_TypeFinalizedTransactionBundle ->
  Forall TxT.wf_tx ts ->
  build_transactions (map TxM.ser_tx ts) typ = Ok m ->
  parse_msg_concrete check_key v m = Ok (v, MBundle (Z.of_N typ) ts).
Proof.
  intros check_key v ts typ m Ht Hall Hb. eapply roundtrip_transactions; [exact Ht| |exact Hb].
  now apply tx_dec_ser_all.
Qed.

Theorem roundtrip_finalization_concrete : forall check_key v s topo, SnP.wf s -> (topo < SnP.u64_bound)%N ->
  exists e, SnM.versioned_marshal s topo = Ok e /\
    parse_msg_concrete check_key v (build_finalization e) = Ok (v, MFinalization (SnP.canon s)).
Proof.
  intros check_key v s topo Hw Ht. destruct (SnP.roundtrip s topo Hw Ht) as (e & _ & Hm & Hu & _).
  exists (e ++ SnM.u64 topo). split; [exact Hm|]. apply roundtrip_finalization.
  rewrite snap_dec_concrete. unfold snap_body_c. rewrite Hu. reflexivity.
Qed.
