(* Comparison of a model state with a dump of the real store (the projection
   VerifC03Dump returns), order-insensitive, and the replay of a whole history
   with the dump observed after every call.  Used by Run/C03.v and Run/C04.v.
   Executable definitions only. *)
From Coq Require Import List ZArith NArith Bool.
Require Import Mixin.Base.Res Mixin.Model.GhostKeys Mixin.Model.Locks.
Import ListNotations.
Open Scope N_scope.

Record dump := {
  o_utxo : list (slot * N);
  o_dep : list (dep * N);
  o_mint : list (N * (N * Z));
  o_body : list N;
  o_final : list N;
  o_ghost : list (N * N)
}.

Definition opt_eqb {A} (eqb : A -> A -> bool) (a b : option A) : bool :=
  match a, b with
  | Some x, Some y => eqb x y
  | None, None => true
  | _, _ => false
  end.

Definition mint_val_eqb (a b : N * Z) : bool := (fst a =? fst b) && (snd a =? snd b)%Z.

Definition same_state (s : state) (d : dump) : bool :=
  (length (s_utxo s) =? length (o_utxo d))%nat
  && forallb (fun r => opt_eqb N.eqb (utxo_lock s (fst r)) (Some (snd r))) (o_utxo d)
  && (length (s_dep s) =? length (o_dep d))%nat
  && forallb (fun r => opt_eqb N.eqb (dep_lock s (fst r)) (Some (snd r))) (o_dep d)
  && (length (s_mint s) =? length (o_mint d))%nat
  && forallb (fun r => opt_eqb mint_val_eqb (mint_lock s (fst r)) (Some (snd r))) (o_mint d)
  && (length (s_body s) =? length (o_body d))%nat
  && forallb (has_body s) (o_body d)
  && (length (s_final s) =? length (o_final d))%nat
  && forallb (is_final s) (o_final d)
  && (length (s_ghost s) =? length (o_ghost d))%nat
  && forallb (fun r => opt_eqb N.eqb (ghost_lock (s_ghost s) (fst r)) (Some (snd r))) (o_ghost d).

(* what one call changed, as the harness saw it by comparing the dumps taken
   before and after it: records written (new value), bodies removed, and the
   sizes of the six families after the call *)
Record delta := {
  x_utxo : list (slot * N);
  x_dep : list (dep * N);
  x_mint : list (N * (N * Z));
  x_body : list N;
  x_body_del : list N;
  x_final : list N;
  x_ghost : list (N * N);
  x_sizes : list N
}.

Definition sizes_of (s : state) : list N :=
  map N.of_nat [length (s_utxo s); length (s_dep s); length (s_mint s);
                length (s_body s); length (s_final s); length (s_ghost s)].

Definition delta_ok (s : state) (d : delta) : bool :=
  forallb (fun r => opt_eqb N.eqb (utxo_lock s (fst r)) (Some (snd r))) (x_utxo d)
  && forallb (fun r => opt_eqb N.eqb (dep_lock s (fst r)) (Some (snd r))) (x_dep d)
  && forallb (fun r => opt_eqb mint_val_eqb (mint_lock s (fst r)) (Some (snd r))) (x_mint d)
  && forallb (has_body s) (x_body d)
  && forallb (fun t => negb (has_body s t)) (x_body_del d)
  && forallb (is_final s) (x_final d)
  && forallb (fun r => opt_eqb N.eqb (ghost_lock (s_ghost s) (fst r)) (Some (snd r))) (x_ghost d)
  && bytes_eqb (sizes_of s) (x_sizes d).

(* one call: the result class the implementation returned and what it changed;
   Some final state when every call agrees *)
Fixpoint replay_st (s : state) (os : list op) (obs : list (res unit * delta)) : option state :=
  match os, obs with
  | [], [] => Some s
  | o :: os', (r, d) :: obs' =>
      let (s', r') := step s o in
      if res_class_eqb r r' && delta_ok s' d then replay_st s' os' obs' else None
  | _, _ => None
  end.

(* result classes only (the calls of a concurrent batch, in the sequential
   order the harness found) *)
Fixpoint replay_classes (s : state) (os : list op) (rs : list (res unit)) : option state :=
  match os, rs with
  | [], [] => Some s
  | o :: os', r :: rs' =>
      let (s', r') := step s o in
      if res_class_eqb r r' then replay_classes s' os' rs' else None
  | _, _ => None
  end.

(* 32-byte values (hashes, keys, chain ids) reach the cases renamed: the
   harness numbers the distinct values of a history 1, 2, 3, ... (the model uses
   them only through equality tests), keeps the zero hash as 0 and writes the
   k-th hard-coded exception hash as [exc k]. *)
Definition exc (k : N) : N := nth (N.to_nat k) ghost_exceptions 0.

(* sequential history: per-call observations, then the full dump at the end *)
Definition check_hist (ops : list op) (obs : list (res unit * delta)) (final : dump) : bool :=
  match replay_st init ops obs with
  | Some s => same_state s final
  | None => false
  end.

(* a sequential prefix, then a batch issued from several goroutines: the batch
   is given in a sequential order under which the model must return the
   observed classes and end in the observed final dump *)
Definition check_conc (pre : list op) (obs : list (res unit * delta))
                      (batch : list op) (rs : list (res unit)) (final : dump) : bool :=
  match replay_st init pre obs with
  | Some s =>
      match replay_classes s batch rs with
      | Some s' => same_state s' final
      | None => false
      end
  | None => false
  end.
