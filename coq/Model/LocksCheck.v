(* Comparison of a model state with a dump of the real store (the projection
   VerifC03Dump returns), order-insensitive, and the replay of a whole history
   with the dump observed after every call.  Used by Run/C03.v and Run/C04.v.
   Executable definitions only. *)
From Coq Require Import List ZArith NArith Bool.
Require Import Mixin.Base.Res Mixin.Model.GhostKeys Mixin.Model.Locks.
Import ListNotations.
Open Scope N_scope.

Record dump := {
  o_utxo : list (slot * N);
  o_dep : list (dep * N);
  o_mint : list (N * (N * Z));
  o_body : list N;
  o_final : list N;
  o_ghost : list (N * N)
}.

Definition opt_eqb {A} (eqb : A -> A -> bool) (a b : option A) : bool :=
  match a, b with
  | Some x, Some y => eqb x y
  | None, None => true
  | _, _ => false
  end.

Definition mint_val_eqb (a b : N * Z) : bool := (fst a =? fst b) && (snd a =? snd b)%Z.

Definition same_state (s : state) (d : dump) : bool :=
  (length (s_utxo s) =? length (o_utxo d))%nat
  && forallb (fun r => opt_eqb N.eqb (utxo_lock s (fst r)) (Some (snd r))) (o_utxo d)
  && (length (s_dep s) =? length (o_dep d))%nat
  && forallb (fun r => opt_eqb N.eqb (dep_lock s (fst r)) (Some (snd r))) (o_dep d)
  && (length (s_mint s) =? length (o_mint d))%nat
  && forallb (fun r => opt_eqb mint_val_eqb (mint_lock s (fst r)) (Some (snd r))) (o_mint d)
  && (length (s_body s) =? length (o_body d))%nat
  && forallb (has_body s) (o_body d)
  && (length (s_final s) =? length (o_final d))%nat
  && forallb (is_final s) (o_final d)
  && (length (s_ghost s) =? length (o_ghost d))%nat
  && forallb (fun r => opt_eqb N.eqb (ghost_lock (s_ghost s) (fst r)) (Some (snd r))) (o_ghost d).

(* one call: the result class the implementation returned and the dump taken
   right after it; Some final state when every call agrees *)
Fixpoint replay_st (s : state) (os : list op) (obs : list (res unit * dump)) : option state :=
  match os, obs with
  | [], [] => Some s
  | o :: os', (r, d) :: obs' =>
      let (s', r') := step s o in
      if res_class_eqb r r' && same_state s' d then replay_st s' os' obs' else None
  | _, _ => None
  end.

Definition replay (s : state) (os : list op) (obs : list (res unit * dump)) : bool :=
  match replay_st s os obs with Some _ => true | None => false end.

(* result classes only (the calls of a concurrent batch, in the sequential
   order the harness found) *)
Fixpoint replay_classes (s : state) (os : list op) (rs : list (res unit)) : option state :=
  match os, rs with
  | [], [] => Some s
  | o :: os', r :: rs' =>
      let (s', r') := step s o in
      if res_class_eqb r r' then replay_classes s' os' rs' else None
  | _, _ => None
  end.

(* hashes and keys of a history are listed once and referred to by position *)
Definition lookup (tbl : list N) (i : nat) : N := nth i tbl 0.

Definition check_hist (tbl : list N) (ops : (nat -> N) -> list op)
                      (obs : (nat -> N) -> list (res unit * dump)) : bool :=
  replay init (ops (lookup tbl)) (obs (lookup tbl)).

(* a sequential prefix, then a batch issued from several goroutines: the batch
   is given in a sequential order under which the model must return the
   observed classes and end in the observed final dump *)
Definition check_conc (tbl : list N) (pre : (nat -> N) -> list op)
                      (obs : (nat -> N) -> list (res unit * dump))
                      (batch : (nat -> N) -> list op) (rs : list (res unit))
                      (final : (nat -> N) -> dump) : bool :=
  match replay_st init (pre (lookup tbl)) (obs (lookup tbl)) with
  | Some s =>
      match replay_classes s (batch (lookup tbl)) rs with
      | Some s' => same_state s' (final (lookup tbl))
      | None => false
      end
  | None => false
  end.
