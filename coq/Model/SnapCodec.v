(* Byte-level executable model of the snapshot codec:
     common/decoding.go  DecodeSnapshotWithTopo, ReadRoundReferences,
                         ReadCosiSignature, Read, ReadInt/ReadUint16/ReadUint64
     common/encoding.go  encodeSnapshotPayload, EncodeSnapshotWithTopo,
                         EncodeSnapshotPayload, EncodeRoundReferences,
                         EncodeCosiSignature
     common/snapshot.go  UnmarshalVersionedSnapshot, VersionedMarshal,
                         versionedPayload, PayloadHash
     common/version.go   checkSnapVersion
   Byte strings are [list N]; 32-byte hashes and 64-byte signatures are their
   big-endian value as one [N] (bytes.Compare on equal-length byte strings is
   the numeric order of these values).  Every Go panic is the outcome [Panic].
   Executable; no proofs in this file. *)
From Coq Require Import List ZArith NArith Bool.
Require Import Mixin.Base.Res Mixin.Gen.Consts.
Import ListNotations.
Local Open Scope N_scope. (* Local: the driver reads mismatch indices printed as n%N *)

(* ---- constants (regenerated from the repository on every run) ----------- *)

Definition magic : list N := Consts.SnapMagic.
Definition snap_version : N := Z.to_N Consts.SnapVersionCommonEncoding.
Definition tx_max : N := Z.to_N Consts.SnapTransactionsMaximum.
Definition max_int : N := Z.to_N Consts.SnapMaximumEncodingInt.
Definition hash_len : nat := Z.to_nat Consts.SnapHashSize.
Definition sig_len : nat := Z.to_nat Consts.SnapSignatureSize.

(* ---- the snapshot (Hash is derived, not encoded) ------------------------- *)

Record snapshot := MkSnap {
  s_version : N;                 (* uint8 *)
  s_node : N;                    (* crypto.Hash *)
  s_round : N;                   (* uint64 *)
  s_refs : option (N * N);       (* *RoundLink: Self, External *)
  s_txs : list N;                (* []crypto.Hash *)
  s_ts : N;                      (* uint64 *)
  s_sig : option (N * N)         (* *CosiSignature: Mask, Signature *)
}.

Definition is_some {A} (o : option A) : bool :=
  match o with Some _ => true | None => false end.

(* ---- big-endian fixed-width integers --------------------------------------- *)

Fixpoint be_val_acc (acc : N) (l : list N) : N :=
  match l with
  | [] => acc
  | x :: l' => be_val_acc (acc * 256 + x) l'
  end.
Definition be_val (l : list N) : N := be_val_acc 0 l.

Fixpoint be_bytes_acc (n : nat) (v : N) (acc : list N) : list N :=
  match n with
  | O => acc
  | S k => be_bytes_acc k (v / 256) (v mod 256 :: acc)
  end.
(* the n low-order bytes of v, most significant first *)
Definition be_bytes (n : nat) (v : N) : list N := be_bytes_acc n v [].

Definition u16 (v : N) : list N := be_bytes 2 v.
Definition u64 (v : N) : list N := be_bytes 8 v.

Definition byte_ok (x : N) : bool := x <? 256.
Definition bytes_ok (l : list N) : bool := forallb byte_ok l.

Fixpoint list_eqb (a b : list N) : bool :=
  match a, b with
  | [], [] => true
  | x :: a', y :: b' => (x =? y) && list_eqb a' b'
  | _, _ => false
  end.

(* ---- bytes.Reader ---------------------------------------------------------
   Decoder.Read(b) with len(b) = n > 0 on a reader holding l:
     l empty        -> io.EOF                          (REof)
     0 < |l| < n    -> "data short", a non-EOF error   (RBad)
     otherwise      -> the next n bytes                (ROk bytes rest)      *)

Inductive rd (A : Type) : Type :=
| ROk (a : A) (rest : list N)
| REof
| RBad.
Arguments ROk {A} a rest.
Arguments REof {A}.
Arguments RBad {A}.

Definition rd_bind {A B} (r : rd A) (f : A -> list N -> rd B) : rd B :=
  match r with
  | ROk a rest => f a rest
  | REof => REof
  | RBad => RBad
  end.

Fixpoint take (n : nat) (l : list N) : option (list N * list N) :=
  match n with
  | O => Some ([], l)
  | S k =>
      match l with
      | [] => None
      | x :: l' =>
          match take k l' with
          | Some (a, r) => Some (x :: a, r)
          | None => None
          end
      end
  end.

Definition rd_read (n : nat) (l : list N) : rd (list N) :=
  match l with
  | [] => REof
  | _ => match take n l with
         | Some (a, r) => ROk a r
         | None => RBad
         end
  end.

Definition rd_uint (n : nat) (l : list N) : rd N :=
  rd_bind (rd_read n l) (fun a r => ROk (be_val a) r).

Definition rd_u64 (l : list N) : rd N := rd_uint 8 l.
Definition rd_hash (l : list N) : rd N := rd_uint hash_len l.

(* ReadUint16 / ReadInt *)
Definition rd_u16 (l : list N) : rd N :=
  rd_bind (rd_read 2 l) (fun a r =>
    let d := be_val a in if max_int <? d then RBad else ROk d r).

(* ReadRoundReferences *)
Definition rd_refs (l : list N) : rd (option (N * N)) :=
  rd_bind (rd_u16 l) (fun rc r =>
    if rc =? 0 then ROk None r
    else if negb (rc =? 2) then RBad
    else rd_bind (rd_hash r) (fun a r1 =>
         rd_bind (rd_hash r1) (fun b r2 => ROk (Some (a, b)) r2))).

Fixpoint rd_hashes (k : nat) (l : list N) : rd (list N) :=
  match k with
  | O => ROk [] l
  | S k' => rd_bind (rd_hash l) (fun h r =>
            rd_bind (rd_hashes k' r) (fun hs r' => ROk (h :: hs) r'))
  end.

(* ReadCosiSignature *)
Definition rd_cosi (l : list N) : rd (option (N * N)) :=
  rd_bind (rd_u64 l) (fun m r =>
    if m =? 0 then ROk None r
    else rd_bind (rd_uint sig_len r) (fun sg r' => ROk (Some (m, sg)) r')).

Fixpoint strictly_inc (l : list N) : bool :=
  match l with
  | x :: l' =>
      match l' with
      | y :: _ => (x <? y) && strictly_inc l'
      | [] => true
      end
  | [] => true
  end.

(* checkSnapVersion *)
Definition check_snap_version (b : list N) : N :=
  match take 4 b with
  | None => 0
  | Some (h, _) => if list_eqb h (magic ++ [0; snap_version]) then snap_version else 0
  end.

Definition rd_then {A B} (r : rd A) (f : A -> list N -> res B) : res B :=
  match r with
  | ROk a rest => f a rest
  | _ => Err
  end.

(* DecodeSnapshotWithTopo *)
Definition dec_snapshot_with_topo (b : list N) : res (snapshot * N) :=
  rd_then (rd_read 4 b) (fun h r0 =>
  let version := check_snap_version h in
  if version <? snap_version then Err else
  rd_then (rd_hash r0) (fun node r1 =>
  rd_then (rd_u64 r1) (fun rn r2 =>
  rd_then (rd_refs r2) (fun rl r3 =>
  rd_then (rd_u16 r3) (fun tl r4 =>
  if (tl <? 1) || (tx_max <? tl) then Err else
  rd_then (rd_hashes (N.to_nat tl) r4) (fun txs r5 =>
  if negb (strictly_inc txs) then Err else
  if (if rn =? 0 then negb (Nat.eqb (length txs) 1) || is_some rl else negb (is_some rl))
  then Err else
  rd_then (rd_u64 r5) (fun ts r6 =>
  rd_then (rd_cosi r6) (fun cs r7 =>
  let s := MkSnap version node rn rl txs ts cs in
  match rd_u64 r7 with
  | REof => Ok (s, 0)                 (* err == io.EOF && num == 0 *)
  | RBad => Err                       (* short read of the topology suffix *)
  | ROk num r8 =>
      match r8 with                   (* ReadByte must report io.EOF *)
      | [] => Ok (s, num)
      | _ :: _ => Err
      end
  end)))))))).

(* UnmarshalVersionedSnapshot *)
Definition unmarshal_snapshot (b : list N) : res (snapshot * N) :=
  if check_snap_version b <? snap_version then Err else dec_snapshot_with_topo b.

(* ---- encoder ------------------------------------------------------------------ *)

(* slices.SortFunc by bytes.Compare: the sorted permutation (unique, the order is total) *)
Fixpoint insert (x : N) (l : list N) : list N :=
  match l with
  | [] => [x]
  | y :: l' => if x <=? y then x :: l else y :: insert x l'
  end.
Fixpoint isort (l : list N) : list N :=
  match l with
  | [] => []
  | x :: l' => insert x (isort l')
  end.

Fixpoint has_adj_dup (l : list N) : bool :=
  match l with
  | x :: l' =>
      match l' with
      | y :: _ => (x =? y) || has_adj_dup l'
      | [] => false
      end
  | [] => false
  end.

(* EncodeRoundReferences *)
Definition enc_refs (r : option (N * N)) : list N :=
  match r with
  | None => u16 0
  | Some (a, b) => u16 2 ++ be_bytes hash_len a ++ be_bytes hash_len b
  end.

(* EncodeCosiSignature *)
Definition enc_cosi (c : option (N * N)) : res (list N) :=
  match c with
  | None => Ok (u64 0)
  | Some (m, sg) => if m =? 0 then Panic else Ok (u64 m ++ be_bytes sig_len sg)
  end.

Definition enc_hashes (l : list N) : list N := flat_map (be_bytes hash_len) l.

(* everything encodeSnapshotPayload writes before the signature *)
Definition enc_body (s : snapshot) : list N :=
  magic ++ [0; s_version s] ++ be_bytes hash_len (s_node s) ++ u64 (s_round s)
  ++ enc_refs (s_refs s) ++ u16 (N.of_nat (length (s_txs s)))
  ++ enc_hashes (isort (s_txs s)) ++ u64 (s_ts s).

(* encodeSnapshotPayload (WriteInt cannot panic: the count is at most
   SnapshotTransactionsMaximum <= MaximumEncodingInt) *)
Definition enc_snapshot_payload (s : snapshot) (with_sig : bool) : res (list N) :=
  let n := N.of_nat (length (s_txs s)) in
  if s_version s <? snap_version then Panic
  else if (s_round s =? 0) && negb (n =? 1) then Panic
  else if (n <? 1) || (tx_max <? n) then Panic
  else if negb with_sig && is_some (s_sig s) then Panic
  else if has_adj_dup (isort (s_txs s)) then Panic
  else do c <- enc_cosi (s_sig s); Ok (enc_body s ++ c).

(* EncodeSnapshotWithTopo *)
Definition enc_snapshot_with_topo (s : snapshot) (topo : N) : res (list N) :=
  do e <- enc_snapshot_payload s true; Ok (e ++ u64 topo).

(* SnapshotWithTopologicalOrder.VersionedMarshal *)
Definition versioned_marshal (s : snapshot) (topo : N) : res (list N) :=
  if s_version s =? snap_version then enc_snapshot_with_topo s topo else Panic.

Definition strip_sig (s : snapshot) : snapshot :=
  MkSnap (s_version s) (s_node s) (s_round s) (s_refs s) (s_txs s) (s_ts s) None.

(* Snapshot.versionedPayload *)
Definition versioned_payload (s : snapshot) : res (list N) :=
  if s_version s =? snap_version then enc_snapshot_payload (strip_sig s) false else Panic.

(* Snapshot.PayloadHash; the hash function is a parameter.  The method is
   promoted to SnapshotWithTopologicalOrder: the topology is not an input. *)
Definition payload_hash (H : list N -> N) (s : snapshot) : res N :=
  rmap H (versioned_payload s).
Definition payload_hash_topo (H : list N -> N) (st : snapshot * N) : res N :=
  payload_hash H (fst st).
