(* Compact literals for correspondence cases: a byte string / a big number is
   written by the harness as ONE hexadecimal literal [0x…%huint] (a digit list,
   leading zeros kept), which Coq elaborates several times faster than a list of
   numbers or a binary [N] literal; it is expanded here by computation.
   Used only by Run/C30.v and Run/C32.v. *)
From Coq Require Import List NArith ZArith.
From Coq Require Export Hexadecimal.
Import ListNotations.
Open Scope N_scope.

Fixpoint nibbles (u : Hexadecimal.uint) : list N :=
  match u with
  | Nil => []
  | D0 u' => 0 :: nibbles u' | D1 u' => 1 :: nibbles u' | D2 u' => 2 :: nibbles u'
  | D3 u' => 3 :: nibbles u' | D4 u' => 4 :: nibbles u' | D5 u' => 5 :: nibbles u'
  | D6 u' => 6 :: nibbles u' | D7 u' => 7 :: nibbles u' | D8 u' => 8 :: nibbles u'
  | D9 u' => 9 :: nibbles u' | Da u' => 10 :: nibbles u' | Db u' => 11 :: nibbles u'
  | Dc u' => 12 :: nibbles u' | Dd u' => 13 :: nibbles u' | De u' => 14 :: nibbles u'
  | Df u' => 15 :: nibbles u'
  end.

Fixpoint pair_up (l : list N) : list N :=
  match l with
  | a :: b :: l' => a * 16 + b :: pair_up l'
  | _ => []
  end.

(* bytes of an even-length hexadecimal literal *)
Definition hb (u : Number.uint) : list N :=
  match u with
  | Number.UIntHexadecimal h => pair_up (nibbles h)
  | Number.UIntDecimal _ => []
  end.

(* value of a hexadecimal literal *)
Definition hn (u : Number.uint) : N := N.of_num_uint u.
Definition hz (u : Number.uint) : Z := Z.of_N (hn u).
