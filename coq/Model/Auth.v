(* Model of kernel/node.go: BuildAuthenticationMessage / AuthenticateAs.
   Byte level: a message is a [list N]; 32-byte hashes/keys and the 64-byte
   signature are carried as one big-endian [N].  The hash of the signed prefix
   (BLAKE3), the derivation of a peer id from a spend key (SHA3, hash-derived
   view key, BLAKE3 with the network id) and signature verification are
   Section variables.  The float64 arithmetic of the clock-skew test is
   modelled exactly (round-to-nearest-even to 53 bits).  No proofs here. *)
From Coq Require Import List ZArith NArith Bool.
Require Import Mixin.Base.Res Mixin.Gen.Consts.
Import ListNotations.
Open Scope Z_scope.

(* ---- layout, from the regenerated constants ---------------------------- *)
Definition ts_size : nat := Z.to_nat Consts.AuthTimestampSize.        (* 8 *)
Definition off_rcp : nat := ts_size.                                   (* 8 *)
Definition off_key : nat := (off_rcp + Z.to_nat Consts.AuthHashSize)%nat.   (* 40 *)
Definition off_flag : nat := (off_key + Z.to_nat Consts.AuthKeySize)%nat.   (* 72 *)
Definition off_sig : nat := S off_flag.                                (* 73 *)
Definition msg_len : nat := Z.to_nat Consts.AuthMsgLen.                (* 137 *)

(* ---- bytes --------------------------------------------------------------- *)
Fixpoint be_val_acc (acc : N) (l : list N) : N :=
  match l with
  | [] => acc
  | b :: l' => be_val_acc (acc * 256 + b)%N l'
  end.
(* big-endian value of a byte string *)
Definition be_val (l : list N) : N := be_val_acc 0%N l.

(* Go a[i:j] for i <= j <= len a (the model only uses it inside the checked length) *)
Definition slice (i j : nat) (l : list N) : list N := firstn (j - i) (skipn i l).

Definition well_formed (l : list N) : Prop := Forall (fun b => (b < 256)%N) l.

(* ---- float64 -------------------------------------------------------------- *)
(* float64(x) for an integer x of magnitude below 2^1023: round to nearest,
   ties to even, 53 significant bits.  The result is again an integer. *)
Definition round53_pos (x : Z) : Z :=
  if x <? 2 ^ 53 then x
  else
    let e := Z.log2 x - 52 in
    let q := x / 2 ^ e in
    let r := x mod 2 ^ e in
    let half := 2 ^ (e - 1) in
    if r <? half then q * 2 ^ e
    else if half <? r then (q + 1) * 2 ^ e
    else if Z.even q then q * 2 ^ e else (q + 1) * 2 ^ e.

Definition round53 (x : Z) : Z :=
  if x <? 0 then - round53_pos (- x) else round53_pos x.

(* math.Abs(float64(now) - float64(ts)) > float64(timeout) *)
Definition skew_exceeds (now ts timeout : Z) : bool :=
  round53 timeout <? Z.abs (round53 (round53 now - round53 ts)).

Record token := mk_token {
  t_peer : N;          (* PeerId *)
  t_ts : Z;            (* Timestamp *)
  t_relayer : bool;    (* IsRelayer *)
  t_data : list N      (* Data *)
}.

Section Auth.
  Variable Hmsg : list N -> N.            (* crypto.Blake3Hash of the signed prefix *)
  Variable peer_id : N -> N -> N.         (* network id -> public spend key -> peer id *)
  Variable verify : N -> N -> N -> bool.  (* key.Verify(hash, sig) *)

  (* node.AuthenticateAs(recipientId, msg, timeoutSec) at clock second [now]
     on a node of network [net]. *)
  Definition authenticate (net recipient : N) (msg : list N) (timeout now : Z) : res token :=
    if negb (Nat.eqb (length msg) msg_len) then Err else
    let ts := Z.of_N (be_val (firstn ts_size msg)) in
    if (0 <? timeout) && skew_exceeds now ts timeout then Err else
    let rid := be_val (slice off_rcp off_key msg) in
    if negb (rid =? recipient)%N then Err else
    let key := be_val (slice off_key off_flag msg) in
    let pid := peer_id net key in
    if (pid =? recipient)%N then Err else
    let sg := be_val (slice off_sig msg_len msg) in
    let mh := Hmsg (firstn off_sig msg) in
    if negb (verify key mh sg) then Err else
    Ok (mk_token pid ts (nth off_flag msg 0 =? 1)%N msg).

  (* the unsigned part of BuildAuthenticationMessage: what the signature covers *)
  Definition build_prefix (now : Z) (relayer_id key : list N) (is_relayer : bool) : list N :=
    let ts := Z.to_N (now mod 2 ^ 64) in
    (* 8 big-endian bytes of uint64(now) *)
    let tsb := map (fun i => (ts / 256 ^ (N.of_nat (7 - i)) mod 256)%N) (seq 0 8) in
    tsb ++ relayer_id ++ key ++ [if is_relayer then 1%N else 0%N].
End Auth.
