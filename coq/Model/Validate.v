(* Model of common/validation.go (VersionedTransaction.Validate and everything it
   calls in package common: GetExtraLimit, findStorageOutput, PayloadMarshal's
   refusal conditions, validateReferences, validateInputs, validateUTXO,
   validateOutputs, Script.Validate and the per-type validators of deposit.go,
   mint.go, withdrawal.go, node.go, custodian.go).

   The DataStore is the record [view] of what its reads return.  Signature and
   curve operations are the record [facts] of booleans supplied with the case;
   every Go panic / index / slice / nil dereference reachable in this call
   graph is the explicit outcome [Panic].  Store reads are assumed not to
   return an I/O error.  Executable; no proofs in this file. *)
From Coq Require Import List ZArith NArith Bool.
Require Import Mixin.Base.Res Mixin.Gen.Consts Mixin.Model.Fixed.
Import ListNotations.
Open Scope Z_scope.

(* ---- data ---------------------------------------------------------------- *)

Definition bytes := list N.
Definition len {A} (l : list A) : Z := Z.of_nat (length l).

Record deposit := {
  d_chain : N;            (* DepositData.Chain *)
  d_key : bytes;          (* AssetKey *)
  d_key_trim : bool;      (* strings.TrimSpace(AssetKey) == AssetKey *)
  d_txlen : Z;            (* len(Transaction) *)
  d_tx_trim : bool;       (* strings.TrimSpace(Transaction) == Transaction *)
  d_index : Z;
  d_amount : Z }.

Record mint := { m_group : bytes; m_batch : Z; m_amount : Z }.

Record input := {
  i_hash : N; i_index : Z;
  i_genesis : option Z;           (* None = nil slice, Some n = non-nil of length n *)
  i_deposit : option deposit;
  i_mint : option mint }.

Record output := {
  o_type : Z; o_amount : Z; o_keys : list N; o_mask : N; o_script : bytes;
  o_withdrawal : option (Z * Z) }.  (* lengths of Address and Tag *)

(* one signature map: (key index, does the signature verify under that key of
   the input's UTXO against the payload hash) *)
Definition sigmap := list (Z * bool).

Record tx := {
  t_version : Z; t_asset : N;
  t_inputs : list input; t_outputs : list output;
  t_refs : list N; t_extra : bytes;
  t_agg : option (list Z);            (* AggregatedSignature.Signers, None = nil *)
  t_sigs : option (list sigmap) }.    (* SignaturesMap, None = nil *)

(* a transaction as ReadTransaction returns it: body, what PayloadHash()
   recomputes on it, and whether the snapshot string is non-empty *)
Record stx := { s_tx : tx; s_hash : N; s_final : bool }.

Record utxo := {
  u_type : Z; u_asset : N; u_amount : Z; u_nkeys : Z; u_script : bytes; u_lock : N }.

(* node states: the four strings of common/node.go; anything else = 4 *)
Definition st_pledging : Z := 0.
Definition st_accepted : Z := 1.
Definition st_removed : Z := 2.
Definition st_cancelled : Z := 3.
Record node := { n_signer : N; n_payee : N; n_state : Z; n_tx : N }.

Definition addr := (N * N)%type.   (* public spend, public view *)
Record custodian := { c_addr : addr; c_nodes : list (addr * addr) }.  (* custodian, payee *)

Record view := {
  v_utxo : N -> Z -> option utxo;                 (* ReadUTXOLock *)
  v_tx : N -> option stx;                         (* ReadTransaction *)
  v_deposit_lock : deposit -> N;                  (* ReadDepositLock, 0 = none *)
  v_last_mint : option (Z * Z * N);               (* ReadLastMintDistribution: batch, amount, tx *)
  v_nodes : Z -> list node;                       (* ReadAllNodes(ts, false) *)
  v_custodian : Z -> option custodian;            (* ReadCustodian(ts) *)
  v_asset : N -> option (N * bytes * Z);          (* ReadAssetWithBalance: chain, key, balance *)
  v_ghost_ok : list N -> N -> bool -> bool }.     (* LockGhostKeys = nil *)

Record facts := {
  f_check_key : N -> bool;            (* crypto.Key.CheckKey *)
  f_agg_ok : bool;                    (* crypto.AggregateVerify = nil *)
  f_deposit_sig : bool;               (* custodian key verifies sigs[0][0] *)
  f_claim_sig : bool;                 (* custodian key verifies the claim extra *)
  f_accept_sig : bool;                (* pledge signer key verifies sigs[0][0] *)
  f_cancel_ghost : res bool;          (* the two ViewGhostOutputKey calls: Panic, or equality of the results *)
  f_cancel_sig : bool;
  f_cust_prev_sig : bool;             (* previous custodian approves the update *)
  f_cust_node_sigs : list (bool * bool) }.  (* per node: payee signature, custodian signature *)

(* ---- constants (regenerated from the tree) --------------------------------- *)

Definition ty_script := Consts.ValTransactionTypeScript.
Definition ty_mint := Consts.ValTransactionTypeMint.
Definition ty_deposit := Consts.ValTransactionTypeDeposit.
Definition ty_wsubmit := Consts.ValTransactionTypeWithdrawalSubmit.
Definition ty_wclaim := Consts.ValTransactionTypeWithdrawalClaim.
Definition ty_pledge := Consts.ValTransactionTypeNodePledge.
Definition ty_accept := Consts.ValTransactionTypeNodeAccept.
Definition ty_remove := Consts.ValTransactionTypeNodeRemove.
Definition ty_cancel := Consts.ValTransactionTypeNodeCancel.
Definition ty_cupdate := Consts.ValTransactionTypeCustodianUpdateNodes.
Definition ty_cslash := Consts.ValTransactionTypeCustodianSlashNodes.
Definition ty_unknown := Consts.ValTransactionTypeUnknown.

Definition ot_script := Consts.ValOutputTypeScript.
Definition ot_wsubmit := Consts.ValOutputTypeWithdrawalSubmit.
Definition ot_wclaim := Consts.ValOutputTypeWithdrawalClaim.
Definition ot_pledge := Consts.ValOutputTypeNodePledge.
Definition ot_accept := Consts.ValOutputTypeNodeAccept.
Definition ot_remove := Consts.ValOutputTypeNodeRemove.
Definition ot_cancel := Consts.ValOutputTypeNodeCancel.
Definition ot_cupdate := Consts.ValOutputTypeCustodianUpdateNodes.
Definition ot_cslash := Consts.ValOutputTypeCustodianSlashNodes.

Definition enc_int_max := Consts.ValMaximumEncodingInt.
Definition slice_limit := Consts.ValSliceCountLimit.
Definition xin : N := Consts.ValXINAssetId.

(* ---- small helpers ----------------------------------------------------------- *)

Fixpoint bytes_eqb (a b : bytes) : bool :=
  match a, b with
  | [], [] => true
  | x :: a', y :: b' => (x =? y)%N && bytes_eqb a' b'
  | _, _ => false
  end.

Definition be_N (l : bytes) : N := fold_left (fun acc b => (acc * 256 + b)%N) l 0%N.

(* copy(key[:], extra): the first 32 bytes, zero-padded on the right *)
Definition key_of (e : bytes) : N :=
  let p := firstn 32 e in be_N (p ++ repeat 0%N (32 - length p)).

Definition slice (l : bytes) (a b : nat) : bytes := firstn (b - a) (skipn a l).

Definition addr_eqb (a b : addr) : bool := ((fst a =? fst b) && (snd a =? snd b))%N.

Fixpoint mem_N (x : N) (l : list N) : bool :=
  match l with [] => false | y :: r => (x =? y)%N || mem_N x r end.

(* (d.i.BitLen()+7)/8 *)
Definition int_bytes (x : Z) : Z :=
  if x =? 0 then 0 else (Z.log2 (Z.abs x) + 8) / 8.

(* ---- TransactionType ----------------------------------------------------------- *)

Fixpoint input_type (ins : list input) : option Z :=
  match ins with
  | [] => None
  | i :: r =>
      match i_mint i with
      | Some _ => Some ty_mint
      | None =>
          match i_deposit i with
          | Some _ => Some ty_deposit
          | None => match i_genesis i with
                    | Some _ => Some ty_unknown
                    | None => input_type r
                    end
          end
      end
  end.

Definition kernel_output_type (t : Z) : option Z :=
  if t =? ot_wsubmit then Some ty_wsubmit
  else if t =? ot_wclaim then Some ty_wclaim
  else if t =? ot_pledge then Some ty_pledge
  else if t =? ot_cancel then Some ty_cancel
  else if t =? ot_accept then Some ty_accept
  else if t =? ot_remove then Some ty_remove
  else if t =? ot_cupdate then Some ty_cupdate
  else if t =? ot_cslash then Some ty_cslash
  else None.

Fixpoint output_type (outs : list output) (is_script : bool) : Z :=
  match outs with
  | [] => if is_script then ty_script else ty_unknown
  | o :: r =>
      match kernel_output_type (o_type o) with
      | Some t => t
      | None => output_type r (is_script && (o_type o =? ot_script))
      end
  end.

Definition tx_type (t : tx) : Z :=
  match input_type (t_inputs t) with
  | Some ty => ty
  | None => output_type (t_outputs t) true
  end.

(* ---- GetExtraLimit / findStorageOutput ------------------------------------------ *)

Definition storage_script : bytes := Consts.ValStorageScript.   (* "fffe40" *)

Fixpoint find_storage (outs : list output) (so : option output) : option output :=
  match outs with
  | [] => so
  | o :: r =>
      if negb (len (o_keys o) =? 1) then find_storage r so
      else if negb (bytes_eqb (o_script o) storage_script) then find_storage r so
      else
        let so1 := match so with None => o | Some s => s end in
        let so2 := if o_amount o >? o_amount so1 then o else so1 in
        find_storage r (Some so2)
  end.

Definition extra_general := Consts.ValExtraSizeGeneralLimit.
Definition extra_capacity := Consts.ValExtraSizeStorageCapacity.
Definition extra_step := Consts.ValExtraSizeStorageStep.

Definition get_extra_limit (t : tx) : res Z :=
  if t_version t <? Consts.ValTxVersionHashSignature then Panic
  else if negb (t_asset t =? xin)%N then Ok extra_general
  else match find_storage (t_outputs t) None with
       | None => Ok extra_general
       | Some out =>
           if o_type out =? ot_script then
             do step <- parse Consts.ValExtraStoragePriceStep;
             if o_amount out <? step then Ok extra_general
             else
               do cap <- i_mul step (extra_capacity / extra_step);
               if o_amount out >=? cap then Ok extra_capacity
               else
                 do cells <- i_count (o_amount out) step;
                 let limit := (cells * extra_step) mod two64 in
                 if limit >? extra_capacity then Ok extra_capacity else Ok limit
           else if o_type out =? ot_cupdate then Ok extra_capacity
           else Ok extra_general
       end.

(* ---- PayloadMarshal: size, encoder panics, Debug re-decode --------------------- *)

Definition opt_len (o : option Z) : Z := match o with None => 0 | Some n => n end.

Definition deposit_size (d : deposit) : Z :=
  32 + 2 + len (d_key d) + 2 + d_txlen d + 8 + 2 + int_bytes (d_amount d).
Definition mint_size (m : mint) : Z :=
  2 + len (m_group m) + 8 + 2 + int_bytes (m_amount m).
Definition input_size (i : input) : Z :=
  32 + 2 + 2 + opt_len (i_genesis i)
  + 2 + match i_deposit i with None => 0 | Some d => deposit_size d end
  + 2 + match i_mint i with None => 0 | Some m => mint_size m end.
Definition output_size (o : output) : Z :=
  2 + 2 + int_bytes (o_amount o) + 2 + 32 * len (o_keys o) + 32 + 2 + len (o_script o)
  + 2 + match o_withdrawal o with None => 0 | Some (a, g) => 2 + a + 2 + g end.
Definition sum_map {A} (f : A -> Z) (l : list A) : Z := fold_right (fun a s => f a + s) 0 l.
Definition payload_size (t : tx) : Z :=
  4 + 32 + 2 + sum_map input_size (t_inputs t) + 2 + sum_map output_size (t_outputs t)
  + 2 + 32 * len (t_refs t) + 4 + len (t_extra t) + 2.

Definition le_int (x : Z) : bool := x <=? enc_int_max.

Definition enc_input_ok (i : input) : bool :=
  (i_index i <=? Consts.ValInputIndexLimit) && le_int (opt_len (i_genesis i))
  && match i_deposit i with
     | None => true
     | Some d => le_int (len (d_key d)) && le_int (d_txlen d) && le_int (int_bytes (d_amount d))
     end
  && match i_mint i with
     | None => true
     | Some m => le_int (len (m_group m)) && le_int (int_bytes (m_amount m))
     end.

Definition enc_output_ok (o : output) : bool :=
  le_int (int_bytes (o_amount o)) && le_int (len (o_keys o)) && le_int (len (o_script o))
  && match o_withdrawal o with None => true | Some (a, g) => le_int a && le_int g end.

(* EncodeTransaction does not panic on the payload *)
Definition enc_ok (t : tx) : bool :=
  (Consts.ValTxVersionHashSignature <=? t_version t)
  && (len (t_inputs t) <=? slice_limit) && forallb enc_input_ok (t_inputs t)
  && (len (t_outputs t) <=? slice_limit) && forallb enc_output_ok (t_outputs t)
  && le_int (len (t_refs t)) && (len (t_extra t) <=? extra_capacity).

(* config.Debug: the payload is decoded again and a refusal is a panic *)
Definition redecode_ok (t : tx) : bool :=
  (payload_size t <=? Consts.ValTransactionMaximumSize)
  && (t_version t =? Consts.ValTxVersionHashSignature)
  && forallb (fun o => len (o_keys o) <=? slice_limit) (t_outputs t)
  && (len (t_refs t) <=? slice_limit).

Definition payload_marshal (t : tx) : res Z :=
  if negb (enc_ok t) then Panic
  else if (Consts.ValConfigDebug =? 1) && negb (redecode_ok t) then Panic
  else Ok (payload_size t).

(* ---- Script -------------------------------------------------------------------- *)

Definition script_format_ok (s : bytes) : bool :=
  match s with
  | [a; b; c] => (Z.of_N a =? Consts.ValOperatorCmp) && (Z.of_N b =? Consts.ValOperatorSum)
                 && (Z.of_N c <=? Consts.ValOperator64)
  | _ => false
  end.

Definition script_validate (s : bytes) (sum : Z) : bool :=
  script_format_ok s && match s with [_; _; c] => Z.of_N c <=? sum | _ => false end.

(* ---- validateReferences ------------------------------------------------------ *)

Fixpoint refs_ok (v : view) (rs : list N) : bool :=
  match rs with
  | [] => true
  | r :: rs' => match v_tx v r with
                | Some s => s_final s && refs_ok v rs'
                | None => false
                end
  end.

Definition validate_references (v : view) (t : tx) : res unit :=
  if len (t_refs t) >? Consts.ValReferencesCountLimit then Err
  else if refs_ok v (t_refs t) then Ok tt else Err.

(* ---- validateUTXO ------------------------------------------------------------ *)

Fixpoint agg_order_ok (prev : Z) (l : list Z) : bool :=
  match l with
  | [] => true
  | s :: r => if (s <=? prev) || (s >? enc_int_max) then false else agg_order_ok s r
  end.
Definition agg_signers_ok (l : list Z) : bool := (len l <=? enc_int_max) && agg_order_ok (-1) l.

(* the loop over as.Signers with its break / continue *)
Fixpoint agg_count (signers : list Z) (offset limit : Z) : Z :=
  match signers with
  | [] => 0
  | m :: r => if m >=? limit then 0
              else if m <? offset then agg_count r offset limit
              else 1 + agg_count r offset limit
  end.

Fixpoint nth_z {A} (l : list A) (i : Z) : option A :=
  match l with
  | [] => None
  | x :: r => if i =? 0 then Some x else if i <? 0 then None else nth_z r (i - 1)
  end.

(* returns the verification bits of the (key, signature) pairs this input adds to keySigs *)
Definition validate_utxo (index : Z) (u : utxo) (sigs : option (list sigmap)) (agg : option (list Z))
           (ty : Z) (offset : Z) : res (list bool) :=
  if (u_type u =? ot_script) || (u_type u =? ot_remove) then
    match agg with
    | Some signers =>
        if negb (agg_signers_ok signers) then Err
        else
          let c := agg_count signers offset (offset + u_nkeys u) in
          if script_validate (u_script u) c then Ok (repeat true (Z.to_nat c)) else Err
    | None =>
        let ss := match sigs with None => [] | Some l => l end in
        if index >=? len ss then Err
        else match nth_z ss index with
             | None => Panic                      (* sigs[index] out of range *)
             | Some m =>
                 if negb (forallb (fun p => fst p <? u_nkeys u) m) then Err
                 else if script_validate (u_script u) (len m) then Ok (map snd m) else Err
             end
    end
  else if u_type u =? ot_pledge then
    if (ty =? ty_accept) || (ty =? ty_cancel) then Ok [] else Err
  else if u_type u =? ot_accept then
    if ty =? ty_remove then Ok [] else Err
  else Err.

(* ---- validateInputs ------------------------------------------------------------ *)

Definition slot := (N * Z)%type.
Definition slot_eqb (a b : slot) : bool := (fst a =? fst b)%N && (snd a =? snd b).
Fixpoint flt_find (f : list (slot * utxo)) (k : slot) : option utxo :=
  match f with
  | [] => None
  | (k', u) :: r => if slot_eqb k k' then Some u else flt_find r k
  end.

Inductive vin :=
| VSpecial (flt : list (slot * utxo)) (amount : Z)                 (* early return at a mint / deposit input *)
| VDone (flt : list (slot * utxo)) (amount : Z) (ks : list bool).   (* loop finished; ks = keySigs *)

Fixpoint vin_loop (v : view) (h : N) (t : tx) (ty : Z) (fork : bool)
         (ins : list input) (idx : Z) (flt : list (slot * utxo)) (amt nkeys : Z) (ks : list bool) : res vin :=
  match ins with
  | [] => Ok (VDone flt amt ks)
  | i :: r =>
      if match i_genesis i with Some n => 0 <? n | None => false end then Err
      else match i_mint i with
      | Some m => Ok (VSpecial flt (m_amount m))
      | None =>
      match i_deposit i with
      | Some d => Ok (VSpecial flt (d_amount d))
      | None =>
          let k := (i_hash i, i_index i) in
          match flt_find flt k with
          | Some _ => Err
          | None =>
              match v_utxo v (i_hash i) (i_index i) with
              | None => Err
              | Some u =>
                  if negb (u_asset u =? t_asset t)%N then Err
                  else if negb (u_lock u =? 0)%N && negb (u_lock u =? h)%N && negb fork then Err
                  else
                    do bits <- validate_utxo idx u (t_sigs t) (t_agg t) ty nkeys;
                    do amt' <- i_add amt (u_amount u);
                    vin_loop v h t ty fork r (idx + 1) (flt ++ [(k, u)]) amt' (nkeys + u_nkeys u) (ks ++ bits)
              end
          end
      end end
  end.

Definition validate_inputs (v : view) (f : facts) (h : N) (t : tx) (ty : Z) (fork : bool)
  : res (list (slot * utxo) * Z) :=
  do r <- vin_loop v h t ty fork (t_inputs t) 0 [] 0 0 [];
  match r with
  | VSpecial flt a => Ok (flt, a)
  | VDone flt a ks =>
      if (len ks =? 0) && ((ty =? ty_accept) || (ty =? ty_remove)) then Ok (flt, a)
      else if len ks <? len (t_inputs t) then Err
      else match t_agg t with
           | Some _ => if f_agg_ok f then Ok (flt, a) else Err
           | None => if negb (len ks =? 0) && forallb (fun b => b) ks then Ok (flt, a) else Err   (* crypto.BatchVerify *)
           end
  end.

(* ---- validateOutputs ----------------------------------------------------------- *)

Fixpoint keys_loop (f : facts) (ks : list N) (seen : list N) : option (list N) :=
  match ks with
  | [] => Some seen
  | k :: r => if mem_N k seen then None
              else if negb (f_check_key f k) then None
              else keys_loop f r (seen ++ [k])
  end.

Definition is_kernel_multisig (t : Z) : bool :=
  (t =? ot_wsubmit) || (t =? ot_wclaim) || (t =? ot_pledge) || (t =? ot_cancel) || (t =? ot_accept).

Fixpoint vout_loop (f : facts) (outs : list output) (seen : list N) (amt : Z) : res (list N * Z) :=
  match outs with
  | [] => Ok (seen, amt)
  | o :: r =>
      if len (o_keys o) >? slice_limit then Err
      else if o_amount o <=? 0 then Err
      else match keys_loop f (o_keys o) seen with
      | None => Err
      | Some seen' =>
          if (if is_kernel_multisig (o_type o)
              then (len (o_keys o) =? 0) && (len (o_script o) =? 0) && (o_mask o =? 0)%N
              else script_format_ok (o_script o) && negb (o_mask o =? 0)%N
                   && f_check_key f (o_mask o)
                   && match o_withdrawal o with None => true | Some _ => false end)
          then do amt' <- i_add amt (o_amount o); vout_loop f r seen' amt'
          else Err
      end
  end.

Definition validate_outputs (v : view) (f : facts) (h : N) (t : tx) (input_amount : Z) (fork : bool) : res unit :=
  do r <- vout_loop f (t_outputs t) [] 0;
  let '(ghost, out_amount) := r in
  if negb (i_cmp input_amount out_amount =? 0) then Err
  else if v_ghost_ok v ghost h fork then Ok tt else Err.

(* ---- per-type validators ------------------------------------------------------- *)

Definition all_inputs_type (flt : list (slot * utxo)) (ok : Z -> bool) : bool :=
  forallb (fun p => ok (u_type (snd p))) flt.

Definition validate_script (flt : list (slot * utxo)) : res unit :=
  if all_inputs_type flt (fun t => (t =? ot_script) || (t =? ot_remove)) then Ok tt else Err.

Definition validate_mint (v : view) (h : N) (t : tx) : res unit :=
  if negb (len (t_inputs t) =? 1) then Err
  else if negb (forallb (fun o => o_type o =? ot_script) (t_outputs t)) then Err
  else if negb (t_asset t =? xin)%N then Err
  else match t_inputs t with
  | [] => Panic                                           (* tx.Inputs[0] *)
  | i :: _ =>
      match i_mint i with
      | None => Panic                                     (* mint.Group on nil *)
      | Some m =>
          if negb (bytes_eqb (m_group m) Consts.ValMintGroupUniversal) then Err
          else match v_last_mint v with
          | None => Ok tt
          | Some (batch, amount, dtx) =>
              if m_batch m <? batch then Err
              else if m_batch m >? batch then Ok tt
              else if negb (dtx =? h)%N || negb (i_cmp amount (m_amount m) =? 0) then Err
              else Ok tt
          end
      end
  end.

Definition capacity_table : list (N * Z) := [
  (Consts.ValAssetBitcoin, Consts.ValCapBitcoin); (Consts.ValAssetEthereum, Consts.ValCapEthereum);
  (Consts.ValXINAssetId, Consts.ValCapXIN); (Consts.ValAssetBOX, Consts.ValCapBOX);
  (Consts.ValAssetMOB, Consts.ValCapMOB); (Consts.ValAssetUSDTEthereum, Consts.ValCapUSDTEthereum);
  (Consts.ValAssetUSDTTRON, Consts.ValCapUSDTTRON); (Consts.ValAssetPandoUSD, Consts.ValCapPandoUSD);
  (Consts.ValAssetUSDC, Consts.ValCapUSDC); (Consts.ValAssetEOS, Consts.ValCapEOS);
  (Consts.ValAssetSOL, Consts.ValCapSOL); (Consts.ValAssetUNI, Consts.ValCapUNI);
  (Consts.ValAssetDOGE, Consts.ValCapDOGE)].

Fixpoint cap_lookup (l : list (N * Z)) (a : N) : Z :=
  match l with
  | [] => Consts.ValCapDefault
  | (k, c) :: r => if (k =? a)%N then c else cap_lookup r a
  end.
Definition asset_capacity (a : N) : Z := cap_lookup capacity_table a.

Definition verify_deposit_data (v : view) (t : tx) : res unit :=
  match t_inputs t with
  | [] => Panic                                           (* tx.Inputs[0] *)
  | i :: _ =>
      match i_deposit i with
      | None => Panic                                     (* deposit.Asset() on nil *)
      | Some d =>
          if (d_chain d =? 0)%N then Err
          else if negb (d_key_trim d) || (len (d_key d) =? 0) then Err
          else if d_amount d <=? 0 then Err
          else if negb (d_tx_trim d) || (d_txlen d =? 0) then Err
          else match v_asset v (t_asset t) with
          | None => Ok tt
          | Some (chain, key, balance) =>
              do total <- i_add balance (d_amount d);
              if i_cmp total (asset_capacity (t_asset t)) >=? 0 then Err
              else if (chain =? d_chain d)%N && bytes_eqb key (d_key d) then Ok tt
              else Err
          end
      end
  end.

(* sigs[0][0] of a one-map, one-entry signature list: Some true = present *)
Definition single_sig_index0 (sigs : option (list sigmap)) : option bool :=
  match sigs with
  | Some [[(i, _)]] => Some (i =? 0)
  | _ => None
  end.

Definition validate_deposit (v : view) (f : facts) (h : N) (t : tx) (ts : Z) : res unit :=
  if negb (len (t_inputs t) =? 1) then Err
  else if negb (len (t_outputs t) =? 1) then Err
  else match t_outputs t with
  | [] => Panic
  | o :: _ =>
      if negb (o_type o =? ot_script) then Err
      else match single_sig_index0 (t_sigs t) with
      | None => Err
      | Some has0 =>
          do _ <- verify_deposit_data v t;
          if negb has0 then Err
          else match v_custodian v ts with
          | None => Panic                                 (* custodian.Custodian on nil *)
          | Some _ =>
              if negb (f_deposit_sig f) then Err
              else match t_inputs t with
              | [] => Panic
              | i :: _ =>
                  match i_deposit i with
                  | None => Panic
                  | Some d =>
                      let locked := v_deposit_lock v d in
                      if negb (locked =? 0)%N && negb (locked =? h)%N then Err else Ok tt
                  end
              end
          end
      end
  end.

Definition tail_all_script (outs : list output) : res bool :=
  match outs with
  | [] => Panic                                           (* tx.Outputs[1:] *)
  | _ :: r => Ok (forallb (fun o => o_type o =? ot_script) r)
  end.

Definition validate_withdrawal_submit (t : tx) (flt : list (slot * utxo)) : res unit :=
  if negb (all_inputs_type flt (fun x => x =? ot_script)) then Err
  else
    do tail <- tail_all_script (t_outputs t);
    if negb tail then Err
    else match t_outputs t with
    | [] => Panic
    | s :: _ =>
        if negb (o_type s =? ot_wsubmit) then Err
        else match o_withdrawal s with
        | None => Err
        | Some _ =>
            if negb (len (o_keys s) =? 0) then Err
            else if negb (len (o_script s) =? 0) then Err
            else if negb (o_mask s =? 0)%N then Err
            else Ok tt
        end
    end.

Definition validate_withdrawal_claim (v : view) (f : facts) (t : tx) (flt : list (slot * utxo)) (ts : Z) : res unit :=
  if negb (all_inputs_type flt (fun x => x =? ot_script)) then Err
  else if negb (t_asset t =? xin)%N then Err
  else
    do tail <- tail_all_script (t_outputs t);
    if negb tail then Err
    else if negb (len (t_refs t) =? 1) then Err
    else match t_outputs t with
    | [] => Panic
    | claim :: _ =>
        if negb (o_type claim =? ot_wclaim) then Err
        else
          do fee <- parse Consts.ValWithdrawalClaimFee;
          if i_cmp (o_amount claim) fee <? 0 then Err
          else match t_refs t with
          | [] => Panic                                   (* tx.References[0] *)
          | r :: _ =>
              match v_tx v r with
              | None => Err
              | Some submit =>
                  match t_outputs (s_tx submit) with
                  | [] => Panic                           (* submit.Outputs[0] *)
                  | so :: _ =>
                      match o_withdrawal so with
                      | None => Err
                      | Some _ =>
                          if negb (o_type so =? ot_wsubmit) then Err
                          else if len (t_extra t) <? 64 then Err
                          else match v_custodian v ts with
                          | None => Panic                 (* cur.Custodian on nil *)
                          | Some _ => if f_claim_sig f then Ok tt else Err
                          end
                      end
                  end
              end
          end
    end.

Definition final_state (s : Z) : bool :=
  (s =? st_accepted) || (s =? st_cancelled) || (s =? st_removed).

Definition validate_node_pledge (v : view) (f : facts) (t : tx) (flt : list (slot * utxo)) (ts : Z) : res unit :=
  if negb (t_asset t =? xin)%N then Err
  else if negb (len (t_outputs t) =? 1) then Err
  else if negb (len (t_inputs t) =? 1) || negb (len flt =? len (t_inputs t)) then Err
  else match t_inputs t with
  | [] => Panic
  | i :: _ =>
      match flt_find flt (i_hash i, i_index i) with
      | None => Panic                                     (* inputs[fk].Type on nil *)
      | Some u =>
          if negb (u_type u =? ot_script) && negb (u_type u =? ot_remove) then Err
          else if negb (len (t_extra t) =? 64) then Err
          else
            let signer := key_of (t_extra t) in
            if negb (f_check_key f signer) then Err
            else if forallb (fun n => final_state (n_state n)
                                      && negb (n_signer n =? signer)%N
                                      && negb (n_payee n =? signer)%N) (v_nodes v ts)
                 then Ok tt else Err
      end
  end.

(* the loop shared by validateNodeAccept / validateNodeCancel: finds the one
   pledging node; the error message of the other branch dereferences
   [pledging], which is nil when no pledging node was seen yet *)
Fixpoint find_pledging (ns : list node) (pledging : option node) : res (option node) :=
  match ns with
  | [] => Ok pledging
  | n :: r =>
      if final_state (n_state n) then find_pledging r pledging
      else match pledging with
           | None => if n_state n =? st_pledging then find_pledging r (Some n)
                     else Panic                           (* pledging.Signer on nil *)
           | Some _ => Err
           end
  end.

(* filter[signer] after the loop: the last entry of that signer wins; "" if absent *)
Fixpoint node_state_of (ns : list node) (signer : N) (cur : option Z) : option Z :=
  match ns with
  | [] => cur
  | n :: r => node_state_of r signer (if (n_signer n =? signer)%N then Some (n_state n) else cur)
  end.

(* NodeTransactionExtraAsSigner: panics unless pledge / accept / remove typed *)
Definition extra_as_signer (s : tx) : res N :=
  if t_version s <? Consts.ValTxVersionHashSignature then Panic
  else let ty := tx_type s in
       if (ty =? ty_pledge) || (ty =? ty_accept) || (ty =? ty_remove) then Ok (key_of (t_extra s))
       else Panic.

Definition single_sig_present (sigs : option (list sigmap)) : bool :=
  match single_sig_index0 sigs with Some true => true | _ => false end.

Definition validate_node_accept (v : view) (f : facts) (t : tx) (ts : Z) : res unit :=
  if negb (t_asset t =? xin)%N then Err
  else if negb (len (t_outputs t) =? 1) then Err
  else if negb (len (t_inputs t) =? 1) then Err
  else if negb (single_sig_present (t_sigs t)) then Err
  else
    let nodes := v_nodes v ts in
    do p <- find_pledging nodes None;
    match p with
    | None => Err
    | Some pl =>
        match t_inputs t with
        | [] => Panic
        | i :: _ =>
            if negb (n_tx pl =? i_hash i)%N then Err
            else match v_tx v (i_hash i) with
            | None => Panic                               (* lastPledge.Outputs on nil *)
            | Some last =>
                if negb (len (t_outputs (s_tx last)) =? 1) then Err
                else match t_outputs (s_tx last) with
                | [] => Panic
                | po :: _ =>
                    if negb (o_type po =? ot_pledge) then Err
                    else
                      do acc <- extra_as_signer (s_tx last);
                      if negb (match node_state_of nodes acc None with
                               | Some s => s =? st_pledging | None => false end) then Err
                      else if negb (bytes_eqb (t_extra (s_tx last)) (t_extra t)) then Err
                      else if f_accept_sig f then Ok tt else Err
                end
            end
        end
    end.

Definition validate_node_cancel (v : view) (f : facts) (t : tx) (ts : Z) : res unit :=
  if negb (t_asset t =? xin)%N then Err
  else if negb (len (t_outputs t) =? 2) then Err
  else if negb (len (t_inputs t) =? 1) then Err
  else if negb (single_sig_present (t_sigs t)) then Err
  else if negb (len (t_extra t) =? 96) then Err
  else match t_outputs t with
  | cancel :: script :: _ =>
      if negb (o_type cancel =? ot_cancel) || negb (o_type script =? ot_script) then Err
      else if negb (len (o_keys script) =? 1) then Err
      else if negb (bytes_eqb (o_script script) Consts.ValThresholdScript1) then Err
      else
        let nodes := v_nodes v ts in
        do p <- find_pledging nodes None;
        match p with
        | None => Err
        | Some pl =>
            match t_inputs t with
            | [] => Panic
            | i :: _ =>
                if negb (n_tx pl =? i_hash i)%N then Err
                else match v_tx v (i_hash i) with
                | None => Panic                           (* lastPledge.Outputs on nil *)
                | Some last =>
                    if negb (len (t_outputs (s_tx last)) =? 1) then Err
                    else match t_outputs (s_tx last) with
                    | [] => Panic
                    | po :: _ =>
                        if negb (o_type po =? ot_pledge) then Err
                        else
                          do pct <- i_div (o_amount po) 100;
                          if negb (i_cmp (o_amount cancel) pct =? 0) then Err
                          else
                            do acc <- extra_as_signer (s_tx last);
                            if negb (match node_state_of nodes acc None with
                                     | Some s => s =? st_pledging | None => false end) then Err
                            else match t_inputs (s_tx last) with
                            | [] => Panic                 (* lastPledge.Inputs[0] *)
                            | li :: _ =>
                                match v_tx v (i_hash li) with
                                | None => Err
                                | Some pit =>
                                    match nth_z (t_outputs (s_tx pit)) (i_index li) with
                                    | None => Panic       (* pit.Outputs[index] *)
                                    | Some pi =>
                                        if negb (len (o_keys pi) =? 1) then Err
                                        else
                                          do same <- f_cancel_ghost f;   (* KeyMultPubPriv may panic *)
                                          if negb (bytes_eqb (t_extra (s_tx last)) (firstn 64 (t_extra t))) then Err
                                          else if negb same then Err
                                          else if f_cancel_sig f then Ok tt else Err
                                    end
                                end
                            end
                    end
                end
            end
        end
  | _ => Panic                                            (* tx.Outputs[0], tx.Outputs[1] *)
  end.

Definition validate_node_remove (v : view) (t : tx) : res unit :=
  if negb (t_asset t =? xin)%N then Err
  else if negb (len (t_outputs t) =? 1) then Err
  else if negb (len (t_inputs t) =? 1) then Err
  else match t_inputs t with
  | [] => Panic
  | i :: _ =>
      match v_tx v (i_hash i) with
      | None => Panic                                     (* accept.PayloadHash() on nil *)
      | Some acc =>
          if negb (s_hash acc =? i_hash i)%N then Err
          else if negb (len (t_outputs (s_tx acc)) =? 1) then Err
          else match t_outputs (s_tx acc) with
          | [] => Panic
          | ao :: _ =>
              if negb (o_type ao =? ot_accept) then Err
              else if bytes_eqb (t_extra (s_tx acc)) (t_extra t) then Ok tt else Err
          end
      end
  end.

(* ---- custodian.go -------------------------------------------------------------- *)

Definition cn_size : Z := Consts.ValCustodianNodeExtraSize.
Definition cn_min : Z := Consts.ValCustodianNodesMinimumCount.

Fixpoint chunks (fuel : nat) (n : nat) (l : bytes) : list bytes :=
  match fuel with
  | O => []
  | S f => match l with [] => [] | _ => firstn n l :: chunks f n (skipn n l) end
  end.

(* parseCustodianNode + CustodianNode.validate (genesis = false) *)
Definition parse_custodian_node (e : bytes) (sg : bool * bool) : option (addr * addr) :=
  if negb (len e =? cn_size) then None
  else if negb (match e with a :: _ => Z.of_N a =? Consts.ValCustodianNodeActionUpdate | [] => false end) then None
  else
    let cust := (be_N (slice e 1 33), be_N (slice e 33 65)) in
    let payee := (be_N (slice e 65 97), be_N (slice e 97 129)) in
    if (fst payee =? fst cust)%N then None
    else if negb (fst sg) then None
    else if negb (snd sg) then None
    else Some (cust, payee).

Fixpoint parse_nodes (cs : list bytes) (sgs : list (bool * bool)) (uniq : list N) : option (list (addr * addr)) :=
  match cs with
  | [] => Some []
  | e :: r =>
      let sg := match sgs with s :: _ => s | [] => (false, false) end in
      match parse_custodian_node e sg with
      | None => None
      | Some (cust, payee) =>
          if mem_N (fst payee) uniq || mem_N (fst cust) uniq then None
          else match parse_nodes r (tl sgs) (fst payee :: snd payee :: fst cust :: snd cust :: uniq) with
               | None => None
               | Some l => Some ((cust, payee) :: l)
               end
      end
  end.

Fixpoint strictly_increasing (l : list N) : bool :=
  match l with
  | a :: ((b :: _) as r) => (a <? b)%N && strictly_increasing r
  | _ => true
  end.

(* ParseCustodianUpdateNodesExtra(extra, false): custodian address and nodes *)
Definition parse_custodian_extra (f : facts) (e : bytes) : option (addr * list (addr * addr)) :=
  if len e <? 64 + cn_size * cn_min + 64 then None
  else
    let cust := (be_N (slice e 0 32), be_N (slice e 32 64)) in
    let body := firstn (length e - 128) (skipn 64 e) in
    if negb (len body mod cn_size =? 0) then None
    else match parse_nodes (chunks (length body) (Z.to_nat cn_size) body) (f_cust_node_sigs f) [] with
         | None => None
         | Some nodes =>
             (* the custodian spend keys are pairwise distinct here, so the re-sorted
                concatenation equals the input exactly when they ascend *)
             if strictly_increasing (map (fun p => fst (fst p)) nodes) then Some (cust, nodes) else None
         end.

Fixpoint amap_find (m : list (addr * addr)) (k : addr) : option addr :=
  match m with
  | [] => None
  | (k', p) :: r => if addr_eqb k k' then Some p else amap_find r k
  end.
Fixpoint amap_remove (m : list (addr * addr)) (k : addr) : list (addr * addr) :=
  match m with
  | [] => []
  | (k', p) :: r => if addr_eqb k k' then amap_remove r k else (k', p) :: amap_remove r k
  end.
(* Go map built by assignment in list order: a later entry overwrites *)
Fixpoint amap_build (l : list (addr * addr)) (m : list (addr * addr)) : list (addr * addr) :=
  match l with
  | [] => m
  | (k, p) :: r => amap_build r ((k, p) :: amap_remove m k)
  end.

Fixpoint price_loop (nodes : list (addr * addr)) (flt : list (addr * addr)) (total : Z) : res (list (addr * addr) * Z) :=
  match nodes with
  | [] => Ok (flt, total)
  | (c, p) :: r =>
      do total' <- match amap_find flt c with
                   | None => i_add total (new_integer Consts.ValCustodianNodeNewPrice)
                   | Some old => if negb (addr_eqb old p)
                                 then i_add total (new_integer Consts.ValCustodianNodeUpdatePrice)
                                 else Ok total
                   end;
      price_loop r (amap_remove flt c) total'
  end.

Definition validate_custodian_update (v : view) (f : facts) (t : tx) (ts : Z) : res unit :=
  if t_version t <? Consts.ValTxVersionHashSignature then Err
  else if negb (t_asset t =? xin)%N then Err
  else if negb (len (t_outputs t) =? 1) then Err
  else match t_outputs t with
  | [] => Panic
  | out :: _ =>
      if negb (o_type out =? ot_cupdate) then Err
      else if negb (len (o_keys out) =? 1) || negb (bytes_eqb (o_script out) storage_script) then Err
      else match parse_custodian_extra f (t_extra t) with
      | None => Err
      | Some (cust, nodes) =>
          if len nodes <? cn_min then Err
          else match v_custodian v ts with
          | None => Err
          | Some prev =>
              if negb (f_cust_prev_sig f) then Err
              else
                let flt := amap_build (c_nodes prev) [] in
                if negb (len flt =? len (c_nodes prev)) then Panic      (* panic(prev.Custodian.String()) *)
                else
                  do r <- price_loop nodes flt 0;
                  let '(rest, total) := r in
                  if i_cmp (o_amount out) total <? 0 then Err
                  else if negb (addr_eqb cust (c_addr prev)) then Ok tt
                  else if negb (len rest =? 0) || negb (len (c_nodes prev) =? len nodes) then Err
                  else Ok tt
          end
      end
  end.

(* ---- Validate ------------------------------------------------------------------ *)

(* the switch on the transaction type at the end of Validate *)
Definition dispatch (v : view) (f : facts) (h : N) (ts : Z) (t : tx) (ty : Z) (flt : list (slot * utxo)) : res unit :=
  if ty =? ty_script then validate_script flt
  else if ty =? ty_mint then validate_mint v h t
  else if ty =? ty_deposit then validate_deposit v f h t ts
  else if ty =? ty_wsubmit then validate_withdrawal_submit t flt
  else if ty =? ty_wclaim then validate_withdrawal_claim v f t flt ts
  else if ty =? ty_pledge then validate_node_pledge v f t flt ts
  else if ty =? ty_cancel then validate_node_cancel v f t ts
  else if ty =? ty_accept then validate_node_accept v f t ts
  else if ty =? ty_remove then validate_node_remove v t
  else if ty =? ty_cupdate then validate_custodian_update v f t ts
  else if ty =? ty_cslash then Err
  else Err.

(* the signature-count gate *)
Definition sig_count_bad (t : tx) (ty : Z) : bool :=
  match t_agg t with
  | Some _ => match t_sigs t with Some _ => true | None => false end
  | None => negb (len (t_inputs t) =? len (match t_sigs t with Some l => l | None => [] end))
            && negb (ty =? ty_remove)
  end.

(* the checks of Validate before anything is read from the store *)
Definition precheck (t : tx) (ty : Z) : res unit :=
  if negb (t_version t =? Consts.ValTxVersionHashSignature) then Err
  else if ty =? ty_unknown then Err
  else if (len (t_inputs t) <? 1) || (len (t_outputs t) <? 1) then Err
  else if (len (t_inputs t) >? slice_limit) || (len (t_outputs t) >? slice_limit)
          || (len (t_refs t) >? slice_limit) then Err
  else if negb (forallb (fun i => i_index i <=? Consts.ValInputIndexLimit) (t_inputs t)) then Err
  else
    do limit <- get_extra_limit t;
    if len (t_extra t) >? limit then Err
    else
      do size <- payload_marshal t;
      if size >? Consts.ValTransactionMaximumSize then Err
      else if sig_count_bad t ty then Err
      else Ok tt.

Definition validate (v : view) (f : facts) (h : N) (ts : Z) (fork : bool) (t : tx) : res unit :=
  let ty := tx_type t in
  do _ <- precheck t ty;
  do _ <- validate_references v t;
  do r <- validate_inputs v f h t ty fork;
  if snd r <=? 0 then Err
  else
    do _ <- validate_outputs v f h t (snd r) fork;
    dispatch v f h ts t ty (fst r).
