(* Executable model of common/custodian.go: custodian update extra parsing
   (ParseCustodianUpdateNodesExtra, parseCustodianNode, CustodianNode.validate,
   EncodeCustodianNode's layout) and the validation step
   Transaction.validateCustodianUpdateNodes.

   Byte strings are [list N]; keys (32 bytes) and signatures (64 bytes) stay
   byte strings because the sort check is bytes.Compare on the raw key bytes.
   An Address is the pair (public spend key, public view key); Address.String()
   (base58 of spend||view||checksum) is injective in that pair, so comparisons
   of the String() forms are modelled as equality of the pairs.

   [verify key msg sig] stands for key.Verify(crypto.Blake3Hash(msg), sig): the
   hash and the signature scheme are one abstract parameter.  No proofs here. *)
From Coq Require Import List ZArith NArith Bool Arith.
Require Import Mixin.Base.Res Mixin.Gen.Consts Mixin.Model.Fixed.
Import ListNotations.
Local Open Scope nat_scope.

Definition bytes := list N.

(* ---- constants (regenerated from the tree) -------------------------------- *)
Definition node_size : nat := Z.to_nat Consts.CusNodeExtraSize.      (* 353 *)
Definition min_count : nat := Z.to_nat Consts.CusNodesMinimumCount.  (* 7 *)
Definition action_update : N := Z.to_N Consts.CusNodeActionUpdate.   (* 1 *)
Definition new_price : Z := new_integer Consts.CusNodeNewPrice.      (* NewInteger(100) *)
Definition update_price : Z := new_integer Consts.CusNodeUpdatePrice. (* NewInteger(1) *)
Definition storage_script : bytes :=                                 (* "fffe40" *)
  [Z.to_N Consts.CusOperatorCmp; Z.to_N Consts.CusOperatorSum; Z.to_N Consts.CusOperator64].

(* ---- byte helpers ------------------------------------------------------------ *)
(* b[lo:hi]; every use below is guarded by a length check, as in the Go code *)
Definition slice (lo hi : nat) (b : bytes) : bytes := firstn (hi - lo) (skipn lo b).

Fixpoint bytes_eqb (a b : bytes) : bool :=
  match a, b with
  | [], [] => true
  | x :: a', y :: b' => (x =? y)%N && bytes_eqb a' b'
  | _, _ => false
  end.

(* bytes.Compare *)
Fixpoint bytes_compare (a b : bytes) : comparison :=
  match a, b with
  | [], [] => Eq
  | [], _ :: _ => Lt
  | _ :: _, [] => Gt
  | x :: a', y :: b' =>
      match (x ?= y)%N with
      | Eq => bytes_compare a' b'
      | Lt => Lt
      | Gt => Gt
      end
  end.

Definition bytes_ltb (a b : bytes) : bool :=
  match bytes_compare a b with Lt => true | _ => false end.

Fixpoint mem (k : bytes) (s : list bytes) : bool :=
  match s with
  | [] => false
  | h :: t => bytes_eqb k h || mem k t
  end.

(* cnt consecutive pieces of k bytes *)
Fixpoint chunk (k cnt : nat) (b : bytes) : list bytes :=
  match cnt with
  | O => []
  | S c => firstn k b :: chunk k c (skipn k b)
  end.

(* ---- addresses -------------------------------------------------------------- *)
Definition addr := (bytes * bytes)%type.   (* PublicSpendKey, PublicViewKey *)
Definition addr_eqb (a b : addr) : bool :=
  bytes_eqb (fst a) (fst b) && bytes_eqb (snd a) (snd b).

(* ---- CustodianNode ------------------------------------------------------------ *)
Record cnode := {
  cn_cust_spend : bytes;
  cn_cust_view : bytes;
  cn_payee_spend : bytes;
  cn_payee_view : bytes;
  cn_extra : bytes
}.
Definition cn_cust (n : cnode) : addr := (cn_cust_spend n, cn_cust_view n).
Definition cn_payee (n : cnode) : addr := (cn_payee_spend n, cn_payee_view n).

(* what EncodeCustodianNode lays out; signing itself is outside the model *)
Record node_fields := {
  f_cust : addr;
  f_payee : addr;
  f_node_id : bytes;
  f_signer_sig : bytes;
  f_payee_sig : bytes;
  f_cust_sig : bytes
}.

Definition encode_node (f : node_fields) : bytes :=
  [action_update] ++ fst (f_cust f) ++ snd (f_cust f) ++ fst (f_payee f) ++ snd (f_payee f)
  ++ f_node_id f ++ f_signer_sig f ++ f_payee_sig f ++ f_cust_sig f.

Definition cnode_of_fields (f : node_fields) : cnode :=
  {| cn_cust_spend := fst (f_cust f); cn_cust_view := snd (f_cust f);
     cn_payee_spend := fst (f_payee f); cn_payee_view := snd (f_payee f);
     cn_extra := encode_node f |}.

Record update := {
  u_cust : addr;
  u_nodes : list cnode;
  u_sig : bytes
}.

(* the layout of a custodian update extra *)
Definition encode_update (u : update) : bytes :=
  fst (u_cust u) ++ snd (u_cust u) ++ concat (map cn_extra (u_nodes u)) ++ u_sig u.

Definition node_ltb (a b : cnode) : bool := bytes_ltb (cn_cust_spend a) (cn_cust_spend b).

(* sort.Slice with less = bytes.Compare(custodian spend keys) < 0.  The Go sort
   is not stable; at the only call site the keys are pairwise distinct
   (uniqueness filter), and then every correct sort returns the same list
   (Proofs/Custodian.v: sorted_perm_unique), so insertion sort stands for it. *)
Fixpoint insert_node (n : cnode) (l : list cnode) : list cnode :=
  match l with
  | [] => [n]
  | h :: t => if node_ltb n h then n :: l else h :: insert_node n t
  end.
Definition sort_nodes (l : list cnode) : list cnode := fold_right insert_node [] l.

Section WithVerify.
Variable verify : bytes -> bytes -> bytes -> bool.   (* key, message (pre-hash), signature *)

(* (cn *CustodianNode) validate *)
Definition validate_node (n : cnode) : res unit :=
  if bytes_eqb (cn_payee_spend n) (cn_cust_spend n) then Err
  else
    let msg := slice 0 161 (cn_extra n) in
    if negb (verify (cn_payee_spend n) msg (slice 225 289 (cn_extra n))) then Err
    else if negb (verify (cn_cust_spend n) msg (slice 289 node_size (cn_extra n))) then Err
    else Ok tt.

(* parseCustodianNode *)
Definition parse_node (genesis : bool) (e : bytes) : res cnode :=
  if negb (length e =? node_size) then Err
  else if negb (nth 0 e 0 =? action_update)%N then Err
  else
    let n := {| cn_cust_spend := slice 1 33 e; cn_cust_view := slice 33 65 e;
                cn_payee_spend := slice 65 97 e; cn_payee_view := slice 97 129 e;
                cn_extra := e |} in
    match validate_node n with
    | Ok _ => Ok n
    | Err => if genesis then Ok n else Err
    | Panic => Panic
    end.

(* the loop of ParseCustodianUpdateNodesExtra; [seen] is the uniqueKeys map *)
Fixpoint parse_nodes (genesis : bool) (chunks : list bytes) (seen : list bytes) : res (list cnode) :=
  match chunks with
  | [] => Ok []
  | c :: rest =>
      do n <- parse_node genesis c;
      if mem (cn_payee_spend n) seen || mem (cn_cust_spend n) seen then Err
      else
        do ns <- parse_nodes genesis rest
                   (cn_cust_view n :: cn_cust_spend n :: cn_payee_view n :: cn_payee_spend n :: seen);
        Ok (n :: ns)
  end.

(* ParseCustodianUpdateNodesExtra *)
Definition parse_update (genesis : bool) (extra : bytes) : res update :=
  let len := length extra in
  if len <? 64 + node_size * min_count + 64 then Err
  else
    let body := slice 64 (len - 64) extra in
    if negb (length body mod node_size =? 0) then Err
    else
      do nodes <- parse_nodes genesis (chunk node_size (length body / node_size) body) [];
      let sorted := sort_nodes nodes in
      if bytes_eqb body (concat (map cn_extra sorted)) then
        Ok {| u_cust := (slice 0 32 extra, slice 32 64 extra);
              u_nodes := sorted;
              u_sig := skipn (len - 64) extra |}
      else Err.

(* ---- validation ---------------------------------------------------------------- *)
Record output := { o_type : Z; o_nkeys : nat; o_script : bytes; o_amount : Z }.
Record txshape := { t_version : Z; t_asset : N; t_outputs : list output }.

(* what store.ReadCustodian returned: Custodian and the (Custodian, Payee)
   addresses of its Nodes *)
Record prev_state := { p_cust : addr; p_nodes : list (addr * addr) }.
Inductive store_res := StoreErr | StoreNone | StoreSome (p : prev_state).

(* map[string]string keyed by Custodian.String() *)
Definition amap := list (addr * addr).
Fixpoint aset (m : amap) (k v : addr) : amap :=
  match m with
  | [] => [(k, v)]
  | (k', v') :: t => if addr_eqb k k' then (k', v) :: t else (k', v') :: aset t k v
  end.
Fixpoint aget (m : amap) (k : addr) : option addr :=
  match m with
  | [] => None
  | (k', v') :: t => if addr_eqb k k' then Some v' else aget t k
  end.
Fixpoint adel (m : amap) (k : addr) : amap :=
  match m with
  | [] => []
  | (k', v') :: t => if addr_eqb k k' then adel t k else (k', v') :: adel t k
  end.

Definition build_filter (ns : list (addr * addr)) : amap :=
  fold_left (fun m n => aset m (fst n) (snd n)) ns [].

(* the pricing loop: new custodian 100, changed payee 1, each looked-up key deleted *)
Fixpoint price_loop (filter : amap) (nodes : list cnode) (total : Z) : res (amap * Z) :=
  match nodes with
  | [] => Ok (filter, total)
  | n :: rest =>
      do total' <- match aget filter (cn_cust n) with
                   | None => i_add total new_price
                   | Some old => if addr_eqb old (cn_payee n) then Ok total
                                 else i_add total update_price
                   end;
      price_loop (adel filter (cn_cust n)) rest total'
  end.

Definition validate_update (tx : txshape) (extra : bytes) (store : store_res) : res unit :=
  if (t_version tx <? Consts.CusTxVersionHashSignature)%Z then Err
  else if negb (t_asset tx =? Consts.CusXINAssetId)%N then Err
  else match t_outputs tx with
  | [out] =>
    if negb (o_type out =? Consts.CusOutputTypeCustodianUpdateNodes)%Z then Err
    else if negb (o_nkeys out =? 1) || negb (bytes_eqb (o_script out) storage_script) then Err
    else
      do u <- parse_update false extra;
      if length (u_nodes u) <? min_count then Err
      else match store with
      | StoreErr => Err
      | StoreNone => Err
      | StoreSome prev =>
        if negb (verify (fst (p_cust prev)) (firstn (length extra - 64) extra) (u_sig u)) then Err
        else
          let filter := build_filter (p_nodes prev) in
          if negb (length filter =? length (p_nodes prev)) then Panic
          else
            do ft <- price_loop filter (u_nodes u) 0%Z;
            let (filter', total) := ft in
            if (i_cmp (o_amount out) total <? 0)%Z then Err
            else if negb (addr_eqb (u_cust u) (p_cust prev)) then Ok tt
            else if negb (length filter' =? 0)
                    || negb (length (p_nodes prev) =? length (u_nodes u)) then Err
            else Ok tt
      end
  | _ => Err
  end.

End WithVerify.
