(* Model of storage/badger_work.go: WriteRoundWork, ListNodeWorks, ReadWorkOffset.

   State of the store as far as these three functions can observe it:
     cp   n     the WORKCHECKPOINT record of node n: (offset round, hashes of the
                snapshots submitted last for that round).  An absent record and
                the record (0, []) are indistinguishable for the Go code
                (graphReadWorkOffset returns 0, nil for a missing key).
     lead n d   WORKPROPOSE counter of node n on day d (0 if absent)
     sign n d   WORKVOTE counter of node n on day d    (0 if absent)
   The per-round SnapshotWork records that WriteRoundWork deletes when it moves
   to the next round (removeSnapshotWorksForRound) cannot be observed through
   ListNodeWorks / ReadWorkOffset and are left out of the model.

   WriteRoundWork runs inside one Badger Update transaction: a panic or an
   error discards every write, so outcome [Panic] means "state unchanged".
   Badger I/O errors (ErrConflict etc.) are not modelled: the function has no
   other error return, so the model never answers [Err].

   Integers: rounds, timestamps and counters are uint64 in Go; the model uses
   unbounded Z and writes the wrap explicitly where the Go arithmetic can wrap
   (off+1, counter additions, the uint32 conversion of the day).  The
   per-call multiplicity map wm (uint64 values incremented once per signer
   entry) is exact: overflowing it needs 2^64 list entries. *)
From Coq Require Import List ZArith NArith Bool.
Require Import Mixin.Base.Res Mixin.Gen.Consts.
Import ListNotations.
Open Scope Z_scope.

(* common.SnapshotWork *)
Record snap := mk_snap { s_hash : N; s_ts : Z; s_signers : list N }.

Record state := mk_state {
  cp : N -> Z * list N;
  lead : N -> Z -> Z;
  sign : N -> Z -> Z
}.

Definition empty_state : state :=
  {| cp := fun _ => (0, []); lead := fun _ _ => 0; sign := fun _ _ => 0 |}.

Definition two64 : Z := 2 ^ 64.
Definition two32 : Z := 2 ^ 32.

(* uint32(ts / DAY_U64) *)
Definition day_of (ts : Z) : Z := (ts / Consts.WorkDayNanos) mod two32.

Fixpoint memN (x : N) (l : list N) : bool :=
  match l with
  | [] => false
  | y :: l' => (y =? x)%N || memN x l'
  end.

(* number of entries of [l] equal to [m] *)
Fixpoint occ (m : N) (l : list N) : Z :=
  match l with
  | [] => 0
  | x :: l' => (if (x =? m)%N then 1 else 0) + occ m l'
  end.

(* wm[m] after the loop over [fresh]: one per entry of a Signers list *)
Fixpoint wm (m : N) (fresh : list snap) : Z :=
  match fresh with
  | [] => 0
  | w :: fresh' => occ m (s_signers w) + wm m fresh'
  end.

Definition hashes (snaps : list snap) : list N := map s_hash snaps.

(* the three panics inside the loop over fresh *)
Definition snap_ok (day : Z) (w : snap) : bool :=
  negb (s_ts w =? 0) && (day_of (s_ts w) =? day) && negb (s_hash w =? 0)%N.

Definition is_nil {A} (l : list A) : bool :=
  match l with [] => true | _ => false end.

Definition set_cp (st : state) (node : N) (v : Z * list N) : state :=
  {| cp := fun n => if (n =? node)%N then v else cp st n;
     lead := lead st; sign := sign st |}.

(* the counter writes at the end of WriteRoundWork.  Go writes a WORKVOTE key
   only for signers present in wm (wm > 0) and always writes the WORKPROPOSE
   key of the proposer. *)
Definition credit_day (st : state) (node : N) (day : Z) (fresh : list snap) : state :=
  {| cp := cp st;
     lead := fun n d =>
       if (n =? node)%N && (d =? day)
       then (lead st n d + wm node fresh) mod two64
       else lead st n d;
     sign := fun m d =>
       if negb (m =? node)%N && (d =? day) && negb (wm m fresh =? 0)
       then (sign st m d + wm m fresh) mod two64
       else sign st m d |}.

(* the part of WriteRoundWork after the checkpoint write: validate and credit
   the fresh snapshots *)
Definition credit_fresh (st1 : state) (node : N) (fresh : list snap) (credit : bool) : res state :=
  match fresh with
  | [] => Ok st1
  | w0 :: _ =>
    if is_nil (s_signers w0) || negb credit then Ok st1
    else
      let day := day_of (s_ts w0) in
      if negb (forallb (snap_ok day) fresh) then Panic
      else if negb (wm node fresh =? Z.of_nat (length fresh)) then Panic
      else Ok (credit_day st1 node day fresh)
  end.

Definition write_round_work (st : state) (node : N) (round : Z)
    (snaps : list snap) (credit : bool) : res state :=
  let '(off, seen) := cp st node in
  if off >? round then Ok st
  else if round >? (off + 1) mod two64 then Panic
  else
    let same := round =? off in
    let hs := hashes snaps in
    let fresh :=
      if same then filter (fun w => negb (memN (s_hash w) seen)) snaps else snaps in
    if same && negb (forallb (fun h => memN h hs) seen) then Panic
    else credit_fresh (set_cp st node (round, hs)) node fresh credit.

(* a submission: WriteRoundWork(node, round, snaps, credit) *)
Record sub := mk_sub { u_node : N; u_round : Z; u_snaps : list snap; u_credit : bool }.

Definition apply_sub (st : state) (s : sub) : res state :=
  write_round_work st (u_node s) (u_round s) (u_snaps s) (u_credit s).

(* the store after the call: a panicking call leaves it unchanged *)
Definition submit (st : state) (s : sub) : state :=
  match apply_sub st s with Ok st' => st' | _ => st end.

Definition run (st : state) (h : list sub) : state := fold_left submit h st.

(* strict run: Ok iff no submission panicked *)
Fixpoint run_all (st : state) (h : list sub) : res state :=
  match h with
  | [] => Ok st
  | s :: h' => bind (apply_sub st s) (fun st' => run_all st' h')
  end.

(* ListNodeWorks(ids, day): [lead, sign] per id *)
Definition list_node_works (st : state) (ids : list N) (day : Z) : list (N * (Z * Z)) :=
  map (fun n => (n, (lead st n day, sign st n day))) ids.

(* ReadWorkOffset *)
Definition read_work_offset (st : state) (n : N) : Z := fst (cp st n).

(* ------------------------------------------------------------------------
   Specification vocabulary for the C26 theorems (definitions only).
   ------------------------------------------------------------------------ *)

(* every (proposer, snapshot) occurrence of a history, with repeats *)
Definition pairs_of (s : sub) : list (N * snap) := map (pair (u_node s)) (u_snaps s).
Definition all_pairs (h : list sub) : list (N * snap) := flat_map pairs_of h.

Definition pair_day (x : N * snap) : Z := day_of (s_ts (snd x)).

(* proposal credits node n should hold for day d, given the list C of
   (proposer, snapshot) pairs to be credited: the pairs of n on day d *)
Definition leads (C : list (N * snap)) (n : N) (d : Z) : Z :=
  Z.of_nat (length (filter (fun x => (fst x =? n)%N && (pair_day x =? d)) C)).

(* signing credits of node m for day d: one per entry of m in the signer list
   of a pair of day d proposed by another node *)
Fixpoint signs (C : list (N * snap)) (m : N) (d : Z) : Z :=
  match C with
  | [] => 0
  | x :: C' =>
    (if negb (fst x =? m)%N && (pair_day x =? d) then occ m (s_signers (snd x)) else 0)
    + signs C' m d
  end.

(* the same when every signer list is duplicate free: the number of pairs of
   day d, proposed by another node, that m signed *)
Definition signs_mem (C : list (N * snap)) (m : N) (d : Z) : Z :=
  Z.of_nat (length (filter
    (fun x => negb (fst x =? m)%N && (pair_day x =? d) && memN m (s_signers (snd x))) C)).

(* The node's current submission: the most recent one that was not for an
   older round than the one before it.  A node without submissions is at
   round 0 with nothing submitted (this is what the store answers for an
   absent checkpoint). *)
Definition round_of (o : option sub) : Z := match o with None => 0 | Some p => u_round p end.
Definition snaps_of (o : option sub) : list snap := match o with None => [] | Some p => u_snaps p end.
Definition cur_step (n : N) (acc : option sub) (s : sub) : option sub :=
  if (u_node s =? n)%N && negb (u_round s <? round_of acc) then Some s else acc.
Definition cur (n : N) (h : list sub) : option sub := fold_left (cur_step n) h None.
Definition cur_round (n : N) (h : list sub) : Z := round_of (cur n h).
Definition cur_snaps (n : N) (h : list sub) : list snap := snaps_of (cur n h).

(* what the caller guarantees about one submission *)
Definition wf_sub (s : sub) : Prop :=
  0 <= u_round s < two64 - 1 /\
  u_credit s = true /\
  NoDup (hashes (u_snaps s)) /\
  (forall w, In w (u_snaps s) ->
     s_ts w <> 0 /\ s_hash w <> 0%N /\ occ (u_node s) (s_signers w) = 1) /\
  (forall w w', In w (u_snaps s) -> In w' (u_snaps s) ->
     day_of (s_ts w) = day_of (s_ts w')).

(* monotone per round, consecutive in rounds *)
Definition follows (h : list sub) (s : sub) : Prop :=
  (u_round s = cur_round (u_node s) h /\ incl (cur_snaps (u_node s) h) (u_snaps s))
  \/ u_round s = cur_round (u_node s) h + 1.

(* a hash identifies one snapshot of one round of one node *)
Definition hash_consistent (h : list sub) (s : sub) : Prop :=
  forall p w w', In p h -> In w (u_snaps p) -> In w' (u_snaps s) ->
    s_hash w = s_hash w' -> w = w' /\ u_node p = u_node s /\ u_round p = u_round s.

(* replay of an older round that contains nothing new *)
Definition stale (h : list sub) (s : sub) : Prop :=
  u_round s < cur_round (u_node s) h /\
  forall w, In w (u_snaps s) -> In (u_node s, w) (all_pairs h).

Inductive valid : list sub -> Prop :=
| valid_nil : valid []
| valid_next : forall h s,
    valid h -> wf_sub s -> follows h s -> hash_consistent h s -> valid (h ++ [s])
| valid_stale : forall h s,
    valid h -> stale h s -> valid (h ++ [s]).

(* C enumerates the distinct (proposer, snapshot) pairs of h *)
Definition enumerates (C : list (N * snap)) (h : list sub) : Prop :=
  NoDup C /\ forall x, In x C <-> In x (all_pairs h).
