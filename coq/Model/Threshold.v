(* Model of the input-authorization step of common/validation.go
   (validateInputs after the store lookups, validateUTXO), common/script.go
   (VerifyFormat, Validate), common/encoding.go (validateAggregatedSigners) and
   the control flow of crypto.BatchVerify / crypto.AggregateVerify around the
   signature equations, which are abstract here (Section variables):

     ver  k s      crypto Key.Verify(payloadHash, s) for the key VALUE k
     bat  es       BatchVerifier.Verify on >= 2 (key value, signature) entries
     aggv sg sel   the weighted-key Schnorr check of AggregateVerify on the
                   selected (index, key value) list (point decoding included)

   The payload hash is fixed for one transaction, so it is not a parameter.

   keySigs is a Go map keyed by key POINTER (map[*crypto.Key]*crypto.Signature):
   a key is modelled as (pointer identity, value); the association list
   [keysigs] is keyed by the pointer identity only.  Two inputs holding the
   same key value at different pointers make two entries; the same pointer
   reached twice overwrites.  A per-input signature map
   (map[uint16]*crypto.Signature) is an association list in the order the Go
   runtime happened to iterate it; nil signature pointers are [None].
   Executable; no proofs in this file. *)
From Coq Require Import List ZArith NArith Bool.
Require Import Mixin.Base.Res Mixin.Gen.Consts.
Import ListNotations.
Open Scope Z_scope.

Record key := mkKey { kptr : N; kval : N }.
(* [ulock]: UTXOWithLock.LockHash as its big-endian value, 0 = no value (unlocked) *)
Record utxo := mkUtxo { utype : Z; ukeys : list key; uscript : list N; ulock : N }.

(* validateInputs: utxo.LockHash.HasValue() && utxo.LockHash != hash && !fork => error.
   This is the ONLY use validateInputs makes of the lock state. *)
Definition lock_blocks (u : utxo) (hash : N) (fork : bool) : bool :=
  negb (ulock u =? 0)%N && negb (ulock u =? hash)%N && negb fork.

Definition len {A} (l : list A) : Z := Z.of_nat (length l).

(* ---- common/script.go --------------------------------------------------- *)

Definition script_verify_format (s : list N) : bool :=
  match s with
  | [a; b; c] => (Z.of_N a =? Consts.ThrOperatorCmp) && (Z.of_N b =? Consts.ThrOperatorSum)
                 && (Z.of_N c <=? Consts.ThrOperator64)
  | _ => false
  end.

(* Script.Validate(sum) = nil *)
Definition script_validate (s : list N) (sum : Z) : bool :=
  script_verify_format s &&
  match s with
  | [_; _; c] => negb (sum <? Z.of_N c)
  | _ => false
  end.

Definition script_threshold (s : list N) : option Z :=
  if script_verify_format s then
    match s with [_; _; c] => Some (Z.of_N c) | _ => None end
  else None.

(* ---- common/encoding.go: validateAggregatedSigners ---------------------- *)

Fixpoint signers_ordered (prev : Z) (l : list Z) : bool :=
  match l with
  | [] => true
  | s :: r => if (s <=? prev) || (Consts.ThrMaximumEncodingInt <? s) then false
              else signers_ordered s r
  end.

Definition validate_aggregated_signers (signers : list Z) : bool :=
  (len signers <=? Consts.ThrMaximumEncodingInt) && signers_ordered (-1) signers.

Definition is_script_type (t : Z) : bool :=
  (t =? Consts.ThrOutputTypeScript) || (t =? Consts.ThrOutputTypeNodeRemove).

Section Auth.
Variable S : Type.                          (* signature values *)
Variable ver : N -> S -> bool.
Variable bat : list (N * S) -> bool.
Variable aggv : S -> list (Z * N) -> bool.

Definition sigmap := list (N * option S).
Definition keysigs := list (key * option S).

(* keySigs[k] = v, k a pointer *)
Fixpoint ks_set (k : key) (v : option S) (m : keysigs) : keysigs :=
  match m with
  | [] => [(k, v)]
  | (k', v') :: m' =>
      if (kptr k' =? kptr k)%N then (k', v) :: m' else (k', v') :: ks_set k v m'
  end.

(* the aggregate branch of validateUTXO: the loop over as.Signers *)
Fixpoint agg_window (signers : list Z) (offset limit : Z) (keys : list key)
         (ks : keysigs) (cnt : Z) : res (keysigs * Z) :=
  match signers with
  | [] => Ok (ks, cnt)
  | m :: rest =>
      if m >=? limit then Ok (ks, cnt)                                (* break *)
      else if m <? offset then agg_window rest offset limit keys ks cnt (* continue *)
      else match nth_error keys (Z.to_nat (m - offset)) with
           | None => Panic                                            (* utxo.Keys[m-offset] *)
           | Some k => agg_window rest offset limit keys (ks_set k None ks) (cnt + 1)
           end
  end.

(* the map branch: for i, sig := range sigs[index] *)
Fixpoint map_collect (m : sigmap) (keys : list key) (ks : keysigs) : res keysigs :=
  match m with
  | [] => Ok ks
  | (i, sg) :: rest =>
      if len keys <=? Z.of_N i then Err
      else match nth_error keys (N.to_nat i) with
           | None => Panic
           | Some k => map_collect rest keys (ks_set k sg ks)
           end
  end.

Definition validate_utxo (index : nat) (u : utxo) (sigs : list sigmap)
           (ag : option (list Z)) (txType : Z) (ks : keysigs) (offset : Z) : res keysigs :=
  if is_script_type (utype u) then
    match ag with
    | Some signers =>
        if negb (validate_aggregated_signers signers) then Err
        else
          do (ks', cnt) <- agg_window signers offset (offset + len (ukeys u)) (ukeys u) ks 0;
          if script_validate (uscript u) cnt then Ok ks' else Err
    | None =>
        match nth_error sigs index with
        | None => Err                              (* index >= len(sigs) *)
        | Some m =>
            do ks' <- map_collect m (ukeys u) ks;
            if script_validate (uscript u) (len m) then Ok ks' else Err
        end
    end
  else if utype u =? Consts.ThrOutputTypeNodePledge then
    if (txType =? Consts.ThrTransactionTypeNodeAccept) || (txType =? Consts.ThrTransactionTypeNodeCancel)
    then Ok ks else Err
  else if utype u =? Consts.ThrOutputTypeNodeAccept then
    if txType =? Consts.ThrTransactionTypeNodeRemove then Ok ks else Err
  else Err.

(* the loop of validateInputs over the UTXOs the store returned *)
Fixpoint vi_loop (i : nat) (us : list utxo) (sigs : list sigmap) (ag : option (list Z))
         (txType : Z) (hash : N) (fork : bool) (ks : keysigs) (allKeys : list key)
  : res (keysigs * list key) :=
  match us with
  | [] => Ok (ks, allKeys)
  | u :: rest =>
      if lock_blocks u hash fork then Err      (* input locked for another transaction *)
      else
      do ks' <- validate_utxo i u sigs ag txType ks (len allKeys);
      vi_loop (Datatypes.S i) rest sigs ag txType hash fork ks' (allKeys ++ ukeys u)
  end.

(* ---- crypto/aggregation.go: collectAggregateSigners + AggregateVerify --- *)

Fixpoint collect_signers (prev : Z) (signers : list Z) (publics : list N) : option (list (Z * N)) :=
  match signers with
  | [] => Some []
  | i :: rest =>
      if i <=? prev then None
      else if len publics <=? i then None
      else match nth_error publics (Z.to_nat i) with
           | None => None
           | Some p => match collect_signers i rest publics with
                       | None => None
                       | Some sel => Some ((i, p) :: sel)
                       end
           end
  end.

Definition aggregate_verify (sg : S) (publics : list N) (signers : list Z) : bool :=
  match signers with
  | [] => false
  | _ => match collect_signers (-1) signers publics with
         | None => false
         | Some sel => aggv sg sel
         end
  end.

(* ---- crypto/batch.go: BatchVerify (control flow) ------------------------- *)

Fixpoint strip (es : list (N * option S)) : option (list (N * S)) :=
  match es with
  | [] => Some []
  | (k, None) :: _ => None
  | (k, Some s) :: r => match strip r with None => None | Some r' => Some ((k, s) :: r') end
  end.

Definition batch_verify (es : list (N * option S)) : bool :=
  match strip es with
  | None => false                      (* a nil signature *)
  | Some [] => false                   (* len(keys) == 0 *)
  | Some [(k, s)] => ver k s
  | Some l => bat l
  end.

Definition ks_entries (ks : keysigs) : list (N * option S) :=
  map (fun e => (kval (fst e), snd e)) ks.

(* ---- validateInputs after the store lookups ------------------------------ *)

Definition validate_inputs (us : list utxo) (sigs : list sigmap) (ag : option (S * list Z))
           (txType : Z) (hash : N) (fork : bool) : res unit :=
  do (ks, allKeys) <- vi_loop 0 us sigs (option_map snd ag) txType hash fork [] [];
  if Nat.eqb (length ks) 0 &&
     ((txType =? Consts.ThrTransactionTypeNodeAccept) || (txType =? Consts.ThrTransactionTypeNodeRemove))
  then Ok tt
  else if Nat.ltb (length ks) (length us) then Err
  else match ag with
       | Some (sg, signers) =>
           if aggregate_verify sg (map kval allKeys) signers then Ok tt else Err
       | None =>
           if batch_verify (ks_entries ks) then Ok tt else Err
       end.

End Auth.

Arguments ks_set {S}.
Arguments agg_window {S}.
Arguments map_collect {S}.
Arguments validate_utxo {S}.
Arguments vi_loop {S}.
Arguments aggregate_verify {S}.
Arguments strip {S}.
Arguments batch_verify {S}.
Arguments ks_entries {S}.
Arguments validate_inputs {S}.
