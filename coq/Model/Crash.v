(* Crash / restart model shared by C21 and C22.

   Every kernel procedure is the list of atomic durable calls it issues at the
   storage.Store interface (kernel/cosi.go cosiHandleFinalization,
   kernel/self.go lockAndPersistTransaction, kernel/election.go
   finalizeNodeAcceptSnapshot / reloadConsensusState, kernel/graph.go
   startNewRoundAndPersist).  A crash is a cut of the call sequence of a
   workload at a call boundary.  [recover] models kernel.SetupNode:
   storage.ValidateGraphEntries, the LastSnapshot-based repair of the
   CONSENSUSSNAPSHOT marker (reloadConsensusState) and Chain.loadState of
   every chain.  No proofs here. *)
From Coq Require Import List ZArith NArith Bool.
Require Import Mixin.Base.Res.
Import ListNotations.
Open Scope N_scope.

(* ---- durable calls ------------------------------------------------------------ *)
Inductive call :=
| CCache (t : N)                      (* cache store write: no effect on the graph store *)
| CLockGhost (t : N)                  (* LockGhostKeys for transaction t *)
| CLockIn (t : N)                     (* LockUTXOs / LockDepositInput / LockMintInput *)
| CWriteTx (t : N)                    (* WriteTransaction: body of t *)
| CNodeOp (t : N)                     (* AddNodeOperation *)
| CStartRound (c n : N)               (* StartNewRound(chain c, number n) *)
| CUpdateHead (c n : N)               (* UpdateEmptyHeadRound *)
| CWriteSnap (s c r : N) (txs : list N) (cns : bool) (ref : N)
                                      (* WriteSnapshot: snapshot s of chain c round r; cons = sole
                                         transaction is consensus class; ref = the transaction its
                                         References[0] names *)
| CMarker (s : N)                     (* WriteConsensusSnapshot(s) *)
| COther.

Record snap := { s_id : N; s_chain : N; s_round : N; s_txs : list N; s_cons : bool; s_ref : N }.

Record dstate := {
  topo : list snap;        (* topology, NEWEST FIRST: position of an entry = length of its tail *)
  marker : N;              (* id of the snapshot recorded as last consensus operation *)
  heads : list (N * N);    (* (chain, head round number) *)
  finals : list (N * N);   (* (chain, round) having a final round record *)
  bodies : list N;         (* transactions with a stored body *)
  fins : list (N * N);     (* (transaction, snapshot) finalization records *)
  outs : list N;           (* transactions whose outputs are stored *)
  glocks : list N;         (* transactions holding ghost key locks *)
  ilocks : list N          (* transactions holding input locks *)
}.

Definition memN (x : N) (l : list N) : bool := existsb (N.eqb x) l.
Definition pair_eqb (a b : N * N) : bool := (fst a =? fst b) && (snd a =? snd b).
Definition memP (x : N * N) (l : list (N * N)) : bool := existsb (pair_eqb x) l.

Fixpoint lookup (k : N) (l : list (N * N)) : option N :=
  match l with
  | [] => None
  | (a, b) :: l' => if a =? k then Some b else lookup k l'
  end.

Definition find_snap (id : N) (tp : list snap) : option snap :=
  find (fun s => s_id s =? id) tp.

Definition snaps_of (tp : list snap) (c r : N) : list snap :=
  filter (fun s => (s_chain s =? c) && (s_round s =? r)) tp.

Definition set_head (c n : N) (hs : list (N * N)) : list (N * N) :=
  (c, n) :: filter (fun p => negb (fst p =? c)) hs.

(* finalizeTransaction: the record is written only if absent *)
Definition finalize_tx (s : N) (st : list (N * N) * list N) (t : N) : list (N * N) * list N :=
  match lookup t (fst st) with
  | Some _ => st
  | None => ((t, s) :: fst st, t :: snd st)
  end.

Definition exec_call (st : dstate) (c : call) : dstate :=
  match c with
  | CCache _ | COther | CNodeOp _ | CUpdateHead _ _ => st
  | CLockGhost t =>
      {| topo := topo st; marker := marker st; heads := heads st; finals := finals st; bodies := bodies st;
         fins := fins st; outs := outs st; glocks := t :: glocks st; ilocks := ilocks st |}
  | CLockIn t =>
      {| topo := topo st; marker := marker st; heads := heads st; finals := finals st; bodies := bodies st;
         fins := fins st; outs := outs st; glocks := glocks st; ilocks := t :: ilocks st |}
  | CWriteTx t =>
      {| topo := topo st; marker := marker st; heads := heads st; finals := finals st;
         bodies := if memN t (bodies st) then bodies st else t :: bodies st;
         fins := fins st; outs := outs st; glocks := glocks st; ilocks := ilocks st |}
  | CStartRound c n =>
      {| topo := topo st; marker := marker st; heads := set_head c n (heads st);
         finals := if n =? 0 then finals st else (c, n - 1) :: finals st;
         bodies := bodies st; fins := fins st; outs := outs st; glocks := glocks st; ilocks := ilocks st |}
  | CWriteSnap s c r txs cns ref =>
      let fo := fold_left (finalize_tx s) txs (fins st, outs st) in
      {| topo := {| s_id := s; s_chain := c; s_round := r; s_txs := txs; s_cons := cns; s_ref := ref |} :: topo st;
         marker := marker st; heads := heads st; finals := finals st; bodies := bodies st;
         fins := fst fo; outs := snd fo; glocks := glocks st; ilocks := ilocks st |}
  | CMarker s =>
      {| topo := topo st; marker := s; heads := heads st; finals := finals st; bodies := bodies st;
         fins := fins st; outs := outs st; glocks := glocks st; ilocks := ilocks st |}
  end.

Definition exec (st : dstate) (l : list call) : dstate := fold_left exec_call l st.

(* ---- genesis: n chains, each with final round 0 and head round 1; the custodian
        snapshot (id n, transaction n, chain 0) is the last entry and the marker ------ *)
Definition gen_snap (i : N) : snap :=
  {| s_id := i; s_chain := i; s_round := 0; s_txs := [i]; s_cons := true; s_ref := i |}.

Definition nseq (n : N) : list N := map N.of_nat (seq 0 (N.to_nat n)).

Definition genesis (n : N) : dstate :=
  {| topo := {| s_id := n; s_chain := 0; s_round := 0; s_txs := [n]; s_cons := true; s_ref := n |}
             :: rev (map gen_snap (nseq n));
     marker := n;
     heads := map (fun i => (i, 1)) (nseq n);
     finals := map (fun i => (i, 0)) (nseq n);
     bodies := nseq (n + 1);
     fins := map (fun i => (i, i)) (nseq (n + 1));
     outs := nseq (n + 1);
     glocks := []; ilocks := [] |}.

(* ---- restart ------------------------------------------------------------------- *)

(* the transaction a consensus snapshot carries *)
Definition sole (s : snap) : N := hd 0 (s_txs s).

(* last consensus snapshot in topology order *)
Definition last_cons (tp : list snap) : option snap := find s_cons tp.

(* storage/badger_validation.go, one transaction of one snapshot *)
Definition validate_tx (st : dstate) (t : N) : res N :=
  if negb (memN t (bodies st)) then Err            (* txn.Get(TRANSACTION) fails *)
  else match lookup t (fins st) with
       | None => Err                               (* txn.Get(FINALIZATION) fails *)
       | Some f =>
           match find_snap f (topo st) with
           | None => Panic                         (* nil snapshot dereferenced *)
           | Some fs => if memN t (s_txs fs) then Ok 0 else Ok 1
           end
       end.

Fixpoint sum_res (l : list (res N)) : res N :=
  match l with
  | [] => Ok 0
  | r :: l' => do a <- r; do b <- sum_res l'; Ok (a + b)
  end.

Definition validate_round (st : dstate) (c i : N) : res N :=
  let ss := snaps_of (topo st) c i in
  do a <- sum_res (map (validate_tx st) (flat_map s_txs ss));
  match ss with
  | [] => Panic                                    (* computeRoundHash indexes snapshots[0] *)
  | _ => if memP (c, i) (finals st) then Ok a else Ok (a + 1)   (* MISSING ROUND *)
  end.

Definition validate_chain (st : dstate) (p : N * N) : res N :=
  sum_res (map (validate_round st (fst p)) (nseq (snd p))).

Definition validate (st : dstate) : res N := sum_res (map (validate_chain st) (heads st)).

(* Chain.loadState: head round h, final round h-1 must hold snapshots *)
Definition load_chain (st : dstate) (p : N * N) : res unit :=
  if snd p =? 0 then Panic                         (* round 0 - 1 wraps; no snapshots; panic *)
  else match snaps_of (topo st) (fst p) (snd p - 1) with
       | [] => Panic
       | _ => Ok tt
       end.

Fixpoint all_res (l : list (res unit)) : res unit :=
  match l with
  | [] => Ok tt
  | r :: l' => do _ <- r; all_res l'
  end.

Definition load_all (st : dstate) : res unit := all_res (map (load_chain st) (heads st)).

(* SetupNode: s, txs := LastSnapshot(); if len(txs) == 1 { reloadConsensusState(s, txs[0]) }
   with storage.writeConsensusSnapshot's checks. *)
Definition marker_tx (st : dstate) : option N :=
  match find_snap (marker st) (topo st) with
  | Some ms => Some (sole ms)
  | None => None
  end.

Definition repair (st : dstate) : res N :=
  match topo st with
  | [] => Panic                                    (* LastSnapshot panics on an empty topology *)
  | lst :: _ =>
      if s_cons lst && (N.of_nat (length (s_txs lst)) =? 1) then
        match marker_tx st with
        | None => Panic
        | Some mt =>
            if mt =? sole lst then Ok (marker st)          (* already recorded *)
            else if mt =? s_ref lst then Ok (s_id lst)     (* marker := last snapshot *)
            else Panic                                     (* reference assertion *)
        end
      else Ok (marker st)
  end.

(* restart = validator (error when it counts an invalid entry), marker repair, all chains loaded;
   result: the last recorded consensus operation *)
Definition recover (st : dstate) : res N :=
  do inv <- validate st;
  if 0 <? inv then Err else
  do m <- repair st;
  do _ <- load_all st;
  Ok m.

(* ---- which call sequences a kernel issues (guards enforced by the kernel and by the
        debug assertions of the store) ------------------------------------------------ *)
Definition headP (st : dstate) (c r : N) : bool := memP (c, r) (heads st).
Definition has_head (st : dstate) (c : N) : bool := existsb (fun p => fst p =? c) (heads st).
Definition fresh_snap (st : dstate) (s : N) : bool :=
  match find_snap s (topo st) with None => true | Some _ => false end.
Definition nonempty {A} (l : list A) : bool := match l with [] => false | _ => true end.

(* no consensus snapshot is waiting for its marker write *)
Definition settled (st : dstate) : bool :=
  match last_cons (topo st) with
  | Some lc => marker st =? s_id lc
  | None => false
  end.

Definition wf_call (st : dstate) (c : call) : bool :=
  match c with
  | CWriteSnap s ch r txs cns ref =>
      fresh_snap st s && headP st ch r && nonempty txs && forallb (fun t => memN t (bodies st)) txs
      && (negb cns ||
          ((N.of_nat (length txs) =? 1) && settled st &&
           match marker_tx st with Some mt => (mt =? ref) && negb (mt =? hd 0 txs) | None => false end))
  | CMarker s =>
      match last_cons (topo st) with Some lc => s =? s_id lc | None => false end
  | CStartRound ch n =>
      if n =? 0 then negb (has_head st ch)
      else headP st ch (n - 1) && nonempty (snaps_of (topo st) ch (n - 1))
  | _ => true
  end.

Fixpoint wf_calls (st : dstate) (l : list call) : bool :=
  match l with
  | [] => true
  | c :: l' => wf_call st c && wf_calls (exec_call st c) l'
  end.

(* ---- kernel procedures as call lists -------------------------------------------- *)
Inductive proc :=
| PAdmit (t : N)                                   (* validate + lockAndPersistTransaction *)
| PRound (c : N)                                   (* startNewRoundAndPersist *)
| PFinal (s c : N) (txs : list N)                  (* AddSnapshot of an ordinary snapshot *)
| PCons (s c t : N)                                (* AddSnapshot + reloadConsensusState *)
| PAccept (s c t : N).                             (* finalizeNodeAcceptSnapshot + reloadConsensusState *)

Definition head_of (st : dstate) (c : N) : option N := lookup c (heads st).

Definition compile (st : dstate) (p : proc) : list call :=
  match p with
  | PAdmit t => [CLockGhost t; CLockIn t; CWriteTx t]
  | PRound c =>
      match head_of st c with
      | Some h => [CStartRound c (h + 1)]
      | None => []
      end
  | PFinal s c txs =>
      match head_of st c with
      | Some h => [CWriteSnap s c h txs false 0]
      | None => []
      end
  | PCons s c t =>
      match head_of st c, marker_tx st with
      | Some h, Some mt => [CWriteSnap s c h [t] true mt; CMarker s]
      | _, _ => []
      end
  | PAccept s c t =>
      match marker_tx st with
      | Some mt => [CStartRound c 0; CWriteSnap s c 0 [t] true mt; CStartRound c 1; CMarker s]
      | None => []
      end
  end.

(* the kernel's own guard of a procedure; a procedure whose guard fails issues no call *)
Definition guarded (st : dstate) (p : proc) : list call :=
  let cs := compile st p in if wf_calls st cs then cs else [].

Fixpoint run_procs (st : dstate) (ps : list proc) : list call :=
  match ps with
  | [] => []
  | p :: ps' => let cs := guarded st p in cs ++ run_procs (exec st cs) ps'
  end.

(* the crash window of node acceptance: a chain whose head round is 0 *)
Definition in_accept_window (st : dstate) : bool := existsb (fun p => snd p =? 0) (heads st).

(* the F6 region: the last consensus snapshot is neither recorded nor the last topology entry *)
Definition marker_lost_region (st : dstate) : bool :=
  match last_cons (topo st), topo st with
  | Some lc, lst :: _ => negb (marker st =? s_id lc) && negb (s_id lst =? s_id lc)
  | _, _ => false
  end.

(* every finalized transaction has body, outputs and a finalization record naming a
   snapshot of the topology that contains it *)
Definition tx_complete (st : dstate) (t : N) : bool :=
  memN t (bodies st) && memN t (outs st) &&
  match lookup t (fins st) with
  | Some f => match find_snap f (topo st) with Some fs => memN t (s_txs fs) | None => false end
  | None => false
  end.

Definition finalized_complete (st : dstate) : bool :=
  forallb (fun s => forallb (tx_complete st) (s_txs s)) (topo st).

(* the durable state left by a crash after the first k calls of workload l on an n-node genesis *)
Definition crash_state (n : N) (l : list call) (k : nat) : dstate := exec (genesis n) (firstn k l).
