(* Model of the kernel's snapshot admission and finalization rules (C16, C28).

   Part A (C28): common/transaction.go TransactionType / IsSnapshotBatchable,
     kernel/self.go validateKernelSnapshot / validateConsensusTransactionReferences,
     storage/badger_graph.go writeConsensusSnapshot / readLastConsensusSnapshot.
   Part B (C16): a ledger model focused on what finalization can fail on:
     common/validation.go Validate (ledger-level checks; signatures are the
     boolean [l_sig]), common/deposit.go, common/mint.go, common/withdrawal.go,
     kernel/self.go validateSnapshotTransaction / lockAndPersistTransaction,
     storage/badger_graph.go WriteSnapshot / writeSnapshot,
     storage/badger_transaction.go finalizeTransaction / writeUTXO,
     storage/badger_asset.go writeAssetInfo / writeTotalInAsset.
   Hashes, keys and asset ids are N (big-endian 32 bytes); amounts are Z in
   units of 10^-8 (Model/Fixed.v).  Executable; no proofs in this file. *)
From Coq Require Import List ZArith NArith Bool.
Require Import Mixin.Base.Res Mixin.Gen.Consts Mixin.Model.Fixed.
Import ListNotations.
Open Scope Z_scope.

(* ===================================================================== *)
(* Part A: transaction classes, batch rules, consensus chain              *)
(* ===================================================================== *)

Definition TScript := Consts.KsTxScript.
Definition TMint := Consts.KsTxMint.
Definition TDeposit := Consts.KsTxDeposit.
Definition TWithdrawalSubmit := Consts.KsTxWithdrawalSubmit.
Definition TWithdrawalClaim := Consts.KsTxWithdrawalClaim.
Definition TNodePledge := Consts.KsTxNodePledge.
Definition TNodeAccept := Consts.KsTxNodeAccept.
Definition TNodeRemove := Consts.KsTxNodeRemove.
Definition TNodeCancel := Consts.KsTxNodeCancel.
Definition TCustodianUpdate := Consts.KsTxCustodianUpdateNodes.
Definition TCustodianSlash := Consts.KsTxCustodianSlashNodes.
Definition TUnknown := Consts.KsTxUnknown.

Definition OScript := Consts.KsOutScript.
Definition OWithdrawalSubmit := Consts.KsOutWithdrawalSubmit.
Definition OWithdrawalClaim := Consts.KsOutWithdrawalClaim.
Definition ONodePledge := Consts.KsOutNodePledge.
Definition ONodeCancel := Consts.KsOutNodeCancel.
Definition ONodeAccept := Consts.KsOutNodeAccept.
Definition ONodeRemove := Consts.KsOutNodeRemove.
Definition OCustodianUpdate := Consts.KsOutCustodianUpdateNodes.
Definition OCustodianSlash := Consts.KsOutCustodianSlashNodes.

(* which member of an Input is set (checked in this order by TransactionType) *)
Inductive ikind := IKMint | IKDeposit | IKGenesis | IKUtxo.

(* common/transaction.go TransactionType: the input loop *)
Fixpoint type_of_inputs (ins : list ikind) : option Z :=
  match ins with
  | [] => None
  | IKMint :: _ => Some TMint
  | IKDeposit :: _ => Some TDeposit
  | IKGenesis :: _ => Some TUnknown
  | IKUtxo :: r => type_of_inputs r
  end.

(* ... the output loop: first special output type decides *)
Fixpoint type_of_outputs (outs : list Z) (is_script : bool) : Z :=
  match outs with
  | [] => if is_script then TScript else TUnknown
  | o :: r =>
      if o =? OWithdrawalSubmit then TWithdrawalSubmit
      else if o =? OWithdrawalClaim then TWithdrawalClaim
      else if o =? ONodePledge then TNodePledge
      else if o =? ONodeCancel then TNodeCancel
      else if o =? ONodeAccept then TNodeAccept
      else if o =? ONodeRemove then TNodeRemove
      else if o =? OCustodianUpdate then TCustodianUpdate
      else if o =? OCustodianSlash then TCustodianSlash
      else type_of_outputs r (is_script && (o =? OScript))
  end.

Definition tx_type (ins : list ikind) (outs : list Z) : Z :=
  match type_of_inputs ins with
  | Some t => t
  | None => type_of_outputs outs true
  end.

(* common/transaction.go IsSnapshotBatchable *)
Definition is_batchable (ty : Z) : bool :=
  (ty =? TScript) || (ty =? TDeposit) || (ty =? TWithdrawalSubmit) || (ty =? TWithdrawalClaim).

(* the switch of validateConsensusTransactionReferences / WriteConsensusSnapshotWithHack *)
Definition is_consensus_class (ty : Z) : bool :=
  (ty =? TMint) || (ty =? TNodePledge) || (ty =? TNodeCancel) || (ty =? TNodeAccept)
  || (ty =? TNodeRemove) || (ty =? TCustodianUpdate) || (ty =? TCustodianSlash).

(* what the kernel rules read of a transaction *)
Record ktx := {
  k_hash : N;
  k_ins : list ikind;
  k_outs : list Z;        (* output types *)
  k_refs : list N;
  k_mint_batch : Z        (* Inputs[0].Mint.Batch when the first input is a mint *)
}.
Definition k_type (t : ktx) : Z := tx_type (k_ins t) (k_outs t).

(* the last recorded consensus snapshot as read back from the store *)
Record csnap := { cs_txs : list N; cs_ts : Z }.

(* what validateKernelSnapshot reads of a snapshot *)
Record ksnap := {
  ks_self : bool;         (* s.NodeId == node.IdForNetwork *)
  ks_round : Z;
  ks_ts : Z;
  ks_txs : list N
}.

(* kernel/self.go validateConsensusTransactionReferences *)
Definition validate_consensus_refs (s : ksnap) (tx : ktx) (last : csnap) : res unit :=
  if (1 <? Z.of_nat (length (ks_txs s))) then Panic
  else if negb (is_consensus_class (k_type tx)) then Ok tt
  else match k_refs tx with
  | [] => Err
  | r0 :: _ =>
      if (1 <? Z.of_nat (length (cs_txs last))) then Err
      else match cs_txs last with
      | [] => Panic                                  (* last.Transactions[0] *)
      | ltx :: _ =>
          if (ltx =? k_hash tx)%N then Ok tt
          else if negb (r0 =? ltx)%N then Err
          else if ks_ts s <=? cs_ts last then Err
          else Ok tt
      end
  end.

Fixpoint klookup (h : N) (l : list (N * ktx)) : option ktx :=
  match l with
  | [] => None
  | (k, v) :: r => if (h =? k)%N then Some v else klookup h r
  end.

(* kernel/self.go validateKernelSnapshot.  [mainnet]: networkId == KernelNetworkId.
   [type_ok]: the outcome of the operation specific validator (validateMintSnapshot,
   validateNodePledgeSnapshot, ...), abstract here. *)
Definition validate_kernel_snapshot (mainnet : bool) (s : ksnap) (found : list (N * ktx))
           (finalized : bool) (last : csnap) (type_ok : bool) : res unit :=
  if (1 <? Z.of_nat (length (ks_txs s))) then
    if forallb (fun e => is_batchable (k_type (snd e))) found then Ok tt else Err
  else if finalized && mainnet && (ks_ts s <? Consts.KsConsensusReferenceForkAt) then Ok tt
  else match ks_txs s with
  | [] => Panic                                      (* s.Transactions[0] *)
  | h :: _ =>
    match klookup h found with
    | None => Panic                                  (* nil transaction dereferenced *)
    | Some tx =>
      let ty := k_type tx in
      if negb (ks_self s) && (ks_round s =? 0) && negb (ty =? TNodeAccept) then Err
      else
        do _ <- validate_consensus_refs s tx last;
        if ty =? TMint then
          if finalized && (k_mint_batch tx <? Consts.KsMintDayGapSkipForkBatch) && mainnet then Ok tt
          else if type_ok then Ok tt else Err
        else if (ty =? TNodePledge) || (ty =? TNodeCancel) || (ty =? TNodeAccept)
                || (ty =? TNodeRemove) || (ty =? TCustodianUpdate) then
          if type_ok then Ok tt else Err
        else if ty =? TCustodianSlash then Err
        else Ok tt
    end
  end.

(* kernel/self.go validateSnapshotTransaction, as far as the kernel rules go:
   the members are processed in order; a member whose body is already in
   persistent storage ([m_stored]) is taken as is, one found only in the cache
   must pass Validate ([m_valid]); after each, validateKernelSnapshot runs on
   the map of the members found so far.  The rules do not look at where the
   body came from. *)
Record member := { m_hash : N; m_tx : ktx; m_stored : bool; m_valid : bool }.

Fixpoint snapshot_tx_rules (mainnet : bool) (s : ksnap) (finalized : bool) (last : csnap)
         (type_ok : bool) (found : list (N * ktx)) (ms : list member) : res unit :=
  match ms with
  | [] => Ok tt
  | m :: r =>
      if negb (m_stored m) && negb (m_valid m) then Err
      else
        let found' := (m_hash m, m_tx m) :: found in
        do _ <- validate_kernel_snapshot mainnet s found' finalized last type_ok;
        snapshot_tx_rules mainnet s finalized last type_ok found' r
  end.

(* ---- CONSENSUSSNAPSHOT records ------------------------------------------ *)

(* one record: key (timestamp, snapshot hash); the snapshot's transaction list
   (read through the SNAPSHOT record); value = hash of the next operation's
   transaction (empty = None).  [cr_ref] is the first reference of the recorded
   transaction: not part of the Badger value, it is the TRANSACTION body the
   record's sole hash points to; kept here so the chain can be stated. *)
Record crec := {
  cr_ts : Z;
  cr_snap : N;
  cr_txs : list N;
  cr_ref : option N;
  cr_next : option N
}.

Definition key_lt (a b : crec) : bool :=
  (cr_ts a <? cr_ts b) || ((cr_ts a =? cr_ts b) && (cr_snap a <? cr_snap b)%N).
Definition key_eq (a b : crec) : bool :=
  (cr_ts a =? cr_ts b) && (cr_snap a =? cr_snap b)%N.

(* readLastConsensusSnapshot: the record with the greatest key *)
Fixpoint read_last (h : list crec) : option crec :=
  match h with
  | [] => None
  | r :: t =>
      match read_last t with
      | None => Some r
      | Some m => if key_lt m r then Some r else Some m
      end
  end.

(* txn.Set: replace the record with the same key, else insert *)
Fixpoint cset (r : crec) (h : list crec) : list crec :=
  match h with
  | [] => [r]
  | x :: t => if key_eq x r then r :: t else x :: cset r t
  end.

(* what writeConsensusSnapshot reads of the snapshot and its transaction *)
Record cop := {
  co_ts : Z;
  co_snap : N;
  co_txs : list N;        (* snap.Transactions *)
  co_tx : N;              (* tx.PayloadHash() *)
  co_refs : list N;       (* tx.References *)
  co_mint : bool;         (* len(Inputs) == 1 && Inputs[0].Mint != nil *)
  co_out0 : option Z;     (* Outputs[0].Type *)
  co_genesis : bool       (* len(Inputs) == 1 && Inputs[0].Genesis != nil *)
}.

Definition consensus_out (o : Z) : bool :=
  (o =? ONodePledge) || (o =? ONodeCancel) || (o =? ONodeAccept) || (o =? ONodeRemove)
  || (o =? OCustodianUpdate) || (o =? OCustodianSlash).

(* storage/badger_graph.go writeConsensusSnapshot (hack == nil) *)
Definition write_consensus_snapshot (h : list crec) (o : cop) : res (list crec) :=
  match co_txs o with
  | [sole] =>
    if negb (sole =? co_tx o)%N then Panic
    else if negb (co_mint o) &&
            negb (match co_out0 o with Some t => consensus_out t | None => false end) then Panic
    else
      let fresh := {| cr_ts := co_ts o; cr_snap := co_snap o; cr_txs := co_txs o;
                      cr_ref := hd_error (co_refs o); cr_next := None |} in
      if co_genesis o then Ok (cset fresh h)
      else match read_last h with
      | None => Panic                                (* last == nil dereferenced *)
      | Some last =>
          if match cr_next last with Some _ => true | None => false end then Panic
          else match cr_txs last with
          | [lsole] =>
              if (lsole =? co_tx o)%N then Ok h
              else match co_refs o with
              | [] => Panic                          (* tx.References[0] *)
              | r0 :: _ =>
                  if negb (lsole =? r0)%N then Panic
                  else if co_ts o <=? cr_ts last then Panic
                  else
                    let linked := {| cr_ts := cr_ts last; cr_snap := cr_snap last;
                                     cr_txs := cr_txs last; cr_ref := cr_ref last;
                                     cr_next := Some (co_tx o) |} in
                    Ok (cset fresh (cset linked h))
              end
          | _ => Panic
          end
      end
  | _ => Panic
  end.

(* a history of attempted writes: a failed write leaves the store unchanged *)
Definition apply_cop (h : list crec) (o : cop) : list crec :=
  match write_consensus_snapshot h o with Ok h' => h' | _ => h end.

(* what "the recorded consensus history is a single chain" means: the records
   in write order; each holds one transaction, points at the next record's
   transaction, the next record's transaction references this one, timestamps
   strictly increase, the newest record points at nothing *)
Definition link (r1 r2 : crec) : Prop :=
  exists t1 t2, cr_txs r1 = [t1] /\ cr_txs r2 = [t2] /\ cr_next r1 = Some t2
                /\ cr_ref r2 = Some t1 /\ cr_ts r1 < cr_ts r2.
Inductive chain : list crec -> Prop :=
| chain_one r t : cr_txs r = [t] -> cr_next r = None -> chain [r]
| chain_cons r1 r2 l : link r1 r2 -> chain (r2 :: l) -> chain (r1 :: r2 :: l).

(* the executable form of [chain], run on the records read back from a store *)
Definition linkb (r1 r2 : crec) : bool :=
  match cr_txs r1, cr_txs r2, cr_next r1, cr_ref r2 with
  | [t1], [t2], Some n, Some p => (n =? t2)%N && (p =? t1)%N && (cr_ts r1 <? cr_ts r2)
  | _, _, _, _ => false
  end.
Fixpoint chainb (l : list crec) : bool :=
  match l with
  | [] => false
  | r :: tl =>
      match tl with
      | [] => match cr_txs r, cr_next r with [_], None => true | _, _ => false end
      | r2 :: _ => linkb r r2 && chainb tl
      end
  end.

(* ===================================================================== *)
(* Part B: ledger model for C16                                           *)
(* ===================================================================== *)

Section Assoc.
  Context {V : Type}.
  Fixpoint alookup (k : N) (l : list (N * V)) : option V :=
    match l with
    | [] => None
    | (k', v) :: r => if (k =? k')%N then Some v else alookup k r
    end.
  Definition aset (k : N) (v : V) (l : list (N * V)) : list (N * V) := (k, v) :: l.
End Assoc.

Definition amem {V} (k : N) (l : list (N * V)) : bool :=
  match alookup k l with Some _ => true | None => false end.

Fixpoint nmem (k : N) (l : list N) : bool :=
  match l with [] => false | x :: r => (k =? x)%N || nmem k r end.

(* common/asset.go GetAssetCapacity *)
Definition capacity (a : N) : Z :=
  if (a =? Consts.KsAssetBTC)%N then Consts.KsCapBTC
  else if (a =? Consts.KsAssetETH)%N then Consts.KsCapETH
  else if (a =? Consts.KsAssetXIN)%N then Consts.KsCapXIN
  else if (a =? Consts.KsAssetBOX)%N then Consts.KsCapBOX
  else if (a =? Consts.KsAssetMOB)%N then Consts.KsCapMOB
  else if (a =? Consts.KsAssetUSDTE)%N then Consts.KsCapUSDTE
  else if (a =? Consts.KsAssetUSDTT)%N then Consts.KsCapUSDTT
  else if (a =? Consts.KsAssetPUSD)%N then Consts.KsCapPUSD
  else if (a =? Consts.KsAssetUSDC)%N then Consts.KsCapUSDC
  else if (a =? Consts.KsAssetEOS)%N then Consts.KsCapEOS
  else if (a =? Consts.KsAssetSOL)%N then Consts.KsCapSOL
  else if (a =? Consts.KsAssetUNI)%N then Consts.KsCapUNI
  else if (a =? Consts.KsAssetDOGE)%N then Consts.KsCapDOGE
  else Consts.KsCapDefault.

Inductive linput :=
| LDeposit (key : N) (info : N) (amt : Z)   (* UniqueKey, (Chain,AssetKey) digest, Amount *)
| LMint (batch : Z) (amt : Z)
| LUtxos (ins : list (N * N)).              (* (hash, index) *)

Record lout := { o_type : Z; o_amt : Z; o_keys : list N }.

Record ltx := {
  l_hash : N;
  l_asset : N;
  l_in : linput;
  l_outs : list lout;
  l_refs : list N;
  l_sig : bool    (* every signature Validate verifies for this transaction is valid
                     (input key signatures; custodian signature of a deposit / claim) *)
}.

Definition l_kinds (t : ltx) : list ikind :=
  match l_in t with
  | LDeposit _ _ _ => [IKDeposit]
  | LMint _ _ => [IKMint]
  | LUtxos ins => map (fun _ => IKUtxo) ins
  end.
Definition l_type (t : ltx) : Z := tx_type (l_kinds t) (map o_type (l_outs t)).
Definition l_ktx (t : ltx) : ktx :=
  {| k_hash := l_hash t; k_ins := l_kinds t; k_outs := map o_type (l_outs t);
     k_refs := l_refs t;
     k_mint_batch := match l_in t with LMint b _ => b | _ => 0 end |}.

Record lutxo := { u_asset : N; u_amt : Z; u_type : Z; u_lock : N (* 0: unlocked *) }.

Record lstate := {
  st_totals : list (N * Z);          (* ASSETTOTAL *)
  st_infos : list (N * N);           (* ASSETINFO *)
  st_ghosts : list (N * N);          (* GHOST key -> transaction *)
  st_bodies : list (N * ltx);        (* TRANSACTION *)
  st_finals : list (N * N);          (* FINALIZATION transaction -> snapshot *)
  st_utxos : list (N * list (N * lutxo)); (* UTXO hash -> index -> output *)
  st_dlocks : list (N * N);          (* DEPOSIT unique key -> transaction *)
  st_mints : list (Z * (Z * N));     (* MINTUNIVERSAL batch -> (amount, transaction) *)
  st_uniq : list N                   (* UNIQUE (this node, transaction) *)
}.

Definition set_totals s v := {| st_totals := v; st_infos := st_infos s; st_ghosts := st_ghosts s;
  st_bodies := st_bodies s; st_finals := st_finals s; st_utxos := st_utxos s;
  st_dlocks := st_dlocks s; st_mints := st_mints s; st_uniq := st_uniq s |}.
Definition set_infos s v := {| st_totals := st_totals s; st_infos := v; st_ghosts := st_ghosts s;
  st_bodies := st_bodies s; st_finals := st_finals s; st_utxos := st_utxos s;
  st_dlocks := st_dlocks s; st_mints := st_mints s; st_uniq := st_uniq s |}.
Definition set_ghosts s v := {| st_totals := st_totals s; st_infos := st_infos s; st_ghosts := v;
  st_bodies := st_bodies s; st_finals := st_finals s; st_utxos := st_utxos s;
  st_dlocks := st_dlocks s; st_mints := st_mints s; st_uniq := st_uniq s |}.
Definition set_bodies s v := {| st_totals := st_totals s; st_infos := st_infos s; st_ghosts := st_ghosts s;
  st_bodies := v; st_finals := st_finals s; st_utxos := st_utxos s;
  st_dlocks := st_dlocks s; st_mints := st_mints s; st_uniq := st_uniq s |}.
Definition set_finals s v := {| st_totals := st_totals s; st_infos := st_infos s; st_ghosts := st_ghosts s;
  st_bodies := st_bodies s; st_finals := v; st_utxos := st_utxos s;
  st_dlocks := st_dlocks s; st_mints := st_mints s; st_uniq := st_uniq s |}.
Definition set_utxos s v := {| st_totals := st_totals s; st_infos := st_infos s; st_ghosts := st_ghosts s;
  st_bodies := st_bodies s; st_finals := st_finals s; st_utxos := v;
  st_dlocks := st_dlocks s; st_mints := st_mints s; st_uniq := st_uniq s |}.
Definition set_dlocks s v := {| st_totals := st_totals s; st_infos := st_infos s; st_ghosts := st_ghosts s;
  st_bodies := st_bodies s; st_finals := st_finals s; st_utxos := st_utxos s;
  st_dlocks := v; st_mints := st_mints s; st_uniq := st_uniq s |}.
Definition set_mints s v := {| st_totals := st_totals s; st_infos := st_infos s; st_ghosts := st_ghosts s;
  st_bodies := st_bodies s; st_finals := st_finals s; st_utxos := st_utxos s;
  st_dlocks := st_dlocks s; st_mints := v; st_uniq := st_uniq s |}.
Definition set_uniq s v := {| st_totals := st_totals s; st_infos := st_infos s; st_ghosts := st_ghosts s;
  st_bodies := st_bodies s; st_finals := st_finals s; st_utxos := st_utxos s;
  st_dlocks := st_dlocks s; st_mints := st_mints s; st_uniq := v |}.

Definition total_of (s : lstate) (a : N) : Z :=
  match alookup a (st_totals s) with Some v => v | None => 0 end.

Definition ulookup (h i : N) (s : lstate) : option lutxo :=
  match alookup h (st_utxos s) with
  | Some l => alookup i l
  | None => None
  end.
Definition uset (h i : N) (u : lutxo) (s : lstate) : lstate :=
  let l := match alookup h (st_utxos s) with Some l => l | None => [] end in
  set_utxos s (aset h (aset i u l) (st_utxos s)).

Fixpoint zlookup {V} (k : Z) (l : list (Z * V)) : option V :=
  match l with
  | [] => None
  | (k', v) :: r => if k =? k' then Some v else zlookup k r
  end.

(* ReadLastMintDistribution(^0): the distribution with the greatest batch *)
Fixpoint last_mint (l : list (Z * (Z * N))) : option (Z * (Z * N)) :=
  match l with
  | [] => None
  | e :: r =>
      match last_mint r with
      | None => Some e
      | Some m => if fst m <? fst e then Some e else Some m
      end
  end.

(* ---- Validate (common/validation.go), fork = false ---------------------- *)

(* validateReferences: at most ReferencesCountLimit references, every one a
   stored AND finalized transaction (ReadTransaction returns a body and a
   non-empty finalization) *)
Definition refs_ok (s : lstate) (refs : list N) : bool :=
  (Z.of_nat (length refs) <=? Consts.KsReferencesCountLimit) &&
  forallb (fun r => amem r (st_bodies s) && amem r (st_finals s)) refs.

(* validateUTXO: which transaction types may spend an output of a given type *)
Definition spendable_by (utype ty : Z) : bool :=
  if (utype =? OScript) || (utype =? ONodeRemove) then true
  else if utype =? ONodePledge then (ty =? TNodeAccept) || (ty =? TNodeCancel)
  else if utype =? ONodeAccept then ty =? TNodeRemove
  else false.

Fixpoint pmem (h i : N) (l : list (N * N)) : bool :=
  match l with
  | [] => false
  | (a, b) :: r => ((h =? a)%N && (i =? b)%N) || pmem h i r
  end.

(* validateInputs over UTXO inputs: total amount and the spent output types *)
Fixpoint check_utxo_inputs (s : lstate) (h asset : N) (ty : Z) (seen ins : list (N * N))
  : option (Z * list Z) :=
  match ins with
  | [] => Some (0, [])
  | (ih, ii) :: r =>
      if pmem ih ii seen then None
      else match ulookup ih ii s with
      | None => None
      | Some u =>
          if negb (u_asset u =? asset)%N then None
          else if negb (u_lock u =? 0)%N && negb (u_lock u =? h)%N then None
          else if negb (spendable_by (u_type u) ty) then None
          else match check_utxo_inputs s h asset ty ((ih, ii) :: seen) r with
          | None => None
          | Some (a, tys) => Some (u_amt u + a, u_type u :: tys)
          end
      end
  end.

Definition kernel_multisig_out (o : Z) : bool :=
  (o =? OWithdrawalSubmit) || (o =? OWithdrawalClaim) || (o =? ONodePledge)
  || (o =? ONodeCancel) || (o =? ONodeAccept).

Fixpoint all_keys (outs : list lout) : list N :=
  match outs with [] => [] | o :: r => o_keys o ++ all_keys r end.

Fixpoint nodup_keys (l : list N) : bool :=
  match l with [] => true | k :: r => negb (nmem k r) && nodup_keys r end.

(* validateOutputs, the per-output checks *)
Definition outputs_shape_ok (outs : list lout) : bool :=
  forallb (fun o => (0 <? o_amt o)
                    && (Z.of_nat (length (o_keys o)) <=? Consts.KsSliceCountLimit)
                    && (negb (kernel_multisig_out (o_type o)) || match o_keys o with [] => true | _ => false end))
          outs
  && nodup_keys (all_keys outs).

Definition sum_outs (outs : list lout) : Z := fold_right (fun o a => o_amt o + a) 0 outs.

(* LockGhostKeys, fork = false: every key unbound or bound to this transaction *)
Definition ghosts_free (s : lstate) (h : N) (keys : list N) : bool :=
  forallb (fun k => match alookup k (st_ghosts s) with
                    | None => true
                    | Some by_ => (by_ =? h)%N
                    end) keys.
Definition bind_ghosts (s : lstate) (h : N) (keys : list N) : lstate :=
  set_ghosts s (fold_left (fun g k => match alookup k g with
                                      | None => aset k h g
                                      | Some _ => g
                                      end) keys (st_ghosts s)).

Definition tail_all_script (outs : list lout) : bool :=
  match outs with [] => true | _ :: r => forallb (fun o => o_type o =? OScript) r end.
Definition head_type (outs : list lout) : Z :=
  match outs with [] => -1 | o :: _ => o_type o end.
Definition head_amt (outs : list lout) : Z :=
  match outs with [] => 0 | o :: _ => o_amt o end.

(* the type specific validators the model covers: script, mint, deposit,
   withdrawal submit, withdrawal claim; every other type is refused (node and
   custodian operations are outside what C16 quantifies over) *)
Definition type_specific (s : lstate) (t : ltx) (ty : Z) (utypes : list Z) : bool :=
  let outs := l_outs t in
  if ty =? TScript then
    forallb (fun u => (u =? OScript) || (u =? ONodeRemove)) utypes
  else if ty =? TMint then
    match l_in t with
    | LMint b a =>
        forallb (fun o => o_type o =? OScript) outs
        && (l_asset t =? Consts.KsAssetXIN)%N
        && match last_mint (st_mints s) with
           | None => true
           | Some (lb, (la, ltxh)) =>
               if b <? lb then false
               else if lb <? b then true
               else (ltxh =? l_hash t)%N && (la =? a)
           end
    | _ => false
    end
  else if ty =? TDeposit then
    match l_in t with
    | LDeposit key info amt =>
        match outs with [o] => o_type o =? OScript | _ => false end
        && negb (info =? 0)%N                             (* Asset.Verify *)
        && (0 <? amt)
        && match alookup (l_asset t) (st_infos s) with    (* verifyDepositData *)
           | None => true
           | Some old => (total_of s (l_asset t) + amt <? capacity (l_asset t)) && (old =? info)%N
           end
        && l_sig t                                        (* custodian signature *)
        && match alookup key (st_dlocks s) with           (* ReadDepositLock *)
           | None => true
           | Some by_ => (by_ =? l_hash t)%N
           end
    | _ => false
    end
  else if ty =? TWithdrawalSubmit then
    forallb (fun u => u =? OScript) utypes
    && tail_all_script outs
    && (head_type outs =? OWithdrawalSubmit)
  else if ty =? TWithdrawalClaim then
    forallb (fun u => u =? OScript) utypes
    && (l_asset t =? Consts.KsAssetXIN)%N
    && tail_all_script outs
    && (head_type outs =? OWithdrawalClaim)
    && (Consts.KsWithdrawalClaimFee <=? head_amt outs)
    && match l_refs t with
       | [r] => match alookup r (st_bodies s) with
                | Some sub => head_type (l_outs sub) =? OWithdrawalSubmit
                | None => false
                end
       | _ => false
       end
    && l_sig t                                            (* custodian signature in Extra *)
  else false.

Definition inputs_count (t : ltx) : Z :=
  match l_in t with LUtxos ins => Z.of_nat (length ins) | _ => 1 end.

(* VersionedTransaction.Validate(store, ts, false): new state (ghost keys may
   have been bound even when a later check refuses) and the decision *)
Definition validate_tx (s : lstate) (t : ltx) : lstate * bool :=
  let ty := l_type t in
  let h := l_hash t in
  let outs := l_outs t in
  if ty =? TUnknown then (s, false)
  else if (inputs_count t <? 1) || (Z.of_nat (length outs) <? 1) then (s, false)
  else if (Consts.KsSliceCountLimit <? inputs_count t)
          || (Consts.KsSliceCountLimit <? Z.of_nat (length outs))
          || (Consts.KsSliceCountLimit <? Z.of_nat (length (l_refs t))) then (s, false)
  else if negb (refs_ok s (l_refs t)) then (s, false)
  else
    let inp := match l_in t with
               | LDeposit _ _ amt => Some (amt, [], true)
               | LMint _ amt => Some (amt, [], true)
               | LUtxos ins =>
                   match check_utxo_inputs s h (l_asset t) ty [] ins with
                   | Some (a, tys) => Some (a, tys, l_sig t)
                   | None => None
                   end
               end in
    match inp with
    | None => (s, false)
    | Some (amt, utypes, sigs) =>
        if negb sigs then (s, false)
        else if amt <=? 0 then (s, false)
        else if negb (outputs_shape_ok outs) then (s, false)
        else if negb (sum_outs outs =? amt) then (s, false)
        else if negb (ghosts_free s h (all_keys outs)) then (s, false)
        else
          let s1 := bind_ghosts s h (all_keys outs) in
          (s1, type_specific s1 t ty utypes)
    end.

(* ---- lockAndPersistTransaction (kernel/self.go) -------------------------- *)

Fixpoint lock_utxos (s : lstate) (h : N) (ins : list (N * N)) : option lstate :=
  match ins with
  | [] => Some s
  | (ih, ii) :: r =>
      match ulookup ih ii s with
      | None => None
      | Some u =>
          if negb (u_lock u =? 0)%N && negb (u_lock u =? h)%N then None
          else lock_utxos (uset ih ii {| u_asset := u_asset u; u_amt := u_amt u;
                                         u_type := u_type u; u_lock := h |} s) h r
      end
  end.

(* LockInputs, fork = false; each store call is one Badger update (atomic) *)
Definition lock_inputs (s : lstate) (t : ltx) : option lstate :=
  let h := l_hash t in
  if l_type t =? TMint then
    match l_in t with
    | LMint b a =>
        match zlookup b (st_mints s) with
        | None => Some (set_mints s ((b, (a, h)) :: st_mints s))
        | Some (a', h') => if (h' =? h)%N && (a' =? a) then Some s else None
        end
    | _ => None
    end
  else if l_type t =? TDeposit then
    match l_in t with
    | LDeposit key _ _ =>
        match alookup key (st_dlocks s) with
        | None => Some (set_dlocks s (aset key h (st_dlocks s)))
        | Some by_ => if (by_ =? h)%N then Some s else None
        end
    | _ => None
    end
  else match l_in t with
  | LUtxos ins => lock_utxos s h ins
  | _ => None
  end.

(* WriteTransaction: keep an existing body; verifyAssetInfo for a deposit *)
Definition persist_tx (s : lstate) (t : ltx) : option lstate :=
  if amem (l_hash t) (st_bodies s) then Some s
  else
    let ok := match l_in t with
              | LDeposit _ info _ =>
                  match alookup (l_asset t) (st_infos s) with
                  | None => true
                  | Some old => (old =? info)%N
                  end
              | _ => true
              end in
    if ok then Some (set_bodies s (aset (l_hash t) t (st_bodies s))) else None.

Definition lock_and_persist (s : lstate) (t : ltx) : option lstate :=
  match lock_inputs s t with
  | None => None
  | Some s1 => persist_tx s1 t
  end.

(* ---- validateSnapshotTransaction (kernel/self.go), finalized = false ----- *)

Record lsnap := { ls_hash : N; ls_txs : list N }.

(* the batch rule of validateKernelSnapshot as reached from here: a snapshot of
   this node's own chain (round > 0).  Single consensus-class transactions go
   to their operation specific validator, which this model does not cover: the
   model refuses them ([type_ok] = false). *)
Definition batch_rules (sn : lsnap) (found : list (N * ltx)) (last : csnap) : bool :=
  is_ok (validate_kernel_snapshot false
           {| ks_self := true; ks_round := 1; ks_ts := cs_ts last + 1; ks_txs := ls_txs sn |}
           (map (fun e => (fst e, l_ktx (snd e))) found) false last false).

Fixpoint validate_loop (s : lstate) (sn : lsnap) (pool : list (N * ltx)) (last : csnap)
         (found : list (N * ltx)) (missing : bool) (hs : list N) : lstate * bool :=
  match hs with
  | [] => (s, negb missing)
  | h :: r =>
      match alookup h (st_bodies s) with
      | Some t =>
          if match alookup h (st_finals s) with
             | Some sh => negb (sh =? ls_hash sn)%N
             | None => false
             end then (s, false)
          else
            let found' := aset h t found in
            if batch_rules sn found' last then validate_loop s sn pool last found' missing r
            else (s, false)
      | None =>
          match alookup h pool with
          | None => validate_loop s sn pool last found true r
          | Some t =>
              let (s1, ok) := validate_tx s t in
              if negb ok then (s1, false)
              else
                let found' := aset h t found in
                if negb (batch_rules sn found' last) then (s1, false)
                else match lock_and_persist s1 t with
                     | None => (s1, false)
                     | Some s2 => validate_loop s2 sn pool last found' missing r
                     end
          end
      end
  end.

Definition validate_batch (s : lstate) (sn : lsnap) (pool : list (N * ltx)) (last : csnap)
  : lstate * bool :=
  validate_loop s sn pool last [] false (ls_txs sn).

(* ---- finalization (storage) ---------------------------------------------- *)

(* writeAssetInfo *)
Definition write_asset_info (s : lstate) (a info : N) : res lstate :=
  match alookup a (st_infos s) with
  | None => Ok (set_infos s (aset a info (st_infos s)))
  | Some old => if (old =? info)%N then Ok s else Err
  end.

(* lockGhostKey(fork = true) for every key of one output; the three hard coded
   transaction hashes of the mainnet exception list are not modelled *)
Fixpoint lock_ghosts (s : lstate) (h : N) (keys : list N) : res lstate :=
  match keys with
  | [] => Ok s
  | k :: r =>
      match alookup k (st_ghosts s) with
      | None => lock_ghosts (set_ghosts s (aset k h (st_ghosts s))) h r
      | Some by_ => if (by_ =? h)%N then lock_ghosts s h r else Err
      end
  end.

(* UnspentOutputs keeps these output types, skips withdrawal submit and
   custodian slash, panics on anything else *)
Definition utxo_out (o : Z) : option bool :=
  if (o =? OScript) || (o =? ONodePledge) || (o =? ONodeCancel) || (o =? ONodeAccept)
     || (o =? ONodeRemove) || (o =? OWithdrawalClaim) || (o =? OCustodianUpdate) then Some true
  else if (o =? OWithdrawalSubmit) || (o =? OCustodianSlash) then Some false
  else None.

(* writeUTXO for output number [i] *)
Definition write_utxo (s : lstate) (t : ltx) (i : Z) (o : lout) : res lstate :=
  do s1 <- lock_ghosts s (l_hash t) (o_keys o);
  if Consts.KsInputIndexLimit <? i then Panic            (* graphUtxoKey *)
  else
    let s2 := uset (l_hash t) (Z.to_N i)
                   {| u_asset := l_asset t; u_amt := o_amt o; u_type := o_type o; u_lock := 0%N |} s1 in
    if o_type o =? OWithdrawalClaim then
      match l_refs t with
      | [] => Panic                                      (* ver.References[0] *)
      | r :: _ =>                                        (* writeWithdrawalClaim *)
          if amem r (st_bodies s2) && amem r (st_finals s2) then Ok s2 else Panic
      end
    else if (o_type o =? ONodePledge) || (o_type o =? ONodeCancel) || (o_type o =? ONodeAccept)
            || (o_type o =? ONodeRemove) || (o_type o =? OCustodianUpdate) then
      Err       (* writeNodePledge/...: membership and custodian records, not modelled *)
    else Ok s2.

Fixpoint write_utxos (s : lstate) (t : ltx) (i : Z) (outs : list lout) : res lstate :=
  match outs with
  | [] => Ok s
  | o :: r =>
      match utxo_out (o_type o) with
      | None => Panic
      | Some false => write_utxos s t (i + 1) r
      | Some true => do s1 <- write_utxo s t i o; write_utxos s1 t (i + 1) r
      end
  end.

Fixpoint sub_submits (total : Z) (outs : list lout) : res Z :=
  match outs with
  | [] => Ok total
  | o :: r =>
      if o_type o =? OWithdrawalSubmit
      then do t1 <- i_sub total (o_amt o); sub_submits t1 r
      else sub_submits total r
  end.

(* storage/badger_asset.go writeTotalInAsset *)
Definition write_total (s : lstate) (t : ltx) : res lstate :=
  match alookup (l_asset t) (st_infos s) with
  | None => Panic                                        (* asset == nil *)
  | Some _ =>
      let total := total_of s (l_asset t) in
      let ty := l_type t in
      let upd : option (res Z) :=
        if ty =? TWithdrawalSubmit then Some (sub_submits total (l_outs t))
        else if ty =? TDeposit then
          match l_in t with LDeposit _ _ d => Some (i_add total d) | _ => Some Panic end
        else if ty =? TMint then
          match l_in t with LMint _ a => Some (i_add total a) | _ => Some Panic end
        else None in
      match upd with
      | None => Ok s
      | Some r =>
          do total' <- r;
          if capacity (l_asset t) <? total' then Panic   (* total.Cmp(max) > 0 *)
          else Ok (set_totals s (aset (l_asset t) total' (st_totals s)))
      end
  end.

(* storage/badger_transaction.go finalizeTransaction *)
Definition finalize_tx (s : lstate) (snap : N) (t : ltx) : res lstate :=
  if amem (l_hash t) (st_finals s) then Ok s
  else
    let s1 := set_finals s (aset (l_hash t) snap (st_finals s)) in
    do s2 <- match l_in t with
             | LDeposit _ info _ => write_asset_info s1 (l_asset t) info
             | _ => Ok s1
             end;
    do s3 <- write_utxos s2 t 0 (l_outs t);
    write_total s3 t.

(* writeSnapshot: the member loop *)
Fixpoint write_members (s : lstate) (snap : N) (hs : list N) : res lstate :=
  match hs with
  | [] => Ok s
  | h :: r =>
      match alookup h (st_bodies s) with
      | None => Panic                                    (* nil transaction dereferenced *)
      | Some t =>
          do s1 <- finalize_tx s snap t;
          write_members (set_uniq s1 (h :: st_uniq s1)) snap r
      end
  end.

(* storage/badger_graph.go WriteSnapshot: the debug assertions about members
   (config.Debug is on), then writeSnapshot.  The assertions about the round
   the snapshot is placed in, the SNAPSHOT/TOPOLOGY records and the work
   counters concern the snapshot, not its transactions, and are not modelled. *)
Definition write_snapshot (s : lstate) (sn : lsnap) : res lstate :=
  if existsb (fun h => negb (amem h (st_bodies s))) (ls_txs sn) then Panic
  else if existsb (fun h => nmem h (st_uniq s)) (ls_txs sn) then Panic
  else write_members s (ls_hash sn) (ls_txs sn).

(* one step of a ledger history: a snapshot proposed on this node's chain is
   validated member by member and, if accepted, finalized *)
Definition step (s : lstate) (sn : lsnap) (pool : list (N * ltx)) (last : csnap)
  : lstate * bool * option (res lstate) :=
  let (s1, ok) := validate_batch s sn pool last in
  if ok then (s1, true, Some (write_snapshot s1 sn)) else (s1, false, None).

(* a mint step as the harness performs it: Validate, LockInputs,
   WriteTransaction directly (the kernel's mint schedule validation is outside
   this model), then finalization *)
Definition direct_step (s : lstate) (sn : lsnap) (t : ltx) : lstate * bool * option (res lstate) :=
  let (s1, ok) := validate_tx s t in
  if negb ok then (s1, false, None)
  else match lock_and_persist s1 t with
       | None => (s1, false, None)
       | Some s2 => (s2, true, Some (write_snapshot s2 sn))
       end.

(* the ledger right after genesis as far as this model reads it: XIN is
   recorded with the genesis supply *)
Definition genesis_state (xin_info : N) (supply : Z) : lstate :=
  {| st_totals := [(Consts.KsAssetXIN, supply)]; st_infos := [(Consts.KsAssetXIN, xin_info)];
     st_ghosts := []; st_bodies := []; st_finals := []; st_utxos := [];
     st_dlocks := []; st_mints := []; st_uniq := [] |}.
