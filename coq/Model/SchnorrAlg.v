(* Model of crypto/signature.go (Key.Verify / VerifyWithChallenge) and of
   crypto/batch.go (BatchVerify, BatchVerifier.Verify) in the discrete-log
   representation of the prime-order group: a point P = p*B is the scalar
   p in Z_l, the group law is addition mod l.  decodePoint (crypto/point.go)
   refuses every encoding that is not the canonical encoding of a prime-order
   point, so on accepted encodings "point" and "scalar mod l" correspond one to
   one, which is what lets the challenge hash take the scalars as its input.
   l and the challenge hash are parameters.  Executable; no proofs here. *)
From Coq Require Import List ZArith Bool.
Require Import Mixin.Base.Res.
Import ListNotations.
Open Scope Z_scope.

Section Alg.
Variable l : Z.

(* Scalar.SetCanonicalBytes on sig[32:] *)
Definition canonical (s : Z) : bool := (0 <=? s) && (s <? l).

(* VerifyWithChallenge: R' = k*(-A) + s*B, R' == R *)
Definition verify_ch (k a r s : Z) : bool :=
  canonical s && ((s - k * a) mod l =? r mod l).

(* the challenge: SHA-512(R || A || m) reduced mod l *)
Variable H : Z -> Z -> Z -> Z.

(* Key.Verify(m, (R, s)) for the key a*B *)
Definition verify (a m r s : Z) : bool := verify_ch (H r a m) a r s.

(* a batch entry: key a, commitment r, response s, challenge k *)
Definition entry := (Z * Z * Z * Z)%type.
Definition e_a (e : entry) := fst (fst (fst e)).
Definition e_r (e : entry) := snd (fst (fst e)).
Definition e_s (e : entry) := snd (fst e).
Definition e_k (e : entry) := snd e.

Definition entry_ok (e : entry) : bool := verify_ch (e_k e) (e_a e) (e_r e) (e_s e).

(* Bcoeff before negation: sum z_i*s_i;  sum z_i*R_i;  sum (z_i*k_i)*A_i *)
Fixpoint sum_zs (zs : list Z) (es : list entry) : Z :=
  match zs, es with
  | z :: zs', e :: es' => z * e_s e + sum_zs zs' es'
  | _, _ => 0
  end.
Fixpoint sum_zr (zs : list Z) (es : list entry) : Z :=
  match zs, es with
  | z :: zs', e :: es' => z * e_r e + sum_zr zs' es'
  | _, _ => 0
  end.
Fixpoint sum_zka (zs : list Z) (es : list entry) : Z :=
  match zs, es with
  | z :: zs', e :: es' => (z * e_k e) * e_a e + sum_zka zs' es'
  | _, _ => 0
  end.

(* BatchVerifier.Verify with the drawn coefficients zs (one per entry):
   every s canonical, then  8 * ( -(sum z s)*B + sum z R + sum (z k) A ) = 0 *)
Definition batch_check (zs : list Z) (es : list entry) : bool :=
  forallb (fun e => canonical (e_s e)) es &&
  ((8 * (- sum_zs zs es + sum_zr zs es + sum_zka zs es)) mod l =? 0).

(* crypto.BatchVerify *)
Definition batch_verify (zs : list Z) (es : list entry) : bool :=
  match es with
  | [] => false
  | [e] => entry_ok e
  | _ => batch_check zs es
  end.

End Alg.
