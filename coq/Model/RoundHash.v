(* Model of the two round-hash implementations:
     common/round.go            ComputeRoundHash   (live node)        -> round_hash_common
     storage/badger_validation.go computeRoundHash (startup validator) -> round_hash_storage
   Two separate transcriptions.  Both are parameterised by the sorting
   procedure ([sort.Slice] is not stable and its algorithm is not modelled: any
   function returning a sorted permutation w.r.t. the comparator may be used)
   and by the hash function, which is an abstract function of the field sequence
   fed to Blake3: HSeed node number = node[32] || number[8 bytes big endian],
   HLink prev h = prev[32] || h[32].  uint64 addition wraps explicitly.
   Executable; no proofs in this file. *)
From Coq Require Import List ZArith NArith Bool.
Require Import Mixin.Base.Res Mixin.Gen.Consts.
Import ListNotations.
Open Scope N_scope.

Definition two64 : N := 2 ^ 64.
Definition round_gap : N := Z.to_N Consts.RoundGap.      (* config.SnapshotRoundGap *)
Definition add64 (a b : N) : N := (a + b) mod two64.

(* common.Snapshot, the fields the round code reads.  Hashes are 32-byte values
   as one big-endian N (byte order = numeric order, so bytes.Compare is <). *)
Record snap := mk_snap {
  s_hash : N; s_ts : N; s_version : N; s_round : N; s_txs : list N }.

(* common.SnapshotWithTopologicalOrder *)
Record tsnap := mk_tsnap { t_snap : snap; t_topo : N }.

(* the comparator of both sort.Slice calls: (timestamp, hash) lexicographic *)
Definition key_lt (a b : N * N) : bool :=
  (fst a <? fst b) || ((fst a =? fst b) && (snd a <? snd b)).
Definition skey (s : snap) : N * N := (s_ts s, s_hash s).
Definition snap_lt (a b : snap) : bool :=
  if s_ts a <? s_ts b then true
  else if s_ts b <? s_ts a then false
  else s_hash a <? s_hash b.
Definition tsnap_lt (a b : tsnap) : bool :=
  if s_ts (t_snap a) <? s_ts (t_snap b) then true
  else if s_ts (t_snap b) <? s_ts (t_snap a) then false
  else s_hash (t_snap a) <? s_hash (t_snap b).

Inductive hin :=
| HSeed (node number : N)
| HLink (prev h : N).

Section RoundHash.
Variable H : hin -> N.

(* ---- common/round.go ---------------------------------------------------- *)
Section Common.
Variable sort : list snap -> list snap.

Fixpoint max_version (v : N) (l : list snap) : N :=
  match l with
  | [] => v
  | s :: t => max_version (if v <? s_version s then s_version s else v) t
  end.

Fixpoint chain_common (version end_ h : N) (l : list snap) : res N :=
  match l with
  | [] => Ok h
  | s :: t =>
      if version <? s_version s then Panic
      else if end_ <? s_ts s then Panic
      else chain_common version end_ (H (HLink h (s_hash s))) t
  end.

(* (start, end, hash); snapshots[0] on an empty slice is an index panic *)
Definition round_hash_common (node number : N) (l : list snap) : res (N * N * N) :=
  match sort l with
  | [] => Panic
  | (s0 :: _) as sl =>
      let start := s_ts s0 in
      let end_ := s_ts (last sl s0) in
      if add64 start round_gap <=? end_ then Panic
      else
        let version := max_version (s_version s0) sl in
        do h <- chain_common version end_ (H (HSeed node number)) sl;
        Ok (start, end_, h)
  end.
End Common.

(* ---- storage/badger_validation.go ---------------------------------------- *)
Section Storage.
Variable sort_t : list tsnap -> list tsnap.

Fixpoint max_version_t (v : N) (l : list tsnap) : N :=
  match l with
  | [] => v
  | s :: t => max_version_t (if v <? s_version (t_snap s) then s_version (t_snap s) else v) t
  end.

Fixpoint chain_storage (version end_ h : N) (l : list tsnap) : res N :=
  match l with
  | [] => Ok h
  | s :: t =>
      if version <? s_version (t_snap s) then Panic
      else if end_ <? s_ts (t_snap s) then Panic
      else chain_storage version end_ (H (HLink h (s_hash (t_snap s)))) t
  end.

Definition round_hash_storage (node number : N) (l : list tsnap) : res (N * N * N) :=
  match sort_t l with
  | [] => Panic
  | (s0 :: _) as sl =>
      let start := s_ts (t_snap s0) in
      let end_ := s_ts (t_snap (last sl s0)) in
      if add64 start round_gap <=? end_ then Panic
      else
        let version := max_version_t (s_version (t_snap s0)) sl in
        do h <- chain_storage version end_ (H (HSeed node number)) sl;
        Ok (start, end_, h)
  end.
End Storage.
End RoundHash.

(* ---- concrete sorts used when the model is run (any sorted permutation gives
        the same result: Proofs/RoundHash.v) ------------------------------------ *)
Section Insertion.
Context {A : Type} (lt : A -> A -> bool).
Fixpoint insert_by (x : A) (l : list A) : list A :=
  match l with
  | [] => [x]
  | y :: t => if lt y x then y :: insert_by x t else x :: l
  end.
Definition isort_by (l : list A) : list A := fold_right insert_by [] l.
End Insertion.

Definition isort_snap : list snap -> list snap := isort_by snap_lt.
Definition isort_tsnap : list tsnap -> list tsnap := isort_by tsnap_lt.

(* hash function given by a finite table of observed Blake3 evaluations *)
Definition hin_eqb (a b : hin) : bool :=
  match a, b with
  | HSeed n k, HSeed n' k' => (n =? n') && (k =? k')
  | HLink p h, HLink p' h' => (p =? p') && (h =? h')
  | _, _ => false
  end.
Fixpoint table_hash (tbl : list (hin * N)) (x : hin) : N :=
  match tbl with
  | [] => 0
  | (y, v) :: t => if hin_eqb x y then v else table_hash t x
  end.
