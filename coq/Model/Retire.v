(* Executable model of the paths of kernel/cosi.go that retire a local snapshot
   proposal, and of kernel/queue.go:requeueTransactions, over the cache model
   (C24).

   State of a chain's CoSi loop: the aggregator map (snapshot hash -> local
   proposal with its commitment / response counts) and the verifier map
   (snapshot hash or transaction hash -> verifier object; objects are compared
   by pointer, here by a number).  Go maps are association lists; the
   functions below fold over them in list order, the theorems hold for every
   list, hence for every iteration order of the Go map.

   The persistent store seen by requeueTransactions through ReadTransaction:
   [ptx] = hashes with a persistent body (and the body), [pfin] = hashes with a
   finalization record.  ReadTransaction reports "finalized" only for a hash
   that has a persistent body.  The store is not written by any of these paths.

   Clock: CacheQueueTransaction stamps a queue entry with the wall clock; the
   model threads a counter [clk] (one tick per queueing).  No theorem depends on
   the stamps.  No proofs here. *)
From Coq Require Import List ZArith NArith Bool.
Require Import Mixin.Base.Res Mixin.Gen.Consts Mixin.Model.Cache.
Import ListNotations.
Open Scope N_scope.

Record snap := mkSnap { s_hash : N; s_ts : N; s_txs : list N }.

(* a_base = ConsensusThreshold(snapshot timestamp, false) of the node *)
Record agg := mkAgg { a_snap : snap; a_commit : Z; a_resp : Z; a_base : Z }.

Record pstore := mkPstore { ptx : list (N * N); pfin : list N }.

Record rstate := mkR {
  aggs : list agg;
  vers : list (N * N);      (* key -> verifier object *)
  cch : cache;
  clk : N
}.

Definition round_gap : N := Z.to_N Consts.C24SnapshotRoundGap.

(* storage.ReadTransaction: (body, finalized) *)
Definition read_tx (ps : pstore) (h : N) : option N * bool :=
  match aget h (ptx ps) with
  | None => (None, false)
  | Some b => (Some b, mem h (pfin ps))
  end.

(* requeueTransactions, one hash *)
Definition requeue_one (ps : pstore) (st : cache * N) (h : N) : cache * N :=
  let (c, t) := st in
  match read_tx ps h with
  | (_, true) => (c, t)
  | (Some b, false) => (queue_tx t h b c, t + 1)
  | (None, false) =>
    match get_tx h c with
    | Ok (Some b) => (queue_tx t h b c, t + 1)
    | _ => (c, t)
    end
  end.

Definition requeue (ps : pstore) (hs : list N) (st : cache * N) : cache * N :=
  fold_left (requeue_one ps) hs st.

Definition agg_hash (a : agg) : N := s_hash (a_snap a).

Definition opt_eqb (a b : option N) : bool :=
  match a, b with
  | Some x, Some y => x =? y
  | None, None => true
  | _, _ => false
  end.

(* abandonCosiSnapshot *)
Definition abandon_vers (s : snap) (vs : list (N * N)) : list (N * N) :=
  let v := aget (s_hash s) vs in
  fold_left (fun m tx => if opt_eqb (aget tx m) v then adel tx m else m)
            (s_txs s) (adel (s_hash s) vs).

Definition abandon (s : snap) (st : rstate) : rstate :=
  mkR (filter (fun a => negb (agg_hash a =? s_hash s)) (aggs st))
      (abandon_vers s (vers st)) (cch st) (clk st).

(* retryCosiSnapshot *)
Definition retry (ps : pstore) (s : snap) (st : rstate) : rstate :=
  let st1 := abandon s st in
  let (c, t) := requeue ps (s_txs s) (cch st1, clk st1) in
  mkR (aggs st1) (vers st1) c t.

(* resetCosiStateForNewRound *)
Fixpoint reset_collect (owned : list N) (txs : list N) (seen : list N) : list N :=
  match txs with
  | [] => seen
  | tx :: txs' =>
    if mem tx owned || mem tx seen then reset_collect owned txs' seen
    else reset_collect owned txs' (seen ++ [tx])
  end.

Definition reset_retry (owned : list N) (ags : list agg) : list N :=
  fold_left (fun seen a => reset_collect owned (s_txs (a_snap a)) seen) ags [].

Definition reset (ps : pstore) (owned : list N) (st : rstate) : rstate :=
  let (c, t) := requeue ps (reset_retry owned (aggs st)) (cch st, clk st) in
  mkR [] [] c t.

(* expireCosiAggregators: uint64 arithmetic of s.Timestamp+SnapshotRoundGap *)
Definition not_yet (now : N) (a : agg) : bool :=
  now <? (s_ts (a_snap a) + round_gap) mod 2 ^ 64.
Definition complete (a : agg) : bool :=
  (a_base a <=? a_commit a)%Z && (a_resp a =? a_commit a)%Z.
Definition expires (now : N) (a : agg) : bool := negb (not_yet now a) && negb (complete a).

Definition expire (ps : pstore) (now : N) (st : rstate) : rstate :=
  fold_left (fun s a => if expires now a then retry ps (a_snap a) s else s) (aggs st) st.

(* kernel/node.go CacheQueueTransactions / CacheStoreTransactions: the cache
   calls behind a filter on the persistent store (queue: skip finalized
   transactions; store: skip transactions that already have a persistent body).
   A transaction is (payload hash, body). *)
Definition node_queue_one (ps : pstore) (st : cache * N) (tx : N * N) : cache * N :=
  let (c, t) := st in
  if snd (read_tx ps (fst tx)) then (c, t) else (queue_tx t (fst tx) (snd tx) c, t + 1).
Definition node_queue (ps : pstore) (txs : list (N * N)) (st : cache * N) : cache * N :=
  fold_left (node_queue_one ps) txs st.

Definition node_store_one (ps : pstore) (c : cache) (tx : N * N) : cache :=
  match fst (read_tx ps (fst tx)) with
  | Some _ => c
  | None => store_tx (fst tx) (snd tx) c
  end.
Definition node_store (ps : pstore) (txs : list (N * N)) (c : cache) : cache :=
  fold_left (node_store_one ps) txs c.
