(* Model of the round transitions: kernel/graph.go startNewRoundAndPersist
   (validateNewRound, updateExternal, assignNewGraphRound) and
   updateEmptyHeadRoundAndPersist, over storage/badger_round.go StartNewRound /
   UpdateEmptyHeadRound with their ROUND and LINK records.
   A world is the durable records plus, per chain, the in-memory ChainState
   (final round, cache round, RoundLinks).  The checks that read the clock and
   other chains' progress (checkReferenceSanity, determineBestRound) enter as
   the boolean [sanity]: they can only reject.  RoundHistory is not modelled; its
   last number always equals FinalRound.Number, which is what
   assignNewGraphRound compares.  Durable SNAPSHOT records are not modelled (the
   head round's durable snapshot list is taken to be empty).
   Executable; no proofs in this file. *)
From Coq Require Import List ZArith NArith Bool.
Require Import Mixin.Base.Res Mixin.Gen.Consts Mixin.Model.RoundHash Mixin.Model.LiveRound.
Import ListNotations.
Open Scope N_scope.

Definition debug_asserts : bool := negb (Consts.RoundDebugAsserts =? 0)%Z.   (* config.Debug *)

(* common.Round as stored under ROUND/<key>; nil references are (0, 0) *)
Record round_rec := mk_rr {
  r_hash : N; r_node : N; r_number : N; r_ts : N; r_self : N; r_ext : N }.
Record final_round := mk_fr { f_node : N; f_number : N; f_start : N; f_end : N; f_hash : N }.
Record cache_round := mk_cr {
  c_node : N; c_number : N; c_ts : N; c_self : N; c_ext : N; c_snaps : list snap }.
Record chain := mk_chain {
  ch_id : N; ch_final : final_round; ch_cache : cache_round; ch_links : list (N * N) }.
(* association lists, the first binding of a key is the current one *)
Record durable := mk_dur { d_rounds : list (N * round_rec); d_links : list ((N * N) * N) }.
Record world := mk_world { w_dur : durable; w_chains : list chain }.

Fixpoint find_round (k : N) (l : list (N * round_rec)) : option round_rec :=
  match l with
  | [] => None
  | (k', v) :: t => if k =? k' then Some v else find_round k t
  end.
Fixpoint find_link (from to : N) (l : list ((N * N) * N)) : N :=
  match l with
  | [] => 0                                   (* ErrKeyNotFound reads as 0 *)
  | ((f, t), v) :: r => if (from =? f) && (to =? t) then v else find_link from to r
  end.
Fixpoint get_link (n : N) (l : list (N * N)) : N :=
  match l with
  | [] => 0                                   (* Go map zero value *)
  | (k, v) :: t => if n =? k then v else get_link n t
  end.

Definition dur_link (d : durable) (from to : N) : N := find_link from to (d_links d).
Definition put_round (k : N) (v : round_rec) (d : durable) : durable :=
  mk_dur ((k, v) :: d_rounds d) (d_links d).
Definition put_link (from to v : N) (d : durable) : durable :=
  mk_dur (d_rounds d) (((from, to), v) :: d_links d).

(* storage readRound: panics on a stored record whose hash is all zero *)
Definition read_round (d : durable) (k : N) : res (option round_rec) :=
  match find_round k (d_rounds d) with
  | None => Ok None
  | Some r => if r_hash r =? 0 then Panic else Ok (Some r)
  end.

(* ---- storage/badger_round.go ------------------------------------------------------- *)

(* StartNewRound(node, number, {self, ext}, finalStart): Panic, or the new records *)
Definition store_start_new_round (d : durable) (node number self ext final_start : N) : res durable :=
  let asserts : res unit :=
    if debug_asserts && negb (number =? 0) then
      do so <- read_round d node;
      do eo <- read_round d ext;
      match so with
      | None => Panic                                        (* self final assert error *)
      | Some s =>
          if negb (r_number s =? number - 1) then Panic      (* self round number mismatch *)
          else match eo with
          | None => Panic                                    (* external final not exist *)
          | Some e =>
              if r_node e =? r_node s then Panic             (* self references loop *)
              else
                do old <- read_round d self;
                match old with
                | Some _ => Panic                            (* self final already exist *)
                | None =>
                    if r_number e <? dur_link d node (r_node e) then Panic   (* external link backward *)
                    else Ok tt
                end
          end
      end
    else Ok tt in
  do _ <- asserts;
  do d1 <-
    (if negb (number =? 0) then
       do so <- read_round d node;
       do eo <- read_round d ext;
       match so, eo with
       | Some s, Some e =>
           let d' := put_link node (r_node e) (r_number e) d in
           Ok (put_round self (mk_rr self (r_node s) (r_number s) final_start (r_self s) (r_ext s)) d')
       | _, _ => Panic                                       (* nil dereference *)
       end
     else Ok d);
  Ok (put_round node (mk_rr node node number 0 self ext) d1).

(* UpdateEmptyHeadRound(node, number, {self, ext}) *)
Definition store_update_empty_head (d : durable) (node number self ext : N) : res durable :=
  do so <- read_round d node;
  match so with
  | None => Panic                                            (* nil dereference *)
  | Some s =>
      if negb (r_number s =? number) then Panic              (* round number assert error *)
      else if negb (r_self s =? self) then Panic             (* self reference assert error *)
      else
        do eo <- read_round d ext;
        match eo with
        | None => Panic                                      (* external final not exist *)
        | Some e =>
            if r_node e =? r_node s then Panic               (* self references loop *)
            else
              let d' := put_link node (r_node e) (r_number e) d in
              Ok (put_round node (mk_rr node node number 0 self ext) d')
        end
  end.

(* ---- kernel/graph.go ------------------------------------------------------------------ *)

(* updateExternal: the new RoundLinks, an error (nothing touched), or the mirror panic *)
Definition update_external (d : durable) (fnode : N) (links : list (N * N)) (e : round_rec)
           (strict sanity : bool) : res (list (N * N)) :=
  if fnode =? r_node e then Err                                       (* external reference self *)
  else if r_number e <? get_link (r_node e) links then Err            (* external reference back link *)
  else if negb (dur_link d fnode (r_node e) =? get_link (r_node e) links) then Panic
  else if strict && negb sanity then Err                              (* sanity / too early *)
  else Ok ((r_node e, r_number e) :: links).

Definition set_snaps (c : chain) (l : list snap) : chain :=
  let k := ch_cache c in
  mk_chain (ch_id c) (ch_final c) (mk_cr (c_node k) (c_number k) (c_ts k) (c_self k) (c_ext k) l) (ch_links c).
Definition set_links (c : chain) (l : list (N * N)) : chain :=
  mk_chain (ch_id c) (ch_final c) (ch_cache c) l.

Section Transitions.
Variable H : hin -> N.
Variable sort : list snap -> list snap.        (* sort.Slice of ComputeRoundHash *)
Variable sort_ts : list snap -> list snap.     (* sort.Slice of Gap *)

(* startNewRoundAndPersist(chain.State.CacheRound, {self, ext}, ts, finalized)
   on chain c: (durable, chain) afterwards and Ok dummy / Err / Panic *)
Definition start_new_round (d : durable) (c : chain) (self ext ts : N) (finalized sanity : bool)
  : durable * chain * res bool :=
  let cache := ch_cache c in
  if negb (ch_id c =? c_node cache) then (d, c, Panic)
  else
    match as_final H sort (c_node cache) (c_number cache) (c_snaps cache) with
    | Panic => (d, c, Panic)
    | Err => (d, c, Err)
    | Ok None => (d, c, Err)                                   (* snapshots not collected yet *)
    | Ok (Some (start, end_, h)) =>
        let c0 := set_snaps c (sort (c_snaps cache)) in        (* ComputeRoundHash sorted the slice *)
        if negb (self =? h) then (d, c0, Err)                  (* snapshots not match yet *)
        else
          let fin := mk_fr (c_node cache) (c_number cache) start end_ h in
          let go (dummy : bool) (links : list (N * N)) : durable * chain * res bool :=
            let ext' := if dummy then c_ext cache else ext in
            let ncache := mk_cr (ch_id c) (f_number fin + 1) ts self ext' [] in
            let c1 := set_links c0 links in                    (* RoundLinks already updated *)
            match store_start_new_round d (ch_id c) (f_number fin + 1) self ext' (f_start fin) with
            | Ok d' =>
                let c2 := mk_chain (ch_id c) fin ncache links in
                (* assignNewGraphRound's history check, after the assignment *)
                let n := f_number (ch_final c) in
                if (n =? f_number fin) || (n + 1 =? f_number fin) then (d', c2, Ok dummy)
                else (d', c2, Panic)
            | _ => (d, c1, Panic)
            end in
          match read_round d ext with
          | Panic => (d, c0, Panic)
          | Err => (d, c0, Err)
          | Ok None => if finalized then go true (ch_links c) else (d, c0, Err)   (* not collected yet *)
          | Ok (Some e) =>
              if negb (r_hash e =? ext) then (d, c0, Panic)
              else
                match update_external d (f_node fin) (ch_links c) e (negb finalized) sanity with
                | Err => (d, c0, Err)
                | Panic => (d, c0, Panic)
                | Ok links => go false links
                end
          end
    end.

(* updateEmptyHeadRoundAndPersist(copies of the chain state, {self, ext}, ts, strict) *)
Definition update_empty_head (d : durable) (c : chain) (self ext ts : N) (strict sanity : bool)
  : durable * chain * res unit :=
  let cache := ch_cache c in
  let fin := ch_final c in
  match c_snaps cache with
  | _ :: _ => (d, c, Err)                                      (* references not empty *)
  | [] =>
      if negb (self =? c_self cache) then (d, c, Err)          (* references self diff *)
      else
        match read_round d ext with
        | Panic => (d, c, Panic)
        | Err => (d, c, Err)
        | Ok None => (d, c, Err)                               (* external not ready yet *)
        | Ok (Some e) =>
            if negb (r_hash e =? ext) then (d, c, Panic)
            else
              match update_external d (f_node fin) (ch_links c) e strict sanity with
              | Err => (d, c, Err)
              | Panic => (d, c, Panic)
              | Ok links =>
                  let c1 := set_links c links in
                  match store_update_empty_head d (c_node cache) (c_number cache) self ext with
                  | Ok d' =>
                      let ncache := mk_cr (c_node cache) (c_number cache) (c_ts cache) self ext [] in
                      if (ch_id c =? c_node cache) && (ch_id c =? f_node fin)
                         && (f_number fin + 1 =? c_number cache)
                      then (d', mk_chain (ch_id c) fin ncache links, Ok tt)
                      else (d', c1, Panic)                     (* assignNewGraphRound *)
                  | _ => (d, c1, Panic)
                  end
              end
        end
  end.

(* a snapshot added to the live round the way cosiHandleFinalization does it
   (without the topology write): ValidateSnapshot on a StateCopy, then
   AddSnapshot = validateSnapshot(add) on that copy (an error there is a panic)
   and the copy is installed by assignNewGraphRound.  Memory only. *)
Definition add_snapshot (c : chain) (s : snap) : chain * res unit :=
  let number := c_number (ch_cache c) in
  let '(l1, r1) := validate_snapshot sort_ts number (c_snaps (ch_cache c)) s false in
  match r1 with
  | Ok _ =>
      let '(l2, r2) := validate_snapshot sort_ts number l1 s true in
      match r2 with
      | Ok _ => (set_snaps c l2, Ok tt)
      | _ => (c, Panic)
      end
  | _ => (c, r1)
  end.

(* ---- histories over several chains ------------------------------------------------------ *)
Inductive op :=
| OAdd (cid : N) (s : snap)
| OStart (cid self ext ts : N) (finalized sanity : bool)
| OUpdate (cid self ext ts : N) (strict sanity : bool).

Definition op_chain (o : op) : N :=
  match o with OAdd i _ => i | OStart i _ _ _ _ _ => i | OUpdate i _ _ _ _ _ => i end.

Fixpoint find_chain (cid : N) (l : list chain) : option chain :=
  match l with
  | [] => None
  | c :: t => if ch_id c =? cid then Some c else find_chain cid t
  end.
Definition put_chain (c' : chain) (l : list chain) : list chain :=
  map (fun c => if ch_id c =? ch_id c' then c' else c) l.

(* outcome classes: 0 ok, 1 error, 2 panic, 3 ok through the dummy-external path *)
Definition step (w : world) (o : op) : world * N :=
  match find_chain (op_chain o) (w_chains w) with
  | None => (w, 2)
  | Some c =>
      match o with
      | OAdd _ s =>
          let '(c', r) := add_snapshot c s in
          (mk_world (w_dur w) (put_chain c' (w_chains w)), match r with Ok _ => 0 | Err => 1 | Panic => 2 end)
      | OStart _ self ext ts finalized sanity =>
          let '(d', c', r) := start_new_round (w_dur w) c self ext ts finalized sanity in
          (mk_world d' (put_chain c' (w_chains w)),
           match r with Ok false => 0 | Ok true => 3 | Err => 1 | Panic => 2 end)
      | OUpdate _ self ext ts strict sanity =>
          let '(d', c', r) := update_empty_head (w_dur w) c self ext ts strict sanity in
          (mk_world d' (put_chain c' (w_chains w)), match r with Ok _ => 0 | Err => 1 | Panic => 2 end)
      end
  end.

(* a history runs until the first panic (the process dies there) *)
Fixpoint steps (w : world) (os : list op) : world * list N :=
  match os with
  | [] => (w, [])
  | o :: t =>
      let '(w', k) := step w o in
      if k =? 2 then (w', [k]) else let '(wf, ks) := steps w' t in (wf, k :: ks)
  end.
End Transitions.
