(* Model of common/address.go: NewAddressFromString / Address.String.
   [H] is crypto.Sha256Hash (SHA3-256) as bytes -> bytes; [check_key] is
   Key.CheckKey (canonical prime-order point).  An address value is the pair
   (public spend key, public view key) as byte strings.  No proofs here. *)
From Coq Require Import List ZArith NArith Bool.
Require Import Mixin.Base.Res Mixin.Gen.Consts Mixin.Model.Base58.
Import ListNotations.
Open Scope N_scope.

Definition prefix : list N := Consts.AddrPrefix.
Definition key_size : nat := Z.to_nat Consts.AuthKeySize.                 (* 32 *)
Definition payload_size : nat := Z.to_nat Consts.AddrPayloadSize.         (* 68 *)
Definition checksum_size : nat := Z.to_nat Consts.AddrChecksumSize.       (* 4 *)
Definition keys_size : nat := (key_size + key_size)%nat.                  (* 64 *)

Fixpoint bytes_eqb (a b : list N) : bool :=
  match a, b with
  | [], [] => true
  | x :: a', y :: b' => (x =? y) && bytes_eqb a' b'
  | _, _ => false
  end.

(* strings.HasPrefix *)
Fixpoint has_prefix (p s : list N) : bool :=
  match p, s with
  | [], _ => true
  | x :: p', y :: s' => (x =? y) && has_prefix p' s'
  | _ :: _, [] => false
  end.

Section Address.
  Variable H : list N -> list N.
  Variable check_key : list N -> bool.

  Definition of_string (s : list N) : res (list N * list N) :=
    if negb (has_prefix prefix s) then Err else
    let data := decode (skipn (length prefix) s) in
    if negb (Nat.eqb (length data) payload_size) then Err else
    let chk := H (prefix ++ firstn keys_size data) in
    if negb (bytes_eqb (firstn checksum_size chk) (skipn keys_size data)) then Err else
    let sp := firstn key_size data in
    if negb (check_key sp) then Err else
    let vw := firstn key_size (skipn key_size data) in
    if negb (check_key vw) then Err else
    Ok (sp, vw).

  Definition to_string (a : list N * list N) : list N :=
    let (sp, vw) := a in
    let chk := H (prefix ++ sp ++ vw) in
    prefix ++ encode (sp ++ vw ++ firstn checksum_size chk).
End Address.
