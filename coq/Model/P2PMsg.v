(* Model of the peer message layer: p2p/handle.go (parseNetworkMessage, every
   build*Message, buildTransactionsPayload / parseTransactionsPayload,
   marshalSyncPoints / unmarshalSyncPoints, buildRelayMessage), the QUIC
   framing of p2p/quic.go (Send / receiveWithLimit) and the size accounting of
   kernel/queue.go popAndProcessCacheQueue.

   Byte strings are [list N]; lengths and offsets are [Z].  Go slicing
   [data[lo:hi]] is [slice]: out of range is the outcome [Panic] (the model is
   stricter than Go, which only checks against the capacity).  [copy] into a
   fixed array is [copy_arr].  Snapshot and transaction payloads inside messages
   are opaque: their decoders are the section parameters [snap_body] / [tx_body]
   (properties C06/C07); only the checks made in front of them (version header,
   size cap) are modelled.  Curve point validity is the parameter [check_key].
   Executable; no proofs in this file. *)
From Coq Require Import List ZArith NArith Bool.
Require Import Mixin.Base.Res Mixin.Gen.Consts.
Import ListNotations.
Open Scope Z_scope.

Definition bytes := list N.
Definition len {A} (b : list A) : Z := Z.of_nat (length b).

Fixpoint bytes_eqb (a b : bytes) : bool :=
  match a, b with
  | [], [] => true
  | x :: a', y :: b' => (x =? y)%N && bytes_eqb a' b'
  | _, _ => false
  end.

(* ---- Go slices -------------------------------------------------------------- *)

Definition slice (b : bytes) (lo hi : Z) : res bytes :=
  if (0 <=? lo) && (lo <=? hi) && (hi <=? len b)
  then Ok (firstn (Z.to_nat (hi - lo)) (skipn (Z.to_nat lo) b))
  else Panic.

Definition slice_from (b : bytes) (lo : Z) : res bytes := slice b lo (len b).

Definition index (b : bytes) (i : Z) : res N :=
  if (0 <=? i) && (i <? len b) then Ok (nth (Z.to_nat i) b 0%N) else Panic.

(* copy(dst[:], src) into a zeroed array of n bytes *)
Definition copy_arr (n : nat) (src : bytes) : bytes := firstn n (src ++ repeat 0%N n).

(* ---- big-endian integers ----------------------------------------------------- *)

Fixpoint be_val_acc (acc : Z) (b : bytes) : Z :=
  match b with
  | [] => acc
  | x :: r => be_val_acc (acc * 256 + Z.of_N x) r
  end.
Definition be_val (b : bytes) : Z := be_val_acc 0 b.

(* the k low-order bytes of v, most significant first (binary.BigEndian.AppendUintNN
   after the Go conversion uintNN(v)) *)
Fixpoint be_bytes (k : nat) (v : Z) : bytes :=
  match k with
  | O => []
  | S k' => be_bytes k' (v / 256) ++ [Z.to_N (v mod 256)]
  end.

Definition wrap16 (z : Z) : Z := z mod 2 ^ 16.
Definition wrap32 (z : Z) : Z := z mod 2 ^ 32.

(* ---- constants ------------------------------------------------------------------ *)

Definition max_size : Z := Consts.P2P_TransportMessageMaxSize.
Definition header_size : Z := Consts.P2P_TransportMessageHeaderSize.
Definition frame_version : N := Z.to_N Consts.P2P_TransportMessageVersion.
Definition key_size : Z := Consts.P2P_KeySize.
Definition hash_size : Z := Consts.P2P_HashSize.
Definition sig_size : Z := Consts.P2P_SignatureSize.
Definition key_n : nat := Z.to_nat key_size.
Definition hash_n : nat := Z.to_nat hash_size.
Definition sig_n : nat := Z.to_nat sig_size.
Definition txs_max : Z := Consts.P2P_SnapshotTransactionsMaximum.
Definition tx_max_size : Z := Consts.P2P_TransactionMaximumSize.
Definition max_encoding_int : Z := Consts.P2P_MaximumEncodingInt.
Definition commitments_max : Z := 1024.   (* literal in handle.go *)
Definition relay_header : Z := 1 + 2 * hash_size.   (* type, from, to *)

Definition ty (z : Z) : N := Z.to_N z.

(* ---- messages ------------------------------------------------------------------ *)

Record sync_point := mk_point { sp_node : bytes; sp_number : Z; sp_hash : bytes }.

Section Msg.
Variables SN TX : Type.

Inductive msg :=
| MPreCommitments (sig : bytes) (keys : list bytes) (unsigned : bytes)
| MGraph (sig : bytes) (points : list sync_point) (unsigned : bytes)
| MPing
| MAuthentication (data : bytes)
| MSnapshotConfirm (snap : bytes)
| MTransaction (tx : TX)
| MBundle (typ : Z) (txs : list TX)
| MTransactionRequest (tx : bytes)
| MAnnouncement (sig commitment : bytes) (s : SN)
| MCommitment (sig snap commitment : bytes) (wants : list bytes) (unsigned : bytes)
| MFullChallenge (s : SN) (commitment challenge : bytes) (txs : list TX)
| MTransactionChallenge (snap cosi_sig : bytes) (mask : Z) (txs : list TX)
| MResponse (snap response : bytes)
| MFinalization (s : SN)
| MRelay (data : bytes)
| MConsumers (data : bytes)
| MOther (typ : Z).

(* the points that the parser must have validated *)
Definition msg_points (m : msg) : list bytes :=
  match m with
  | MPreCommitments _ keys _ => keys
  | MAnnouncement _ c _ => [c]
  | MCommitment _ _ c _ _ => [c]
  | MFullChallenge _ c ch _ => [c; ch]
  | _ => []
  end.

Variable snap_body : bytes -> option SN.   (* Decoder.DecodeSnapshotWithTopo *)
Variable snap_signed : SN -> bool.          (* s.Signature != nil *)
Variable tx_body : bytes -> option TX.     (* DecodeTransaction + canonical re-encoding check *)
Variable check_key : bytes -> bool.       (* crypto.Key.CheckKey *)

(* common.UnmarshalVersionedSnapshot: checkSnapVersion, then the decoder *)
Definition snap_dec (b : bytes) : option SN :=
  if len b <? 4 then None
  else if bytes_eqb (firstn 4 b) Consts.P2P_SnapshotEncodingHeader then snap_body b
  else None.

(* common.UnmarshalVersionedTransaction: size cap, then the decoder *)
Definition tx_dec (b : bytes) : option TX :=
  if tx_max_size <? len b then None else tx_body b.

(* parseTransactionsPayload, the loop over txs[i]; 4+size is uint32 arithmetic *)
Fixpoint parse_txs_loop (n : nat) (data : bytes) : res (list TX) :=
  match n with
  | O => if 0 <? len data then Err else Ok []
  | S n' =>
      if len data <? 4 then Err else
      do h <- slice data 0 4;
      let size := be_val h in
      do rest <- slice_from data 4;
      if len rest <? size then Err else
      do body <- slice data 4 (wrap32 (4 + size));
      match tx_dec body with
      | None => Err
      | Some t =>
          do data' <- slice_from data (wrap32 (4 + size));
          do ts <- parse_txs_loop n' data';
          Ok (t :: ts)
      end
  end.

Definition parse_txs_payload (data : bytes) : res (list TX) :=
  if len data <? 1 then Err else
  do c <- index data 0;
  do rest <- slice_from data 1;
  parse_txs_loop (N.to_nat c) rest.

(* bytes.Reader + Decoder.Read: EOF on an empty reader, "data short" otherwise *)
Definition dec_read (n : Z) (r : bytes) : res (bytes * bytes) :=
  if len r <? n then Err
  else Ok (firstn (Z.to_nat n) r, skipn (Z.to_nat n) r).

Fixpoint read_points (n : nat) (r : bytes) : res (list sync_point) :=
  match n with
  | O => Ok []
  | S n' =>
      do (node, r1) <- dec_read hash_size r;
      do (num, r2) <- dec_read 8 r1;
      do (h, r3) <- dec_read hash_size r2;
      do ps <- read_points n' r3;
      Ok (mk_point node (be_val num) h :: ps)
  end.

Definition unmarshal_sync_points (b : bytes) : res (list sync_point) :=
  if len b <? 4 then Err else
  do v <- slice b 0 4;
  if negb (bytes_eqb v Consts.P2P_MinimumEncodingHeader) then Err else
  do r <- slice_from b 4;
  do (cb, r1) <- dec_read 2 r;
  let count := be_val cb in
  if max_encoding_int <? count then Err else
  read_points (Z.to_nat count) r1.

(* for i := range count { copy(key[:], data[67+32*i:]) ... } with i a uint16 *)
Fixpoint precommit_loop (data : bytes) (n : nat) (i : Z) : res (list bytes) :=
  match n with
  | O => Ok []
  | S n' =>
      do src <- slice_from data (wrap16 (67 + 32 * i));
      let key := copy_arr key_n src in
      if check_key key then
        do ks <- precommit_loop data n' (i + 1);
        Ok (key :: ks)
      else Err
  end.

Fixpoint wants_loop (txs : bytes) (n : nat) (i : Z) : res (list bytes) :=
  match n with
  | O => Ok []
  | S n' =>
      do src <- slice_from txs (i * hash_size);
      do hs <- wants_loop txs n' (i + 1);
      Ok (copy_arr hash_n src :: hs)
  end.

Definition parse_body (t : Z) (data : bytes) : res msg :=
  if t =? Consts.P2P_TypePreCommitments then
    if len data <? 80 then Err else
    do sig <- slice data 1 65;
    do cb <- slice data 65 67;
    let count := be_val cb in
    if commitments_max <? count then Err else
    do rest <- slice_from data 67;
    if negb (len rest =? count * 32) then Err else
    do keys <- precommit_loop data (Z.to_nat count) 0;
    do unsigned <- slice_from data 65;
    Ok (MPreCommitments (copy_arr sig_n sig) keys unsigned)
  else if t =? Consts.P2P_TypeGraph then
    if len data <? 1 + sig_size + 4 + 2 then Err else
    do s <- slice_from data 1;
    do body <- slice_from data 65;
    do points <- unmarshal_sync_points body;
    Ok (MGraph (copy_arr sig_n s) points body)
  else if t =? Consts.P2P_TypePing then
    if negb (len data =? 1) then Err else Ok MPing
  else if t =? Consts.P2P_TypeAuthentication then
    if negb (len data =? Consts.P2P_AuthenticationMessageSize) then Err else
    do d <- slice_from data 1;
    Ok (MAuthentication d)
  else if t =? Consts.P2P_TypeSnapshotConfirm then
    if negb (len data =? 1 + hash_size) then Err else
    do d <- slice_from data 1;
    Ok (MSnapshotConfirm (copy_arr hash_n d))
  else if t =? Consts.P2P_TypeTransaction then
    do d <- slice_from data 1;
    match tx_dec d with
    | None => Err
    | Some tx => Ok (MTransaction tx)
    end
  else if (t =? Consts.P2P_TypeTransactionBundle) || (t =? Consts.P2P_TypeFinalizedTransactionBundle) then
    do d <- slice_from data 1;
    do txs <- parse_txs_payload d;
    Ok (MBundle t txs)
  else if t =? Consts.P2P_TypeTransactionRequest then
    if negb (len data =? 1 + hash_size) then Err else
    do d <- slice_from data 1;
    Ok (MTransactionRequest (copy_arr hash_n d))
  else if t =? Consts.P2P_TypeAnnouncement then
    do d1 <- slice_from data 1;
    if len d1 <=? 99 then Err else
    do sig <- slice data 1 65;
    do c <- slice_from data 65;
    let commitment := copy_arr key_n c in
    if negb (check_key commitment) then Err else
    do sb <- slice_from data 97;
    match snap_dec sb with
    | None => Err
    | Some s => Ok (MAnnouncement (copy_arr sig_n sig) commitment s)
    end
  else if t =? Consts.P2P_TypeCommitment then
    do d1 <- slice_from data 1;
    if len d1 <? 128 then Err else
    do sig <- slice data 1 65;
    do sh <- slice_from data 65;
    do c <- slice_from data 97;
    let commitment := copy_arr key_n c in
    if negb (check_key commitment) then Err else
    do unsigned <- slice_from data 65;
    do txs <- slice_from data 129;
    if 0 <? len txs then
      if negb (len txs mod hash_size =? 0) then Err else
      do wants <- wants_loop txs (Z.to_nat (len txs / hash_size)) 0;
      Ok (MCommitment (copy_arr sig_n sig) (copy_arr hash_n sh) commitment wants unsigned)
    else Ok (MCommitment (copy_arr sig_n sig) (copy_arr hash_n sh) commitment [] unsigned)
  else if t =? Consts.P2P_TypeFullChallenge then
    do d1 <- slice_from data 1;
    if len d1 <? 256 then Err else
    do sz <- slice data 1 5;
    let size := be_val sz in
    do d5 <- slice_from data 5;
    if len d5 <? size then Err else
    do sb <- slice data 5 (5 + size);
    match snap_dec sb with
    | None => Err
    | Some s =>
        if negb (snap_signed s) then Err else
        let offset := 5 + size in
        do dof <- slice_from data offset;
        if len dof <? 65 then Err else
        do c <- slice data offset (offset + 32);
        let commitment := copy_arr key_n c in
        if negb (check_key commitment) then Err else
        do ch <- slice data (offset + 32) (offset + 32 + 32);
        let challenge := copy_arr key_n ch in
        if negb (check_key challenge) then Err else
        do pl <- slice_from data (offset + 32 + 32);
        do txs <- parse_txs_payload pl;
        Ok (MFullChallenge s commitment challenge txs)
    end
  else if t =? Consts.P2P_TypeTransactionChallenge then
    do d1 <- slice_from data 1;
    if len d1 <? 105 then Err else
    do sh <- slice_from data 1;
    do cs <- slice_from data 33;
    do mb <- slice data 97 105;
    do pl <- slice_from data 105;
    do txs <- parse_txs_payload pl;
    Ok (MTransactionChallenge (copy_arr hash_n sh) (copy_arr sig_n cs) (be_val mb) txs)
  else if t =? Consts.P2P_TypeResponse then
    do d1 <- slice_from data 1;
    if negb (len d1 =? 64) then Err else
    do sh <- slice_from data 1;
    do r <- slice_from data 33;
    Ok (MResponse (copy_arr hash_n sh) (copy_arr 32 r))
  else if t =? Consts.P2P_TypeFinalization then
    do d <- slice_from data 1;
    match snap_dec d with
    | None => Err
    | Some s => Ok (MFinalization s)
    end
  else if t =? Consts.P2P_TypeRelay then
    if len data <? 65 then Err else Ok (MRelay data)
  else if t =? Consts.P2P_TypeConsumers then
    do d <- slice_from data 1;
    Ok (MConsumers d)
  else Ok (MOther t).

(* parseNetworkMessage: the version is only recorded *)
Definition parse_msg (version : N) (data : bytes) : res (N * msg) :=
  if len data <? 1 then Err else
  do t <- index data 0;
  rmap (fun m => (version, m)) (parse_body (Z.of_N t) data).

End Msg.

Arguments MPreCommitments {SN TX}.
Arguments MGraph {SN TX}.
Arguments MPing {SN TX}.
Arguments MAuthentication {SN TX}.
Arguments MSnapshotConfirm {SN TX}.
Arguments MTransaction {SN TX}.
Arguments MBundle {SN TX}.
Arguments MTransactionRequest {SN TX}.
Arguments MAnnouncement {SN TX}.
Arguments MCommitment {SN TX}.
Arguments MFullChallenge {SN TX}.
Arguments MTransactionChallenge {SN TX}.
Arguments MResponse {SN TX}.
Arguments MFinalization {SN TX}.
Arguments MRelay {SN TX}.
Arguments MConsumers {SN TX}.
Arguments MOther {SN TX}.
Arguments msg_points {SN TX}.

(* ---- builders (transactions and snapshots are their marshalled bytes) ----------- *)

Definition frame_tx (p : bytes) : bytes := be_bytes 4 (len p) ++ p.

(* buildTransactionsPayload *)
Definition build_txs_payload (txs : list bytes) : res bytes :=
  if txs_max <? len txs then Panic
  else Ok (Z.to_N (len txs) :: concat (map frame_tx txs)).

Definition build_authentication (data : bytes) : bytes :=
  ty Consts.P2P_TypeAuthentication :: data.

(* sig is spend.Sign(Blake3(R ++ snapshot)) *)
Definition build_announcement (sig R snap : bytes) : bytes :=
  ty Consts.P2P_TypeAnnouncement :: sig ++ R ++ snap.

(* sig is handle.SignData(snap ++ R ++ wants) *)
Definition build_commitment (sig snap R : bytes) (wants : list bytes) : bytes :=
  ty Consts.P2P_TypeCommitment :: sig ++ snap ++ R ++ concat wants.

Definition build_transaction_challenge (snap cosi_sig : bytes) (mask : Z) (txs : list bytes) : res bytes :=
  do pl <- build_txs_payload txs;
  Ok (ty Consts.P2P_TypeTransactionChallenge :: snap ++ cosi_sig ++ be_bytes 8 mask ++ pl).

Definition build_full_challenge (snap commitment challenge : bytes) (txs : list bytes) : res bytes :=
  do pl <- build_txs_payload txs;
  Ok (ty Consts.P2P_TypeFullChallenge :: be_bytes 4 (len snap) ++ snap ++ commitment ++ challenge ++ pl).

Definition build_response (snap si : bytes) : bytes :=
  ty Consts.P2P_TypeResponse :: snap ++ si.

Definition build_finalization (snap : bytes) : bytes :=
  ty Consts.P2P_TypeFinalization :: snap.

Definition build_snapshot_confirm (snap : bytes) : bytes :=
  ty Consts.P2P_TypeSnapshotConfirm :: snap.

Definition build_transaction (tx : bytes) : bytes :=
  ty Consts.P2P_TypeTransaction :: tx.

Definition build_transactions (txs : list bytes) (typ : N) : res bytes :=
  do pl <- build_txs_payload txs;
  Ok (typ :: pl).

Definition build_transaction_request (tx : bytes) : bytes :=
  ty Consts.P2P_TypeTransactionRequest :: tx.

Definition marshal_point (p : sync_point) : bytes :=
  sp_node p ++ be_bytes 8 (sp_number p) ++ sp_hash p.

(* marshalSyncPoints: WriteInt panics above MaximumEncodingInt *)
Definition marshal_sync_points (ps : list sync_point) : res bytes :=
  if max_encoding_int <? len ps then Panic
  else Ok (Consts.P2P_MinimumEncodingHeader ++ be_bytes 2 (len ps) ++ concat (map marshal_point ps)).

(* sig is handle.SignData(marshalSyncPoints(points)) *)
Definition build_graph (sig : bytes) (ps : list sync_point) : res bytes :=
  do d <- marshal_sync_points ps;
  Ok (ty Consts.P2P_TypeGraph :: sig ++ d).

Definition build_commitments (sig : bytes) (keys : list bytes) : res bytes :=
  if commitments_max <? len keys then Panic
  else Ok (ty Consts.P2P_TypePreCommitments :: sig ++ be_bytes 2 (len keys) ++ concat keys).

Definition build_consumers (entries : list (bytes * bytes)) : bytes :=
  ty Consts.P2P_TypeConsumers :: concat (map (fun e => fst e ++ snd e) entries).

Definition build_relay (me peer m : bytes) : res bytes :=
  if max_size <? len m then Panic
  else Ok (ty Consts.P2P_TypeRelay :: me ++ peer ++ m).

(* ---- QUIC framing (p2p/quic.go) ---------------------------------------------------- *)

(* Send: the bytes written to the stream *)
Definition encode_frame (data : bytes) : res bytes :=
  if (len data <? 1) || (max_size <? len data) then Err
  else Ok (frame_version :: 0%N :: be_bytes 4 (len data) ++ data).

(* receiveWithLimit on a stream holding [stream]: outcome, bytes read from the
   stream, size of the body buffer allocated. *)
Record received := mk_recv { rv_result : res (N * bytes); rv_consumed : Z; rv_alloc : Z }.

Definition receive (limit : Z) (stream : bytes) : received :=
  if (limit =? 0) || (max_size <? limit) then mk_recv Err 0 0
  else if len stream <? header_size then mk_recv Err (len stream) 0
  else
    let header := firstn (Z.to_nat header_size) stream in
    let v := nth 0 header 0%N in
    if negb (v =? frame_version)%N then mk_recv Err header_size 0
    else
      let size := be_val (skipn 2 header) in
      if limit <? size then mk_recv Err header_size 0
      else
        let rest := skipn (Z.to_nat header_size) stream in
        if len rest <? size then mk_recv Err (header_size + len rest) size
        else mk_recv (Ok (v, firstn (Z.to_nat size) rest)) (header_size + size) size.

Definition decode_frame (stream : bytes) : res (N * bytes) := rv_result (receive max_size stream).

(* ---- proposal batcher accounting (kernel/queue.go popAndProcessCacheQueue) ---------- *)

(* The threshold written in the loop: p2p.TransportMessageMaxSize*2/3 *)
Definition batch_threshold : Z := max_size * 2 / 3.

(* One entry per transaction that reaches the accounting line: the size the
   loop adds for it and IsSnapshotBatchable.  Result: admitted to the batch? *)
Fixpoint batch_loop (acc : Z) (txs : list (Z * bool)) : list bool :=
  match txs with
  | [] => []
  | (sz, b) :: r =>
      let acc' := acc + sz in
      (b && (acc' <? batch_threshold)) :: batch_loop acc' r
  end.

Fixpoint select {A} (flags : list bool) (xs : list A) : list A :=
  match flags, xs with
  | f :: fs, x :: r => if f then x :: select fs r else select fs r
  | _, _ => []
  end.

(* the batch the loop forms out of the marshalled (signed) transactions *)
Definition batch_of (txs : list (bytes * bool)) : list bytes :=
  select (batch_loop 0 (map (fun e => (len (fst e), snd e)) txs)) (map fst txs).

(* ---- sizes ------------------------------------------------------------------------------ *)

(* length of a bundle message over transactions of the given marshalled sizes:
   type byte, count byte, then a 4-byte length in front of every transaction *)
Fixpoint sum_sizes (l : list Z) : Z := match l with [] => 0 | x :: r => 4 + x + sum_sizes r end.
Definition txs_msg_len (sizes : list Z) : Z := 1 + 1 + sum_sizes sizes.

(* length of the relay wrapper around an n-byte message; buildRelayMessage panics above the maximum *)
Definition relay_len (n : Z) : res Z := if max_size <? n then Panic else Ok (relay_header + n).

(* Send accepts exactly 1..max bytes *)
Definition send_accepts (n : Z) : bool := negb ((n <? 1) || (max_size <? n)).

(* receiveWithLimit seen through sizes only: a header with this version byte
   announcing [announced] bytes, [available] bytes of body behind it on the
   stream.  Outcome: the size of the message returned. *)
Definition receive_decision (limit : Z) (version : N) (announced available : Z) : res Z :=
  if (limit =? 0) || (max_size <? limit) then Err
  else if negb (version =? frame_version)%N then Err
  else if limit <? announced then Err
  else if available <? announced then Err
  else Ok announced.

(* QuicClient.Receive: the limit it passes itself *)
Definition receive_limit : Z := max_size.

(* Send of an n-byte message, then Receive on the other end of the stream *)
Definition send_receive_size (n : Z) : res Z :=
  if send_accepts n then receive_decision receive_limit frame_version n n else Err.
