(* Model of crypto/key.go: DeriveGhostPublicKey, DeriveGhostPrivateKey,
   ViewGhostOutputKey over the prime-order group in its discrete-log
   representation (DESIGN.md section 2): a point P = p·G is the scalar p in
   Z_l, point addition is addition mod l, x·P is multiplication mod l.
   [hs] is crypto.HashScalar (shared point, output index) -> scalar, a
   parameter.  No proofs here. *)
From Coq Require Import ZArith.
Open Scope Z_scope.

Section Ghost.
  Variable l : Z.                 (* group order *)
  Variable hs : Z -> Z -> Z.      (* HashScalar(point, outputIndex) *)

  Definition pub (x : Z) : Z := x mod l.                   (* Key.Public: x·G *)
  Definition smul (x P : Z) : Z := (x * P) mod l.           (* KeyMultPubPriv(P, x) *)
  Definition padd (P Q : Z) : Z := (P + Q) mod l.
  Definition psub (P Q : Z) : Z := (P - Q) mod l.

  (* sender: r private, A = public view key, B = public spend key *)
  Definition derive_public (r A B i : Z) : Z := padd B (pub (hs (smul r A) i)).
  (* recipient: R = mask (public), a private view, b private spend; a scalar *)
  Definition derive_private (R a b i : Z) : Z := (hs (smul a R) i + b) mod l.
  (* P one-time key, a private view, R mask *)
  Definition view (P a R i : Z) : Z := psub P (pub (hs (smul a R) i)).
End Ghost.
