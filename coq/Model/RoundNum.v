(* 32-byte values in case terms: five 52-bit words as primitive integers (a
   decimal N literal of 78 digits costs ~10 ms to elaborate, this ~2 ms). *)
From Coq Require Import ZArith NArith Uint63.
Definition hN (a b c d e : int) : N :=
  Z.to_N (((((to_Z a) * 4503599627370496 + to_Z b) * 4503599627370496 + to_Z c)
           * 4503599627370496 + to_Z d) * 4503599627370496 + to_Z e)%Z.
