(* Model of util/base58/base58.go over byte strings ([list N]).
   Encode: the big-endian number of the bytes in base-58 digits (no digit for
   zero), one alphabet-zero character per leading zero byte in front.
   Decode: empty result if a character is outside the alphabet; otherwise the
   minimal big-endian bytes of the number, preceded by one zero byte per leading
   alphabet-zero character.  (The 10-digit chunking of the Go code is an
   arithmetic optimisation: it computes the same Horner value.)  The text is its
   UTF-8 bytes: Go ranges over runes and refuses every rune >= 128 and U+FFFD,
   all of whose bytes are >= 128 and outside the alphabet.  No proofs. *)
From Coq Require Import List ZArith NArith Bool.
Require Import Mixin.Gen.Consts.
Import ListNotations.
Open Scope N_scope.

Definition alphabet : list N := Consts.B58Alphabet.
Definition zero_char : N := nth 0 alphabet 0.

(* value of a digit string in base b, most significant first *)
Fixpoint val_acc (b acc : N) (ds : list N) : N :=
  match ds with
  | [] => acc
  | d :: ds' => val_acc b (acc * b + d) ds'
  end.
Definition val (b : N) (ds : list N) : N := val_acc b 0 ds.

(* digits of n in base b, most significant first; [] for 0 *)
Fixpoint digits_fuel (b : N) (fuel : nat) (n : N) (acc : list N) : list N :=
  match fuel with
  | O => acc
  | S f => if n =? 0 then acc else digits_fuel b f (n / b) (n mod b :: acc)
  end.
Definition digits (b n : N) : list N := digits_fuel b (N.to_nat (N.size n)) n [].

Fixpoint index_of (c : N) (l : list N) (i : N) : option N :=
  match l with
  | [] => None
  | x :: l' => if x =? c then Some i else index_of c l' (N.succ i)
  end.
Definition digit_of (c : N) : option N := index_of c alphabet 0.
Definition char_of (d : N) : N := nth (N.to_nat d) alphabet 0.

Fixpoint map_opt {A B} (f : A -> option B) (l : list A) : option (list B) :=
  match l with
  | [] => Some []
  | x :: l' => match f x, map_opt f l' with
               | Some y, Some ys => Some (y :: ys)
               | _, _ => None
               end
  end.

Fixpoint count_leading (z : N) (l : list N) : nat :=
  match l with
  | x :: l' => if x =? z then S (count_leading z l') else O
  | [] => O
  end.

Definition encode (bs : list N) : list N :=
  repeat zero_char (count_leading 0 bs) ++ map char_of (digits 58 (val 256 bs)).

Definition decode (s : list N) : list N :=
  match map_opt digit_of s with
  | None => []
  | Some ds => repeat 0 (count_leading zero_char s) ++ digits 256 (val 58 ds)
  end.
