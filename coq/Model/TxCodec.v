(* Byte-level model of the transaction codec:
     common/encoding.go  (EncodeTransaction, EncodeInput, EncodeOutput,
                          EncodeSignatures, EncodeAggregatedSignature, WriteX),
     common/decoding.go  (DecodeTransaction, ReadInput, ReadOutput,
                          ReadSignatures, ReadAggregatedSignature, ReadX),
     common/version.go   (unmarshalVersionedTransaction, marshal, Marshal,
                          payloadMarshal, PayloadMarshal, PayloadHash).
   Byte strings are [list N]; 32-byte hashes/keys and 64-byte signatures are
   one big-endian [N] with fixed-width serialisation; amounts (common.Integer)
   are non-negative [N].  Executable; no proofs in this file. *)
From Coq Require Import List ZArith NArith Bool.
Require Import Mixin.Base.Res Mixin.Gen.Consts.
Import ListNotations.
Open Scope N_scope.

Definition bytes := list N.

(* ---- constants (regenerated from the repository) ------------------------ *)
Definition tx_version : N := Z.to_N Consts.TxVersionHashSignature.
Definition index_limit : N := Z.to_N Consts.TxInputIndexLimit.
Definition extra_cap : N := Z.to_N Consts.TxExtraSizeStorageCapacity.
Definition slice_limit : N := Z.to_N Consts.TxSliceCountLimit.
Definition max_int : N := Z.to_N Consts.TxMaximumEncodingInt.
Definition agg_prefix : N := Z.to_N Consts.TxAggregatedSignaturePrefix.
Definition sparse_mask : N := Z.to_N Consts.TxAggregatedSignatureSparseMask.
Definition ordinary_mask : N := Z.to_N Consts.TxAggregatedSignatureOrdinaryMask.
Definition tx_max_size : N := Z.to_N Consts.TxTransactionMaximumSize.
Definition config_debug : bool := (Z.to_N Consts.TxConfigDebug =? 1).
Definition magic : bytes := Consts.TxMagic.
Definition null : bytes := Consts.TxNull.

(* ---- types -------------------------------------------------------------- *)
Record deposit := { d_chain : N; d_asset_key : bytes; d_tx : bytes; d_index : N; d_amount : N }.
Record mint := { m_group : bytes; m_batch : N; m_amount : N }.
Record input := { i_hash : N; i_index : N; i_genesis : bytes;
                  i_deposit : option deposit; i_mint : option mint }.
Record withdrawal := { w_address : bytes; w_tag : bytes }.
Record output := { o_type : N; o_amount : N; o_keys : list N; o_mask : N; o_script : bytes;
                   o_withdrawal : option withdrawal }.
(* a Go map[uint16]*Signature is an association list (index, signature) *)
Definition sigmap := list (N * N).
Inductive auth :=
| SigMaps (ms : list sigmap)
| Aggregate (sig : N) (signers : list N).
Record tx := { t_version : N; t_asset : N; t_inputs : list input; t_outputs : list output;
               t_refs : list N; t_extra : bytes; t_auth : auth }.

(* the payload: every field but the authorization data (version.go payloadMarshal
   builds SignedTransaction{Transaction: ver.Transaction}) *)
Definition payload (t : tx) : tx :=
  {| t_version := t_version t; t_asset := t_asset t; t_inputs := t_inputs t;
     t_outputs := t_outputs t; t_refs := t_refs t; t_extra := t_extra t;
     t_auth := SigMaps [] |}.

(* ---- fixed-width big-endian integers ------------------------------------- *)
Fixpoint le_enc (n : nat) (v : N) : bytes :=
  match n with
  | O => []
  | S k => N.land v 255 :: le_enc k (N.shiftr v 8)   (* v mod 256, v / 256 *)
  end.
(* truncating like Go's uint16(x) / FillBytes of a value that fits *)
Definition be_enc (n : nat) (v : N) : bytes := rev (le_enc n v).

Fixpoint le_dec (l : bytes) : N :=
  match l with
  | [] => 0
  | x :: l' => x + 256 * le_dec l'
  end.
Definition be_dec (l : bytes) : N := le_dec (rev l).

Definition blen {A} (b : list A) : N := N.of_nat (length b).

Fixpoint bytes_eqb (a b : bytes) : bool :=
  match a, b with
  | [], [] => true
  | x :: a', y :: b' => (x =? y) && bytes_eqb a' b'
  | _, _ => false
  end.

(* ---- encoder: pure serialisers + the panic guards ----------------------- *)
Definition ser_u16 (v : N) : bytes := be_enc 2 v.
Definition ser_u32 (v : N) : bytes := be_enc 4 v.
Definition ser_u64 (v : N) : bytes := be_enc 8 v.
Definition ser_h32 (v : N) : bytes := be_enc 32 v.
Definition ser_sig (v : N) : bytes := be_enc 64 v.

(* WriteInt(len(x)); Write(x) *)
Definition ser_bytes (x : bytes) : bytes := ser_u16 (blen x) ++ x.

(* WriteInteger: size = (BitLen+7)/8, then FillBytes *)
Definition int_size (v : N) : N := (N.size v + 7) / 8.
Definition ser_integer (v : N) : bytes :=
  ser_u16 (int_size v) ++ be_enc (N.to_nat (int_size v)) v.

Definition ser_deposit (d : deposit) : bytes :=
  ser_h32 (d_chain d) ++ ser_bytes (d_asset_key d) ++ ser_bytes (d_tx d)
  ++ ser_u64 (d_index d) ++ ser_integer (d_amount d).

Definition ser_mint (m : mint) : bytes :=
  ser_bytes (m_group m) ++ ser_u64 (m_batch m) ++ ser_integer (m_amount m).

Definition ser_opt {A} (f : A -> bytes) (o : option A) : bytes :=
  match o with
  | None => null
  | Some a => magic ++ f a
  end.

Definition ser_input (i : input) : bytes :=
  ser_h32 (i_hash i) ++ ser_u16 (i_index i) ++ ser_bytes (i_genesis i)
  ++ ser_opt ser_deposit (i_deposit i) ++ ser_opt ser_mint (i_mint i).

Definition ser_withdrawal (w : withdrawal) : bytes :=
  ser_bytes (w_address w) ++ ser_bytes (w_tag w).

Definition ser_output (o : output) : bytes :=
  [0; o_type o] ++ ser_integer (o_amount o)
  ++ ser_u16 (blen (o_keys o)) ++ flat_map ser_h32 (o_keys o)
  ++ ser_h32 (o_mask o) ++ ser_bytes (o_script o)
  ++ ser_opt ser_withdrawal (o_withdrawal o).

(* sort.Slice by index: insertion sort on the association list *)
Fixpoint sig_insert (e : N * N) (l : sigmap) : sigmap :=
  match l with
  | [] => [e]
  | f :: l' => if fst e <? fst f then e :: l else f :: sig_insert e l'
  end.
Fixpoint sig_sort (l : sigmap) : sigmap :=
  match l with
  | [] => []
  | e :: l' => sig_insert e (sig_sort l')
  end.

Definition ser_sig_entry (e : N * N) : bytes := ser_u16 (fst e) ++ ser_sig (snd e).
Definition ser_sigs (m : sigmap) : bytes :=
  ser_u16 (blen m) ++ flat_map ser_sig_entry (sig_sort m).

(* validateAggregatedSigners: at most MaximumEncodingInt signers, strictly
   increasing from -1, each at most MaximumEncodingInt.  [prev] is None for -1. *)
Fixpoint signers_increasing (prev : option N) (s : list N) : bool :=
  match s with
  | [] => true
  | m :: s' =>
      (match prev with None => true | Some p => p <? m end)
      && (m <=? max_int) && signers_increasing (Some m) s'
  end.
Definition validate_signers (s : list N) : bool :=
  (blen s <=? max_int) && signers_increasing None s.

(* masks[m/8] ^= 1 << (m%8) over all signers, read per mask byte *)
Definition mask_byte (signers : list N) (i : N) : N :=
  fold_left (fun acc m => if m / 8 =? i then N.lxor acc (N.shiftl 1 (m mod 8)) else acc) signers 0.
Fixpoint nseq (start : N) (len : nat) : list N :=
  match len with
  | O => []
  | S k => start :: nseq (start + 1) k
  end.
Definition masks_of (signers : list N) (mx : N) : bytes :=
  map (mask_byte signers) (nseq 0 (N.to_nat (mx / 8 + 1))).

Definition ser_agg (sg : N) (signers : list N) : bytes :=
  ser_u16 max_int ++ ser_u16 agg_prefix ++ ser_sig sg ++
  match signers with
  | [] => [ordinary_mask] ++ ser_u16 0
  | _ =>
      let mx := last signers 0 in
      if 2 * blen signers <? mx / 8 + 1
      then [sparse_mask] ++ ser_u16 (blen signers) ++ flat_map ser_u16 signers
      else let masks := masks_of signers mx in
           [ordinary_mask] ++ ser_u16 (blen masks) ++ masks
  end.

Definition ser_auth (a : auth) : bytes :=
  match a with
  | Aggregate sg signers => ser_agg sg signers
  | SigMaps ms => ser_u16 (blen ms) ++ flat_map ser_sigs ms
  end.

Definition ser_tx (t : tx) : bytes :=
  magic ++ [0; t_version t] ++ ser_h32 (t_asset t)
  ++ ser_u16 (blen (t_inputs t)) ++ flat_map ser_input (t_inputs t)
  ++ ser_u16 (blen (t_outputs t)) ++ flat_map ser_output (t_outputs t)
  ++ ser_u16 (blen (t_refs t)) ++ flat_map ser_h32 (t_refs t)
  ++ ser_u32 (blen (t_extra t)) ++ t_extra t
  ++ ser_auth (t_auth t).

(* guards: the encoder panics exactly when one of these is false *)
Definition ok_len (x : bytes) : bool := blen x <=? max_int.           (* WriteInt(len) *)
Definition ok_integer (v : N) : bool := int_size v <=? max_int.       (* WriteInt(size) *)

Definition ok_deposit (d : deposit) : bool :=
  ok_len (d_asset_key d) && ok_len (d_tx d) && ok_integer (d_amount d).
Definition ok_mint (m : mint) : bool := ok_len (m_group m) && ok_integer (m_amount m).
Definition ok_opt {A} (f : A -> bool) (o : option A) : bool :=
  match o with None => true | Some a => f a end.
Definition ok_input (i : input) : bool :=
  (i_index i <=? index_limit) && ok_len (i_genesis i)
  && ok_opt ok_deposit (i_deposit i) && ok_opt ok_mint (i_mint i).
Definition ok_withdrawal (w : withdrawal) : bool := ok_len (w_address w) && ok_len (w_tag w).
Definition ok_output (o : output) : bool :=
  ok_integer (o_amount o) && (blen (o_keys o) <=? max_int) && ok_len (o_script o)
  && ok_opt ok_withdrawal (o_withdrawal o).
Definition ok_sigs (m : sigmap) : bool := blen m <=? max_int.
Definition ok_auth (a : auth) : bool :=
  match a with
  | Aggregate _ signers => match signers with [] => true | _ => validate_signers signers end
  | SigMaps ms => (blen ms <? max_int) && forallb ok_sigs ms
  end.
Definition ok_tx (t : tx) : bool :=
  (blen (t_inputs t) <=? slice_limit) && forallb ok_input (t_inputs t)
  && (blen (t_outputs t) <=? slice_limit) && forallb ok_output (t_outputs t)
  && (blen (t_refs t) <=? max_int)
  && (blen (t_extra t) <=? extra_cap)
  && ok_auth (t_auth t).

(* Encoder.EncodeTransaction: panics below version 5 *)
Definition encode_transaction (t : tx) : res bytes :=
  if (tx_version <=? t_version t) && ok_tx t then Ok (ser_tx t) else Panic.

(* VersionedTransaction.marshal / marshalWithCapacity: only version 5 *)
Definition enc_tx (t : tx) : res bytes :=
  if (t_version t =? tx_version) && ok_tx t then Ok (ser_tx t) else Panic.

(* payloadMarshal *)
Definition enc_payload (t : tx) : res bytes := enc_tx (payload t).

(* ---- decoder -------------------------------------------------------------- *)
Notation "'let?' p := e 'in' k" :=
  (match e with Some p => k | None => None end)
  (at level 200, p pattern, e at level 100, k at level 200, right associativity).

(* Decoder.Read(b) with len(b) = n: bytes.Reader.Read returns io.EOF at the end
   of the input even for an empty buffer; a short read is an error. *)
Definition rd (n : N) (b : bytes) : option (bytes * bytes) :=
  match b with
  | [] => None
  | _ => if blen b <? n then None
         else Some (firstn (N.to_nat n) b, skipn (N.to_nat n) b)
  end.

Definition rd_u16 (b : bytes) : option (N * bytes) :=
  let? (x, r) := rd 2 b in
  let d := be_dec x in
  if max_int <? d then None else Some (d, r).

Definition rd_u32 (b : bytes) : option (N * bytes) :=
  let? (x, r) := rd 4 b in Some (be_dec x, r).
Definition rd_u64 (b : bytes) : option (N * bytes) :=
  let? (x, r) := rd 8 b in Some (be_dec x, r).
Definition rd_h32 (b : bytes) : option (N * bytes) :=
  let? (x, r) := rd 32 b in Some (be_dec x, r).
Definition rd_sig (b : bytes) : option (N * bytes) :=
  let? (x, r) := rd 64 b in Some (be_dec x, r).

(* ReadBytes: length 0 returns without touching the reader *)
Definition rd_bytes (b : bytes) : option (bytes * bytes) :=
  let? (l, r) := rd_u16 b in
  if l =? 0 then Some ([], r) else rd l r.

(* ReadInteger: always reads, also for length 0 *)
Definition rd_integer (b : bytes) : option (N * bytes) :=
  let? (l, r) := rd_u16 b in
  let? (x, r') := rd l r in
  Some (be_dec x, r').

Definition rd_magic (b : bytes) : option (bool * bytes) :=
  let? (x, r) := rd 2 b in
  if bytes_eqb x magic then Some (true, r)
  else if bytes_eqb x null then Some (false, r)
  else None.

(* count-controlled loop reading one element per round *)
Fixpoint par_list {A} (p : bytes -> option (A * bytes)) (n : nat) (b : bytes)
  : option (list A * bytes) :=
  match n with
  | O => Some ([], b)
  | S k => let? (x, r) := p b in
           let? (xs, r') := par_list p k r in
           Some (x :: xs, r')
  end.

Definition par_deposit (b : bytes) : option (deposit * bytes) :=
  let? (chain, b) := rd_h32 b in
  let? (ak, b) := rd_bytes b in
  let? (th, b) := rd_bytes b in
  let? (oi, b) := rd_u64 b in
  let? (amt, b) := rd_integer b in
  Some ({| d_chain := chain; d_asset_key := ak; d_tx := th; d_index := oi; d_amount := amt |}, b).

Definition par_mint (b : bytes) : option (mint * bytes) :=
  let? (g, b) := rd_bytes b in
  let? (bi, b) := rd_u64 b in
  let? (amt, b) := rd_integer b in
  Some ({| m_group := g; m_batch := bi; m_amount := amt |}, b).

Definition par_opt {A} (p : bytes -> option (A * bytes)) (b : bytes) : option (option A * bytes) :=
  let? (h, b) := rd_magic b in
  if h then let? (a, b) := p b in Some (Some a, b)
  else Some (None, b).

Definition par_input (b : bytes) : option (input * bytes) :=
  let? (h, b) := rd_h32 b in
  let? (ii, b) := rd_u16 b in
  if index_limit <? ii then None else
  let? (g, b) := rd_bytes b in
  let? (d, b) := par_opt par_deposit b in
  let? (m, b) := par_opt par_mint b in
  Some ({| i_hash := h; i_index := ii; i_genesis := g; i_deposit := d; i_mint := m |}, b).

Definition par_withdrawal (b : bytes) : option (withdrawal * bytes) :=
  let? (a, b) := rd_bytes b in
  let? (t, b) := rd_bytes b in
  Some ({| w_address := a; w_tag := t |}, b).

(* [lim] is SliceCountLimit in the implementation *)
Definition par_output (lim : N) (b : bytes) : option (output * bytes) :=
  let? (t, b) := rd 2 b in
  if negb (nth 0 t 0 =? 0) then None else
  let? (amt, b) := rd_integer b in
  let? (kc, b) := rd_u16 b in
  if lim <? kc then None else
  let? (keys, b) := par_list rd_h32 (N.to_nat kc) b in
  let? (mask, b) := rd_h32 b in
  let? (sb, b) := rd_bytes b in
  let? (w, b) := par_opt par_withdrawal b in
  Some ({| o_type := nth 1 t 0; o_amount := amt; o_keys := keys; o_mask := mask;
           o_script := sb; o_withdrawal := w |}, b).

Definition par_sig_entry (b : bytes) : option ((N * N) * bytes) :=
  let? (si, b) := rd_u16 b in
  let? (sg, b) := rd_sig b in
  Some ((si, sg), b).

Fixpoint keys_distinct (l : sigmap) : bool :=
  match l with
  | [] => true
  | e :: l' => negb (existsb (fun f => fst f =? fst e) l') && keys_distinct l'
  end.

(* ReadSignatures: the map ends with fewer than sc entries iff an index repeats *)
Definition par_sigs (b : bytes) : option (sigmap * bytes) :=
  let? (sc, b) := rd_u16 b in
  let? (es, b) := par_list par_sig_entry (N.to_nat sc) b in
  if keys_distinct es then Some (es, b) else None.

(* ordinary mask form: bit j of byte i is signer 8i+j *)
Definition byte_bits (i : N) (ctr : N) : list N :=
  flat_map (fun j => if N.testbit ctr j then [i * 8 + j] else []) [0; 1; 2; 3; 4; 5; 6; 7].
Fixpoint mask_signers (i : N) (masks : bytes) : list N :=
  match masks with
  | [] => []
  | c :: ms => byte_bits i c ++ mask_signers (i + 1) ms
  end.

Definition par_agg (b : bytes) : option ((N * list N) * bytes) :=
  let? (sg, b) := rd_sig b in
  let? (typ, b) := rd 1 b in
  let typ := nth 0 typ 0 in
  let? (signers, b) :=
    (if typ =? sparse_mask then
       let? (l, b) := rd_u16 b in par_list rd_u16 (N.to_nat l) b
     else if typ =? ordinary_mask then
       let? (masks, b) := rd_bytes b in Some (mask_signers 0 masks, b)
     else None) in
  if validate_signers signers then Some ((sg, signers), b) else None.

Definition check_tx_version (hd : bytes) : N :=
  if bytes_eqb hd (magic ++ [0; tx_version]) then tx_version else 0.

(* the authorization part of DecodeTransaction *)
Definition par_auth (b : bytes) : option (auth * bytes) :=
  let? (sl, b) := rd_u16 b in
  if sl =? max_int then
    let? (prefix, b) := rd_u16 b in
    if prefix =? agg_prefix then
      let? (js, b) := par_agg b in Some (Aggregate (fst js) (snd js), b)
    else None
  else if 0 <? sl then
    (* make([]map, min(sl, SliceCountLimit)): at most that many maps are read *)
    let? (ms, b) := par_list par_sigs (N.to_nat (N.min sl slice_limit)) b in
    Some (SigMaps ms, b)
  else Some (SigMaps [], b).

(* DecodeTransaction; [lim] = SliceCountLimit bounds the reference and key counts *)
Definition dec_tx_lim (lim : N) (b : bytes) : option tx :=
  let? (hd, b) := rd 4 b in
  let version := check_tx_version hd in
  if version <? tx_version then None else
  let? (asset, b) := rd_h32 b in
  let? (il, b) := rd_u16 b in
  if slice_limit <? il then None else
  let? (ins, b) := par_list par_input (N.to_nat il) b in
  let? (ol, b) := rd_u16 b in
  if slice_limit <? ol then None else
  let? (outs, b) := par_list (par_output lim) (N.to_nat ol) b in
  let? (rl, b) := rd_u16 b in
  if lim <? rl then None else
  let? (refs, b) := par_list rd_h32 (N.to_nat rl) b in
  let? (el, b) := rd_u32 b in
  if extra_cap <? el then None else
  let? (extra, b) := (if 0 <? el then rd el b else Some ([], b)) in
  let? (au, b) := par_auth b in
  match b with
  | [] => Some {| t_version := version; t_asset := asset; t_inputs := ins; t_outputs := outs;
                  t_refs := refs; t_extra := extra; t_auth := au |}
  | _ => None   (* trailing bytes *)
  end.

Definition dec_tx (b : bytes) : option tx := dec_tx_lim slice_limit b.

(* unmarshalVersionedTransaction: size cap, decode, canonical re-encoding check *)
Definition unmarshal (b : bytes) : res tx :=
  if tx_max_size <? blen b then Err
  else match dec_tx b with
       | None => Err
       | Some t =>
           match enc_tx t with
           | Ok c => if bytes_eqb c b then Ok t else Err
           | Err => Err
           | Panic => Panic
           end
       end.

(* VersionedTransaction.Marshal / PayloadMarshal: in debug builds the result is
   decoded again and a failure panics *)
Definition debug_checked (r : res bytes) : res bytes :=
  match r with
  | Ok b => if config_debug
            then match unmarshal b with Ok _ => Ok b | _ => Panic end
            else Ok b
  | _ => r
  end.
Definition marshal (t : tx) : res bytes := debug_checked (enc_tx t).
Definition payload_marshal (t : tx) : res bytes := debug_checked (enc_payload t).

(* PayloadHash = H(PayloadMarshal) for an abstract hash function *)
Definition payload_hash {Hsh} (H : bytes -> Hsh) (t : tx) : res Hsh := rmap H (payload_marshal t).
