(* Compact literals for the correspondence cases of C12-C14.  coqc spends
   about 15 us per constructor of a case term, so a 252-bit number written as a
   decimal literal costs ~4 ms; written as 60-bit limbs of primitive integers
   (one term node each) it costs ~0.4 ms, and a byte string packed 7 bytes per
   limb ~30x less than a list of N literals.  The decoders below run inside
   vm_compute.  Used by Run/C12.v, Run/C13.v, Run/C14.v only. *)
From Coq Require Import List ZArith NArith Bool.
From Coq Require Export Uint63.
Import ListNotations.
Open Scope Z_scope.

(* little-endian limbs, base 2^60 *)
Definition zb (ls : list int) : Z :=
  fold_right (fun x acc => Uint63.to_Z x + 1152921504606846976 * acc) 0 ls.

Definition nb (ls : list int) : N := Z.to_N (zb ls).

(* byte string of [len] bytes packed big-endian, 7 bytes per limb, the last
   limb holding the remaining (len mod 7, or 7) bytes *)
Fixpoint be_n (n : nat) (v : Z) (acc : list N) : list N :=
  match n with
  | O => acc
  | S n' => be_n n' (v / 256) (Z.to_N (v mod 256) :: acc)
  end.

Fixpoint bs_go (len : nat) (ls : list int) : list N :=
  match ls with
  | [] => []
  | x :: ls' =>
      let k := Nat.min 7 len in
      be_n k (Uint63.to_Z x) [] ++ bs_go (len - k) ls'
  end.

Definition bs (len : nat) (ls : list int) : list N := bs_go len ls.

(* the inverse direction, for [needs] output: bytes -> one Z per 7 bytes *)
Fixpoint pack_go (fuel : nat) (b : list N) : list Z :=
  match fuel with
  | O => []
  | S f =>
      match b with
      | [] => []
      | _ => fold_left (fun acc x => acc * 256 + Z.of_N x) (firstn 7 b) 0 :: pack_go f (skipn 7 b)
      end
  end.
Definition pack (b : list N) : list Z := Z.of_nat (length b) :: pack_go (length b) b.
