(* Model of crypto/cosi.go (collective signing: commitment aggregation and the
   64-bit mask, challenge, response, response aggregation, single-response
   verification, full verification) over Model/Group.v and Model/Aggregate.v.

   A CosiSignature is [cosi]: the R half of Signature as a discrete log
   ([c_r]; bytes that do not decode are a value that is not [point_ok]), the S
   half as the integer value of its 32 bytes ([c_s]), the mask, and the
   unexported commitments map as an association list index -> commitment.
   Go maps are association lists with distinct keys.  A nil *[32]byte response
   is [None].

   Executable; no proofs in this file. *)
From Coq Require Import List ZArith NArith Bool.
Require Import Mixin.Base.Res Mixin.Gen.Consts Mixin.Model.Group Mixin.Model.Aggregate.
Import ListNotations.
Open Scope Z_scope.

Record cosi := mkCosi {
  c_r : Z;
  c_s : Z;
  c_mask : N;
  c_commits : list (Z * Z)
}.

Definition mask_bits : nat := Z.to_nat Consts.CosiMaskBits.

(* CosiSignature.Keys: set bits in increasing order *)
Definition mask_keys (mask : N) : list Z :=
  map Z.of_nat (filter (fun i => N.testbit mask (N.of_nat i)) (seq 0 mask_bits)).

Section Cosi.
Variable l : Z.
Variable enc : Z -> N.
Variable H : list N -> Z.

(* mark: Mask ^= 1 << i *)
Definition mark (mask : N) (i : Z) : res N :=
  if (Consts.CosiMaskBits <=? i) || (i <? 0) then Err
  else Ok (N.lxor mask (N.shiftl 1 (Z.to_N i))).

(* the loop of CosiAggregateCommitment over the map, in iteration order *)
Fixpoint commit_loop (rs : list (Z * Z)) (p : Z) (mask : N) : res (Z * N) :=
  match rs with
  | [] => Ok (p, mask)
  | (i, r) :: rs' =>
      if negb (point_ok l r) then Err
      else do mask' <- mark mask i; commit_loop rs' (fadd l p r) mask'
  end.

Definition aggregate_commitment (rs : list (Z * Z)) : res cosi :=
  match rs with
  | [] => Err
  | _ => do pm <- commit_loop rs 0 0%N;
         Ok (mkCosi (fst pm) 0 (snd pm) rs)
  end.

Definition cosi_public_key (keys : list Z) (c : cosi) : res Z :=
  aggregate_public_key l keys (mask_keys (c_mask c)).

Definition challenge (keys : list Z) (m : N) (c : cosi) : res Z :=
  do a <- cosi_public_key keys c;
  Ok (H (challenge_input enc (c_r c) a m)).

(* CosiSignature.Response: x*y + z; a private key or nonce that is not a
   canonical scalar panics *)
Definition response (priv random : Z) (keys : list Z) (m : N) (c : cosi) : res Z :=
  do x <- challenge keys m c;
  if negb (scalar_ok l priv) then Panic
  else if negb (scalar_ok l random) then Panic
  else Ok ((x * priv + random) mod l).

Definition all_below (n : Z) (ks : list Z) : bool := forallb (fun k => k <? n) ks.

Definition verify_response (keys : list Z) (signer : Z) (s : option Z) (m : N) (c : cosi) : res unit :=
  match s with
  | None => Err
  | Some sv =>
      let ks := mask_keys (c_mask c) in
      if negb (all_below (Z.of_nat (length keys)) ks) then Err
      else if negb (existsb (Z.eqb signer) ks) then Err
      else match assoc (c_commits c) signer with
           | None => Err
           | Some r =>
               do x <- challenge keys m c;
               match nth_error keys (Z.to_nat signer) with
               | None => Panic
               | Some a => if verify_with_challenge l a r sv x then Ok tt else Err
               end
           end
  end.

(* responses[i] == nil: absent, or present with a nil value *)
Definition resp_get (rs : list (Z * option Z)) (i : Z) : option Z :=
  match assoc rs i with Some (Some s) => Some s | _ => None end.

(* second loop of AggregateResponse over the responses map *)
Fixpoint share_loop (keys : list Z) (c : cosi) (x : Z) (strict : bool)
         (rs : list (Z * option Z)) (acc : Z) : res Z :=
  match rs with
  | [] => Ok acc
  | (i, None) :: _ => Panic
  | (i, Some s) :: rs' =>
      match assoc (c_commits c) i with
      | None => Err
      | Some r =>
          let strict_ok :=
            if strict then
              if (i <? 0) || (Z.of_nat (length keys) <=? i) then Panic
              else match nth_error keys (Z.to_nat i) with
                   | None => Panic
                   | Some a => if verify_with_challenge l a r s x then Ok tt else Err
                   end
            else Ok tt in
          do _ <- strict_ok;
          if negb (scalar_ok l s) then Err
          else share_loop keys c x strict rs' (fadd l acc s)
      end
  end.

Definition aggregate_response (keys : list Z) (rs : list (Z * option Z)) (m : N) (strict : bool)
           (c : cosi) : res cosi :=
  let ks := mask_keys (c_mask c) in
  if negb (all_below (Z.of_nat (length keys)) ks) then Err
  else if negb (forallb (fun i => match resp_get rs i with Some _ => true | None => false end) ks) then Err
  else if negb (Nat.eqb (length ks) (length rs)) then Err
  else
    do x <- challenge keys m c;
    do s <- share_loop keys c x strict rs 0;
    Ok (mkCosi (c_r c) s (c_mask c) (c_commits c)).

Definition threshold_verify (threshold : Z) (c : cosi) : bool :=
  threshold <=? Z.of_nat (length (mask_keys (c_mask c))).

Definition full_verify (keys : list Z) (threshold : Z) (m : N) (c : cosi) : res unit :=
  if threshold <=? 0 then Err
  else if negb (threshold_verify threshold c) then Err
  else
    do a <- cosi_public_key keys c;
    if schnorr_verify l enc H a m (c_r c) (c_s c) then Ok tt else Err.

End Cosi.
