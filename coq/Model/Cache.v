(* Executable model of the transaction cache of storage/badger_cache.go
   (C23, used by C24).

   State = the three record families of the cache database:
     queue    CACHETRANSACTIONQUEUE ‖ ts(8 bytes, big endian) ‖ hash   -> ""      (scheduling entries)
     order    CACHETRANSACTIONORDER ‖ hash                            -> ""      (dedup index)
     payload  CACHETRANSACTIONPAYLOAD ‖ hash                          -> body    (marshalled transaction)
   A payload hash is an [N] (32 bytes, big endian: the key order of Badger on
   equal timestamps is the order of [N]).  A body is an [N] naming the exact
   marshalled bytes (differently signed bodies of one payload hash are
   different numbers); body 0 stands for bytes that do not unmarshal.
   Every operation is one Badger transaction and is modelled as one atomic
   step.  Record TTLs (runtime expiry of records) are outside the model.
   No proofs here. *)
From Coq Require Import List ZArith NArith Bool.
Require Import Mixin.Base.Res.
Import ListNotations.
Open Scope N_scope.

Definition qkey := (N * N)%type.            (* (timestamp, payload hash) *)

Definition key_eqb (a b : qkey) : bool := (fst a =? fst b) && (snd a =? snd b).
Definition key_ltb (a b : qkey) : bool :=
  (fst a <? fst b) || ((fst a =? fst b) && (snd a <? snd b)).

(* Badger key space = sorted set of keys; writing an existing key overwrites it. *)
Fixpoint qins (k : qkey) (q : list qkey) : list qkey :=
  match q with
  | [] => [k]
  | x :: q' => if key_eqb k x then x :: q'
               else if key_ltb k x then k :: x :: q'
               else x :: qins k q'
  end.

Definition mem (h : N) (l : list N) : bool := existsb (N.eqb h) l.

Fixpoint oins (h : N) (l : list N) : list N :=
  match l with
  | [] => [h]
  | x :: l' => if h =? x then x :: l'
               else if h <? x then h :: x :: l'
               else x :: oins h l'
  end.
Definition odel (h : N) (l : list N) : list N := filter (fun x => negb (x =? h)) l.

(* association lists keyed by N (payload map; also the verifier map of Retire.v) *)
Fixpoint aget {A} (h : N) (m : list (N * A)) : option A :=
  match m with
  | [] => None
  | (k, v) :: m' => if k =? h then Some v else aget h m'
  end.
Fixpoint aset {A} (h : N) (v : A) (m : list (N * A)) : list (N * A) :=
  match m with
  | [] => [(h, v)]
  | (k, w) :: m' => if h =? k then (h, v) :: m'
                    else if h <? k then (h, v) :: (k, w) :: m'
                    else (k, w) :: aset h v m'
  end.
Definition adel {A} (h : N) (m : list (N * A)) : list (N * A) :=
  filter (fun kv => negb (fst kv =? h)) m.

Record cache := mkCache {
  queue : list qkey;
  order : list N;
  payload : list (N * N)
}.

Definition empty_cache : cache := mkCache [] [] [].

(* cacheQueueTransaction: no-op when the order record exists; otherwise writes
   order, payload (overwriting any stored body) and a queue entry at [ts]. *)
Definition queue_tx (ts h b : N) (c : cache) : cache :=
  if mem h (order c) then c
  else mkCache (qins (ts, h) (queue c)) (oins h (order c)) (aset h b (payload c)).

(* cacheStoreTransaction: first write wins; never touches queue or order. *)
Definition store_tx (h b : N) (c : cache) : cache :=
  match aget h (payload c) with
  | Some _ => c
  | None => mkCache (queue c) (order c) (aset h b (payload c))
  end.

(* cacheReadTransaction / CacheGetTransaction *)
Definition read_body (h : N) (c : cache) : res (option N) :=
  match aget h (payload c) with
  | None => Ok None
  | Some b => if b =? 0 then Err else Ok (Some b)
  end.
Definition get_tx := read_body.

(* CacheRemoveTransactions: deletes payload and order records (batches of
   idempotent deletes; the queue entries stay). *)
Definition remove_one (c : cache) (h : N) : cache :=
  mkCache (queue c) (odel h (order c)) (adel h (payload c)).
Definition remove_txs (hs : list N) (c : cache) : cache := fold_left remove_one hs c.

(* The scan of CacheRetrieveTransactions over the queue entries in key order.
   [seen] = filter map, [n] = len(txs) so far.  Result: returned (hash, body)
   in order, hashes of the processed entries, unprocessed rest of the queue. *)
Fixpoint scan (pay : list (N * N)) (limit : Z) (q : list qkey) (seen : list N) (n : Z)
  : res (list (N * N) * list N * list qkey) :=
  match q with
  | [] => Ok ([], [], [])
  | (ts, h) :: q' =>
    if (n <? limit)%Z then
      if mem h seen then
        do x <- scan pay limit q' seen n;
        let '(out, pr, rest) := x in Ok (out, h :: pr, rest)
      else
        match aget h pay with
        | None =>
          do x <- scan pay limit q' (h :: seen) n;
          let '(out, pr, rest) := x in Ok (out, h :: pr, rest)
        | Some b =>
          if b =? 0 then Err
          else
            do x <- scan pay limit q' (h :: seen) (n + 1)%Z;
            let '(out, pr, rest) := x in Ok ((h, b) :: out, h :: pr, rest)
        end
    else Ok ([], [], q)
  end.

(* CacheRetrieveTransactions: on a read error the transaction is discarded
   (state unchanged); otherwise every processed queue entry and the order
   record of its hash are deleted, payloads are kept. *)
Definition retrieve (limit : Z) (c : cache) : res (list (N * N) * cache) :=
  do x <- scan (payload c) limit (queue c) [] 0%Z;
  let '(out, pr, rest) := x in
  Ok (out, mkCache rest (fold_left (fun o h => odel h o) pr (order c)) (payload c)).

(* ---- histories ---------------------------------------------------------- *)
Inductive op :=
| OQueue (ts h b : N)
| OStore (h b : N)
| ORetrieve (limit : Z)
| ORemove (hs : list N)
| OGet (h : N).

Inductive obs :=
| RUnit
| RTxs (r : res (list (N * N)))
| RGet (r : res (option N)).

Definition step (c : cache) (o : op) : cache * obs :=
  match o with
  | OQueue ts h b => (queue_tx ts h b c, RUnit)
  | OStore h b => (store_tx h b c, RUnit)
  | ORetrieve limit =>
    match retrieve limit c with
    | Ok (out, c') => (c', RTxs (Ok out))
    | Err => (c, RTxs Err)
    | Panic => (c, RTxs Panic)
    end
  | ORemove hs => (remove_txs hs c, RUnit)
  | OGet h => (c, RGet (get_tx h c))
  end.

(* Instrumented run: besides the cache, the list of every hash ever returned by
   a retrieval and the list of hashes for which a queue entry was written. *)
Record trace := mkTrace { t_cache : cache; t_returned : list N; t_created : list N }.

Definition tstep (t : trace) (o : op) : trace :=
  let c := t_cache t in
  let (c', r) := step c o in
  let ret := match r with RTxs (Ok out) => map fst out | _ => [] end in
  let crt := match o with
             | OQueue _ h _ => if mem h (order c) then [] else [h]
             | _ => []
             end in
  mkTrace c' (t_returned t ++ ret) (t_created t ++ crt).

Definition run (ops : list op) (t : trace) : trace := fold_left tstep ops t.
Definition start : trace := mkTrace empty_cache [] [].

Definition count (h : N) (l : list N) : nat := count_occ N.eq_dec l h.
Definition pending (h : N) (c : cache) : nat := count h (map snd (queue c)).
Definition queue_ops (h : N) (ops : list op) : nat :=
  length (filter (fun o => match o with OQueue _ h' _ => h' =? h | _ => false end) ops).
