(* Model of crypto/aggregation.go and the Schnorr verification of
   crypto/signature.go over the discrete-log representation of the group
   (Model/Group.v).

   [l] group order, [enc] the 32-byte encoding of the point p.B carried as one
   big-endian N, [H] SHA-512 followed by Scalar.SetUniformBytes (reduction mod
   l) are Section variables.  Public keys ([]*Key) are lists of discrete logs;
   a nil pointer or bytes that do not decode are any value that is not
   [point_ok] (the harness uses -1).  Go ints (signer indices) are Z.

   Executable; no proofs in this file. *)
From Coq Require Import List ZArith NArith Bool.
Require Import Mixin.Base.Res Mixin.Gen.Consts Mixin.Model.Group.
Import ListNotations.
Open Scope Z_scope.

Section Aggregate.
Variable l : Z.
Variable enc : Z -> N.
Variable H : list N -> Z.

(* ---- signature.go: VerifyWithChallenge / Verify --------------------------- *)

(* s.B - c.K = R, all three operands decoded first *)
Definition verify_with_challenge (k r s c : Z) : bool :=
  point_ok l k && point_ok l r && scalar_ok l s && (s mod l =? (r + c * k) mod l).

Definition challenge_input (r a : Z) (m : N) : list N :=
  bytes32 (enc r) ++ bytes32 (enc a) ++ bytes32 m.

Definition schnorr_verify (k : Z) (m : N) (r s : Z) : bool :=
  verify_with_challenge k r s (H (challenge_input r k m)).

(* ---- collectAggregateSigners ---------------------------------------------- *)

Fixpoint collect_loop (keys : list Z) (prev : Z) (signers : list Z) : res (list (Z * Z)) :=
  match signers with
  | [] => Ok []
  | i :: rest =>
      if i <=? prev then Err
      else if Z.of_nat (length keys) <=? i then Err
      else match nth_error keys (Z.to_nat i) with
           | None => Panic
           | Some k =>
               if negb (point_ok l k) then Err
               else do tl <- collect_loop keys i rest; Ok ((i, k) :: tl)
           end
  end.

Definition collect_signers (keys signers : list Z) : res (list (Z * Z)) :=
  match signers with
  | [] => Err
  | _ => collect_loop keys (-1) signers
  end.

Definition transcript (sel : list (Z * Z)) : list N :=
  u32be (Z.of_nat (length sel)) ++
  flat_map (fun ik => u32be (fst ik) ++ bytes32 (enc (snd ik))) sel.

(* ---- aggregatePublicKey (plain sum; used by CoSi) ------------------------- *)

Definition aggregate_public_key (keys signers : list Z) : res Z :=
  do sel <- collect_signers keys signers; Ok (fsum l (map snd sel)).

(* ---- aggregateCoefficient / aggregateWeightedPublicKey -------------------- *)

Definition coef_input (tr : list N) (ik : Z * Z) : list N :=
  Consts.AggCoefDomain ++ tr ++ u32be (fst ik) ++ bytes32 (enc (snd ik)).

Definition coef (tr : list N) (ik : Z * Z) : Z := H (coef_input tr ik).

Definition weighted_key_of (sel : list (Z * Z)) : Z :=
  fsum l (map (fun ik => fmul l (coef (transcript sel) ik) (snd ik)) sel).

Definition aggregate_weighted_public_key (keys signers : list Z) : res (Z * list (Z * Z)) :=
  do sel <- collect_signers keys signers; Ok (weighted_key_of sel, sel).

(* ---- AggregateSign ---------------------------------------------------------- *)

Definition nonce_input (y : Z) (seed tr : list N) (a signer : Z) (m : N) : list N :=
  Consts.AggNonceDomain ++ scalar_bytes y ++ u32be (Z.of_nat (length seed)) ++ seed ++ tr ++
  bytes32 (enc a) ++ u32be signer ++ bytes32 m.

(* the per-signer loop: (private scalar, nonce) pairs, first failure wins *)
Fixpoint sign_loop (seed tr : list N) (a : Z) (m : N) (sel : list (Z * Z)) (privs : list Z)
  : res (list (Z * Z)) :=
  match sel, privs with
  | [], _ => Ok []
  | _ :: _, [] => Panic
  | (signer, k) :: sel', y :: privs' =>
      if 65535 <? signer then Err
      else if negb (scalar_ok l y) then Err
      else if negb (y =? k) then Err
      else do tl <- sign_loop seed tr a m sel' privs';
           Ok ((y, H (nonce_input y seed tr a signer m)) :: tl)
  end.

Definition aggregate_sign (privs keys signers : list Z) (seed : list N) (m : N) : res (Z * Z) :=
  if negb (Nat.eqb (length privs) (length signers)) then Err
  else if Nat.ltb (length seed) 32 then Err
  else
    do aw <- aggregate_weighted_public_key keys signers;
    let '(a, sel) := aw in
    let tr := transcript sel in
    do yz <- sign_loop seed tr a m sel privs;
    let r := fsum l (map snd yz) in
    let x := H (challenge_input r a m) in
    let shares :=
      map (fun '(ik, (y, z)) => (x * fmul l (coef tr ik) y + z) mod l) (combine sel yz) in
    Ok (r, fsum l shares).

(* ---- AggregateVerify -------------------------------------------------------- *)

Definition aggregate_verify (r s : Z) (keys signers : list Z) (m : N) : res unit :=
  do aw <- aggregate_weighted_public_key keys signers;
  if schnorr_verify (fst aw) m r s then Ok tt else Err.

End Aggregate.
