(* Model of common/integer.go and common/ration.go.
   An Integer is its big.Int value (units of 10^-8) as a Z; every Go panic is
   the outcome [Panic].  Executable; no proofs in this file. *)
From Coq Require Import List ZArith NArith Bool.
Require Import Mixin.Base.Res Mixin.Gen.Consts.
Import ListNotations.
Open Scope Z_scope.

Definition precision : Z := Consts.Precision.  (* regenerated from common/integer.go *)
Definition unit_scale : Z := 10 ^ precision.
Definition two64 : Z := 2 ^ 64.

(* ---- arithmetic ------------------------------------------------------- *)

Definition new_integer (x : Z) : Z := x * unit_scale.

Definition i_add (x y : Z) : res Z :=
  if (x <? 0) || (y <=? 0) then Panic
  else let v := x + y in
       if (v <? x) || (v <? y) then Panic else Ok v.

Definition i_sub (x y : Z) : res Z :=
  if (x <? 0) || (y <=? 0) then Panic
  else if x <? y then Panic
  else Ok (x - y).

Definition i_mul (x y : Z) : res Z :=
  if (x <? 0) || (y <=? 0) then Panic else Ok (x * y).

Definition i_div (x y : Z) : res Z :=
  if (x <? 0) || (y <=? 0) then Panic else Ok (x / y).

Definition i_count (x y : Z) : res Z :=
  if (x <=? 0) || (y <=? 0) || (x <? y) then Panic
  else let c := x / y in
       if c <? two64 then Ok c else Panic.

Definition i_cmp (x y : Z) : Z :=
  match x ?= y with Lt => -1 | Eq => 0 | Gt => 1 end.

Definition ration (x y : Z) : res (Z * Z) :=
  if (x <? 0) || (y <=? 0) then Panic else Ok (x, y).

(* big.Int.Div panics on a zero divisor (zero-valued RationalNumber) *)
Definition product (r : Z * Z) (x : Z) : res Z :=
  if x <? 0 then Panic
  else if snd r =? 0 then Panic
  else Ok (x * fst r / snd r).

Definition r_cmp (r s : Z * Z) : Z :=
  i_cmp (fst r * snd s) (snd r * fst s).

(* ---- printing --------------------------------------------------------- *)

Definition ch0 : N := 48.  (* '0' *)
Definition ch_dot : N := 46.
Definition ch_plus : N := 43.
Definition ch_minus : N := 45.
Definition ch_e : N := 101.
Definition ch_E : N := 69.

Fixpoint digits_fuel (fuel : nat) (n : N) (acc : list N) : list N :=
  match fuel with
  | O => acc
  | S f =>
      let acc' := (ch0 + n mod 10)%N :: acc in
      if (n / 10 =? 0)%N then acc' else digits_fuel f (n / 10)%N acc'
  end.

(* decimal digits of n, most significant first; "0" for 0 *)
Definition digits (n : N) : list N := digits_fuel (S (N.size_nat n)) n [].

(* Integer.String for a non-negative value *)
Definition print (x : Z) : list N :=
  let s := digits (Z.to_N x) in
  let l := Z.of_nat (length s) in
  let p := l - precision in
  if 0 <? p
  then firstn (Z.to_nat p) s ++ ch_dot :: skipn (Z.to_nat p) s
  else ch0 :: ch_dot :: repeat ch0 (Z.to_nat (- p)) ++ s.

(* ---- parsing (decimal.NewFromString + NewIntegerFromString) ------------ *)

Definition is_digit (c : N) : bool := ((48 <=? c) && (c <=? 57))%N.

Fixpoint of_digits_acc (acc : Z) (s : list N) : option Z :=
  match s with
  | [] => Some acc
  | c :: s' => if is_digit c then of_digits_acc (acc * 10 + Z.of_N (c - 48)) s' else None
  end.

(* strconv.ParseInt / big.Int.SetString base 10: [+-]?[0-9]+ *)
Definition parse_signed (s : list N) : option Z :=
  match s with
  | [] => None
  | c :: s' =>
      if (c =? ch_plus)%N then match s' with [] => None | _ => of_digits_acc 0 s' end
      else if (c =? ch_minus)%N then
        match s' with [] => None | _ => option_map Z.opp (of_digits_acc 0 s') end
      else of_digits_acc 0 s
  end.

(* split at the first 'e' or 'E' *)
Fixpoint split_exp (s : list N) : list N * option (list N) :=
  match s with
  | [] => ([], None)
  | c :: s' =>
      if ((c =? ch_e) || (c =? ch_E))%N then ([], Some s')
      else let '(a, b) := split_exp s' in (c :: a, b)
  end.

Fixpoint count_dots (s : list N) : nat :=
  match s with
  | [] => O
  | c :: s' => if (c =? ch_dot)%N then S (count_dots s') else count_dots s'
  end.

(* (text with the dot removed, number of characters after the dot) *)
Fixpoint remove_dot (s : list N) : list N * nat :=
  match s with
  | [] => ([], O)
  | c :: s' => if (c =? ch_dot)%N then (s', length s')
               else let '(a, k) := remove_dot s' in (c :: a, k)
  end.

Definition min_int32 : Z := - 2 ^ 31.
Definition max_int32 : Z := 2 ^ 31 - 1.
Definition in_int32 (z : Z) : bool := (min_int32 <=? z) && (z <=? max_int32).

(* value * 10^e, floored *)
Definition scale10 (v e : Z) : Z :=
  if 0 <=? e then v * 10 ^ e else v / 10 ^ (- e).

(* NewIntegerFromString: every parse error is a panic, a negative value is a
   panic; otherwise floor(value * 10^8). *)
Definition parse (s : list N) : res Z :=
  let '(mant, eopt) := split_exp s in
  let rexp := match eopt with
              | None => Some 0
              | Some es => match parse_signed es with
                           | Some e => if in_int32 e then Some e else None
                           | None => None
                           end
              end in
  match rexp with
  | None => Panic
  | Some e0 =>
      if Nat.ltb 1 (count_dots mant) then Panic
      else
        let '(istr, frac) := if Nat.eqb (count_dots mant) 0 then (mant, O) else remove_dot mant in
        match parse_signed istr with
        | None => Panic
        | Some v =>
            let e := e0 - Z.of_nat frac in
            if negb (in_int32 e) then Panic
            else if v <? 0 then Panic
            else if negb (in_int32 (e + precision)) then Panic  (* decimal.Mul exponent overflow *)
            else Ok (scale10 v (e + precision))
        end
  end.
