(* Projection of a decoded transaction of the byte-level codec model
   (Model/TxCodec.v, property C06) to the transaction record the validation model
   (Model/Validate.v, properties C01/C05) works on.  Hashes and keys are the same
   big-endian N values in both models; counts, indexes and amounts become Z; byte
   strings whose content validation never inspects become their lengths.  Two facts
   that are not functions of the transaction alone enter as parameters: the
   strings.TrimSpace test of the deposit strings and the verification result of a
   signature (which depends on the spent output's key and the payload hash). *)
From Coq Require Import List ZArith NArith Bool.
Require Mixin.Model.TxCodec Mixin.Model.Validate.
Import ListNotations.

Module C := Mixin.Model.TxCodec.
Module V := Mixin.Model.Validate.

Section Proj.
  Variable trim : list N -> bool.            (* strings.TrimSpace(s) == s *)
  Variable sigv : nat -> N -> N -> bool.     (* map position, key index, signature -> verifies *)

  Definition proj_deposit (d : C.deposit) : V.deposit :=
    {| V.d_chain := C.d_chain d; V.d_key := C.d_asset_key d; V.d_key_trim := trim (C.d_asset_key d);
       V.d_txlen := V.len (C.d_tx d); V.d_tx_trim := trim (C.d_tx d);
       V.d_index := Z.of_N (C.d_index d); V.d_amount := Z.of_N (C.d_amount d) |}.

  Definition proj_mint (m : C.mint) : V.mint :=
    {| V.m_group := C.m_group m; V.m_batch := Z.of_N (C.m_batch m); V.m_amount := Z.of_N (C.m_amount m) |}.

  (* ReadBytes returns nil for length 0: the decoder never yields an empty non-nil Genesis *)
  Definition proj_genesis (g : list N) : option Z :=
    match g with [] => None | _ => Some (V.len g) end.

  Definition proj_input (i : C.input) : V.input :=
    {| V.i_hash := C.i_hash i; V.i_index := Z.of_N (C.i_index i); V.i_genesis := proj_genesis (C.i_genesis i);
       V.i_deposit := option_map proj_deposit (C.i_deposit i); V.i_mint := option_map proj_mint (C.i_mint i) |}.

  Definition proj_output (o : C.output) : V.output :=
    {| V.o_type := Z.of_N (C.o_type o); V.o_amount := Z.of_N (C.o_amount o); V.o_keys := C.o_keys o;
       V.o_mask := C.o_mask o; V.o_script := C.o_script o;
       V.o_withdrawal := option_map (fun w => (V.len (C.w_address w), V.len (C.w_tag w))) (C.o_withdrawal o) |}.

  Definition proj_sigmap (pos : nat) (m : C.sigmap) : V.sigmap :=
    map (fun e => (Z.of_N (fst e), sigv pos (fst e) (snd e))) m.

  Fixpoint proj_maps (pos : nat) (ms : list C.sigmap) : list V.sigmap :=
    match ms with
    | [] => []
    | m :: r => proj_sigmap pos m :: proj_maps (S pos) r
    end.

  Definition proj (t : C.tx) : V.tx :=
    {| V.t_version := Z.of_N (C.t_version t); V.t_asset := C.t_asset t;
       V.t_inputs := map proj_input (C.t_inputs t); V.t_outputs := map proj_output (C.t_outputs t);
       V.t_refs := C.t_refs t; V.t_extra := C.t_extra t;
       V.t_agg := match C.t_auth t with
                  | C.Aggregate _ s => Some (map Z.of_N s)
                  | C.SigMaps _ => None
                  end;
       (* sl = 0 leaves SignaturesMap nil *)
       V.t_sigs := match C.t_auth t with
                   | C.SigMaps [] => None
                   | C.SigMaps ms => Some (proj_maps 0 ms)
                   | C.Aggregate _ _ => None
                   end |}.
End Proj.
