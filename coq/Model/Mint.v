(* Model of kernel/mint.go: the mint schedule (mintBatchSize,
   mintMultiBatchesSize, poolSizeUniversal), the work based distribution
   (distributeKernelMintByWorks) and the output construction of
   buildUniversalMintTransaction.  Amounts are common.Integer values, i.e. Z
   in units of 10^-8 with the panic outcomes of Model/Fixed.v.
   Executable; no proofs in this file. *)
From Coq Require Import List ZArith NArith Bool.
Require Import Mixin.Base.Res Mixin.Gen.Consts Mixin.Model.Fixed.
Import ListNotations.
Open Scope Z_scope.

(* ---- constants (regenerated from the tree) ------------------------------ *)

Definition mint_pool : Z := Consts.MintPoolUnits.
Definition year_percent : Z * Z := (Consts.MintYearPercentNum, Consts.MintYearPercentDen).
Definition year_days : Z := Consts.MintYearDays.
Definition legacy_ending : Z := Consts.MintLegacyEnding.
Definition min_nodes : Z := Consts.MintMinNodes.
Definition max_nodes : Z := Consts.MintMaxNodes.

(* ---- schedule ------------------------------------------------------------- *)

(* one iteration of the year loop: year := percent.Product(pool); pool.Sub(year) *)
Definition year_step (pool : Z) : res Z :=
  do year <- product year_percent pool; i_sub pool year.

(* the pool after [y] whole years *)
Fixpoint pool_after (y : nat) : res Z :=
  match y with
  | O => Ok mint_pool
  | S y' => do p <- pool_after y'; year_step p
  end.

(* mintBatchSize(batch uint64): the amount only depends on years = batch/365 *)
Definition batch_size_of_year (years : Z) : res Z :=
  if 10000 <? years then Panic
  else do pool <- pool_after (Z.to_nat years);
       do year <- product year_percent pool;
       i_div year year_days.

Definition mint_batch_size (batch : Z) : res Z :=
  batch_size_of_year (batch / year_days).

(* the loop of mintMultiBatchesSize: amount = amount.Add(mintBatchSize(i))
   for the [n] batches starting at [i] *)
Fixpoint multi_from (n : nat) (i : Z) (acc : Z) : res Z :=
  match n with
  | O => Ok acc
  | S n' => do s <- mint_batch_size i; do a <- i_add acc s; multi_from n' (i + 1) a
  end.

(* mintMultiBatchesSize(old, batch uint64) *)
Definition mint_multi (old batch : Z) : res Z :=
  if batch <=? old then Panic
  else multi_from (Z.to_nat (batch - old)) (old + 1) 0.

(* the year loop of poolSizeUniversal: (mint, pool) after [y] years *)
Fixpoint pool_years (y : nat) : res (Z * Z) :=
  match y with
  | O => Ok (0, mint_pool)
  | S y' =>
      do mp <- pool_years y';
      do year <- product year_percent (snd mp);
      do m <- i_add (fst mp) year;
      do p <- i_sub (snd mp) year;
      Ok (m, p)
  end.

(* poolSizeUniversal(batch int), batch >= 0 *)
Definition pool_size (batch : Z) : res Z :=
  do mp <- pool_years (Z.to_nat (batch / year_days));
  do year <- product year_percent (snd mp);
  do day <- i_div year year_days;
  let count := batch mod year_days in
  do mint <- (if 0 <? count then do d <- i_mul day count; i_add (fst mp) d else Ok (fst mp));
  if 0 <? mint then i_sub mint_pool mint else Ok mint_pool.

(* ---- distribution by works -------------------------------------------------- *)

(* m.Work = NewInteger(lead).Mul(120).Div(100) (+ NewInteger(sign) if positive) *)
Definition node_work (ls : Z * Z) : res Z :=
  do a <- i_mul (new_integer (fst ls)) 120;
  do b <- i_div a 100;
  let s := new_integer (snd ls) in
  if 0 <? s then i_add b s else Ok b.

Fixpoint map_res {A B} (f : A -> res B) (l : list A) : res (list B) :=
  match l with
  | [] => Ok []
  | a :: l' => do b <- f a; do bs <- map_res f l'; Ok (b :: bs)
  end.

Record stats := mk_stats { st_valid : Z; st_min : Z; st_max : Z; st_total : Z }.
Definition stats0 : stats := mk_stats 0 0 0 0.

(* the first loop: count, minimum, maximum and total of the non-zero works *)
Fixpoint collect (ws : list Z) (s : stats) : res stats :=
  match ws with
  | [] => Ok s
  | w :: r =>
      if w =? 0 then collect r s
      else
        let mn := if st_min s =? 0 then w else if w <? st_min s then w else st_min s in
        let mx := if st_max s <? w then w else st_max s in
        do t <- i_add (st_total s) w;
        collect r (mk_stats (st_valid s + 1) mn mx t)
  end.

(* the piecewise map around the average [avg] *)
Definition remap (avg w : Z) : res Z :=
  do upper <- i_mul avg 7;
  do lower <- i_div avg 7;
  if upper <=? w then i_mul avg 2
  else if avg <=? w then
    do a <- i_div w 6; do b <- i_mul avg 5; do c <- i_div b 6; i_add a c
  else if w <=? lower then i_div avg 7
  else Ok w.

(* total = total.Add(x) over a list, starting from [acc] *)
Fixpoint sum_add (acc : Z) (l : list Z) : res Z :=
  match l with
  | [] => Ok acc
  | x :: l' => do a <- i_add acc x; sum_add a l'
  end.

Definition share (base total y : Z) : res Z :=
  do r <- ration y total; product r base.

(* distributeKernelMintByWorks after the readiness check:
   [day0]  = (day - epoch == 0); [works] = (lead, sign) of the previous day per
   accepted node in order; [thr] = consensus threshold; [base] = kernel share.
   Err = the "not valid" error returns. *)
Definition distribute (day0 : bool) (works : list (Z * Z)) (thr base : Z) : res (list Z) :=
  if day0 then
    do w <- i_div base (Z.of_nat (length works));
    Ok (map (fun _ => w) works)
  else
    do ws <- map_res node_work works;
    do s <- collect ws stats0;
    if st_valid s <? thr then Err
    else
      do t1 <- i_sub (st_total s) (st_min s);
      do t2 <- i_sub t1 (st_max s);
      do avg <- i_div t2 (st_valid s - 2);
      if avg =? 0 then Err
      else
        do ys <- map_res (remap avg) ws;
        do total <- sum_add 0 ys;
        map_res (share base total) ys.

(* the aggregator readiness check (validateWorksAndSpacesAggregator):
   [now] = today's (lead, sign) per node, [spaces] = checkpoint batch per node
   (None = no checkpoint), [batch] = day - epoch *)
Definition count_if {A} (f : A -> bool) (l : list A) : Z :=
  Z.of_nat (length (filter f l)).
Definition ready (now : list (Z * Z)) (spaces : list (option Z)) (thr batch : Z) : bool :=
  let wa := count_if (fun w => 0 <? fst w) now in
  let sa := count_if (fun s => match s with Some b => batch <=? b | None => false end) spaces in
  negb (wa <? thr) && negb (sa <? thr) && (wa =? sa).

(* ---- the mint transaction outputs -------------------------------------------- *)

(* the output amounts built after the node shares are known *)
Definition mint_outputs (amount : Z) (mints : list Z) : res (list Z) :=
  do total <- sum_add 0 mints;
  if amount <? total then Panic
  else
    do t10 <- i_div amount 10;
    do safe <- i_mul t10 4;
    do total2 <- i_add total safe;
    if amount <? total2 then Panic
    else
      do light <- i_sub amount total2;
      Ok (mints ++ [safe; light]).

(* buildUniversalMintTransaction once batch and amount are decided.
   Err = nil transaction (nothing to mint, or distribution not ready). *)
Definition build_outputs (batch amount : Z) (day0 : bool) (is_ready : bool)
           (works : list (Z * Z)) (thr : Z) : res (list Z) :=
  if (amount <=? 0) || (batch <=? legacy_ending) then Err
  else
    do t10 <- i_div amount 10;
    do kernel <- i_mul t10 5;
    if negb day0 && negb is_ready then Err
    else
      do mints <- distribute day0 works thr kernel;
      mint_outputs amount mints.

(* checkUniversalMintPossibility for a timestamp inside the mint hours of
   batch [batch] >= 1, with the last distribution (old, old_amount) *)
Definition mint_possibility (old old_amount batch : Z) (validate_only : bool) : res (Z * Z) :=
  if batch <? old then Ok (0, 0)
  else if batch =? old then (if validate_only then Ok (batch, old_amount) else Ok (0, 0))
  else do a <- mint_multi old batch; Ok (batch, a).

Definition build_mint (old old_amount batch : Z) (validate_only day0 is_ready : bool)
           (works : list (Z * Z)) (thr : Z) : res (list Z) :=
  do ba <- mint_possibility old old_amount batch validate_only;
  build_outputs (fst ba) (snd ba) day0 is_ready works thr.

(* ConsensusThreshold for [n] counted nodes *)
Definition consensus_threshold (n : Z) : Z :=
  if n <? min_nodes then 1000 else n * 2 / 3 + 1.
