(* Model of kernel/round.go: CacheRound.Gap, validateSnapshot, asFinal.
   The live round is its slice of snapshots in Go order (Gap and ComputeRoundHash
   sort the slice in place, so every function returns the possibly reordered
   slice together with its outcome).  uint64 arithmetic wraps explicitly.
   Executable; no proofs in this file. *)
From Coq Require Import List ZArith NArith Bool.
Require Import Mixin.Base.Res Mixin.Gen.Consts Mixin.Model.RoundHash.
Import ListNotations.
Open Scope N_scope.

Definition one_day : N := Z.to_N Consts.RoundOneDay.   (* kernel.OneDay *)
Definition max_half : N := (two64 - 1) / 2.            (* (^uint64(0))/2 *)

(* comparator of the sort in Gap: timestamp only *)
Definition ts_lt (a b : snap) : bool := s_ts a <? s_ts b.
Definition isort_ts : list snap -> list snap := isort_by ts_lt.

Section Live.
Variable sort_ts : list snap -> list snap.   (* sort.Slice of Gap *)

(* (slice after the call, start, end) or the GAP panic *)
Definition gap_of (l : list snap) : list snap * res (N * N) :=
  match l with
  | [] => ([], Ok (max_half, 0))
  | _ =>
      let sl := sort_ts l in
      match sl with
      | [] => (sl, Panic)                     (* index panic; unreachable for a permutation *)
      | s0 :: _ =>
          let start := s_ts s0 in
          let end_ := s_ts (last sl s0) in
          if add64 start round_gap <=? end_ then (sl, Panic) else (sl, Ok (start, end_))
      end
  end.

Definition shares_tx (s cs : snap) : bool :=
  existsb (fun txh => existsb (N.eqb txh) (s_txs cs)) (s_txs s).

(* cs.PayloadHash(), evaluated only to format the duplicate-transaction error,
   panics unless cs can be encoded by the common snapshot encoding *)
Definition snap_version : N := Z.to_N Consts.RoundSnapVersion.
Definition snap_tx_max : N := Z.to_N Consts.RoundSnapTxMax.
Fixpoint nodup_txs (l : list N) : bool :=
  match l with
  | [] => true
  | x :: t => negb (existsb (N.eqb x) t) && nodup_txs t
  end.
Definition encodable (cs : snap) : bool :=
  let n := N.of_nat (length (s_txs cs)) in
  (s_version cs =? snap_version) && (1 <=? n) && (n <=? snap_tx_max)
  && negb ((s_round cs =? 0) && negb (n =? 1)) && nodup_txs (s_txs cs).

(* the loop over c.Snapshots: Ok tt = fell through, Err = an error was returned *)
Fixpoint scan (s : snap) (l : list snap) : res unit :=
  match l with
  | [] => Ok tt
  | cs :: t =>
      if (s_hash cs =? s_hash s) || (s_ts cs =? s_ts s) then Err
      else if negb (s_ts cs / one_day =? s_ts s / one_day) then Err
      else if shares_tx s cs then (if encodable cs then Err else Panic)
      else scan s t
  end.

Definition gap_rejects (s : snap) (start end_ : N) : bool :=
  (start <=? end_) &&
  (((s_ts s <? start) && (add64 (s_ts s) round_gap <=? end_))
   || ((end_ <? s_ts s) && (add64 start round_gap <=? s_ts s))).

(* validateSnapshot(s, add): the slice afterwards and the outcome *)
Definition validate_snapshot (number : N) (l : list snap) (s : snap) (add : bool)
  : list snap * res unit :=
  if negb (s_round s =? number) || (s_hash s =? 0) then (l, Panic)
  else
    match scan s l with
    | Err => (l, Err)
    | Panic => (l, Panic)
    | Ok _ =>
    match gap_of l with
    | (sl, Panic) => (sl, Panic)
    | (sl, Err) => (sl, Err)
    | (sl, Ok (start, end_)) =>
        if gap_rejects s start end_ then (sl, Err)
        else if add then (sl ++ [s], Ok tt) else (sl, Ok tt)
    end
    end.

(* the live round after offering a candidate with add = true *)
Definition accept (number : N) (l : list snap) (s : snap) : list snap :=
  fst (validate_snapshot number l s true).

Definition run (number : N) (cands : list snap) : list snap :=
  fold_left (accept number) cands [].

(* asFinal: nil for an empty round, else ComputeRoundHash (which sorts the slice) *)
Section Final.
Variable H : hin -> N.
Variable sort : list snap -> list snap.      (* sort.Slice of ComputeRoundHash *)
Definition as_final (node number : N) (l : list snap) : res (option (N * N * N)) :=
  match l with
  | [] => Ok None
  | _ => rmap Some (round_hash_common H sort node number l)
  end.
End Final.
End Live.
