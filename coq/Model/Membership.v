(* Model of the time-indexed membership views of kernel/node.go
   (LoadConsensusNodes, buildNodeStateSequences, NodesListWithoutState,
   nodeSequenceWithoutState, PledgingNode, getAcceptedOrPledgingNode,
   ConsensusReady, ConsensusThreshold), kernel/graph.go (consensusNodes,
   ConsensusKeys), kernel/slash.go (usePredictiveNodeRemovalSignerSet,
   removingOrSlashingNodeAt), kernel/election.go (electSnapshotNode,
   checkRemovePossibility with old = nil, checkConsensusAcceptHour),
   storage/badger_node.go (readAllNodes) and storage/badger_custodian.go
   (readCustodianAccount / parseCustodianUpdateItem with the (tx, genesis)
   cache).  Timestamps, ids, keys and hashes are N (big-endian values); uint64
   wrap-around is explicit.  Executable; no proofs in this file. *)
From Coq Require Import List ZArith NArith Bool.
Require Import Mixin.Base.Res Mixin.Gen.Consts.
Import ListNotations.
Open Scope N_scope.

(* ---- constants (regenerated from the repository) ------------------------- *)
Definition two64 : N := 2 ^ 64.
Definition two63 : N := 2 ^ 63.
Definition hour_ns : N := Z.to_N Consts.MbrHour.
Definition minute_ns : N := Z.to_N Consts.MbrMinute.
Definition one_day : N := Z.to_N Consts.MbrOneDay.
Definition round_gap : N := Z.to_N Consts.MbrSnapshotRoundGap.
Definition ref_threshold : N := Z.to_N Consts.MbrSnapshotReferenceThreshold.
Definition min_nodes : N := Z.to_N Consts.MbrKernelMinimumNodesCount.
Definition accept_begin : N := Z.to_N Consts.MbrKernelNodeAcceptTimeBegin.
Definition accept_end : N := Z.to_N Consts.MbrKernelNodeAcceptTimeEnd.
Definition pledge_period_min : N := Z.to_N Consts.MbrKernelNodePledgePeriodMinimum.
Definition accept_period_min : N := Z.to_N Consts.MbrKernelNodeAcceptPeriodMinimum.
Definition fork_at : N := Z.to_N Consts.MbrForkAt.
Definition invalid_threshold : N := Z.to_N Consts.MbrInvalidThreshold.

Definition u64 (x : N) : N := x mod two64.
(* a - b on uint64 (operands below 2^64) *)
Definition u64sub (a b : N) : N := (a + two64 - b) mod two64.

(* ---- records ---------------------------------------------------------------- *)
Inductive nstate := Pledging | Accepted | Removed | Cancelled.

Definition nstate_eqb (a b : nstate) : bool :=
  match a, b with
  | Pledging, Pledging | Accepted, Accepted | Removed, Removed | Cancelled, Cancelled => true
  | _, _ => false
  end.

(* one entry of the node state queue: common.Node / kernel.CNode without index *)
Record nrec := mkrec {
  r_ts : N; r_id : N; r_key : N; r_payee : N; r_tx : N; r_state : nstate }.

(* kernel.CNode as returned by the views *)
Record cnode := mkc { c_rec : nrec; c_index : N }.
Definition c_id (c : cnode) := r_id (c_rec c).
Definition c_key (c : cnode) := r_key (c_rec c).
Definition c_ts (c : cnode) := r_ts (c_rec c).
Definition c_state (c : cnode) := r_state (c_rec c).

(* order of LoadConsensusNodes / nodeSequenceWithoutState: (timestamp, id);
   ids are compared through their hex strings = numeric order of 32 bytes *)
Definition rec_lt (a b : nrec) : bool :=
  (r_ts a <? r_ts b) || ((r_ts a =? r_ts b) && (r_id a <? r_id b)).

Fixpoint insert_rec (r : nrec) (l : list nrec) : list nrec :=
  match l with
  | [] => [r]
  | x :: l' => if rec_lt r x then r :: l else x :: insert_rec r l'
  end.

Definition sort_recs (l : list nrec) : list nrec :=
  fold_left (fun acc r => insert_rec r acc) l [].

(* ---- storage: readAllNodes over the state queue ------------------------------ *)
(* withState = true: every stored record with ts <= threshold *)
Definition read_all_with_state (threshold : N) (store : list nrec) : list nrec :=
  filter (fun r => r_ts r <=? threshold) store.

(* Go map assignment m[id] = r: replace the entry of that id or add one *)
Fixpoint map_set (r : nrec) (m : list nrec) : list nrec :=
  match m with
  | [] => [r]
  | x :: m' => if r_id x =? r_id r then r :: m' else x :: map_set r m'
  end.

Definition latest_by_id (l : list nrec) : list nrec :=
  fold_left (fun m r => map_set r m) l [].

(* withState = false: the last record of every signer (as a set; the code
   returns it in map order re-sorted by timestamp only) *)
Definition read_all_latest (threshold : N) (store : list nrec) : list nrec :=
  sort_recs (latest_by_id (read_all_with_state threshold store)).

(* ---- nodeSequenceWithoutState ---------------------------------------------------- *)
(* the loop breaks at the first record with Timestamp >= threshold *)
Fixpoint take_before (th : N) (l : list nrec) : list nrec :=
  match l with
  | [] => []
  | r :: l' => if th <=? r_ts r then [] else r :: take_before th l'
  end.

Definition counts_index (s : nstate) : bool :=
  match s with Accepted | Pledging => true | _ => false end.

Fixpoint assign_index (idx : N) (l : list nrec) : list cnode :=
  match l with
  | [] => []
  | r :: l' => mkc r idx :: assign_index (if counts_index (r_state r) then idx + 1 else idx) l'
  end.

Definition accepted_filter (ao : bool) (l : list nrec) : list nrec :=
  if ao then filter (fun r => nstate_eqb (r_state r) Accepted) l else l.

Definition node_sequence_without_state (th : N) (ao : bool) (all : list nrec) : list cnode :=
  assign_index 0 (sort_recs (accepted_filter ao (latest_by_id (take_before th all)))).

(* ---- state sequences (the cache) and NodesListWithoutState ---------------------- *)
Definition build_sequences (ao : bool) (all : list nrec) : list (N * list cnode) :=
  map (fun n => (r_ts n, node_sequence_without_state (u64 (r_ts n + 1)) ao all)) all.

(* scan from the end for the last sequence with Timestamp < threshold *)
Fixpoint lookup_seq (th : N) (rseqs : list (N * list cnode)) : list cnode :=
  match rseqs with
  | [] => []
  | (ts, l) :: rest => if ts <? th then l else lookup_seq th rest
  end.

Record mnode := mknode {
  n_all : list nrec;                 (* allNodesSortedWithState *)
  n_seqs : list (N * list cnode);    (* nodeStateSequences *)
  n_aseqs : list (N * list cnode);   (* acceptedNodeStateSequences *)
  n_genesis : list N;                (* genesisNodesMap *)
  n_epoch : N;
  n_mainnet : bool }.                (* networkId = config.KernelNetworkId *)

(* LoadConsensusNodes over the records read from the store *)
Definition load_node (recs : list nrec) (genesis : list N) (epoch : N) (mainnet : bool) : mnode :=
  let all := sort_recs recs in
  mknode all (build_sequences false all) (build_sequences true all) genesis epoch mainnet.

Definition nodes_list (nd : mnode) (th : N) (ao : bool) : list cnode :=
  lookup_seq th (rev (if ao then n_aseqs nd else n_seqs nd)).

(* ---- simple views -------------------------------------------------------------------- *)
Definition pledging_node (nd : mnode) (ts : N) : option cnode :=
  match rev (nodes_list nd ts false) with
  | [] => None
  | c :: _ => if nstate_eqb (c_state c) Pledging then Some c else None
  end.

Definition get_accepted_or_pledging (nd : mnode) (id ts : N) : option cnode :=
  find (fun c => (c_id c =? id) && counts_index (c_state c)) (nodes_list nd ts false).

Definition is_genesis (nd : mnode) (id : N) : bool := existsb (N.eqb id) (n_genesis nd).

Definition consensus_ready (nd : mnode) (c : cnode) (ts : N) : bool :=
  nstate_eqb (c_state c) Accepted &&
  (is_genesis nd (c_id c) || (u64 (c_ts c + accept_period_min) <? ts)).

Definition accept_hour (nd : mnode) (ts : N) : bool :=
  let hour := (u64sub ts (n_epoch nd) / hour_ns) mod 24 in
  (accept_begin <=? hour) && (hour <=? accept_end).

(* ---- removal prediction: checkRemovePossibility(id, now, nil) ------------------ *)
(* time.Duration(now - ts): reinterpretation of a uint64 as int64 *)
Definition to_int64 (d : N) : Z := if d <? two63 then Z.of_N d else (Z.of_N d - Z.of_N two64)%Z.

Fixpoint remove_scan (now : N) (l : list cnode) (acc : list cnode) : option (list cnode) :=
  match l with
  | [] => Some (rev acc)
  | c :: l' =>
      if now <? c_ts c then None
      else if (to_int64 (u64sub now (c_ts c)) <? Z.of_N pledge_period_min)%Z then None
      else match c_state c with
           | Accepted => remove_scan now l' (c :: acc)
           | Cancelled | Removed => remove_scan now l' acc
           | Pledging => None
           end
  end.

Definition check_remove_possibility (nd : mnode) (node_id now : N) : option cnode :=
  match pledging_node nd now with
  | Some _ => None
  | None =>
      if now <? n_epoch nd then None
      else if negb (accept_hour nd now) then None
      else match remove_scan now (nodes_list nd now false) [] with
           | None => None
           | Some accepted =>
               if N.of_nat (length accepted) <=? min_nodes then None
               else match accepted with
                    | [] => None
                    | c :: _ => if c_id c =? node_id then None else Some c
                    end
           end
  end.

Definition window_start (epoch ts : N) : N :=
  u64 (epoch + (ts - epoch) / one_day * one_day + accept_begin * hour_ns).

Definition removing_at (nd : mnode) (ts : N) : option cnode :=
  if (ts <? n_epoch nd) || negb (accept_hour nd ts) then None
  else check_remove_possibility nd 0 (window_start (n_epoch nd) ts).

Definition use_predictive (nd : mnode) (ts : N) : bool :=
  negb (n_mainnet nd) || (fork_at <=? ts).

Definition predicted_removal (nd : mnode) (ts : N) : option cnode :=
  if use_predictive nd ts then removing_at nd ts else None.

Definition is_removing (rm : option cnode) (c : cnode) : bool :=
  match rm with Some r => c_id c =? c_id r | None => false end.

(* ---- ConsensusThreshold ------------------------------------------------------------ *)
Definition ref_window : N := ref_threshold * round_gap.

(* one loop iteration: None = the "should never be here" panics *)
Definition threshold_step (nd : mnode) (ts : N) (final : bool) (c : cnode) : option N :=
  if 3 * minute_ns <? ref_window then None
  else match c_state c with
       | Pledging =>
           if accept_period_min <? hour_ns then None
           else let t := accept_period_min - ref_window * 3 in
                Some (if negb final && (u64 (c_ts c + t) <? ts) then 1 else 0)
       | Accepted =>
           Some (if is_genesis nd (c_id c) || (u64 (c_ts c + ref_window) <? ts) then 1 else 0)
       | _ => Some 0
       end.

Fixpoint threshold_count (nd : mnode) (ts : N) (final : bool) (rm : option cnode)
         (l : list cnode) (base : N) : option N :=
  match l with
  | [] => Some base
  | c :: l' =>
      if is_removing rm c then threshold_count nd ts final rm l' base
      else match threshold_step nd ts final c with
           | None => None
           | Some d => threshold_count nd ts final rm l' (base + d)
           end
  end.

Definition consensus_threshold (nd : mnode) (ts : N) (final : bool) : res N :=
  match threshold_count nd ts final (predicted_removal nd ts) (nodes_list nd ts false) 0 with
  | None => Panic
  | Some base => if base <? min_nodes then Ok invalid_threshold else Ok (base * 2 / 3 + 1)
  end.

(* ---- consensusNodes / ConsensusKeys -------------------------------------------------- *)
Record mchain := mkchain {
  ch_info : option nrec;      (* ConsensusInfo *)
  ch_has_state : bool }.      (* State != nil *)

Definition is_pledging_chain (ch : mchain) : bool :=
  negb (ch_has_state ch) && match ch_info ch with Some _ => true | None => false end.

Definition consensus_nodes (nd : mnode) (ch : mchain) (round ts : N) : list nrec :=
  let rm := predicted_removal nd ts in
  let ps := map c_rec (filter (fun c => negb (is_removing rm c) && consensus_ready nd c ts)
                              (nodes_list nd ts false)) in
  match ch_info ch with
  | Some info => if is_pledging_chain ch && (round =? 0) then ps ++ [info] else ps
  | None => ps
  end.

Definition consensus_ids (nd : mnode) ch round ts : list N := map r_id (consensus_nodes nd ch round ts).
Definition consensus_keys (nd : mnode) ch round ts : list N := map r_key (consensus_nodes nd ch round ts).

(* ---- electSnapshotNode ------------------------------------------------------------------ *)
Definition elect_ops : list N :=
  map Z.to_N [Consts.MbrTxMint; Consts.MbrTxNodeRemove; Consts.MbrTxNodePledge;
              Consts.MbrTxCustodianUpdateNodes; Consts.MbrTxCustodianSlashNodes].

Definition elect (nd : mnode) (op now : N) : res N :=
  if negb (existsb (N.eqb op) elect_ops) then Ok 0
  else let accepted := nodes_list nd now true in
       if N.of_nat (length accepted) <? min_nodes then Panic
       else let inner := removelast (tl accepted) in
            let day := u64sub now (n_epoch nd) / one_day in
            let idx := (day + op) mod N.of_nat (length inner) in
            match nth_error inner (N.to_nat idx) with
            | Some c => Ok (c_id c)
            | None => Panic
            end.

(* ---- custodian history (storage/badger_custodian.go) ------------------------------- *)
(* the history is the ordered list of (timestamp, transaction hash); [parse tx
   genesis] stands for readTransaction + ParseCustodianUpdateNodesExtra, whose
   outcome is a function of the stored body and the flag *)
Section Custodian.
  Variable P : Type.
  Variable parse : N -> bool -> res P.

  Definition cfound : Type := (N * N * P)%type. (* Transaction, Timestamp, parsed payload *)

  (* cache = nil *)
  Fixpoint cust_scan (ts : N) (recs : list (N * N)) (genesis : bool) (found : option cfound)
    : res (option cfound) :=
    match recs with
    | [] => Ok found
    | (rts, tx) :: rest =>
        if ts <? rts then Ok found
        else match parse tx genesis with
             | Ok p => cust_scan ts rest false (Some (tx, rts, p))
             | Err => Err
             | Panic => Panic
             end
    end.

  Definition read_custodian_direct (recs : list (N * N)) (ts : N) : res (option cfound) :=
    cust_scan ts recs true None.

  Definition ccache : Type := list ((N * bool) * P).

  Fixpoint cache_load (k : N * bool) (c : ccache) : option P :=
    match c with
    | [] => None
    | ((tx, g), p) :: c' =>
        if (tx =? fst k) && Bool.eqb g (snd k) then Some p else cache_load k c'
    end.

  (* LoadOrStore after a miss stores the parsed value *)
  Fixpoint cust_scan_cached (ts : N) (recs : list (N * N)) (genesis : bool)
           (found : option cfound) (c : ccache) : res (option cfound) * ccache :=
    match recs with
    | [] => (Ok found, c)
    | (rts, tx) :: rest =>
        if ts <? rts then (Ok found, c)
        else match cache_load (tx, genesis) c with
             | Some p => cust_scan_cached ts rest false (Some (tx, rts, p)) c
             | None =>
                 match parse tx genesis with
                 | Ok p => cust_scan_cached ts rest false (Some (tx, rts, p)) (((tx, genesis), p) :: c)
                 | Err => (Err, c)
                 | Panic => (Panic, c)
                 end
             end
    end.

  Definition read_custodian (recs : list (N * N)) (ts : N) (c : ccache) : res (option cfound) * ccache :=
    cust_scan_cached ts recs true None c.

  (* a sequence of queries, each against its own state of the history *)
  Fixpoint run_queries (qs : list (list (N * N) * N)) (c : ccache) : list (res (option cfound)) :=
    match qs with
    | [] => []
    | (recs, ts) :: qs' =>
        let '(r, c') := read_custodian recs ts c in r :: run_queries qs' c'
    end.
End Custodian.

(* the history is keyed by timestamp: a write at an existing timestamp replaces it *)
Fixpoint cust_put (ts tx : N) (recs : list (N * N)) : list (N * N) :=
  match recs with
  | [] => [(ts, tx)]
  | (t, x) :: rest =>
      if ts <? t then (ts, tx) :: recs
      else if ts =? t then (ts, tx) :: rest
      else (t, x) :: cust_put ts tx rest
  end.
