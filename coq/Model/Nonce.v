(* Model of crypto/nonce.go (single-use CoSi nonce handle) and of the nonce
   retention maps of kernel/cosi.go (cosiRetrieveRandom, retainUsedCosiNonce).

   [respond] is the critical section of nonce.respond as ONE atomic step on the
   state shared by every copy of the handle: the challenge is computed before
   the lock from the call's arguments alone (a pure function, [None] when
   Challenge() fails), the step then either answers from the cache, refuses, or
   consumes the nonce.  Concurrency is the set of all sequences of such steps.

   Executable; no proofs in this file. *)
From Coq Require Import List ZArith NArith Bool.
Require Import Mixin.Base.Res Mixin.Gen.Consts Mixin.Model.Group.
Import ListNotations.
Open Scope Z_scope.

(* ---- crypto/nonce.go --------------------------------------------------------- *)

Record nonce_state := mkNonce {
  n_random : option Z;     (* nil after use *)
  n_commitment : Z;
  n_challenge : Z;
  n_response : Z;
  n_used : bool
}.

Inductive nres :=
| NOk (s : Z)
| NReuse            (* ErrCosiNonceReuse *)
| NErr              (* Challenge() failed before the lock *)
| NPanic.

(* one Response call: the challenge its arguments determine and the private key *)
Record request := mkReq { q_challenge : option Z; q_private : Z }.

Definition new_nonce (random : Z) : nonce_state :=
  mkNonce (Some random) random 0 0 false.

Definition respond (l : Z) (st : nonce_state) (q : request) : nonce_state * nres :=
  match q_challenge q with
  | None => (st, NErr)
  | Some c =>
      if n_used st then
        if n_challenge st =? c then (st, NOk (n_response st)) else (st, NReuse)
      else
        match n_random st with
        | None => (st, NPanic)
        | Some z =>
            if negb (scalar_ok l (q_private q)) then (st, NPanic)
            else if negb (scalar_ok l z) then (st, NPanic)
            else
              let s := (c * q_private q + z) mod l in
              (mkNonce None (n_commitment st) c s true, NOk s)
        end
  end.

(* a schedule: the calls in the order they enter the critical section *)
Fixpoint run (l : Z) (st : nonce_state) (qs : list request) : nonce_state * list nres :=
  match qs with
  | [] => (st, [])
  | q :: qs' =>
      let '(st1, r) := respond l st q in
      let '(st2, rs) := run l st1 qs' in
      (st2, r :: rs)
  end.

(* ---- kernel/cosi.go: retention of handed-out nonces -------------------------- *)

(* A nonce is identified by its commitment (CosiRandoms is keyed by it).
   [pool]  CosiRandoms: commitments generated and not yet handed out
   [used]  UsedRandoms: snapshot hash -> commitment handed out for it
   [order] usedRandomsOrder: snapshot hashes in retention order, oldest first *)
Record retention := mkRet {
  pool : list N;
  used : list (N * N);
  order : list N
}.

Definition empty_retention : retention := mkRet [] [] [].

Fixpoint used_get (u : list (N * N)) (snap : N) : option N :=
  match u with
  | [] => None
  | (s, c) :: u' => if (s =? snap)%N then Some c else used_get u' snap
  end.

Definition used_del (u : list (N * N)) (snap : N) : list (N * N) :=
  filter (fun sc => negb (fst sc =? snap)%N) u.

Definition used_set (u : list (N * N)) (snap c : N) : list (N * N) :=
  (snap, c) :: used_del u snap.

Definition pool_has (p : list N) (c : N) : bool := existsb (N.eqb c) p.
Definition pool_del (p : list N) (c : N) : list N := filter (fun x => negb (x =? c)%N) p.

(* retainUsedCosiNonce *)
Definition retain (maxn : Z) (r : retention) (snap c : N) : retention :=
  let order1 := match used_get (used r) snap with
                | None => order r ++ [snap]
                | Some _ => order r
                end in
  let used1 := used_set (used r) snap c in
  if Z.of_nat (length order1) <=? maxn then mkRet (pool r) used1 order1
  else match order1 with
       | [] => mkRet (pool r) used1 order1
       | oldest :: rest => mkRet (pool r) (used_del used1 oldest) rest
       end.

(* cosiRetrieveRandom: the commitment whose nonce handle is returned, if any *)
Definition retrieve (maxn : Z) (r : retention) (snap c : N) : retention * option N :=
  match used_get (used r) snap with
  | Some c' =>
      if (c' =? c)%N then (r, Some c)
      else if pool_has (pool r) c
           then let r1 := retain maxn r snap c in
                (mkRet (pool_del (pool r1) c) (used r1) (order r1), Some c)
           else (r, None)
  | None =>
      if pool_has (pool r) c
      then let r1 := retain maxn r snap c in
           (mkRet (pool_del (pool r1) c) (used r1) (order r1), Some c)
      else (r, None)
  end.

(* cosiPrepareRandomsAndSendCommitments: fresh nonces enter the pool *)
Definition prepare (r : retention) (cs : list N) : retention :=
  mkRet (cs ++ pool r) (used r) (order r).

Inductive rop :=
| RPrepare (cs : list N)
| RRetrieve (snap c : N).

Definition rstep (maxn : Z) (r : retention) (o : rop) : retention * option (N * N) :=
  match o with
  | RPrepare cs => (prepare r cs, None)
  | RRetrieve snap c =>
      let '(r1, got) := retrieve maxn r snap c in
      (r1, match got with Some c' => Some (snap, c') | None => None end)
  end.

(* every (snapshot, commitment) handed out along a run *)
Fixpoint rrun (maxn : Z) (r : retention) (os : list rop) : retention * list (N * N) :=
  match os with
  | [] => (r, [])
  | o :: os' =>
      let '(r1, h) := rstep maxn r o in
      let '(r2, hs) := rrun maxn r1 os' in
      (r2, match h with Some x => x :: hs | None => hs end)
  end.

Definition retained_max : Z := Consts.CosiRetainedNonces.
