(* Model of storage/badger_node.go: the durable membership history.
   The history is the list of NODESTATEQUEUE records in Badger key order: the
   key is  prefix ++ bigendian64(timestamp) ++ signer(32 bytes), so records are
   ordered by (timestamp, signer) and a write to an existing key replaces the
   record.  Keys and transaction hashes are 32-byte values as one big-endian N.
   Every Go panic (index out of range on an empty node list, the explicit
   panics of readAllNodes) is the outcome [Panic].  Executable; no proofs. *)
From Coq Require Import List ZArith NArith Bool.
Require Import Mixin.Base.Res Mixin.Gen.Consts.
Import ListNotations.
Open Scope N_scope.

Inductive nstate := Pledging | Accepted | Removed | Cancelled.

Definition nstate_eqb (a b : nstate) : bool :=
  match a, b with
  | Pledging, Pledging | Accepted, Accepted | Removed, Removed | Cancelled, Cancelled => true
  | _, _ => false
  end.

Record nrec := mk_nrec {
  n_signer : N;   (* key suffix: signer public spend key *)
  n_payee : N;    (* value[0:32] *)
  n_state : nstate; (* value[64:] *)
  n_tx : N;       (* value[32:64] *)
  n_ts : N        (* key: timestamp *)
}.

Definition two64 : N := 2 ^ 64.
Definition pledge_period : N := Z.to_N Consts.NodePledgePeriodMinimum. (* config.KernelNodePledgePeriodMinimum, ns *)
Definition accept_period : N := Z.to_N Consts.NodeAcceptPeriodMinimum. (* config.KernelNodeAcceptPeriodMinimum, ns *)

(* uint64 addition timestamp + uint64(period) *)
Definition offset_of (ts period : N) : N := (ts + period) mod two64.

(* ---- the key/value store restricted to the NODESTATEQUEUE prefix -------- *)

Definition key_cmp (a b : nrec) : comparison :=
  match n_ts a ?= n_ts b with
  | Eq => n_signer a ?= n_signer b
  | c => c
  end.

(* txn.Set(nodeStateQueueKey(signer, ts), value) *)
Fixpoint put (r : nrec) (h : list nrec) : list nrec :=
  match h with
  | [] => [r]
  | x :: t =>
      match key_cmp r x with
      | Lt => r :: x :: t
      | Eq => r :: t
      | Gt => x :: put r t
      end
  end.

Fixpoint last_opt {A} (l : list A) : option A :=
  match l with
  | [] => None
  | a :: t => match last_opt t with Some x => Some x | None => Some a end
  end.

(* "for _, n := range nodes { if n.Signer == s { node = n } }": the last record of s *)
Fixpoint current (h : list nrec) (s : N) : option nrec :=
  match h with
  | [] => None
  | r :: t =>
      match current t s with
      | Some x => Some x
      | None => if n_signer r =? s then Some r else None
      end
  end.

(* filter[n.Signer.Hash()] = n over the list in key order, then the map's
   values: one record per signer, the last one.  (The Go result is then sorted
   by timestamp with an unstable sort over a random map order: records of equal
   timestamp come back in any order.  Here they stay in key order; callers and
   the correspondence check compare it as a set.) *)
Fixpoint latest (h : list nrec) : list nrec :=
  match h with
  | [] => []
  | r :: t =>
      if existsb (fun x => n_signer x =? n_signer r) t then latest t
      else r :: latest t
  end.

(* the "malformed order" assertion over consecutive listed records *)
Fixpoint order_ok (h : list nrec) : bool :=
  match h with
  | a :: (b :: _) as t => (n_ts a <=? n_ts b) && order_ok t
  | _ => true
  end.

(* the iteration of readAllNodes: panics on a record with timestamp 0 (checked
   before the threshold filter), skips records above the threshold *)
Definition scan (h : list nrec) (threshold : N) : res (list nrec) :=
  if existsb (fun r => n_ts r =? 0) h then Panic
  else
    let nodes := filter (fun r => n_ts r <=? threshold) h in
    if order_ok nodes then Ok nodes else Panic.

Definition read_all_nodes (h : list nrec) (threshold : N) (with_state : bool) : res (list nrec) :=
  do nodes <- scan h threshold;
  Ok (if with_state then nodes else latest nodes).

(* ---- the four transitions -------------------------------------------------- *)

Definition settled (r : nrec) : bool :=
  match n_state r with Pledging => false | _ => true end.

Definition write_node_pledge (h : list nrec) (signer payee tx ts : N) : res (list nrec) :=
  do nodes <- read_all_nodes h (offset_of ts pledge_period) false;
  if negb (forallb settled nodes) then Err
  else if existsb (fun n => (n_signer n =? signer) || (n_tx n =? tx)) nodes then Err
  else Ok (put (mk_nrec signer payee Pledging tx ts) h).

(* shared head of accept and cancel: the last listed record must be the
   pledging node with these keys; nodes[len(nodes)-1] on an empty list panics *)
Definition last_is_pledging (h : list nrec) (signer payee ts : N) : res unit :=
  do nodes <- read_all_nodes h (offset_of ts accept_period) true;
  match last_opt nodes with
  | None => Panic
  | Some l =>
      if negb (nstate_eqb (n_state l) Pledging) then Err
      else if negb (n_signer l =? signer) || negb (n_payee l =? payee) then Err
      else Ok tt
  end.

Definition write_node_accept (h : list nrec) (signer payee tx ts : N) (genesis : bool) : res (list nrec) :=
  do _ <- (if genesis then Ok tt else last_is_pledging h signer payee ts);
  Ok (put (mk_nrec signer payee Accepted tx ts) h).

Definition write_node_cancel (h : list nrec) (signer payee tx ts : N) : res (list nrec) :=
  do _ <- last_is_pledging h signer payee ts;
  Ok (put (mk_nrec signer payee Cancelled tx ts) h).

Definition write_node_remove (h : list nrec) (signer payee tx ts : N) : res (list nrec) :=
  do nodes <- read_all_nodes h (offset_of ts accept_period) true;
  match last_opt nodes with
  | None => Panic
  | Some l =>
      if negb (settled l) then Err
      else
        match current nodes signer with
        | None => Err
        | Some node =>
            if negb (n_payee node =? payee) then Err
            else if negb (nstate_eqb (n_state node) Accepted) then Err
            else Ok (put (mk_nrec signer payee Removed tx ts) h)
        end
  end.

(* ---- operations and histories ------------------------------------------- *)

Inductive okind := OPledge | OAccept | OCancel | ORemove.

Record op := mk_op {
  o_kind : okind;
  o_signer : N;
  o_payee : N;
  o_tx : N;
  o_ts : N;
  o_genesis : bool   (* only read by accept: finalizeTransaction passes it for a genesis input *)
}.

Definition apply (h : list nrec) (o : op) : res (list nrec) :=
  match o_kind o with
  | OPledge => write_node_pledge h (o_signer o) (o_payee o) (o_tx o) (o_ts o)
  | OAccept => write_node_accept h (o_signer o) (o_payee o) (o_tx o) (o_ts o) (o_genesis o)
  | OCancel => write_node_cancel h (o_signer o) (o_payee o) (o_tx o) (o_ts o)
  | ORemove => write_node_remove h (o_signer o) (o_payee o) (o_tx o) (o_ts o)
  end.

(* a rejected or panicking write leaves the durable history as it was (the
   Badger transaction is discarded) *)
Definition step (h : list nrec) (o : op) : list nrec :=
  match apply h o with Ok h' => h' | _ => h end.

Definition run_from (h : list nrec) (ops : list op) : list nrec := fold_left step ops h.
Definition run (ops : list op) : list nrec := run_from [] ops.

Definition state_of_kind (k : okind) : nstate :=
  match k with OPledge => Pledging | OAccept => Accepted | OCancel => Cancelled | ORemove => Removed end.

Definition rec_of (o : op) : nrec :=
  mk_nrec (o_signer o) (o_payee o) (state_of_kind (o_kind o)) (o_tx o) (o_ts o).
