(* Model of kernel/graph.go verifyFinalization and cacheVerifyCosi (with the
   memo table keyed exactly as the Go code builds its key) and of the checks of
   crypto/cosi.go FullVerify / Keys / aggregatePublicKey that precede the
   signature equation.  The equation itself (aggregate the selected keys,
   Schnorr-verify over the hash) is the parameter [agg_verify].
   Executable; no proofs in this file. *)
From Coq Require Import List ZArith NArith Bool.
Require Import Mixin.Base.Res Mixin.Gen.Consts Mixin.Model.Membership.
Import ListNotations.
Open Scope N_scope.

Definition snapshot_version : N := Z.to_N Consts.MbrSnapshotVersion.
Definition hack_hash : N := Consts.MbrHackHash.

(* CosiSignature.Keys: set bit positions of the uint64 mask, ascending *)
Definition bit_positions : list nat := seq 0 64.
Definition mask_bit (mask : N) (i : nat) : bool := N.testbit mask (N.of_nat i).
Definition mask_keys (mask : N) : list nat := filter (mask_bit mask) bit_positions.

(* elements at the given positions; None when a position is out of range *)
Fixpoint select {A} (l : list A) (idx : list nat) : option (list A) :=
  match idx with
  | [] => Some []
  | i :: r =>
      match nth_error l i, select l r with
      | Some x, Some xs => Some (x :: xs)
      | _, _ => None
      end
  end.

Record msnap := mksnap {
  s_version : N; s_has_sig : bool; s_mask : N; s_sig : N; s_hash : N; s_ts : N; s_round : N }.

Inductive mval := MFail | MSigners (l : list N).
Definition memo := list (list N * mval).

Fixpoint key_eqb (a b : list N) : bool :=
  match a, b with
  | [], [] => true
  | x :: a', y :: b' => (x =? y) && key_eqb a' b'
  | _, _ => false
  end.

Fixpoint memo_get (k : list N) (t : memo) : option mval :=
  match t with
  | [] => None
  | (k', v) :: t' => if key_eqb k' k then Some v else memo_get k t'
  end.

(* snap(32) || signature(64) || publics(32 each) || uint64(threshold) || mask(8):
   every field has a fixed width, so the byte string is this list of fields *)
Definition memo_key (hash sig : N) (publics : list N) (thr : Z) (mask : N) : list N :=
  hash :: sig :: publics ++ [Z.to_N (thr mod 2 ^ 64); mask].

Section Finality.
  (* selected keys, message hash, signature -> does the aggregate equation hold *)
  Variable agg_verify : list N -> N -> N -> bool.

  (* FullVerify *)
  Definition full_verify (publics : list N) (thr : Z) (hash sig mask : N) : bool :=
    if (thr <=? 0)%Z then false
    else if (Z.of_nat (length (mask_keys mask)) <? thr)%Z then false
    else match mask_keys mask with
         | [] => false (* empty aggregation signers *)
         | _ => match select publics (mask_keys mask) with
                | None => false (* invalid aggregation signer index *)
                | Some sel => agg_verify sel hash sig
                end
         end.

  (* a verification without any memory *)
  Definition cosi_fresh (hash sig mask : N) (cids publics : list N) (thr : Z) : res (list N * bool) :=
    if full_verify publics thr hash sig mask
    then match select cids (mask_keys mask) with
         | Some signers => Ok (signers, true)
         | None => Panic (* cids[k] out of range *)
         end
    else Ok ([], false).

  (* convertBytesToSigners + the acceptance test of the found branch *)
  Definition decode_memo (v : mval) (mask : N) : list N * bool :=
    match v with
    | MFail => ([], false)
    | MSigners l =>
        if Nat.eqb (length l) (length (mask_keys mask))
        then (l, negb (Nat.eqb (length l) 0))
        else ([], false)
    end.

  Definition cache_verify_cosi (hash sig mask : N) (cids publics : list N) (thr : Z) (t : memo)
    : res ((list N * bool) * memo) :=
    let key := memo_key hash sig publics thr mask in
    match memo_get key t with
    | Some v => Ok (decode_memo v mask, t)
    | None =>
        if full_verify publics thr hash sig mask
        then match select cids (mask_keys mask) with
             | Some signers => Ok ((signers, true), (key, MSigners signers) :: t)
             | None => Panic
             end
        else Ok (([], false), (key, MFail) :: t)
    end.

  Definition effective_ts (s : msnap) : N :=
    if s_hash s =? hack_hash then u64sub (s_ts s) minute_ns else s_ts s.

  Definition legacy_ts (nd : mnode) (ts : N) : N :=
    let hour := ((ts - n_epoch nd) / hour_ns) mod 24 in
    u64sub ts (u64 ((hour + 1 - accept_begin) * hour_ns)).

  (* verifyFinalization over any verification procedure with state T *)
  Definition verify_gen {T : Type}
      (cv : N -> N -> N -> list N -> list N -> Z -> T -> res ((list N * bool) * T))
      (nd : mnode) (ch : mchain) (s : msnap) (t : T) : res ((list N * bool) * T) :=
    if negb (s_version s =? snapshot_version) then Ok (([], false), t)
    else if negb (s_has_sig s) || (s_mask s =? 0) then Ok (([], false), t)
    else
      let ts := effective_ts s in
      if ts <? n_epoch nd then Ok (([], false), t)
      else
        let cids := consensus_ids nd ch (s_round s) ts in
        let publics := consensus_keys nd ch (s_round s) ts in
        match consensus_threshold nd ts true with
        | Panic => Panic
        | Err => Err
        | Ok base =>
            match cv (s_hash s) (s_sig s) (s_mask s) cids publics (Z.of_N base) t with
            | Panic => Panic
            | Err => Err
            | Ok ((signers, finalized), t1) =>
                if finalized || use_predictive nd ts then Ok ((signers, finalized), t1)
                else if negb (accept_hour nd ts) then Ok ((signers, finalized), t1)
                else
                  let lts := legacy_ts nd ts in
                  let lids := consensus_ids nd ch (s_round s) lts in
                  let lpublics := consensus_keys nd ch (s_round s) lts in
                  if Nat.leb (length lpublics) (length publics) then Ok ((signers, finalized), t1)
                  else match consensus_threshold nd lts true with
                       | Panic => Panic
                       | Err => Err
                       | Ok lbase => cv (s_hash s) (s_sig s) (s_mask s) lids lpublics (Z.of_N lbase) t1
                       end
            end
        end.

  Definition verify_finalization (nd : mnode) (ch : mchain) (s : msnap) (t : memo) :=
    verify_gen cache_verify_cosi nd ch s t.

  Definition fresh_cv (hash sig mask : N) (cids publics : list N) (thr : Z) (u : unit)
    : res ((list N * bool) * unit) :=
    rmap (fun r => (r, tt)) (cosi_fresh hash sig mask cids publics thr).

  Definition verify_fresh (nd : mnode) (ch : mchain) (s : msnap) : res (list N * bool) :=
    rmap fst (verify_gen fresh_cv nd ch s tt).

  (* a sequence of finalization queries, each against its own membership state
     and chain, threading the one verification cache of the node process *)
  Fixpoint run_memo (qs : list (mnode * mchain * msnap)) (t : memo) : list (res (list N * bool)) :=
    match qs with
    | [] => []
    | (nd, ch, s) :: qs' =>
        match verify_finalization nd ch s t with
        | Ok (r, t') => Ok r :: run_memo qs' t'
        | Err => Err :: run_memo qs' t
        | Panic => Panic :: run_memo qs' t
        end
    end.
End Finality.
