(* Model of storage/badger_topology.go (+ the counter of kernel/topology.go).
   The store is restricted to two key families:
     TOPOLOGY/<bigendian64 position>  -> the snapshot stored there
     SNAPTOPO/<snapshot payload hash> -> position
   A snapshot is identified by its payload hash (the SNAPSHOT/<node,round,hash>
   entry a topology entry points to is written by the same writeSnapshot call
   in the same Badger transaction, so it exists exactly when the topology entry
   does; the listing recomputes the hash from the stored payload).
   The index is kept in Badger key order = position order.  Executable; no proofs. *)
From Coq Require Import List ZArith NArith Bool.
Require Import Mixin.Base.Res Mixin.Gen.Consts.
Import ListNotations.
Open Scope N_scope.

Record tstore := mk_tstore {
  t_index : list (N * N);   (* (position, snapshot hash), ascending positions *)
  t_rev : list (N * N)      (* (snapshot hash, position), newest binding first *)
}.

Definition t_empty : tstore := mk_tstore [] [].

Definition two64 : N := 2 ^ 64.
(* config.Debug: the "snapshot duplication" assertion of WriteSnapshot is live *)
Definition debug : bool := (Consts.TopoConfigDebug =? 1)%Z.
(* the literal 500 of ReadSnapshotsSinceTopology / ReadSnapshotWithTransactionsSinceTopology *)
Definition list_limit : N := 500.

Fixpoint index_get (p : N) (l : list (N * N)) : option N :=
  match l with
  | [] => None
  | (q, g) :: t => if q =? p then Some g else index_get p t
  end.

(* txn.Set(graphTopologyKey(p), ...) for a key that is not there: the entry
   takes its place in key order *)
Fixpoint index_ins (p h : N) (l : list (N * N)) : list (N * N) :=
  match l with
  | [] => [(p, h)]
  | (q, g) :: t => if p <? q then (p, h) :: (q, g) :: t else (q, g) :: index_ins p h t
  end.

Fixpoint rev_get (h : N) (l : list (N * N)) : option N :=
  match l with
  | [] => None
  | (g, p) :: t => if g =? h then Some p else rev_get h t
  end.

(* writeTopology: a position that is already taken is a panic *)
Definition write_topology (s : tstore) (pos hash : N) : res tstore :=
  match index_get pos (t_index s) with
  | Some _ => Panic
  | None => Ok (mk_tstore (index_ins pos hash (t_index s)) ((hash, pos) :: t_rev s))
  end.

Definition stored (s : tstore) (hash : N) : bool :=
  existsb (fun e => snd e =? hash) (t_index s).

(* WriteSnapshot as far as the topology is concerned: the Debug assertion on
   the snapshot key, then writeSnapshot -> writeTopology *)
Definition write_snapshot (s : tstore) (pos hash : N) : res tstore :=
  if debug && stored s hash then Panic else write_topology s pos hash.

(* it.Seek(graphTopologyKey(offset)): skip the keys below the cursor *)
Fixpoint seek (offset : N) (l : list (N * N)) : list (N * N) :=
  match l with
  | [] => []
  | (q, g) :: t => if q <? offset then seek offset t else l
  end.

(* ReadSnapshotsSinceTopology: each entry is (position from the key, payload
   hash of the snapshot stored there) *)
Definition list_since (s : tstore) (offset count : N) : res (list (N * N)) :=
  if list_limit <? count then Err
  else Ok (firstn (N.to_nat count) (seek offset (t_index s))).

(* ReadSnapshot(hash): reverse index, then the topology entry, then the snapshot;
   the result carries the position of the reverse index and the snapshot found
   at that position (a missing entry is an error) *)
Definition lookup (s : tstore) (hash : N) : res (option (N * N)) :=
  match rev_get hash (t_rev s) with
  | None => Ok None
  | Some p =>
      match index_get p (t_index s) with
      | None => Err
      | Some g => Ok (Some (p, g))
      end
  end.

Fixpoint last_pos (l : list (N * N)) : N :=
  match l with
  | [] => 0
  | [(q, _)] => q
  | _ :: t => last_pos t
  end.

(* LastSnapshot: readLastTopology (0 on an empty index), then a listing of up
   to 10 from there, which must have exactly one entry *)
Definition last_snapshot (s : tstore) : res (N * N) :=
  match firstn 10 (seek (last_pos (t_index s)) (t_index s)) with
  | [x] => Ok x
  | _ => Panic
  end.

(* ---- the node's counter (kernel/topology.go) -------------------------------- *)

Record tnode := mk_tnode { tn_seq : N; tn_store : tstore }.

(* getTopologyCounter: seq = position of the last stored snapshot *)
Definition topo_init (s : tstore) : res tnode :=
  do x <- last_snapshot s; Ok (mk_tnode (fst x) s).

(* TopoWrite: seq += 1 (uint64), then WriteSnapshot at seq; the counter stays
   incremented when the write panics *)
Definition topo_write (n : tnode) (hash : N) : tnode * res N :=
  let seq := (tn_seq n + 1) mod two64 in
  match write_snapshot (tn_store n) seq hash with
  | Ok s' => (mk_tnode seq s', Ok seq)
  | Err => (mk_tnode seq (tn_store n), Err)
  | Panic => (mk_tnode seq (tn_store n), Panic)
  end.

(* ---- histories of writes -------------------------------------------------------- *)

(* a write that panics leaves the store as it was (the Badger transaction is discarded) *)
Definition wstep (s : tstore) (w : N * N) : tstore :=
  match write_snapshot s (fst w) (snd w) with Ok s' => s' | _ => s end.

Definition wrun (ws : list (N * N)) : tstore := fold_left wstep ws t_empty.
