(* Model of the membership view used by operator election and removal
   (kernel/node.go: LoadConsensusNodes, buildNodeStateSequences,
   NodesListWithoutState, nodeSequenceWithoutState, PledgingNode;
   kernel/election.go: electSnapshotNode, checkRemovePossibility,
   checkConsensusAcceptHour, checkConsensusPledgeHour, the timing part of
   checkNodeAcceptPossibility / validateNodeCancelSnapshot;
   kernel/mint.go: the hour test of checkUniversalMintPossibility;
   kernel/slash.go: prepareNodeRemovalTime).
   Timestamps are uint64 nanoseconds as Z; every place where the Go code can
   wrap is written [mod 2^64].  Node ids are the 32-byte ids as N (the Go code
   orders them by their equal-length lower-case hex strings, which is the
   numeric order).  Executable; no proofs in this file. *)
From Coq Require Import List ZArith NArith Bool.
Require Import Mixin.Base.Res Mixin.Gen.Consts.
Import ListNotations.
Open Scope Z_scope.

Inductive nstate := Pledging | Accepted | Removed | Cancelled.

(* one record of the membership history: node id, time of the state change,
   new state, hash of the transaction that caused it *)
Record nrec := mkrec { r_id : N; r_ts : Z; r_state : nstate; r_tx : N }.

Definition two64 : Z := 18446744073709551616.  (* 2^64 *)
Definition two63 : Z := 9223372036854775808.   (* 2^63 *)
Definition u64 (z : Z) : Z := z mod two64.
(* int64(x) for a uint64 x (time.Duration conversion) *)
Definition to_int64 (z : Z) : Z := if z <? two63 then z else z - two64.

Definition is_accepted (r : nrec) : bool := match r_state r with Accepted => true | _ => false end.
Definition is_pledging (r : nrec) : bool := match r_state r with Pledging => true | _ => false end.

(* ---- ordering by (timestamp, id) ------------------------------------- *)

Definition rec_lt (a b : nrec) : bool :=
  if r_ts a <? r_ts b then true
  else if r_ts b <? r_ts a then false
  else (r_id a <? r_id b)%N.

Fixpoint insert (x : nrec) (l : list nrec) : list nrec :=
  match l with
  | [] => [x]
  | y :: l' => if rec_lt y x then y :: insert x l' else x :: y :: l'
  end.

Definition sort (l : list nrec) : list nrec := fold_right insert [] l.

(* LoadConsensusNodes: all records sorted *)
Definition load (recs : list nrec) : list nrec := sort recs.

(* ---- nodeSequenceWithoutState ---------------------------------------- *)

(* the loop that stops at the first record with Timestamp >= threshold *)
Fixpoint take_before (th : Z) (l : list nrec) : list nrec :=
  match l with
  | [] => []
  | r :: l' => if r_ts r <? th then r :: take_before th l' else []
  end.

Definition has_id (i : N) (l : list nrec) : bool := existsb (fun r => (r_id r =? i)%N) l.

(* the map id -> last record with that id *)
Fixpoint latest (l : list nrec) : list nrec :=
  match l with
  | [] => []
  | r :: l' => if has_id (r_id r) l' then latest l' else r :: latest l'
  end.

Definition node_sequence (all : list nrec) (th : Z) (accepted_only : bool) : list nrec :=
  sort (filter (fun r => negb accepted_only || is_accepted r) (latest (take_before th all))).

(* NodesListWithoutState: the memoised sequence of the last record whose
   timestamp is below the threshold; that sequence was built for threshold
   Timestamp+1 *)
Definition nodes_list (all : list nrec) (th : Z) (accepted_only : bool) : list nrec :=
  match find (fun r => r_ts r <? th) (rev all) with
  | Some r => node_sequence all (u64 (r_ts r + 1)) accepted_only
  | None => []
  end.

Definition pledging_node (all : list nrec) (th : Z) : option nrec :=
  match rev (nodes_list all th false) with
  | cn :: _ => if is_pledging cn then Some cn else None
  | [] => None
  end.

(* ---- hours ------------------------------------------------------------ *)

Definition hour_of (epoch ts : Z) : Z := (u64 (ts - epoch) / Consts.QHour) mod 24.

Definition accept_hour (epoch ts : Z) : bool :=
  let h := hour_of epoch ts in
  (Consts.QAcceptTimeBegin <=? h) && (h <=? Consts.QAcceptTimeEnd).

Definition mint_hour (epoch ts : Z) : bool :=
  let h := hour_of epoch ts in
  (Consts.QMintTimeBegin <=? h) && (h <=? Consts.QMintTimeEnd).

Definition pledge_hour (epoch ts : Z) : bool :=
  negb (mint_hour epoch ts) && negb (accept_hour epoch ts).

(* checkUniversalMintPossibility up to the hour test: the batch, or 0 *)
Definition mint_window_batch (epoch ts : Z) : Z :=
  if ts <=? epoch then 0
  else let hours := (ts - epoch) / Consts.QHour in
       let batch := hours / 24 in
       if batch <? 1 then 0
       else if (hours mod 24 <? Consts.QMintTimeBegin) || (Consts.QMintTimeEnd <? hours mod 24) then 0
       else batch.

(* prepareNodeRemovalTime *)
Definition prepare_removal_time (now epoch : Z) : option Z :=
  if now <? epoch then None
  else let since := now - epoch in
       let h := (since / Consts.QHour) mod 24 in
       let b := Consts.QAcceptTimeBegin in
       let e := Consts.QAcceptTimeEnd in
       if (h <=? e) && (h + 12 <? b) then None
       else if (e <? h) && (h <? b + 12) then None
       else Some (u64 (epoch + u64 (u64 (since / Consts.QOneDay * Consts.QOneDay) + u64 (b * Consts.QHour)))).

(* ---- election ----------------------------------------------------------- *)

Definition valid_op (op : Z) : bool :=
  (op =? Consts.QOpMint) || (op =? Consts.QOpNodeRemove) || (op =? Consts.QOpNodePledge)
  || (op =? Consts.QOpCustodianUpdateNodes) || (op =? Consts.QOpCustodianSlashNodes).

(* accepted[1 : len-1] *)
Definition middle (l : list nrec) : list nrec := removelast (tl l).

Definition day_of (epoch now : Z) : Z := u64 (now - epoch) / (Consts.QHour * 24).

(* the election on a given accepted list and day; id 0 is the zero hash *)
Definition elect_on (accepted : list nrec) (day op : Z) : res N :=
  if negb (valid_op op) then Ok 0%N
  else if Z.of_nat (length accepted) <? Consts.QMinNodes then Panic
  else let m := middle accepted in
       match m with
       | [] => Panic   (* integer divide by zero *)
       | _ => match nth_error m (Z.to_nat ((day + op) mod Z.of_nat (length m))) with
              | Some r => Ok (r_id r)
              | None => Panic
              end
       end.

Definition elect (all : list nrec) (epoch op now : Z) : res N :=
  elect_on (nodes_list all now true) (day_of epoch now) op.

(* ---- checkRemovePossibility ------------------------------------------- *)

Definition tx_matches (old : option N) (cn : nrec) : bool :=
  match old with Some h => (r_tx cn =? h)%N | None => false end.

(* the loop: (candidate named by the old transaction, accepted nodes) *)
Fixpoint remove_scan (now : Z) (old : option N) (l : list nrec) : res (option nrec * list nrec) :=
  match l with
  | [] => Ok (None, [])
  | cn :: l' =>
      if tx_matches old cn then
        do ca <- remove_scan now old l';
        Ok (match fst ca with Some c => Some c | None => Some cn end, snd ca)
      else if now <? r_ts cn then Err
      else if to_int64 (now - r_ts cn) <? Consts.QPledgePeriodMinimum then Err
      else match r_state cn with
           | Accepted => do ca <- remove_scan now old l'; Ok (fst ca, cn :: snd ca)
           | Cancelled | Removed => remove_scan now old l'
           | Pledging => Err
           end
  end.

Definition check_remove (all : list nrec) (epoch : Z) (node_id : N) (now : Z) (old : option N) : res nrec :=
  match pledging_node all now with
  | Some _ => Err
  | None =>
      if now <? epoch then Err
      else if negb (accept_hour epoch now) then Err
      else
        do ca <- remove_scan now old (nodes_list all now false);
        if Z.of_nat (length (snd ca)) <=? Consts.QMinNodes then Err
        else match (match fst ca with Some c => Some c | None => hd_error (snd ca) end) with
             | None => Panic
             | Some candi => if (r_id candi =? node_id)%N then Err else Ok candi
             end
  end.

(* ---- accept / cancel timing ------------------------------------------- *)

(* the membership-dependent checks of checkNodeAcceptPossibility (finalized
   snapshots) and validateNodeCancelSnapshot: a pledging node exists, the hour
   is an accept hour, the pledge is between the minimum and maximum period old.
   [signer_ok] says whether the pledging node is the chain's own (accept only). *)
Definition accept_timing (all : list nrec) (epoch ts : Z) (chain_id : option N) : res unit :=
  match pledging_node all ts with
  | None => Err
  | Some p =>
      if match chain_id with Some c => negb (r_id p =? c)%N | None => false end then Err
      else if ts <? epoch then Err
      else if negb (accept_hour epoch ts) then Err
      else if ts <? r_ts p then Err
      else let elapse := to_int64 (ts - r_ts p) in
           if elapse <? Consts.QAcceptPeriodMinimum then Err
           else if Consts.QAcceptPeriodMaximum <? elapse then Err
           else Ok tt
  end.
