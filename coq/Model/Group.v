(* Z_l algebra shared by the CoSi / aggregate-signature / nonce models
   (C12, C13, C14).

   The Ed25519 prime-order group is modelled by discrete logarithms: a point
   P = p.B is the scalar p in [0,l); the group law is addition mod l, scalar
   multiplication is multiplication mod l.  [l] is always a parameter (the
   theorems take [prime l]); nothing here computes with a fixed l.

   What the repository's decodePoint accepts (canonical encoding, prime-order
   subgroup, not the identity) is [point_ok]: 0 < p < l.  Bytes that do not
   decode are represented by a value outside that range (the harness uses -1;
   the identity is 0).  What edwards25519.Scalar.SetCanonicalBytes accepts is
   [scalar_ok]: 0 <= s < l, [s] being the integer value of the 32 bytes.

   Executable; no proofs in this file. *)
From Coq Require Import List ZArith NArith Bool.
Import ListNotations.
Open Scope Z_scope.

Definition fadd (l a b : Z) : Z := (a + b) mod l.
Definition fsub (l a b : Z) : Z := (a - b) mod l.
Definition fmul (l a b : Z) : Z := (a * b) mod l.

(* sum of a list of scalars / points, reduced *)
Definition fsum (l : Z) (xs : list Z) : Z := (fold_right Z.add 0 xs) mod l.

Definition point_ok (l p : Z) : bool := (0 <? p) && (p <? l).
Definition scalar_ok (l s : Z) : bool := (0 <=? s) && (s <? l).

(* ---- byte strings --------------------------------------------------------- *)

(* big-endian, exactly n bytes (value taken mod 256^n) *)
Fixpoint be_bytes (n : nat) (v : N) : list N :=
  match n with
  | O => []
  | S n' => be_bytes n' (N.shiftr v 8) ++ [N.land v 255]
  end.

(* little-endian, exactly n bytes *)
Fixpoint le_bytes (n : nat) (v : N) : list N :=
  match n with
  | O => []
  | S n' => N.land v 255 :: le_bytes n' (N.shiftr v 8)
  end.

(* a 32-byte key / hash / point encoding carried as one N (big-endian value) *)
Definition bytes32 (v : N) : list N := be_bytes 32 v.

(* Go: binary.BigEndian.AppendUint32(nil, uint32(i)) for an int i *)
Definition u32be (i : Z) : list N := be_bytes 4 (Z.to_N (i mod 2 ^ 32)).

(* a canonical scalar as the 32 little-endian bytes edwards25519 uses *)
Definition scalar_bytes (s : Z) : list N := le_bytes 32 (Z.to_N s).

Fixpoint bytes_eqb (a b : list N) : bool :=
  match a, b with
  | [], [] => true
  | x :: a', y :: b' => (x =? y)%N && bytes_eqb a' b'
  | _, _ => false
  end.

(* ---- finite tables instantiating the abstract encoding and hash ---------- *)

Fixpoint lookup_z (t : list (Z * N)) (k : Z) : option N :=
  match t with
  | [] => None
  | (k', v) :: t' => if k =? k' then Some v else lookup_z t' k
  end.

Fixpoint lookup_b (t : list (list N * Z)) (k : list N) : option Z :=
  match t with
  | [] => None
  | (k', v) :: t' => if bytes_eqb k k' then Some v else lookup_b t' k
  end.

Definition enc_of_table (t : list (Z * N)) (p : Z) : N :=
  match lookup_z t p with Some v => v | None => 0%N end.

Definition hash_of_table (t : list (list N * Z)) (b : list N) : Z :=
  match lookup_b t b with Some v => v | None => 0 end.

(* ---- modular inverse (extended Euclid, logarithmic fuel) ------------------ *)

(* (g, u, v) with u*a + v*b = g *)
Fixpoint egcd (fuel : nat) (a b : Z) : Z * Z * Z :=
  match fuel with
  | O => (a, 1, 0)
  | S f =>
      if b =? 0 then (a, 1, 0)
      else let '(g, u, v) := egcd f b (a mod b) in (g, v, u - (a / b) * v)
  end.

Definition modinv (l x : Z) : Z :=
  let '(_, u, _) := egcd (S (S (2 * Z.to_nat (Z.log2_up l)))) (x mod l) l in u mod l.

(* ---- association lists keyed by Go ints ----------------------------------- *)

Fixpoint assoc {A} (t : list (Z * A)) (k : Z) : option A :=
  match t with
  | [] => None
  | (k', v) :: t' => if k =? k' then Some v else assoc t' k
  end.
