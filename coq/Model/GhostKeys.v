(* Model of the one-time output key bindings (C04):
     storage/badger_utxo.go   LockGhostKeys, lockGhostKey, ReadGhostKeyLock
     storage/badger_transaction.go writeUTXO (re-lock of every output key with fork = true)
     common/validation.go     validateOutputs (in-transaction duplicate key filter)
   The GHOST/<key> family is a finite map key -> transaction hash, kept as an
   association list.  Hashes and keys are 32-byte values read as big-endian N;
   the zero hash is "no value" (crypto.Hash.HasValue).
   This file also holds the generic association-list operations used by
   Model/Locks.v.  Executable definitions only. *)
From Coq Require Import List ZArith NArith Bool.
Require Import Mixin.Base.Res Mixin.Gen.Consts.
Import ListNotations.
Open Scope N_scope.

(* ---- finite maps as association lists -------------------------------------
   [aset] replaces the value in place (a Badger Set on an existing key) or
   appends a new record; [adel] removes every record of the key. *)
Section Assoc.
  Context {K V : Type} (eqb : K -> K -> bool).

  Fixpoint afind (k : K) (m : list (K * V)) : option V :=
    match m with
    | [] => None
    | (k', v) :: m' => if eqb k k' then Some v else afind k m'
    end.

  Fixpoint aset (k : K) (v : V) (m : list (K * V)) : list (K * V) :=
    match m with
    | [] => [(k, v)]
    | (k', v') :: m' => if eqb k k' then (k', v) :: m' else (k', v') :: aset k v m'
    end.

  Fixpoint adel (k : K) (m : list (K * V)) : list (K * V) :=
    match m with
    | [] => []
    | (k', v') :: m' => if eqb k k' then adel k m' else (k', v') :: adel k m'
    end.
End Assoc.

Fixpoint memN (x : N) (l : list N) : bool :=
  match l with
  | [] => false
  | y :: l' => (x =? y) || memN x l'
  end.

(* ---- the three hard-coded exceptions of lockGhostKey ---------------------- *)
Definition ghost_exceptions : list N := Consts.GhostExceptionList.

Definition is_exception (tx : N) : bool := memN tx ghost_exceptions.

(* ---- GHOST family --------------------------------------------------------- *)
Definition ghosts := list (N * N).

Definition ghost_lock (g : ghosts) (k : N) : option N := afind N.eqb k g.

(* lockGhostKey: absent -> bind; present: a zero value is a malformed lock;
   the exceptions succeed under fork without touching the binding; otherwise the
   binding must already be the caller's transaction. *)
Definition lock_ghost_key (g : ghosts) (k tx : N) (fork : bool) : res ghosts :=
  match afind N.eqb k g with
  | None => Ok (aset N.eqb k tx g)
  | Some by_ =>
      if by_ =? 0 then Err
      else if fork && is_exception tx then Ok g
      else if by_ =? tx then Ok g
      else Err
  end.

(* LockGhostKeys: one Badger update; a key repeated in the call is refused. *)
Fixpoint lock_ghost_keys_from (seen : list N) (g : ghosts) (ks : list N) (tx : N) (fork : bool)
  : res ghosts :=
  match ks with
  | [] => Ok g
  | k :: ks' =>
      if memN k seen then Err
      else do g' <- lock_ghost_key g k tx fork;
           lock_ghost_keys_from (k :: seen) g' ks' tx fork
  end.

Definition lock_ghost_keys (g : ghosts) (ks : list N) (tx : N) (fork : bool) : res ghosts :=
  lock_ghost_keys_from [] g ks tx fork.

(* writeUTXO: every key of one output is re-locked for the finalized
   transaction with fork = true (no duplicate filter on this path). *)
Fixpoint relock_keys (g : ghosts) (ks : list N) (tx : N) : res ghosts :=
  match ks with
  | [] => Ok g
  | k :: ks' => do g' <- lock_ghost_key g k tx true; relock_keys g' ks' tx
  end.

(* validateOutputs, key part: the keys of all outputs in order; a key seen
   before (in the same or in an earlier output) rejects the transaction before
   the locker is called.  Ok carries the list handed to LockGhostKeys. *)
Fixpoint vo_keys_from (seen : list N) (ks : list N) : res (list N) :=
  match ks with
  | [] => Ok []
  | k :: ks' =>
      if memN k seen then Err
      else do r <- vo_keys_from (k :: seen) ks'; Ok (k :: r)
  end.

Definition vo_keys (outs : list (list N)) : res (list N) := vo_keys_from [] (concat outs).

(* validateOutputs with all other output rules met: filter, then the lock. *)
Definition validate_outputs (g : ghosts) (outs : list (list N)) (tx : N) (fork : bool) : res ghosts :=
  do ks <- vo_keys outs; lock_ghost_keys g ks tx fork.
